/* faultmon - C12: I/O failures are reported and never cost acknowledged data.
 *
 * A seeded single-writer workload (batches with unique marker keys) runs on the
 * real library with ONE fault rule armed at the libc boundary: (operation class,
 * path class, n-th occurrence) x {one-shot, persistent} x errno (x short write).
 * Oracles: no crash / no hang; reads during the run are right (or, under
 * read-side faults, report an error); after the fault is cleared, both a clean
 * close+reopen and a kill image (directory copied as-is) contain every batch that
 * returned OK, whole batches only, nothing that was never written.
 *
 * usage: faultmon --seed S --workload W --shard K --nshards N --dir D [--max-per-site M]
 */
#include <errno.h>
#include <fcntl.h>
#include <malloc.h>
#include <signal.h>
#include <sys/stat.h>
#include <unistd.h>

#include "dbh.h"
#include "iomon.h"
#include "vh.h"

#define NKEYS 50
#define MAXV (48 << 10)

typedef struct upd_s { int key, del; uint64_t vid; uint32_t vlen; } upd_t;
typedef struct batch_s { int id, sync, rc, nupd; upd_t *upd; } batch_t;

static batch_t *batches;
static int nbatches, capbatches;
static vrng_t R;
static uint8_t *vbuf;
static uint64_t g_seed = 1;
static int g_workload = 0;
static char cur_case[300];
static const char *lost_key_override = NULL;
static uint64_t fg_steps;      /* completed API calls of the driving thread (progress measure of the stuck-call watcher) */
#define STEP() __atomic_add_fetch(&fg_steps, 1, __ATOMIC_RELAXED)
static uint64_t fg_progress(void) { return __atomic_load_n(&fg_steps, __ATOMIC_RELAXED); }
static const char *watch_what(void) { return cur_case; }
static void watch_thread_init(void) { iom_pause(1); }

typedef struct site_s { int op, pc; uint64_t nth; int err, persistent, mode; } site_t;

static const char *errname(int e) {
  switch (e) {
    case ENOSPC: return "ENOSPC"; case EIO: return "EIO"; case EMFILE: return "EMFILE";
    case ENOENT: return "ENOENT"; case EACCES: return "EACCES"; default: return "E?";
  }
}

/* keys are not NUL-terminated: never atoi() them */
static int parse_num(const char *p, size_t n) {
  int v = 0;
  size_t i;
  if (n == 0 || n > 9) return -1;
  for (i = 0; i < n; i++) { if (p[i] < '0' || p[i] > '9') return -1; v = v * 10 + (p[i] - '0'); }
  return v;
}

static size_t data_key(char *buf, int idx) { return (size_t)sprintf(buf, "d/%03d", idx); }
static size_t marker_key(char *buf, int id) { return (size_t)sprintf(buf, "m/%08d", id); }
static uint64_t make_vid(int batch, int idx, int odd) {
  return ((((uint64_t)batch << 16) | (uint64_t)(idx & 0xffff)) << 1) | (uint64_t)(odd & 1);
}
static int vid_batch(uint64_t vid) { return (int)(vid >> 17); }

static void reset_batches(void) {
  int i;
  for (i = 0; i < nbatches; i++) free(batches[i].upd);
  nbatches = 0;
}

static batch_t *new_batch(void) {
  batch_t *b;
  if (nbatches == capbatches) {
    capbatches = capbatches ? capbatches * 2 : 512;
    batches = realloc(batches, (size_t)capbatches * sizeof(batch_t));
  }
  b = &batches[nbatches];
  memset(b, 0, sizeof(*b));
  b->id = ++nbatches;
  return b;
}

/* ------------------------------------------------------------------ */
/* read oracle during the run: definite state + possibly-applied failed writes */

typedef struct kstate_s {
  int present; uint64_t vid; uint32_t vlen;     /* fold of batches that returned OK */
  int nmaybe;
  struct { int present; uint64_t vid; uint32_t vlen; } maybe[8];  /* from failed batches since */
  int maybe_overflow;
} kstate_t;

static kstate_t ks[NKEYS];

static void apply_batch_to_oracle(const batch_t *b) {
  int j;
  for (j = 0; j < b->nupd; j++) {
    const upd_t *u = &b->upd[j];
    kstate_t *k = &ks[u->key];
    if (b->rc == LDB_OK) {
      k->present = !u->del; k->vid = u->vid; k->vlen = u->vlen;
      k->nmaybe = 0; k->maybe_overflow = 0;
    } else if (k->nmaybe < 8) {
      k->maybe[k->nmaybe].present = !u->del; k->maybe[k->nmaybe].vid = u->vid; k->maybe[k->nmaybe].vlen = u->vlen;
      k->nmaybe++;
    } else {
      k->maybe_overflow = 1;
    }
  }
}

static uint64_t reads_ok, reads_err;

static void check_read(ldb_t *db, int key, int read_side_fault, const char *when) {
  char kb[16];
  ldb_slice_t k = ldb_slice(kb, data_key(kb, key)), v;
  const kstate_t *s = &ks[key];
  int rc = ldb_get(db, &k, &v, NULL), i, ok = 0;
  STEP();
  if (rc != LDB_OK && rc != LDB_NOTFOUND) {
    reads_err++;
    if (!read_side_fault)
      vh_violation("C12", "read-failed-under-write-side-fault", "%s %s: get(%s) returned %d (%s) although only a write-side call was made to fail",
                   cur_case, when, kb, rc, ldb_strerror(rc));
    return;
  }
  reads_ok++;
  if (rc == LDB_OK) {
    uint64_t vid = vh_value_vid(v.data, v.size);
    if (s->present && s->vid == vid && s->vlen == v.size && vh_check_value(v.data, v.size, vid)) ok = 1;
    for (i = 0; i < s->nmaybe && !ok; i++)
      if (s->maybe[i].present && s->maybe[i].vid == vid && s->maybe[i].vlen == v.size && vh_check_value(v.data, v.size, vid)) ok = 1;
    if (!ok && !s->maybe_overflow)
      vh_violation("C12", "wrong-read-during-fault", "%s %s: get(%s) returned len %zu vid %llx (batch %d); expected %s vid %llx or one of %d possibly-applied failed writes",
                   cur_case, when, kb, v.size, (unsigned long long)vid, vid_batch(vid), s->present ? "value" : "absent",
                   (unsigned long long)s->vid, s->nmaybe);
    ldb_free(v.data);
  } else {
    if (!s->present) ok = 1;
    for (i = 0; i < s->nmaybe && !ok; i++) if (!s->maybe[i].present) ok = 1;
    if (!ok && !s->maybe_overflow)
      vh_violation("C12", "wrong-read-during-fault", "%s %s: get(%s) says NOTFOUND; expected vid %llx (batch %d)", cur_case, when, kb,
                   (unsigned long long)s->vid, vid_batch(s->vid));
  }
}

/* ------------------------------------------------------------------ */
/* workload */

static uint32_t data_vlen(void) {
  uint32_t c = vr_uniform(&R, 1000);
  if (c < 650) return 8 + vr_uniform(&R, 300);
  if (c < 930) return 300 + vr_uniform(&R, 3000);
  if (c < 992) return 4000 + vr_uniform(&R, 12000);
  return 33000 + vr_uniform(&R, 8000);
}

static int issue_batch(dbh_t *h) {
  batch_t *b = new_batch();
  ldb_batch_t *wb = ldb_batch_create();
  ldb_writeopt_t wo = *ldb_writeopt_default;
  char kb[32];
  int i, n = 1 + (int)vr_skewed(&R, 4), id = b->id;
  ldb_slice_t k, v;
  uint64_t idv = (uint64_t)id;
  b->nupd = n;
  b->upd = calloc((size_t)n + 1, sizeof(upd_t));
  b->sync = vr_chance(&R, 250);
  k = ldb_slice(kb, marker_key(kb, id));
  v = ldb_slice(&idv, 8);
  ldb_batch_put(wb, &k, &v);
  for (i = 0; i < n; i++) {
    upd_t *u = &b->upd[i];
    u->key = (int)vr_uniform(&R, NKEYS);
    u->del = vr_chance(&R, 150);
    k = ldb_slice(kb, data_key(kb, u->key));
    if (u->del) {
      ldb_batch_del(wb, &k);
    } else {
      u->vlen = data_vlen();
      u->vid = make_vid(id, i, (int)(vr_next(&R) & 1));
      vh_fill_value(vbuf, u->vlen, u->vid);
      v = ldb_slice(vbuf, u->vlen);
      ldb_batch_put(wb, &k, &v);
    }
  }
  wo.sync = b->sync;
  b->rc = ldb_write(h->db, wb, &wo);
  STEP();
  ldb_batch_destroy(wb);
  apply_batch_to_oracle(b);
  return b->rc;
}

typedef struct runstat_s {
  int ok_writes, failed_writes, first_failure, ok_after_failure, flush_errors;
} runstat_t;

/* the same PRNG stream => the same logical workload for the reference run and every fault case */
static void run_workload(dbh_t *h, int nb, int read_side_fault, runstat_t *st) {
  int i, j;
  memset(st, 0, sizeof(*st));
  for (i = 0; i < nb; i++) {
    int rc = issue_batch(h);
    if (rc == LDB_OK) {
      st->ok_writes++;
      if (st->first_failure) st->ok_after_failure++;
    } else {
      st->failed_writes++;
      if (!st->first_failure) st->first_failure = i + 1;
    }
    /* reads of recently written keys throughout */
    {
      const batch_t *b = &batches[nbatches - 1];
      for (j = 0; j < b->nupd && j < 3; j++) check_read(h->db, b->upd[j].key, read_side_fault, "after-write");
      check_read(h->db, (int)vr_uniform(&R, NKEYS), read_side_fault, "random");
    }
    if (i % 40 == 25) {
      int frc = ldb_test_compact_memtable(h->db);
      STEP();
      if (frc != LDB_OK) st->flush_errors++;
    }
    if (i == nb / 2) { ldb_test_compact_range(h->db, 0, NULL, NULL); STEP(); }
    if (i == (3 * nb) / 4) { ldb_compact(h->db, NULL, NULL); STEP(); }
  }
}

/* ------------------------------------------------------------------ */
/* post-fault verification of a directory */

typedef struct actual_s { int present; uint64_t vid; size_t len; int ok; } actual_t;

static void verify_dir(const char *dir, const cfg_t *cfg, const char *variant, int fired) {
  dbh_t h;
  uint8_t *S = calloc((size_t)nbatches + 2, 1);
  actual_t act[NKEYS];
  ldb_iter_t *it;
  int rc, i, j, st, unknown = 0;
  char umsg[120] = "";
  struct { int present; uint64_t vid; uint32_t vlen; int batch; } exp[NKEYS];

  dbh_init(&h, dir, cfg);
  rc = dbh_open(&h, 0);
  if (rc != LDB_OK) {
    vh_violation("C12", "open-failed-after-fault-cleared", "%s %s: ldb_open after the fault cleared returned %d (%s); last log: %s",
                 cur_case, variant, rc, ldb_strerror(rc), h.log.last_error);
    dbh_destroy(&h);
    free(S);
    return;
  }
  memset(act, 0, sizeof(act));
  it = ldb_iterator(h.db, NULL);
  for (ldb_iter_first(it); ldb_iter_valid(it); ldb_iter_next(it)) {
    ldb_slice_t k = ldb_iter_key(it), v = ldb_iter_value(it);
    STEP();
    const char *kp = k.data;
    if (k.size == 10 && kp[0] == 'm' && kp[1] == '/') {
      int id = parse_num(kp + 2, k.size - 2);
      uint64_t idv = 0;
      if (v.size == 8) memcpy(&idv, v.data, 8);
      if (id >= 1 && id <= nbatches && idv == (uint64_t)id) S[id] = 1;
      else { unknown++; snprintf(umsg, sizeof(umsg), "marker %s", vh_esc(k.data, k.size)); }
    } else if (k.size == 5 && kp[0] == 'd' && kp[1] == '/') {
      int idx = parse_num(kp + 2, k.size - 2);
      if (idx >= 0 && idx < NKEYS) {
        act[idx].present = 1; act[idx].len = v.size; act[idx].vid = vh_value_vid(v.data, v.size);
        act[idx].ok = vh_check_value(v.data, v.size, act[idx].vid);
      } else { unknown++; snprintf(umsg, sizeof(umsg), "key %s", vh_esc(k.data, k.size)); }
    } else { unknown++; snprintf(umsg, sizeof(umsg), "key %s", vh_esc(k.data, k.size)); }
  }
  st = ldb_iter_status(it);
  ldb_iter_destroy(it);
  if (st != LDB_OK) vh_violation("C12", "scan-status-after-fault-cleared", "%s %s: iterator status %d", cur_case, variant, st);
  if (unknown) vh_violation("C12", "value-never-written", "%s %s: %d unknown entries, e.g. %s", cur_case, variant, unknown, umsg);

  /* every write that returned success is still there */
  for (i = 0; i < nbatches; i++) {
    if (batches[i].rc == LDB_OK && !S[batches[i].id]) {
      int first_fail = 0, k2, nok = 0, lost = 0;
      for (k2 = 0; k2 < nbatches; k2++) {
        if (batches[k2].rc != LDB_OK && !first_fail) first_fail = batches[k2].id;
        if (batches[k2].rc == LDB_OK) { nok++; if (!S[batches[k2].id]) lost++; }
      }
      vh_violation("C12", lost_key_override ? lost_key_override :
                   (first_fail && first_fail < batches[i].id) ? "acked-write-after-failure-lost" : "acked-write-before-failure-lost",
                   "%s %s: batch %d returned OK (sync=%d) but is missing after reopen; %d of %d acknowledged batches lost, first failed batch: %d, rule fired %d time(s)",
                   cur_case, variant, batches[i].id, batches[i].sync, lost, nok, first_fail, fired);
      break;
    }
  }
  /* whole batches only, nothing else */
  memset(exp, 0, sizeof(exp));
  for (i = 0; i < nbatches; i++) {
    if (!S[batches[i].id]) continue;
    for (j = 0; j < batches[i].nupd; j++) {
      const upd_t *u = &batches[i].upd[j];
      exp[u->key].present = !u->del; exp[u->key].vid = u->vid; exp[u->key].vlen = u->vlen; exp[u->key].batch = batches[i].id;
    }
  }
  for (i = 0; i < NKEYS; i++) {
    int bad = (exp[i].present != act[i].present) ||
              (exp[i].present && (exp[i].vid != act[i].vid || exp[i].vlen != act[i].len || !act[i].ok));
    if (bad) {
      vh_violation("C12", "contents-not-a-fold-of-whole-batches",
                   "%s %s: key d/%03d expected %s vid %llx (batch %d) got %s vid %llx (batch %d) len %zu",
                   cur_case, variant, i, exp[i].present ? "value" : "absent", (unsigned long long)exp[i].vid, exp[i].batch,
                   act[i].present ? "value" : "absent", (unsigned long long)act[i].vid, vid_batch(act[i].vid), act[i].len);
      break;
    }
  }
  /* the database is usable again */
  {
    char kb[16];
    uint64_t x = 0x1234;
    ldb_slice_t k = ldb_slice(kb, (size_t)sprintf(kb, "z/probe")), v = ldb_slice(&x, 8);
    rc = ldb_put(h.db, &k, &v, NULL);
    STEP();
    if (rc != LDB_OK)
      vh_violation("C12", "write-fails-after-fault-cleared-and-reopen", "%s %s: put after reopen returned %d", cur_case, variant, rc);
  }
  dbh_close(&h);
  dbh_destroy(&h);
  free(S);
}

/* ------------------------------------------------------------------ */

static void on_fatal_signal(int sig) {
  char buf[600];
  int n = snprintf(buf, sizeof(buf), "{\"t\":\"viol\",\"prop\":\"C12\",\"key\":\"crash-under-fault\",\"ctx\":\"faultmon\",\"msg\":\"signal %d during %s\"}\n", sig, cur_case);
  if (n > 0) { ssize_t w = write(1, buf, (size_t)n); (void)w; }
  signal(sig, SIG_DFL);
  raise(sig);
}

static const char *phase_of(uint64_t nth, uint64_t total) {
  if (total == 0) return "none";
  if (nth * 10 <= total) return "early";
  if (nth * 10 >= total * 9) return "late";
  return "steady";
}

int main(int argc, char **argv) {
  int shard = 0, nshards = 1, max_per_site = 10, nb = 160, i, op, pc, only_site = -1;
  const char *base = "/dev/shm/verif-faultmon";
  char dir[600], kdir[600];
  cfg_t cfg;
  dbh_t h;
  runstat_t st;
  uint64_t counts[IOP_MAX][PC_MAX];
  site_t *sites = NULL;
  int nsites = 0, capsites = 0;
  uint64_t wseed;

  for (i = 1; i < argc; i++) {
    if (!strcmp(argv[i], "--seed") && i + 1 < argc) g_seed = strtoull(argv[++i], NULL, 0);
    else if (!strcmp(argv[i], "--workload") && i + 1 < argc) g_workload = atoi(argv[++i]);
    else if (!strcmp(argv[i], "--shard") && i + 1 < argc) shard = atoi(argv[++i]);
    else if (!strcmp(argv[i], "--nshards") && i + 1 < argc) nshards = atoi(argv[++i]);
    else if (!strcmp(argv[i], "--max-per-site") && i + 1 < argc) max_per_site = atoi(argv[++i]);
    else if (!strcmp(argv[i], "--batches") && i + 1 < argc) nb = atoi(argv[++i]);
    else if (!strcmp(argv[i], "--dir") && i + 1 < argc) base = argv[++i];
    else if (!strcmp(argv[i], "--only-site") && i + 1 < argc) only_site = atoi(argv[++i]);
    else { fprintf(stderr, "unknown argument %s\n", argv[i]); return 2; }
  }
  vh_init(NULL);
  mallopt(M_MMAP_THRESHOLD, 64 << 20);
  signal(SIGSEGV, on_fatal_signal); signal(SIGABRT, on_fatal_signal); signal(SIGBUS, on_fatal_signal); signal(SIGFPE, on_fatal_signal);
  vbuf = malloc(MAXV + 64);
  wseed = g_seed * 1000003ULL + (uint64_t)g_workload * 7919ULL;
  vh_set_context("faultmon seed=%llu workload=%d shard=%d/%d", (unsigned long long)g_seed, g_workload, shard, nshards);
  snprintf(dir, sizeof(dir), "%s/w%d-s%d/db", base, g_workload, shard);
  snprintf(kdir, sizeof(kdir), "%s/w%d-s%d/kill", base, g_workload, shard);

  cfg_default(&cfg);
  cfg.write_buffer_size = 64 << 10;
  cfg.max_file_size = 1 << 20;
  cfg.block_size = 1024 << (g_workload % 3);
  cfg.compression = g_workload & 1;
  cfg.reuse_logs = (g_workload >> 1) & 1;
  cfg.use_mmap = (g_workload >> 2) & 1;
  cfg.paranoid = (g_workload >> 3) & 1;
  cfg.filter_bits = (g_workload % 3 == 1) ? 10 : 0;
  cfg.max_open_files = (g_workload % 4 == 3) ? 74 : 1000;

  /* ---- reference run: count occurrences per (op, path class) */
  iom_pause(1); vh_rm_rf(dir); vh_mkdir_p(dir); vh_rm_rf(dir); iom_pause(-1);
  iom_clear_roots();
  iom_add_root(dir);
  iom_counts_reset();
  vr_seed(&R, wseed);
  memset(ks, 0, sizeof(ks));
  snprintf(cur_case, sizeof(cur_case), "[reference run workload %d]", g_workload);
  dbh_init(&h, dir, &cfg);
  if (dbh_open(&h, 1) != LDB_OK) vh_fatal("reference run: cannot create database");
  run_workload(&h, nb, 0, &st);
  if (st.failed_writes) vh_fatal("reference run had %d failed writes", st.failed_writes);
  ldb_verif_wait_idle(h.db);
  dbh_close(&h);
  {
    /* a clean reopen is part of the exercised surface (recovery reads) */
    if (dbh_open(&h, 0) != LDB_OK) vh_fatal("reference run: reopen failed");
    dbh_close(&h);
  }
  dbh_destroy(&h);
  for (op = 0; op < IOP_MAX; op++) for (pc = 0; pc < PC_MAX; pc++) counts[op][pc] = iom_count(op, pc);
  verify_dir(dir, &cfg, "reference", 0);
  if (vh_nviolations() > 0) vh_fatal("reference run without faults produced violations");
  vh_count("reference_runs", 1);

  /* "neither crashes nor hangs": from here on a call that does not return is reported on logical grounds
     (the reference run made `ref_calls` intercepted calls in total; no single call may outlast 3x that, min 60000) */
  {
    uint64_t ref_calls = iom_total_calls(), limit = ref_calls * 3 < 60000 ? 60000 : ref_calls * 3;
    vh_watch_thread_init = watch_thread_init;
    vh_watch_start("C12", fg_progress, iom_total_calls, limit, watch_what);
    vh_count("stuck_call_watcher_io_limit", shard == 0 ? limit : 0);
  }

  /* ---- enumerate sites */
  {
    static const int ops[] = {IOP_CREATE, IOP_WRITE, IOP_FSYNC, IOP_RENAME, IOP_UNLINK, IOP_CLOSE, IOP_OPEN, IOP_READ,
                              IOP_MMAP, IOP_OPENDIR, IOP_LSEEK, IOP_MKDIR, IOP_LINK};
    size_t oi;
    for (oi = 0; oi < sizeof(ops) / sizeof(ops[0]); oi++) {
      op = ops[oi];
      for (pc = 1; pc < PC_MAX; pc++) {
        uint64_t total = counts[op][pc], k, step;
        int errs[3], nerr = 0, ei, pm;
        if (total == 0 || pc == PC_LOCK || pc == PC_INFO) continue;
        errs[nerr++] = ENOSPC; errs[nerr++] = EIO;
        if (op == IOP_CREATE || op == IOP_OPEN || op == IOP_OPENDIR) { errs[0] = EMFILE; errs[nerr++] = ENOENT; }
        if (op == IOP_READ || op == IOP_MMAP || op == IOP_LSEEK) { errs[0] = EIO; nerr = 1; }
        step = total <= (uint64_t)max_per_site ? 1 : total / (uint64_t)max_per_site;
        for (k = 1; k <= total; k++) {
          uint64_t nth = k;
          /* always the first 3 and the last 4 occurrences, in between one per stride at a random phase */
          if (!(k <= 3 || k + 4 > total)) {
            if (step > 1) {
              if ((k - 4) % step != 0) continue;
              nth = k + vr_uniform(&R, (uint32_t)step);
              if (nth + 4 > total) nth = k;
            }
          }
          for (pm = 0; pm < 2; pm++) {
            for (ei = 0; ei < nerr; ei++) {
              int modes = (op == IOP_WRITE) ? 2 : 1, mi;
              for (mi = 0; mi < modes; mi++) {
                site_t sdef;
                if (nsites == capsites) { capsites = capsites ? capsites * 2 : 1024; sites = realloc(sites, (size_t)capsites * sizeof(site_t)); }
                sdef.op = op; sdef.pc = pc; sdef.nth = nth; sdef.err = errs[ei]; sdef.persistent = pm; sdef.mode = mi;
                sites[nsites++] = sdef;
              }
            }
          }
        }
      }
    }
  }
  vh_count("sites_enumerated", (uint64_t)(shard == 0 ? nsites : 0));

  /* ---- fault cases of this shard */
  for (i = shard; i < nsites; i += nshards) {
    const site_t *s = &sites[i];
    int read_side = (s->op == IOP_OPEN || s->op == IOP_READ || s->op == IOP_MMAP || s->op == IOP_LSEEK ||
                     s->op == IOP_OPENDIR);
    uint64_t fired, fired0 = iom_fault_fired();
    int rc, reopened_ok = 1;
    if (only_site >= 0 && i != only_site) continue;
    snprintf(cur_case, sizeof(cur_case), "[site %d workload %d cfg %s: fail %s on %s #%llu/%llu with %s %s%s]", i, g_workload, cfg_id(&cfg),
             iom_opname[s->op], iom_pcname[s->pc], (unsigned long long)s->nth, (unsigned long long)counts[s->op][s->pc],
             errname(s->err), s->persistent ? "persistent" : "one-shot", s->mode == IOF_SHORT ? " short-write" : "");
    iom_pause(1); vh_rm_rf(dir); vh_rm_rf(kdir); iom_pause(-1);
    reset_batches();
    memset(ks, 0, sizeof(ks));
    vr_seed(&R, wseed);
    iom_fault_clear();
    iom_counts_reset();
    dbh_init(&h, dir, &cfg);
    /* the rule is armed before open: faults in database creation count too */
    iom_fault_add(s->op, s->pc, s->nth, s->err, s->persistent, s->mode);
    rc = dbh_open(&h, 1);
    STEP();
    if (rc != LDB_OK) {
      /* creation failed: reported, fine; the directory must be openable/creatable once the fault is gone */
      fired = iom_fault_fired() - fired0;
      iom_fault_clear();
      vh_count("cases_open_failed_under_fault", 1);
      rc = dbh_open(&h, 1);
      if (rc != LDB_OK)
        vh_violation("C12", "open-failed-after-fault-cleared", "%s: open failed under the fault and still fails (%d) after it cleared", cur_case, rc);
      else dbh_close(&h);
      dbh_destroy(&h);
      vh_count("cases", 1);
      if (fired) vh_count("cases_fired", 1);
      continue;
    }
    run_workload(&h, nb, read_side, &st);
    /* recovery under the same rule: a clean close and an open while the fault is still armed */
    ldb_verif_wait_idle(h.db);
    STEP();
    dbh_close(&h);
    STEP();
    rc = dbh_open(&h, 0);
    STEP();
    if (rc != LDB_OK) { reopened_ok = 0; vh_count("cases_reopen_failed_under_fault", 1); }
    fired = iom_fault_fired() - fired0;
    iom_fault_clear();
    if (reopened_ok) ldb_verif_wait_idle(h.db);
    STEP();
    /* variant B: process kill now (directory copied as-is while the handle is idle) */
    iom_pause(1);
    vh_copy_dir(dir, kdir);
    iom_pause(-1);
    dbh_close(&h);
    dbh_destroy(&h);
    vh_count("cases", 1);
    if (fired) {
      vh_count("cases_fired", 1);
      if (st.ok_after_failure > 0 || st.first_failure == 0) vh_count("cases_fired_with_later_acked_writes", 1);
      vh_distinct("c12_site", "%s/%s/%s/%s/%s", iom_opname[s->op], iom_pcname[s->pc],
                  phase_of(s->nth, counts[s->op][s->pc]), s->persistent ? "persistent" : "oneshot",
                  st.failed_writes ? "surfaced-in-writes" : "no-write-failed");
      if (st.failed_writes) vh_count("cases_failure_surfaced_in_write_status", 1);
      if (st.failed_writes && st.ok_after_failure == 0) vh_count("cases_latched_all_later_writes_fail", 1);
    }
    vh_count("writes_ok", (uint64_t)st.ok_writes);
    vh_count("writes_failed", (uint64_t)st.failed_writes);
    /* diagnosed signature of a known, inherited behaviour: with paranoid_checks off, recovery
       ignores a failure to open/read a write-ahead log and then deletes that log */
    lost_key_override = NULL;
    if (!cfg.paranoid && s->pc == PC_LOG && (s->op == IOP_OPEN || s->op == IOP_READ || s->op == IOP_LSEEK) &&
        reopened_ok && st.failed_writes == 0 && fired > 0)
      lost_key_override = "nonparanoid-recovery-drops-unreadable-log";
    verify_dir(dir, &cfg, "close+reopen", (int)fired);
    verify_dir(kdir, &cfg, "kill+reopen", (int)fired);
    lost_key_override = NULL;
    if ((i / nshards) % 97 == 0 || vh_nviolations() > 0)
      vh_sample("C12", "%s fired=%llu: writes ok=%d failed=%d (first failure at batch %d, %d acknowledged after it), reads ok so far=%llu err=%llu",
                cur_case, (unsigned long long)fired, st.ok_writes, st.failed_writes, st.first_failure, st.ok_after_failure,
                (unsigned long long)reads_ok, (unsigned long long)reads_err);
  }
  vh_count("reads_ok", reads_ok);
  vh_count("reads_error_status", reads_err);
  iom_pause(1);
  if (only_site < 0) {
    char top[600];
    snprintf(top, sizeof(top), "%s/w%d-s%d", base, g_workload, shard);
    vh_rm_rf(top);
  }
  iom_pause(-1);
  vh_finish();
  return 0;
}

/* sched - serialising, seeded thread scheduler (E5b).
 *
 * Linked with -Wl,--wrap for the pthread functions in WRAP_SCHED (lib/build.py).
 * While active, exactly one managed thread runs at a time; at every scheduling
 * point (mutex/cond/thread wrappers, every iomon call, every LDB_VERIF_POINT)
 * a seeded strategy picks the next runnable thread.  Mutexes and condition
 * variables are modelled, so the scheduler knows who waits for what:
 * no runnable thread while some thread is unfinished = deadlock / lost wake-up.
 */
#ifndef VSCHED_H
#define VSCHED_H

#include <pthread.h>
#include <stdint.h>

enum { SS_RANDOM = 0, SS_PCT = 1, SS_BG_STARVE = 2, SS_BG_GREEDY = 3, SS_FG_STICKY = 4, SS_NSTRATEGIES,
       /* systematic enumeration (not drawn at random): the default schedule is non-preemptive (the running thread
          continues while it can, otherwise the runnable thread with the lowest id takes over); a schedule is the
          default with up to two DEVIATIONS.  Every decision point with k runnable threads offers k-1 alternatives;
          alternatives are numbered 1,2,3.. in the order they are met (per stage: before the first deviation, after
          it); enum_target[s] names the alternative taken as deviation s+1 (0 = none).  Deterministic workloads
          give the same numbering in every run, so 1..sched_enum_alts(0) enumerates all one-deviation schedules. */
       SS_ENUM = 16 };

typedef struct sched_cfg_s {
  uint64_t seed;
  int strategy;
  int pct_depth;          /* number of priority change points (SS_PCT) */
  uint64_t pct_len;       /* estimated schedule length in steps (SS_PCT) */
  int starve_steps;       /* SS_BG_STARVE: internal threads are not chosen for this many steps at a time */
  int spurious_permille;  /* probability that a cond wait wakes without a signal */
  uint64_t max_steps;     /* "stuck" bound */
  int enum_n;             /* SS_ENUM: number of deviations (0..2) */
  uint64_t enum_target[2];
} sched_cfg_t;

/* called by the harness main thread; it becomes managed thread 0 */
void sched_start(const sched_cfg_t *cfg);
/* all other managed threads must have finished */
void sched_stop(void);
int sched_active(void);

/* explicit scheduling point (also used as iom_yield_hook / ldb_verif_point_cb target) */
void sched_point(int kind);
uint64_t sched_step(void);            /* logical clock */
uint64_t sched_switches(void);
uint64_t sched_enum_alts(int stage);  /* SS_ENUM: alternatives met in stage 0 (before the first deviation) / 1 / 2 */
int sched_enum_taken(void);           /* SS_ENUM: deviations actually taken */
uint64_t sched_signature(void);       /* hash of the sequence of (thread, point kind) switches */
int sched_self(void);                 /* managed thread id of the caller (-1 unmanaged) */
void sched_label(const char *what);   /* current API call of this thread, for diagnostics */
void sched_mark_harness_thread(void); /* the calling thread belongs to the harness (not lcdb-internal) */

/* failure callback: kind = "deadlock" | "stuck" | "destroy-locked-mutex" | "destroy-cond-with-waiters" |
   "unlock-not-owner" | "relock"; msg describes every thread.  Default prints and _exit(3). */
extern void (*sched_on_failure)(const char *kind, const char *msg);

/* evidence */
typedef struct sched_stats_s {
  uint64_t steps, switches, cond_waits, cond_wakes, spurious, mutex_blocks, sleeps, threads_created;
  uint64_t wake_pairs[8][8];   /* [cond class of waiter][waker thread kind/class] rough matrix */
  int cond_classes;
} sched_stats_t;
const sched_stats_t *sched_stats(void);
/* classification of the cond var a thread waited on: 0 = unknown, 1..3 = created in ldb_open order, 4 = writer cv */
void sched_cond_class_hint(int cls);  /* harness sets the class applied to conds initialised from now on (0 = auto) */

enum { SP_LOCK = 1, SP_UNLOCK, SP_WAIT, SP_SIGNAL, SP_CREATE, SP_JOIN, SP_SLEEP, SP_IO, SP_HOOK, SP_USER, SP_EXIT };

#endif

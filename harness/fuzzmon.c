/* fuzzmon - C18 "decoders are total and memory-safe on arbitrary bytes".
 *
 * Runs the REAL lcdb decoders (directly, and through whole-database operations on
 * mutated directories) on hostile inputs while ASan/UBSan, fatal signals and a
 * per-case CPU guard watch.  The monitor decides nothing about results except
 * "the call returned".
 *
 * usage: fuzzmon --seed S --mode direct|db --first I --count N --dir D [--target T]
 *                [--batch B] [--cpu-limit SEC] [--keep]
 *   --target T     direct mode only: block footer handle readblock filter snappy edit batch
 *                  logreader pkey filename coding dumpfile table (changes the case stream)
 *   --batch B      cases per forked child (default 5000 direct, 100 db)
 *   --cpu-limit S  per-case CPU guard in seconds (default 20; wall guard = 6 x S)
 *   --keep         keep the work directory (db case directories)
 *   env VERIF_FZ_DEBUG=1 writes per-case / per-phase timings to /tmp/fuzzmon-*.txt,
 *   env VERIF_FZ_SPIN=<case> makes that case spin (self-test of the CPU guard).
 * build: build_harness('fuzzmon', 'asan'|'rel', ['fuzzmon.c','vh.c','refcodec.c'], wrap=())
 *
 * violation keys: <kind>@<target>, kind in asan:<error>, ubsan:<check>, abort, alloc-bomb,
 * signal-<n>, non-termination, exit.  Witness: <dir>/witness-<target>-<case>.bin (+ the whole
 * case directory <dir>/witness-db-<case>.dir in db mode).
 *
 * Every case is a pure function of (seed, mode, case index[, --target]); a single
 * case is replayed with `--first I --count 1`.  The parent forks one child per
 * batch of cases; the child publishes (case, target, input bytes) in a MAP_SHARED
 * area before running it, so that the parent can save the witness of a dying child,
 * classify the death from the child's stderr, and continue after the killer case.
 */
#include <dirent.h>
#include <errno.h>
#include <fcntl.h>
#include <signal.h>
#include <stdarg.h>
#include <sys/mman.h>
#include <sys/stat.h>
#include <sys/time.h>
#include <sys/wait.h>
#include <unistd.h>

#include "util/bloom.h"
#include "util/buffer.h"
#include "util/cache.h"
#include "util/coding.h"
#include "util/comparator.h"
#include "util/crc32c.h"
#include "util/env.h"
#include "util/internal.h"
#include "util/options.h"
#include "util/slice.h"
#include "util/snappy.h"
#include "util/status.h"
#include "util/strutil.h"
#include "table/block.h"
#include "table/block_builder.h"
#include "table/filter_block.h"
#include "table/format.h"
#include "table/iterator.h"
#include "table/table.h"
#include "table/table_builder.h"
#include "db_impl.h"
#include "dbformat.h"
#include "dumpfile.h"
#include "filename.h"
#include "log_format.h"
#include "log_reader.h"
#include "log_writer.h"
#include "memtable.h"
#include "version_edit.h"
#include "write_batch.h"

#include "refcodec.h"
#include "vh.h"

/* ------------------------------------------------------------------ */
/* sanitizer run-time options compiled into the program (the oracle) */

__attribute__((used, visibility("default"), no_sanitize("address", "undefined")))
const char *__asan_default_options(void) {
  return "abort_on_error=1:detect_leaks=0:allocator_may_return_null=1:"
         "max_allocation_size_mb=64:handle_abort=1:quarantine_size_mb=16:malloc_context_size=12";
}

__attribute__((used, visibility("default"), no_sanitize("address", "undefined")))
const char *__ubsan_default_options(void) {
  return "print_stacktrace=1:halt_on_error=1";
}

#if defined(__SANITIZE_ADDRESS__)
void *__asan_region_is_poisoned(void *beg, size_t size);
#define HAVE_ASAN 1
#else
#define HAVE_ASAN 0
#endif

/* ------------------------------------------------------------------ */
/* targets, classes, shared area */

enum { T_BLOCK, T_FOOTER, T_HANDLE, T_READBLOCK, T_FILTER, T_SNAPPY, T_EDIT, T_BATCH, T_LOGREADER,
       T_PKEY, T_FILENAME, T_CODING, T_DUMPFILE, T_TABLE, T_DB, T_N };
static const char *tname[T_N] = {"block", "footer", "handle", "readblock", "filter", "snappy", "edit",
                                 "batch", "logreader", "pkey", "filename", "coding", "dumpfile",
                                 "table", "db"};
/* relative weights of the direct targets when --target is not given */
static const int tweight[T_N] = {18, 4, 3, 6, 8, 10, 10, 10, 8, 3, 4, 5, 4, 7, 0};

enum { CL_RANDOM, CL_VALID, CL_MUTATE, CL_SPLICE, CL_HAVOC, CL_N };
static const char *clname[CL_N] = {"random", "valid", "mutate", "splice", "havoc"};

#define MAXIN 65536
#define NDIST 16384
#define DISTLEN 96
#define NSAMP 24

enum { X_DB_OPEN_OK, X_DB_OPEN_FAIL, X_DB_GETS, X_DB_GET_FOUND, X_DB_SCAN_ENTRIES, X_DB_SCAN_ERR,
       X_DB_COMPACTS, X_DB_REPAIR_OK, X_DB_REPAIR_FAIL, X_DB_REOPEN_OK, X_DB_REOPEN_FAIL, X_DB_DUMPS,
       X_DB_DUMP_OK, X_BLOCK_ENTRIES, X_TABLE_ENTRIES, X_LOG_RECORDS, X_LOG_DROPS, X_BATCH_RECORDS,
       X_EDIT_OK, X_SNAPPY_OK, X_READBLOCK_OK, X_FILTER_PROBES, X_DUMP_OK, X_N };
static const char *xname[X_N] = {
  "db_open_ok", "db_open_fail", "db_gets", "db_get_found", "db_scan_entries", "db_scan_err",
  "db_compacts", "db_repair_ok", "db_repair_fail", "db_reopen_after_repair_ok",
  "db_reopen_after_repair_fail", "db_dumps", "db_dump_ok", "block_entries_parsed",
  "table_entries_parsed", "log_records_read", "log_drops_reported", "batch_records_seen",
  "edit_import_ok", "snappy_decode_ok", "readblock_ok", "filter_probes", "dumpfile_ok"};

typedef struct shared_s {
  volatile int64_t cur_case;      /* case being run (-1: none) */
  volatile int cur_target, cur_class;
  volatile int finished;          /* child ran its whole batch */
  volatile uint32_t in_len;       /* full length of the input */
  char desc[200];                 /* "<field>|<class>" of the mutation(s) */
  char phase[96];                 /* operation in flight (db mode, multi-step targets) */
  uint8_t in[MAXIN];
  uint64_t cases[T_N], entered[T_N], tc[T_N][CL_N], x[X_N];
  uint64_t slow_cases;
  uint32_t ndist;
  char dist[NDIST][DISTLEN];      /* open addressing, "" = empty */
  uint32_t nsamp;
  char samp[NSAMP][400];
  uint8_t samp_have[T_N][CL_N];
} shared_t;

static shared_t *shm;
static uint64_t g_seed = 1;
static int g_mode_db = 0;
static int g_only_target = -1;
static int g_keep = 0, g_debug = 0;
static long g_cpu_limit = 20, g_wall_limit = 120;
static char g_dir[600], g_work[700];
static int g_entered;            /* set by target code when the decoder proper was reached */
static FILE *g_devnull;

#define ENTER() (g_entered = 1)
static void phase_tick(void);
#define PHASE(...) do { if (g_debug) phase_tick(); snprintf(shm->phase, sizeof(shm->phase), __VA_ARGS__); } while (0)

static volatile uint64_t g_sink;

/* VERIF_FZ_DEBUG: time spent per phase, appended to /tmp/fuzzmon-phases.txt */
static void phase_tick(void) {
  static double last = 0;
  double now = vh_now();
  if (last > 0 && shm->phase[0]) {
    FILE *f = fopen("/tmp/fuzzmon-phases.txt", "a");
    if (f) { fprintf(f, "%.2f %.20s\n", (now - last) * 1e3, shm->phase); fclose(f); }
  }
  last = now;
}

/* Read every byte of a slice the library handed back: under ASan a slice that
   leaves its allocation is reported at its first poisoned byte. */
static void touch(const void *ptr, size_t n) {
  const uint8_t *p = ptr;
  if (n == 0) return;
#if HAVE_ASAN
  {
    uint8_t *bad = __asan_region_is_poisoned((void *)p, n);
    if (bad != NULL) g_sink += *(volatile uint8_t *)bad;   /* genuine ASan report */
    g_sink += p[0] + p[n - 1];
  }
#else
  {
    uint64_t s = 0;
    size_t i;
    for (i = 0; i < n; i++) s += p[i];
    g_sink += s;
  }
#endif
}

static void touch_slice(const ldb_slice_t *s) { touch(s->data, s->size); }

/* ------------------------------------------------------------------ */
/* byte-buffer helpers (rc_buf_t) */

static void bput(rc_buf_t *b, const void *p, size_t n) { if (n) rc_buf_append(b, p, n); }
static void bput32(rc_buf_t *b, uint32_t v) { uint8_t t[4]; rc_put_fixed32(t, v); bput(b, t, 4); }
static void bput64(rc_buf_t *b, uint64_t v) { uint8_t t[8]; rc_put_fixed64(t, v); bput(b, t, 8); }
static void bputv(rc_buf_t *b, uint64_t v) { uint8_t t[10]; bput(b, t, (size_t)rc_put_varint64(t, v)); }

static int vlen64(uint64_t v) { int n = 1; while (v >= 128) { v >>= 7; n++; } return n; }

/* exactly nbytes bytes (continuation bit on all but the last); nbytes==0: canonical */
static void bputvn(rc_buf_t *b, uint64_t v, int nbytes) {
  int i, c = vlen64(v);
  if (nbytes < c) nbytes = c;
  for (i = 0; i < nbytes; i++) {
    uint8_t ch = (uint8_t)(v & 0x7f);
    v >>= 7;
    if (i != nbytes - 1) ch |= 0x80;
    rc_buf_push(b, ch);
  }
}

static void bset(rc_buf_t *b, const void *p, size_t n) { rc_buf_reset(b); bput(b, p, n); }

/* replace b[pos, pos+oldlen) by rep[0, replen) */
static void breplace(rc_buf_t *b, size_t pos, size_t oldlen, const void *rep, size_t replen) {
  rc_buf_t t;
  if (pos > b->len) pos = b->len;
  if (oldlen > b->len - pos) oldlen = b->len - pos;
  rc_buf_init(&t);
  bput(&t, b->data, pos);
  bput(&t, rep, replen);
  bput(&t, b->data + pos + oldlen, b->len - pos - oldlen);
  rc_buf_free(b);
  *b = t;
}

static void btrunc(rc_buf_t *b, size_t n) { if (n < b->len) b->len = n; }

/* table-driven CRC-32C for re-sealing mutated blocks/records (checked against refcodec at start) */
static uint32_t crc_tab[256];
static void crc_init(void) {
  uint32_t i, j;
  for (i = 0; i < 256; i++) {
    uint32_t c = i;
    for (j = 0; j < 8; j++) c = (c & 1) ? (c >> 1) ^ 0x82F63B78u : c >> 1;
    crc_tab[i] = c;
  }
}
static uint32_t crc_ext(uint32_t crc, const uint8_t *p, size_t n) {
  size_t i;
  crc = ~crc;
  for (i = 0; i < n; i++) crc = crc_tab[(crc ^ p[i]) & 0xff] ^ (crc >> 8);
  return ~crc;
}
static uint32_t crc_of(const uint8_t *p, size_t n) { return crc_ext(0, p, n); }

/* ------------------------------------------------------------------ */
/* PRNG helpers and boundary values */

static uint32_t rU(vrng_t *r, uint32_t n) { return vr_uniform(r, n); }
static int rP(vrng_t *r, uint32_t permille) { return vr_chance(r, permille); }

static void rbytes(vrng_t *r, uint8_t *p, size_t n, int style) {
  static const uint8_t alpha[] = {0, 0, 1, 2, 7, 8, 0x7f, 0x80, 0x81, 0xff, 0xfe, 'a'};
  size_t i;
  uint64_t x = 0;
  for (i = 0; i < n; i++) {
    if ((i & 7) == 0) x = vr_next(r);
    if (style == 0) p[i] = (uint8_t)(x >> ((i & 7) * 8));
    else if (style == 1) p[i] = alpha[(x >> ((i & 7) * 8)) % sizeof(alpha)];
    else p[i] = ((x >> ((i & 7) * 8)) & 3) ? alpha[(x >> ((i & 7) * 8 + 2)) % sizeof(alpha)] : (uint8_t)(x >> 5);
  }
}

static void brand(rc_buf_t *b, vrng_t *r, size_t n) {
  uint8_t tmp[256];
  int style = (int)rU(r, 4);
  if (style == 3) style = 0;
  while (n > 0) {
    size_t k = n > sizeof(tmp) ? sizeof(tmp) : n;
    rbytes(r, tmp, k, style);
    bput(b, tmp, k);
    n -= k;
  }
}

static size_t rand_len(vrng_t *r) { size_t n = vr_skewed(r, 16); return n > MAXIN ? MAXIN : n; }

typedef struct pick_s { uint64_t v; char cls[28]; int nbytes; } pick_t;

/* 32-bit boundary value relative to n (the correct / contextual value) */
static void pick32(vrng_t *r, uint64_t n, pick_t *p) {
  static const char *nm[] = {"0", "1", "n-1", "n", "n+1", "0x7f", "0x80", "0xff", "2^14", "2^21",
                             "2^28", "2^31-1", "2^31", "2^32-1", "rand"};
  uint64_t vals[15];
  int k = (int)rU(r, 15);
  vals[0] = 0; vals[1] = 1; vals[2] = n - 1; vals[3] = n; vals[4] = n + 1; vals[5] = 0x7f;
  vals[6] = 0x80; vals[7] = 0xff; vals[8] = 1u << 14; vals[9] = 1u << 21; vals[10] = 1u << 28;
  vals[11] = 0x7fffffffu; vals[12] = 0x80000000u; vals[13] = 0xffffffffu;
  vals[14] = vr_next(r) >> (32 + rU(r, 32));
  if (vals[14] > (1u << 20) && vals[14] < (1u << 27) && rU(r, 8)) vals[14] >>= 8;   /* huge-but-allocatable sizes are slow */
  p->v = vals[k] & 0xffffffffu;
  p->nbytes = 0;
  snprintf(p->cls, sizeof(p->cls), "%s", nm[k]);
  if (rP(r, 150)) {   /* over-long encoding: up to 5 bytes is legal, 6 is not a varint32 */
    int c = vlen64(p->v), nb = c + 1 + (int)rU(r, 2);
    if (nb > 6) nb = 6;
    if (nb < 5 && rP(r, 500)) nb = 5 + (int)rU(r, 2);
    p->nbytes = nb;
    snprintf(p->cls + strlen(p->cls), sizeof(p->cls) - strlen(p->cls), "/ol%d", nb);
  }
}

/* 64-bit boundary value relative to n (correct value) and fs (container / file size) */
static void pick64(vrng_t *r, uint64_t n, uint64_t fs, pick_t *p) {
  static const char *nm[] = {"0", "1", "n-1", "n", "n+1", "fs-1", "fs", "fs+1", "2^31", "2^32",
                             "2^63", "2^64-1", "wrap", "fs-5", "rand"};
  uint64_t vals[15];
  int k = (int)rU(r, 15);
  vals[0] = 0; vals[1] = 1; vals[2] = n - 1; vals[3] = n; vals[4] = n + 1; vals[5] = fs - 1;
  vals[6] = fs; vals[7] = fs + 1; vals[8] = (uint64_t)1 << 31; vals[9] = (uint64_t)1 << 32;
  vals[10] = (uint64_t)1 << 63; vals[11] = ~(uint64_t)0;
  vals[12] = ~(uint64_t)0 - rU(r, 12);              /* offset+size+5 wraps for small partners */
  vals[13] = fs - 5 - rU(r, 2);
  vals[14] = vr_next(r) >> rU(r, 64);
  if (vals[14] > (1u << 20) && vals[14] < (1u << 27) && rU(r, 8)) vals[14] >>= 8;
  p->v = vals[k];
  p->nbytes = 0;
  snprintf(p->cls, sizeof(p->cls), "%s", nm[k]);
  if (rP(r, 120)) {
    int c = vlen64(p->v), nb = c + 1 + (int)rU(r, 2);
    if (nb > 11) nb = 11;
    if (nb < 10 && rP(r, 400)) nb = 10 + (int)rU(r, 2);
    p->nbytes = nb;
    snprintf(p->cls + strlen(p->cls), sizeof(p->cls) - strlen(p->cls), "/ol%d", nb);
  }
}

/* generic byte-level damage */
static void havoc(rc_buf_t *b, vrng_t *r) {
  static const uint8_t ib[] = {0, 1, 0x7f, 0x80, 0xff, 0xfe, 2, 8};
  static const uint32_t iw[] = {0, 1, 0x7f, 0x80, 0xffff, 0x10000, 0x7fffffff, 0x80000000u, 0xffffffffu};
  int n = 1 + (int)vr_skewed(r, 3), i;
  for (i = 0; i < n; i++) {
    size_t len = b->len, pos = len ? rU(r, (uint32_t)len) : 0;
    switch (rU(r, 8)) {
      case 0: if (len) b->data[pos] ^= (uint8_t)(1u << rU(r, 8)); break;
      case 1: if (len) b->data[pos] = ib[rU(r, sizeof(ib))]; break;
      case 2: if (len >= 4) { if (pos > len - 4) pos = len - 4; rc_put_fixed32(b->data + pos, iw[rU(r, 9)]); } break;
      case 3: if (len) { size_t k = 1 + vr_skewed(r, 6); breplace(b, pos, k, NULL, 0); } break;
      case 4: { uint8_t t[64]; size_t k = 1 + rU(r, 32); rbytes(r, t, k, (int)rU(r, 3)); if (b->len + k <= MAXIN) breplace(b, pos, 0, t, k); } break;
      case 5: if (len) { size_t k = 1 + vr_skewed(r, 8); uint8_t *t; if (k > len - pos) k = len - pos;
                if (b->len + k <= MAXIN) { t = malloc(k); memcpy(t, b->data + pos, k); breplace(b, pos, 0, t, k); free(t); } } break;
      case 6: if (len) btrunc(b, pos); break;
      default: if (len) b->data[pos] = (uint8_t)vr_next(r); break;
    }
  }
}

static void set_desc(char *desc, const char *field, const char *cls) { snprintf(desc, 160, "%s|%s", field, cls); }

/* ------------------------------------------------------------------ */
/* blocks: template parse + structure-aware mutation */

typedef struct bent_s { uint32_t off, l_sh, l_ns, l_vl, shared, nonshared, vlen; } bent_t;

typedef struct btpl_s {
  uint8_t *data; size_t len;
  int internal;                 /* keys are internal keys */
  bent_t *ent; int nent;
  uint32_t nrestarts, restarts_off;
} btpl_t;

static int btpl_parse(btpl_t *t) {
  size_t p = 0;
  int cap = 0;
  t->ent = NULL; t->nent = 0;
  if (t->len < 4) return 0;
  t->nrestarts = rc_get_fixed32(t->data + t->len - 4);
  if (t->nrestarts > (t->len - 4) / 4) return 0;
  t->restarts_off = (uint32_t)(t->len - 4 * ((size_t)t->nrestarts + 1));
  while (p < t->restarts_off) {
    const uint8_t *lim = t->data + t->restarts_off;
    bent_t e;
    int a, b, c;
    if ((a = rc_get_varint32(t->data + p, lim, &e.shared)) < 0) break;
    if ((b = rc_get_varint32(t->data + p + a, lim, &e.nonshared)) < 0) break;
    if ((c = rc_get_varint32(t->data + p + a + b, lim, &e.vlen)) < 0) break;
    e.off = (uint32_t)p; e.l_sh = (uint32_t)a; e.l_ns = (uint32_t)b; e.l_vl = (uint32_t)c;
    if ((uint64_t)p + a + b + c + e.nonshared + e.vlen > t->restarts_off) break;
    if (t->nent == cap) { cap = cap ? cap * 2 : 32; t->ent = realloc(t->ent, (size_t)cap * sizeof(bent_t)); }
    t->ent[t->nent++] = e;
    p += (size_t)a + b + c + e.nonshared + e.vlen;
  }
  return 1;
}

static void btpl_free(btpl_t *t) { free(t->ent); t->ent = NULL; t->nent = 0; }

/* one structural mutation of a valid block; out = mutated bytes */
static void mut_block(const btpl_t *t, vrng_t *r, rc_buf_t *out, char *desc) {
  pick_t pk;
  int kind = (int)rU(r, 100);
  bset(out, t->data, t->len);
  if (t->len < 4) { havoc(out, r); set_desc(desc, "blk-short", "havoc"); return; }
  if (kind < 14) {                                  /* restart count */
    uint32_t maxr = (uint32_t)((t->len - 4) / 4);
    if (rP(r, 350)) { pk.v = maxr + rU(r, 3) - 1; snprintf(pk.cls, sizeof(pk.cls), "max%+d", (int)(pk.v - maxr)); }
    else pick32(r, t->nrestarts, &pk);
    rc_put_fixed32(out->data + out->len - 4, (uint32_t)pk.v);
    set_desc(desc, "blk-num_restarts", pk.cls);
  } else if (kind < 30 && t->nrestarts > 0) {       /* one restart offset */
    uint32_t i = rU(r, t->nrestarts), orig = rc_get_fixed32(t->data + t->restarts_off + 4 * i);
    int k = (int)rU(r, 8);
    if (k == 0) { pk.v = t->restarts_off; strcpy(pk.cls, "roff"); }
    else if (k == 1) { pk.v = t->restarts_off - 1; strcpy(pk.cls, "roff-1"); }
    else if (k == 2) { pk.v = t->restarts_off + 1; strcpy(pk.cls, "roff+1"); }
    else if (k == 3) { pk.v = t->len; strcpy(pk.cls, "size"); }
    else if (k == 4 && t->nent > 0) { const bent_t *e = &t->ent[rU(r, (uint32_t)t->nent)]; pk.v = e->off + 1 + rU(r, 3); strcpy(pk.cls, "mid-entry"); }
    else pick32(r, orig, &pk);
    rc_put_fixed32(out->data + t->restarts_off + 4 * i, (uint32_t)pk.v);
    set_desc(desc, "blk-restart", pk.cls);
  } else if (kind < 80 && t->nent > 0) {            /* shared / non_shared / value_len varint */
    const bent_t *e = &t->ent[rP(r, 300) ? (uint32_t)(t->nent - 1) : rU(r, (uint32_t)t->nent)];
    int which = (int)rU(r, 3), k = (int)rU(r, 10);
    uint32_t pos = e->off + (which > 0 ? e->l_sh : 0) + (which > 1 ? e->l_ns : 0);
    uint32_t oldlen = which == 0 ? e->l_sh : which == 1 ? e->l_ns : e->l_vl;
    uint32_t orig = which == 0 ? e->shared : which == 1 ? e->nonshared : e->vlen;
    uint32_t remain = t->restarts_off - (e->off + e->l_sh + e->l_ns + e->l_vl);
    rc_buf_t v;
    static const char *fn[] = {"blk-shared", "blk-non_shared", "blk-value_len"};
    if (k == 0) { pk.v = remain; pk.nbytes = 0; strcpy(pk.cls, "remain"); }
    else if (k == 1) { pk.v = remain + 1; pk.nbytes = 0; strcpy(pk.cls, "remain+1"); }
    else if (k == 2 && t->internal && which == 1) { pk.v = rU(r, 8) > e->shared ? rU(r, 8) - e->shared : 0; pk.nbytes = 0; strcpy(pk.cls, "ikey<8"); }
    else if (k == 3 && which == 0) { pk.v = (uint64_t)e->shared + e->nonshared + 1 + rU(r, 200); pk.nbytes = 0; strcpy(pk.cls, "gt-prevkey"); }
    else pick32(r, orig, &pk);
    rc_buf_init(&v);
    bputvn(&v, pk.v, pk.nbytes);
    breplace(out, pos, oldlen, v.data, v.len);
    if (v.len != oldlen && rP(r, 600) && out->len >= 4 * ((size_t)t->nrestarts + 1)) {
      /* keep the restart array consistent with the shifted entries */
      size_t ro = out->len - 4 * ((size_t)t->nrestarts + 1);
      uint32_t i;
      for (i = 0; i < t->nrestarts; i++) {
        uint32_t x = rc_get_fixed32(out->data + ro + 4 * i);
        if (x > pos) rc_put_fixed32(out->data + ro + 4 * i, (uint32_t)(x + v.len - oldlen));
      }
    }
    rc_buf_free(&v);
    set_desc(desc, fn[which], pk.cls);
  } else if (kind < 88) {                           /* truncate */
    size_t cut;
    int k = (int)rU(r, 4);
    if (k == 0) cut = rU(r, 8);
    else if (k == 1) cut = t->restarts_off + rU(r, 4 * (t->nrestarts + 1) + 1);
    else if (k == 2 && t->nent > 0) cut = t->ent[rU(r, (uint32_t)t->nent)].off + rU(r, 4);
    else cut = rU(r, (uint32_t)t->len);
    btrunc(out, cut);
    set_desc(desc, "blk-truncate", k == 0 ? "tiny" : k == 1 ? "in-restarts" : k == 2 ? "in-entry" : "any");
  } else if (kind < 94) {                           /* duplicate tail */
    size_t k = 1 + rU(r, (uint32_t)(t->len < 64 ? t->len : 64));
    bput(out, t->data + t->len - k, k);
    set_desc(desc, "blk-dup-tail", k < 8 ? "short" : "long");
  } else {
    havoc(out, r);
    set_desc(desc, "blk-bytes", "havoc");
  }
}

/* harness-side block writer used to rebuild index / metaindex blocks around mutated handles */
static void blk_write(rc_buf_t *out, const uint8_t *const *keys, const size_t *klen,
                      const uint8_t *const *vals, const size_t *vlen, int n, int interval) {
  uint32_t restarts[256];
  int nr = 0, i;
  const uint8_t *last = NULL;
  size_t lastlen = 0;
  rc_buf_reset(out);
  for (i = 0; i < n; i++) {
    size_t shared = 0;
    if (i % interval == 0) { if (nr < 256) restarts[nr++] = (uint32_t)out->len; }
    else { size_t m = lastlen < klen[i] ? lastlen : klen[i]; while (shared < m && last[shared] == keys[i][shared]) shared++; }
    bputv(out, shared); bputv(out, klen[i] - shared); bputv(out, vlen[i]);
    bput(out, keys[i] + shared, klen[i] - shared);
    bput(out, vals[i], vlen[i]);
    last = keys[i]; lastlen = klen[i];
  }
  if (nr == 0) restarts[nr++] = 0;
  for (i = 0; i < nr; i++) bput32(out, restarts[i]);
  bput32(out, (uint32_t)nr);
}

/* ------------------------------------------------------------------ */
/* filter blocks */

static void mut_filter(const uint8_t *f, size_t n, vrng_t *r, rc_buf_t *out, char *desc) {
  static const uint8_t lgs[] = {0, 11, 12, 31, 32, 63, 64, 255, 1, 10};
  pick_t pk;
  int kind = (int)rU(r, 100);
  bset(out, f, n);
  if (n < 5) { havoc(out, r); set_desc(desc, "flt-short", "havoc"); return; }
  {
    uint32_t last_word = rc_get_fixed32(f + n - 5);
    uint32_t num = last_word <= n - 5 ? (uint32_t)((n - 5 - last_word) / 4) : 0;
    if (kind < 22) {
      uint8_t v = lgs[rU(r, sizeof(lgs))];
      out->data[n - 1] = v;
      snprintf(pk.cls, sizeof(pk.cls), "%u", v);
      set_desc(desc, "flt-base_lg", pk.cls);
    } else if (kind < 45) {
      int k = (int)rU(r, 6);
      if (k == 0) { pk.v = n - 5; strcpy(pk.cls, "n-5"); }
      else if (k == 1) { pk.v = n - 4; strcpy(pk.cls, "n-5+1"); }
      else if (k == 2) { pk.v = n - 6; strcpy(pk.cls, "n-5-1"); }
      else if (k == 3) { pk.v = n; strcpy(pk.cls, "size"); }
      else pick32(r, last_word, &pk);
      rc_put_fixed32(out->data + n - 5, (uint32_t)pk.v);
      set_desc(desc, "flt-last_word", pk.cls);
    } else if (kind < 75 && num > 0) {
      uint32_t i = rU(r, num + 1);   /* entry num is last_word itself (the limit of the last filter) */
      uint32_t orig = rc_get_fixed32(f + last_word + 4 * i);
      int k = (int)rU(r, 6);
      if (k == 0) { pk.v = last_word; strcpy(pk.cls, "array_off"); }
      else if (k == 1) { pk.v = last_word + 1; strcpy(pk.cls, "array_off+1"); }
      else if (k == 2) { pk.v = last_word - 1; strcpy(pk.cls, "array_off-1"); }
      else pick32(r, orig, &pk);
      rc_put_fixed32(out->data + last_word + 4 * i, (uint32_t)pk.v);
      set_desc(desc, "flt-offset", pk.cls);
    } else if (kind < 83 && last_word > 0) {      /* k (probe count) byte of a filter */
      static const uint8_t ks[] = {0, 1, 30, 31, 255};
      uint32_t pos = num > 0 ? rc_get_fixed32(f + last_word + 4 * (1 + rU(r, num))) : last_word;
      uint8_t v = ks[rU(r, 5)];
      if (pos == 0 || pos > last_word) pos = last_word;
      out->data[pos - 1] = v;
      snprintf(pk.cls, sizeof(pk.cls), "%u", v);
      set_desc(desc, "flt-k", pk.cls);
    } else if (kind < 92) {
      size_t cut = rP(r, 500) ? rU(r, 9) : rU(r, (uint32_t)n);
      btrunc(out, cut);
      set_desc(desc, "flt-truncate", cut < 5 ? "lt5" : "any");
    } else {
      havoc(out, r);
      set_desc(desc, "flt-bytes", "havoc");
    }
  }
}

/* ------------------------------------------------------------------ */
/* snappy streams */

typedef struct sel_s { uint32_t off, hdr, len, copy_off, produced; uint8_t kind; } sel_t;

/* walk a VALID stream; returns number of elements (<= max) */
static int snappy_walk(const uint8_t *p, size_t n, sel_t *el, int max, uint32_t *preamble_len, uint32_t *ulen) {
  uint32_t u;
  int a = rc_get_varint32(p, p + n, &u), ne = 0;
  size_t pos;
  uint32_t produced = 0;
  if (a < 0) return -1;
  *preamble_len = (uint32_t)a; *ulen = u;
  pos = (size_t)a;
  while (pos < n && ne < max) {
    sel_t e;
    uint8_t tag = p[pos];
    e.off = (uint32_t)pos; e.kind = tag & 3; e.produced = produced; e.copy_off = 0;
    if (e.kind == 0) {
      uint32_t x = tag >> 2, extra = 0, i;
      if (x >= 60) { extra = x - 59; if (pos + 1 + extra > n) return ne; x = 0; for (i = 0; i < extra; i++) x |= (uint32_t)p[pos + 1 + i] << (8 * i); }
      e.hdr = 1 + extra; e.len = x + 1;
      if (pos + e.hdr + e.len > n) return ne;
      pos += e.hdr + e.len;
    } else if (e.kind == 1) {
      if (pos + 2 > n) return ne;
      e.hdr = 2; e.len = 4 + ((tag >> 2) & 7); e.copy_off = ((uint32_t)(tag & 0xe0) << 3) | p[pos + 1]; pos += 2;
    } else if (e.kind == 2) {
      if (pos + 3 > n) return ne;
      e.hdr = 3; e.len = 1 + (tag >> 2); e.copy_off = p[pos + 1] | ((uint32_t)p[pos + 2] << 8); pos += 3;
    } else {
      if (pos + 5 > n) return ne;
      e.hdr = 5; e.len = 1 + (tag >> 2); e.copy_off = rc_get_fixed32(p + pos + 1); pos += 5;
    }
    produced += e.len;
    el[ne++] = e;
  }
  return ne;
}

static void mut_snappy(const uint8_t *s, size_t n, vrng_t *r, rc_buf_t *out, char *desc) {
  sel_t el[512];
  uint32_t pl = 0, ulen = 0;
  int ne = snappy_walk(s, n, el, 512, &pl, &ulen), kind = (int)rU(r, 100), i;
  pick_t pk;
  bset(out, s, n);
  if (ne <= 0) { havoc(out, r); set_desc(desc, "snp-bytes", "havoc"); return; }
  if (kind < 22) {                                         /* uncompressed-length preamble */
    rc_buf_t v;
    pick32(r, ulen, &pk);
    rc_buf_init(&v); bputvn(&v, pk.v, pk.nbytes);
    breplace(out, 0, pl, v.data, v.len);
    rc_buf_free(&v);
    set_desc(desc, "snp-ulen", pk.cls);
  } else if (kind < 50) {                                  /* copy offset */
    int cand[512], nc = 0;
    for (i = 0; i < ne; i++) if (el[i].kind != 0) cand[nc++] = i;
    if (nc == 0) { havoc(out, r); set_desc(desc, "snp-bytes", "havoc"); return; }
    {
      const sel_t *e = &el[cand[rU(r, (uint32_t)nc)]];
      uint8_t c4[5];
      int k = (int)rU(r, 9);
      uint32_t len = e->len > 64 ? 64 : e->len;
      if (k == 0) { pk.v = 0; strcpy(pk.cls, "0"); }
      else if (k == 1) { pk.v = e->produced; strcpy(pk.cls, "produced"); }
      else if (k == 2) { pk.v = e->produced + 1; strcpy(pk.cls, "produced+1"); }
      else if (k == 3) { pk.v = e->produced + 1 + rU(r, 70000); strcpy(pk.cls, "gt-produced"); }
      else if (k == 4) { pk.v = 0x7fffffffu; strcpy(pk.cls, "2^31-1"); }
      else if (k == 5) { pk.v = 0x80000000u; strcpy(pk.cls, "2^31"); }
      else if (k == 6) { pk.v = 0xffffffffu; strcpy(pk.cls, "2^32-1"); }
      else if (k == 7) { pk.v = 1; strcpy(pk.cls, "1"); }
      else { pk.v = len - 1; strcpy(pk.cls, "len-1"); }
      c4[0] = (uint8_t)(((len - 1) << 2) | 3);
      rc_put_fixed32(c4 + 1, (uint32_t)pk.v);
      breplace(out, e->off, e->hdr, c4, 5);                /* re-expressed as a copy-4 element */
      set_desc(desc, "snp-copy_off", pk.cls);
    }
  } else if (kind < 72) {                                  /* literal length */
    int cand[512], nc = 0;
    for (i = 0; i < ne; i++) if (el[i].kind == 0) cand[nc++] = i;
    if (nc == 0) { havoc(out, r); set_desc(desc, "snp-bytes", "havoc"); return; }
    {
      const sel_t *e = &el[cand[rU(r, (uint32_t)nc)]];
      uint32_t rem_in = (uint32_t)(n - e->off - e->hdr), rem_out = ulen - e->produced;
      uint8_t h[5];
      int k = (int)rU(r, 9), form;
      if (k == 0) { pk.v = rem_in; strcpy(pk.cls, "rem_in"); }
      else if (k == 1) { pk.v = rem_in + 1; strcpy(pk.cls, "rem_in+1"); }
      else if (k == 2) { pk.v = rem_out; strcpy(pk.cls, "rem_out"); }
      else if (k == 3) { pk.v = rem_out + 1; strcpy(pk.cls, "rem_out+1"); }
      else if (k == 4) { pk.v = 0x7fffffffu; strcpy(pk.cls, "2^31-1"); }
      else if (k == 5) { pk.v = 0x80000000u; strcpy(pk.cls, "2^31"); }
      else if (k == 6) { pk.v = 0; strcpy(pk.cls, "2^32(len-1=2^32-1)"); }
      else pick32(r, e->len, &pk);
      pk.v = (pk.v - 1) & 0xffffffffu;                     /* stored value is len-1 */
      form = pk.v < 256 ? (int)rU(r, 4) : pk.v < 65536 ? 1 + (int)rU(r, 3) : pk.v < (1u << 24) ? 2 + (int)rU(r, 2) : 3;
      h[0] = (uint8_t)((60 + form) << 2);
      rc_put_fixed32(h + 1, (uint32_t)pk.v);
      breplace(out, e->off, e->hdr, h, (size_t)form + 2);
      set_desc(desc, "snp-lit_len", pk.cls);
    }
  } else if (kind < 80) {                                  /* copy length bits */
    const sel_t *e = &el[rU(r, (uint32_t)ne)];
    out->data[e->off] = (uint8_t)((out->data[e->off] & 3) | (rU(r, 64) << 2));
    set_desc(desc, "snp-tag_len", "rand6");
  } else if (kind < 88) {                                  /* truncate inside an element */
    const sel_t *e = &el[rU(r, (uint32_t)ne)];
    btrunc(out, e->off + rU(r, e->hdr + 1));
    set_desc(desc, "snp-truncate", "in-element");
  } else if (kind < 94) {                                  /* extra elements after the declared end */
    uint8_t x[8];
    x[0] = (uint8_t)((rU(r, 64) << 2) | 2); x[1] = (uint8_t)rU(r, 256); x[2] = (uint8_t)rU(r, 4);
    bput(out, x, 3);
    set_desc(desc, "snp-extra", "copy2");
  } else {
    havoc(out, r);
    set_desc(desc, "snp-bytes", "havoc");
  }
}

/* ------------------------------------------------------------------ */
/* varint field lists (version edits, write batches) */

enum { FK_TAG, FK_LEVEL, FK_NUM, FK_SIZE, FK_KLEN, FK_U64, FK_CMPLEN, FK_BTAG, FK_BKLEN, FK_BVLEN };
static const char *fkname[] = {"tag", "level", "filenum", "filesize", "keylen", "u64", "cmplen",
                               "rectag", "klen", "vlen"};
typedef struct fldpos_s { uint32_t off, len; uint8_t kind; uint64_t val; } fldpos_t;
#define MAXFP 512

static void fp_add(fldpos_t *fp, int *nfp, size_t off, size_t len, int kind, uint64_t val) {
  if (*nfp < MAXFP) { fp[*nfp].off = (uint32_t)off; fp[*nfp].len = (uint32_t)len; fp[*nfp].kind = (uint8_t)kind; fp[*nfp].val = val; (*nfp)++; }
}

static void put_field(rc_buf_t *out, fldpos_t *fp, int *nfp, int kind, uint64_t v) {
  size_t o = out->len;
  bputv(out, v);
  if (fp) fp_add(fp, nfp, o, out->len - o, kind, v);
}

/* harness-side encoder of a decoded edit (lcdb's field order), recording field positions */
static void edit_encode(const rc_edit_t *e, rc_buf_t *out, fldpos_t *fp, int *nfp) {
  size_t i;
  if (e->has_comparator) { size_t n = strlen(e->comparator); put_field(out, fp, nfp, FK_TAG, 1); put_field(out, fp, nfp, FK_CMPLEN, n); bput(out, e->comparator, n); }
  if (e->has_log_number) { put_field(out, fp, nfp, FK_TAG, 2); put_field(out, fp, nfp, FK_U64, e->log_number); }
  if (e->has_prev_log_number) { put_field(out, fp, nfp, FK_TAG, 9); put_field(out, fp, nfp, FK_U64, e->prev_log_number); }
  if (e->has_next_file) { put_field(out, fp, nfp, FK_TAG, 3); put_field(out, fp, nfp, FK_U64, e->next_file); }
  if (e->has_last_sequence) { put_field(out, fp, nfp, FK_TAG, 4); put_field(out, fp, nfp, FK_U64, e->last_sequence); }
  for (i = 0; i < e->ncompact; i++) {
    put_field(out, fp, nfp, FK_TAG, 5); put_field(out, fp, nfp, FK_LEVEL, (uint64_t)e->compact_pointers[i].level);
    put_field(out, fp, nfp, FK_KLEN, e->compact_pointers[i].klen); bput(out, e->compact_pointers[i].key, e->compact_pointers[i].klen);
  }
  for (i = 0; i < e->ndeleted; i++) {
    put_field(out, fp, nfp, FK_TAG, 6); put_field(out, fp, nfp, FK_LEVEL, (uint64_t)e->deleted[i].level);
    put_field(out, fp, nfp, FK_NUM, e->deleted[i].number);
  }
  for (i = 0; i < e->nadded; i++) {
    const rc_fileent_t *f = &e->added[i];
    put_field(out, fp, nfp, FK_TAG, 7); put_field(out, fp, nfp, FK_LEVEL, (uint64_t)f->level);
    put_field(out, fp, nfp, FK_NUM, f->number); put_field(out, fp, nfp, FK_SIZE, f->size);
    put_field(out, fp, nfp, FK_KLEN, f->slen); bput(out, f->smallest, f->slen);
    put_field(out, fp, nfp, FK_KLEN, f->llen); bput(out, f->largest, f->llen);
  }
}

/* positions of the fields of a VALID write batch */
static void batch_walk(const uint8_t *p, size_t n, fldpos_t *fp, int *nfp) {
  size_t pos = 12;
  while (pos < n) {
    uint32_t kl, vl;
    int a;
    uint8_t tag = p[pos];
    fp_add(fp, nfp, pos, 1, FK_BTAG, tag);
    pos++;
    if ((a = rc_get_varint32(p + pos, p + n, &kl)) < 0) return;
    fp_add(fp, nfp, pos, (size_t)a, FK_BKLEN, kl);
    pos += (size_t)a + kl;
    if (pos > n) return;
    if (tag == 1) {
      if ((a = rc_get_varint32(p + pos, p + n, &vl)) < 0) return;
      fp_add(fp, nfp, pos, (size_t)a, FK_BVLEN, vl);
      pos += (size_t)a + vl;
    } else if (tag != 0) return;
  }
}

/* patch one field with a boundary value */
static void mut_field(rc_buf_t *out, const fldpos_t *f, vrng_t *r, const char *prefix, char *desc, uint64_t fs) {
  static const uint32_t tags[] = {0, 8, 10, 0x7f, 0x80, 0xffffffffu, 1, 2, 3, 4, 5, 6, 7, 9};
  static const uint32_t levels[] = {0, 6, 7, 8, 0x7f, 0x80, 0x7fffffffu, 0x80000000u, 0xffffffffu};
  pick_t pk;
  rc_buf_t v;
  char field[48];
  size_t remain = out->len - (f->off + f->len);
  pk.nbytes = 0;
  switch (f->kind) {
    case FK_TAG: pk.v = tags[rU(r, 14)]; snprintf(pk.cls, sizeof(pk.cls), "%llu", (unsigned long long)pk.v); break;
    case FK_LEVEL: pk.v = levels[rU(r, 9)]; snprintf(pk.cls, sizeof(pk.cls), "%llu", (unsigned long long)pk.v); break;
    case FK_NUM: case FK_SIZE: case FK_U64: pick64(r, f->val, fs, &pk); break;
    case FK_BTAG: { static const uint8_t bt[] = {0, 1, 2, 0x7f, 0x80, 0xff}; pk.v = bt[rU(r, 6)]; snprintf(pk.cls, sizeof(pk.cls), "%llu", (unsigned long long)pk.v); break; }
    default: {
      int k = (int)rU(r, 8);
      if (k == 0) { pk.v = remain; strcpy(pk.cls, "remain"); }
      else if (k == 1) { pk.v = remain + 1; strcpy(pk.cls, "remain+1"); }
      else if (k == 2) { pk.v = rU(r, 8); strcpy(pk.cls, "lt8"); }
      else if (k == 3) { pk.v = 8; strcpy(pk.cls, "8"); }
      else pick32(r, f->val, &pk);
    }
  }
  rc_buf_init(&v);
  if (f->kind == FK_BTAG) rc_buf_push(&v, (uint8_t)pk.v); else bputvn(&v, pk.v, pk.nbytes);
  breplace(out, f->off, f->len, v.data, v.len);
  rc_buf_free(&v);
  snprintf(field, sizeof(field), "%s-%s", prefix, fkname[f->kind]);
  set_desc(desc, field, pk.cls);
}

/* mutate a VALID version-edit record */
static void mut_edit(const uint8_t *p, size_t n, vrng_t *r, rc_buf_t *out, char *desc, uint64_t fs) {
  rc_edit_t e;
  fldpos_t fp[MAXFP];
  int nfp = 0, kind = (int)rU(r, 100);
  rc_buf_reset(out);
  memset(&e, 0, sizeof(e));
  if (rc_edit_decode(p, n, &e) != 0) { rc_edit_free(&e); bset(out, p, n); havoc(out, r); set_desc(desc, "edit-bytes", "havoc"); return; }
  edit_encode(&e, out, fp, &nfp);
  rc_edit_free(&e);
  if (nfp == 0 || kind >= 90) { havoc(out, r); set_desc(desc, "edit-bytes", "havoc"); }
  else if (kind >= 82) { btrunc(out, fp[rU(r, (uint32_t)nfp)].off + rU(r, 3)); set_desc(desc, "edit-truncate", "at-field"); }
  else {
    int pickf = (int)rU(r, (uint32_t)nfp), i, n = 0;
    if (rP(r, 150)) {   /* levels index fixed-size arrays further down: give them extra weight */
      for (i = 0; i < nfp; i++) if (fp[i].kind == FK_LEVEL) n++;
      if (n > 0) { n = (int)rU(r, (uint32_t)n); for (i = 0; i < nfp; i++) if (fp[i].kind == FK_LEVEL && n-- == 0) pickf = i; }
    }
    mut_field(out, &fp[pickf], r, "edit", desc, fs);
  }
}

/* mutate a VALID write batch */
static void mut_batch(const uint8_t *p, size_t n, vrng_t *r, rc_buf_t *out, char *desc) {
  fldpos_t fp[MAXFP];
  int nfp = 0, kind = (int)rU(r, 100);
  pick_t pk;
  bset(out, p, n);
  if (n < 12) { havoc(out, r); set_desc(desc, "batch-bytes", "havoc"); return; }
  batch_walk(p, n, fp, &nfp);
  if (kind < 25) {
    uint32_t cnt = rc_get_fixed32(p + 8);
    pick32(r, cnt, &pk);
    rc_put_fixed32(out->data + 8, (uint32_t)pk.v);
    set_desc(desc, "batch-count", pk.cls);
  } else if (kind < 35) {
    static const uint64_t seqs[] = {0, 1, ((uint64_t)1 << 56) - 1, (uint64_t)1 << 56, ~(uint64_t)0, ~(uint64_t)0 - 1, (uint64_t)1 << 63};
    static const char *sn[] = {"0", "1", "2^56-1", "2^56", "2^64-1", "2^64-2", "2^63"};
    int k = (int)rU(r, 7);
    rc_put_fixed64(out->data, seqs[k]);
    set_desc(desc, "batch-seq", sn[k]);
  } else if (kind < 80 && nfp > 0) {
    mut_field(out, &fp[rU(r, (uint32_t)nfp)], r, "batch", desc, n);
  } else if (kind < 90) {
    size_t cut = rP(r, 400) ? rU(r, 12) : 12 + rU(r, (uint32_t)(n - 11));
    btrunc(out, cut);
    set_desc(desc, "batch-truncate", cut < 12 ? "lt12" : "any");
  } else {
    havoc(out, r);
    set_desc(desc, "batch-bytes", "havoc");
  }
}

/* ------------------------------------------------------------------ */
/* logs (WAL / MANIFEST): record lists, framing with valid headers, mutation */

typedef struct rlog_s { int nrec; rc_buf_t *rec; int is_manifest; rc_buf_t framed; } rlog_t;

typedef struct finfo_s { uint64_t number, size; int level; } finfo_t;
typedef struct dbinfo_s { finfo_t f[40]; int nf; uint64_t next_file, log_number, last_seq; } dbinfo_t;

static void rlog_add(rlog_t *L, const void *p, size_t n) {
  L->rec = realloc(L->rec, (size_t)(L->nrec + 1) * sizeof(rc_buf_t));
  rc_buf_init(&L->rec[L->nrec]);
  bput(&L->rec[L->nrec], p, n);
  L->nrec++;
}

static void frame_records(rc_buf_t *const *recs, int n, rc_buf_t *out) {
  rc_logw_t w;
  int i;
  rc_buf_reset(out);
  rc_logw_init(&w, out, 0);
  for (i = 0; i < n; i++) rc_logw_add(&w, recs[i]->data, recs[i]->len);
}

/* offsets of the physical record headers of a well-formed log image */
static int log_headers(const uint8_t *p, size_t n, uint32_t *offs, int max) {
  size_t pos = 0;
  int nh = 0;
  while (pos + 7 <= n && nh < max) {
    size_t left = RC_LOG_BLOCK - pos % RC_LOG_BLOCK;
    uint32_t len;
    if (left < 7) { pos += left; continue; }
    len = p[pos + 4] | ((uint32_t)p[pos + 5] << 8);
    offs[nh++] = (uint32_t)pos;
    pos += 7 + len;
  }
  return nh;
}

static void ikey_make(rc_buf_t *b, const char *ukey, uint64_t seq, int type) {
  rc_buf_reset(b);
  bput(b, ukey, strlen(ukey));
  bput64(b, (seq << 8) | (uint64_t)(type & 0xff));
}

/* an additional version edit that names files wrongly (splice class) */
static void build_extra_edit(vrng_t *r, const dbinfo_t *info, rc_buf_t *out, char *desc) {
  rc_edit_t e;
  rc_fileent_t add[2];
  rc_buf_t k1, k2;
  pick_t pk;
  dbinfo_t fake;
  int kind = (int)rU(r, 12), lvl;
  const finfo_t *f;
  memset(&e, 0, sizeof(e));
  memset(add, 0, sizeof(add));
  rc_buf_init(&k1); rc_buf_init(&k2);
  if (info == NULL || info->nf == 0) {
    memset(&fake, 0, sizeof(fake));
    fake.nf = 2; fake.f[0].number = 5; fake.f[0].size = 1234; fake.f[0].level = 2;
    fake.f[1].number = 9; fake.f[1].size = 400; fake.f[1].level = 0;
    fake.next_file = 12; fake.log_number = 10; fake.last_seq = 500;
    info = &fake;
  }
  f = &info->f[rU(r, (uint32_t)info->nf)];
  ikey_make(&k1, "key00010", 100, 1);
  ikey_make(&k2, "key00090", 50, 1);
  add[0].level = f->level; add[0].number = f->number; add[0].size = f->size;
  add[0].smallest = k1.data; add[0].slen = k1.len; add[0].largest = k2.data; add[0].llen = k2.len;
  e.added = add; e.nadded = 1;
  e.deleted = calloc(2, sizeof(*e.deleted));
  rc_buf_reset(out);
  switch (kind) {
    case 0:   /* existing file, wrong size */
      pick64(r, f->size, f->size, &pk);
      e.deleted[0].level = f->level; e.deleted[0].number = f->number; e.ndeleted = 1;
      add[0].size = pk.v;
      set_desc(desc, "manifest-file-size", pk.cls);
      break;
    case 1:   /* file that does not exist */
      add[0].number = info->next_file + 3 + rU(r, 100); add[0].level = (int)rU(r, 7);
      set_desc(desc, "manifest-file-missing", add[0].level == 0 ? "L0" : "Ln");
      break;
    case 2:   /* extreme file numbers */
      add[0].number = rP(r, 500) ? 0 : ~(uint64_t)0; add[0].level = (int)rU(r, 7);
      set_desc(desc, "manifest-file-number", add[0].number ? "2^64-1" : "0");
      break;
    case 3: case 10: case 11:   /* last level and beyond */
      e.deleted[0].level = f->level; e.deleted[0].number = f->number; e.ndeleted = 1;
      {
        static const int lv[] = {6, 6, 7, 8, 127, 0x7fffffff};
        char c[16];
        add[0].level = lv[rU(r, 6)];
        if (rP(r, 300)) { e.nadded = 0; e.deleted[0].level = add[0].level; }      /* bad level in a deletion only */
        snprintf(c, sizeof(c), "%d", add[0].level);
        set_desc(desc, "manifest-level", c);
      }
      break;
    case 4:   /* same file present in two levels / overlapping in a sorted level */
      lvl = (f->level + 1 + (int)rU(r, 5)) % 7;
      add[0].level = lvl;
      set_desc(desc, "manifest-file-dup-level", lvl == 0 ? "L0" : "Ln");
      break;
    case 5:   /* inverted key range */
      e.deleted[0].level = f->level; e.deleted[0].number = f->number; e.ndeleted = 1;
      add[0].smallest = k2.data; add[0].slen = k2.len; add[0].largest = k1.data; add[0].llen = k1.len;
      set_desc(desc, "manifest-range", "inverted");
      break;
    case 6:   /* 8-byte internal keys (empty user key) */
      e.deleted[0].level = f->level; e.deleted[0].number = f->number; e.ndeleted = 1;
      add[0].slen = 8; add[0].smallest = k1.data + k1.len - 8; add[0].llen = 8; add[0].largest = k2.data + k2.len - 8;
      set_desc(desc, "manifest-range", "empty-ukey");
      break;
    case 7: { /* counters */
      int w = (int)rU(r, 4);
      static const char *wn[] = {"manifest-log_number", "manifest-next_file", "manifest-last_seq", "manifest-prev_log"};
      e.nadded = 0;
      pick64(r, w == 0 ? info->log_number : w == 1 ? info->next_file : info->last_seq, info->next_file, &pk);
      if (w == 0) { e.has_log_number = 1; e.log_number = pk.v; }
      else if (w == 1) { e.has_next_file = 1; e.next_file = pk.v; }
      else if (w == 2) { e.has_last_sequence = 1; e.last_sequence = pk.v; }
      else { e.has_prev_log_number = 1; e.prev_log_number = pk.v; }
      set_desc(desc, wn[w], pk.cls);
      break;
    }
    case 8:   /* deletion of a file that is not there */
      e.nadded = 0;
      e.deleted[0].level = (int)rU(r, 7); e.deleted[0].number = info->next_file + rU(r, 50); e.ndeleted = 1;
      set_desc(desc, "manifest-delete", "nonexistent");
      break;
    default: { /* comparator name */
      int w = (int)rU(r, 3);
      e.nadded = 0; e.has_comparator = 1;
      if (w == 0) strcpy(e.comparator, "other.Comparator");
      else if (w == 1) e.comparator[0] = 0;
      else { memset(e.comparator, 'x', 255); e.comparator[255] = 0; }
      set_desc(desc, "manifest-comparator", w == 0 ? "other" : w == 1 ? "empty" : "long");
    }
  }
  edit_encode(&e, out, NULL, NULL);
  free(e.deleted);
  rc_buf_free(&k1); rc_buf_free(&k2);
}

/* produce a mutated log image from a valid record list */
static int mut_log(const rlog_t *L, const rlog_t *other, const dbinfo_t *info, vrng_t *r,
                   rc_buf_t *out, char *desc) {
  rc_buf_t **recs = malloc((size_t)(L->nrec + 2) * sizeof(rc_buf_t *));
  rc_buf_t tmp;
  const char *pf = L->is_manifest ? "manifest" : "wal";
  char field[64];
  int n = L->nrec, i, kind = (int)rU(r, 100), cls = CL_MUTATE;
  uint32_t hdr[4096];
  rc_buf_init(&tmp);
  for (i = 0; i < n; i++) recs[i] = &L->rec[i];
  if (n == 0) { bset(out, L->framed.data, L->framed.len); havoc(out, r); set_desc(desc, "log-bytes", "havoc"); free(recs); return CL_HAVOC; }
  if (kind < 30) {                                   /* a field inside one record, valid framing */
    i = (int)rU(r, (uint32_t)n);
    if (L->is_manifest) mut_edit(L->rec[i].data, L->rec[i].len, r, &tmp, desc, info ? info->next_file : 100);
    else mut_batch(L->rec[i].data, L->rec[i].len, r, &tmp, desc);
    recs[i] = &tmp;
    frame_records(recs, n, out);
  } else if (kind < 36) {                            /* record shorter than a batch header */
    i = (int)rU(r, (uint32_t)n);
    bset(&tmp, L->rec[i].data, L->rec[i].len);
    btrunc(&tmp, rU(r, 12));
    recs[i] = &tmp;
    frame_records(recs, n, out);
    snprintf(field, sizeof(field), "%s-record-size", pf);
    { char c[16]; snprintf(c, sizeof(c), "%u", (unsigned)tmp.len); set_desc(desc, field, c); }
  } else if (kind < 42) {                            /* record payload damaged, valid framing */
    i = (int)rU(r, (uint32_t)n);
    bset(&tmp, L->rec[i].data, L->rec[i].len);
    havoc(&tmp, r);
    recs[i] = &tmp;
    frame_records(recs, n, out);
    snprintf(field, sizeof(field), "%s-payload", pf);
    set_desc(desc, field, "havoc-reframed");
    cls = CL_HAVOC;
  } else if (kind < 56 && L->is_manifest) {          /* extra edit naming wrong files */
    build_extra_edit(r, info, &tmp, desc);
    recs[n] = &tmp;
    frame_records(recs, n + 1, out);
    cls = CL_SPLICE;
  } else if (kind < 72) {                            /* physical header fields */
    int nh, fix = (int)rU(r, 2), which = (int)rU(r, 2);
    uint32_t h, len, left;
    pick_t pk;
    bset(out, L->framed.data, L->framed.len);
    nh = log_headers(out->data, out->len, hdr, 4096);
    if (nh == 0) { havoc(out, r); set_desc(desc, "log-bytes", "havoc"); cls = CL_HAVOC; goto done; }
    h = hdr[rU(r, (uint32_t)nh)];
    len = out->data[h + 4] | ((uint32_t)out->data[h + 5] << 8);
    left = RC_LOG_BLOCK - h % RC_LOG_BLOCK - 7;
    if (which == 0) {
      int k = (int)rU(r, 7);
      if (k == 0) { pk.v = left; strcpy(pk.cls, "block-left"); }
      else if (k == 1) { pk.v = left + 1; strcpy(pk.cls, "block-left+1"); }
      else if (k == 2) { pk.v = 0xffff; strcpy(pk.cls, "0xffff"); }
      else if (k == 3) { pk.v = out->len - h - 7; strcpy(pk.cls, "file-left"); }
      else { pick32(r, len, &pk); pk.v &= 0xffff; }
      out->data[h + 4] = (uint8_t)pk.v; out->data[h + 5] = (uint8_t)(pk.v >> 8);
      len = (uint32_t)pk.v;
      snprintf(field, sizeof(field), "%s-hdr-length%s", pf, fix ? "+crc" : "");
    } else {
      static const uint8_t ty[] = {0, 1, 2, 3, 4, 5, 0x7f, 0xff};
      uint8_t v = ty[rU(r, 8)];
      out->data[h + 6] = v;
      snprintf(pk.cls, sizeof(pk.cls), "%u", v);
      snprintf(field, sizeof(field), "%s-hdr-type%s", pf, fix ? "+crc" : "");
    }
    if (fix && (size_t)h + 7 + len <= out->len)
      rc_put_fixed32(out->data + h, rc_crc_mask(crc_of(out->data + h + 6, 1 + (size_t)len)));
    set_desc(desc, field, pk.cls);
  } else if (kind < 80 && other != NULL) {           /* records of another log appended mid-block */
    size_t at;
    bset(out, L->framed.data, L->framed.len);
    at = rP(r, 500) ? out->len : rU(r, (uint32_t)out->len + 1);
    btrunc(out, at);
    {
      size_t room = info ? other->framed.len : (out->len < MAXIN ? MAXIN - out->len : 0);
      bput(out, other->framed.data, other->framed.len > room ? room : other->framed.len);
    }
    snprintf(field, sizeof(field), "%s-splice", pf);
    set_desc(desc, field, at % RC_LOG_BLOCK ? "mid-block" : "block-aligned");
    cls = CL_SPLICE;
  } else if (kind < 90) {                            /* truncation */
    int nh, k = (int)rU(r, 4);
    size_t cut;
    bset(out, L->framed.data, L->framed.len);
    nh = log_headers(out->data, out->len, hdr, 4096);
    if (k == 0 && nh > 0) cut = hdr[rU(r, (uint32_t)nh)];
    else if (k == 1 && nh > 0) cut = hdr[rU(r, (uint32_t)nh)] + 1 + rU(r, 6);
    else if (k == 2 && out->len > RC_LOG_BLOCK) cut = RC_LOG_BLOCK - 8 + rU(r, 16);
    else cut = rU(r, (uint32_t)out->len + 1);
    btrunc(out, cut);
    snprintf(field, sizeof(field), "%s-truncate", pf);
    set_desc(desc, field, k == 0 ? "record-boundary" : k == 1 ? "in-header" : k == 2 ? "block-boundary" : "any");
  } else if (kind < 94) {                            /* zero-filled region (preallocated file) */
    size_t at, k;
    bset(out, L->framed.data, L->framed.len);
    at = rU(r, (uint32_t)out->len + 1); k = 1 + vr_skewed(r, 12);
    if (at + k > out->len) { size_t add = at + k - out->len; while (add-- && out->len < MAXIN) rc_buf_push(out, 0); }
    if (at + k > out->len) k = out->len - at;
    memset(out->data + at, 0, k);
    snprintf(field, sizeof(field), "%s-zero-region", pf);
    set_desc(desc, field, k < 7 ? "lt7" : "ge7");
  } else {
    bset(out, L->framed.data, L->framed.len);
    havoc(out, r);
    snprintf(field, sizeof(field), "%s-bytes", pf);
    set_desc(desc, field, "havoc");
    cls = CL_HAVOC;
  }
done:
  rc_buf_free(&tmp);
  free(recs);
  if (out->len > MAXIN && !info) btrunc(out, MAXIN);
  return cls;
}

/* ------------------------------------------------------------------ */
/* tables: parts of a valid table, re-assembly around mutations */

typedef struct tpart_s { const uint8_t *data; size_t len; uint8_t type; uint32_t crc; int has_crc; } tpart_t;

#define MAXBLK 160
typedef struct ttpl_s {
  rc_buf_t file;
  int nblk; tpart_t blk[MAXBLK]; uint8_t *sep[MAXBLK]; size_t seplen[MAXBLK];
  int has_filter; tpart_t filter; char fname[96];
  rc_buf_t index_raw;           /* decoded (uncompressed) index block of the original */
} ttpl_t;

typedef struct hint_s { uint64_t off, size; } hint_t;
#define MAXHINT 12

static void part_from_file(tpart_t *p, const uint8_t *file, uint64_t off, uint64_t size) {
  p->data = file + off; p->len = (size_t)size; p->type = file[off + size];
  p->crc = rc_get_fixed32(file + off + size + 1); p->has_crc = 1;
}

/* decode the stored form of a part into raw block contents */
static int part_raw(const tpart_t *p, rc_buf_t *raw) {
  rc_buf_reset(raw);
  if (p->type == 0) { bput(raw, p->data, p->len); return 1; }
  if (p->type == 1) return rc_snappy_decode(p->data, p->len, raw) == 0;
  return 0;
}

static int ttpl_parse(ttpl_t *t) {
  rc_table_t rt;
  size_t i;
  memset(&rt, 0, sizeof(rt));
  if (rc_table_decode(t->file.data, t->file.len, &rt) != 0) { rc_table_free(&rt); return 0; }
  t->nblk = 0;
  for (i = 0; i < rt.nblocks && t->nblk < MAXBLK; i++) {
    part_from_file(&t->blk[t->nblk], t->file.data, rt.blocks[i].offset, rt.blocks[i].size);
    t->sep[t->nblk] = malloc(rt.blocks[i].seplen + 1);
    memcpy(t->sep[t->nblk], rt.blocks[i].sep, rt.blocks[i].seplen);
    t->seplen[t->nblk] = rt.blocks[i].seplen;
    t->nblk++;
  }
  t->has_filter = 0;
  {  /* metaindex: first entry "filter.<name>" -> handle */
    tpart_t mp;
    rc_buf_t raw;
    btpl_t b;
    part_from_file(&mp, t->file.data, rt.metaindex_off, rt.metaindex_size);
    rc_buf_init(&raw);
    if (part_raw(&mp, &raw)) {
      b.data = raw.data; b.len = raw.len; b.internal = 0;
      if (btpl_parse(&b) && b.nent > 0 && b.ent[0].shared == 0 && b.ent[0].nonshared < sizeof(t->fname)) {
        const uint8_t *k = raw.data + b.ent[0].off + b.ent[0].l_sh + b.ent[0].l_ns + b.ent[0].l_vl;
        const uint8_t *v = k + b.ent[0].nonshared;
        uint64_t fo, fsz;
        int a = rc_get_varint64(v, v + b.ent[0].vlen, &fo), c;
        if (a > 0 && (c = rc_get_varint64(v + a, v + b.ent[0].vlen, &fsz)) > 0 && fo + fsz + 5 <= t->file.len) {
          memcpy(t->fname, k, b.ent[0].nonshared);
          t->fname[b.ent[0].nonshared] = 0;
          part_from_file(&t->filter, t->file.data, fo, fsz);
          t->has_filter = 1;
        }
      }
      btpl_free(&b);
    }
    rc_buf_free(&raw);
  }
  {
    tpart_t ip;
    part_from_file(&ip, t->file.data, rt.index_off, rt.index_size);
    rc_buf_init(&t->index_raw);
    part_raw(&ip, &t->index_raw);
  }
  rc_table_free(&rt);
  return t->nblk > 0;
}

typedef struct tplan_s {
  int nblk; tpart_t blk[MAXBLK]; const uint8_t *sep[MAXBLK]; size_t seplen[MAXBLK]; uint8_t crc_bad[MAXBLK];
  int has_filter; tpart_t filter; const char *fname;
  int ov_index_entry, ov_index_field; pick_t ov_index; int index_extra;
  int ov_key_entry; const uint8_t *ov_key; size_t ov_keylen;
  int ov_meta_field; pick_t ov_meta;
  int ov_foot_which, ov_foot_field; pick_t ov_foot;
  int foot_index_at;
  int index_interval, index_snappy;
  const rc_buf_t *index_rawbuf, *meta_rawbuf;
  int magic_bad, pad_random;
  void *tofree[8]; int ntofree;
} tplan_t;

static void tplan_init(tplan_t *p, const ttpl_t *t) {
  int i;
  memset(p, 0, sizeof(*p));
  p->nblk = t->nblk;
  for (i = 0; i < t->nblk; i++) { p->blk[i] = t->blk[i]; p->sep[i] = t->sep[i]; p->seplen[i] = t->seplen[i]; }
  p->has_filter = t->has_filter; p->filter = t->filter; p->fname = t->fname;
  p->ov_index_entry = p->ov_key_entry = p->ov_meta_field = p->ov_foot_which = -1;
  p->foot_index_at = -1;
  p->index_interval = 1;
}

static void tplan_free(tplan_t *p) { int i; for (i = 0; i < p->ntofree; i++) free(p->tofree[i]); p->ntofree = 0; }

static void emit_part(rc_buf_t *out, const tpart_t *p, int crc_bad, hint_t *h) {
  uint32_t crc;
  uint8_t tr[5];
  if (h) { h->off = out->len; h->size = p->len; }
  bput(out, p->data, p->len);
  if (p->has_crc) crc = p->crc;
  else { crc = crc_ext(crc_of(p->data, p->len), &p->type, 1); crc = rc_crc_mask(crc); }
  if (crc_bad) crc ^= 0x00010000u;
  tr[0] = p->type; rc_put_fixed32(tr + 1, crc);
  bput(out, tr, 5);
}

static void put_handle(rc_buf_t *b, uint64_t off, uint64_t size, int field, const pick_t *ov) {
  if (ov && field == 0) bputvn(b, ov->v, ov->nbytes); else bputv(b, off);
  if (ov && field == 1) bputvn(b, ov->v, ov->nbytes); else bputv(b, size);
}

static void assemble(const tplan_t *p, vrng_t *r, rc_buf_t *out, hint_t *hints, int *nhints) {
  hint_t bh[MAXBLK], fh = {0, 0}, mh, ih;
  rc_buf_t blk, vals, cmp;
  const uint8_t *keys[MAXBLK], *vp[MAXBLK];
  size_t klen[MAXBLK], vlen[MAXBLK], voff[MAXBLK];
  tpart_t part;
  int i;
  rc_buf_init(&blk); rc_buf_init(&vals); rc_buf_init(&cmp);
  rc_buf_reset(out);
  for (i = 0; i < p->nblk; i++) emit_part(out, &p->blk[i], p->crc_bad[i], &bh[i]);
  if (p->has_filter) emit_part(out, &p->filter, 0, &fh);
  /* metaindex */
  if (p->meta_rawbuf) { bset(&blk, p->meta_rawbuf->data, p->meta_rawbuf->len); }
  else if (p->has_filter) {
    const uint8_t *k = (const uint8_t *)p->fname, *v;
    size_t kl = strlen(p->fname), vl;
    put_handle(&vals, fh.off, fh.size, p->ov_meta_field, p->ov_meta_field >= 0 ? &p->ov_meta : NULL);
    v = vals.data; vl = vals.len;
    blk_write(&blk, &k, &kl, &v, &vl, 1, 16);
  } else blk_write(&blk, NULL, NULL, NULL, NULL, 0, 16);
  part.data = blk.data; part.len = blk.len; part.type = 0; part.has_crc = 0;
  emit_part(out, &part, 0, &mh);
  /* index */
  if (p->index_rawbuf) bset(&blk, p->index_rawbuf->data, p->index_rawbuf->len);
  else {
    rc_buf_reset(&vals);
    for (i = 0; i < p->nblk; i++) {
      voff[i] = vals.len;
      put_handle(&vals, bh[i].off, bh[i].size, p->ov_index_field, i == p->ov_index_entry ? &p->ov_index : NULL);
      if (i == p->ov_index_entry && p->index_extra) { uint8_t j[6]; rbytes(r, j, 6, 0); bput(&vals, j, (size_t)p->index_extra); }
      vlen[i] = vals.len - voff[i];
      keys[i] = p->sep[i]; klen[i] = p->seplen[i];
      if (i == p->ov_key_entry) { keys[i] = p->ov_key; klen[i] = p->ov_keylen; }
    }
    for (i = 0; i < p->nblk; i++) vp[i] = vals.data + voff[i];
    blk_write(&blk, keys, klen, vp, vlen, p->nblk, p->index_interval);
  }
  part.data = blk.data; part.len = blk.len; part.type = 0; part.has_crc = 0;
  if (p->index_snappy) { rc_snappy_encode(blk.data, blk.len, 1, &cmp); part.data = cmp.data; part.len = cmp.len; part.type = 1; }
  emit_part(out, &part, 0, &ih);
  if (p->foot_index_at >= 0 && p->foot_index_at < p->nblk) ih = bh[p->foot_index_at];
  else if (p->foot_index_at == -2 && p->has_filter) ih = fh;
  else if (p->foot_index_at == -3) ih = mh;
  /* footer */
  {
    rc_buf_t f;
    rc_buf_init(&f);
    put_handle(&f, mh.off, mh.size, p->ov_foot_field, p->ov_foot_which == 0 ? &p->ov_foot : NULL);
    put_handle(&f, ih.off, ih.size, p->ov_foot_field, p->ov_foot_which == 1 ? &p->ov_foot : NULL);
    while (f.len < 40) rc_buf_push(&f, p->pad_random ? (uint8_t)vr_next(r) : 0);
    btrunc(&f, 40);
    bput64(&f, p->magic_bad ? 0xdb4775248b80fb57ULL ^ ((uint64_t)1 << rU(r, 64)) : 0xdb4775248b80fb57ULL);
    bput(out, f.data, f.len);
    rc_buf_free(&f);
  }
  if (hints) {
    int n = 0;
    hints[n++] = ih; hints[n++] = mh;
    if (p->has_filter) hints[n++] = fh;
    for (i = 0; i < p->nblk && n < MAXHINT; i++) hints[n++] = bh[rU(r, (uint32_t)p->nblk)];
    *nhints = n;
  }
  rc_buf_free(&blk); rc_buf_free(&vals); rc_buf_free(&cmp);
}

/* give a part new stored bytes (copied; freed with the plan) */
static void plan_set_part(tplan_t *p, tpart_t *dst, const rc_buf_t *buf) {
  uint8_t *copy = malloc(buf->len + 1);
  if (buf->len) memcpy(copy, buf->data, buf->len);
  dst->data = copy; dst->len = buf->len;
  if (p->ntofree < 8) p->tofree[p->ntofree++] = copy; /* at most 2 per plan */
}

/* one mutated table image; returns the input class */
static int mut_table(const ttpl_t *t, ttpl_t *const *pool, int npool, vrng_t *r, rc_buf_t *out,
                     char *desc, hint_t *hints, int *nhints) {
  tplan_t *p = malloc(sizeof(tplan_t));
  rc_buf_t raw, mraw;
  int kind = (int)rU(r, 100), cls = CL_MUTATE, b = (int)rU(r, (uint32_t)t->nblk), post = 0;
  uint64_t fs = t->file.len;
  rc_buf_init(&raw); rc_buf_init(&mraw);
  tplan_init(p, t);
  if (kind < 10) {                                  /* footer handle fields */
    static const char *fn[] = {"tbl-foot-meta-off", "tbl-foot-meta-size", "tbl-foot-index-off", "tbl-foot-index-size"};
    p->ov_foot_which = (int)rU(r, 2); p->ov_foot_field = (int)rU(r, 2);
    pick64(r, p->ov_foot_field ? 100 : fs - 148, fs, &p->ov_foot);
    set_desc(desc, fn[p->ov_foot_which * 2 + p->ov_foot_field], p->ov_foot.cls);
  } else if (kind < 16) {                           /* footer index handle aimed at another block */
    int k = (int)rU(r, 3);
    p->foot_index_at = k == 0 ? b : k == 1 ? -2 : -3;
    if (k == 1 && !t->has_filter) p->foot_index_at = b;
    set_desc(desc, "tbl-foot-index-at", p->foot_index_at >= 0 ? "data-block" : p->foot_index_at == -2 ? "filter-block" : "metaindex");
    cls = CL_SPLICE;
  } else if (kind < 28) {                           /* index entry handle */
    p->ov_index_entry = b; p->ov_index_field = (int)rU(r, 2);
    pick64(r, p->ov_index_field ? t->blk[b].len : (uint64_t)(t->blk[b].data - t->file.data), fs, &p->ov_index);
    if (rP(r, 150)) p->index_extra = 1 + (int)rU(r, 6);
    set_desc(desc, p->ov_index_field ? "tbl-index-size" : "tbl-index-off", p->ov_index.cls);
  } else if (kind < 33) {                           /* index entry key */
    static const uint8_t junk[16] = {0xff, 0xff, 0xff, 0xff, 0xff, 0xff, 0xff, 0xff, 0xff, 0xff, 0xff, 0xff, 0xff, 0xff, 0xff, 0xff};
    int k = (int)rU(r, 3);
    p->ov_key_entry = b; p->ov_key = junk; p->ov_keylen = k == 0 ? rU(r, 8) : k == 1 ? 8 : 16;
    set_desc(desc, "tbl-index-key", k == 0 ? "lt8" : k == 1 ? "8" : "unsorted");
  } else if (kind < 41) {                           /* index block contents */
    btpl_t bt;
    bt.data = t->index_raw.data; bt.len = t->index_raw.len; bt.internal = 1;
    if (btpl_parse(&bt)) { char d[160]; mut_block(&bt, r, &mraw, d); snprintf(desc, 160, "tbl-index-%s", d); }
    else { bset(&mraw, t->index_raw.data, t->index_raw.len); havoc(&mraw, r); set_desc(desc, "tbl-index-bytes", "havoc"); }
    btpl_free(&bt);
    p->index_rawbuf = &mraw;
    p->index_snappy = rP(r, 250);
  } else if (kind < 47) {                           /* metaindex */
    int k = (int)rU(r, 3);
    if (k == 0 && t->has_filter) {
      p->ov_meta_field = (int)rU(r, 2);
      pick64(r, p->ov_meta_field ? t->filter.len : fs / 2, fs, &p->ov_meta);
      set_desc(desc, p->ov_meta_field ? "tbl-meta-size" : "tbl-meta-off", p->ov_meta.cls);
    } else if (k == 1 && t->has_filter) {
      p->fname = rP(r, 500) ? "filter.other.Policy" : "filter.";
      set_desc(desc, "tbl-meta-name", "other");
    } else {
      brand(&mraw, r, rU(r, 64)); p->meta_rawbuf = &mraw;
      set_desc(desc, "tbl-meta-bytes", "random");
    }
  } else if (kind < 57 && t->has_filter) {          /* filter block fields */
    char d[160];
    if (part_raw(&t->filter, &raw)) {
      mut_filter(raw.data, raw.len, r, &mraw, d);
      snprintf(desc, 160, "tbl-%s", d);
      p->filter.type = 0; p->filter.has_crc = 0;
      plan_set_part(p, &p->filter, &mraw);
    } else set_desc(desc, "tbl-none", "none");
  } else if (kind < 75) {                           /* entries of a data block, checksum re-sealed */
    btpl_t bt;
    char d[160];
    if (part_raw(&t->blk[b], &raw)) {
      int comp = t->blk[b].type == 1 ? rP(r, 700) : rP(r, 150);
      bt.data = raw.data; bt.len = raw.len; bt.internal = 1;
      if (btpl_parse(&bt)) mut_block(&bt, r, &mraw, d); else { bset(&mraw, raw.data, raw.len); havoc(&mraw, r); strcpy(d, "blk-bytes|havoc"); }
      btpl_free(&bt);
      snprintf(desc, 160, "tbl-data-%s%s", d, comp ? "/z" : "");
      p->blk[b].has_crc = 0; p->blk[b].type = (uint8_t)comp;
      if (comp) { rc_buf_t c; rc_buf_init(&c); rc_snappy_encode(mraw.data, mraw.len, (int)rU(r, 4), &c); plan_set_part(p, &p->blk[b], &c); rc_buf_free(&c); }
      else plan_set_part(p, &p->blk[b], &mraw);
    } else set_desc(desc, "tbl-none", "none");
  } else if (kind < 80) {                           /* trailer type byte */
    static const uint8_t ty[] = {0, 1, 2, 255};
    int seal = (int)rU(r, 2);
    p->blk[b].type = ty[rU(r, 4)];
    if (seal) p->blk[b].has_crc = 0;
    { char c[24]; snprintf(c, sizeof(c), "%u%s", p->blk[b].type, seal ? "+crc" : ""); set_desc(desc, "tbl-trailer-type", c); }
  } else if (kind < 88) {                           /* snappy stream inside a compressed block, re-sealed */
    char d[160];
    if (t->blk[b].type == 1) bset(&raw, t->blk[b].data, t->blk[b].len);
    else { rc_buf_t u; rc_buf_init(&u); part_raw(&t->blk[b], &u); rc_snappy_encode(u.data, u.len, 1 + (int)rU(r, 3), &raw); rc_buf_free(&u); }
    mut_snappy(raw.data, raw.len, r, &mraw, d);
    snprintf(desc, 160, "tbl-%s", d);
    p->blk[b].type = 1; p->blk[b].has_crc = 0;
    plan_set_part(p, &p->blk[b], &mraw);
  } else if (kind < 91) {                           /* stale checksum */
    p->crc_bad[b] = 1;
    set_desc(desc, "tbl-crc", "stale");
  } else if (kind < 96 && npool > 0) {              /* a block of another table under this index */
    const ttpl_t *o = pool[rU(r, (uint32_t)npool)];
    int k = (int)rU(r, 3);
    if (k == 0 || !o->has_filter) { p->blk[b] = o->blk[rU(r, (uint32_t)o->nblk)]; set_desc(desc, "tbl-splice", "foreign-data-block"); }
    else if (k == 1) { p->blk[b] = o->filter; set_desc(desc, "tbl-splice", "filter-as-data"); }
    else { p->has_filter = 1; p->filter = o->blk[rU(r, (uint32_t)o->nblk)]; if (!t->has_filter) p->fname = o->fname; set_desc(desc, "tbl-splice", "data-as-filter"); }
    cls = CL_SPLICE;
  } else if (kind < 98) {
    p->magic_bad = (int)rU(r, 2); p->pad_random = 1;
    set_desc(desc, "tbl-foot-magic-pad", p->magic_bad ? "bad-magic" : "random-pad");
  } else { post = 1 + (int)rU(r, 2); }
  if (rP(r, 80)) p->index_interval = 2 + (int)rU(r, 15);
  assemble(p, r, out, hints, nhints);
  if (post == 1) { btrunc(out, rP(r, 500) ? out->len - 1 - rU(r, 60) : rU(r, (uint32_t)out->len)); set_desc(desc, "tbl-truncate", "any"); }
  else if (post == 2) { havoc(out, r); set_desc(desc, "tbl-bytes", "havoc"); cls = CL_HAVOC; }
  tplan_free(p);
  free(p);
  rc_buf_free(&raw); rc_buf_free(&mraw);
  return cls;
}

/* ------------------------------------------------------------------ */
/* valid artefacts produced by the REAL writers (templates for mutation) */

static ldb_comparator_t g_ikc;
static ldb_bloom_t *g_bloom;
static ldb_bloom_t g_ifp;
static ldb_lru_t *g_cache;

static btpl_t g_bt[64]; static int g_nbt;
static ttpl_t *g_tt[24]; static int g_ntt;
static rc_buf_t g_flt[32]; static int g_nflt;
static rc_buf_t g_snp[48]; static int g_nsnp;
static rc_buf_t g_edit[12]; static int g_nedit;
static rc_buf_t g_batch[12]; static int g_nbatch;
static rlog_t g_log[8]; static int g_nlog;

static size_t ukey(char *buf, int i) { return (size_t)sprintf(buf, "key%05d", i); }

static void write_file(const char *path, const void *p, size_t n) {
  int fd = open(path, O_WRONLY | O_CREAT | O_TRUNC, 0644);
  if (fd < 0) vh_fatal("cannot create %s: %s", path, strerror(errno));
  while (n > 0) {
    ssize_t w = write(fd, p, n);
    if (w <= 0) vh_fatal("write %s: %s", path, strerror(errno));
    p = (const uint8_t *)p + w; n -= (size_t)w;
  }
  close(fd);
}

static int read_file(const char *path, rc_buf_t *b) {
  uint8_t tmp[65536];
  int fd = open(path, O_RDONLY);
  ssize_t n;
  rc_buf_reset(b);
  if (fd < 0) return 0;
  while ((n = read(fd, tmp, sizeof(tmp))) > 0) bput(b, tmp, (size_t)n);
  close(fd);
  return 1;
}

static void add_btpl(const uint8_t *p, size_t n, int internal) {
  btpl_t *t;
  if (g_nbt >= 64 || n > MAXIN) return;
  t = &g_bt[g_nbt];
  t->data = malloc(n + 1); memcpy(t->data, p, n); t->len = n; t->internal = internal;
  if (btpl_parse(t) && t->nent > 0) g_nbt++; else { btpl_free(t); free(t->data); }
}

static void build_block_template(int interval, int internal, int n, vrng_t *r) {
  ldb_dbopt_t opt = *ldb_dbopt_default;
  ldb_blockgen_t bb;
  ldb_slice_t k, v, res;
  uint8_t val[400];
  rc_buf_t ik;
  char uk[32];
  int i;
  opt.block_restart_interval = interval;
  opt.comparator = internal ? &g_ikc : ldb_bytewise_comparator;
  ldb_blockgen_init(&bb, &opt);
  rc_buf_init(&ik);
  for (i = 0; i < n; i++) {
    size_t vl = rU(r, 5) == 0 ? 0 : vr_skewed(r, 8);
    ukey(uk, 100 + i * 3);
    if (internal) ikey_make(&ik, uk, 1000 - (uint64_t)i, i % 7 != 3);
    else bset(&ik, uk, strlen(uk));
    vh_fill_value(val, vl, (uint64_t)i * 2 + (uint64_t)(i & 1));
    k = ldb_slice(ik.data, ik.len);
    v = ldb_slice(val, vl);
    ldb_blockgen_add(&bb, &k, &v);
  }
  res = ldb_blockgen_finish(&bb);
  add_btpl(res.data, res.size, internal);
  ldb_blockgen_clear(&bb);
  rc_buf_free(&ik);
}

static ttpl_t *build_table_template(const char *path, size_t block_size, int compression, int bloom,
                                    int interval, int nkeys, int vmax_log, vrng_t *r) {
  ldb_dbopt_t opt = *ldb_dbopt_default;
  ldb_wfile_t *wf;
  ldb_tablegen_t *tb;
  ttpl_t *t = calloc(1, sizeof(ttpl_t));
  uint8_t *val = malloc(70000);
  rc_buf_t ik;
  char uk[32];
  int i, rc;
  opt.comparator = &g_ikc;
  opt.filter_policy = bloom ? &g_ifp : NULL;
  opt.block_size = block_size;
  opt.block_restart_interval = interval;
  opt.compression = compression ? LDB_SNAPPY_COMPRESSION : LDB_NO_COMPRESSION;
  if ((rc = ldb_truncfile_create(path, &wf)) != LDB_OK) vh_fatal("truncfile %s: %d", path, rc);
  tb = ldb_tablegen_create(&opt, wf);
  rc_buf_init(&ik);
  for (i = 0; i < nkeys; i++) {
    int versions = 1 + (rU(r, 6) == 0), j;
    ukey(uk, 10 + i * 2);
    for (j = 0; j < versions; j++) {
      size_t vl = vr_skewed(r, (uint32_t)vmax_log);
      int del = rU(r, 9) == 0;
      ldb_slice_t k, v;
      if (del) vl = 0;
      ikey_make(&ik, uk, (uint64_t)(5000 - i * 3 - j), !del);
      vh_fill_value(val, vl, ((uint64_t)i << 2) | (uint64_t)(i & 1));   /* even ids compressible */
      k = ldb_slice(ik.data, ik.len);
      v = ldb_slice(val, vl);
      ldb_tablegen_add(tb, &k, &v);
    }
  }
  if ((rc = ldb_tablegen_finish(tb)) != LDB_OK) vh_fatal("tablegen finish: %d", rc);
  ldb_tablegen_destroy(tb);
  ldb_wfile_close(wf);
  ldb_wfile_destroy(wf);
  rc_buf_init(&t->file);
  if (!read_file(path, &t->file) || !ttpl_parse(t)) vh_fatal("template table %s does not decode with the reference decoder", path);
  rc_buf_free(&ik);
  free(val);
  return t;
}

static void add_snappy_real(const uint8_t *p, size_t n) {
  size_t zn;
  uint8_t *z;
  if (g_nsnp >= 48 || !snappy_encode_size(&zn, n)) return;
  z = malloc(zn + 1);
  zn = snappy_encode(z, p, n);
  rc_buf_init(&g_snp[g_nsnp]);
  bput(&g_snp[g_nsnp], z, zn);
  if (zn <= MAXIN) g_nsnp++; else rc_buf_free(&g_snp[g_nsnp]);
  free(z);
}

static void add_batch_template(ldb_batch_t *b) {
  ldb_slice_t c = ldb_batch_contents(b);
  rc_buf_init(&g_batch[g_nbatch]);
  bput(&g_batch[g_nbatch++], c.data, c.size);
}

static void add_edit_template(ldb_edit_t *e) {
  ldb_buffer_t out;
  ldb_buffer_init(&out);
  ldb_edit_export(&out, e);
  rc_buf_init(&g_edit[g_nedit]);
  bput(&g_edit[g_nedit++], out.data, out.size);
  ldb_buffer_clear(&out);
}

/* frame a record list with the REAL log writer */
static void rlog_frame_real(rlog_t *L) {
  ldb_writer_t w;
  ldb_buffer_t dst;
  int i;
  ldb_buffer_init(&dst);
  ldb_writer_init(&w, NULL, 0);
  w.dst = &dst;
  for (i = 0; i < L->nrec; i++) {
    ldb_slice_t s = ldb_slice(L->rec[i].data, L->rec[i].len);
    ldb_writer_add_record(&w, &s);
  }
  rc_buf_init(&L->framed);
  bput(&L->framed, dst.data, dst.size);
  ldb_buffer_clear(&dst);
}

static void build_direct_templates(vrng_t *r) {
  static const int ivs[] = {1, 2, 4, 16};
  static const int ns[] = {1, 2, 5, 20, 60};
  char path[800];
  uint8_t *big = malloc(70000);
  int i, j;
  /* blocks */
  for (i = 0; i < 4; i++) for (j = 0; j < 5; j++) build_block_template(ivs[i], (i + j) & 1, ns[j], r);
  /* tables */
  {
    static const struct { size_t bs; int z, f, iv, n, vl; } tv[] = {
      {256, 0, 1, 16, 40, 7}, {256, 1, 1, 4, 60, 8}, {1024, 1, 0, 16, 80, 8}, {1024, 0, 1, 1, 30, 6},
      {4096, 1, 1, 16, 120, 8}, {512, 0, 0, 2, 1, 5}, {300, 1, 1, 16, 12, 11}, {2048, 0, 1, 16, 200, 6}};
    for (i = 0; i < 8; i++) {
      snprintf(path, sizeof(path), "%s/tpl-%d.ldb", g_work, i);
      g_tt[g_ntt++] = build_table_template(path, tv[i].bs, tv[i].z, tv[i].f, tv[i].iv, tv[i].n, tv[i].vl, r);
      unlink(path);
    }
  }
  /* blocks, filters and compressed streams found inside the tables */
  for (i = 0; i < g_ntt; i++) {
    ttpl_t *t = g_tt[i];
    rc_buf_t raw;
    rc_buf_init(&raw);
    add_btpl(t->index_raw.data, t->index_raw.len, 1);
    for (j = 0; j < t->nblk && j < 3; j++) {
      const tpart_t *p = &t->blk[(j * 7) % t->nblk];
      if (part_raw(p, &raw)) add_btpl(raw.data, raw.len, 1);
      if (p->type == 1 && g_nsnp < 40 && p->len <= MAXIN) { rc_buf_init(&g_snp[g_nsnp]); bput(&g_snp[g_nsnp++], p->data, p->len); }
    }
    if (t->has_filter && part_raw(&t->filter, &raw) && g_nflt < 32) { rc_buf_init(&g_flt[g_nflt]); bput(&g_flt[g_nflt++], raw.data, raw.len); }
    rc_buf_free(&raw);
  }
  /* filter blocks straight from the filter writer */
  for (i = 0; i < 4; i++) {
    ldb_filtergen_t fg;
    ldb_slice_t res;
    char uk[32];
    ldb_filtergen_init(&fg, g_bloom);
    for (j = 0; j < 1 + i * 3; j++) {
      int k;
      ldb_filtergen_start_block(&fg, (uint64_t)j * (i == 3 ? 9000 : 1500));
      for (k = 0; k < 1 + (j % 5); k++) { ldb_slice_t s; ukey(uk, j * 10 + k); s = ldb_slice((uint8_t *)uk, strlen(uk)); ldb_filtergen_add_key(&fg, &s); }
    }
    res = ldb_filtergen_finish(&fg);
    if (g_nflt < 32) { rc_buf_init(&g_flt[g_nflt]); bput(&g_flt[g_nflt++], res.data, res.size); }
    ldb_filtergen_clear(&fg);
  }
  /* snappy streams: real encoder + the reference encoder's four element styles */
  {
    static const size_t sz[] = {1, 20, 300, 5000, 40000};
    for (i = 0; i < 5; i++) {
      for (j = 0; j < 2; j++) {
        size_t k;
        if (j == 0) for (k = 0; k < sz[i]; k++) big[k] = (uint8_t)("the quick brown fox "[k % 20] + (k / 977));
        else vh_fill_value(big, sz[i], (uint64_t)i * 2 + 1);
        add_snappy_real(big, sz[i]);
        if (g_nsnp < 48 && sz[i] <= 5000) { rc_buf_init(&g_snp[g_nsnp]); rc_snappy_encode(big, sz[i], (i + j) % 4, &g_snp[g_nsnp]); g_nsnp++; }
      }
    }
  }
  /* write batches */
  {
    ldb_batch_t b;
    ldb_slice_t k, v;
    char uk[32];
    ldb_batch_init(&b);
    k = ldb_slice((uint8_t *)"key00001", 8); v = ldb_slice((uint8_t *)"value-one", 9);
    ldb_batch_put(&b, &k, &v); ldb_batch_set_sequence(&b, 100); add_batch_template(&b);
    ldb_batch_del(&b, &k); k = ldb_slice((uint8_t *)"key00002", 8); ldb_batch_put(&b, &k, &v); ldb_batch_set_sequence(&b, 101); add_batch_template(&b);
    ldb_batch_reset(&b);
    for (i = 0; i < 50; i++) { ukey(uk, i); k = ldb_slice((uint8_t *)uk, 8); vh_fill_value(big, (size_t)i * 5, (uint64_t)i); v = ldb_slice(big, (size_t)i * 5); if (i % 6 == 5) ldb_batch_del(&b, &k); else ldb_batch_put(&b, &k, &v); }
    ldb_batch_set_sequence(&b, 200); add_batch_template(&b);
    ldb_batch_reset(&b);
    vh_fill_value(big, 40000, 7); k = ldb_slice((uint8_t *)"key00777", 8); v = ldb_slice(big, 40000);
    ldb_batch_put(&b, &k, &v); ldb_batch_set_sequence(&b, 300); add_batch_template(&b);
    ldb_batch_reset(&b); ldb_batch_set_sequence(&b, 301); add_batch_template(&b);          /* empty batch */
    ldb_batch_reset(&b); k = ldb_slice((uint8_t *)"", 0); v = ldb_slice((uint8_t *)"", 0);
    ldb_batch_put(&b, &k, &v); ldb_batch_del(&b, &k); ldb_batch_set_sequence(&b, 302); add_batch_template(&b);
    ldb_batch_clear(&b);
  }
  /* version edits */
  {
    ldb_edit_t e;
    rc_buf_t k1, k2;
    char uk[32];
    rc_buf_init(&k1); rc_buf_init(&k2);
    ldb_edit_init(&e);
    ldb_edit_set_comparator_name(&e, "leveldb.BytewiseComparator");
    ldb_edit_set_log_number(&e, 0); ldb_edit_set_next_file(&e, 2); ldb_edit_set_last_sequence(&e, 0);
    add_edit_template(&e);
    ldb_edit_reset(&e);
    ldb_edit_set_log_number(&e, 7); ldb_edit_set_prev_log_number(&e, 0); ldb_edit_set_next_file(&e, 9); ldb_edit_set_last_sequence(&e, 1234);
    for (i = 0; i < 3; i++) {
      ldb_ikey_t a, b2;
      ukey(uk, i * 100); ikey_make(&k1, uk, 900, 1); ukey(uk, i * 100 + 50); ikey_make(&k2, uk, 20, 0);
      ldb_buffer_init(&a); ldb_buffer_init(&b2);
      ldb_buffer_set(&a, k1.data, k1.len); ldb_buffer_set(&b2, k2.data, k2.len);
      ldb_edit_add_file(&e, i * 2, 5 + (uint64_t)i, 1000 + (uint64_t)i * 70000, &a, &b2);
      if (i == 1) ldb_edit_set_compact_pointer(&e, 1, &a);
      ldb_buffer_clear(&a); ldb_buffer_clear(&b2);
    }
    ldb_edit_remove_file(&e, 0, 3); ldb_edit_remove_file(&e, 2, 4);
    add_edit_template(&e);
    ldb_edit_reset(&e);
    ldb_edit_set_log_number(&e, 12); ldb_edit_set_prev_log_number(&e, 0);
    add_edit_template(&e);
    ldb_edit_reset(&e);
    for (i = 0; i < 20; i++) {
      ldb_ikey_t a, b2;
      ukey(uk, i * 10); ikey_make(&k1, uk, 5000 - (uint64_t)i, 1); ukey(uk, i * 10 + 9); ikey_make(&k2, uk, 3, 1);
      ldb_buffer_init(&a); ldb_buffer_init(&b2);
      ldb_buffer_set(&a, k1.data, k1.len); ldb_buffer_set(&b2, k2.data, k2.len);
      ldb_edit_add_file(&e, i % 7, 20 + (uint64_t)i, 300 + (uint64_t)i, &a, &b2);
      ldb_buffer_clear(&a); ldb_buffer_clear(&b2);
    }
    ldb_edit_set_next_file(&e, 41); ldb_edit_set_last_sequence(&e, ((uint64_t)1 << 40));
    add_edit_template(&e);
    ldb_edit_clear(&e);
    rc_buf_free(&k1); rc_buf_free(&k2);
  }
  /* logs: two WALs (one with a record spanning two blocks), two MANIFESTs */
  {
    static const int w1[] = {0, 1, 2, 4, 5}, w2[] = {1, 3, 0}, m1[] = {0, 1, 2}, m2[] = {0, 3, 1, 2};
    memset(g_log, 0, sizeof(g_log));
    for (i = 0; i < 5; i++) rlog_add(&g_log[0], g_batch[w1[i]].data, g_batch[w1[i]].len);
    for (i = 0; i < 3; i++) rlog_add(&g_log[1], g_batch[w2[i]].data, g_batch[w2[i]].len);
    for (i = 0; i < 3; i++) rlog_add(&g_log[2], g_edit[m1[i]].data, g_edit[m1[i]].len);
    for (i = 0; i < 4; i++) rlog_add(&g_log[3], g_edit[m2[i]].data, g_edit[m2[i]].len);
    g_log[2].is_manifest = g_log[3].is_manifest = 1;
    g_nlog = 4;
    for (i = 0; i < g_nlog; i++) rlog_frame_real(&g_log[i]);
  }
  free(big);
  if (g_nbt < 10 || g_nflt < 4 || g_nsnp < 8) vh_fatal("template construction incomplete: %d blocks %d filters %d streams", g_nbt, g_nflt, g_nsnp);
}

/* ------------------------------------------------------------------ */
/* direct mode: case generation (pure function of the case PRNG) */

typedef struct case_s {
  int64_t idx;
  int target, cls, sub;
  rc_buf_t in;
  char desc[160];
  hint_t hint[MAXHINT]; int nhint;
} case_t;

static int pick_class(vrng_t *r) {
  uint32_t x = rU(r, 100);
  return x < 14 ? CL_RANDOM : x < 17 ? CL_VALID : x < 70 ? CL_MUTATE : x < 80 ? CL_SPLICE : CL_HAVOC;
}

static void gen_table_image(case_t *c, vrng_t *r) {
  ttpl_t *t = g_tt[rU(r, (uint32_t)g_ntt)];
  if (c->cls == CL_RANDOM) {
    brand(&c->in, r, rand_len(r));
    if (rP(r, 600)) {    /* random handles behind a valid magic number */
      while (c->in.len < 48) rc_buf_push(&c->in, (uint8_t)vr_next(r));
      rc_put_fixed64(c->in.data + c->in.len - 8, 0xdb4775248b80fb57ULL);
      set_desc(c->desc, "tbl-random", "magic-ok");
    } else set_desc(c->desc, "tbl-random", "raw");
    c->nhint = 0;
  } else if (c->cls == CL_VALID) {
    tplan_t *p = malloc(sizeof(tplan_t));
    tplan_init(p, t);
    assemble(p, r, &c->in, c->hint, &c->nhint);    /* also validates the assembler: must open */
    free(p);
    if (rP(r, 500)) { bset(&c->in, t->file.data, t->file.len); c->nhint = 0; }
    set_desc(c->desc, "tbl-valid", "none");
  } else {
    c->cls = mut_table(t, g_tt, g_ntt, r, &c->in, c->desc, c->hint, &c->nhint);
  }
}

static void gen_log_image(case_t *c, vrng_t *r, int manifest) {
  const rlog_t *L = &g_log[(manifest ? 2 : 0) + rU(r, 2)], *O = &g_log[rU(r, (uint32_t)g_nlog)];
  if (L == &g_log[1] && rU(r, 6)) L = &g_log[0];                   /* the 40 KB WAL is used in ~8% of WAL cases */
  if (O == &g_log[1] && rU(r, 6)) O = &g_log[0];
  if (c->cls == CL_RANDOM) { brand(&c->in, r, rand_len(r)); set_desc(c->desc, "log-random", "raw"); }
  else if (c->cls == CL_VALID) { bset(&c->in, L->framed.data, L->framed.len); set_desc(c->desc, "log-valid", "none"); }
  else c->cls = mut_log(L, O, NULL, r, &c->in, c->desc);
}

static void gen_case(case_t *c, vrng_t *r) {
  static const char *names[] = {"CURRENT", "LOCK", "LOG", "LOG.old", "MANIFEST-000002", "000123.log",
                                "000005.ldb", "000007.sst", "000009.dbtmp", "18446744073709551615.ldb"};
  static const char *nums[] = {"18446744073709551615", "18446744073709551616", "00000000000000000000001",
                               "99999999999999999999999999", "", "-1", "+5", " 5", "0", "0x10", "1e3",
                               "18446744073709551614", "1844674407370955161", "184467440737095516150"};
  static const char *sufs[] = {".log", ".ldb", ".sst", ".dbtmp", ".LOG", ".logx", ".lo", "", ".", ".log.log"};
  pick_t pk;
  rc_buf_reset(&c->in);
  c->nhint = 0; c->sub = 0; c->desc[0] = 0;
  c->cls = pick_class(r);
  switch (c->target) {
    case T_BLOCK: {
      const btpl_t *t = &g_bt[rU(r, (uint32_t)g_nbt)], *u = &g_bt[rU(r, (uint32_t)g_nbt)];
      c->sub = t->internal;
      if (c->cls == CL_RANDOM) {
        brand(&c->in, r, rand_len(r));
        if (c->in.len >= 12 && rP(r, 500)) {
          uint32_t maxr = (uint32_t)((c->in.len - 4) / 4), nr = 1 + rU(r, maxr < 4 ? maxr : 4), i;
          size_t ro = c->in.len - 4 * ((size_t)nr + 1);
          rc_put_fixed32(c->in.data + c->in.len - 4, nr);
          for (i = 0; i < nr; i++) rc_put_fixed32(c->in.data + ro + 4 * i, i == 0 ? 0 : rU(r, (uint32_t)ro + 1));
          set_desc(c->desc, "blk-random", "plausible-tail");
        } else set_desc(c->desc, "blk-random", "raw");
        c->sub = (int)rU(r, 2);
      } else if (c->cls == CL_VALID) { bset(&c->in, t->data, t->len); set_desc(c->desc, "blk-valid", "none"); }
      else if (c->cls == CL_SPLICE) {
        if (rP(r, 500)) { bput(&c->in, t->data, t->restarts_off); bput(&c->in, u->data + u->restarts_off, u->len - u->restarts_off); set_desc(c->desc, "blk-splice", "entriesA+restartsB"); }
        else { bput(&c->in, t->data, t->len); bput(&c->in, u->data, u->len); set_desc(c->desc, "blk-splice", "concat"); }
        if (c->in.len > MAXIN) btrunc(&c->in, MAXIN);
      } else if (c->cls == CL_HAVOC) { bset(&c->in, t->data, t->len); havoc(&c->in, r); set_desc(c->desc, "blk-bytes", "havoc"); }
      else mut_block(t, r, &c->in, c->desc);
      break;
    }
    case T_FOOTER: {
      const ttpl_t *t = g_tt[rU(r, (uint32_t)g_ntt)];
      const uint8_t *f = t->file.data + t->file.len - 48;
      if (c->cls == CL_RANDOM) {
        brand(&c->in, r, rP(r, 700) ? 48 : rU(r, 120));
        if (c->in.len >= 48 && rP(r, 700)) { rc_put_fixed64(c->in.data + c->in.len - 8, 0xdb4775248b80fb57ULL); if (c->in.len == 48) set_desc(c->desc, "foot-random", "magic-ok"); else set_desc(c->desc, "foot-random", "magic-misplaced"); }
        else set_desc(c->desc, "foot-random", "raw");
      } else if (c->cls == CL_VALID) { bset(&c->in, f, 48); set_desc(c->desc, "foot-valid", "none"); }
      else if (c->cls == CL_HAVOC || c->cls == CL_SPLICE) { bset(&c->in, f, 48); havoc(&c->in, r); set_desc(c->desc, "foot-bytes", "havoc"); c->cls = CL_HAVOC; }
      else {
        static const char *fn[] = {"foot-meta-off", "foot-meta-size", "foot-index-off", "foot-index-size"};
        uint64_t h[4];
        const uint8_t *q = f;
        int i, w = (int)rU(r, 4);
        for (i = 0; i < 4; i++) { int a = rc_get_varint64(q, f + 40, &h[i]); if (a < 0) break; q += a; }
        pick64(r, h[w], t->file.len, &pk);
        for (i = 0; i < 4; i++) { if (i == w) bputvn(&c->in, pk.v, pk.nbytes); else bputv(&c->in, h[i]); }
        while (c->in.len < 40) rc_buf_push(&c->in, 0);
        btrunc(&c->in, 40);
        bput64(&c->in, 0xdb4775248b80fb57ULL);
        if (rP(r, 100)) { btrunc(&c->in, 40 + rU(r, 8)); set_desc(c->desc, "foot-length", "lt48"); }
        else set_desc(c->desc, fn[w], pk.cls);
      }
      break;
    }
    case T_HANDLE:
      if (c->cls == CL_RANDOM || c->cls == CL_HAVOC) { brand(&c->in, r, rU(r, 25)); set_desc(c->desc, "hnd-random", "raw"); c->cls = CL_RANDOM; }
      else {
        pick64(r, 4096, 65536, &pk); bputvn(&c->in, pk.v, pk.nbytes);
        if (rP(r, 100)) { set_desc(c->desc, "hnd-truncate", "one-varint"); }
        else { pick_t p2; char cl[64]; pick64(r, 100, 65536, &p2); bputvn(&c->in, p2.v, p2.nbytes); snprintf(cl, sizeof(cl), "%s,%s", pk.cls, p2.cls); set_desc(c->desc, "hnd-off,size", cl); }
        c->cls = CL_MUTATE;
      }
      break;
    case T_READBLOCK:
      if (c->cls == CL_RANDOM) {    /* block of random / mutated-snappy bytes behind a VALID trailer */
        uint8_t tr[5];
        int k = (int)rU(r, 3);
        if (k == 0) { brand(&c->in, r, rand_len(r) % 4000); set_desc(c->desc, "rb-sealed", "random"); }
        else { const rc_buf_t *s = &g_snp[rU(r, (uint32_t)g_nsnp)]; char d[160]; mut_snappy(s->data, s->len, r, &c->in, d); snprintf(c->desc, sizeof(c->desc), "rb-sealed-%s", d); }
        if (c->in.len > MAXIN - 5) btrunc(&c->in, MAXIN - 5);
        tr[0] = k == 0 ? (uint8_t)rU(r, 3) : 1;
        c->hint[0].off = 0; c->hint[0].size = c->in.len; c->nhint = 1;
        rc_put_fixed32(tr + 1, rc_crc_mask(crc_ext(crc_of(c->in.data, c->in.len), tr, 1)));
        bput(&c->in, tr, 5);
      } else gen_table_image(c, r);
      break;
    case T_TABLE:
      gen_table_image(c, r);
      break;
    case T_DUMPFILE:
      c->sub = (int)rU(r, 4);      /* 0 log, 1 ldb, 2 MANIFEST, 3 sst */
      if (c->sub == 0) gen_log_image(c, r, 0);
      else if (c->sub == 2) gen_log_image(c, r, 1);
      else gen_table_image(c, r);
      break;
    case T_LOGREADER:
      gen_log_image(c, r, (int)rU(r, 2));
      break;
    case T_FILTER: {
      const rc_buf_t *f = &g_flt[rU(r, (uint32_t)g_nflt)];
      if (c->cls == CL_RANDOM) {
        brand(&c->in, r, rand_len(r) % 3000);
        if (c->in.len >= 9 && rP(r, 600)) { uint32_t n = (uint32_t)c->in.len; rc_put_fixed32(c->in.data + n - 5, rU(r, n - 4)); c->in.data[n - 1] = (uint8_t)rU(r, 14); set_desc(c->desc, "flt-random", "plausible-tail"); }
        else set_desc(c->desc, "flt-random", "raw");
      } else if (c->cls == CL_VALID) { bset(&c->in, f->data, f->len); set_desc(c->desc, "flt-valid", "none"); }
      else if (c->cls == CL_HAVOC) { bset(&c->in, f->data, f->len); havoc(&c->in, r); set_desc(c->desc, "flt-bytes", "havoc"); }
      else { mut_filter(f->data, f->len, r, &c->in, c->desc); c->cls = CL_MUTATE; }
      break;
    }
    case T_SNAPPY: {
      const rc_buf_t *s = &g_snp[rU(r, (uint32_t)g_nsnp)], *u = &g_snp[rU(r, (uint32_t)g_nsnp)];
      if (c->cls == CL_RANDOM) {
        size_t n = rand_len(r);
        if (rP(r, 600)) { bputv(&c->in, vr_skewed(r, 12)); set_desc(c->desc, "snp-random", "small-ulen"); } else set_desc(c->desc, "snp-random", "raw");
        brand(&c->in, r, n);
        if (c->in.len > MAXIN) btrunc(&c->in, MAXIN);
      } else if (c->cls == CL_VALID) { bset(&c->in, s->data, s->len); set_desc(c->desc, "snp-valid", "none"); }
      else if (c->cls == CL_SPLICE) {
        uint32_t a = 0, b = 0;
        rc_get_varint32(s->data, s->data + s->len, &a);
        bputv(&c->in, a);
        { int k = rc_get_varint32(u->data, u->data + u->len, &b); if (k > 0) bput(&c->in, u->data + k, u->len - (size_t)k); }
        set_desc(c->desc, "snp-splice", "ulenA+bodyB");
      } else if (c->cls == CL_HAVOC) { bset(&c->in, s->data, s->len); havoc(&c->in, r); set_desc(c->desc, "snp-bytes", "havoc"); }
      else mut_snappy(s->data, s->len, r, &c->in, c->desc);
      break;
    }
    case T_EDIT: {
      const rc_buf_t *e = &g_edit[rU(r, (uint32_t)g_nedit)], *u = &g_edit[rU(r, (uint32_t)g_nedit)];
      if (c->cls == CL_RANDOM) {
        brand(&c->in, r, rand_len(r) % 2000);
        if (c->in.len > 0 && rP(r, 600)) { c->in.data[0] = (uint8_t)(1 + rU(r, 9)); set_desc(c->desc, "edit-random", "valid-first-tag"); } else set_desc(c->desc, "edit-random", "raw");
      } else if (c->cls == CL_VALID) { bset(&c->in, e->data, e->len); set_desc(c->desc, "edit-valid", "none"); }
      else if (c->cls == CL_SPLICE) {
        if (rP(r, 500)) { bput(&c->in, e->data, e->len); bput(&c->in, u->data, u->len); set_desc(c->desc, "edit-splice", "concat"); }
        else { bput(&c->in, e->data, rU(r, (uint32_t)e->len + 1)); { size_t at = rU(r, (uint32_t)u->len + 1); bput(&c->in, u->data + at, u->len - at); } set_desc(c->desc, "edit-splice", "cut-join"); }
      } else if (c->cls == CL_HAVOC) { bset(&c->in, e->data, e->len); havoc(&c->in, r); set_desc(c->desc, "edit-bytes", "havoc"); }
      else mut_edit(e->data, e->len, r, &c->in, c->desc, 100);
      break;
    }
    case T_BATCH: {
      const rc_buf_t *b = &g_batch[rU(r, (uint32_t)g_nbatch)], *u = &g_batch[rU(r, (uint32_t)g_nbatch)];
      if (b->len > 20000 && rU(r, 8)) b = &g_batch[rU(r, 3)];      /* keep most cases small */
      if (u->len > 20000 && rU(r, 8)) u = &g_batch[rU(r, 3)];
      if (c->cls == CL_RANDOM) {
        brand(&c->in, r, rand_len(r) % 3000);
        if (c->in.len >= 13 && rP(r, 600)) { rc_put_fixed32(c->in.data + 8, 1 + rU(r, 3)); c->in.data[12] = (uint8_t)rU(r, 2); set_desc(c->desc, "batch-random", "plausible-head"); }
        else set_desc(c->desc, "batch-random", "raw");
      } else if (c->cls == CL_VALID) { bset(&c->in, b->data, b->len); set_desc(c->desc, "batch-valid", "none"); }
      else if (c->cls == CL_SPLICE) { bput(&c->in, b->data, 12); bput(&c->in, u->data + 12, u->len - 12); if (rP(r, 500)) bput(&c->in, b->data + 12, b->len - 12); set_desc(c->desc, "batch-splice", "headA+recordsB"); }
      else if (c->cls == CL_HAVOC) { bset(&c->in, b->data, b->len); havoc(&c->in, r); set_desc(c->desc, "batch-bytes", "havoc"); }
      else mut_batch(b->data, b->len, r, &c->in, c->desc);
      if (c->in.len > MAXIN) btrunc(&c->in, MAXIN);
      /* ldb_batch_set_contents requires >= 12 bytes (every real caller checks first);
         shorter records reach the decoders through the log paths instead */
      while (c->in.len < 12) rc_buf_push(&c->in, 0);
      break;
    }
    case T_PKEY: {
      static const uint8_t types[] = {0, 1, 2, 0x7f, 0x80, 0xff};
      if (c->cls == CL_RANDOM || c->cls == CL_HAVOC) { brand(&c->in, r, rP(r, 500) ? rU(r, 12) : rand_len(r) % 600); set_desc(c->desc, "pkey-random", c->in.len < 8 ? "lt8" : "ge8"); c->cls = CL_RANDOM; }
      else {
        uint8_t ty = types[rU(r, 6)];
        uint64_t seq = rP(r, 500) ? vr_next(r) >> 8 : (((uint64_t)1 << 56) - 1);
        char cl[16];
        brand(&c->in, r, vr_skewed(r, 7));
        bput64(&c->in, (seq << 8) | ty);
        snprintf(cl, sizeof(cl), "%u", ty);
        set_desc(c->desc, "pkey-type", cl);
        c->cls = ty <= 1 ? CL_VALID : CL_MUTATE;
      }
      break;
    }
    case T_FILENAME: {
      const char *nm = names[rU(r, 10)];
      if (c->cls == CL_RANDOM) { brand(&c->in, r, rU(r, 40)); set_desc(c->desc, "fname-random", "raw"); }
      else if (c->cls == CL_VALID) { bset(&c->in, nm, strlen(nm)); set_desc(c->desc, "fname-valid", "none"); }
      else if (c->cls == CL_HAVOC) { bset(&c->in, nm, strlen(nm)); havoc(&c->in, r); set_desc(c->desc, "fname-bytes", "havoc"); }
      else {
        int ni = (int)rU(r, 14), si = (int)rU(r, 10), man = rP(r, 300);
        char cl[48];
        if (man) bput(&c->in, "MANIFEST-", 9);
        bput(&c->in, nums[ni], strlen(nums[ni]));
        if (!man || rP(r, 200)) bput(&c->in, sufs[si], strlen(sufs[si]));
        snprintf(cl, sizeof(cl), "n%d%s", ni, man ? "/manifest" : sufs[si]);
        set_desc(c->desc, "fname-number", cl);
        c->cls = CL_MUTATE;
      }
      break;
    }
    case T_CODING:
      if (c->cls == CL_RANDOM || c->cls == CL_HAVOC || c->cls == CL_VALID) { brand(&c->in, r, rand_len(r) % 2000); set_desc(c->desc, "coding-random", "raw"); c->cls = CL_RANDOM; }
      else {
        int n = 1 + (int)rU(r, 12), i;
        for (i = 0; i < n; i++) {
          int k = (int)rU(r, 5);
          if (k == 0) { pick32(r, 300, &pk); bputvn(&c->in, pk.v, pk.nbytes); }
          else if (k == 1) { pick64(r, 300, 70000, &pk); bputvn(&c->in, pk.v, pk.nbytes); }
          else if (k == 2) bput32(&c->in, (uint32_t)vr_next(r));
          else if (k == 3) bput64(&c->in, vr_next(r));
          else { size_t m = rU(r, 40); pick32(r, m, &pk); bputvn(&c->in, pk.v, pk.nbytes); brand(&c->in, r, m); }
        }
        set_desc(c->desc, "coding-seq", pk.cls);
        c->cls = CL_MUTATE;
      }
      break;
    default:
      vh_fatal("no generator for target %d", c->target);
  }
  if (c->in.len > MAXIN) btrunc(&c->in, MAXIN);
}

/* ------------------------------------------------------------------ */
/* direct mode: target runners (REAL decoders; exact-size heap copies of the input) */

/* exact-size heap copy: the byte after the input is an ASan red zone */
static uint8_t *in_copy(const rc_buf_t *in, uint8_t **base) {
  *base = malloc(in->len ? in->len : 1);
  if (*base == NULL) vh_fatal("out of memory");
  if (in->len) { memcpy(*base, in->data, in->len); return *base; }
  return *base + 1;
}

#define MAXSAVED 6
typedef struct saved_s { rc_buf_t k[MAXSAVED]; int n; } saved_t;
static saved_t g_saved;

static void save_key(const ldb_slice_t *k, vrng_t *r) {
  int i;
  if (k->size > 4096) return;
  if (g_saved.n < MAXSAVED) i = g_saved.n++; else if (rP(r, 100)) i = (int)rU(r, MAXSAVED); else return;
  bset(&g_saved.k[i], k->data, k->size);
}

/* seek target: random, a key seen during the scan, or a close variant of one */
static void make_target(rc_buf_t *t, vrng_t *r, int internal) {
  int k = (int)rU(r, 8);
  rc_buf_reset(t);
  if (g_saved.n > 0 && k < 5) {
    const rc_buf_t *s = &g_saved.k[rU(r, (uint32_t)g_saved.n)];
    bput(t, s->data, s->len);
    if (k == 1) rc_buf_push(t, 0);
    else if (k == 2 && t->len > 0) t->data[rU(r, (uint32_t)t->len)]++;
    else if (k == 3 && t->len > 0) btrunc(t, rU(r, (uint32_t)t->len));
    else if (k == 4 && t->len >= 8) rc_put_fixed64(t->data + t->len - 8, vr_next(r));
  } else if (k == 5) { /* empty */ }
  else brand(t, r, internal ? 8 + vr_skewed(r, 5) : vr_skewed(r, 5));
}

static void iter_touch(ldb_iter_t *it) {
  ldb_slice_t k = ldb_iter_key(it), v = ldb_iter_value(it);
  touch_slice(&k); touch_slice(&v);
}

/* drive every positioning call of an iterator; returns entries seen */
static int drive_iter(ldb_iter_t *it, vrng_t *r, int internal, int fwd_cap, int back_cap, int nseek, int min_target) {
  rc_buf_t t;
  int seen = 0, steps, j;
  rc_buf_init(&t);
  g_saved.n = 0;
  steps = 0;
  for (ldb_iter_first(it); ldb_iter_valid(it) && steps < fwd_cap; ldb_iter_next(it), steps++) {
    ldb_slice_t k = ldb_iter_key(it);
    iter_touch(it); save_key(&k, r); seen++;
  }
  g_sink += (uint64_t)ldb_iter_status(it);
  steps = 0;
  for (ldb_iter_last(it); ldb_iter_valid(it) && steps < back_cap; ldb_iter_prev(it), steps++) { iter_touch(it); seen++; }
  g_sink += (uint64_t)ldb_iter_status(it);
  for (j = 0; j < nseek; j++) {
    ldb_slice_t s;
    int m, k;
    make_target(&t, r, internal);
    while ((int)t.len < min_target) rc_buf_push(&t, (uint8_t)vr_next(r));
    s = ldb_slice(t.data, t.len);
    ldb_iter_seek(it, &s);
    m = (int)rU(r, 4);
    for (k = 0; k < m && ldb_iter_valid(it); k++) { iter_touch(it); seen++; if (rP(r, 500)) ldb_iter_next(it); else ldb_iter_prev(it); }
    if (ldb_iter_valid(it)) iter_touch(it);
    g_sink += (uint64_t)ldb_iter_status(it);
  }
  rc_buf_free(&t);
  return seen;
}

static void run_block(const case_t *c, vrng_t *r) {
  uint8_t *base, *p = in_copy(&c->in, &base);
  ldb_contents_t ct;
  ldb_block_t b;
  int pass;
  ct.data = ldb_slice(p, c->in.len); ct.cachable = 0; ct.heap_allocated = 0;
  ldb_block_init(&b, &ct);
  for (pass = 0; pass < 2; pass++) {
    int internal = (pass ^ c->sub) & 1, seen;
    ldb_iter_t *it;
    PHASE("block %s comparator", internal ? "internal-key" : "bytewise");
    it = ldb_blockiter_create(&b, internal ? &g_ikc : ldb_bytewise_comparator);
    seen = drive_iter(it, r, internal, 300, 120, 6, 0);
    if (seen > 0) { ENTER(); shm->x[X_BLOCK_ENTRIES] += (uint64_t)seen; }
    ldb_iter_destroy(it);
  }
  ldb_block_clear(&b);
  free(base);
}

static void run_footer(const case_t *c, vrng_t *r) {
  uint8_t *base, *p = in_copy(&c->in, &base);
  ldb_slice_t s = ldb_slice(p, c->in.len);
  ldb_footer_t f;
  (void)r;
  if (ldb_footer_import(&f, &s)) {
    ldb_buffer_t out;
    ENTER();
    g_sink += f.metaindex_handle.offset + f.metaindex_handle.size + f.index_handle.offset + f.index_handle.size;
    ldb_buffer_init(&out);
    ldb_footer_export(&out, &f);
    touch(out.data, out.size);
    ldb_buffer_clear(&out);
  }
  free(base);
}

static void run_handle(const case_t *c, vrng_t *r) {
  uint8_t *base, *p = in_copy(&c->in, &base);
  ldb_slice_t s = ldb_slice(p, c->in.len);
  ldb_handle_t h;
  (void)r;
  if (ldb_handle_import(&h, &s)) {
    ldb_buffer_t out;
    ENTER();
    g_sink += ldb_handle_size(&h);
    ldb_buffer_init(&out);
    ldb_handle_export(&out, &h);
    touch(out.data, out.size);
    ldb_buffer_clear(&out);
  }
  free(base);
}

static void work_path(char *buf, size_t n, const char *name) { snprintf(buf, n, "%s/%s", g_work, name); }

static void run_readblock(const case_t *c, vrng_t *r) {
  char path[800];
  ldb_rfile_t *file = NULL;
  int use_mmap = rP(r, 300), i, n;
  work_path(path, sizeof(path), "rb.ldb");
  write_file(path, c->in.data, c->in.len);
  if (ldb_randfile_create(path, &file, use_mmap) != LDB_OK) { unlink(path); return; }
  n = 4 + (int)rU(r, 5);
  for (i = 0; i < n; i++) {
    ldb_readopt_t ro = *ldb_readopt_default;
    ldb_contents_t res;
    ldb_handle_t h;
    int k = (int)rU(r, 10), rc;
    uint64_t len = c->in.len;
    if (i < c->nhint && k < 7) { h.offset = c->hint[i].off; h.size = c->hint[i].size; }
    else if (k < 5 && len > 0) {       /* a handle decoded from the bytes themselves */
      size_t at = rU(r, (uint32_t)len);
      ldb_slice_t s = ldb_slice(c->in.data + at, len - at > 20 ? 20 : len - at);
      if (!ldb_handle_import(&h, &s)) { h.offset = at; h.size = 0; }
    } else {
      static const int64_t d[] = {0, 1, -1, 5, -5, 4, -4, 6, -6};
      pick_t a, b;
      pick64(r, 0, len, &a); pick64(r, len >= 5 ? len - 5 : 0, len, &b);
      h.offset = a.v; h.size = b.v;
      if (rP(r, 400)) h.size = len - h.offset + (uint64_t)d[rU(r, 9)];        /* up to the end of file +- */
      if (rP(r, 150)) { h.offset = ~(uint64_t)0 - rU(r, 8); h.size = rU(r, 16); }
    }
    ro.verify_checksums = (int)rU(r, 2);
    PHASE("read_block off=%llu size=%llu verify=%d mmap=%d", (unsigned long long)h.offset, (unsigned long long)h.size, ro.verify_checksums, use_mmap);
    rc = ldb_read_block(&res, file, &ro, &h);
    if (rc == LDB_OK) {
      ENTER(); shm->x[X_READBLOCK_OK]++;
      touch_slice(&res.data);
      if (res.heap_allocated) ldb_free(res.data.data);
    }
  }
  ldb_rfile_destroy(file);
  unlink(path);
}

static void run_filter(const case_t *c, vrng_t *r) {
  uint8_t *base, *p = in_copy(&c->in, &base);
  ldb_slice_t s = ldb_slice(p, c->in.len);
  int pass;
  for (pass = 0; pass < 2; pass++) {
    const ldb_bloom_t *pol = pass ? &g_ifp : g_bloom;
    ldb_filter_t fr;
    int i;
    ldb_filter_init(&fr, pol, &s);
    if (fr.num > 0) ENTER();
    for (i = 0; i < 10; i++) {
      char uk[40];
      uint8_t kb[48];
      ldb_slice_t key;
      uint64_t off;
      size_t kl;
      int k = (int)rU(r, 8);
      if (k == 0) off = 0;
      else if (k == 1) off = (uint64_t)rU(r, (uint32_t)fr.num + 2) << fr.base_lg;
      else if (k == 2) off = ((uint64_t)rU(r, (uint32_t)fr.num + 2) << fr.base_lg) - 1;
      else if (k == 3) off = ~(uint64_t)0 - rU(r, 3);
      else if (k == 4) off = (uint64_t)1 << (31 + rU(r, 33));
      else if (k == 5) off = vr_next(r);
      else off = rU(r, 1 << 16);
      if (rP(r, 600)) kl = ukey(uk, (int)rU(r, 60)); else { kl = rU(r, 30); rbytes(r, (uint8_t *)uk, kl, 0); }
      memcpy(kb, uk, kl);
      if (pass) { rc_put_fixed64(kb + kl, vr_next(r)); kl += 8; }   /* internal policy strips an 8-byte tag */
      key = ldb_slice(kb, kl);
      g_sink += (uint64_t)ldb_filter_matches(&fr, off, &key);
      shm->x[X_FILTER_PROBES]++;
    }
  }
  free(base);
}

static void run_snappy(const case_t *c, vrng_t *r) {
  uint8_t *base, *p = in_copy(&c->in, &base);
  size_t n = 0;
  (void)r;
  if (snappy_decode_size(&n, p, c->in.len)) {
    ENTER();
    /* every input byte yields at most 64/3 output bytes (a 3-byte copy-2 element emits <= 64),
       so a correct decoder never writes past min(n, 22 * len + 64); the full-size allocation
       of the real caller is exercised through ldb_read_block (readblock / table / db) */
    size_t bound = c->in.len * 22 + 64, cap = n < bound ? n : bound;
    uint8_t *z = malloc(cap ? cap : 1);
    if (z != NULL) {
      if (snappy_decode(z, p, c->in.len)) { shm->x[X_SNAPPY_OK]++; touch(z, cap); }
      free(z);
    }
  }
  free(base);
}

static void run_edit(const case_t *c, vrng_t *r) {
  uint8_t *base, *p = in_copy(&c->in, &base);
  ldb_slice_t s = ldb_slice(p, c->in.len);
  ldb_edit_t e, e2;
  ldb_buffer_t out, dbg;
  int rc;
  (void)r;
  ldb_edit_init(&e); ldb_edit_init(&e2);
  ldb_buffer_init(&out); ldb_buffer_init(&dbg);
  rc = ldb_edit_import(&e, &s);
  if (rc || e.has_comparator || e.has_log_number || e.has_next_file_number || e.has_last_sequence ||
      e.has_prev_log_number || e.new_files.length > 0 || e.compact_pointers.length > 0) ENTER();
  if (rc) {
    ldb_slice_t o;
    shm->x[X_EDIT_OK]++;
    ldb_edit_export(&out, &e);
    o = ldb_slice(out.data, out.size);
    g_sink += (uint64_t)ldb_edit_import(&e2, &o);
    ldb_edit_debug(&dbg, &e2);
  }
  ldb_edit_debug(&dbg, &e);       /* partially imported edits are printed too (dumpfile does not, recovery logs) */
  touch(dbg.data, dbg.size);
  ldb_buffer_clear(&out); ldb_buffer_clear(&dbg);
  ldb_edit_clear(&e); ldb_edit_clear(&e2);
  free(base);
}

typedef struct hstate_s { uint64_t puts, dels; } hstate_t;
static void h_put(ldb_handler_t *h, const ldb_slice_t *k, const ldb_slice_t *v) { hstate_t *s = h->state; touch_slice(k); touch_slice(v); s->puts++; }
static void h_del(ldb_handler_t *h, const ldb_slice_t *k) { hstate_t *s = h->state; touch_slice(k); s->dels++; }

static void run_batch(const case_t *c, vrng_t *r) {
  uint8_t *base, *p = in_copy(&c->in, &base);
  ldb_slice_t s = ldb_slice(p, c->in.len);
  ldb_batch_t b, b2;
  ldb_handler_t h;
  hstate_t st = {0, 0};
  ldb_memtable_t *mt;
  ldb_iter_t *it;
  int rc, steps = 0;
  if (c->in.len < 12) vh_fatal("batch input shorter than the header reached run_batch");
  ldb_batch_init(&b); ldb_batch_init(&b2);
  ldb_batch_set_contents(&b, &s);
  h.state = &st; h.number = 0; h.put = h_put; h.del = h_del;
  PHASE("batch iterate");
  rc = ldb_batch_iterate(&b, &h);
  g_sink += (uint64_t)rc + (uint64_t)ldb_batch_count(&b) + ldb_batch_sequence(&b) + ldb_batch_size(&b);
  if (st.puts + st.dels > 0) { ENTER(); shm->x[X_BATCH_RECORDS] += st.puts + st.dels; }
  PHASE("batch insert_into memtable");
  mt = ldb_memtable_create(&g_ikc);
  ldb_memtable_ref(mt);
  g_sink += (uint64_t)ldb_batch_insert_into(&b, mt);
  it = ldb_memiter_create(mt);
  for (ldb_iter_first(it); ldb_iter_valid(it) && steps < 400; ldb_iter_next(it), steps++) iter_touch(it);
  steps = 0;
  for (ldb_iter_last(it); ldb_iter_valid(it) && steps < 100; ldb_iter_prev(it), steps++) iter_touch(it);
  ldb_iter_destroy(it);
  {
    int i;
    for (i = 0; i < 3; i++) {
      char uk[16];
      ldb_slice_t k;
      ldb_lkey_t lk;
      ldb_buffer_t val;
      int st2 = 0;
      ukey(uk, (int)rU(r, 60));
      k = ldb_slice((uint8_t *)uk, i == 2 ? 0 : 8);
      ldb_lkey_init(&lk, &k, LDB_MAX_SEQUENCE);
      ldb_buffer_init(&val);
      if (ldb_memtable_get(mt, &lk, &val, &st2)) touch(val.data, val.size);
      ldb_buffer_clear(&val);
      ldb_lkey_clear(&lk);
    }
  }
  ldb_memtable_unref(mt);
  PHASE("batch append");
  ldb_batch_append(&b2, &b);
  g_sink += (uint64_t)ldb_batch_iterate(&b2, &h);
  ldb_batch_clear(&b); ldb_batch_clear(&b2);
  free(base);
}

typedef struct rstate_s { int status; size_t drops; } rstate_t;
static void rep_corruption(ldb_reporter_t *rp, size_t bytes, int status) {
  rp->dropped_bytes += bytes;
  if (rp->status) *rp->status = status;
  shm->x[X_LOG_DROPS]++;
}

static void run_logreader(const case_t *c, vrng_t *r) {
  uint8_t *base, *p = in_copy(&c->in, &base);
  ldb_slice_t src = ldb_slice(p, c->in.len), rec;
  ldb_reporter_t rp;
  ldb_reader_t lr;
  ldb_buffer_t scratch;
  int status = LDB_OK, n = 0;
  uint64_t initial = rP(r, 100) ? rU(r, (uint32_t)c->in.len + 10) : 0;
  memset(&rp, 0, sizeof(rp));
  rp.status = &status; rp.corruption = rep_corruption; rp.dst = g_devnull;
  ldb_reader_init(&lr, NULL, &rp, rP(r, 800), initial);
  lr.src = &src;
  ldb_buffer_init(&scratch);
  while (n < 20000 && ldb_reader_read_record(&lr, &rec, &scratch)) { touch_slice(&rec); g_sink += lr.last_offset; n++; }
  if (n > 0) { ENTER(); shm->x[X_LOG_RECORDS] += (uint64_t)n; }
  ldb_buffer_clear(&scratch);
  ldb_reader_clear(&lr);
  free(base);
}

static void run_pkey(const case_t *c, vrng_t *r) {
  uint8_t *base, *p = in_copy(&c->in, &base);
  ldb_slice_t s = ldb_slice(p, c->in.len);
  ldb_pkey_t pk;
  ldb_buffer_t out;
  (void)r;
  ldb_buffer_init(&out);
  if (ldb_pkey_import(&pk, &s)) {
    ENTER();
    touch_slice(&pk.user_key);
    ldb_pkey_debug(&out, &pk);
    ldb_pkey_export(&out, &pk);
    g_sink += ldb_pkey_size(&pk);
  }
  ldb_ikey_debug(&out, &s);
  touch(out.data, out.size);
  if (c->in.len >= 8) {          /* internal-key order is defined on keys of >= 8 bytes */
    uint8_t o[16] = {'k', 'e', 'y', '0', '0', '0', '5', '0', 1, 0, 0, 0, 0, 0, 0, 0};
    ldb_slice_t os = ldb_slice(o, 16);
    g_sink += (uint64_t)ldb_compare(&g_ikc, &s, &os) + (uint64_t)ldb_compare(&g_ikc, &os, &s) + (uint64_t)ldb_compare(&g_ikc, &s, &s);
  }
  ldb_buffer_clear(&out);
  free(base);
}

static void run_filename(const case_t *c, vrng_t *r) {
  char *name = malloc(c->in.len + 1);
  ldb_filetype_t type = LDB_FILE_LOG;
  uint64_t num = 0;
  (void)r;
  if (c->in.len) memcpy(name, c->in.data, c->in.len);
  name[c->in.len] = 0;
  if (ldb_parse_filename(&type, &num, name)) { ENTER(); g_sink += num + (uint64_t)type; }
  g_sink += (uint64_t)strlen(ldb_basename(name));
  free(name);
}

static void run_coding(const case_t *c, vrng_t *r) {
  uint8_t *base, *p = in_copy(&c->in, &base);
  ldb_slice_t s = ldb_slice(p, c->in.len);
  int steps = 0, ok = 1;
  while (ok && steps++ < 400) {
    uint32_t a = 0; uint64_t b = 0;
    ldb_slice_t z;
    ldb_buffer_t zb;
    ldb_handle_t h;
    switch (rU(r, 10)) {
      case 0: ok = ldb_varint32_slurp(&a, &s); break;
      case 1: ok = ldb_varint64_slurp(&b, &s); break;
      case 2: ok = ldb_fixed32_slurp(&a, &s); break;
      case 3: ok = ldb_fixed64_slurp(&b, &s); break;
      case 4: ok = ldb_slice_slurp(&z, &s); if (ok) touch_slice(&z); break;
      case 5: ldb_buffer_init(&zb); ok = ldb_buffer_slurp(&zb, &s); if (ok) touch(zb.data, zb.size); ldb_buffer_clear(&zb); break;
      case 6: ok = ldb_slice_read(&z, (const uint8_t **)&s.data, &s.size); if (ok) touch_slice(&z); break;
      case 7: ldb_buffer_init(&zb); ok = ldb_buffer_read(&zb, (const uint8_t **)&s.data, &s.size); if (ok) touch(zb.data, zb.size); ldb_buffer_clear(&zb); break;
      case 8: ok = ldb_handle_read(&h, (const uint8_t **)&s.data, &s.size); break;
      default: {
        ldb_slice_t whole = s;
        if (ldb_slice_import(&z, &whole)) touch_slice(&z);
        ldb_buffer_init(&zb); if (ldb_buffer_import(&zb, &whole)) touch(zb.data, zb.size); ldb_buffer_clear(&zb);
        ok = ldb_varint32_slurp(&a, &s);
      }
    }
    g_sink += a + b;
    if (ok) ENTER();
    touch_slice(&s);           /* the remaining slice must still lie inside the input */
  }
  free(base);
}

static void run_dumpfile(const case_t *c, vrng_t *r) {
  static const char *nm[] = {"000005.log", "000005.ldb", "MANIFEST-000005", "000005.sst"};
  char path[800];
  int rc;
  (void)r;
  work_path(path, sizeof(path), nm[c->sub & 3]);
  write_file(path, c->in.data, c->in.len);
  PHASE("ldb_dump_file %s", nm[c->sub & 3]);
  rc = ldb_dump_file(path, g_devnull);
  if (rc == LDB_OK) { ENTER(); shm->x[X_DUMP_OK]++; }
  unlink(path);
}

typedef struct gstate_s { int hits; } gstate_t;
static void get_result(void *arg, const ldb_slice_t *k, const ldb_slice_t *v) { gstate_t *g = arg; touch_slice(k); touch_slice(v); g->hits++; }

static void run_table(const case_t *c, vrng_t *r) {
  char path[800];
  ldb_dbopt_t opt = *ldb_dbopt_default;
  ldb_readopt_t ro = *ldb_readopt_default;
  ldb_rfile_t *file = NULL;
  ldb_table_t *table = NULL;
  int use_mmap = rP(r, 300), rc, i;
  work_path(path, sizeof(path), "tb.ldb");
  write_file(path, c->in.data, c->in.len);
  if (ldb_randfile_create(path, &file, use_mmap) != LDB_OK) { unlink(path); return; }
  opt.comparator = &g_ikc;
  opt.filter_policy = rP(r, 750) ? &g_ifp : NULL;
  opt.block_cache = rP(r, 600) ? g_cache : NULL;
  opt.paranoid_checks = (int)rU(r, 2);
  ro.verify_checksums = (int)rU(r, 2);
  ro.fill_cache = (int)rU(r, 2);
  PHASE("table_open paranoid=%d mmap=%d filter=%d cache=%d", opt.paranoid_checks, use_mmap, opt.filter_policy != NULL, opt.block_cache != NULL);
  rc = ldb_table_open(&opt, file, c->in.len, &table);
  if (rc == LDB_OK && table != NULL) {
    ldb_iter_t *it;
    int seen;
    ENTER();
    PHASE("table iterate verify=%d mmap=%d", ro.verify_checksums, use_mmap);
    it = ldb_tableiter_create(table, &ro);
    seen = drive_iter(it, r, 1, 400, 150, 5, 8);
    shm->x[X_TABLE_ENTRIES] += (uint64_t)seen;
    ldb_iter_destroy(it);
    PHASE("table internal_get verify=%d mmap=%d", ro.verify_checksums, use_mmap);
    for (i = 0; i < 6; i++) {
      rc_buf_t k;
      char uk[16];
      ldb_slice_t ks;
      gstate_t g = {0};
      rc_buf_init(&k);
      if (g_saved.n > 0 && rP(r, 500)) { const rc_buf_t *s = &g_saved.k[rU(r, (uint32_t)g_saved.n)]; bset(&k, s->data, s->len); while (k.len < 8) rc_buf_push(&k, 0); }
      else { ukey(uk, 10 + (int)rU(r, 420)); ikey_make(&k, uk, LDB_MAX_SEQUENCE, 1); }
      ks = ldb_slice(k.data, k.len);
      g_sink += (uint64_t)ldb_table_internal_get(table, &ro, &ks, &g, get_result);
      g_sink += ldb_table_approximate_offset(table, &ks);
      rc_buf_free(&k);
    }
    ldb_table_destroy(table);
  }
  ldb_rfile_destroy(file);
  unlink(path);
}

static void run_direct(const case_t *c, vrng_t *r) {
  switch (c->target) {
    case T_BLOCK: run_block(c, r); break;
    case T_FOOTER: run_footer(c, r); break;
    case T_HANDLE: run_handle(c, r); break;
    case T_READBLOCK: run_readblock(c, r); break;
    case T_FILTER: run_filter(c, r); break;
    case T_SNAPPY: run_snappy(c, r); break;
    case T_EDIT: run_edit(c, r); break;
    case T_BATCH: run_batch(c, r); break;
    case T_LOGREADER: run_logreader(c, r); break;
    case T_PKEY: run_pkey(c, r); break;
    case T_FILENAME: run_filename(c, r); break;
    case T_CODING: run_coding(c, r); break;
    case T_DUMPFILE: run_dumpfile(c, r); break;
    case T_TABLE: run_table(c, r); break;
    default: vh_fatal("bad target");
  }
}

/* ------------------------------------------------------------------ */
/* db mode: template databases built with the real library, mutated directories */

#define DB_NKEYS 160
#define MAXDF 40
enum { DK_TABLE, DK_LOG, DK_MANIFEST, DK_CURRENT, DK_OTHER };

typedef struct dfile_s { char name[80]; rc_buf_t bytes; int kind; uint64_t num; ttpl_t *tt; } dfile_t;

typedef struct dtpl_s {
  dfile_t f[MAXDF]; int nf;
  int compression, bloom; size_t block_size;
  int i_log, i_manifest, i_current;
  rlog_t wal, manifest;
  dbinfo_t info;
  ttpl_t *tables[MAXDF]; int ntables;
} dtpl_t;

#define NDTPL 4
static dtpl_t g_dt[NDTPL];
static ttpl_t *g_alltables[NDTPL * MAXDF]; static int g_nalltables;

static void null_log(void *state, const char *fmt, va_list ap) { (void)state; (void)fmt; (void)ap; }
static ldb_logger_t *g_logger;

static size_t dbkey(char *buf, int i) { return (size_t)sprintf(buf, "key%05d", i * 3); }

static void db_options(ldb_dbopt_t *o, const dtpl_t *t, int paranoid, int use_mmap, int variant) {
  *o = *ldb_dbopt_default;
  o->create_if_missing = 0;
  o->paranoid_checks = paranoid;
  o->use_mmap = use_mmap;
  o->info_log = g_logger;
  o->write_buffer_size = 64 << 10;
  o->block_size = t->block_size;
  o->compression = t->compression ? LDB_SNAPPY_COMPRESSION : LDB_NO_COMPRESSION;
  o->filter_policy = (t->bloom && !(variant & 1)) ? g_bloom : NULL;
  o->block_cache = (variant & 2) ? g_cache : NULL;
  o->reuse_logs = (variant >> 2) & 1;
  o->max_open_files = (variant & 8) ? 70 : 1000;
}

/* runs in its own process: creates a small database spread over >= 3 levels with a live WAL */
static void build_db_template(const char *dir, int v) {
  ldb_dbopt_t o;
  dtpl_t cfg;
  ldb_t *db = NULL;
  uint8_t *val = malloc(50000);
  char k[32], *prop = NULL;
  int rc, i, round;
  memset(&cfg, 0, sizeof(cfg));
  cfg.compression = v & 1; cfg.bloom = (v >> 1) & 1; cfg.block_size = (v == 3) ? 4096 : 1024;
  db_options(&o, &cfg, 0, 1, 0);
  o.create_if_missing = 1;
  if ((rc = ldb_open(dir, &o, &db)) != LDB_OK) vh_fatal("template open %s: %d", dir, rc);
  for (round = 0; round < 5 + (v & 1); round++) {
    int lo = round == 0 ? 0 : (round * 23) % 60, hi = round == 0 ? DB_NKEYS : lo + 40 + round * 9, step = round == 0 ? 1 : 1 + round % 3;
    for (i = lo; i < hi && i < DB_NKEYS; i += step) {
      ldb_slice_t ks, vs;
      size_t vl = 20 + (size_t)((i * 37 + round * 11) % 180);
      dbkey(k, i);
      ks = ldb_slice((uint8_t *)k, strlen(k));
      if (round > 0 && (i + round) % 7 == 0) { ldb_del(db, &ks, ldb_writeopt_default); continue; }
      vh_fill_value(val, vl, ((uint64_t)round << 20) | ((uint64_t)i << 1) | (uint64_t)(i & 1));
      vs = ldb_slice(val, vl);
      if ((rc = ldb_put(db, &ks, &vs, ldb_writeopt_default)) != LDB_OK) vh_fatal("template put: %d", rc);
    }
    if ((rc = ldb_test_compact_memtable(db)) != LDB_OK) vh_fatal("template flush: %d", rc);
    if (round == 0) { ldb_test_compact_range(db, 0, NULL, NULL); ldb_test_compact_range(db, 1, NULL, NULL); ldb_test_compact_range(db, 2, NULL, NULL); }
    if (round == 1) ldb_test_compact_range(db, 0, NULL, NULL);
  }
  /* live WAL: several records, one larger than a 32 KiB log block */
  {
    ldb_batch_t b;
    ldb_slice_t ks, vs;
    ldb_batch_init(&b);
    for (i = 0; i < 6; i++) {
      dbkey(k, 5 + i * 9); ks = ldb_slice((uint8_t *)k, strlen(k));
      vh_fill_value(val, 60, 900 + (uint64_t)i * 2); vs = ldb_slice(val, 60);
      if (i == 4) ldb_batch_del(&b, &ks); else ldb_batch_put(&b, &ks, &vs);
    }
    ldb_write(db, &b, ldb_writeopt_default);
    ldb_batch_clear(&b);
    dbkey(k, 77); ks = ldb_slice((uint8_t *)k, strlen(k));
    vh_fill_value(val, 40000, 4242); vs = ldb_slice(val, 40000);
    ldb_put(db, &ks, &vs, ldb_writeopt_default);
    dbkey(k, 12); ks = ldb_slice((uint8_t *)k, strlen(k)); vs = ldb_slice((uint8_t *)"tail", 4);
    ldb_put(db, &ks, &vs, ldb_writeopt_default);
    dbkey(k, 13); ks = ldb_slice((uint8_t *)k, strlen(k));
    ldb_del(db, &ks, ldb_writeopt_default);
  }
  if (ldb_property(db, "leveldb.sstables", &prop)) {
    char p2[800];
    snprintf(p2, sizeof(p2), "%s.layout", dir);
    write_file(p2, prop, strlen(prop));
    ldb_free(prop);
  }
  ldb_close(db);
  free(val);
}

static void load_db_template(dtpl_t *t, const char *dir, int v) {
  DIR *d = opendir(dir);
  struct dirent *de;
  rc_logresult_t lr;
  rc_manifest_t mf;
  size_t i;
  int levels = 0, lvset[7] = {0};
  if (d == NULL) vh_fatal("template dir %s missing", dir);
  memset(t, 0, sizeof(*t));
  t->compression = v & 1; t->bloom = (v >> 1) & 1; t->block_size = (v == 3) ? 4096 : 1024;
  t->i_log = t->i_manifest = t->i_current = -1;
  while ((de = readdir(d)) != NULL && t->nf < MAXDF) {
    char path[900];
    dfile_t *f = &t->f[t->nf];
    ldb_filetype_t ty;
    uint64_t num;
    if (de->d_name[0] == '.' || strcmp(de->d_name, "LOCK") == 0 || strncmp(de->d_name, "LOG", 3) == 0) continue;
    snprintf(path, sizeof(path), "%s/%s", dir, de->d_name);
    snprintf(f->name, sizeof(f->name), "%s", de->d_name);
    rc_buf_init(&f->bytes);
    read_file(path, &f->bytes);
    f->kind = DK_OTHER; f->num = 0; f->tt = NULL;
    if (ldb_parse_filename(&ty, &num, de->d_name)) {
      f->num = num;
      if (ty == LDB_FILE_TABLE) f->kind = DK_TABLE;
      else if (ty == LDB_FILE_LOG) { f->kind = DK_LOG; t->i_log = t->nf; }
      else if (ty == LDB_FILE_DESC) { f->kind = DK_MANIFEST; t->i_manifest = t->nf; }
      else if (ty == LDB_FILE_CURRENT) { f->kind = DK_CURRENT; t->i_current = t->nf; }
    }
    t->nf++;
  }
  closedir(d);
  if (t->i_log < 0 || t->i_manifest < 0 || t->i_current < 0) vh_fatal("template %s lacks log/MANIFEST/CURRENT", dir);
  /* sort by name so that case generation does not depend on readdir order */
  {
    int a, b;
    for (a = 0; a < t->nf; a++) for (b = a + 1; b < t->nf; b++) if (strcmp(t->f[a].name, t->f[b].name) > 0) { dfile_t x = t->f[a]; t->f[a] = t->f[b]; t->f[b] = x; }
    for (a = 0; a < t->nf; a++) { if (t->f[a].kind == DK_LOG) t->i_log = a; if (t->f[a].kind == DK_MANIFEST) t->i_manifest = a; if (t->f[a].kind == DK_CURRENT) t->i_current = a; }
  }
  for (i = 0; i < (size_t)t->nf; i++) {
    dfile_t *f = &t->f[i];
    if (f->kind != DK_TABLE) continue;
    f->tt = calloc(1, sizeof(ttpl_t));
    f->tt->file = f->bytes;
    if (!ttpl_parse(f->tt)) vh_fatal("template table %s/%s does not decode with the reference decoder", dir, f->name);
    t->tables[t->ntables++] = f->tt;
    g_alltables[g_nalltables++] = f->tt;
  }
  /* records of the WAL and the MANIFEST (reference log reader) */
  memset(&lr, 0, sizeof(lr));
  rc_log_read(t->f[t->i_log].bytes.data, t->f[t->i_log].bytes.len, &lr);
  for (i = 0; i < lr.nrecs; i++) rlog_add(&t->wal, lr.recs[i].data, lr.recs[i].len);
  rc_logresult_free(&lr);
  rc_buf_init(&t->wal.framed); bput(&t->wal.framed, t->f[t->i_log].bytes.data, t->f[t->i_log].bytes.len);
  memset(&lr, 0, sizeof(lr));
  rc_log_read(t->f[t->i_manifest].bytes.data, t->f[t->i_manifest].bytes.len, &lr);
  for (i = 0; i < lr.nrecs; i++) rlog_add(&t->manifest, lr.recs[i].data, lr.recs[i].len);
  rc_logresult_free(&lr);
  t->manifest.is_manifest = 1;
  rc_buf_init(&t->manifest.framed); bput(&t->manifest.framed, t->f[t->i_manifest].bytes.data, t->f[t->i_manifest].bytes.len);
  memset(&mf, 0, sizeof(mf));
  if (rc_manifest_replay(t->f[t->i_manifest].bytes.data, t->f[t->i_manifest].bytes.len, &mf) != 0) vh_fatal("template MANIFEST of %s does not replay: %s", dir, mf.err);
  for (i = 0; i < mf.nfiles && t->info.nf < 40; i++) {
    finfo_t *fi = &t->info.f[t->info.nf++];
    fi->number = mf.files[i].number; fi->size = mf.files[i].size; fi->level = mf.files[i].level;
    if (!lvset[fi->level]) { lvset[fi->level] = 1; levels++; }
  }
  t->info.next_file = mf.next_file; t->info.log_number = mf.log_number; t->info.last_seq = mf.last_sequence;
  if (t->ntables < 3 || levels < 3 || t->wal.nrec < 3 || t->manifest.nrec < 3)
    vh_fatal("template %s too poor: %d tables over %d levels, %d WAL records, %d edits", dir, t->ntables, levels, t->wal.nrec, t->manifest.nrec);
  vh_count("db_template_tables", (uint64_t)t->ntables);
  vh_count("db_template_levels", (uint64_t)levels);
  vh_count("db_template_edits", (uint64_t)t->manifest.nrec);
  vh_count("db_template_wal_records", (uint64_t)t->wal.nrec);
  rc_manifest_free(&mf);
}

static void build_db_templates(void) {
  int v;
  for (v = 0; v < NDTPL; v++) {
    char dir[800];
    pid_t pid;
    int st;
    snprintf(dir, sizeof(dir), "%s/dbtpl-%d", g_work, v);
    vh_rm_rf(dir);
    fflush(NULL);
    pid = fork();
    if (pid < 0) vh_fatal("fork: %s", strerror(errno));
    if (pid == 0) { build_db_template(dir, v); _exit(0); }
    if (waitpid(pid, &st, 0) != pid || !WIFEXITED(st) || WEXITSTATUS(st) != 0) vh_fatal("template builder %d failed (status 0x%x)", v, st);
    load_db_template(&g_dt[v], dir, v);
    vh_rm_rf(dir);
  }
}

/* the files of one case */
typedef struct dcase_s {
  const dtpl_t *t;
  struct { char name[300]; rc_buf_t bytes; int own, absent, kind; } f[MAXDF + 6];
  int nf;
  char desc[200];
  char dkeys[4][DISTLEN]; int ndkeys;
  int cls;
} dcase_t;

static void dcase_set(dcase_t *c, int i, rc_buf_t *b) {
  if (c->f[i].own) rc_buf_free(&c->f[i].bytes);
  c->f[i].bytes = *b; c->f[i].own = 1; c->f[i].absent = 0;
  rc_buf_init(b);
}

static int dcase_add(dcase_t *c, const char *name, const void *p, size_t n, int kind) {
  int i = c->nf;
  if (i >= MAXDF + 6) return -1;
  snprintf(c->f[i].name, sizeof(c->f[i].name), "%s", name);
  rc_buf_init(&c->f[i].bytes); bput(&c->f[i].bytes, p, n);
  c->f[i].own = 1; c->f[i].absent = 0; c->f[i].kind = kind;
  return c->nf++;
}

static void desc_add(dcase_t *c, const char *file, const char *d) {
  size_t l = strlen(c->desc);
  snprintf(c->desc + l, sizeof(c->desc) - l, "%s%s:%s", l ? " ; " : "", file, d);
}

static int pick_table_file(const dcase_t *c, vrng_t *r) {
  int idx[MAXDF], n = 0, i;
  for (i = 0; i < c->t->nf; i++) if (c->t->f[i].kind == DK_TABLE) idx[n++] = i;
  return idx[rU(r, (uint32_t)n)];
}

static void mutate_db_once(dcase_t *c, vrng_t *r) {
  const dtpl_t *t = c->t;
  rc_buf_t out;
  char d[200];
  uint32_t cat = rU(r, 100);
  int cls = CL_MUTATE;
  rc_buf_init(&out);
  d[0] = 0;
  if (cat < 45) {                                      /* a table file */
    int i = pick_table_file(c, r);
    cls = mut_table(t->f[i].tt, g_alltables, g_nalltables, r, &out, d, NULL, NULL);
    dcase_set(c, i, &out);
    desc_add(c, t->f[i].name, d);
  } else if (cat < 63) {                               /* MANIFEST */
    cls = mut_log(&t->manifest, &g_dt[rU(r, NDTPL)].manifest, &t->info, r, &out, d);
    dcase_set(c, t->i_manifest, &out);
    desc_add(c, t->f[t->i_manifest].name, d);
  } else if (cat < 82) {                               /* WAL */
    cls = mut_log(&t->wal, &g_dt[rU(r, NDTPL)].wal, &t->info, r, &out, d);
    dcase_set(c, t->i_log, &out);
    desc_add(c, t->f[t->i_log].name, d);
  } else if (cat < 90) {                               /* CURRENT */
    static const char *cn[] = {"empty", "no-newline", "long-name", "dotdot", "missing-file", "binary",
                               "double-newline", "newline-only", "names-table", "embedded-nul", "slash-abs"};
    int k = (int)rU(r, 11);
    const char *mn = t->f[t->i_manifest].name;
    switch (k) {
      case 0: break;
      case 1: bput(&out, mn, strlen(mn)); break;
      case 2: { int j; bput(&out, "MANIFEST-", 9); for (j = 0; j < 6000; j++) rc_buf_push(&out, '7'); rc_buf_push(&out, '\n'); break; }
      case 3: bput(&out, "../", 3); bput(&out, mn, strlen(mn)); rc_buf_push(&out, '\n'); break;
      case 4: bput(&out, "MANIFEST-999999\n", 16); break;
      case 5: brand(&out, r, 1 + rU(r, 64)); break;
      case 6: bput(&out, mn, strlen(mn)); bput(&out, "\n\n", 2); break;
      case 7: rc_buf_push(&out, '\n'); break;
      case 8: { int i = pick_table_file(c, r); bput(&out, t->f[i].name, strlen(t->f[i].name)); rc_buf_push(&out, '\n'); break; }
      case 9: bput(&out, mn, 5); rc_buf_push(&out, 0); bput(&out, mn + 5, strlen(mn) - 5); rc_buf_push(&out, '\n'); break;
      default: bput(&out, "/", 1); bput(&out, mn, strlen(mn)); rc_buf_push(&out, '\n'); break;
    }
    dcase_set(c, t->i_current, &out);
    desc_add(c, "CURRENT", cn[k]);
    snprintf(d, sizeof(d), "current|%s", cn[k]);
  } else {                                             /* directory level */
    int k = (int)rU(r, 9), i = pick_table_file(c, r), j = pick_table_file(c, r);
    static const char *dn[] = {"delete-table", "delete-log", "empty-table", "swap-tables", "stray-log-maxnum",
                               "stray-table-dup", "stray-manifest-overflow", "log-holds-table", "table-holds-log"};
    switch (k) {
      case 0: c->f[i].absent = 1; break;
      case 1: c->f[t->i_log].absent = 1; break;
      case 2: dcase_set(c, i, &out); break;
      case 3: { rc_buf_t a, b; rc_buf_init(&a); rc_buf_init(&b); bput(&a, c->f[i].bytes.data, c->f[i].bytes.len); bput(&b, c->f[j].bytes.data, c->f[j].bytes.len); dcase_set(c, i, &b); dcase_set(c, j, &a); break; }
      case 4: dcase_add(c, "18446744073709551615.log", t->wal.framed.data, t->wal.framed.len, DK_LOG); break;
      case 5: dcase_add(c, rP(r, 500) ? "00000000000000000000000000007.ldb" : "999999.sst", t->f[i].bytes.data, t->f[i].bytes.len, DK_TABLE); break;
      case 6: dcase_add(c, "MANIFEST-18446744073709551616", t->manifest.framed.data, t->manifest.framed.len, DK_OTHER); break;
      case 7: bput(&out, t->f[i].bytes.data, t->f[i].bytes.len); dcase_set(c, t->i_log, &out); break;
      default: bput(&out, t->wal.framed.data, t->wal.framed.len); dcase_set(c, i, &out); break;
    }
    desc_add(c, "dir", dn[k]);
    snprintf(d, sizeof(d), "dir|%s", dn[k]);
    cls = CL_SPLICE;
  }
  if (c->ndkeys < 4) snprintf(c->dkeys[c->ndkeys++], DISTLEN, "db|%s", d);
  if (cls > c->cls || c->cls == CL_VALID) c->cls = cls;
  rc_buf_free(&out);
}

static void dist_add(const char *key) {
  uint32_t h = (uint32_t)(vh_hash64(key, strlen(key), 7) % NDIST), i;
  for (i = 0; i < NDIST; i++) {
    char *slot = shm->dist[(h + i) % NDIST];
    if (slot[0] == 0) { if (shm->ndist < NDIST - 64) { snprintf(slot, DISTLEN, "%s", key); shm->ndist++; } return; }
    if (strncmp(slot, key, DISTLEN - 1) == 0) return;
  }
}

static void db_scan(ldb_t *db, vrng_t *r, int verify) {
  ldb_readopt_t ro = *ldb_readopt_default;
  ldb_iter_t *it;
  int n = 0, j;
  ro.verify_checksums = verify;
  ro.fill_cache = (int)rU(r, 2);
  it = ldb_iterator(db, &ro);
  PHASE("scan forward");
  for (ldb_iter_first(it); ldb_iter_valid(it) && n < 5000; ldb_iter_next(it), n++) iter_touch(it);
  if (ldb_iter_status(it) != LDB_OK) shm->x[X_DB_SCAN_ERR]++;
  PHASE("scan backward");
  for (ldb_iter_last(it); ldb_iter_valid(it) && n < 10000; ldb_iter_prev(it), n++) iter_touch(it);
  PHASE("seeks");
  for (j = 0; j < 5; j++) {
    char k[32];
    ldb_slice_t ks;
    size_t kl = j == 4 ? 0 : dbkey(k, (int)rU(r, DB_NKEYS + 5));
    int m;
    if (j == 3) k[kl - 1]++;
    ks = ldb_slice((uint8_t *)k, kl);
    ldb_iter_seek(it, &ks);
    for (m = 0; m < 3 && ldb_iter_valid(it); m++) { iter_touch(it); if (rP(r, 500)) ldb_iter_next(it); else ldb_iter_prev(it); n++; }
  }
  g_sink += (uint64_t)ldb_iter_status(it);
  ldb_iter_destroy(it);
  shm->x[X_DB_SCAN_ENTRIES] += (uint64_t)n;
}

static void db_dump_all(const char *dir) {
  DIR *d = opendir(dir);
  struct dirent *de;
  char names[64][300];
  int n = 0, i;
  if (d == NULL) return;
  while ((de = readdir(d)) != NULL && n < 64) if (de->d_name[0] != '.') snprintf(names[n++], 300, "%s", de->d_name);
  closedir(d);
  for (i = 0; i < n; i++) {
    char path[1200];
    snprintf(path, sizeof(path), "%s/%s", dir, names[i]);
    PHASE("dump_file %.60s", names[i]);
    shm->x[X_DB_DUMPS]++;
    if (ldb_dump_file(path, g_devnull) == LDB_OK) shm->x[X_DB_DUMP_OK]++;
  }
}

static void run_db_case(int64_t idx, vrng_t *r) {
  static dcase_t c;
  char dir[800];
  ldb_dbopt_t o;
  ldb_t *db = NULL;
  int i, nmut, paranoid, use_mmap, variant, verify, rc, dump_first;
  size_t dl;
  memset(&c, 0, sizeof(c));
  c.t = &g_dt[rU(r, NDTPL)];
  c.nf = c.t->nf;
  c.cls = CL_VALID;
  for (i = 0; i < c.nf; i++) { snprintf(c.f[i].name, sizeof(c.f[i].name), "%s", c.t->f[i].name); c.f[i].bytes = c.t->f[i].bytes; c.f[i].kind = c.t->f[i].kind; }
  nmut = rP(r, 20) ? 0 : 1 + (int)vr_skewed(r, 1) + (int)rP(r, 150);
  for (i = 0; i < nmut; i++) mutate_db_once(&c, r);
  if (nmut == 0) { snprintf(c.desc, sizeof(c.desc), "unmutated"); snprintf(c.dkeys[c.ndkeys++], DISTLEN, "db|valid|none"); }
  paranoid = (int)rU(r, 2); use_mmap = (int)rU(r, 2); variant = (int)rU(r, 16); verify = (int)rU(r, 2);
  dump_first = (int)rU(r, 2);
  dl = strlen(c.desc);
  snprintf(c.desc + dl, sizeof(c.desc) - dl, " [paranoid=%d mmap=%d var=%d verify=%d]", paranoid, use_mmap, variant, verify);
  /* publish */
  shm->cur_class = c.cls;
  snprintf(shm->desc, sizeof(shm->desc), "%s", c.desc);
  shm->in_len = 0;
  /* materialise */
  snprintf(dir, sizeof(dir), "%s/case-%lld", g_work, (long long)idx);
  vh_rm_rf(dir);
  if (vh_mkdir_p(dir) != 0) vh_fatal("mkdir %s: %s", dir, strerror(errno));
  for (i = 0; i < c.nf; i++) {
    char path[1200];
    if (c.f[i].absent) continue;
    snprintf(path, sizeof(path), "%s/%s", dir, c.f[i].name);
    write_file(path, c.f[i].bytes.data, c.f[i].bytes.len);
    if (c.f[i].own && shm->in_len == 0 && c.f[i].bytes.len > 0) { shm->in_len = (uint32_t)c.f[i].bytes.len; memcpy(shm->in, c.f[i].bytes.data, c.f[i].bytes.len > MAXIN ? MAXIN : c.f[i].bytes.len); }
  }
  shm->cases[T_DB]++; shm->tc[T_DB][c.cls]++;
  if (dump_first) db_dump_all(dir);
  db_options(&o, c.t, paranoid, use_mmap, variant);
  PHASE("ldb_open");
  rc = ldb_open(dir, &o, &db);
  if (rc == LDB_OK) {
    char k[32], *prop = NULL;
    ldb_readopt_t ro = *ldb_readopt_default;
    ldb_range_t rg[3];
    uint64_t sizes[3];
    char k1[32], k2[32], k3[32];
    ENTER(); shm->x[X_DB_OPEN_OK]++;
    ro.verify_checksums = verify;
    PHASE("gets");
    for (i = 0; i < DB_NKEYS + 2; i++) {
      ldb_slice_t ks, v;
      dbkey(k, i);
      ks = ldb_slice((uint8_t *)k, strlen(k));
      shm->x[X_DB_GETS]++;
      if (ldb_get(db, &ks, &v, &ro) == LDB_OK) { shm->x[X_DB_GET_FOUND]++; touch(v.data, v.size); }
      ldb_buffer_clear(&v);
    }
    db_scan(db, r, verify);
    PHASE("approximate_sizes");
    dbkey(k1, 0); dbkey(k2, DB_NKEYS / 2); dbkey(k3, DB_NKEYS + 10);
    rg[0].start = ldb_slice((uint8_t *)k1, strlen(k1)); rg[0].limit = ldb_slice((uint8_t *)k2, strlen(k2));
    rg[1].start = rg[0].limit; rg[1].limit = ldb_slice((uint8_t *)k3, strlen(k3));
    rg[2].start = ldb_slice((uint8_t *)"", 0); rg[2].limit = ldb_slice((uint8_t *)"\xff\xff", 2);
    ldb_approximate_sizes(db, rg, 3, sizes);
    g_sink += sizes[0] + sizes[1] + sizes[2];
    PHASE("properties");
    {
      static const char *props[] = {"leveldb.stats", "leveldb.sstables", "leveldb.approximate-memory-usage",
                                    "leveldb.num-files-at-level0", "leveldb.num-files-at-level6",
                                    "leveldb.num-files-at-level7", "leveldb.nonsense"};
      for (i = 0; i < 7; i++) if (ldb_property(db, props[i], &prop)) { touch(prop, strlen(prop)); ldb_free(prop); }
    }
    {   /* whole-range compaction is by far the most expensive step: half of the cases do it,
           a third compact a sub-range, the rest rely on the compactions open/recovery schedule */
      uint32_t w = rU(r, 100);
      if (w < 50) { PHASE("ldb_compact all"); ldb_compact(db, NULL, NULL); shm->x[X_DB_COMPACTS]++; }
      else if (w < 83) {
        ldb_slice_t b, e;
        dbkey(k1, (int)rU(r, DB_NKEYS / 2)); dbkey(k2, DB_NKEYS / 2 + (int)rU(r, DB_NKEYS / 2));
        b = ldb_slice((uint8_t *)k1, strlen(k1)); e = ldb_slice((uint8_t *)k2, strlen(k2));
        PHASE("ldb_compact range");
        ldb_compact(db, rU(r, 4) ? &b : NULL, rU(r, 4) ? &e : NULL);
        shm->x[X_DB_COMPACTS]++;
      }
    }
    if (rP(r, 300)) db_scan(db, r, verify);
    PHASE("ldb_close");
    ldb_close(db);
  } else shm->x[X_DB_OPEN_FAIL]++;
  PHASE("ldb_repair");
  db_options(&o, c.t, paranoid, use_mmap, variant ^ 2);
  rc = ldb_repair(dir, &o);
  if (rc == LDB_OK) {
    shm->x[X_DB_REPAIR_OK]++;
    PHASE("open after repair");
    db = NULL;
    rc = ldb_open(dir, &o, &db);
    if (rc == LDB_OK) { ENTER(); shm->x[X_DB_REOPEN_OK]++; db_scan(db, r, verify); PHASE("close after repair"); ldb_close(db); }
    else shm->x[X_DB_REOPEN_FAIL]++;
  } else shm->x[X_DB_REPAIR_FAIL]++;
  if (!dump_first) db_dump_all(dir);
  if (g_entered) { shm->entered[T_DB]++; for (i = 0; i < c.ndkeys; i++) dist_add(c.dkeys[i]); }
  if (!shm->samp_have[T_DB][c.cls] && shm->nsamp < NSAMP) {
    shm->samp_have[T_DB][c.cls] = 1;
    snprintf(shm->samp[shm->nsamp++], 400, "db case %lld class=%s %s", (long long)idx, clname[c.cls], c.desc);
  }
  for (i = 0; i < c.nf; i++) if (c.f[i].own) rc_buf_free(&c.f[i].bytes);
  if (!g_keep) vh_rm_rf(dir);
}

/* ------------------------------------------------------------------ */
/* child: run cases [first, end) */

static void arm_timers(long cpu, long wall) {
  struct itimerval tv;
  memset(&tv, 0, sizeof(tv));
  tv.it_value.tv_sec = cpu;
  setitimer(ITIMER_VIRTUAL, &tv, NULL);
  tv.it_value.tv_sec = wall;
  setitimer(ITIMER_REAL, &tv, NULL);
}

static int case_target(vrng_t *r) {
  int total = 0, t, x;
  if (g_mode_db) return T_DB;
  if (g_only_target >= 0) return g_only_target;
  for (t = 0; t < T_N; t++) total += tweight[t];
  x = (int)rU(r, (uint32_t)total);
  for (t = 0; t < T_N; t++) { if (x < tweight[t]) return t; x -= tweight[t]; }
  return T_BLOCK;
}

static void case_rng(vrng_t *r, int64_t idx) {
  vr_seed(r, g_seed * 0x9E3779B97F4A7C15ULL + (uint64_t)idx * 0xD1B54A32D192ED03ULL + (g_mode_db ? 0x5bd1e995u : 0) +
             (uint64_t)(g_only_target + 1) * 0x632BE59BD9B4E019ULL);
}

static void child_run(int64_t first, int64_t end, long cpu, long wall) {
  static case_t c;
  int64_t i;
  rc_buf_init(&c.in);
  for (i = first; i < end; i++) {
    vrng_t r;
    case_rng(&r, i);
    g_entered = 0;
    shm->phase[0] = 0;
    arm_timers(cpu, wall);
    if (getenv("VERIF_FZ_SPIN") && atoll(getenv("VERIF_FZ_SPIN")) == i) {   /* self-test of the CPU guard */
      shm->cur_target = g_mode_db ? T_DB : T_BLOCK; shm->in_len = 0;
      __atomic_store_n(&shm->cur_case, i, __ATOMIC_SEQ_CST);
      for (;;) g_sink++;
    }
    if (g_mode_db) {
      shm->cur_target = T_DB; shm->cur_class = CL_MUTATE; shm->desc[0] = 0; shm->in_len = 0;
      __atomic_store_n(&shm->cur_case, i, __ATOMIC_SEQ_CST);
      run_db_case(i, &r);
    } else {
      c.idx = i;
      c.target = case_target(&r);
      gen_case(&c, &r);
      shm->cur_target = c.target; shm->cur_class = c.cls;
      snprintf(shm->desc, sizeof(shm->desc), "%s", c.desc);
      shm->in_len = (uint32_t)c.in.len;
      if (c.in.len) memcpy(shm->in, c.in.data, c.in.len);
      __atomic_store_n(&shm->cur_case, i, __ATOMIC_SEQ_CST);
      shm->cases[c.target]++; shm->tc[c.target][c.cls]++;
      if (g_debug) {
        double t0 = vh_now(), dt;
        run_direct(&c, &r);
        dt = vh_now() - t0;
        if (dt > 0.003) { FILE *f = fopen("/tmp/fuzzmon-slow.txt", "a"); if (f) { fprintf(f, "%lld %s %.1fms len=%zu %s phase=%s\n", (long long)i, tname[c.target], dt * 1e3, c.in.len, c.desc, shm->phase); fclose(f); } }
      } else
      run_direct(&c, &r);
      if (g_entered) {
        char key[DISTLEN + 32];
        shm->entered[c.target]++;
        snprintf(key, sizeof(key), "%s|%s", tname[c.target], c.desc);
        key[DISTLEN - 1] = 0;
        dist_add(key);
      }
      if (!shm->samp_have[c.target][c.cls] && shm->nsamp < NSAMP && (i % 7) == 0) {
        shm->samp_have[c.target][c.cls] = 1;
        snprintf(shm->samp[shm->nsamp++], 400, "case %lld target=%s class=%s %s len=%zu entered=%d hex=%s", (long long)i,
                 tname[c.target], clname[c.cls], c.desc, c.in.len, g_entered, vh_hex(c.in.data, c.in.len > 48 ? 48 : c.in.len));
      }
    }
    __atomic_store_n(&shm->cur_case, (int64_t)-1, __ATOMIC_SEQ_CST);
  }
  arm_timers(0, 0);
  shm->finished = 1;
}

/* ------------------------------------------------------------------ */
/* parent: batches, death triage */

static char g_errpath[800];

typedef struct death_s { int how; /* 0 ok, 1 signal, 2 exit */ int code; char err[16384]; } death_t;

/* run [first,end) in a forked child; stderr of the child goes to a file */
static void spawn(int64_t first, int64_t end, long cpu, long wall, death_t *d) {
  pid_t pid;
  int st = 0, fd;
  ssize_t n;
  shm->finished = 0;
  shm->cur_case = -1;
  fflush(NULL);
  pid = fork();
  if (pid < 0) vh_fatal("fork: %s", strerror(errno));
  if (pid == 0) {
    fd = open(g_errpath, O_WRONLY | O_CREAT | O_TRUNC, 0644);
    if (fd >= 0) { dup2(fd, 2); close(fd); }
    child_run(first, end, cpu, wall);
    _exit(0);
  }
  while (waitpid(pid, &st, 0) < 0) if (errno != EINTR) vh_fatal("waitpid: %s", strerror(errno));
  d->how = 0; d->code = 0; d->err[0] = 0;
  if (WIFSIGNALED(st)) { d->how = 1; d->code = WTERMSIG(st); }
  else if (WIFEXITED(st) && WEXITSTATUS(st) != 0) { d->how = 2; d->code = WEXITSTATUS(st); }
  else if (!shm->finished) { d->how = 2; d->code = 0; }
  if (d->how) {
    fd = open(g_errpath, O_RDONLY);
    if (fd >= 0) { n = read(fd, d->err, sizeof(d->err) - 1); d->err[n > 0 ? n : 0] = 0; close(fd); }
  }
  unlink(g_errpath);
}

static const char *ubsan_short(const char *m) {
  static const struct { const char *pat, *name; } tab[] = {
    {"signed integer overflow", "signed-integer-overflow"}, {"negation of", "signed-integer-overflow"},
    {"shift exponent", "shift-exponent"}, {"left shift of", "shift-base"},
    {"misaligned address", "alignment"}, {"out of bounds for type", "bounds"},
    {"null pointer passed as argument", "nonnull-attribute"}, {"offset to null pointer", "pointer-overflow"},
    {"pointer index expression", "pointer-overflow"}, {"addition of unsigned offset", "pointer-overflow"},
    {"subtraction of unsigned offset", "pointer-overflow"},
    {"not a valid value for type", "invalid-value"}, {"division by zero", "integer-divide-by-zero"},
    {"within null pointer", "null"}, {"null pointer of type", "null"}, {"variable length array", "vla-bound"},
    {"unreachable", "unreachable"}, {"outside the range of representable", "float-cast-overflow"},
    {"insufficient space for an object", "object-size"}, {"unsigned integer overflow", "unsigned-integer-overflow"}};
  size_t i;
  for (i = 0; i < sizeof(tab) / sizeof(tab[0]); i++) if (strstr(m, tab[i].pat)) return tab[i].name;
  return "other";
}

/* kind (stable) + first report line + top frames */
static void classify(const death_t *d, char *kind, size_t kn, char *report, size_t rn) {
  const char *a = strstr(d->err, "ERROR: AddressSanitizer: "), *u = strstr(d->err, "runtime error: ");
  const char *first = NULL, *p;
  size_t o = 0;
  int frames = 0;
  report[0] = 0;
  if (a && (!u || a < u)) {
    char what[64];
    size_t i = 0;
    a += strlen("ERROR: AddressSanitizer: ");
    while (a[i] && a[i] != ' ' && a[i] != '\n' && a[i] != ':' && i < sizeof(what) - 1) { what[i] = a[i]; i++; }
    what[i] = 0;
    if (strcmp(what, "ABRT") == 0) snprintf(kind, kn, "%s", strstr(d->err, "exceeds maximum supported size") || strstr(d->err, "failed to allocate") ? "alloc-bomb" : "abort");
    else if (strcmp(what, "requested") == 0 || strcmp(what, "allocation-size-too-big") == 0 || strcmp(what, "out-of-memory") == 0 || strcmp(what, "allocator") == 0) snprintf(kind, kn, "alloc-bomb");
    else snprintf(kind, kn, "asan:%s", what);
    first = a - strlen("ERROR: AddressSanitizer: ");
  } else if (u) {
    snprintf(kind, kn, "ubsan:%s", ubsan_short(u));
    first = u;
    while (first > d->err && first[-1] != '\n') first--;
  } else if (d->how == 1 && (d->code == SIGVTALRM || d->code == SIGALRM)) snprintf(kind, kn, "non-termination");
  else if (d->how == 1 && d->code == SIGABRT) snprintf(kind, kn, "%s", strstr(d->err, "exceeds maximum supported size") ? "alloc-bomb" : "abort");
  else if (d->how == 1) snprintf(kind, kn, "signal-%d", d->code);
  else snprintf(kind, kn, "exit");
  if (first) {
    const char *e = strchr(first, '\n');
    size_t l = e ? (size_t)(e - first) : strlen(first);
    if (l > 300) l = 300;
    o += (size_t)snprintf(report + o, rn - o, "%.*s", (int)l, first);
    for (p = first; (p = strstr(p, "\n    #")) != NULL && frames < 7 && o + 8 < rn; frames++) {
      const char *in = strstr(p, " in "), *nl = strchr(p + 1, '\n');
      p++;
      if (in && (!nl || in < nl)) {
        l = nl ? (size_t)(nl - in - 4) : strlen(in + 4);
        if (l > 110) l = 110;
        o += (size_t)snprintf(report + o, rn - o, " | #%d %.*s", frames, (int)l, in + 4);
      }
    }
  } else {
    size_t l = strlen(d->err);
    snprintf(report, rn, "(no sanitizer report) stderr tail: %s", l > 300 ? d->err + l - 300 : d->err);
  }
}

static int g_nwitness = 0;

static void report_death(int64_t k, const death_t *d, const char *kind_override) {
  char kind[96], report[2048], key[160], wpath[900], hexbuf[600];
  int target = shm->cur_target;
  size_t len = shm->in_len, wl = len > MAXIN ? MAXIN : len, hl = wl > 256 ? 256 : wl, i;
  if (target < 0 || target >= T_N) target = T_N - 1;
  classify(d, kind, sizeof(kind), report, sizeof(report));
  if (kind_override) snprintf(kind, sizeof(kind), "%s", kind_override);
  snprintf(key, sizeof(key), "%s@%s", kind, tname[target]);
  snprintf(wpath, sizeof(wpath), "%s/witness-%s-%lld.bin", g_dir, tname[target], (long long)k);
  write_file(wpath, shm->in, wl);
  for (i = 0; i < hl; i++) sprintf(hexbuf + 2 * i, "%02x", shm->in[i]);
  hexbuf[2 * hl] = 0;
  g_nwitness++;
  if (g_mode_db) {
    char from[900], to[900];
    snprintf(from, sizeof(from), "%s/case-%lld", g_work, (long long)k);
    snprintf(to, sizeof(to), "%s/witness-db-%lld.dir", g_dir, (long long)k);
    vh_rm_rf(to);
    if (rename(from, to) != 0) vh_note("could not keep %s: %s", from, strerror(errno));
  }
  vh_violation("C18", key,
               "%s on case %lld (seed %llu, mode %s%s%s): target=%s class=%s mutation=[%s] phase=[%s] input_len=%zu witness=%s "
               "replay: --seed %llu --mode %s --first %lld --count 1%s%s ; report: %s ; input[0..%zu)=%s",
               kind, (long long)k, (unsigned long long)g_seed, g_mode_db ? "db" : "direct",
               g_only_target >= 0 ? " --target " : "", g_only_target >= 0 ? tname[g_only_target] : "",
               tname[target], clname[shm->cur_class % CL_N], shm->desc, shm->phase, len, wpath,
               (unsigned long long)g_seed, g_mode_db ? "db" : "direct", (long long)k,
               g_only_target >= 0 ? " --target " : "", g_only_target >= 0 ? tname[g_only_target] : "",
               report, hl, hexbuf);
}

static void run_all(int64_t first, int64_t count, int64_t batch) {
  int64_t next = first, end = first + count;
  static death_t d, d2;
  while (next < end) {
    int64_t be = next + batch < end ? next + batch : end, k;
    spawn(next, be, g_cpu_limit, g_wall_limit, &d);
    if (d.how == 0) { next = be; continue; }
    k = shm->cur_case;
    if (d.how == 2 && d.code == 2) vh_fatal("child reported a harness failure near case %lld: %s", (long long)k, d.err);
    if (k < next || k >= be)
      vh_fatal("child died outside a case (generator/harness problem) in batch [%lld,%lld): how=%d code=%d stderr=%.600s",
               (long long)next, (long long)be, d.how, d.code, d.err);
    if (d.how == 1 && (d.code == SIGVTALRM || d.code == SIGALRM)) {
      /* confirm alone before calling it non-termination */
      spawn(k, k + 1, g_cpu_limit, g_wall_limit, &d2);
      if (d2.how == 0) { shm->slow_cases++; vh_note("case %lld hit the CPU guard inside a batch but finished alone (slow case)", (long long)k); }
      else if (d2.how == 1 && (d2.code == SIGVTALRM || d2.code == SIGALRM)) report_death(k, &d2, "non-termination");
      else report_death(k, &d2, NULL);
    } else report_death(k, &d, NULL);
    next = k + 1;
  }
}

int main(int argc, char **argv) {
  int64_t first = 0, count = 1000, batch = 0;
  const char *mode = "direct";
  vrng_t tr;
  int i, t, cl;
  snprintf(g_dir, sizeof(g_dir), "/dev/shm/verif-fuzzmon");
  for (i = 1; i < argc; i++) {
    if (!strcmp(argv[i], "--seed") && i + 1 < argc) g_seed = strtoull(argv[++i], NULL, 0);
    else if (!strcmp(argv[i], "--mode") && i + 1 < argc) mode = argv[++i];
    else if (!strcmp(argv[i], "--first") && i + 1 < argc) first = strtoll(argv[++i], NULL, 0);
    else if (!strcmp(argv[i], "--count") && i + 1 < argc) count = strtoll(argv[++i], NULL, 0);
    else if (!strcmp(argv[i], "--batch") && i + 1 < argc) batch = strtoll(argv[++i], NULL, 0);
    else if (!strcmp(argv[i], "--cpu-limit") && i + 1 < argc) g_cpu_limit = atol(argv[++i]);
    else if (!strcmp(argv[i], "--dir") && i + 1 < argc) snprintf(g_dir, sizeof(g_dir), "%s", argv[++i]);
    else if (!strcmp(argv[i], "--keep")) g_keep = 1;
    else if (!strcmp(argv[i], "--target") && i + 1 < argc) {
      const char *tn = argv[++i];
      for (t = 0; t < T_N; t++) if (!strcmp(tn, tname[t])) g_only_target = t;
      if (g_only_target < 0 || g_only_target == T_DB) { fprintf(stderr, "unknown direct target %s\n", tn); return 2; }
    } else { fprintf(stderr, "unknown argument %s\n", argv[i]); return 2; }
  }
  if (!strcmp(mode, "db")) g_mode_db = 1;
  else if (strcmp(mode, "direct")) { fprintf(stderr, "unknown mode %s\n", mode); return 2; }
  if (g_mode_db) g_only_target = -1;
  if (batch <= 0) batch = g_mode_db ? 100 : 5000;
  g_wall_limit = g_cpu_limit * 6;
  vh_init(NULL);
  signal(SIGPIPE, SIG_IGN);
  vh_set_context("fuzzmon mode=%s seed=%llu first=%lld count=%lld%s%s", mode, (unsigned long long)g_seed,
                 (long long)first, (long long)count, g_only_target >= 0 ? " target=" : "", g_only_target >= 0 ? tname[g_only_target] : "");
  snprintf(g_work, sizeof(g_work), "%s/fz-%ld", g_dir, (long)getpid());
  vh_rm_rf(g_work);
  if (vh_mkdir_p(g_work) != 0) vh_fatal("cannot create %s: %s", g_work, strerror(errno));
  snprintf(g_errpath, sizeof(g_errpath), "%s/child-stderr.txt", g_work);
  shm = mmap(NULL, sizeof(shared_t), PROT_READ | PROT_WRITE, MAP_SHARED | MAP_ANONYMOUS, -1, 0);
  if (shm == MAP_FAILED) vh_fatal("mmap shared: %s", strerror(errno));
  memset(shm, 0, sizeof(*shm));
  g_devnull = fopen("/dev/null", "w");
  if (g_devnull == NULL) vh_fatal("/dev/null: %s", strerror(errno));
  crc_init();
  if (crc_of((const uint8_t *)"123456789", 9) != rc_crc32c((const uint8_t *)"123456789", 9) || crc_of((const uint8_t *)"123456789", 9) != 0xE3069283u)
    vh_fatal("harness CRC-32C self-check failed");
  ldb_crc32c_init();
  ldb_ikc_init(&g_ikc, ldb_bytewise_comparator);
  g_bloom = ldb_bloom_create(10);
  ldb_ifp_init(&g_ifp, g_bloom);
  g_cache = ldb_lru_create(64 << 10);
  g_logger = ldb_logger_create(null_log, NULL);
  for (i = 0; i < MAXSAVED; i++) rc_buf_init(&g_saved.k[i]);
  /* templates depend on the seed only */
  vr_seed(&tr, g_seed * 7919 + 17);
  if (g_mode_db) build_db_templates(); else build_direct_templates(&tr);

  if (getenv("VERIF_FZ_DEBUG")) {
    char line[256];
    g_debug = 1;
    FILE *f = fopen("/proc/self/status", "r");
    while (f && fgets(line, sizeof(line), f)) if (!strncmp(line, "VmRSS", 5) || !strncmp(line, "VmSize", 6) || !strncmp(line, "VmPTE", 5)) fprintf(stderr, "%s", line);
    if (f) fclose(f);
  }
  run_all(first, count, batch);

  for (t = 0; t < T_N; t++) {
    char nm[64];
    if (shm->cases[t] == 0) continue;
    snprintf(nm, sizeof(nm), "cases.%s", tname[t]); vh_count(nm, shm->cases[t]);
    snprintf(nm, sizeof(nm), "entered.%s", tname[t]); vh_count(nm, shm->entered[t]);
    for (cl = 0; cl < CL_N; cl++) if (shm->tc[t][cl]) { snprintf(nm, sizeof(nm), "tc.%s.%s", tname[t], clname[cl]); vh_count(nm, shm->tc[t][cl]); }
    vh_count("cases", shm->cases[t]);
    vh_count("entered", shm->entered[t]);
  }
  for (cl = 0; cl < CL_N; cl++) {
    uint64_t s = 0;
    char nm[64];
    for (t = 0; t < T_N; t++) s += shm->tc[t][cl];
    snprintf(nm, sizeof(nm), "class.%s", clname[cl]);
    vh_count(nm, s);
  }
  for (i = 0; i < X_N; i++) if (shm->x[i]) vh_count(xname[i], shm->x[i]);
  vh_count("slow_cases", shm->slow_cases);
  vh_count("witnesses", (uint64_t)g_nwitness);
  for (i = 0; i < NDIST; i++) if (shm->dist[i][0]) vh_distinct("c18_case", "%s", shm->dist[i]);
  for (i = 0; i < (int)shm->nsamp; i++) vh_sample("C18", "%s", shm->samp[i]);
  if (!g_keep) vh_rm_rf(g_work);
  vh_finish();
  return 0;
}

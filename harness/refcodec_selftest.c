/* Self-test for refcodec.c:
 *  (a) known answers + internal round trips,
 *  (b) cross-check against the real lcdb library through its public API,
 *  (c) robustness: mutated inputs must never crash the decoders.
 *
 * Build:
 *   gcc -std=gnu99 -O1 -g -Wall -fsanitize=address,undefined -I/repo/include \
 *     refcodec.c refcodec_selftest.c /verif/.build/rel-XXXX/liblcdb.a -lpthread
 */
#include "refcodec.h"

#include <dirent.h>
#include <errno.h>
#include <stdio.h>
#include <stdlib.h>
#include <string.h>
#include <sys/stat.h>
#include <unistd.h>

#include <lcdb.h>

static int g_fail = 0;
static long g_checks = 0;

#define CHECK(cond)                                                        \
  do {                                                                     \
    g_checks++;                                                            \
    if (!(cond)) {                                                         \
      g_fail++;                                                            \
      if (g_fail <= 50)                                                    \
        fprintf(stderr, "FAIL %s:%d: %s\n", __FILE__, __LINE__, #cond);    \
    }                                                                      \
  } while (0)

#define CHECKF(cond, ...)                                                  \
  do {                                                                     \
    g_checks++;                                                            \
    if (!(cond)) {                                                         \
      g_fail++;                                                            \
      if (g_fail <= 50) {                                                  \
        fprintf(stderr, "FAIL %s:%d: %s -- ", __FILE__, __LINE__, #cond);  \
        fprintf(stderr, __VA_ARGS__);                                      \
        fprintf(stderr, "\n");                                             \
      }                                                                    \
    }                                                                      \
  } while (0)

/* ------------------------------------------------------------------ rng */

static uint64_t g_rng = 0x9e3779b97f4a7c15ull;

static uint64_t rnd64(void) {
  uint64_t x = g_rng;
  x ^= x << 13;
  x ^= x >> 7;
  x ^= x << 17;
  g_rng = x;
  return x * 0x2545f4914f6cdd1dull;
}

static uint32_t rnd(uint32_t n) { return n ? (uint32_t)(rnd64() >> 33) % n : 0; }

static void fill_random(uint8_t *p, size_t n) {
  size_t i;
  for (i = 0; i < n; i++) p[i] = (uint8_t)(rnd64() >> 40);
}

/* text-ish data with repeats of varied distance and some runs */
static void fill_compressible(uint8_t *p, size_t n) {
  size_t i = 0;
  while (i < n) {
    uint32_t mode = rnd(10);
    size_t len = 1 + rnd(200);
    size_t j;
    if (len > n - i) len = n - i;
    if (mode < 3 && i > 0) { /* copy from earlier */
      size_t back = 1 + rnd((uint32_t)(i > 70000 ? 70000 : i));
      for (j = 0; j < len; j++) p[i + j] = p[i + j - back];
    } else if (mode < 5) { /* run */
      uint8_t c = (uint8_t)('a' + rnd(26));
      for (j = 0; j < len; j++) p[i + j] = c;
    } else if (mode < 6 && i >= 3) { /* short period */
      size_t per = 2 + rnd(2);
      for (j = 0; j < len; j++) p[i + j] = p[i + j - per];
    } else {
      for (j = 0; j < len; j++) p[i + j] = (uint8_t)(' ' + rnd(64));
    }
    i += len;
  }
}

/* ------------------------------------------------------------------ (a) known answers */

static void test_crc(void) {
  uint8_t buf[32];
  int i;
  CHECK(rc_crc32c_extend(0, (const uint8_t *)"123456789", 9) == 0xE3069283u);
  CHECK(rc_crc32c((const uint8_t *)"123456789", 9) == 0xE3069283u);
  memset(buf, 0, 32);
  CHECK(rc_crc32c(buf, 32) == 0x8a9136aau);
  memset(buf, 0xff, 32);
  CHECK(rc_crc32c(buf, 32) == 0x62a8ab43u);
  for (i = 0; i < 32; i++) buf[i] = (uint8_t)i;
  CHECK(rc_crc32c(buf, 32) == 0x46dd794eu);
  for (i = 0; i < 32; i++) buf[i] = (uint8_t)(31 - i);
  CHECK(rc_crc32c(buf, 32) == 0x113fdb5cu);
  CHECK(rc_crc32c((const uint8_t *)"", 0) == 0);
  /* chaining */
  CHECK(rc_crc32c((const uint8_t *)"hello world", 11) ==
        rc_crc32c_extend(rc_crc32c((const uint8_t *)"hello ", 6),
                         (const uint8_t *)"world", 5));
  for (i = 0; i < 200; i++) {
    uint8_t d[64];
    size_t n = rnd(65), cut = rnd((uint32_t)n + 1);
    fill_random(d, sizeof(d));
    CHECK(rc_crc32c(d, n) == rc_crc32c_extend(rc_crc32c(d, cut), d + cut, n - cut));
  }
  /* mask */
  {
    uint32_t crc = rc_crc32c((const uint8_t *)"foo", 3);
    CHECK(rc_crc_mask(crc) != crc);
    CHECK(rc_crc_mask(rc_crc_mask(crc)) != crc);
    CHECK(rc_crc_unmask(rc_crc_mask(crc)) == crc);
    CHECK(rc_crc_unmask(rc_crc_unmask(rc_crc_mask(rc_crc_mask(crc)))) == crc);
    CHECK(rc_crc_mask(0) == 0xa282ead8u);
    CHECK(rc_crc_mask(0x80000000u) == (uint32_t)(0x00010000u + 0xa282ead8u));
    for (i = 0; i < 1000; i++) {
      uint32_t v = (uint32_t)rnd64();
      CHECK(rc_crc_unmask(rc_crc_mask(v)) == v);
      CHECK(rc_crc_mask(rc_crc_unmask(v)) == v);
    }
  }
}

static void test_varint(void) {
  static const uint32_t v32[] = {0, 1, 127, 128, 255, 256, 16383, 16384, 2097151,
                                 2097152, 268435455, 268435456, 0x7fffffffu,
                                 0x80000000u, 0xffffffffu};
  static const int l32[] = {1, 1, 1, 2, 2, 2, 2, 3, 3, 4, 4, 5, 5, 5, 5};
  uint8_t b[16];
  size_t i;
  int k;
  for (i = 0; i < sizeof(v32) / sizeof(v32[0]); i++) {
    uint32_t out = 12345;
    int n = rc_put_varint32(b, v32[i]);
    CHECK(n == l32[i]);
    CHECK(rc_get_varint32(b, b + n, &out) == n && out == v32[i]);
    /* truncated */
    for (k = 0; k < n; k++) CHECK(rc_get_varint32(b, b + k, &out) == -1);
    /* extra bytes after are not consumed */
    b[n] = 0x55;
    CHECK(rc_get_varint32(b, b + n + 1, &out) == n && out == v32[i]);
  }
  for (k = 0; k < 64; k++) {
    uint64_t vals[3];
    int j;
    vals[0] = (uint64_t)1 << k;
    vals[1] = vals[0] - 1;
    vals[2] = vals[0] + 1;
    for (j = 0; j < 3; j++) {
      uint64_t out = 0, v = vals[j];
      int n = rc_put_varint64(b, v), want = 1, t;
      uint64_t tmp = v;
      while (tmp >= 128) {
        tmp >>= 7;
        want++;
      }
      CHECK(n == want);
      CHECK(rc_get_varint64(b, b + n, &out) == n && out == v);
      for (t = 0; t < n; t++) CHECK(rc_get_varint64(b, b + t, &out) == -1);
    }
  }
  {
    uint64_t out = 0;
    uint32_t o32 = 0;
    int n = rc_put_varint64(b, ~(uint64_t)0);
    CHECK(n == 10 && b[9] == 0x01);
    CHECK(rc_get_varint64(b, b + 10, &out) == 10 && out == ~(uint64_t)0);
    /* over-long: 6 continuation bytes for varint32, 11 for varint64 */
    memset(b, 0x80, sizeof(b));
    CHECK(rc_get_varint32(b, b + 16, &o32) == -1);
    CHECK(rc_get_varint64(b, b + 16, &out) == -1);
    b[5] = 0;
    CHECK(rc_get_varint32(b, b + 16, &o32) == -1);
    b[4] = 0;
    CHECK(rc_get_varint32(b, b + 16, &o32) == 5 && o32 == 0);
    memset(b, 0x80, sizeof(b));
    b[10] = 0;
    CHECK(rc_get_varint64(b, b + 16, &out) == -1);
    b[9] = 0;
    CHECK(rc_get_varint64(b, b + 16, &out) == 10 && out == 0);
    /* empty */
    CHECK(rc_get_varint32(b, b, &o32) == -1);
    CHECK(rc_get_varint64(b, b, &out) == -1);
  }
  {
    uint8_t f[8];
    rc_put_fixed32(f, 0x04030201u);
    CHECK(f[0] == 1 && f[1] == 2 && f[2] == 3 && f[3] == 4);
    CHECK(rc_get_fixed32(f) == 0x04030201u);
    rc_put_fixed64(f, 0x0807060504030201ull);
    CHECK(f[0] == 1 && f[7] == 8);
    CHECK(rc_get_fixed64(f) == 0x0807060504030201ull);
  }
}

static void test_hash_bloom(void) {
  static const uint8_t d1[1] = {0x62};
  static const uint8_t d2[2] = {0xc3, 0x97};
  static const uint8_t d3[3] = {0xe2, 0x99, 0xa5};
  static const uint8_t d4[4] = {0xe1, 0x80, 0xb9, 0x32};
  CHECK(rc_hash(NULL, 0, 0xbc9f1d34u) == 0xbc9f1d34u);
  CHECK(rc_hash(d1, 1, 0xbc9f1d34u) == 0xef1345c4u);
  CHECK(rc_hash(d2, 2, 0xbc9f1d34u) == 0x5b663814u);
  CHECK(rc_hash(d3, 3, 0xbc9f1d34u) == 0x323c078fu);
  CHECK(rc_hash(d4, 4, 0xbc9f1d34u) == 0xed21633au);
  CHECK(rc_bloom_hash(d4, 4) == 0xed21633au);

  /* Build a filter the way the built-in policy does (10 bits/key -> k=6). */
  {
    enum { N = 1000 };
    size_t bits = N * 10, bytes = (bits + 7) / 8, i;
    uint8_t *f = (uint8_t *)calloc(bytes + 1, 1);
    int fp = 0;
    bits = bytes * 8;
    f[bytes] = 6;
    for (i = 0; i < N; i++) {
      uint8_t key[4];
      uint32_t h, delta;
      int j;
      rc_put_fixed32(key, (uint32_t)i);
      h = rc_bloom_hash(key, 4);
      delta = (h >> 17) | (h << 15);
      for (j = 0; j < 6; j++) {
        size_t bp = h % bits;
        f[bp / 8] |= (uint8_t)(1u << (bp % 8));
        h += delta;
      }
    }
    for (i = 0; i < N; i++) {
      uint8_t key[4];
      rc_put_fixed32(key, (uint32_t)i);
      CHECK(rc_bloom_may_match(f, bytes + 1, key, 4) == 1);
    }
    for (i = 0; i < 10000; i++) {
      uint8_t key[4];
      rc_put_fixed32(key, (uint32_t)(i + 1000000000u));
      fp += rc_bloom_may_match(f, bytes + 1, key, 4);
    }
    CHECKF(fp < 300, "false positives %d/10000", fp);
    CHECK(rc_bloom_may_match(f, 0, d1, 1) == 0);
    CHECK(rc_bloom_may_match(f, 1, d1, 1) == 0);
    f[bytes] = 31;
    CHECK(rc_bloom_may_match(f, bytes + 1, (const uint8_t *)"zzzzzzzz", 8) == 1);
    free(f);
  }
}

/* ---- snappy ---- */

typedef struct snstats_s {
  long lit_form[5];
  long copy1, copy2, copy4, overlap;
} snstats_t;

/* Independent walk over a (valid) snappy stream to count element kinds. */
static void snappy_stats(const uint8_t *p, size_t n, snstats_t *s) {
  size_t i = 0;
  memset(s, 0, sizeof(*s));
  while (i < n && (p[i] & 0x80)) i++;
  i++;
  while (i < n) {
    uint8_t tag = p[i++];
    if ((tag & 3) == 0) {
      size_t len = tag >> 2;
      if (len < 60) {
        s->lit_form[0]++;
      } else {
        size_t nb = len - 59, j;
        s->lit_form[nb]++;
        len = 0;
        for (j = 0; j < nb; j++) len |= (size_t)p[i + j] << (8 * j);
        i += nb;
      }
      i += len + 1;
    } else if ((tag & 3) == 1) {
      size_t len = 4 + ((tag >> 2) & 7), off = ((size_t)(tag >> 5) << 8) | p[i];
      s->copy1++;
      if (off < len) s->overlap++;
      i += 1;
    } else if ((tag & 3) == 2) {
      size_t len = (tag >> 2) + 1, off = p[i] | ((size_t)p[i + 1] << 8);
      s->copy2++;
      if (off < len) s->overlap++;
      i += 2;
    } else {
      s->copy4++;
      i += 4;
    }
  }
}

static void snappy_roundtrip(const uint8_t *in, size_t n, snstats_t *acc) {
  int style;
  rc_buf_t enc, dec;
  rc_buf_init(&enc);
  rc_buf_init(&dec);
  for (style = 0; style < 4; style++) {
    uint32_t ulen = 0xdeadbeef;
    snstats_t st;
    int j;
    rc_snappy_encode(in, n, style, &enc);
    CHECK(rc_snappy_uncompressed_length(enc.data, enc.len, &ulen) == 0 && ulen == n);
    CHECKF(rc_snappy_decode(enc.data, enc.len, &dec) == 0, "style %d n %lu", style,
           (unsigned long)n);
    CHECKF(dec.len == n && (n == 0 || memcmp(dec.data, in, n) == 0),
           "style %d n %lu", style, (unsigned long)n);
    snappy_stats(enc.data, enc.len, &st);
    if (style == 0) CHECK(st.copy1 + st.copy2 + st.copy4 == 0);
    if (style == 1) CHECK(st.copy4 == 0);
    if (style == 2) CHECK(st.copy1 + st.copy2 == 0);
    for (j = 0; j < 5; j++) acc[style].lit_form[j] += st.lit_form[j];
    acc[style].copy1 += st.copy1;
    acc[style].copy2 += st.copy2;
    acc[style].copy4 += st.copy4;
    acc[style].overlap += st.overlap;
  }
  rc_buf_free(&enc);
  rc_buf_free(&dec);
}

static void test_snappy(void) {
  static const size_t sizes[] = {0, 1, 2, 3, 4, 5, 7, 8, 59, 60, 61, 62, 63, 64, 65,
                                 255, 256, 257, 258, 1000, 4096, 65535, 65536, 65537,
                                 100000, 1 << 20, 3 * (1 << 20) + 17};
  snstats_t acc[4];
  size_t maxn = 3 * (1 << 20) + 17, i;
  uint8_t *buf = (uint8_t *)malloc(maxn);
  rc_buf_t out;
  rc_buf_init(&out);
  memset(acc, 0, sizeof(acc));

  /* hand-made vectors */
  {
    static const uint8_t v1[] = {0x05, 0x10, 'h', 'e', 'l', 'l', 'o'};
    static const uint8_t v2[] = {0x0a, 0x00, 'a', 0x15, 0x01}; /* 'a' + copy1 len 9 off 1 */
    static const uint8_t v3[] = {0x08, 0x04, 'a', 'b', 0x16, 0x02, 0x00}; /* "ab"+copy2 len 6 off 2 */
    static const uint8_t v4[] = {0x08, 0x04, 'a', 'b', 0x17, 0x02, 0x00, 0x00, 0x00}; /* copy4 */
    static const uint8_t v5[] = {0x03, 0xf0, 0x02, 'x', 'y', 'z'}; /* 1-byte literal length */
    static const uint8_t v6[] = {0x03, 0xfc, 0x02, 0x00, 0x00, 0x00, 'x', 'y', 'z'}; /* 4-byte */
    static const uint8_t v7[] = {0x00};
    static const uint8_t bad1[] = {0x05, 0x10, 'h', 'e', 'l', 'l'};          /* literal truncated */
    static const uint8_t bad2[] = {0x0a, 0x00, 'a', 0x15, 0x00};            /* offset 0 */
    static const uint8_t bad3[] = {0x0a, 0x00, 'a', 0x15, 0x02};            /* offset > produced */
    static const uint8_t bad4[] = {0x0b, 0x00, 'a', 0x15, 0x01};            /* too short */
    static const uint8_t bad5[] = {0x09, 0x00, 'a', 0x15, 0x01};            /* too long */
    static const uint8_t bad6[] = {0x80, 0x80, 0x80, 0x80, 0x80, 0x00};     /* varint too long */
    static const uint8_t bad7[] = {0x0a, 0x00, 'a', 0x15};                  /* copy truncated */
    static const uint8_t bad8[] = {0xff, 0xff, 0xff, 0xff, 0x7f, 0x00, 'a'};/* length overflow */
    static const uint8_t bad9[] = {0x03, 0xfc, 0xff, 0xff, 0xff, 0xff, 'x'};/* huge literal */
    CHECK(rc_snappy_decode(v1, sizeof(v1), &out) == 0 && out.len == 5 &&
          memcmp(out.data, "hello", 5) == 0);
    CHECK(rc_snappy_decode(v2, sizeof(v2), &out) == 0 && out.len == 10 &&
          memcmp(out.data, "aaaaaaaaaa", 10) == 0);
    CHECK(rc_snappy_decode(v3, sizeof(v3), &out) == 0 && out.len == 8 &&
          memcmp(out.data, "abababab", 8) == 0);
    CHECK(rc_snappy_decode(v4, sizeof(v4), &out) == 0 && out.len == 8 &&
          memcmp(out.data, "abababab", 8) == 0);
    CHECK(rc_snappy_decode(v5, sizeof(v5), &out) == 0 && out.len == 3 &&
          memcmp(out.data, "xyz", 3) == 0);
    CHECK(rc_snappy_decode(v6, sizeof(v6), &out) == 0 && out.len == 3 &&
          memcmp(out.data, "xyz", 3) == 0);
    CHECK(rc_snappy_decode(v7, sizeof(v7), &out) == 0 && out.len == 0);
    CHECK(rc_snappy_decode(bad1, sizeof(bad1), &out) == -1);
    CHECK(rc_snappy_decode(bad2, sizeof(bad2), &out) == -1);
    CHECK(rc_snappy_decode(bad3, sizeof(bad3), &out) == -1);
    CHECK(rc_snappy_decode(bad4, sizeof(bad4), &out) == -1);
    CHECK(rc_snappy_decode(bad5, sizeof(bad5), &out) == -1);
    CHECK(rc_snappy_decode(bad6, sizeof(bad6), &out) == -1);
    CHECK(rc_snappy_decode(bad7, sizeof(bad7), &out) == -1);
    CHECK(rc_snappy_decode(bad8, sizeof(bad8), &out) == -1);
    CHECK(rc_snappy_decode(bad9, sizeof(bad9), &out) == -1);
    CHECK(rc_snappy_decode(NULL, 0, &out) == -1);
  }

  for (i = 0; i < sizeof(sizes) / sizeof(sizes[0]); i++) {
    size_t n = sizes[i];
    fill_random(buf, n);
    snappy_roundtrip(buf, n, acc);
    fill_compressible(buf, n);
    snappy_roundtrip(buf, n, acc);
    memset(buf, 'z', n);
    snappy_roundtrip(buf, n, acc);
    if (n >= 4) { /* runs separated by noise */
      size_t j;
      for (j = 0; j < n; j++) buf[j] = (j / 37) % 3 == 0 ? (uint8_t)rnd(256) : (uint8_t)(j / 500);
      snappy_roundtrip(buf, n, acc);
    }
  }
  for (i = 0; i < 300; i++) {
    size_t n = rnd(3000);
    if (i & 1)
      fill_compressible(buf, n);
    else
      fill_random(buf, n);
    snappy_roundtrip(buf, n, acc);
  }
  /* every element kind must have been exercised by the intended style */
  CHECK(acc[1].copy1 > 0 && acc[1].copy2 > 0);
  CHECK(acc[2].copy4 > 0);
  CHECK(acc[3].overlap > 0);
  for (i = 0; i < 5; i++) CHECKF(acc[3].lit_form[i] > 0, "literal form %lu unused", (unsigned long)i);
  printf("  snappy element counts: style1 copy1=%ld copy2=%ld | style2 copy4=%ld | "
         "style3 literal forms %ld/%ld/%ld/%ld/%ld overlapping copies %ld\n",
         acc[1].copy1, acc[1].copy2, acc[2].copy4, acc[3].lit_form[0], acc[3].lit_form[1],
         acc[3].lit_form[2], acc[3].lit_form[3], acc[3].lit_form[4], acc[3].overlap);
  rc_buf_free(&out);
  free(buf);
}

/* ---- log ---- */

/* Valid log bytes of exactly L bytes (L % 32768 must be 0 or >= 7). */
static void log_prefix(rc_logw_t *w, size_t L, uint8_t *scratch) {
  while (L >= RC_LOG_BLOCK) {
    rc_logw_add(w, scratch, RC_LOG_BLOCK - RC_LOG_HEADER);
    L -= RC_LOG_BLOCK;
  }
  if (L > 0) rc_logw_add(w, scratch, L - RC_LOG_HEADER);
}

static void test_log(void) {
  static const size_t recsz[] = {0, 1, 100, 32761, 32760, 32762, 32768 * 3 + 5, 0, 0,
                                 7, 32754, 10, 65536, 1};
  static const size_t offs[] = {0, 7, 8, 1000, 32761, 32762, 32767, 32768,
                                32768 + 7, 32768 * 2 + 32765};
  enum { NREC = sizeof(recsz) / sizeof(recsz[0]) };
  size_t maxrec = 32768 * 3 + 5, oi, i;
  uint8_t *payload = (uint8_t *)malloc(maxrec * 2);
  uint8_t *zeros = (uint8_t *)calloc(RC_LOG_BLOCK, 1);
  fill_random(payload, maxrec * 2);

  /* layout known answers */
  {
    rc_buf_t out;
    rc_logw_t w;
    rc_buf_init(&out);
    rc_logw_init(&w, &out, 0);
    rc_logw_add(&w, NULL, 0);
    CHECK(out.len == 7 && out.data[4] == 0 && out.data[5] == 0 && out.data[6] == RC_LOG_FULL);
    {
      uint8_t t = 1;
      CHECK(rc_get_fixed32(out.data) == rc_crc_mask(rc_crc32c(&t, 1)));
    }
    rc_logw_add(&w, (const uint8_t *)"abc", 3);
    CHECK(out.len == 17 && out.data[7 + 4] == 3 && out.data[7 + 6] == RC_LOG_FULL &&
          memcmp(out.data + 14, "abc", 3) == 0);
    CHECK(rc_get_fixed32(out.data + 7) ==
          rc_crc_mask(rc_crc32c((const uint8_t *)"\x01" "abc", 4)));
    /* fill so exactly 6 bytes remain in the block, then add: 6 zero bytes */
    rc_logw_add(&w, payload, RC_LOG_BLOCK - 17 - 7 - 6);
    CHECK(out.len == RC_LOG_BLOCK - 6);
    rc_logw_add(&w, (const uint8_t *)"x", 1);
    CHECK(out.len == RC_LOG_BLOCK + 8);
    CHECK(memcmp(out.data + RC_LOG_BLOCK - 6, zeros, 6) == 0);
    CHECK(out.data[RC_LOG_BLOCK + 6] == RC_LOG_FULL);
    /* exactly 7 bytes remain: an empty FIRST fragment is emitted */
    rc_buf_reset(&out);
    rc_logw_init(&w, &out, 0);
    rc_logw_add(&w, payload, RC_LOG_BLOCK - 7 - 7);
    rc_logw_add(&w, (const uint8_t *)"yz", 2);
    CHECK(out.len == RC_LOG_BLOCK + 9);
    CHECK(out.data[RC_LOG_BLOCK - 1] == RC_LOG_FIRST && out.data[RC_LOG_BLOCK - 3] == 0);
    CHECK(out.data[RC_LOG_BLOCK + 6] == RC_LOG_LAST && out.data[RC_LOG_BLOCK + 4] == 2);
    {
      rc_logresult_t r;
      rc_log_read(out.data, out.len, &r);
      CHECK(r.nrecs == 2 && r.ndrops == 0 && r.recs[1].len == 2 && r.recs[1].nfrag == 2 &&
            r.consumed == out.len);
      rc_logresult_free(&r);
    }
    rc_buf_free(&out);
  }

  /* round trips at assorted initial offsets */
  for (oi = 0; oi < sizeof(offs) / sizeof(offs[0]); oi++) {
    size_t L = offs[oi];
    rc_buf_t full, tail;
    rc_logw_t w1, w2;
    rc_logresult_t r;
    size_t nprefix, srcoff = 0;
    rc_buf_init(&full);
    rc_buf_init(&tail);
    rc_logw_init(&w1, &full, 0);
    log_prefix(&w1, L, zeros);
    CHECK(full.len == L);
    rc_logw_init(&w2, &tail, L);
    for (i = 0; i < NREC; i++) {
      rc_logw_add(&w1, payload + srcoff, recsz[i]);
      rc_logw_add(&w2, payload + srcoff, recsz[i]);
      srcoff = (srcoff + 977) % maxrec;
    }
    /* a writer resumed at offset L emits the same bytes */
    CHECK(full.len == L + tail.len);
    CHECK(memcmp(full.data + L, tail.data, tail.len) == 0);

    rc_log_read(full.data, full.len, &r);
    nprefix = r.nrecs - NREC;
    CHECKF(r.ndrops == 0, "L=%lu drops=%lu", (unsigned long)L, (unsigned long)r.ndrops);
    CHECK(r.nrecs >= NREC);
    CHECK(r.consumed == full.len);
    srcoff = 0;
    for (i = 0; i < NREC && r.nrecs >= NREC; i++) {
      rc_logrec_t *rec = &r.recs[nprefix + i];
      CHECKF(rec->len == recsz[i] && memcmp(rec->data, payload + srcoff, recsz[i]) == 0,
             "L=%lu rec %lu", (unsigned long)L, (unsigned long)i);
      if (i == 0) CHECK(rec->start_off == L || rec->start_off == L + (RC_LOG_BLOCK - L % RC_LOG_BLOCK));
      if (i > 0) CHECK(rec->start_off >= r.recs[nprefix + i - 1].end_off);
      if (i == NREC - 1) CHECK(rec->end_off == full.len);
      srcoff = (srcoff + 977) % maxrec;
    }
    rc_logresult_free(&r);
    rc_buf_free(&full);
    rc_buf_free(&tail);
  }

  /* truncation at every byte: only records wholly before the cut, no drops */
  {
    static const size_t small[] = {0, 5, 1, 60, 0, 200, 33, 700, 2, 90};
    size_t L = RC_LOG_BLOCK - 300, cut;
    rc_buf_t full;
    rc_logw_t w;
    rc_logresult_t ref;
    rc_buf_init(&full);
    rc_logw_init(&w, &full, 0);
    log_prefix(&w, L, zeros);
    for (i = 0; i < sizeof(small) / sizeof(small[0]); i++)
      rc_logw_add(&w, payload + i * 13, small[i]);
    rc_log_read(full.data, full.len, &ref);
    CHECK(ref.ndrops == 0 && ref.nrecs == 1 + sizeof(small) / sizeof(small[0]));
    CHECK(full.len > RC_LOG_BLOCK + 100);
    for (cut = 0; cut <= full.len; cut++) {
      rc_logresult_t r;
      size_t want = 0, boundary = 0;
      if (cut > 40 && cut < L - 40 && (cut % 1009) != 0) continue; /* thin out the prefix record */
      rc_log_read(full.data, cut, &r);
      for (i = 0; i < ref.nrecs; i++)
        if (ref.recs[i].end_off <= cut) {
          want++;
          boundary = (size_t)ref.recs[i].end_off;
        }
      CHECKF(r.ndrops == 0, "cut %lu drops %lu", (unsigned long)cut, (unsigned long)r.ndrops);
      CHECKF(r.nrecs == want, "cut %lu got %lu want %lu", (unsigned long)cut,
             (unsigned long)r.nrecs, (unsigned long)want);
      for (i = 0; i < r.nrecs && i < want; i++)
        CHECK(r.recs[i].len == ref.recs[i].len &&
              memcmp(r.recs[i].data, ref.recs[i].data, r.recs[i].len) == 0);
      /* consumed is past the last whole logical record and never past the cut */
      CHECK(r.consumed >= boundary && r.consumed <= cut);
      rc_logresult_free(&r);
    }
    rc_logresult_free(&ref);
    rc_buf_free(&full);
  }

  /* reporting semantics on deliberately damaged logs */
  {
    rc_buf_t f;
    rc_logw_t w;
    rc_logresult_t r;
    rc_buf_init(&f);

    /* checksum damage in block 0 drops the rest of that block only */
    rc_logw_init(&w, &f, 0);
    rc_logw_add(&w, (const uint8_t *)"first", 5);
    rc_logw_add(&w, (const uint8_t *)"second", 6);
    rc_logw_add(&w, payload, 40000); /* FIRST in block 0, LAST in block 1 */
    rc_logw_add(&w, (const uint8_t *)"fourth", 6);
    f.data[12 + 7 + 2] ^= 0x01; /* payload of "second" */
    rc_log_read(f.data, f.len, &r);
    CHECK(r.nrecs == 2 && r.recs[0].len == 5 && r.recs[1].len == 6 &&
          memcmp(r.recs[1].data, "fourth", 6) == 0);
    CHECK(r.ndrops == 2);
    if (r.ndrops == 2) {
      CHECK(r.drops[0].reason == RC_DROP_CHECKSUM && r.drops[0].bytes == RC_LOG_BLOCK - 12 &&
            r.drops[0].off == 12);
      CHECK(r.drops[1].reason == RC_DROP_MISSING_START &&
            r.drops[1].bytes == 40000 - (RC_LOG_BLOCK - 25 - 7));
    }
    rc_logresult_free(&r);

    /* damage the middle of a 3-fragment record: error in middle + missing start */
    rc_buf_reset(&f);
    rc_logw_init(&w, &f, 0);
    rc_logw_add(&w, payload, 80000);
    rc_logw_add(&w, (const uint8_t *)"ok", 2);
    f.data[RC_LOG_BLOCK + 100] ^= 0x40;
    rc_log_read(f.data, f.len, &r);
    CHECK(r.nrecs == 1 && r.recs[0].len == 2);
    CHECK(r.ndrops == 3);
    if (r.ndrops == 3) {
      CHECK(r.drops[0].reason == RC_DROP_CHECKSUM && r.drops[0].bytes == RC_LOG_BLOCK);
      CHECK(r.drops[1].reason == RC_DROP_ERROR_IN_MIDDLE && r.drops[1].bytes == RC_LOG_BLOCK - 7);
      CHECK(r.drops[2].reason == RC_DROP_MISSING_START &&
            r.drops[2].bytes == 80000 - 2 * (RC_LOG_BLOCK - 7));
    }
    rc_logresult_free(&r);

    /* FIRST without LAST followed by FULL: partial record without end */
    rc_buf_reset(&f);
    rc_logw_init(&w, &f, 0);
    rc_logw_add(&w, payload, 40000);
    f.len = RC_LOG_BLOCK; /* keep only the FIRST fragment */
    rc_logw_init(&w, &f, f.len);
    rc_logw_add(&w, (const uint8_t *)"full", 4);
    rc_log_read(f.data, f.len, &r);
    CHECK(r.nrecs == 1 && r.recs[0].len == 4);
    CHECK(r.ndrops == 1 && r.drops[0].reason == RC_DROP_PARTIAL_NO_END &&
          r.drops[0].bytes == RC_LOG_BLOCK - 7);
    rc_logresult_free(&r);

    /* bad length that is not at EOF is reported; at EOF it is silent */
    rc_buf_reset(&f);
    rc_logw_init(&w, &f, 0);
    rc_logw_add(&w, (const uint8_t *)"aaaa", 4);
    rc_logw_add(&w, payload, RC_LOG_BLOCK); /* spills into block 1 */
    rc_logw_add(&w, (const uint8_t *)"bbbb", 4);
    f.data[11 + 4] = 0xff;
    f.data[11 + 5] = 0xff; /* FIRST fragment now claims 65535 bytes */
    rc_log_read(f.data, f.len, &r);
    CHECK(r.nrecs == 2 && r.ndrops == 2);
    if (r.ndrops == 2) {
      CHECK(r.drops[0].reason == RC_DROP_BADLEN && r.drops[0].bytes == RC_LOG_BLOCK - 11);
      CHECK(r.drops[1].reason == RC_DROP_MISSING_START);
    }
    rc_logresult_free(&r);
    rc_log_read(f.data, 5000, &r); /* same damage but now the block is the last one */
    CHECK(r.nrecs == 1 && r.ndrops == 0 && r.consumed == 11);
    rc_logresult_free(&r);

    /* unknown record type with a valid checksum */
    rc_buf_reset(&f);
    rc_logw_init(&w, &f, 0);
    rc_logw_add(&w, (const uint8_t *)"qq", 2);
    rc_logw_add(&w, (const uint8_t *)"rr", 2);
    {
      uint8_t tb[3] = {9, 'q', 'q'};
      f.data[6] = 9;
      rc_put_fixed32(f.data, rc_crc_mask(rc_crc32c(tb, 3)));
    }
    rc_log_read(f.data, f.len, &r);
    CHECK(r.nrecs == 1 && r.ndrops == 1 && r.drops[0].reason == RC_DROP_UNKNOWN_TYPE &&
          r.drops[0].bytes == 2);
    rc_logresult_free(&r);

    /* zero-filled tail (preallocation) is skipped silently */
    rc_buf_reset(&f);
    rc_logw_init(&w, &f, 0);
    rc_logw_add(&w, (const uint8_t *)"pp", 2);
    rc_buf_append(&f, zeros, 5000);
    rc_log_read(f.data, f.len, &r);
    CHECK(r.nrecs == 1 && r.ndrops == 0 && r.consumed == 9);
    rc_logresult_free(&r);

    /* empty and tiny files */
    rc_log_read(NULL, 0, &r);
    CHECK(r.nrecs == 0 && r.ndrops == 0 && r.consumed == 0);
    rc_logresult_free(&r);
    rc_log_read(zeros, 3, &r);
    CHECK(r.nrecs == 0 && r.ndrops == 0);
    rc_logresult_free(&r);

    rc_buf_free(&f);
  }
  free(payload);
  free(zeros);
}

static void batch_count_cb(void *arg, int type, const uint8_t *key, size_t klen,
                           const uint8_t *val, size_t vlen, uint64_t seq) {
  uint64_t *acc = (uint64_t *)arg;
  (void)key;
  (void)val;
  acc[0] += 1;
  acc[1] += klen + vlen;
  acc[2] = seq;
  acc[3] += (uint64_t)type;
}

static void test_batch_edit(void) {
  /* seq=100, count=2: put "k1"->"v11", del "k2" */
  static const uint8_t b1[] = {100, 0, 0, 0, 0, 0, 0, 0, 2, 0, 0, 0,
                               1, 2, 'k', '1', 3, 'v', '1', '1', 0, 2, 'k', '2'};
  uint64_t acc[4] = {0, 0, 0, 0}, seq = 0;
  uint32_t cnt = 0;
  uint8_t tmp[sizeof(b1)];
  CHECK(rc_batch_iterate(b1, sizeof(b1), &seq, &cnt, batch_count_cb, acc) == 0);
  CHECK(seq == 100 && cnt == 2 && acc[0] == 2 && acc[1] == 7 && acc[2] == 101 && acc[3] == 1);
  CHECK(rc_batch_iterate(b1, 12, &seq, &cnt, NULL, NULL) == -1); /* count mismatch */
  CHECK(rc_batch_iterate(b1, 11, &seq, &cnt, NULL, NULL) == -1);
  CHECK(rc_batch_iterate(b1, sizeof(b1) - 1, &seq, &cnt, NULL, NULL) == -1);
  memcpy(tmp, b1, sizeof(b1));
  tmp[12] = 2;
  CHECK(rc_batch_iterate(tmp, sizeof(tmp), &seq, &cnt, NULL, NULL) == -1);
  memcpy(tmp, b1, sizeof(b1));
  tmp[8] = 3;
  CHECK(rc_batch_iterate(tmp, sizeof(tmp), &seq, &cnt, NULL, NULL) == -1);
  memset(tmp, 0, 12);
  CHECK(rc_batch_iterate(tmp, 12, &seq, &cnt, NULL, NULL) == 0 && cnt == 0);

  {
    /* comparator "cmp", log 5, prev 0, next 9, last-seq 300, compact ptr L1 "kk",
     * delete L2 #7, new file L3 #8 size 1000 "aa".."zz" */
    static const uint8_t e1[] = {1, 3, 'c', 'm', 'p', 2, 5, 9, 0, 3, 9, 4, 0xac, 0x02,
                                 5, 1, 2, 'k', 'k', 6, 2, 7,
                                 7, 3, 8, 0xe8, 0x07, 2, 'a', 'a', 2, 'z', 'z'};
    rc_edit_t e;
    size_t cut;
    CHECK(rc_edit_decode(e1, sizeof(e1), &e) == 0);
    CHECK(e.has_comparator && strcmp(e.comparator, "cmp") == 0);
    CHECK(e.has_log_number && e.log_number == 5);
    CHECK(e.has_prev_log_number && e.prev_log_number == 0);
    CHECK(e.has_next_file && e.next_file == 9);
    CHECK(e.has_last_sequence && e.last_sequence == 300);
    CHECK(e.ncompact == 1 && e.compact_pointers[0].level == 1 &&
          e.compact_pointers[0].klen == 2);
    CHECK(e.ndeleted == 1 && e.deleted[0].level == 2 && e.deleted[0].number == 7);
    CHECK(e.nadded == 1 && e.added[0].level == 3 && e.added[0].number == 8 &&
          e.added[0].size == 1000 && e.added[0].slen == 2 && e.added[0].llen == 2 &&
          memcmp(e.added[0].largest, "zz", 2) == 0);
    rc_edit_free(&e);
    CHECK(rc_edit_decode(e1, 0, &e) == 0);
    rc_edit_free(&e);
    /* every strict prefix that ends inside a field is rejected */
    for (cut = 1; cut < sizeof(e1); cut++) {
      int rv = rc_edit_decode(e1, cut, &e);
      int boundary = (cut == 5 || cut == 7 || cut == 9 || cut == 11 || cut == 14 ||
                      cut == 19 || cut == 22);
      CHECKF(rv == (boundary ? 0 : -1), "cut %lu rv %d", (unsigned long)cut, rv);
      rc_edit_free(&e);
    }
    {
      static const uint8_t bad_level[] = {6, 7, 1};
      static const uint8_t bad_tag[] = {8, 1, 1};
      static const uint8_t bad_tag2[] = {10};
      CHECK(rc_edit_decode(bad_level, 3, &e) == -1);
      CHECK(rc_edit_decode(bad_tag, 3, &e) == -1);
      CHECK(rc_edit_decode(bad_tag2, 1, &e) == -1);
    }
  }

  /* manifest replay: add then delete, add+delete in the same edit */
  {
    static const uint8_t ed1[] = {1, 1, 'c', 2, 3, 3, 10, 4, 50,
                                  7, 0, 5, 100, 1, 'a', 1, 'b',
                                  7, 0, 4, 90, 1, 'c', 1, 'd'};
    static const uint8_t ed2[] = {2, 6, 3, 12, 4, 60, 6, 0, 5, 6, 0, 9,
                                  7, 1, 9, 120, 1, 'a', 1, 'd',
                                  7, 2, 3, 77, 1, 'e', 1, 'f'};
    static const uint8_t ed3[] = {6, 2, 3};
    rc_buf_t f;
    rc_logw_t w;
    rc_manifest_t m;
    rc_buf_init(&f);
    rc_logw_init(&w, &f, 0);
    rc_logw_add(&w, ed1, sizeof(ed1));
    rc_logw_add(&w, ed2, sizeof(ed2));
    CHECK(rc_manifest_replay(f.data, f.len, &m) == 0);
    CHECK(m.nedits == 2 && m.ndrops == 0 && m.consumed == f.len);
    CHECK(strcmp(m.comparator, "c") == 0 && m.log_number == 6 && m.next_file == 12 &&
          m.last_sequence == 60 && m.has_log_number && m.has_next_file && m.has_last_sequence);
    CHECK(m.nfiles == 3);
    if (m.nfiles == 3) {
      CHECK(m.files[0].level == 0 && m.files[0].number == 4 && m.files[0].size == 90);
      CHECK(m.files[1].level == 1 && m.files[1].number == 9 && m.files[1].size == 120);
      CHECK(m.files[2].level == 2 && m.files[2].number == 3 && m.files[2].size == 77);
    }
    rc_manifest_free(&m);
    rc_logw_add(&w, ed3, sizeof(ed3));
    CHECK(rc_manifest_replay(f.data, f.len, &m) == 0 && m.nfiles == 2 && m.nedits == 3);
    rc_manifest_free(&m);
    rc_logw_add(&w, (const uint8_t *)"\x08", 1);
    CHECK(rc_manifest_replay(f.data, f.len, &m) == -1 && m.err[0] != 0 && m.nfiles == 0);
    rc_manifest_free(&m);
    rc_buf_free(&f);
  }
}

static void selftest_part_a(void) {
  printf("[a] known answers and round trips\n");
  test_crc();
  test_varint();
  test_hash_bloom();
  test_batch_edit();
  test_log();
  test_snappy();
  printf("  checks so far: %ld, failures: %d\n", g_checks, g_fail);
}

/* ------------------------------------------------------------------ file helpers */

static uint8_t *read_file(const char *path, size_t *len) {
  FILE *f = fopen(path, "rb");
  uint8_t *buf;
  long sz;
  if (f == NULL) return NULL;
  fseek(f, 0, SEEK_END);
  sz = ftell(f);
  fseek(f, 0, SEEK_SET);
  if (sz < 0) {
    fclose(f);
    return NULL;
  }
  buf = (uint8_t *)malloc((size_t)sz + 1);
  if (sz > 0 && fread(buf, 1, (size_t)sz, f) != (size_t)sz) {
    free(buf);
    fclose(f);
    return NULL;
  }
  fclose(f);
  *len = (size_t)sz;
  return buf;
}

static int has_suffix(const char *s, const char *suf) {
  size_t a = strlen(s), b = strlen(suf);
  return a >= b && strcmp(s + a - b, suf) == 0;
}

static void remove_tree(const char *dir) {
  DIR *d = opendir(dir);
  struct dirent *de;
  char path[1024];
  if (d != NULL) {
    while ((de = readdir(d)) != NULL) {
      struct stat st;
      if (strcmp(de->d_name, ".") == 0 || strcmp(de->d_name, "..") == 0) continue;
      snprintf(path, sizeof(path), "%s/%s", dir, de->d_name);
      if (lstat(path, &st) == 0 && S_ISDIR(st.st_mode))
        remove_tree(path);
      else
        unlink(path);
    }
    closedir(d);
  }
  rmdir(dir);
}

typedef struct dirlist_s {
  char names[256][64];
  int n;
} dirlist_t;

static void list_dir(const char *dir, dirlist_t *dl) {
  DIR *d = opendir(dir);
  struct dirent *de;
  dl->n = 0;
  if (d == NULL) return;
  while ((de = readdir(d)) != NULL) {
    if (de->d_name[0] == '.') continue;
    if (dl->n < 256 && strlen(de->d_name) < 64) strcpy(dl->names[dl->n++], de->d_name);
  }
  closedir(d);
}

/* ------------------------------------------------------------------ model */

#define NKEYS 4000

static size_t make_key(int i, char *out) {
  return (size_t)sprintf(out, "key%06d%s", i, (i % 3 == 0) ? "-with-a-longer-suffix" : "");
}

/* Deterministic value from a seed. */
static size_t make_value(uint32_t seed, uint8_t *out /* >= 8192 */) {
  uint32_t s = seed * 2654435761u + 12345u;
  uint32_t kind = seed % 4u;
  size_t len, i;
#define NEXT() (s = s * 1664525u + 1013904223u, (s >> 8))
  if (kind == 0) {
    len = NEXT() % ((seed & 4u) ? 4000u : 300u); /* incompressible */
    for (i = 0; i < len; i++) out[i] = (uint8_t)NEXT();
  } else if (kind == 1) {
    static const char phrase[] = "the quick brown fox jumps over the lazy dog; ";
    len = NEXT() % 6000u;
    for (i = 0; i < len; i++) out[i] = (uint8_t)phrase[(i + seed) % (sizeof(phrase) - 1)];
  } else if (kind == 2) {
    uint8_t c = (uint8_t)('A' + NEXT() % 26u);
    len = NEXT() % 2000u;
    for (i = 0; i < len; i++) out[i] = c;
  } else {
    len = NEXT() % 4u;
    for (i = 0; i < len; i++) out[i] = (uint8_t)('0' + i);
  }
#undef NEXT
  return len;
}

typedef struct model_s {
  uint8_t present[NKEYS];
  uint32_t seed[NKEYS];
} model_t;

typedef struct op_s {
  int type; /* 1 put, 0 del */
  int key;
  uint32_t seed;
} op_t;

/* Map a user key back to its index, verifying it is exactly a key we wrote. */
static int key_index(const uint8_t *k, size_t klen) {
  char tmp[64];
  int i = 0, j;
  size_t n;
  if (klen < 9 || memcmp(k, "key", 3) != 0) return -1;
  for (j = 3; j < 9; j++) {
    if (k[j] < '0' || k[j] > '9') return -1;
    i = i * 10 + (k[j] - '0');
  }
  if (i >= NKEYS) return -1;
  n = make_key(i, tmp);
  if (n != klen || memcmp(tmp, k, n) != 0) return -1;
  return i;
}

/* bytewise internal key order: user key ascending, then (seq,type) descending */
static int ikey_cmp(const uint8_t *a, size_t al, const uint8_t *b, size_t bl) {
  size_t ua = al - 8, ub = bl - 8, m = ua < ub ? ua : ub;
  int r = m ? memcmp(a, b, m) : 0;
  uint64_t ta, tb;
  if (r != 0) return r;
  if (ua != ub) return ua < ub ? -1 : 1;
  ta = rc_get_fixed64(a + ua);
  tb = rc_get_fixed64(b + ub);
  if (ta > tb) return -1;
  if (ta < tb) return 1;
  return 0;
}

/* ------------------------------------------------------------------ (b) cross-check */

static int db_put(ldb_t *db, int i, uint32_t seed, uint8_t *vbuf) {
  char kb[64];
  size_t kl = make_key(i, kb), vl = make_value(seed, vbuf);
  ldb_slice_t k = ldb_slice(kb, kl), v = ldb_slice(vbuf, vl);
  return ldb_put(db, &k, &v, ldb_writeopt_default);
}

static int db_del(ldb_t *db, int i) {
  char kb[64];
  size_t kl = make_key(i, kb);
  ldb_slice_t k = ldb_slice(kb, kl);
  return ldb_del(db, &k, ldb_writeopt_default);
}

typedef struct logcheck_s {
  const op_t *ops;
  size_t nops, pos;
  uint64_t last_seq;
  int bad;
} logcheck_t;

static void logcheck_cb(void *arg, int type, const uint8_t *key, size_t klen,
                        const uint8_t *val, size_t vlen, uint64_t seq) {
  logcheck_t *lc = (logcheck_t *)arg;
  static uint8_t vbuf[8192];
  int idx = key_index(key, klen);
  if (lc->pos >= lc->nops || idx < 0) {
    lc->bad++;
    lc->pos++;
    return;
  }
  if (lc->ops[lc->pos].type != type || lc->ops[lc->pos].key != idx) lc->bad++;
  if (type == 1) {
    size_t vl = make_value(lc->ops[lc->pos].seed, vbuf);
    if (vl != vlen || (vl && memcmp(vbuf, val, vl) != 0)) lc->bad++;
  }
  if (lc->last_seq != 0 && seq != lc->last_seq + 1) lc->bad++;
  lc->last_seq = seq;
  lc->pos++;
}

static void crosscheck_big(const char *root) {
  char dir[512], path[1024];
  ldb_dbopt_t opt = *ldb_dbopt_default;
  ldb_t *db = NULL;
  static model_t m, m1;
  static uint8_t vbuf[8192];
  static uint64_t newest[NKEYS];
  static uint8_t seen_live[NKEYS];
  op_t ops[200];
  size_t nops = 0;
  int rc, round, i;
  dirlist_t dl;
  rc_table_t *tabs;
  uint64_t tabnum[256], tabsize[256];
  int ntabs = 0, nlogs = 0, nmanifest = 0;
  uint64_t max_seq = 0;
  long nentries_total = 0, nblocks_total = 0, nsnappy = 0, fp = 0, fp_probes = 0;
  uint32_t seedctr = 1;

  printf("[b] cross-check against lcdb\n");
  snprintf(dir, sizeof(dir), "%s/big", root);
  opt.create_if_missing = 1;
  opt.compression = LDB_SNAPPY_COMPRESSION;
  opt.filter_policy = ldb_bloom_default;
  opt.write_buffer_size = 64 * 1024;
  opt.max_file_size = 512 * 1024; /* several tables after the full compaction */
  rc = ldb_open(dir, &opt, &db);
  CHECKF(rc == LDB_OK, "ldb_open: %s", ldb_strerror(rc));
  if (rc != LDB_OK) return;

  memset(&m, 0, sizeof(m));
  for (round = 0; round < 2; round++) {
    for (i = 0; i < NKEYS; i++) {
      /* round 0: every key once in scattered order; round 1: random overwrites */
      int k = (round == 0) ? (int)(((uint32_t)i * 1237u) % NKEYS) : (int)rnd(NKEYS);
      if (round == 1 && rnd(3) == 0) continue;
      m.seed[k] = seedctr++;
      m.present[k] = 1;
      CHECK(db_put(db, k, m.seed[k], vbuf) == LDB_OK);
    }
    for (i = 0; i < NKEYS / 10; i++) {
      int k = (int)rnd(NKEYS);
      m.present[k] = 0;
      CHECK(db_del(db, k) == LDB_OK);
    }
  }
  ldb_compact(db, NULL, NULL);
  m1 = m;

  /* a few more writes that stay in the WAL */
  for (i = 0; i < 60; i++) {
    op_t *o = &ops[nops++];
    o->type = 1;
    o->key = (int)rnd(NKEYS);
    o->seed = (seedctr++ * 8u) + (i % 2 ? 0u : 3u); /* kinds 0 and 3: small values */
    CHECK(db_put(db, o->key, o->seed, vbuf) == LDB_OK);
  }
  for (i = 0; i < 10; i++) {
    op_t *o = &ops[nops++];
    o->type = 0;
    o->key = (int)rnd(NKEYS);
    o->seed = 0;
    CHECK(db_del(db, o->key) == LDB_OK);
  }
  {
    ldb_batch_t *b = ldb_batch_create();
    for (i = 0; i < 6; i++) {
      op_t *o = &ops[nops++];
      char kb[64];
      size_t kl;
      ldb_slice_t ks;
      o->type = (i % 3 != 2);
      o->key = (int)rnd(NKEYS);
      o->seed = o->type ? (seedctr++ * 8u) : 0;
      kl = make_key(o->key, kb);
      ks = ldb_slice(kb, kl);
      if (o->type) {
        size_t vl = make_value(o->seed, vbuf);
        ldb_slice_t vs = ldb_slice(vbuf, vl);
        ldb_batch_put(b, &ks, &vs);
      } else {
        ldb_batch_del(b, &ks);
      }
    }
    CHECK(ldb_write(db, b, ldb_writeopt_default) == LDB_OK);
    ldb_batch_destroy(b);
  }
  ldb_close(db);

  list_dir(dir, &dl);
  tabs = (rc_table_t *)calloc(256, sizeof(rc_table_t));
  memset(newest, 0, sizeof(newest));
  memset(seen_live, 0, sizeof(seen_live));

  /* ---- tables ---- */
  for (i = 0; i < dl.n; i++) {
    const char *name = dl.names[i];
    uint8_t *file;
    size_t flen = 0, e;
    rc_table_t *t;
    if (!has_suffix(name, ".ldb") && !has_suffix(name, ".sst")) continue;
    snprintf(path, sizeof(path), "%s/%s", dir, name);
    file = read_file(path, &flen);
    CHECK(file != NULL);
    if (file == NULL) continue;
    t = &tabs[ntabs];
    tabnum[ntabs] = strtoull(name, NULL, 10);
    tabsize[ntabs] = flen;
    rc = rc_table_decode(file, flen, t);
    CHECKF(rc == 0, "%s: %s", name, t->err);
    free(file);
    if (rc != 0) continue;
    ntabs++;
    nentries_total += (long)t->nentries;
    nblocks_total += (long)t->nblocks;
    CHECKF(strcmp(t->filter_name, "leveldb.BuiltinBloomFilter2") == 0, "filter name '%s'",
           t->filter_name);
    CHECK(t->filter != NULL && t->filter_len >= 5 && t->filter[t->filter_len - 1] == 11);
    CHECK(t->nblocks > 0 && t->nentries > 0);
    for (e = 0; e < t->nentries; e++) {
      rc_entry_t *en = &t->entries[e];
      uint64_t tag, seq;
      int idx;
      CHECK(en->klen >= 8);
      if (en->klen < 8) continue;
      tag = rc_get_fixed64(en->key + en->klen - 8);
      seq = tag >> 8;
      CHECK((tag & 0xff) <= 1);
      idx = key_index(en->key, en->klen - 8);
      CHECKF(idx >= 0, "%s entry %lu: unknown user key", name, (unsigned long)e);
      if (seq > max_seq) max_seq = seq;
      if (idx >= 0 && seq >= newest[idx]) newest[idx] = seq;
      if (e > 0)
        CHECKF(t->entries[e - 1].klen >= 8 &&
                   ikey_cmp(t->entries[e - 1].key, t->entries[e - 1].klen, en->key, en->klen) < 0,
               "%s entry %lu out of order", name, (unsigned long)e);
      CHECK(en->block < t->nblocks);
      /* bloom: a present key must never be rejected */
      CHECKF(rc_table_filter_may_match(t, t->blocks[en->block].offset, en->key,
                                       en->klen - 8) == 1,
             "%s entry %lu rejected by filter", name, (unsigned long)e);
    }
    /* per-block structure: entry counts, separators bracket the blocks */
    {
      size_t b, first = 0;
      for (b = 0; b < t->nblocks; b++) {
        rc_blockinfo_t *bi = &t->blocks[b];
        size_t last = first + bi->nentries - 1;
        char nk[32];
        int q;
        CHECK(bi->nentries > 0 && bi->nrestarts > 0);
        CHECK(bi->nrestarts == (bi->nentries + 15) / 16);
        CHECK(first + bi->nentries <= t->nentries);
        if (bi->nentries == 0 || first + bi->nentries > t->nentries) break;
        CHECK(t->entries[first].block == b && t->entries[last].block == b);
        CHECK(bi->seplen >= 8 &&
              ikey_cmp(t->entries[last].key, t->entries[last].klen, bi->sep, bi->seplen) <= 0);
        if (b + 1 < t->nblocks)
          CHECK(ikey_cmp(bi->sep, bi->seplen, t->entries[last + 1].key,
                         t->entries[last + 1].klen) < 0);
        if (b > 0) CHECK(bi->offset == t->blocks[b - 1].offset + t->blocks[b - 1].size + 5);
        if (b == 0) CHECK(bi->offset == 0);
        if (bi->ctype == 1) nsnappy++;
        for (q = 0; q < 20; q++) {
          int kl = sprintf(nk, "nokey%08u", (unsigned)rnd(100000000));
          fp += rc_table_filter_may_match(t, bi->offset, (const uint8_t *)nk, (size_t)kl);
          fp_probes++;
        }
        first += bi->nentries;
      }
      CHECK(first == t->nentries);
    }
  }
  CHECK(ntabs > 0);
  CHECKF(nsnappy > 0, "no snappy-compressed blocks found");
  CHECKF(fp * 20 < fp_probes, "bloom false positives %ld/%ld", fp, fp_probes);

  /* newest version of each key must equal the model at compaction time */
  {
    int t_i;
    long live_model = 0, live_found = 0;
    for (t_i = 0; t_i < ntabs; t_i++) {
      rc_table_t *t = &tabs[t_i];
      size_t e;
      for (e = 0; e < t->nentries; e++) {
        rc_entry_t *en = &t->entries[e];
        uint64_t tag;
        int idx;
        if (en->klen < 8) continue;
        tag = rc_get_fixed64(en->key + en->klen - 8);
        idx = key_index(en->key, en->klen - 8);
        if (idx < 0 || (tag >> 8) != newest[idx]) continue;
        if ((tag & 0xff) == 1) {
          size_t vl = make_value(m1.seed[idx], vbuf);
          CHECKF(m1.present[idx], "key %d is live in tables but deleted in model", idx);
          CHECKF(vl == en->vlen && (vl == 0 || memcmp(vbuf, en->val, vl) == 0),
                 "key %d value mismatch (len %lu vs %lu)", idx, (unsigned long)en->vlen,
                 (unsigned long)vl);
          seen_live[idx] = 1;
          live_found++;
        } else {
          CHECKF(!m1.present[idx], "key %d deleted in tables but live in model", idx);
        }
      }
    }
    for (i = 0; i < NKEYS; i++) {
      if (m1.present[i]) {
        live_model++;
        CHECKF(seen_live[i], "live key %d missing from tables", i);
      }
    }
    printf("  tables: %d files, %ld blocks (%ld snappy), %ld entries, live keys model/tables %ld/%ld, "
           "bloom fp %ld/%ld\n",
           ntabs, nblocks_total, nsnappy, nentries_total, live_model, live_found, fp, fp_probes);
  }

  /* ---- MANIFEST ---- */
  {
    char cur[128];
    size_t clen = 0, mlen = 0;
    uint8_t *c, *mf;
    rc_manifest_t man;
    snprintf(path, sizeof(path), "%s/CURRENT", dir);
    c = read_file(path, &clen);
    CHECK(c != NULL && clen > 1 && clen < sizeof(cur) && c[clen - 1] == '\n');
    if (c != NULL && clen > 1 && clen < sizeof(cur)) {
      memcpy(cur, c, clen - 1);
      cur[clen - 1] = 0;
      CHECK(strncmp(cur, "MANIFEST-", 9) == 0);
      snprintf(path, sizeof(path), "%s/%s", dir, cur);
      mf = read_file(path, &mlen);
      CHECK(mf != NULL);
      if (mf != NULL) {
        nmanifest++;
        rc = rc_manifest_replay(mf, mlen, &man);
        CHECKF(rc == 0, "manifest: %s", man.err);
        if (rc == 0) {
          size_t f;
          int t_i;
          uint64_t lognum = 0;
          CHECK(man.ndrops == 0 && man.consumed == mlen && man.nedits > 0);
          CHECKF(strcmp(man.comparator, "leveldb.BytewiseComparator") == 0, "'%s'", man.comparator);
          CHECK(man.has_log_number && man.has_next_file && man.has_last_sequence);
          CHECKF(man.nfiles == (size_t)ntabs, "manifest lists %lu files, dir has %d",
                 (unsigned long)man.nfiles, ntabs);
          CHECK(man.last_sequence >= max_seq);
          for (f = 0; f < man.nfiles; f++) {
            int found = 0;
            CHECK(man.next_file > man.files[f].number);
            for (t_i = 0; t_i < ntabs; t_i++) {
              rc_table_t *t = &tabs[t_i];
              if (tabnum[t_i] != man.files[f].number) continue;
              found = 1;
              CHECKF(tabsize[t_i] == man.files[f].size, "file %llu size %llu vs manifest %llu",
                     (unsigned long long)tabnum[t_i], (unsigned long long)tabsize[t_i],
                     (unsigned long long)man.files[f].size);
              CHECK(t->nentries > 0 && man.files[f].slen == t->entries[0].klen &&
                    memcmp(man.files[f].smallest, t->entries[0].key, t->entries[0].klen) == 0);
              CHECK(t->nentries > 0 &&
                    man.files[f].llen == t->entries[t->nentries - 1].klen &&
                    memcmp(man.files[f].largest, t->entries[t->nentries - 1].key,
                           man.files[f].llen) == 0);
            }
            CHECKF(found, "manifest file %llu not on disk", (unsigned long long)man.files[f].number);
            if (f > 0)
              CHECK(man.files[f - 1].level < man.files[f].level ||
                    (man.files[f - 1].level == man.files[f].level &&
                     man.files[f - 1].number < man.files[f].number));
          }
          /* the live WAL is the one named by log_number */
          for (i = 0; i < dl.n; i++)
            if (has_suffix(dl.names[i], ".log")) lognum = strtoull(dl.names[i], NULL, 10);
          CHECKF(lognum == man.log_number, "log on disk %llu, manifest says %llu",
                 (unsigned long long)lognum, (unsigned long long)man.log_number);
          printf("  manifest: %lu edits, %lu live files, log_number %llu next_file %llu last_seq %llu\n",
                 (unsigned long)man.nedits, (unsigned long)man.nfiles,
                 (unsigned long long)man.log_number, (unsigned long long)man.next_file,
                 (unsigned long long)man.last_sequence);
        }
        rc_manifest_free(&man);
        free(mf);
      }
    }
    free(c);
  }
  CHECK(nmanifest == 1);

  /* ---- WAL ---- */
  {
    logcheck_t lc;
    memset(&lc, 0, sizeof(lc));
    lc.ops = ops;
    lc.nops = nops;
    for (i = 0; i < dl.n; i++) {
      uint8_t *lf;
      size_t llen = 0, r;
      rc_logresult_t lr;
      if (!has_suffix(dl.names[i], ".log")) continue;
      nlogs++;
      snprintf(path, sizeof(path), "%s/%s", dir, dl.names[i]);
      lf = read_file(path, &llen);
      CHECK(lf != NULL);
      if (lf == NULL) continue;
      rc_log_read(lf, llen, &lr);
      CHECK(lr.ndrops == 0 && lr.consumed == llen);
      for (r = 0; r < lr.nrecs; r++) {
        uint64_t seq = 0;
        uint32_t cnt = 0;
        CHECK(rc_batch_iterate(lr.recs[r].data, lr.recs[r].len, &seq, &cnt, logcheck_cb, &lc) == 0);
        CHECK(seq > max_seq && cnt >= 1);
      }
      CHECKF(lr.nrecs == 71, "log has %lu records", (unsigned long)lr.nrecs);
      /* the reference writer reproduces the file byte for byte */
      {
        rc_buf_t again;
        rc_logw_t w;
        rc_buf_init(&again);
        rc_logw_init(&w, &again, 0);
        for (r = 0; r < lr.nrecs; r++) rc_logw_add(&w, lr.recs[r].data, lr.recs[r].len);
        CHECK(again.len == llen && memcmp(again.data, lf, llen) == 0);
        rc_buf_free(&again);
      }
      rc_logresult_free(&lr);
      free(lf);
    }
    CHECK(nlogs == 1);
    CHECKF(lc.bad == 0 && lc.pos == nops, "WAL replay: %d mismatches, %lu/%lu ops", lc.bad,
           (unsigned long)lc.pos, (unsigned long)nops);
    printf("  wal: %d file(s), %lu updates matched\n", nlogs, (unsigned long)lc.pos);
  }

  for (i = 0; i < ntabs; i++) rc_table_free(&tabs[i]);
  free(tabs);
}

/* ------------------------------------------------------------------ (c) robustness */

/* Build a small database and return its (single) table and its manifest. */
static int build_small_db(const char *root, const char *name, int compression,
                          uint8_t **table, size_t *tlen, uint8_t **manifest, size_t *mlen) {
  char dir[512], path[1024];
  ldb_dbopt_t opt = *ldb_dbopt_default;
  ldb_t *db = NULL;
  static uint8_t vbuf[8192];
  dirlist_t dl;
  int i, rc;
  *table = NULL;
  *manifest = NULL;
  snprintf(dir, sizeof(dir), "%s/%s", root, name);
  opt.create_if_missing = 1;
  opt.compression = compression ? LDB_SNAPPY_COMPRESSION : LDB_NO_COMPRESSION;
  opt.filter_policy = ldb_bloom_default;
  opt.block_size = 1024;
  rc = ldb_open(dir, &opt, &db);
  if (rc != LDB_OK) return -1;
  for (i = 0; i < 150; i++) {
    char kb[64];
    size_t kl = make_key(i * 7, kb), vl = make_value((uint32_t)i * 4u + (i % 5 == 0 ? 2u : 0u), vbuf);
    ldb_slice_t k, v;
    if (vl > 120) vl = 120;
    k = ldb_slice(kb, kl);
    v = ldb_slice(vbuf, vl);
    if (ldb_put(db, &k, &v, ldb_writeopt_default) != LDB_OK) rc = -1;
  }
  ldb_compact(db, NULL, NULL);
  ldb_close(db);
  list_dir(dir, &dl);
  for (i = 0; i < dl.n; i++) {
    snprintf(path, sizeof(path), "%s/%s", dir, dl.names[i]);
    if (has_suffix(dl.names[i], ".ldb") && *table == NULL) *table = read_file(path, tlen);
    if (strncmp(dl.names[i], "MANIFEST-", 9) == 0 && *manifest == NULL)
      *manifest = read_file(path, mlen);
  }
  return (rc == LDB_OK && *table && *manifest) ? 0 : -1;
}

/* Random damage: byte flips and/or truncation.  Returns the new length. */
static size_t mutate_raw(uint8_t *buf, size_t n) {
  uint32_t mode = rnd(4);
  if (n == 0) return 0;
  if (mode != 1) {
    int flips = 1 + (int)rnd(4), j;
    for (j = 0; j < flips; j++) {
      size_t pos = rnd((uint32_t)n);
      switch (rnd(4)) {
        case 0: buf[pos] ^= (uint8_t)(1u << rnd(8)); break;
        case 1: buf[pos] = (uint8_t)rnd(256); break;
        case 2: buf[pos] = 0xff; break;
        default: buf[pos] = (uint8_t)(buf[pos] + 1); break;
      }
    }
  }
  if (mode == 1 || mode == 2) n = rnd((uint32_t)n + 1);
  return n;
}

static void fix_block_crc(uint8_t *file, uint64_t off, uint64_t size) {
  uint32_t crc = rc_crc32c(file + off, (size_t)size + 1);
  rc_put_fixed32(file + off + size + 1, rc_crc_mask(crc));
}

static void fuzz_table(const uint8_t *orig, size_t n, const char *label, int iters) {
  rc_table_t ref, t;
  uint8_t *buf = (uint8_t *)malloc(n + 1);
  long ok = 0, bad = 0;
  int it;
  int rc = rc_table_decode(orig, n, &ref);
  CHECKF(rc == 0, "%s: %s", label, ref.err);
  if (rc != 0) {
    free(buf);
    return;
  }
  for (it = 0; it < iters; it++) {
    size_t len = n;
    uint32_t mode = rnd(4);
    memcpy(buf, orig, n);
    if (mode == 0) {
      len = mutate_raw(buf, n);
    } else if (mode == 3) { /* footer damage */
      int j, flips = 1 + (int)rnd(3);
      for (j = 0; j < flips; j++) buf[n - 48 + rnd(40)] = (uint8_t)rnd(256);
    } else { /* damage inside one block, checksum repaired so parsing goes deep */
      uint64_t off, size;
      uint32_t which = rnd((uint32_t)ref.nblocks + 2);
      int j, flips = 1 + (int)rnd(3);
      if (which < ref.nblocks) {
        off = ref.blocks[which].offset;
        size = ref.blocks[which].size;
      } else if (which == ref.nblocks) {
        off = ref.index_off;
        size = ref.index_size;
      } else {
        off = ref.metaindex_off;
        size = ref.metaindex_size;
      }
      for (j = 0; j < flips; j++) {
        size_t pos = (size_t)off + rnd((uint32_t)size + 1);
        if (rnd(3) == 0 && size >= 8) pos = (size_t)(off + size) - 1 - rnd(8); /* restart area */
        buf[pos] = (rnd(2) ? (uint8_t)rnd(256) : (uint8_t)(buf[pos] ^ (1u << rnd(8))));
      }
      fix_block_crc(buf, off, size);
    }
    if (rc_table_decode(buf, len, &t) == 0) {
      size_t b;
      ok++;
      for (b = 0; b < t.nblocks && b < 4; b++)
        (void)rc_table_filter_may_match(&t, t.blocks[b].offset, (const uint8_t *)"key000007", 9);
    } else {
      bad++;
      CHECK(t.err[0] != 0 && t.entries == NULL && t.blocks == NULL && t.filter == NULL);
    }
    rc_table_free(&t);
  }
  /* hostile filter blocks straight into the probe */
  for (it = 0; it < iters && ref.filter != NULL; it++) {
    rc_table_t ft;
    size_t flen;
    memset(&ft, 0, sizeof(ft));
    ft.filter = (uint8_t *)malloc(ref.filter_len + 1);
    memcpy(ft.filter, ref.filter, ref.filter_len);
    flen = mutate_raw(ft.filter, ref.filter_len);
    if (rnd(2) && flen >= 5) ft.filter[flen - 1 - rnd(5)] = (uint8_t)rnd(256);
    ft.filter_len = flen;
    (void)rc_table_filter_may_match(&ft, rnd64() >> rnd(64), (const uint8_t *)"key000007", 9);
    (void)rc_table_filter_may_match(&ft, rnd(1 << 16), (const uint8_t *)"", 0);
    free(ft.filter);
  }
  printf("  fuzz %-22s %d iterations: %ld still decode, %ld rejected\n", label, iters, ok, bad);
  rc_table_free(&ref);
  free(buf);
}

/* Damage a log; half of the time re-seal one physical record with a valid
 * checksum after changing its type / length / payload. */
static size_t mutate_log(uint8_t *buf, size_t n, const rc_logresult_t *ref) {
  if (rnd(2) == 0 || ref->nrecs == 0) return mutate_raw(buf, n);
  {
    const rc_logrec_t *r = &ref->recs[rnd((uint32_t)ref->nrecs)];
    size_t h = (size_t)r->start_off;
    size_t len = (size_t)buf[h + 4] | ((size_t)buf[h + 5] << 8);
    uint32_t what = rnd(4);
    if (what == 0) {
      buf[h + 6] = (uint8_t)rnd(8);
    } else if (what == 1 && len > 0) {
      int j, flips = 1 + (int)rnd(3);
      for (j = 0; j < flips; j++) buf[h + 7 + rnd((uint32_t)len)] = (uint8_t)rnd(256);
    } else if (what == 2) {
      size_t nl = rnd(2) ? rnd(70000) & 0xffff : (len ? len - 1 : 1);
      buf[h + 4] = (uint8_t)nl;
      buf[h + 5] = (uint8_t)(nl >> 8);
      len = nl;
    } else {
      buf[h + 6] = (uint8_t)(1 + rnd(4));
      if (len > 0) buf[h + 7 + rnd((uint32_t)len)] ^= 0x10;
    }
    if (h + 7 + len <= n)
      rc_put_fixed32(buf + h, rc_crc_mask(rc_crc32c(buf + h + 6, 1 + len)));
    if (rnd(4) == 0) n = rnd((uint32_t)n + 1);
    return n;
  }
}

static void fuzz_log(const uint8_t *orig, size_t n, const char *label, int iters,
                     int as_manifest) {
  rc_logresult_t ref;
  uint8_t *buf = (uint8_t *)malloc(n + 1);
  long clean = 0, dropped = 0, edits_ok = 0, edits_bad = 0;
  int it;
  rc_log_read(orig, n, &ref);
  CHECK(ref.ndrops == 0 && ref.nrecs > 0);
  for (it = 0; it < iters; it++) {
    size_t len;
    memcpy(buf, orig, n);
    len = mutate_log(buf, n, &ref);
    if (as_manifest) {
      rc_manifest_t m;
      if (rc_manifest_replay(buf, len, &m) == 0) {
        edits_ok++;
        if (m.ndrops) dropped++; else clean++;
      } else {
        edits_bad++;
        CHECK(m.err[0] != 0 && m.files == NULL);
      }
      rc_manifest_free(&m);
    } else {
      rc_logresult_t r;
      size_t i;
      rc_log_read(buf, len, &r);
      CHECK(r.consumed <= len);
      if (r.ndrops) dropped++; else clean++;
      for (i = 0; i < r.nrecs; i++) {
        uint64_t seq;
        uint32_t cnt;
        CHECK(r.recs[i].start_off < r.recs[i].end_off && r.recs[i].end_off <= len);
        (void)rc_batch_iterate(r.recs[i].data, r.recs[i].len, &seq, &cnt, NULL, NULL);
      }
      rc_logresult_free(&r);
    }
  }
  /* record payloads straight into the record decoders */
  for (it = 0; it < iters; it++) {
    const rc_logrec_t *r = &ref.recs[rnd((uint32_t)ref.nrecs)];
    uint8_t *p = (uint8_t *)malloc(r->len + 1);
    size_t len;
    memcpy(p, r->data, r->len);
    len = mutate_raw(p, r->len);
    if (as_manifest) {
      rc_edit_t e;
      if (rc_edit_decode(p, len, &e) == 0) edits_ok++; else edits_bad++;
      rc_edit_free(&e);
    } else {
      uint64_t seq;
      uint32_t cnt;
      (void)rc_batch_iterate(p, len, &seq, &cnt, NULL, NULL);
    }
    free(p);
  }
  if (as_manifest)
    printf("  fuzz %-22s %d iterations: replay/edit ok %ld, rejected %ld (with drops %ld)\n",
           label, iters, edits_ok, edits_bad, dropped);
  else
    printf("  fuzz %-22s %d iterations: %ld without drops, %ld with drops\n", label, iters,
           clean, dropped);
  rc_logresult_free(&ref);
  free(buf);
}

static void fuzz_snappy(int iters) {
  enum { N = 6000 };
  uint8_t *src = (uint8_t *)malloc(N);
  rc_buf_t enc[4], out;
  long ok = 0, bad = 0;
  int it, s;
  fill_compressible(src, N);
  rc_buf_init(&out);
  for (s = 0; s < 4; s++) {
    rc_buf_init(&enc[s]);
    rc_snappy_encode(src, N, s, &enc[s]);
  }
  for (it = 0; it < iters; it++) {
    rc_buf_t *e = &enc[it % 4];
    uint8_t *buf = (uint8_t *)malloc(e->len + 1);
    size_t len;
    uint32_t ul;
    memcpy(buf, e->data, e->len);
    len = mutate_raw(buf, e->len);
    if (rnd(8) == 0 && len > 0) buf[0] = (uint8_t)rnd(256); /* preamble */
    (void)rc_snappy_uncompressed_length(buf, len, &ul);
    if (rc_snappy_decode(buf, len, &out) == 0) ok++; else bad++;
    free(buf);
  }
  /* purely random streams */
  for (it = 0; it < iters; it++) {
    uint8_t buf[64];
    size_t len = rnd(65);
    fill_random(buf, len);
    if (len > 0 && rnd(2)) buf[0] = (uint8_t)rnd(100);
    if (rc_snappy_decode(buf, len, &out) == 0) ok++; else bad++;
  }
  printf("  fuzz %-22s %d iterations x2: %ld decode, %ld rejected\n", "snappy", iters, ok, bad);
  for (s = 0; s < 4; s++) rc_buf_free(&enc[s]);
  rc_buf_free(&out);
  free(src);
}

static void robustness(const char *root, int iters) {
  uint8_t *t1 = NULL, *m1 = NULL, *t2 = NULL, *m2 = NULL;
  size_t t1n = 0, m1n = 0, t2n = 0, m2n = 0;
  printf("[c] robustness (%d mutations per input)\n", iters);
  CHECK(build_small_db(root, "small_snappy", 1, &t1, &t1n, &m1, &m1n) == 0);
  CHECK(build_small_db(root, "small_plain", 0, &t2, &t2n, &m2, &m2n) == 0);
  if (t1) fuzz_table(t1, t1n, "table (snappy)", iters);
  if (t2) fuzz_table(t2, t2n, "table (uncompressed)", iters);
  if (m1) fuzz_log(m1, m1n, "manifest", iters, 1);
  {
    /* synthetic WAL of write batches spanning two blocks */
    rc_buf_t f, rec;
    rc_logw_t w;
    uint8_t hdr[12], tmp[8];
    int i;
    rc_buf_init(&f);
    rc_buf_init(&rec);
    rc_logw_init(&w, &f, 0);
    for (i = 0; i < 40; i++) {
      size_t vl = (i == 20) ? 30000 : rnd(300), j;
      rc_buf_reset(&rec);
      rc_put_fixed64(hdr, 1000 + (uint64_t)i * 2);
      rc_put_fixed32(hdr + 8, 2);
      rc_buf_append(&rec, hdr, 12);
      rc_buf_push(&rec, 1);
      rc_buf_append(&rec, tmp, (size_t)rc_put_varint32(tmp, 6));
      rc_buf_append(&rec, "abcdef", 6);
      rc_buf_append(&rec, tmp, (size_t)rc_put_varint32(tmp, (uint32_t)vl));
      for (j = 0; j < vl; j++) rc_buf_push(&rec, (uint8_t)j);
      rc_buf_push(&rec, 0);
      rc_buf_append(&rec, tmp, (size_t)rc_put_varint32(tmp, 3));
      rc_buf_append(&rec, "xyz", 3);
      rc_logw_add(&w, rec.data, rec.len);
    }
    {
      rc_logresult_t r;
      size_t k;
      rc_log_read(f.data, f.len, &r);
      CHECK(r.nrecs == 40 && r.ndrops == 0);
      for (k = 0; k < r.nrecs; k++)
        CHECK(rc_batch_iterate(r.recs[k].data, r.recs[k].len, NULL, NULL, NULL, NULL) == 0);
      rc_logresult_free(&r);
    }
    fuzz_log(f.data, f.len, "wal", iters, 0);
    rc_buf_free(&f);
    rc_buf_free(&rec);
  }
  fuzz_snappy(iters);
  free(t1);
  free(m1);
  free(t2);
  free(m2);
}

/* ------------------------------------------------------------------ main */

int main(int argc, char **argv) {
  char root[] = "/dev/shm/rc_selftest.XXXXXX";
  int iters = 20000;
  if (argc > 1) iters = atoi(argv[1]);
  if (argc > 2) g_rng ^= strtoull(argv[2], NULL, 0) * 0x9e3779b97f4a7c15ull + 1;
  setvbuf(stdout, NULL, _IOLBF, 0);

  selftest_part_a();

  if (mkdtemp(root) == NULL) {
    fprintf(stderr, "mkdtemp(%s): %s\n", root, strerror(errno));
    return 2;
  }
  crosscheck_big(root);
  printf("  checks so far: %ld, failures: %d\n", g_checks, g_fail);
  robustness(root, iters);
  remove_tree(root);

  printf("refcodec selftest: %ld checks, %d failures -> %s\n", g_checks, g_fail,
         g_fail ? "FAILED" : "PASSED");
  return g_fail ? 1 : 0;
}

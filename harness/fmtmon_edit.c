/* fmtmon_edit - C17 "version metadata is encoded exactly and switched atomically"
 * (the encode/decode/replay half; the CURRENT-switch crash half lives in crashmon.c).
 *
 *   fmtmon_edit --seed S --mode edit|varint|varintq|replay --first I --count N --dir D
 *
 * edit    : generated version edits built with the REAL ldb_edit_* API, exported by the
 *           real encoder; oracles: real import + re-export, the independent decoder
 *           rc_edit_decode, an independent encoder written here from the documented tag
 *           layout, and by-construction malformed variants (acceptance must agree).
 * varint  : case c = all 65536 varint32 values [c*2^16,(c+1)*2^16) against rc_put/get_varint32,
 *           plus per case: varint64 boundary + random values, fixed32/64, length-prefixed
 *           slices, random byte strings (decoder agreement).  --first 0 --count 65536 = all 2^32.
 * varintq : same work, but case i is mapped to a stratified chunk (every 2^(7k) boundary,
 *           2^31, 2^32-1, then pseudo-random chunks) - the quick tier.
 * replay  : real databases driven through short random histories; at quiescent points and
 *           around clean reopens the MANIFEST named by CURRENT is replayed by refcodec from
 *           the raw bytes and compared with what the engine reports.
 *
 * Build: sources fmtmon_edit.c vh.c dbh.c model.c refcodec.c, wrap=() (no iomon).
 * Violation keys (prop C17): export-import-fields-differ, reexport-bytes-differ,
 * reference-decoder-fields-differ, export-bytes-differ-from-reference,
 * reference-encoding-rejected, reference-encoding-fields-differ, import-accepts-malformed,
 * import-rejects-valid, varint32-encoding-differs, varint64-encoding-differs,
 * varint-decode-wrong, varint-truncated-accepted, varint-overlong-accepted,
 * fixed-encoding-differs, lenprefixed-encoding-differs, manifest-replay-error,
 * manifest-fileset-differs-from-reported-layout, manifest-counter-mismatch,
 * current-content-wrong, manifest-changed-by-close, reopen-failed,
 * fileset-changed-across-reopen, compact-pointers-changed-across-reopen.
 * Oracle notes: refcodec accepts internal keys of 1..7 bytes (upstream's "non-empty"
 * test); the format says user key + 8-byte trailer, lcdb rejects < 8, and agree() below
 * adjudicates < 8 as malformed.  refcodec keeps comparator names in char[256]: generated
 * names are <= 255 bytes without NUL.
 *
 * Type worlds: this file needs lcdb INTERNAL headers (ldb_edit_t, coding.h ...).  They
 * define the same struct tags as the public <lcdb.h>, so the two cannot meet in one
 * translation unit.  Like /repo/test/t-db.c we therefore use internal headers only and
 * neutralise the `#include <lcdb.h>` inside dbh.h/model.h by pre-defining its guard; the
 * internal definitions are the ones the public header mirrors (same layout), and
 * dbh.c/model.c keep being compiled against the public header.
 */
#include <errno.h>
#include <fcntl.h>
#include <malloc.h>
#include <stdarg.h>
#include <stdint.h>
#include <stdio.h>
#include <stdlib.h>
#include <string.h>
#include <sys/stat.h>
#include <unistd.h>

#include "util/types.h"
#include "util/internal.h"
#include "util/buffer.h"
#include "util/coding.h"
#include "util/slice.h"
#include "util/rbt.h"
#include "util/vector.h"
#include "util/comparator.h"
#include "util/bloom.h"
#include "util/cache.h"
#include "util/env.h"
#include "util/options.h"
#include "util/status.h"
#include "db_impl.h"
#include "dbformat.h"
#include "write_batch.h"
#include "version_edit.h"

#define LCDB_H /* see "Type worlds" above */
#include "dbh.h"
#include "refcodec.h"
#include "vh.h"

#define NLEVELS 7

static uint64_t g_seed = 1;
static int g_case = 0;
static const char *g_mode = "edit";

/* ====================================================================== */
/* logical edits (the harness's own plain representation)                  */

typedef struct lcp_s { int level; const uint8_t *key; size_t klen; } lcp_t;
typedef struct ldel_s { int level; uint64_t number; } ldel_t;
typedef struct lnew_s {
  int level;
  uint64_t number, size;
  const uint8_t *sk; size_t sl;
  const uint8_t *lk; size_t ll;
} lnew_t;

typedef struct ledit_s {
  int has_cmp, has_log, has_prev, has_next, has_seq;
  const uint8_t *cmp; size_t cmplen;
  uint64_t log, prev, next, seq;
  lcp_t *cp; size_t ncp;
  ldel_t *del; size_t ndel;     /* in the order the source presents them */
  lnew_t *nf; size_t nnf;
} ledit_t;

static void ledit_free(ledit_t *L) {
  free(L->cp); free(L->del); free(L->nf);
  memset(L, 0, sizeof(*L));
}

static int ldel_cmp(const void *a, const void *b) {
  const ldel_t *x = a, *y = b;
  if (x->level != y->level) return x->level < y->level ? -1 : 1;
  if (x->number != y->number) return x->number < y->number ? -1 : 1;
  return 0;
}

static int ldel_sorted(const ledit_t *L) {
  size_t i;
  for (i = 1; i < L->ndel; i++) if (ldel_cmp(&L->del[i - 1], &L->del[i]) >= 0) return 0;
  return 1;
}

/* walk the REAL structure */
static int from_real(ledit_t *L, const ldb_edit_t *E, char *err, size_t en) {
  size_t i, n = 0;
  rb_iter_t it;
  memset(L, 0, sizeof(*L));
  L->has_cmp = E->has_comparator != 0;
  L->has_log = E->has_log_number != 0;
  L->has_prev = E->has_prev_log_number != 0;
  L->has_next = E->has_next_file_number != 0;
  L->has_seq = E->has_last_sequence != 0;
  L->cmp = E->comparator.data; L->cmplen = E->comparator.size;
  L->log = E->log_number; L->prev = E->prev_log_number;
  L->next = E->next_file_number; L->seq = E->last_sequence;
  L->ncp = E->compact_pointers.length;
  L->cp = malloc((L->ncp + 1) * sizeof(lcp_t));
  for (i = 0; i < L->ncp; i++) {
    const ikey_entry_t *e = E->compact_pointers.items[i];
    L->cp[i].level = e->level; L->cp[i].key = e->key.data; L->cp[i].klen = e->key.size;
  }
  L->del = malloc((E->deleted_files.size + 1) * sizeof(ldel_t));
  rb_set_each(&E->deleted_files, it) {
    const file_entry_t *e = rb_key_ptr(it);
    if (n >= E->deleted_files.size) { n++; break; }
    L->del[n].level = e->level; L->del[n].number = e->number; n++;
  }
  if (n != E->deleted_files.size) {
    snprintf(err, en, "deleted_files set reports size %zu but iteration yields %s%zu entries",
             E->deleted_files.size, n > E->deleted_files.size ? "more than " : "", n);
    L->ndel = n < E->deleted_files.size ? n : E->deleted_files.size;
    return 0;
  }
  L->ndel = n;
  L->nnf = E->new_files.length;
  L->nf = malloc((L->nnf + 1) * sizeof(lnew_t));
  for (i = 0; i < L->nnf; i++) {
    const meta_entry_t *e = E->new_files.items[i];
    L->nf[i].level = e->level; L->nf[i].number = e->meta.number; L->nf[i].size = e->meta.file_size;
    L->nf[i].sk = e->meta.smallest.data; L->nf[i].sl = e->meta.smallest.size;
    L->nf[i].lk = e->meta.largest.data; L->nf[i].ll = e->meta.largest.size;
  }
  return 1;
}

static void from_rc(ledit_t *L, const rc_edit_t *e) {
  size_t i;
  memset(L, 0, sizeof(*L));
  L->has_cmp = e->has_comparator != 0; L->has_log = e->has_log_number != 0;
  L->has_prev = e->has_prev_log_number != 0; L->has_next = e->has_next_file != 0;
  L->has_seq = e->has_last_sequence != 0;
  L->cmp = (const uint8_t *)e->comparator; L->cmplen = strlen(e->comparator);
  L->log = e->log_number; L->prev = e->prev_log_number; L->next = e->next_file; L->seq = e->last_sequence;
  L->ncp = e->ncompact;
  L->cp = malloc((L->ncp + 1) * sizeof(lcp_t));
  for (i = 0; i < L->ncp; i++) {
    L->cp[i].level = e->compact_pointers[i].level;
    L->cp[i].key = e->compact_pointers[i].key; L->cp[i].klen = e->compact_pointers[i].klen;
  }
  L->ndel = e->ndeleted;
  L->del = malloc((L->ndel + 1) * sizeof(ldel_t));
  for (i = 0; i < L->ndel; i++) { L->del[i].level = e->deleted[i].level; L->del[i].number = e->deleted[i].number; }
  L->nnf = e->nadded;
  L->nf = malloc((L->nnf + 1) * sizeof(lnew_t));
  for (i = 0; i < L->nnf; i++) {
    const rc_fileent_t *f = &e->added[i];
    L->nf[i].level = f->level; L->nf[i].number = f->number; L->nf[i].size = f->size;
    L->nf[i].sk = f->smallest; L->nf[i].sl = f->slen; L->nf[i].lk = f->largest; L->nf[i].ll = f->llen;
  }
}

static int bytes_eq(const uint8_t *a, size_t an, const uint8_t *b, size_t bn) {
  return an == bn && (an == 0 || memcmp(a, b, an) == 0);
}

/* 1 = equal; otherwise describes the first difference ("A" = first argument).
 * del_as_set: compare deleted files as sets of (level, number). */
static int ledit_equal(const ledit_t *a, const ledit_t *b, int del_as_set, char *d, size_t dn) {
  size_t i;
#define DIFF(...) do { snprintf(d, dn, __VA_ARGS__); return 0; } while (0)
  if (a->has_cmp != b->has_cmp) DIFF("has_comparator %d vs %d", a->has_cmp, b->has_cmp);
  if (a->has_cmp && !bytes_eq(a->cmp, a->cmplen, b->cmp, b->cmplen))
    DIFF("comparator '%s'(%zu) vs '%s'(%zu)", vh_esc(a->cmp, a->cmplen), a->cmplen, vh_esc(b->cmp, b->cmplen), b->cmplen);
#define SCALAR(has, val, name) \
  if (a->has != b->has) DIFF("has_" name " %d vs %d", a->has, b->has); \
  if (a->has && a->val != b->val) DIFF(name " %llu vs %llu", (unsigned long long)a->val, (unsigned long long)b->val)
  SCALAR(has_log, log, "log_number");
  SCALAR(has_prev, prev, "prev_log_number");
  SCALAR(has_next, next, "next_file");
  SCALAR(has_seq, seq, "last_sequence");
#undef SCALAR
  if (a->ncp != b->ncp) DIFF("%zu vs %zu compact pointers", a->ncp, b->ncp);
  for (i = 0; i < a->ncp; i++) {
    if (a->cp[i].level != b->cp[i].level) DIFF("compact pointer %zu: level %d vs %d", i, a->cp[i].level, b->cp[i].level);
    if (!bytes_eq(a->cp[i].key, a->cp[i].klen, b->cp[i].key, b->cp[i].klen))
      DIFF("compact pointer %zu (level %d): key '%s'(%zu) vs '%s'(%zu)", i, a->cp[i].level,
           vh_esc(a->cp[i].key, a->cp[i].klen), a->cp[i].klen, vh_esc(b->cp[i].key, b->cp[i].klen), b->cp[i].klen);
  }
  if (!del_as_set) {
    if (a->ndel != b->ndel) DIFF("%zu vs %zu deleted files", a->ndel, b->ndel);
    for (i = 0; i < a->ndel; i++)
      if (a->del[i].level != b->del[i].level || a->del[i].number != b->del[i].number)
        DIFF("deleted file %zu: (level %d, #%llu) vs (level %d, #%llu)", i, a->del[i].level, (unsigned long long)a->del[i].number,
             b->del[i].level, (unsigned long long)b->del[i].number);
  } else if (a->ndel + b->ndel > 0) {
    /* deleted files are a SET of (level, number): order and repetition of records carry no meaning */
    ldel_t *xs = malloc((a->ndel + 1) * sizeof(ldel_t)), *ys = malloc((b->ndel + 1) * sizeof(ldel_t));
    size_t nx = 0, ny = 0;
    int same = 1;
    if (a->ndel) memcpy(xs, a->del, a->ndel * sizeof(ldel_t));
    if (b->ndel) memcpy(ys, b->del, b->ndel * sizeof(ldel_t));
    qsort(xs, a->ndel, sizeof(ldel_t), ldel_cmp); qsort(ys, b->ndel, sizeof(ldel_t), ldel_cmp);
    for (i = 0; i < a->ndel; i++) if (nx == 0 || ldel_cmp(&xs[nx - 1], &xs[i]) != 0) xs[nx++] = xs[i];
    for (i = 0; i < b->ndel; i++) if (ny == 0 || ldel_cmp(&ys[ny - 1], &ys[i]) != 0) ys[ny++] = ys[i];
    if (nx != ny) { snprintf(d, dn, "%zu vs %zu distinct deleted files", nx, ny); same = 0; }
    for (i = 0; same && i < nx; i++) {
      if (ldel_cmp(&xs[i], &ys[i]) != 0) {
        snprintf(d, dn, "deleted file set, element %zu: (level %d, #%llu) vs (level %d, #%llu)", i, xs[i].level,
                 (unsigned long long)xs[i].number, ys[i].level, (unsigned long long)ys[i].number);
        same = 0;
      }
    }
    free(xs); free(ys);
    if (!same) return 0;
  }
  if (a->nnf != b->nnf) DIFF("%zu vs %zu new files", a->nnf, b->nnf);
  for (i = 0; i < a->nnf; i++) {
    const lnew_t *x = &a->nf[i], *y = &b->nf[i];
    if (x->level != y->level) DIFF("new file %zu: level %d vs %d", i, x->level, y->level);
    if (x->number != y->number) DIFF("new file %zu: number %llu vs %llu", i, (unsigned long long)x->number, (unsigned long long)y->number);
    if (x->size != y->size) DIFF("new file %zu (#%llu): size %llu vs %llu", i, (unsigned long long)x->number,
                                 (unsigned long long)x->size, (unsigned long long)y->size);
    if (!bytes_eq(x->sk, x->sl, y->sk, y->sl))
      DIFF("new file %zu (#%llu): smallest '%s'(%zu) vs '%s'(%zu)", i, (unsigned long long)x->number,
           vh_esc(x->sk, x->sl), x->sl, vh_esc(y->sk, y->sl), y->sl);
    if (!bytes_eq(x->lk, x->ll, y->lk, y->ll))
      DIFF("new file %zu (#%llu): largest '%s'(%zu) vs '%s'(%zu)", i, (unsigned long long)x->number,
           vh_esc(x->lk, x->ll), x->ll, vh_esc(y->lk, y->ll), y->ll);
  }
#undef DIFF
  return 1;
}

/* ====================================================================== */
/* independent encoder (from the documented tag layout; no lcdb code)      */

typedef struct enc_s {
  rc_buf_t b;
  size_t *uoff;     /* start offset of every record unit; uoff[nu] = total length */
  uint8_t *utag;
  size_t nu, cap;
} enc_t;

static void enc_init(enc_t *e) { memset(e, 0, sizeof(*e)); rc_buf_init(&e->b); }
static void enc_free(enc_t *e) { rc_buf_free(&e->b); free(e->uoff); free(e->utag); memset(e, 0, sizeof(*e)); }

static void put_v32(rc_buf_t *b, uint32_t v) { uint8_t t[5]; rc_buf_append(b, t, (size_t)rc_put_varint32(t, v)); }
static void put_v64(rc_buf_t *b, uint64_t v) { uint8_t t[10]; rc_buf_append(b, t, (size_t)rc_put_varint64(t, v)); }
static void put_lp(rc_buf_t *b, const uint8_t *p, size_t n) { put_v32(b, (uint32_t)n); if (n) rc_buf_append(b, p, n); }

static void enc_unit(enc_t *e, int tag) {
  if (e->nu + 2 > e->cap) {
    e->cap = e->cap ? e->cap * 2 : 64;
    e->uoff = realloc(e->uoff, e->cap * sizeof(size_t));
    e->utag = realloc(e->utag, e->cap);
  }
  e->uoff[e->nu] = e->b.len;
  e->utag[e->nu] = (uint8_t)tag;
  e->nu++;
  put_v32(&e->b, (uint32_t)tag);
}

/* LevelDB VersionEdit::EncodeTo order: comparator(1) log(2) prevlog(9) nextfile(3)
 * lastseq(4) compact pointers(5) deleted files(6, set order) new files(7). */
static void ref_encode(const ledit_t *L, enc_t *e) {
  size_t i;
  if (L->has_cmp) { enc_unit(e, 1); put_lp(&e->b, L->cmp, L->cmplen); }
  if (L->has_log) { enc_unit(e, 2); put_v64(&e->b, L->log); }
  if (L->has_prev) { enc_unit(e, 9); put_v64(&e->b, L->prev); }
  if (L->has_next) { enc_unit(e, 3); put_v64(&e->b, L->next); }
  if (L->has_seq) { enc_unit(e, 4); put_v64(&e->b, L->seq); }
  for (i = 0; i < L->ncp; i++) {
    enc_unit(e, 5); put_v32(&e->b, (uint32_t)L->cp[i].level); put_lp(&e->b, L->cp[i].key, L->cp[i].klen);
  }
  for (i = 0; i < L->ndel; i++) {
    enc_unit(e, 6); put_v32(&e->b, (uint32_t)L->del[i].level); put_v64(&e->b, L->del[i].number);
  }
  for (i = 0; i < L->nnf; i++) {
    const lnew_t *f = &L->nf[i];
    enc_unit(e, 7); put_v32(&e->b, (uint32_t)f->level); put_v64(&e->b, f->number); put_v64(&e->b, f->size);
    put_lp(&e->b, f->sk, f->sl); put_lp(&e->b, f->lk, f->ll);
  }
  if (e->uoff == NULL) { e->cap = 4; e->uoff = malloc(4 * sizeof(size_t)); e->utag = malloc(4); }
  e->uoff[e->nu] = e->b.len;
}

/* ====================================================================== */
/* edit generation                                                         */

typedef struct chunk_s { struct chunk_s *next; size_t used, cap; uint8_t data[]; } chunk_t;

typedef struct gedit_s {
  ledit_t L;              /* expected logical content (deleted = sorted unique) */
  ldel_t *del_raw; size_t ndel_raw;   /* as passed to ldb_edit_remove_file (with duplicates) */
  char cmpz[260];
  int mask, sc;
  size_t maxkey;
  chunk_t *chunks;
} gedit_t;

static uint8_t *g_alloc(gedit_t *g, size_t n) {
  chunk_t *c = g->chunks;
  uint8_t *p;
  if (c == NULL || c->cap - c->used < n) {
    size_t cap = n > (1u << 20) ? n : (1u << 20);
    c = malloc(sizeof(chunk_t) + cap);
    c->next = g->chunks; c->used = 0; c->cap = cap;
    g->chunks = c;
  }
  p = c->data + c->used;
  c->used += n;
  return p;
}

static void gedit_free(gedit_t *g) {
  chunk_t *c = g->chunks, *n;
  for (; c; c = n) { n = c->next; free(c); }
  free(g->del_raw);
  ledit_free(&g->L);
  memset(g, 0, sizeof(*g));
}

/* evidence: which varint lengths each numeric field was exercised with */
enum { VF_LOG, VF_PREV, VF_NEXT, VF_SEQ, VF_DELNUM, VF_NEWNUM, VF_NEWSIZE, VF_N };
static const char *vf_name[VF_N] = {"log", "prevlog", "nextfile", "lastseq", "delnum", "newnum", "newsize"};
static uint8_t vf_seen[VF_N][11];
static uint8_t keylen_seen[8];
static uint8_t level_seen[3][NLEVELS];

static int v64len(uint64_t v) { int n = 1; while (v >= 128) { v >>= 7; n++; } return n; }

static uint64_t gen_u64(vrng_t *r, int field) {
  uint64_t v;
  switch (vr_uniform(r, 10)) {
    case 0: v = vr_uniform(r, 2); break;
    case 1: case 2: case 3: case 4: {
      uint32_t k = 1 + vr_uniform(r, 9);            /* 2^7 .. 2^63 */
      uint64_t base = (uint64_t)1 << (7 * k);
      uint32_t d = vr_uniform(r, 3);
      v = d == 0 ? base - 1 : d == 1 ? base : base + 1;
      break;
    }
    case 5: {
      static const uint64_t sp[] = {0xffffffffULL, 0x100000000ULL, 0x8000000000000000ULL, 0xffffffffffffffffULL,
                                    0xfffffffffffffffeULL, 0x7fffffffffffffffULL, 0x8000000000000001ULL, 0xfffffffeULL,
                                    0x100000001ULL, 0x00ffffffffffffffULL /* max sequence */};
      v = sp[vr_uniform(r, 10)];
      break;
    }
    case 6: v = vr_next(r); break;
    case 7: v = vr_next(r) >> vr_uniform(r, 64); break;
    default: v = 1 + vr_uniform(r, 100000); break;
  }
  vf_seen[field][v64len(v)] = 1;
  return v;
}

static const uint8_t *gen_key(vrng_t *r, gedit_t *g, size_t *lenp) {
  size_t n, i;
  uint8_t *p;
  uint32_t c = vr_uniform(r, 1000);
  int cls;
  if (c < 200) { n = 8; cls = 0; }
  else if (c < 640) { n = 9 + vr_uniform(r, 32); cls = 1; }
  else if (c < 760) { n = 120 + vr_uniform(r, 17); cls = 2; }          /* around the 1-byte length prefix limit */
  else if (c < 880) { n = 41 + vr_uniform(r, 260); cls = 3; }
  else if (c < 995) { n = 301 + vr_uniform(r, 2048 - 300); cls = 4; }   /* up to 2 KiB */
  else { n = 16376 + vr_uniform(r, 17); cls = 5; }                      /* around the 2-byte length prefix limit */
  if (n > g->maxkey) { n = 8 + vr_uniform(r, (uint32_t)(g->maxkey - 7)); cls = 6; }
  keylen_seen[cls] = 1;
  p = g_alloc(g, n);
  switch (vr_uniform(r, 6)) {
    case 0: memset(p, 0x00, n); break;
    case 1: memset(p, 0xff, n); break;
    case 2: for (i = 0; i < n; i++) { uint32_t k = vr_uniform(r, 3); p[i] = k == 0 ? 0x00 : k == 1 ? 0xff : (uint8_t)vr_next(r); } break;
    case 3: { /* printable user key + plausible trailer */
      uint64_t tag = ((vr_next(r) & 0x00ffffffffffffffULL) << 8) | vr_uniform(r, 2);
      for (i = 0; i + 8 < n; i++) p[i] = (uint8_t)('a' + vr_uniform(r, 26));
      rc_put_fixed64(p + n - 8, tag);
      break;
    }
    default: for (i = 0; i < n; i++) p[i] = (uint8_t)vr_next(r); break;
  }
  *lenp = n;
  return p;
}

/* Every file entry is several heap objects on both sides (real structure and reference
 * decoder) and each big edit is decoded ~25 times; under ASan that is ~0.5 s per 5000-file
 * case.  The sanitizer build therefore uses 600..1200 files for the largest class (the
 * rel build does 1000..5000). */
#if defined(__SANITIZE_ADDRESS__)
#define BIG_MIN 600
#define BIG_SPAN 601
#define BIG_MAX 1200
#else
#define BIG_MIN 1000
#define BIG_SPAN 4001
#define BIG_MAX 5000
#endif

static size_t gen_count(vrng_t *r, int sc) {
  switch (sc) {
    case 0: return 1 + vr_uniform(r, 3);
    case 1: return 1 + vr_uniform(r, 30);
    case 2: return 20 + vr_uniform(r, 281);
    default: return vr_uniform(r, 8) == 0 ? BIG_MAX : BIG_MIN + vr_uniform(r, BIG_SPAN);
  }
}

static void gen_edit(vrng_t *r, gedit_t *g, int caseidx) {
  ledit_t *L = &g->L;
  size_t i;
  int q = ((caseidx >> 8) + (caseidx & 0xff)) % 20;   /* every (mask, size class) pair within 5120 cases; balanced shards */
  memset(g, 0, sizeof(*g));
  g->mask = caseidx & 0xff;
  g->sc = q < 10 ? 0 : q < 16 ? 1 : q < 19 ? 2 : 3;
  g->maxkey = g->sc == 3 ? 48 : g->sc == 2 ? 400 : 20000;
  if (g->mask & 1) {
    size_t n;
    uint32_t c = vr_uniform(r, 10);
    if (c == 0) n = 0;
    else if (c == 1) n = 126 + vr_uniform(r, 4);
    else if (c == 2) n = 255;                       /* refcodec stores names in char[256] */
    else if (c < 6) n = 1 + vr_uniform(r, 255);
    else n = 0;
    if (c >= 6) {
      static const char *names[] = {"leveldb.BytewiseComparator", "verif.Reverse", "verif.LengthFirst", "foo"};
      snprintf(g->cmpz, sizeof(g->cmpz), "%s", names[vr_uniform(r, 4)]);
    } else {
      for (i = 0; i < n; i++) g->cmpz[i] = (char)(1 + vr_uniform(r, 255));   /* any byte but NUL (C string API) */
      g->cmpz[n] = 0;
    }
    L->has_cmp = 1; L->cmp = (const uint8_t *)g->cmpz; L->cmplen = strlen(g->cmpz);
  }
  if (g->mask & 2) { L->has_log = 1; L->log = gen_u64(r, VF_LOG); }
  if (g->mask & 4) { L->has_prev = 1; L->prev = gen_u64(r, VF_PREV); }
  if (g->mask & 8) { L->has_next = 1; L->next = gen_u64(r, VF_NEXT); }
  if (g->mask & 16) { L->has_seq = 1; L->seq = gen_u64(r, VF_SEQ); }
  if (g->mask & 32) {
    L->ncp = 1 + vr_skewed(r, 4);
    L->cp = malloc(L->ncp * sizeof(lcp_t));
    for (i = 0; i < L->ncp; i++) {
      L->cp[i].level = (i < NLEVELS && L->ncp >= NLEVELS) ? (int)i : (int)vr_uniform(r, NLEVELS);
      L->cp[i].key = gen_key(r, g, &L->cp[i].klen);
      level_seen[0][L->cp[i].level] = 1;
    }
  }
  if (g->mask & 64) {
    size_t n = gen_count(r, g->sc), o = 0;
    int samelevel = vr_uniform(r, 3) == 0 ? (int)vr_uniform(r, NLEVELS) : -1;
    g->del_raw = malloc(n * sizeof(ldel_t));
    g->ndel_raw = n;
    for (i = 0; i < n; i++) {
      if (i > 0 && vr_uniform(r, 20) == 0) {
        g->del_raw[i] = g->del_raw[vr_uniform(r, (uint32_t)i)];     /* duplicate: the set must absorb it */
      } else {
        g->del_raw[i].level = samelevel >= 0 ? samelevel : (int)vr_uniform(r, NLEVELS);
        g->del_raw[i].number = vr_uniform(r, 4) == 0 && i > 0 ? g->del_raw[i - 1].number + 1 : gen_u64(r, VF_DELNUM);
        if (i > 0 && vr_uniform(r, 8) == 0) {
          /* a distinct element that differs from an earlier one only above bit 31 (or by exactly 2^31):
             an ordering that looks at a truncated difference would merge or misplace the two */
          size_t j = vr_uniform(r, (uint32_t)i);
          uint32_t k = vr_uniform(r, 4);
          g->del_raw[i].level = g->del_raw[j].level;
          g->del_raw[i].number = g->del_raw[j].number + (k == 0 ? 0x80000000ULL : k == 1 ? 0x100000000ULL : k == 2 ? 0x300000000ULL
                                                                                    : ((uint64_t)(1 + vr_uniform(r, 1000)) << 32));
          vh_count("c17_deleted_numbers_aliasing_in_low_32_bits", 1);
        }
      }
      level_seen[1][g->del_raw[i].level] = 1;
    }
    L->del = malloc(n * sizeof(ldel_t));
    memcpy(L->del, g->del_raw, n * sizeof(ldel_t));
    qsort(L->del, n, sizeof(ldel_t), ldel_cmp);
    for (i = 0; i < n; i++) if (o == 0 || ldel_cmp(&L->del[o - 1], &L->del[i]) != 0) L->del[o++] = L->del[i];
    L->ndel = o;
  }
  if (g->mask & 128) {
    L->nnf = gen_count(r, g->sc);
    L->nf = malloc(L->nnf * sizeof(lnew_t));
    for (i = 0; i < L->nnf; i++) {
      lnew_t *f = &L->nf[i];
      f->level = (int)vr_uniform(r, NLEVELS);
      f->number = gen_u64(r, VF_NEWNUM);
      f->size = gen_u64(r, VF_NEWSIZE);
      f->sk = gen_key(r, g, &f->sl);
      f->lk = gen_key(r, g, &f->ll);
      level_seen[2][f->level] = 1;
    }
  }
}

/* build through the real API; calls of the different kinds are interleaved randomly
 * (the relative order inside compact pointers / new files is what the vectors keep) */
static void build_real(vrng_t *r, ldb_edit_t *E, const gedit_t *g) {
  const ledit_t *L = &g->L;
  size_t icp = 0, idel = 0, inf = 0;
  int sc[5], nsc = 0, isc = 0, i;
  ldb_edit_init(E);
  if (L->has_cmp) sc[nsc++] = 0;
  if (L->has_log) sc[nsc++] = 1;
  if (L->has_prev) sc[nsc++] = 2;
  if (L->has_next) sc[nsc++] = 3;
  if (L->has_seq) sc[nsc++] = 4;
  for (i = nsc - 1; i > 0; i--) { int j = (int)vr_uniform(r, (uint32_t)i + 1), t = sc[i]; sc[i] = sc[j]; sc[j] = t; }
  for (;;) {
    size_t rem[4], total;
    uint64_t pick;
    int kind;
    rem[0] = (size_t)(nsc - isc); rem[1] = L->ncp - icp; rem[2] = g->ndel_raw - idel; rem[3] = L->nnf - inf;
    total = rem[0] + rem[1] + rem[2] + rem[3];
    if (total == 0) break;
    pick = vr_next(r) % total;
    for (kind = 0; pick >= rem[kind]; kind++) pick -= rem[kind];
    switch (kind) {
      case 0:
        switch (sc[isc++]) {
          case 0: ldb_edit_set_comparator_name(E, g->cmpz); break;
          case 1: ldb_edit_set_log_number(E, L->log); break;
          case 2: ldb_edit_set_prev_log_number(E, L->prev); break;
          case 3: ldb_edit_set_next_file(E, L->next); break;
          default: ldb_edit_set_last_sequence(E, L->seq); break;
        }
        break;
      case 1: {
        ldb_slice_t k = ldb_slice(L->cp[icp].key, L->cp[icp].klen);
        ldb_edit_set_compact_pointer(E, L->cp[icp].level, &k);
        icp++;
        break;
      }
      case 2:
        ldb_edit_remove_file(E, g->del_raw[idel].level, g->del_raw[idel].number);
        idel++;
        break;
      default: {
        const lnew_t *f = &L->nf[inf++];
        ldb_slice_t s = ldb_slice(f->sk, f->sl), l = ldb_slice(f->lk, f->ll);
        ldb_edit_add_file(E, f->level, f->number, f->size, &s, &l);
        break;
      }
    }
  }
}

/* ====================================================================== */
/* edit mode                                                               */

typedef struct ectx_s {
  const gedit_t *g;
  uint64_t malformed, valid_variants, lenient_short_ikey;
} ectx_t;

static void ev(const ectx_t *X, const char *key, const char *fmt, ...) __attribute__((format(printf, 3, 4)));
static int ev_in_case = 0;     /* a broken codec fails hundreds of variants per case: print the first few */

static void ev(const ectx_t *X, const char *key, const char *fmt, ...) {
  char msg[3000];
  va_list ap;
  const ledit_t *L = &X->g->L;
  if (ev_in_case++ >= 6) { vh_count("c17_violations_not_printed", 1); return; }
  va_start(ap, fmt);
  vsnprintf(msg, sizeof(msg), fmt, ap);
  va_end(ap);
  vh_violation("C17", key, "%s | edit case %d seed %llu: fields=0x%02x sizeclass=%d compact_pointers=%zu deleted=%zu(raw %zu) new=%zu",
               msg, g_case, (unsigned long long)g_seed, X->g->mask, X->g->sc, L->ncp, L->ndel, X->g->ndel_raw, L->nnf);
}

static int rc_has_short_ikey(const rc_edit_t *e) {
  size_t i;
  for (i = 0; i < e->ncompact; i++) if (e->compact_pointers[i].klen < 8) return 1;
  for (i = 0; i < e->nadded; i++) if (e->added[i].slen < 8 || e->added[i].llen < 8) return 1;
  return 0;
}

/* Feed the same bytes (exact-size heap copy: ASan sees any over-read) to the real
 * importer and to the reference decoder.
 * expect: 1 = valid by construction, 0 = malformed by construction, -1 = only agreement
 * is required (non-canonical encodings whose acceptance the format leaves to the varint
 * rules).  An internal key shorter than 8 bytes is malformed by the format definition
 * (user key + 8-byte trailer); refcodec mirrors upstream's weaker "non-empty" test, so
 * that case is adjudicated here.  Returns 1 when the real importer accepted. */
static int agree(ectx_t *X, const uint8_t *p, size_t n, int expect, const char *what) {
  uint8_t *q = malloc(n ? n : 1);
  ldb_edit_t E;
  ldb_slice_t src;
  rc_edit_t rc;
  int ok_real, ok_rc, want;
  if (n) memcpy(q, p, n);
  ldb_edit_init(&E);
  src = ldb_slice(q, n);
  ok_real = ldb_edit_import(&E, &src) != 0;
  ok_rc = rc_edit_decode(q, n, &rc) == 0;
  if (expect < 0 && ok_real && E.has_comparator &&
      (E.comparator.size >= sizeof(rc.comparator) || (E.comparator.size > 0 && memchr(E.comparator.data, 0, E.comparator.size) != NULL))) {
    /* reference limitation, not a format rule: names are kept as C strings in char[256] */
    if (ok_rc) rc_edit_free(&rc);
    ldb_edit_clear(&E);
    free(q);
    return ok_real;
  }
  want = ok_rc;
  if (ok_rc && rc_has_short_ikey(&rc)) { want = 0; X->lenient_short_ikey++; }
  if (expect >= 0 && want != expect)
    vh_fatal("oracle inconsistent: %s is %s by construction but the reference decoder %s it (%zu bytes: %s) case %d seed %llu",
             what, expect ? "valid" : "malformed", ok_rc ? "accepts" : "rejects", n, vh_hex(q, n), g_case,
             (unsigned long long)g_seed);
  if (ok_real && !want)
    ev(X, "import-accepts-malformed", "ldb_edit_import accepts %s, which the format (and the reference decoder) rejects; %zu bytes: %s",
       what, n, vh_hex(q, n));
  else if (!ok_real && want)
    ev(X, "import-rejects-valid", "ldb_edit_import rejects %s, which the reference decoder accepts; %zu bytes: %s", what, n, vh_hex(q, n));
  else if (ok_real && ok_rc) {
    ledit_t a, b;
    char d[900], err[200];
    if (!from_real(&a, &E, err, sizeof(err))) ev(X, "export-import-fields-differ", "%s: %s", what, err);
    from_rc(&b, &rc);
    if (!ledit_equal(&a, &b, 1, d, sizeof(d)))
      ev(X, "reference-decoder-fields-differ", "%s: real import vs reference decoder: %s; %zu bytes: %s", what, d, n, vh_hex(q, n));
    ledit_free(&a); ledit_free(&b);
  }
  if (want) X->valid_variants++; else X->malformed++;
  if (ok_rc) rc_edit_free(&rc);
  ldb_edit_clear(&E);
  free(q);
  return ok_real;
}

static void bsplice(rc_buf_t *v, const rc_buf_t *src, size_t off, size_t oldlen, const uint8_t *nw, size_t nwlen) {
  rc_buf_reset(v);
  rc_buf_append(v, src->data, off);
  rc_buf_append(v, nw, nwlen);
  rc_buf_append(v, src->data + off + oldlen, src->len - off - oldlen);
}

static void malformed_variants(vrng_t *r, ectx_t *X, const enc_t *R0) {
  /* big edits: truncation / level variants on the whole encoding but fewer of them; the
   * appended-record classes work on the (valid) prefix made of the first 40 records */
  const int big = R0->b.len > 20000 && R0->nu > 40;
  enc_t Rs;
  const enc_t *R = R0;
  const rc_buf_t *B = &R0->b;
  rc_buf_t v;
  char what[160];
  size_t i, u;
  uint8_t *isb = calloc(B->len + 2, 1);
  static const uint8_t key8[8] = {1, 2, 3, 4, 5, 6, 7, 8};
  rc_buf_init(&v);
  for (u = 0; u <= R->nu; u++) isb[R->uoff[u]] = 1;

  /* (1) truncation: a prefix is a valid edit exactly when it ends on a unit boundary */
  if (B->len <= 400) {
    for (i = 0; i < B->len; i++) {
      snprintf(what, sizeof(what), "the %zu-byte prefix of a %zu-byte edit", i, B->len);
      agree(X, B->data, i, isb[i], what);
    }
  } else {
    for (i = 0; i < (size_t)(big ? 10 : 48); i++) {
      size_t cut = i < (size_t)(big ? 4 : 16) ? B->len - 1 - i : (size_t)(vr_next(r) % B->len);
      snprintf(what, sizeof(what), "the %zu-byte prefix of a %zu-byte edit", cut, B->len);
      agree(X, B->data, cut, isb[cut], what);
    }
  }

  /* (2) out-of-range levels in tags 5/6/7; (3) non-canonical but in-range level */
  {
    static const uint32_t bad[] = {7, 8, 127, 128, 255, 0x7fffffffu, 0x80000000u, 0xffffffffu};
    size_t picks = big ? 1 : R->nu < 6 ? R->nu : 6, k;
    for (k = 0; k < picks; k++) {
      uint8_t t[8];
      size_t b;
      u = R->nu <= 6 ? k : (size_t)(vr_next(r) % R->nu);
      if (R->utag[u] < 5 || R->utag[u] > 7) continue;
      for (b = 0; b < 8; b++) {
        int n = rc_put_varint32(t, bad[b]);
        bsplice(&v, B, R->uoff[u] + 1, 1, t, (size_t)n);
        snprintf(what, sizeof(what), "an edit whose tag-%d record carries level %u", R->utag[u], bad[b]);
        agree(X, v.data, v.len, 0, what);
      }
      {
        uint8_t lv = B->data[R->uoff[u] + 1];
        /* level in 2 and 5 bytes (padding continuation bytes): accepted by LevelDB's varint rules */
        t[0] = lv | 0x80; t[1] = 0x00;
        bsplice(&v, B, R->uoff[u] + 1, 1, t, 2);
        snprintf(what, sizeof(what), "an edit whose tag-%d level %u is encoded in 2 bytes", R->utag[u], lv);
        agree(X, v.data, v.len, 1, what);
        t[0] = lv | 0x80; t[1] = 0x80; t[2] = 0x80; t[3] = 0x80; t[4] = 0x00;
        bsplice(&v, B, R->uoff[u] + 1, 1, t, 5);
        snprintf(what, sizeof(what), "an edit whose tag-%d level %u is encoded in 5 bytes", R->utag[u], lv);
        agree(X, v.data, v.len, 1, what);
        /* 6 bytes: over-long varint32 */
        t[4] = 0x80; t[5] = 0x00;
        bsplice(&v, B, R->uoff[u] + 1, 1, t, 6);
        snprintf(what, sizeof(what), "an edit whose tag-%d level is an over-long (6-byte) varint32", R->utag[u]);
        agree(X, v.data, v.len, 0, what);
        /* 5 bytes with surplus high bits in the last byte: decoders discard them - agreement only */
        t[4] = 0x70;
        bsplice(&v, B, R->uoff[u] + 1, 1, t, 5);
        snprintf(what, sizeof(what), "an edit whose tag-%d level varint32 has surplus high bits", R->utag[u]);
        agree(X, v.data, v.len, -1, what);
      }
    }
  }

  if (big) {
    Rs = *R0;
    Rs.nu = 40;
    Rs.b.len = R0->uoff[40];
    R = &Rs;
    B = &Rs.b;
  }

  /* (4) unknown tags inserted at a unit boundary */
  {
    static const uint32_t tags[] = {0, 8, 10, 11, 127, 128, 300, 0xffffffffu};
    size_t b;
    for (b = 0; b < 8; b++) {
      uint8_t t[16];
      int n = rc_put_varint32(t, tags[b]);
      size_t at = R->uoff[R->nu ? (size_t)(vr_next(r) % (R->nu + 1)) : 0];
      if (vr_uniform(r, 2)) n += rc_put_varint64(t + n, vr_next(r));
      bsplice(&v, B, at, 0, t, (size_t)n);
      snprintf(what, sizeof(what), "an edit with a record of unknown tag %u at offset %zu", tags[b], at);
      agree(X, v.data, v.len, 0, what);
    }
  }

  /* (5) scalar records with over-long / maximal varint64 payloads, appended */
  {
    static const uint8_t stag[] = {2, 9, 3, 4};
    uint8_t t[16];
    int tg = stag[vr_uniform(r, 4)];
    t[0] = (uint8_t)tg; memset(t + 1, 0x80, 10); t[11] = 0x00;
    bsplice(&v, B, B->len, 0, t, 12);
    snprintf(what, sizeof(what), "an edit with a tag-%d record whose varint64 is over-long (11 bytes)", tg);
    agree(X, v.data, v.len, 0, what);
    memset(t + 1, 0xff, 9); t[10] = 0x01;
    bsplice(&v, B, B->len, 0, t, 11);
    snprintf(what, sizeof(what), "an edit with a tag-%d record holding 2^64-1 in 10 bytes", tg);
    agree(X, v.data, v.len, 1, what);
    t[10] = 0x7f;
    bsplice(&v, B, B->len, 0, t, 11);
    snprintf(what, sizeof(what), "an edit with a tag-%d record whose 10-byte varint64 has surplus high bits", tg);
    agree(X, v.data, v.len, -1, what);
    t[1] = 0x85; t[2] = 0x00;   /* value 5 in two bytes */
    bsplice(&v, B, B->len, 0, t, 3);
    snprintf(what, sizeof(what), "an edit with a tag-%d record holding 5 in a padded 2-byte varint64", tg);
    agree(X, v.data, v.len, 1, what);
    memset(t + 1, 0x80, 9);     /* continuation bytes running into the end */
    bsplice(&v, B, B->len, 0, t, 10);
    snprintf(what, sizeof(what), "an edit ending inside a tag-%d varint64", tg);
    agree(X, v.data, v.len, 0, what);
    /* tag itself over-long / padded */
    t[0] = 0x82; t[1] = 0x00; t[2] = 0x07;
    bsplice(&v, B, B->len, 0, t, 3);
    agree(X, v.data, v.len, 1, "an edit whose log-number tag is encoded in 2 bytes");
    memset(t, 0x80, 5); t[0] = 0x82; t[5] = 0x00; t[6] = 0x07;
    bsplice(&v, B, B->len, 0, t, 7);
    agree(X, v.data, v.len, 0, "an edit with an over-long (6-byte) tag varint32");
  }

  /* (6) internal keys shorter than 8 bytes; length prefixes pointing past the end */
  {
    static const int kl[] = {0, 1, 7, 8};
    size_t a, b;
    for (a = 0; a < 4; a++) {
      rc_buf_t t;
      rc_buf_init(&t);
      rc_buf_push(&t, 5); rc_buf_push(&t, (uint8_t)vr_uniform(r, NLEVELS)); put_lp(&t, key8, (size_t)kl[a]);
      bsplice(&v, B, B->len, 0, t.data, t.len);
      snprintf(what, sizeof(what), "an edit with a compact pointer whose internal key is %d bytes long", kl[a]);
      agree(X, v.data, v.len, kl[a] >= 8, what);
      for (b = 0; b < 4; b++) {
        rc_buf_reset(&t);
        rc_buf_push(&t, 7); rc_buf_push(&t, (uint8_t)vr_uniform(r, NLEVELS)); put_v64(&t, 12); put_v64(&t, 3400);
        put_lp(&t, key8, (size_t)kl[a]); put_lp(&t, key8, (size_t)kl[b]);
        bsplice(&v, B, B->len, 0, t.data, t.len);
        snprintf(what, sizeof(what), "an edit with a new file whose smallest/largest keys are %d/%d bytes long", kl[a], kl[b]);
        agree(X, v.data, v.len, kl[a] >= 8 && kl[b] >= 8, what);
      }
      rc_buf_free(&t);
    }
    {
      static const uint32_t lens[] = {9, 200, 0x7fffffffu, 0xffffffffu};
      for (a = 0; a < 4; a++) {
        rc_buf_t t;
        rc_buf_init(&t);
        rc_buf_push(&t, (uint8_t)(a & 1 ? 1 : 5));
        if (!(a & 1)) rc_buf_push(&t, 2);
        put_v32(&t, lens[a]); rc_buf_append(&t, key8, 8);
        bsplice(&v, B, B->len, 0, t.data, t.len);
        snprintf(what, sizeof(what), "an edit whose last length prefix (%u) exceeds the 8 remaining bytes", lens[a]);
        agree(X, v.data, v.len, 0, what);
        rc_buf_free(&t);
      }
    }
  }

  /* (7) random single-byte corruptions of small edits: agreement only */
  if (B->len > 0 && B->len <= 400) {
    for (i = 0; i < 24; i++) {
      size_t at = (size_t)(vr_next(r) % B->len);
      uint8_t nb = (uint8_t)vr_next(r);
      bsplice(&v, B, at, 1, &nb, 1);
      /* comparator bytes may become NUL: the reference keeps names as C strings - skip those */
      if (X->g->L.has_cmp && at < 2 + X->g->L.cmplen + 1) continue;
      snprintf(what, sizeof(what), "an edit with byte %zu changed to 0x%02x", at, nb);
      agree(X, v.data, v.len, -1, what);
    }
  }
  rc_buf_free(&v);
  free(isb);
}

static void flush_edit_evidence(void) {
  int f, l, k;
  for (f = 0; f < VF_N; f++) for (l = 1; l <= 10; l++) if (vf_seen[f][l]) vh_distinct("c17_value", "%s|varint%d", vf_name[f], l);
  for (k = 0; k < 8; k++) if (keylen_seen[k]) vh_distinct("c17_keyclass", "k%d", k);
  for (k = 0; k < 3; k++) for (l = 0; l < NLEVELS; l++) if (level_seen[k][l]) vh_distinct("c17_level", "tag%d|L%d", 5 + k, l);
}

static void run_edit_case(int caseidx) {
  vrng_t r;
  gedit_t g;
  ectx_t X;
  ldb_edit_t E, E2;
  ldb_buffer_t b1, b2;
  ldb_slice_t src;
  ledit_t lr;
  enc_t R;
  rc_edit_t rc;
  char d[900], err[200];
  int ok, sorted_order = 1, bytes_equal;
  size_t nfields;

  g_case = caseidx;
  vr_seed(&r, g_seed * 1000003ULL + (uint64_t)caseidx * 7919ULL + 17);
  vh_set_context("fmtmon_edit mode=edit seed=%llu case=%d", (unsigned long long)g_seed, caseidx);
  gen_edit(&r, &g, caseidx);
  ev_in_case = 0;
  memset(&X, 0, sizeof(X));
  X.g = &g;

  /* the real encoder */
  build_real(&r, &E, &g);
  if (!from_real(&lr, &E, err, sizeof(err))) ev(&X, "export-import-fields-differ", "structure built by the ldb_edit_* setters: %s", err);
  else if (!ledit_equal(&g.L, &lr, 0, d, sizeof(d)))
    ev(&X, "export-import-fields-differ", "structure built by the ldb_edit_* setters differs from what was set (set vs held): %s", d);
  ledit_free(&lr);
  ldb_buffer_init(&b1);
  ldb_buffer_init(&b2);
  ldb_edit_export(&b1, &E);

  /* (a) real import + re-export */
  ldb_edit_init(&E2);
  src = ldb_slice(b1.data, b1.size);
  ok = ldb_edit_import(&E2, &src);
  if (!ok) {
    ev(&X, "import-rejects-valid", "ldb_edit_import rejects the bytes ldb_edit_export produced (%zu bytes: %s)", b1.size, vh_hex(b1.data, b1.size));
  } else {
    if (!from_real(&lr, &E2, err, sizeof(err))) ev(&X, "export-import-fields-differ", "after import(export(e)): %s", err);
    else {
      sorted_order = ldel_sorted(&lr);
      if (!ledit_equal(&g.L, &lr, 1, d, sizeof(d)))
        ev(&X, "export-import-fields-differ", "import(export(e)) != e (set vs imported): %s", d);
    }
    ledit_free(&lr);
    ldb_edit_export(&b2, &E2);
    if (!bytes_eq(b1.data, b1.size, b2.data, b2.size))
      ev(&X, "reexport-bytes-differ", "export(import(export(e))) differs from export(e): %zu vs %zu bytes; first: %s second: %s",
         b1.size, b2.size, vh_hex(b1.data, b1.size), vh_hex(b2.data, b2.size));
  }

  /* (b) the independent decoder reads the same fields from the real bytes */
  if (rc_edit_decode(b1.data, b1.size, &rc) != 0) {
    ev(&X, "reference-decoder-fields-differ", "the reference decoder rejects the bytes ldb_edit_export produced (%zu bytes: %s)", b1.size,
       vh_hex(b1.data, b1.size));
  } else {
    from_rc(&lr, &rc);
    if (!ldel_sorted(&lr)) sorted_order = 0;
    if (lr.ndel != g.L.ndel)
      ev(&X, "reference-decoder-fields-differ", "the exported bytes hold %zu deleted-file records for a set of %zu", lr.ndel, g.L.ndel);
    if (!ledit_equal(&g.L, &lr, 1, d, sizeof(d)))
      ev(&X, "reference-decoder-fields-differ", "reference decoder reads other fields from the exported bytes (set vs decoded): %s; %zu bytes: %s",
         d, b1.size, vh_hex(b1.data, b1.size));
    ledit_free(&lr);
    rc_edit_free(&rc);
  }

  /* (c) independent encoding of the same logical edit */
  enc_init(&R);
  ref_encode(&g.L, &R);
  bytes_equal = bytes_eq(b1.data, b1.size, R.b.data, R.b.len);
  if (!bytes_equal && sorted_order) {
    size_t k = 0;
    while (k < b1.size && k < R.b.len && b1.data[k] == R.b.data[k]) k++;
    ev(&X, "export-bytes-differ-from-reference", "ldb_edit_export differs from the standard layout at byte %zu (real %zu bytes, reference %zu bytes); real: %s reference: %s",
       k, b1.size, R.b.len, vh_hex(b1.data + (k > 20 ? k - 20 : 0), b1.size - (k > 20 ? k - 20 : 0)),
       vh_hex(R.b.data + (k > 20 ? k - 20 : 0), R.b.len - (k > 20 ? k - 20 : 0)));
  }
  if (!sorted_order) vh_count("c17_deleted_order_not_sorted", 1);
  src = ldb_slice(R.b.data, R.b.len);
  ok = ldb_edit_import(&E2, &src);
  if (!ok) {
    ev(&X, "reference-encoding-rejected", "ldb_edit_import rejects the standard-layout encoding of the edit (%zu bytes: %s)", R.b.len,
       vh_hex(R.b.data, R.b.len));
  } else {
    if (!from_real(&lr, &E2, err, sizeof(err))) ev(&X, "reference-encoding-fields-differ", "%s", err);
    else if (!ledit_equal(&g.L, &lr, 1, d, sizeof(d)))
      ev(&X, "reference-encoding-fields-differ", "importing the standard-layout encoding yields other fields (set vs imported): %s", d);
    ledit_free(&lr);
  }
  /* the same records in another order are the same edit for a decoder (vectors follow record order) */
  if (R.nu >= 2 && R.nu <= 2000) {
    rc_buf_t p;
    size_t *perm = malloc(R.nu * sizeof(size_t)), i;
    rc_buf_init(&p);
    for (i = 0; i < R.nu; i++) perm[i] = i;
    for (i = R.nu - 1; i > 0; i--) { size_t j = (size_t)(vr_next(&r) % (i + 1)), t = perm[i]; perm[i] = perm[j]; perm[j] = t; }
    for (i = 0; i < R.nu; i++) rc_buf_append(&p, R.b.data + R.uoff[perm[i]], R.uoff[perm[i] + 1] - R.uoff[perm[i]]);
    agree(&X, p.data, p.len, 1, "the standard-layout records in shuffled order");
    rc_buf_free(&p);
    free(perm);
  }

  /* (d) malformed variants */
  malformed_variants(&r, &X, &R);

  /* evidence */
  nfields = (size_t)__builtin_popcount((unsigned)g.mask);
  vh_count("c17_edits", 1);
  vh_count("c17_fields_exercised", nfields);
  vh_count("c17_files_in_edits", g.L.nnf + g.L.ndel);
  vh_count("c17_compact_pointers_in_edits", g.L.ncp);
  vh_count("c17_edit_bytes", b1.size);
  vh_count("c17_malformed_variants", X.malformed);
  vh_count("c17_valid_variants", X.valid_variants);
  vh_count("c17_short_ikey_rejected_reference_lenient", X.lenient_short_ikey);
  if (bytes_equal) vh_count("c17_export_equals_reference_bytes", 1);
  vh_distinct("c17_shape", "%02x|s%d", g.mask, g.sc);
  if (caseidx % 997 == 0 || (g.sc == 3 && caseidx % 5 == 0 && (g.mask & 0xc0) == 0xc0 && caseidx < 20000))
    vh_sample("C17", "edit case %d seed %llu: fields=0x%02x comparator='%s' log=%llu prev=%llu next=%llu seq=%llu compact_pointers=%zu "
              "deleted=%zu (raw %zu) new=%zu encoded=%zu bytes export==reference:%d malformed_variants=%llu valid_variants=%llu",
              caseidx, (unsigned long long)g_seed, g.mask, g.L.has_cmp ? vh_esc(g.L.cmp, g.L.cmplen) : "-",
              (unsigned long long)g.L.log, (unsigned long long)g.L.prev, (unsigned long long)g.L.next, (unsigned long long)g.L.seq,
              g.L.ncp, g.L.ndel, g.ndel_raw, g.L.nnf, b1.size, bytes_equal, (unsigned long long)X.malformed,
              (unsigned long long)X.valid_variants);

  enc_free(&R);
  ldb_edit_clear(&E2);
  ldb_edit_clear(&E);
  ldb_buffer_clear(&b1);
  ldb_buffer_clear(&b2);
  gedit_free(&g);
}

/* ====================================================================== */
/* varint mode                                                             */

static uint64_t vi_reported = 0;

static void __attribute__((noinline, format(printf, 2, 3))) vv(const char *key, const char *fmt, ...) {
  char msg[1200];
  va_list ap;
  if (vi_reported++ >= 20) return;       /* one broken codec would otherwise print 2^32 lines */
  va_start(ap, fmt);
  vsnprintf(msg, sizeof(msg), fmt, ap);
  va_end(ap);
  vh_violation("C17", key, "%s | varint case %d seed %llu", msg, g_case, (unsigned long long)g_seed);
}

/* every value of one 2^16 chunk: coding.h functions (the real code, compiled here from
 * the repository's header exactly as every lcdb source file compiles it) */
static void varint32_chunk(uint32_t chunk) {
  uint8_t a[16], b[16], c[16];
  uint64_t v, v0 = (uint64_t)chunk << 16;
  memset(a, 0xee, sizeof(a)); memset(b, 0xdd, sizeof(b)); memset(c, 0xcc, sizeof(c));
  for (v = v0; v < v0 + 65536; v++) {
    uint32_t x = (uint32_t)v, z = ~x, z2 = ~x;
    uint64_t z64 = ~v;
    size_t n = (size_t)(ldb_varint32_write(a, x) - a), left;
    int m = rc_put_varint32(b, x), k;
    const uint8_t *p;
    if (n != (size_t)m || memcmp(a, b, n) != 0 || ldb_varint32_size(x) != (size_t)m)
      vv("varint32-encoding-differs", "varint32 %u: ldb_varint32_write gives %zu bytes %s (ldb_varint32_size %zu), reference %d bytes %s",
         x, n, vh_hex(a, n), ldb_varint32_size(x), m, vh_hex(b, (size_t)m));
    /* real decoder on the reference bytes, followed by unrelated bytes */
    p = b; left = sizeof(b);
    if (!ldb_varint32_read(&z, &p, &left) || z != x || p != b + m || left != sizeof(b) - (size_t)m)
      vv("varint-decode-wrong", "ldb_varint32_read of %s (= %u): value %u, consumed %ld bytes (expected %d)", vh_hex(b, (size_t)m), x, z,
         (long)(p - b), m);
    /* truncated by one byte */
    p = b; left = (size_t)m - 1;
    if (ldb_varint32_read(&z2, &p, &left))
      vv("varint-truncated-accepted", "ldb_varint32_read accepts the first %d of the %d bytes of varint32 %u (%s) as %u", m - 1, m, x,
         vh_hex(b, (size_t)m), z2);
    /* reference decoder on the real bytes */
    k = rc_get_varint32(a, a + n, &z2);
    if (k != (int)n || z2 != x)
      vv("varint32-encoding-differs", "reference decoder reads %u (%d bytes) from ldb_varint32_write(%u) = %s", z2, k, x, vh_hex(a, n));
    /* the 64-bit codec must agree on 32-bit values */
    n = (size_t)(ldb_varint64_write(c, v) - c);
    if (n != (size_t)m || memcmp(c, b, n) != 0 || ldb_varint64_size(v) != (size_t)m)
      vv("varint32-encoding-differs", "varint64 %llu: ldb_varint64_write gives %zu bytes %s, reference %d bytes %s", (unsigned long long)v, n,
         vh_hex(c, n), m, vh_hex(b, (size_t)m));
    p = b; left = sizeof(b);
    if (!ldb_varint64_read(&z64, &p, &left) || z64 != v || p != b + m)
      vv("varint-decode-wrong", "ldb_varint64_read of %s (= %llu): value %llu, consumed %ld bytes", vh_hex(b, (size_t)m), (unsigned long long)v,
         (unsigned long long)z64, (long)(p - b));
  }
}

/* library-compiled users of the codec (buffer.c / slice.c inside liblcdb.a) */
static void lib_varint32(uint32_t x, ldb_buffer_t *lb, uint8_t *scratch /* >= 80 bytes */) {
  uint8_t ref[8];
  int m = rc_put_varint32(ref, x), t;
  size_t payload = x < 64 ? x : 64, i;
  ldb_slice_t in, out;
  ldb_buffer_t ob;
  ldb_buffer_reset(lb);
  ldb_buffer_varint32(lb, x);
  if (!bytes_eq(lb->data, lb->size, ref, (size_t)m))
    vv("varint32-encoding-differs", "ldb_buffer_varint32(%u) appends %s, reference %s", x, vh_hex(lb->data, lb->size), vh_hex(ref, (size_t)m));
  ldb_buffer_reset(lb);
  ldb_buffer_varint64(lb, x);
  if (!bytes_eq(lb->data, lb->size, ref, (size_t)m))
    vv("varint32-encoding-differs", "ldb_buffer_varint64(%u) appends %s, reference %s", x, vh_hex(lb->data, lb->size), vh_hex(ref, (size_t)m));
  /* a length prefix x followed by min(x,64) bytes: readable exactly when x <= 64 */
  memcpy(scratch, ref, (size_t)m);
  for (i = 0; i < payload; i++) scratch[m + i] = (uint8_t)(x + i);
  in = ldb_slice(scratch, (size_t)m + payload);
  out = ldb_slice(NULL, 0);
  t = ldb_slice_slurp(&out, &in);
  if (t != (x <= 64))
    vv(t ? "varint-truncated-accepted" : "varint-decode-wrong", "ldb_slice_slurp of a length prefix %u followed by %zu bytes returns %d", x, payload, t);
  else if (t && (out.size != x || out.data != scratch + m || in.size != 0))
    vv("varint-decode-wrong", "ldb_slice_slurp of a %u-byte prefixed slice: size %zu, data offset %ld, %zu bytes left", x, out.size,
       (long)(out.data - scratch), in.size);
  in = ldb_slice(scratch, (size_t)m + payload);
  ldb_buffer_init(&ob);
  t = ldb_buffer_slurp(&ob, &in);
  if (t != (x <= 64))
    vv(t ? "varint-truncated-accepted" : "varint-decode-wrong", "ldb_buffer_slurp of a length prefix %u followed by %zu bytes returns %d", x, payload, t);
  else if (t && !bytes_eq(ob.data, ob.size, scratch + m, payload))
    vv("varint-decode-wrong", "ldb_buffer_slurp of a %u-byte prefixed slice returns other bytes", x);
  ldb_buffer_clear(&ob);
}

static void check_varint64(uint64_t v) {
  uint8_t a[24], b[24];
  uint64_t z = ~v;
  size_t n = (size_t)(ldb_varint64_write(a, v) - a), left, cut;
  int m = rc_put_varint64(b, v), k;
  const uint8_t *p;
  memset(b + m, 0xff, sizeof(b) - (size_t)m);
  if (n != (size_t)m || memcmp(a, b, n) != 0 || ldb_varint64_size(v) != (size_t)m)
    vv("varint64-encoding-differs", "varint64 %llu: ldb_varint64_write gives %zu bytes %s (size fn %zu), reference %d bytes %s",
       (unsigned long long)v, n, vh_hex(a, n), ldb_varint64_size(v), m, vh_hex(b, (size_t)m));
  p = b; left = sizeof(b);
  if (!ldb_varint64_read(&z, &p, &left) || z != v || p != b + m || left != sizeof(b) - (size_t)m)
    vv("varint-decode-wrong", "ldb_varint64_read of %s (= %llu): value %llu, consumed %ld bytes (expected %d)", vh_hex(b, (size_t)m),
       (unsigned long long)v, (unsigned long long)z, (long)(p - b), m);
  for (cut = 0; cut < (size_t)m; cut++) {
    p = b; left = cut;
    if (ldb_varint64_read(&z, &p, &left))
      vv("varint-truncated-accepted", "ldb_varint64_read accepts the first %zu of the %d bytes of varint64 %llu (%s)", cut, m,
         (unsigned long long)v, vh_hex(b, (size_t)m));
    if (rc_get_varint64(b, b + cut, &z) != -1) vh_fatal("reference varint64 decoder accepts a truncated encoding");
  }
  k = rc_get_varint64(a, a + n, &z);
  if (k != (int)n || z != v)
    vv("varint64-encoding-differs", "reference decoder reads %llu (%d bytes) from ldb_varint64_write(%llu) = %s", (unsigned long long)z, k,
       (unsigned long long)v, vh_hex(a, n));
  if (v <= 0xffffffffu) {
    uint32_t z32 = 0;
    p = b; left = (size_t)m;
    if (!ldb_varint32_read(&z32, &p, &left) || z32 != (uint32_t)v || left != 0)
      vv("varint-decode-wrong", "ldb_varint32_read of varint64-encoded %llu gives %u", (unsigned long long)v, z32);
  }
}

/* arbitrary byte strings: real and reference decoders must agree on acceptance, value, length */
static void decoder_agreement(vrng_t *r) {
  uint8_t s[16];
  size_t n = 1 + vr_uniform(r, 12), i, left;
  const uint8_t *p;
  uint32_t a32 = 0, b32 = 0;
  uint64_t a64 = 0, b64 = 0;
  int ra, rb;
  uint32_t style = vr_uniform(r, 3);
  for (i = 0; i < n; i++) {
    uint8_t x = (uint8_t)vr_next(r);
    if (style == 0) x |= 0x80;                          /* long continuation runs */
    else if (style == 1 && i + 1 < n) x |= 0x80;        /* terminator in the last byte */
    s[i] = x;
  }
  p = s; left = n;
  ra = ldb_varint32_read(&a32, &p, &left);
  rb = rc_get_varint32(s, s + n, &b32);
  if (ra != (rb > 0) || (ra && (a32 != b32 || (int)(p - s) != rb)))
    vv(ra ? "varint-overlong-accepted" : "varint-decode-wrong", "bytes %s as varint32: ldb_varint32_read -> %d value %u consumed %ld; reference -> %d value %u",
       vh_hex(s, n), ra, a32, (long)(p - s), rb, b32);
  p = s; left = n;
  ra = ldb_varint64_read(&a64, &p, &left);
  rb = rc_get_varint64(s, s + n, &b64);
  if (ra != (rb > 0) || (ra && (a64 != b64 || (int)(p - s) != rb)))
    vv(ra ? "varint-overlong-accepted" : "varint-decode-wrong", "bytes %s as varint64: ldb_varint64_read -> %d value %llu consumed %ld; reference -> %d value %llu",
       vh_hex(s, n), ra, (unsigned long long)a64, (long)(p - s), rb, (unsigned long long)b64);
}

static void check_fixed(vrng_t *r, ldb_buffer_t *lb) {
  uint64_t v = vr_uniform(r, 4) == 0 ? gen_u64(r, VF_LOG) : vr_next(r), z64 = 0;
  uint32_t w = (uint32_t)(v ^ (v >> 32)), z32 = 0;
  uint8_t a[8], b[8];
  const uint8_t *p;
  size_t left;
  ldb_fixed32_encode(a, w); rc_put_fixed32(b, w);
  if (memcmp(a, b, 4) != 0 || ldb_fixed32_write(a, w) != a + 4 || memcmp(a, b, 4) != 0 || ldb_fixed32_decode(b) != w || rc_get_fixed32(a) != w)
    vv("fixed-encoding-differs", "fixed32 %u: real %s reference %s decode %u", w, vh_hex(a, 4), vh_hex(b, 4), ldb_fixed32_decode(b));
  ldb_buffer_reset(lb); ldb_buffer_fixed32(lb, w);
  if (!bytes_eq(lb->data, lb->size, b, 4)) vv("fixed-encoding-differs", "ldb_buffer_fixed32(%u) appends %s", w, vh_hex(lb->data, lb->size));
  p = b; left = 4;
  if (!ldb_fixed32_read(&z32, &p, &left) || z32 != w || left != 0) vv("fixed-encoding-differs", "ldb_fixed32_read of %s gives %u", vh_hex(b, 4), z32);
  p = b; left = 3;
  if (ldb_fixed32_read(&z32, &p, &left)) vv("varint-truncated-accepted", "ldb_fixed32_read accepts 3 bytes");
  ldb_fixed64_encode(a, v); rc_put_fixed64(b, v);
  if (memcmp(a, b, 8) != 0 || ldb_fixed64_write(a, v) != a + 8 || memcmp(a, b, 8) != 0 || ldb_fixed64_decode(b) != v || rc_get_fixed64(a) != v)
    vv("fixed-encoding-differs", "fixed64 %llu: real %s reference %s", (unsigned long long)v, vh_hex(a, 8), vh_hex(b, 8));
  ldb_buffer_reset(lb); ldb_buffer_fixed64(lb, v);
  if (!bytes_eq(lb->data, lb->size, b, 8)) vv("fixed-encoding-differs", "ldb_buffer_fixed64(%llu) appends %s", (unsigned long long)v, vh_hex(lb->data, lb->size));
  p = b; left = 8;
  if (!ldb_fixed64_read(&z64, &p, &left) || z64 != v || left != 0) vv("fixed-encoding-differs", "ldb_fixed64_read of %s gives %llu", vh_hex(b, 8), (unsigned long long)z64);
  p = b; left = 7;
  if (ldb_fixed64_read(&z64, &p, &left)) vv("varint-truncated-accepted", "ldb_fixed64_read accepts 7 bytes");
}

static void check_lenprefixed(vrng_t *r, ldb_buffer_t *lb) {
  static const size_t special[] = {0, 1, 127, 128, 129, 16383, 16384, 16385};
  size_t n = vr_uniform(r, 3) == 0 ? special[vr_uniform(r, 8)] : vr_uniform(r, 8) == 0 ? vr_uniform(r, 70000) : vr_skewed(r, 12);
  uint8_t *pay = malloc(n + 1), pre[8];
  size_t i;
  int m = rc_put_varint32(pre, (uint32_t)n), t;
  ldb_slice_t s, in, out;
  ldb_buffer_t ob;
  for (i = 0; i < n; i++) pay[i] = (uint8_t)vr_next(r);
  s = ldb_slice(pay, n);
  ldb_buffer_reset(lb);
  ldb_buffer_push(lb, 0x5a);                /* something already in the destination */
  ldb_slice_export(lb, &s);
  if (lb->size != 1 + (size_t)m + n || memcmp(lb->data + 1, pre, (size_t)m) != 0 || (n && memcmp(lb->data + 1 + m, pay, n) != 0) ||
      ldb_slice_size(&s) != (size_t)m + n)
    vv("lenprefixed-encoding-differs", "ldb_slice_export of %zu bytes: %zu bytes appended, prefix %s (reference %s)", n, lb->size - 1,
       vh_hex(lb->data + 1, lb->size - 1 < 5 ? lb->size - 1 : 5), vh_hex(pre, (size_t)m));
  in = ldb_slice(lb->data + 1, lb->size - 1);
  out = ldb_slice(NULL, 0);
  t = ldb_slice_slurp(&out, &in);
  if (!t || !bytes_eq(out.data, out.size, pay, n) || in.size != 0)
    vv("varint-decode-wrong", "ldb_slice_slurp(ldb_slice_export(%zu bytes)) -> %d, %zu bytes, %zu left", n, t, out.size, in.size);
  if (lb->size >= 2) {
    in = ldb_slice(lb->data + 1, lb->size - 2);            /* one byte short */
    if (ldb_slice_slurp(&out, &in)) vv("varint-truncated-accepted", "ldb_slice_slurp accepts a %zu-byte slice cut by one byte", n);
  }
  ldb_buffer_reset(lb);
  ldb_buffer_export(lb, &s);
  if (lb->size != (size_t)m + n || memcmp(lb->data, pre, (size_t)m) != 0 || (n && memcmp(lb->data + m, pay, n) != 0))
    vv("lenprefixed-encoding-differs", "ldb_buffer_export of %zu bytes differs from varint32 length + bytes", n);
  ldb_buffer_init(&ob);
  in = ldb_slice(lb->data, lb->size);
  t = ldb_buffer_slurp(&ob, &in);
  if (!t || !bytes_eq(ob.data, ob.size, pay, n) || in.size != 0)
    vv("varint-decode-wrong", "ldb_buffer_slurp(ldb_buffer_export(%zu bytes)) -> %d, %zu bytes", n, t, ob.size);
  ldb_buffer_clear(&ob);
  free(pay);
}

static const uint32_t strat_chunks[] = {
  0 /* 2^7, 2^14 */, 1, 31, 32 /* 2^21 */, 33, 4095, 4096 /* 2^28 */, 4097, 16383, 16384 /* 2^30 */,
  32767, 32768 /* 2^31 */, 49151, 49152, 65534, 65535 /* 2^32-1 */
};
#define NSTRAT (sizeof(strat_chunks) / sizeof(strat_chunks[0]))

static void varint_statics(void) {
  /* over-long varint32: five continuation bytes; varint64: ten */
  uint8_t s[12];
  const uint8_t *p;
  size_t left;
  uint32_t z32; uint64_t z64;
  memset(s, 0x80, sizeof(s)); s[5] = 0x00; s[10] = 0x00;
  p = s; left = 6;
  if (ldb_varint32_read(&z32, &p, &left)) vv("varint-overlong-accepted", "ldb_varint32_read accepts a 6-byte varint");
  if (rc_get_varint32(s, s + 6, &z32) != -1) vh_fatal("reference accepts a 6-byte varint32");
  s[5] = 0x80;
  p = s; left = 11;
  if (ldb_varint64_read(&z64, &p, &left)) vv("varint-overlong-accepted", "ldb_varint64_read accepts an 11-byte varint");
  if (rc_get_varint64(s, s + 11, &z64) != -1) vh_fatal("reference accepts an 11-byte varint64");
  vh_count("c17_varint_overlong_checks", 2);
}

static void run_varint_case(int caseidx, int stratified) {
  vrng_t r;
  uint32_t chunk;
  ldb_buffer_t lb;
  uint8_t scratch[96];
  uint32_t i;
  uint64_t n64 = 0, nlib = 0;
  int k;
  g_case = caseidx;
  vr_seed(&r, g_seed * 1000003ULL + (uint64_t)caseidx * 7919ULL + 29);
  if (stratified) {
    chunk = (size_t)caseidx < NSTRAT ? strat_chunks[caseidx]
                                     : (uint32_t)(vh_hash64(&caseidx, sizeof(caseidx), g_seed) & 0xffff);
  } else {
    chunk = (uint32_t)caseidx & 0xffff;
  }
  vh_set_context("fmtmon_edit mode=%s seed=%llu case=%d chunk=%u", g_mode, (unsigned long long)g_seed, caseidx, chunk);
  varint32_chunk(chunk);

  ldb_buffer_init(&lb);
  for (i = 0; i < 65536; i += 61) { lib_varint32((chunk << 16) + i, &lb, scratch); nlib++; }
  lib_varint32((chunk << 16) + 65535, &lb, scratch); nlib++;
  for (i = 0; i <= 130; i++) { lib_varint32(i, &lb, scratch); nlib++; }

  /* varint64: every boundary + random values of random width */
  for (k = 1; k <= 9; k++) {
    uint64_t base = (uint64_t)1 << (7 * k);
    check_varint64(base - 1); check_varint64(base); check_varint64(base + 1);
    n64 += 3;
  }
  {
    static const uint64_t sp[] = {0, 1, 0xffffffffULL, 0x100000000ULL, 0x7fffffffffffffffULL, 0x8000000000000000ULL,
                                  0xfffffffffffffffeULL, 0xffffffffffffffffULL};
    for (k = 0; k < 8; k++) { check_varint64(sp[k]); n64++; }
  }
  for (i = 0; i < 256; i++) {
    uint64_t v = vr_next(&r);
    uint32_t sh = vr_uniform(&r, 64);
    check_varint64(i & 1 ? v : v >> sh);
    n64++;
  }
  for (i = 0; i < 256; i++) decoder_agreement(&r);
  for (i = 0; i < 32; i++) check_fixed(&r, &lb);
  for (i = 0; i < 8; i++) check_lenprefixed(&r, &lb);
  ldb_buffer_clear(&lb);

  vh_count("c17_varint32_values", 65536);
  vh_count("c17_varint32_chunks", 1);
  vh_count("c17_varint32_library_path_values", nlib);
  vh_count("c17_varint64_values", n64);
  vh_count("c17_varint_random_strings", 256);
  vh_count("c17_fixed_values", 64);
  vh_count("c17_lenprefixed_slices", 8);
  vh_distinct("c17_varint_chunk", "%u", chunk);
  if (caseidx % 4096 == 0)
    vh_sample("C17", "varint case %d: chunk %u = values [%llu, %llu], all 65536 checked against the reference codec (encode, decode, truncation), +%llu varint64",
              caseidx, chunk, (unsigned long long)chunk << 16, (((unsigned long long)chunk + 1) << 16) - 1, (unsigned long long)n64);
}

/* ====================================================================== */
/* replay mode                                                             */

typedef struct msnap_s {
  int valid;
  rc_manifest_t m;
  uint8_t *cp[NLEVELS]; size_t cplen[NLEVELS]; int has_cp[NLEVELS];
  uint64_t manifest_number;
  uint64_t ctr[8];
  size_t manifest_bytes;
} msnap_t;

typedef struct rp_s {
  vrng_t r;
  dbh_t h;
  model_t m;
  int caseidx, step, steps;
  int dirty;                 /* user writes since the last completed explicit flush */
  uint8_t *vbuf;
  uint64_t checks, reopens, flushes, compactions, edits_replayed, max_files;
  int max_levels;
  int longkeys;              /* case class "long MANIFEST": 1.5-3 KB keys, so a handful of edits cross 32 KiB block boundaries */
  uint64_t reuse_reopens_longkeys, max_manifest_bytes;
  uint64_t reuse_number; size_t reuse_size; int reuse_counted;   /* MANIFEST kept by the last reopen, its size then */
} rp_t;

static void msnap_free(msnap_t *s) {
  int l;
  if (s->valid) rc_manifest_free(&s->m);
  for (l = 0; l < NLEVELS; l++) free(s->cp[l]);
  memset(s, 0, sizeof(*s));
}

static void rv(rp_t *R, const char *key, const char *why, const char *fmt, ...) __attribute__((format(printf, 4, 5)));
static int rv_in_case = 0;

static void rv(rp_t *R, const char *key, const char *why, const char *fmt, ...) {
  char msg[3500];
  va_list ap;
  if (rv_in_case++ >= 8) { vh_count("c17_violations_not_printed", 1); return; }
  va_start(ap, fmt);
  vsnprintf(msg, sizeof(msg), fmt, ap);
  va_end(ap);
  vh_violation("C17", key, "%s | at %s, replay case %d seed %llu step %d/%d cfg=%s", msg, why, R->caseidx, (unsigned long long)g_seed,
               R->step, R->steps, cfg_id(&R->h.cfg));
}

static uint8_t *read_whole(const char *path, size_t *len) {
  int fd = open(path, O_RDONLY);
  struct stat st;
  uint8_t *buf;
  size_t got = 0;
  ssize_t k;
  if (fd < 0) return NULL;
  if (fstat(fd, &st) != 0) { close(fd); return NULL; }
  buf = malloc((size_t)st.st_size + 1);
  while (got < (size_t)st.st_size && (k = read(fd, buf + got, (size_t)st.st_size - got)) > 0) got += (size_t)k;
  close(fd);
  *len = got;
  return buf;
}

/* 'escaped user key' @ seq : type  -- the rendering lcdb uses in leveldb.sstables */
static size_t render_ikey(char *out, const uint8_t *k, size_t n) {
  static const char *nib = "0123456789abcdef";
  size_t o = 0, i;
  uint64_t tag;
  if (n < 8) {
    o += (size_t)sprintf(out + o, "(bad)");
    for (i = 0; i < n; i++) o += (size_t)sprintf(out + o, "\\x%02x", k[i]);
    return o;
  }
  tag = rc_get_fixed64(k + n - 8);
  out[o++] = '\'';
  for (i = 0; i + 8 < n; i++) {
    int ch = k[i];
    if (ch >= ' ' && ch <= '~') out[o++] = (char)ch;
    else { out[o++] = '\\'; out[o++] = 'x'; out[o++] = nib[ch >> 4]; out[o++] = nib[ch & 15]; }
  }
  o += (size_t)sprintf(out + o, "' @ %llu : %u", (unsigned long long)(tag >> 8), (unsigned)(tag & 0xff));
  return o;
}

static char *render_bounds(const rc_fileent_t *f) {
  char *s = malloc(4 * (f->slen + f->llen) + 160);
  size_t o = render_ikey(s, f->smallest, f->slen);
  o += (size_t)sprintf(s + o, " .. ");
  o += render_ikey(s + o, f->largest, f->llen);
  s[o] = 0;
  return s;
}

static int lfile_cmp(const void *a, const void *b) {
  const lfile_t *x = a, *y = b;
  if (x->level != y->level) return x->level < y->level ? -1 : 1;
  if (x->number != y->number) return x->number < y->number ? -1 : 1;
  return 0;
}

/* the compact pointers a MANIFEST leaves in effect (last record per level wins);
 * rc_manifest_replay does not keep them, the records are decoded by refcodec */
static int replay_compact_pointers(const uint8_t *file, size_t n, msnap_t *s) {
  rc_logresult_t lr;
  size_t i, j;
  int ok = 1;
  rc_log_read(file, n, &lr);
  for (i = 0; i < lr.nrecs && ok; i++) {
    rc_edit_t e;
    if (rc_edit_decode(lr.recs[i].data, lr.recs[i].len, &e) != 0) { ok = 0; break; }
    for (j = 0; j < e.ncompact; j++) {
      int l = e.compact_pointers[j].level;
      free(s->cp[l]);
      s->cplen[l] = e.compact_pointers[j].klen;
      s->cp[l] = malloc(s->cplen[l] + 1);
      memcpy(s->cp[l], e.compact_pointers[j].key, s->cplen[l]);
      s->has_cp[l] = 1;
    }
    rc_edit_free(&e);
  }
  rc_logresult_free(&lr);
  return ok;
}

/* read CURRENT + the MANIFEST it names from disk and replay it; db may be closed (ctr == NULL) */
static int load_manifest(rp_t *R, const char *why, const uint64_t *ctr, msnap_t *s) {
  char path[800], expect[64];
  uint8_t *cur, *mf;
  size_t curlen = 0, mflen = 0;
  unsigned long long num = 0;
  int nch = 0;
  memset(s, 0, sizeof(*s));
  snprintf(path, sizeof(path), "%s/CURRENT", R->h.dir);
  cur = read_whole(path, &curlen);
  if (cur == NULL) { rv(R, "current-content-wrong", why, "CURRENT cannot be read: %s", strerror(errno)); return 0; }
  cur[curlen] = 0;
  if (curlen < 10 || strlen((char *)cur) != curlen || sscanf((char *)cur, "MANIFEST-%llu%n", &num, &nch) != 1 ||
      (size_t)nch + 1 != curlen || cur[curlen - 1] != '\n') {
    rv(R, "current-content-wrong", why, "CURRENT holds '%s' (%zu bytes), not MANIFEST-<number>\\n", vh_esc(cur, curlen), curlen);
    free(cur);
    return 0;
  }
  snprintf(expect, sizeof(expect), "MANIFEST-%06llu\n", ctr ? (unsigned long long)ctr[4] : num);
  if (strcmp(expect, (char *)cur) != 0) {
    rv(R, "current-content-wrong", why, "CURRENT holds '%s' but the version set writes to manifest number %llu (expected '%s')",
       vh_esc(cur, curlen), ctr ? (unsigned long long)ctr[4] : num, vh_esc(expect, strlen(expect)));
    free(cur);
    return 0;
  }
  cur[curlen - 1] = 0;
  snprintf(path, sizeof(path), "%s/%s", R->h.dir, (char *)cur);
  free(cur);
  mf = read_whole(path, &mflen);
  if (mf == NULL) { rv(R, "manifest-replay-error", why, "CURRENT names %s which cannot be read: %s", path, strerror(errno)); return 0; }
  s->manifest_number = num;
  s->manifest_bytes = mflen;
  if (mflen > R->max_manifest_bytes) R->max_manifest_bytes = mflen;
  if (R->reuse_number != 0 && s->manifest_number == R->reuse_number && !R->reuse_counted && mflen / 32768 > R->reuse_size / 32768) {
    R->reuse_counted = 1;               /* an appended-to MANIFEST has crossed a block boundary and is replayed below */
    R->reuse_reopens_longkeys++;
    vh_count("c17_appended_manifests_crossing_block_boundary_replayed", 1);
  }
  if (rc_manifest_replay(mf, mflen, &s->m) != 0) {
    rv(R, "manifest-replay-error", why, "reference replay of %s (%zu bytes) fails after %zu edits: %s", path, mflen, s->m.nedits, s->m.err);
    rc_manifest_free(&s->m);
    free(mf);
    return 0;
  }
  s->valid = 1;
  if (s->m.ndrops != 0 || s->m.consumed != mflen)
    rv(R, "manifest-replay-error", why, "%s: %zu dropped regions, %llu of %zu bytes are complete records (quiescent database: all expected)",
       path, s->m.ndrops, (unsigned long long)s->m.consumed, mflen);
  if (!replay_compact_pointers(mf, mflen, s)) rv(R, "manifest-replay-error", why, "%s: a record failed to decode on the second pass", path);
  free(mf);
  if (ctr) memcpy(s->ctr, ctr, sizeof(s->ctr));
  vh_count("c17_manifests_replayed", 1);
  vh_count("c17_edits_replayed", s->m.nedits);
  vh_count("c17_manifest_bytes", mflen);
  R->edits_replayed += s->m.nedits;
  return 1;
}

static const char *nedits_class(size_t n) {
  return n <= 1 ? "1" : n <= 3 ? "2-3" : n <= 7 ? "4-7" : n <= 15 ? "8-15" : n <= 31 ? "16-31" : n <= 63 ? "32-63" : "64+";
}

/* the full quiescent-point comparison; keeps the snapshot in *keep when asked */
static int rp_check(rp_t *R, const char *why, msnap_t *keep) {
  uint64_t c[8];
  msnap_t s;
  layout_t l;
  size_t i;
  uint64_t maxnum = 0;
  int levels = 0, lv;
  const char *cname = m_comparator(R->h.cfg.cmp_kind)->name;

  ldb_verif_wait_idle(R->h.db);
  ldb_verif_counters(R->h.db, c);
  if (c[6] != 0) vh_fatal("replay case %d: background error %llu (%s) at %s", R->caseidx, (unsigned long long)c[6], R->h.log.last_error, why);
  if (!load_manifest(R, why, c, &s)) { msnap_free(&s); return 0; }
  R->checks++;

  /* file set vs the layout the engine reports */
  if (!dbh_layout(R->h.db, &l)) vh_fatal("leveldb.sstables not served");
  if (l.n > 1) qsort(l.files, l.n, sizeof(lfile_t), lfile_cmp);
  if (l.n != s.m.nfiles) {
    rv(R, "manifest-fileset-differs-from-reported-layout", why, "MANIFEST-%06llu replays to %zu live files, the database reports %zu (%s):\n%s",
       (unsigned long long)s.manifest_number, s.m.nfiles, l.n, layout_sig(&l), l.raw);
  } else {
    for (i = 0; i < l.n; i++) {
      const rc_fileent_t *f = &s.m.files[i];
      const lfile_t *g = &l.files[i];
      char *b;
      if (f->level != g->level || f->number != g->number || f->size != g->size) {
        rv(R, "manifest-fileset-differs-from-reported-layout", why, "entry %zu: MANIFEST has level %d #%llu size %llu, the database reports level %d #%llu size %llu",
           i, f->level, (unsigned long long)f->number, (unsigned long long)f->size, g->level, (unsigned long long)g->number,
           (unsigned long long)g->size);
        break;
      }
      b = render_bounds(f);
      if (strcmp(b, g->bounds) != 0) {
        rv(R, "manifest-fileset-differs-from-reported-layout", why, "table #%llu (level %d): MANIFEST bounds [%.700s] but the database reports [%.700s]",
           (unsigned long long)f->number, f->level, b, g->bounds);
        free(b);
        break;
      }
      free(b);
    }
  }
  for (i = 0; i < s.m.nfiles; i++) if (s.m.files[i].number > maxnum) maxnum = s.m.files[i].number;
  for (lv = 0; lv < NLEVELS; lv++) levels += l.per_level[lv] > 0;

  /* counters */
  if (!s.m.has_log_number || !s.m.has_next_file || !s.m.has_last_sequence)
    rv(R, "manifest-counter-mismatch", why, "MANIFEST-%06llu lacks a counter: log number %s, next file %s, last sequence %s",
       (unsigned long long)s.manifest_number, s.m.has_log_number ? "present" : "MISSING", s.m.has_next_file ? "present" : "MISSING",
       s.m.has_last_sequence ? "present" : "MISSING");
  else {
    if (s.m.log_number != c[0] || s.m.prev_log_number != c[1])
      rv(R, "manifest-counter-mismatch", why, "MANIFEST log/prev-log numbers %llu/%llu, version set %llu/%llu", (unsigned long long)s.m.log_number,
         (unsigned long long)s.m.prev_log_number, (unsigned long long)c[0], (unsigned long long)c[1]);
    if (s.m.next_file > c[2] || s.m.next_file <= maxnum || s.m.next_file <= s.m.log_number || s.m.next_file <= s.manifest_number)
      rv(R, "manifest-counter-mismatch", why, "MANIFEST next-file %llu must be <= in-memory next file %llu and above every recorded number "
         "(largest live table #%llu, log #%llu, manifest #%llu)", (unsigned long long)s.m.next_file, (unsigned long long)c[2],
         (unsigned long long)maxnum, (unsigned long long)s.m.log_number, (unsigned long long)s.manifest_number);
    if (s.m.last_sequence > c[3] || (!R->dirty && s.m.last_sequence != c[3]))
      rv(R, "manifest-counter-mismatch", why, "MANIFEST last-sequence %llu vs in-memory %llu (%s)", (unsigned long long)s.m.last_sequence,
         (unsigned long long)c[3], R->dirty ? "must not be ahead" : "no write since the last flush: must be equal");
    if (!R->dirty) vh_count("c17_last_sequence_exact_checks", 1);
  }
  if (strcmp(s.m.comparator, cname) != 0)
    rv(R, "manifest-counter-mismatch", why, "MANIFEST comparator '%s', configured '%s'", vh_esc(s.m.comparator, strlen(s.m.comparator)), cname);

  vh_distinct("c17_manifest", "%s|e%s", layout_sig(&l), nedits_class(s.m.nedits));
  if (levels >= 2) vh_count("c17_multilevel_manifest_checks", 1);
  if (l.n > R->max_files) R->max_files = l.n;
  if (levels > R->max_levels) R->max_levels = levels;
  layout_free(&l);
  if (keep) *keep = s; else msnap_free(&s);
  return 1;
}

static int fileent_same(const rc_fileent_t *a, const rc_fileent_t *b) {
  return a->level == b->level && a->number == b->number && a->size == b->size && bytes_eq(a->smallest, a->slen, b->smallest, b->slen) &&
         bytes_eq(a->largest, a->llen, b->largest, b->llen);
}

/* 1 = same file set and compact pointers; 0 = file sets differ, -1 = compact pointers differ (d = first difference) */
static int msnap_same(const msnap_t *a, const msnap_t *b, char *d, size_t dn) {
  size_t i;
  int l;
  if (a->m.nfiles != b->m.nfiles) { snprintf(d, dn, "%zu vs %zu live files", a->m.nfiles, b->m.nfiles); return 0; }
  for (i = 0; i < a->m.nfiles; i++) {
    if (!fileent_same(&a->m.files[i], &b->m.files[i])) {
      char *x = render_bounds(&a->m.files[i]), *y = render_bounds(&b->m.files[i]);
      snprintf(d, dn, "entry %zu: level %d #%llu size %llu [%.300s] vs level %d #%llu size %llu [%.300s]", i, a->m.files[i].level,
               (unsigned long long)a->m.files[i].number, (unsigned long long)a->m.files[i].size, x, b->m.files[i].level,
               (unsigned long long)b->m.files[i].number, (unsigned long long)b->m.files[i].size, y);
      free(x); free(y);
      return 0;
    }
  }
  for (l = 0; l < NLEVELS; l++) {
    if (a->has_cp[l] != b->has_cp[l] || (a->has_cp[l] && !bytes_eq(a->cp[l], a->cplen[l], b->cp[l], b->cplen[l]))) {
      snprintf(d, dn, "compact pointer of level %d: %s'%s' vs %s'%s'", l, a->has_cp[l] ? "" : "(none)", a->has_cp[l] ? vh_esc(a->cp[l], a->cplen[l]) : "",
               b->has_cp[l] ? "" : "(none)", b->has_cp[l] ? vh_esc(b->cp[l], b->cplen[l]) : "");
      return -1;
    }
  }
  return 1;
}

static ldb_slice_t rp_key(rp_t *R, int row) { return ldb_slice(R->m.rows[row].key, R->m.rows[row].klen); }

static void rp_ok(rp_t *R, int rc, const char *what) {
  if (rc != LDB_OK) vh_fatal("replay case %d step %d: %s returned %d (%s)", R->caseidx, R->step, what, rc, ldb_strerror(rc));
}

static void rp_put(rp_t *R) {
  int row = (int)vr_uniform(&R->r, (uint32_t)R->m.nrows);
  ldb_slice_t k = rp_key(R, row), v;
  uint32_t vlen = value_len_random(&R->r, 0);
  if (vlen > 30000) vlen = 30000;
  vh_fill_value(R->vbuf, vlen, (vr_next(&R->r) << 1) | 1);
  v = ldb_slice(R->vbuf, vlen);
  rp_ok(R, ldb_put(R->h.db, &k, &v, ldb_writeopt_default), "put");
  R->dirty = 1;
}

static void rp_batch(rp_t *R) {
  ldb_batch_t *b = ldb_batch_create();
  int n = 1 + (int)vr_skewed(&R->r, 6), i;
  for (i = 0; i < n; i++) {
    ldb_slice_t k = rp_key(R, (int)vr_uniform(&R->r, (uint32_t)R->m.nrows)), v;
    if (vr_chance(&R->r, 250)) ldb_batch_del(b, &k);
    else {
      uint32_t vlen = value_len_random(&R->r, 0);
      if (vlen > 8000) vlen = 8000;
      vh_fill_value(R->vbuf, vlen, vr_next(&R->r) << 1);
      v = ldb_slice(R->vbuf, vlen);
      ldb_batch_put(b, &k, &v);
    }
  }
  rp_ok(R, ldb_write(R->h.db, b, ldb_writeopt_default), "write(batch)");
  ldb_batch_destroy(b);
  R->dirty = 1;
}

static void rp_flush(rp_t *R) {
  rp_ok(R, ldb_test_compact_memtable(R->h.db), "flush");
  R->dirty = 0;
  R->flushes++;
}

static int rp_reopen(rp_t *R, int with_flush) {
  msnap_t before, closed, after;
  char d[1200];
  uint64_t act0, act1;
  cfg_t c;
  int rc, ok;
  memset(&before, 0, sizeof(before)); memset(&closed, 0, sizeof(closed)); memset(&after, 0, sizeof(after));
  if (with_flush) rp_flush(R);
  ok = rp_check(R, with_flush ? "pre-close (flushed)" : "pre-close", &before);
  act0 = R->h.log.compacting + R->h.log.moved + R->h.log.level0_started;
  dbh_close(&R->h);
  /* closing writes no metadata: what CURRENT names now is what was there at the quiescent point */
  if (ok && load_manifest(R, "after close", NULL, &closed)) {
    if (closed.manifest_number != before.manifest_number || closed.manifest_bytes != before.manifest_bytes ||
        msnap_same(&before, &closed, d, sizeof(d)) != 1)
      rv(R, "manifest-changed-by-close", "after close", "MANIFEST-%06llu (%zu bytes) before close, MANIFEST-%06llu (%zu bytes) after: %s",
         (unsigned long long)before.manifest_number, before.manifest_bytes, (unsigned long long)closed.manifest_number, closed.manifest_bytes,
         closed.manifest_number == before.manifest_number && closed.manifest_bytes == before.manifest_bytes ? d : "different file");
  }
  msnap_free(&closed);
  c = R->h.cfg;
  cfg_mutate_reopen(&c, &R->r);
  c.reuse_logs = R->longkeys ? (vr_uniform(&R->r, 4) != 0) : (int)vr_uniform(&R->r, 2);
  dbh_set_cfg(&R->h, &c);
  rc = dbh_open(&R->h, 0);
  if (rc != LDB_OK) {
    rv(R, "reopen-failed", "reopen", "ldb_open of a cleanly closed database returns %d (%s); MANIFEST-%06llu held %zu edits", rc, ldb_strerror(rc),
       (unsigned long long)before.manifest_number, before.valid ? before.m.nedits : 0);
    msnap_free(&before);
    return 0;
  }
  R->reopens++;
  vh_count("c17_reopens", 1);
  if (rp_check(R, with_flush ? "after reopen (flushed close)" : "after reopen", &after) && ok) {
    act1 = R->h.log.compacting + R->h.log.moved + R->h.log.level0_started;
    vh_count(after.manifest_number == before.manifest_number ? "c17_reopen_manifest_reused" : "c17_reopen_manifest_fresh", 1);
    if (after.manifest_number == before.manifest_number) { R->reuse_number = after.manifest_number; R->reuse_size = after.manifest_bytes; R->reuse_counted = 0; }
    else R->reuse_number = 0;
    /* counters never run backwards across a restart */
    if (after.m.next_file < before.m.next_file || after.m.last_sequence < before.m.last_sequence || after.m.log_number < before.m.log_number ||
        after.ctr[2] < before.ctr[2] || after.ctr[3] != before.ctr[3])
      rv(R, "manifest-counter-mismatch", "after reopen", "counters before close: manifest next-file %llu last-seq %llu log %llu, memory next-file %llu last-seq %llu; "
         "after reopen: manifest %llu %llu %llu, memory %llu %llu", (unsigned long long)before.m.next_file, (unsigned long long)before.m.last_sequence,
         (unsigned long long)before.m.log_number, (unsigned long long)before.ctr[2], (unsigned long long)before.ctr[3],
         (unsigned long long)after.m.next_file, (unsigned long long)after.m.last_sequence, (unsigned long long)after.m.log_number,
         (unsigned long long)after.ctr[2], (unsigned long long)after.ctr[3]);
    if (with_flush) {
      if (act1 != act0) {
        vh_count("c17_reopen_comparisons_skipped", 1);     /* the engine compacted at open: a legitimate change */
      } else {
        int same = msnap_same(&before, &after, d, sizeof(d));
        vh_count("c17_reopen_comparisons", 1);
        if (same != 1)
          rv(R, same == 0 ? "fileset-changed-across-reopen" : "compact-pointers-changed-across-reopen", "after reopen", "old MANIFEST-%06llu (%zu edits) vs %s MANIFEST-%06llu (%zu edits) with no compaction in between: %s",
             (unsigned long long)before.manifest_number, before.m.nedits, after.manifest_number == before.manifest_number ? "reused" : "fresh",
             (unsigned long long)after.manifest_number, after.m.nedits, d);
      }
    }
  }
  msnap_free(&before);
  msnap_free(&after);
  return 1;
}

static void run_replay_case(int caseidx, const char *base) {
  rp_t *R = calloc(1, sizeof(rp_t));
  cfg_t cfg;
  char dir[600];
  int rc, alive = 1;
  double t0 = vh_now();

  g_case = caseidx;
  rv_in_case = 0;
  R->caseidx = caseidx;
  vr_seed(&R->r, g_seed * 1000003ULL + (uint64_t)caseidx * 7919ULL + 43);
  vh_set_context("fmtmon_edit mode=replay seed=%llu case=%d", (unsigned long long)g_seed, caseidx);
  cfg_random(&cfg, &R->r);
  if (caseidx % 4 != 3) cfg.write_buffer_size = 64 << 10;
  if (caseidx % 2) cfg.max_file_size = 1 << 20;
  m_init(&R->m, cfg.cmp_kind);
  R->longkeys = (caseidx % 5 == 4);
  if (R->longkeys) {
    /* every version edit names smallest/largest keys: with 1.5-3 KB keys a flush edit is 3-6 KB and the MANIFEST
     * crosses a 32 KiB block boundary every few edits - also after a reopen that reuses (appends to) the MANIFEST */
    static uint8_t lk[3200];
    size_t plen = 1500 + vr_uniform(&R->r, 1500), j;
    int i, nk = 40 + (int)vr_uniform(&R->r, 120);
    for (j = 0; j < plen; j++) lk[j] = (uint8_t)('a' + vr_uniform(&R->r, 26));
    for (i = 0; i < nk; i++) {
      size_t n = plen + (size_t)sprintf((char *)lk + plen, "%04u", vr_uniform(&R->r, 9000));
      m_add_key(&R->m, lk, n);
    }
    m_finalize(&R->m);
    cfg.write_buffer_size = 64 << 10;
  } else
  universe_generate(&R->m, &R->r, 40 + (int)vr_uniform(&R->r, 300));
  R->vbuf = malloc(40000);
  R->steps = 100 + (int)vr_uniform(&R->r, 301);
  if (R->longkeys) R->steps += 150;
  snprintf(dir, sizeof(dir), "%s/c17-replay-%d", base, caseidx);
  vh_rm_rf(dir);
  dbh_init(&R->h, dir, &cfg);
  rc = dbh_open(&R->h, 1);
  if (rc != LDB_OK) vh_fatal("replay case %d: cannot create database in %s: %d", caseidx, dir, rc);
  R->dirty = 0;                     /* the opening edit carries the current (zero) sequence */
  rp_check(R, "after create", NULL);

  for (R->step = 0; R->step < R->steps && alive; R->step++) {
    uint32_t c = vr_uniform(&R->r, 1000);
    if (c < 560) rp_put(R);
    else if (c < 640) {
      ldb_slice_t k = rp_key(R, (int)vr_uniform(&R->r, (uint32_t)R->m.nrows));
      rp_ok(R, ldb_del(R->h.db, &k, ldb_writeopt_default), "del");
      R->dirty = 1;
    } else if (c < 760) rp_batch(R);
    else if (c < 820) { rp_flush(R); rp_check(R, "flush", NULL); }
    else if (c < 890) {
      int level = (int)vr_uniform(&R->r, NLEVELS - 1);
      int a = (int)vr_uniform(&R->r, (uint32_t)R->m.nrows), b = (int)vr_uniform(&R->r, (uint32_t)R->m.nrows);
      ldb_slice_t ka, kb;
      char why[40];
      if (a > b) { int t = a; a = b; b = t; }
      ka = rp_key(R, a); kb = rp_key(R, b);
      ldb_test_compact_range(R->h.db, level, vr_chance(&R->r, 400) ? NULL : &ka, vr_chance(&R->r, 400) ? NULL : &kb);
      R->compactions++;
      snprintf(why, sizeof(why), "compact_range(L%d)", level);
      rp_check(R, why, NULL);
    } else if (c < 905) {
      ldb_compact(R->h.db, NULL, NULL);
      R->compactions++;
      R->dirty = 0;                 /* ldb_compact flushes the memtable first */
      rp_check(R, "compact(all)", NULL);
    } else if (c < 935) alive = rp_reopen(R, vr_chance(&R->r, 650));
    else rp_check(R, "quiescent point between writes", NULL);
  }
  if (alive) alive = rp_reopen(R, 1);
  if (alive) { rp_flush(R); rp_check(R, "final", NULL); }
  dbh_close(&R->h);

  vh_count("c17_replay_cases", 1);
  if (R->longkeys) {
    vh_count("c17_longkey_replay_cases", 1);
    if (R->max_manifest_bytes > 32768) vh_count("c17_longkey_cases_manifest_over_one_block", 1);
  }
  vh_count("c17_replay_steps", (uint64_t)R->steps);
  vh_count("c17_replay_checks", R->checks);
  vh_count("c17_replay_flushes", R->flushes);
  vh_count("c17_replay_manual_compactions", R->compactions);
  vh_count("c17_replay_engine_compactions", R->h.log.compacting);
  vh_count("c17_replay_trivial_moves", R->h.log.moved);
  if (R->max_levels >= 2 && R->reopens > 0 && R->h.log.compacting > 0) vh_count("c17_nontrivial_replay_cases", 1);
  if (caseidx % 16 == 0)
    vh_sample("C17", "replay case %d seed %llu: cfg=%s keys=%zu steps=%d checks=%llu edits_replayed=%llu flushes=%llu manual_compactions=%llu "
              "engine_compactions=%llu trivial_moves=%llu reopens=%llu max_live_files=%llu max_levels=%d wall=%.3fs",
              caseidx, (unsigned long long)g_seed, cfg_id(&cfg), R->m.nrows, R->steps, (unsigned long long)R->checks,
              (unsigned long long)R->edits_replayed, (unsigned long long)R->flushes, (unsigned long long)R->compactions,
              (unsigned long long)R->h.log.compacting, (unsigned long long)R->h.log.moved, (unsigned long long)R->reopens,
              (unsigned long long)R->max_files, R->max_levels, vh_now() - t0);
  dbh_destroy(&R->h);
  vh_rm_rf(dir);
  m_free(&R->m);
  free(R->vbuf);
  free(R);
}

/* ====================================================================== */

int main(int argc, char **argv) {
  int first = 0, count = 1, i;
  const char *base = "/dev/shm/verif-fmtmon-edit";
  for (i = 1; i < argc; i++) {
    if (!strcmp(argv[i], "--seed") && i + 1 < argc) g_seed = strtoull(argv[++i], NULL, 0);
    else if (!strcmp(argv[i], "--mode") && i + 1 < argc) g_mode = argv[++i];
    else if (!strcmp(argv[i], "--first") && i + 1 < argc) first = atoi(argv[++i]);
    else if (!strcmp(argv[i], "--count") && i + 1 < argc) count = atoi(argv[++i]);
    else if (!strcmp(argv[i], "--dir") && i + 1 < argc) base = argv[++i];
    else { fprintf(stderr, "unknown argument %s\n", argv[i]); return 2; }
  }
  vh_init(NULL);
  mallopt(M_MMAP_THRESHOLD, 64 << 20);
  mallopt(M_TRIM_THRESHOLD, 256 << 20);
  if (!strcmp(g_mode, "edit")) {
    for (i = first; i < first + count; i++) run_edit_case(i);
    flush_edit_evidence();
  } else if (!strcmp(g_mode, "varint") || !strcmp(g_mode, "varintq")) {
    varint_statics();
    for (i = first; i < first + count; i++) run_varint_case(i, g_mode[6] == 'q');
  } else if (!strcmp(g_mode, "replay")) {
    vh_mkdir_p(base);
    vh_count("c17_reopen_comparisons", 0);
    vh_count("c17_reopen_comparisons_skipped", 0);
    for (i = first; i < first + count; i++) run_replay_case(i, base);
  } else {
    fprintf(stderr, "unknown mode %s (edit|varint|varintq|replay)\n", g_mode);
    return 2;
  }
  vh_finish();
  return 0;
}

/* crashmon - crash explorer (E4): record an I/O trace of a write workload on the
 * real library, enumerate crash points and model-allowed crash images, materialise
 * each image as real files and run the REAL recovery on it in a forked child.
 *
 * Serves C02 (synced writes survive power loss), C03 (process crash loses nothing
 * acknowledged), C04 (batches all-or-nothing, crash half), C05 (recovery succeeds,
 * coherent, writable), C17 (CURRENT names a complete MANIFEST).
 *
 * usage: crashmon --seed S --case N --focus c02|c03|c04|c05 --dir BASE
 *                 [--batches N] [--points-max N] [--depth D]
 */
#include <errno.h>
#include <fcntl.h>
#include <malloc.h>
#include <pthread.h>
#include <signal.h>
#include <sys/mman.h>
#include <sys/stat.h>
#include <sys/wait.h>
#include <unistd.h>

#include "dbh.h"
#include "iomon.h"
#include "refcodec.h"
#include "vh.h"

enum { F_C02, F_C03, F_C04, F_C05 };
static const char *focus_name[] = {"c02", "c03", "c04", "c05"};

enum { MK_BEGIN = 1, MK_ACK = 2, MK_OPENED = 3, MK_CLOSING = 4 };

enum { K_MAX, K_MIN, K_DIRAHEAD, K_DATAAHEAD, K_TORN, K_RANDOM, K_NKINDS };
static const char *kind_name[] = {"max", "min", "dir-ahead", "data-ahead", "torn", "random"};

#define NKEYS 60
#define MAXV (64 << 10)

typedef struct upd_s { int key, del; uint64_t vid; uint32_t vlen; } upd_t;

typedef struct batch_s {
  int id, sync, rc, acked, nupd, incarnation, writer;
  upd_t *upd;
  size_t ev_begin, ev_ack;   /* event indices in the incarnation's trace */
  uint64_t seg;              /* log number that received its record (0 unknown) */
} batch_t;

static batch_t *batches = NULL;
static int nbatches = 0, capbatches = 0;
static int first_batch_of_incarnation = 0;
static uint8_t *base_present = NULL;    /* batches of earlier incarnations known recovered */
static int incarnation = 0;
static int depth = 0, max_depth = 1;
static int focus = F_C03;
static uint64_t g_seed = 1;
static int g_case = 0;
static vrng_t R;
static cfg_t rec_cfg;
static char base_dir[600];
static uint8_t *vbuf;
static long points_max = 0;
static long nested_max = 12;
static int keypad_opt = -1;
static int writer_tid = 0;
static int mw_writers = 1;           /* > 1: group-commit workload with that many native writer threads */
static int batch_lock = 0;
static int mw_running = 0;
static uint64_t logged_records = 0;

/* shared verdict area between a recovery child and its parent */
typedef struct shared_s {
  int nviol;
  struct { char prop[8]; char key[64]; char msg[900]; } v[12];
  uint64_t counters[32];
  int s_count;             /* |S| */
  uint64_t s_hash;
  int done;
} shared_t;

static shared_t *shm;

enum { CN_IMAGES, CN_OPEN_OK, CN_NONTRIV_C02, CN_NONTRIV_C03, CN_TORN_TAIL, CN_FOLLOWUPS, CN_SECOND_OPEN,
       CN_NESTED, CN_CHAIN, CN_CURRENT_CHECKED, CN_MANIFEST_REPLAYED, CN_ORPHANS, CN_TWO_LOGS, CN_DBTMP,
       CN_HALF_MANIFEST, CN_KEYS_CHECKED, CN_LEAK_CHECKS };

static void child_viol(const char *prop, const char *key, const char *fmt, ...) __attribute__((format(printf, 3, 4)));

static void child_viol(const char *prop, const char *key, const char *fmt, ...) {
  va_list ap;
  int i = shm->nviol;
  if (i >= 12) return;
  snprintf(shm->v[i].prop, sizeof(shm->v[i].prop), "%s", prop);
  snprintf(shm->v[i].key, sizeof(shm->v[i].key), "%s", key);
  va_start(ap, fmt);
  vsnprintf(shm->v[i].msg, sizeof(shm->v[i].msg), fmt, ap);
  va_end(ap);
  shm->nviol = i + 1;
}

/* ------------------------------------------------------------------ */
/* keys and values */

/* keys are not NUL-terminated: never atoi() them */
static int parse_num(const char *p, size_t n) {
  int v = 0;
  size_t i;
  if (n == 0 || n > 9) return -1;
  for (i = 0; i < n; i++) { if (p[i] < '0' || p[i] > '9') return -1; v = v * 10 + (p[i] - '0'); }
  return v;
}

/* some workloads use long keys: file bounds in the MANIFEST become large, so edits straddle 32 KiB blocks */
#define KEYBUF 4200
static int keypad = 0;
static size_t marker_key(char *buf, int id) {
  size_t n = (size_t)sprintf(buf, "m/%08d", id);
  if (keypad > 0) { memset(buf + n, 'q', (size_t)keypad); n += (size_t)keypad; buf[n] = 0; }
  return n;
}
static size_t data_key(char *buf, int idx) {
  size_t n = (size_t)sprintf(buf, "d/%03d", idx);
  if (keypad > 0) { memset(buf + n, 'p', (size_t)keypad); n += (size_t)keypad; buf[n] = 0; }
  return n;
}
static size_t marker_key(char *buf, int id);

static uint64_t make_vid(int batch, int idx, int odd) {
  return ((((uint64_t)batch << 16) | (uint64_t)(idx & 0xffff)) << 1) | (uint64_t)(odd & 1);
}
static int vid_batch(uint64_t vid) { return (int)(vid >> 17); }

static void reserve_batches(int extra) {
  if (nbatches + extra > capbatches) {
    capbatches = (nbatches + extra) * 2;
    batches = realloc(batches, (size_t)capbatches * sizeof(batch_t));
  }
}

static batch_t *new_batch(void) {
  batch_t *b;
  while (__atomic_exchange_n(&batch_lock, 1, __ATOMIC_ACQUIRE)) {}
  if (nbatches == capbatches) {
    if (mw_running) abort();   /* reserved up front: other threads hold pointers */
    capbatches = capbatches ? capbatches * 2 : 256;
    batches = realloc(batches, (size_t)capbatches * sizeof(batch_t));
  }
  b = &batches[nbatches];
  memset(b, 0, sizeof(*b));
  b->id = nbatches + 1;
  b->incarnation = incarnation;
  nbatches++;
  __atomic_store_n(&batch_lock, 0, __ATOMIC_RELEASE);
  return b;
}

/* ------------------------------------------------------------------ */
/* workload of one incarnation (recorded under iomon) */

static uint32_t data_vlen_r(vrng_t *rg) {
  uint32_t c = vr_uniform(rg, 1000);
  if (c < 700) return 8 + vr_uniform(rg, 300);
  if (c < 930) return 300 + vr_uniform(rg, 3000);
  if (c < 990) return 4000 + vr_uniform(rg, 20000);
  return 33000 + vr_uniform(rg, 30000);          /* > one 32 KiB log block */
}

/* writer w of W owns the data keys k with k % W == w */
static void issue_batch_r(dbh_t *h, int nupd_hint, vrng_t *rg, uint8_t *vb, int w, int W) {
  batch_t *b = new_batch();
  ldb_batch_t *wb = ldb_batch_create();
  ldb_writeopt_t wo = *ldb_writeopt_default;
  char kb[KEYBUF];
  int i, n = nupd_hint, id = b->id;
  ldb_slice_t k, v;
  uint64_t idv = (uint64_t)id;
  int boundary = (nupd_hint < 0);
  uint32_t boundary_vlen = 0;
  if (boundary) {
    /* one marker + one put whose value length makes the WAL record end exactly at the end of a 32 KiB block
       (or one byte before / after it): marker entry 21 bytes, put entry 7 + varint(vlen) + vlen, batch header 12 */
    size_t oi, no = iom_nobjs();
    uint64_t best = 0, off = 0, pos, left, P;
    int d = (int)vr_uniform(rg, 4) - 1;          /* -1, 0, +1, +2 -> 0 twice as likely below */
    if (d == 2) d = 0;
    for (oi = 0; oi < no; oi++) {
      const iom_obj_t *o = iom_obj((int)oi);
      if (o != NULL && o->pc == PC_LOG && o->num >= best) { best = o->num; off = o->len; }
    }
    pos = off % 32768; left = 32768 - pos;
    if (left < 7) left = 32768;
    P = left - 7;
    if (P < 60 + 2) P += 32761;                   /* too little room in this block: FIRST here, LAST fills the next */
    P = (uint64_t)((int64_t)P + d);
    {
      uint64_t rest = P - 40;                     /* = varint(vlen) + vlen */
      boundary_vlen = (uint32_t)(rest - (rest - 1 < 128 ? 1 : rest - 2 < 16384 ? 2 : 3));
    }
    if (boundary_vlen > MAXV) boundary = 0;
    n = 1;
    vh_count("boundary_batches", boundary ? 1 : 0);
  }
  b->nupd = n;
  b->writer = w;
  b->upd = calloc((size_t)n + 1, sizeof(upd_t));
  b->sync = boundary ? 0 : vr_chance(rg, W > 1 ? 400 : 300);
  /* marker first or last or in the middle: position must not matter */
  {
    int mpos = n == 0 ? 0 : (int)vr_uniform(rg, (uint32_t)n + 1);
    if (keypad > 0) boundary = 0;
    for (i = 0; i <= n; i++) {
      if (i == mpos) {
        k = ldb_slice(kb, marker_key(kb, id));
        v = ldb_slice(&idv, 8);
        ldb_batch_put(wb, &k, &v);
      }
      if (i < n) {
        upd_t *u = &b->upd[i];
        u->key = (int)vr_uniform(rg, NKEYS / W) * W + w;
        u->del = boundary ? 0 : vr_chance(rg, 150);
        k = ldb_slice(kb, data_key(kb, u->key));
        if (u->del) {
          ldb_batch_del(wb, &k);
        } else {
          u->vlen = n > 40 ? 8 + vr_uniform(rg, 120) : data_vlen_r(rg);
          if (boundary) u->vlen = boundary_vlen;
          u->vid = make_vid(id, i, (int)(vr_next(rg) & 1));
          vh_fill_value(vb, u->vlen, u->vid);
          v = ldb_slice(vb, u->vlen);
          ldb_batch_put(wb, &k, &v);
        }
      }
    }
  }
  wo.sync = b->sync;
  b->ev_begin = iom_nevents();
  iom_mark(MK_BEGIN, (uint64_t)id, (uint64_t)b->sync);
  b->rc = ldb_write(h->db, wb, &wo);
  iom_mark(MK_ACK, (uint64_t)id, (uint64_t)b->rc);
  b->ev_ack = iom_nevents() - 1;
  b->acked = (b->rc == LDB_OK);
  if (boundary) {
    size_t oi, no = iom_nobjs();
    uint64_t best = 0, off = 1;
    for (oi = 0; oi < no; oi++) {
      const iom_obj_t *o = iom_obj((int)oi);
      if (o != NULL && o->pc == PC_LOG && o->num >= best) { best = o->num; off = o->len; }
    }
    if (off % 32768 == 0 && off > 0) vh_count("boundary_batches_ending_exactly_at_a_block_end", 1);
  }
  ldb_batch_destroy(wb);
  if (b->rc != LDB_OK) vh_fatal("workload write failed rc=%d on a healthy file system", b->rc);
}

static void issue_batch(dbh_t *h, int nupd_hint) { issue_batch_r(h, nupd_hint, &R, vbuf, 0, 1); }

static int batch_size_hint(void) {
  uint32_t c = vr_uniform(&R, 1000);
  if (focus == F_C04) {
    if (c < 500) return 1 + (int)vr_uniform(&R, 5);
    if (c < 850) return 10 + (int)vr_uniform(&R, 200);
    return 400 + (int)vr_uniform(&R, 2600);
  }
  if (c < 850) return 1 + (int)vr_uniform(&R, 4);
  if (c < 985) return 5 + (int)vr_uniform(&R, 60);
  return 300 + (int)vr_uniform(&R, 900);
}

/* runs `n` batches on an open handle, with a forced flush / manual compaction /
   clean reopen sprinkled in; returns with the database closed */
static void run_workload(dbh_t *h, int n, int allow_reopen) {
  int i;
  int reopen_at = allow_reopen ? (int)(n / 3 + (int)vr_uniform(&R, (uint32_t)(n / 3 + 1))) : -1;
  int compact_at = (int)vr_uniform(&R, (uint32_t)n + 1);
  writer_tid = iom_tid();
  for (i = 0; i < n; i++) {
    issue_batch(h, (keypad == 0 && vr_chance(&R, 40)) ? -1 : batch_size_hint());
    if (i == compact_at) {
      ldb_test_compact_memtable(h->db);
      ldb_test_compact_range(h->db, 0, NULL, NULL);
    } else if (vr_chance(&R, 15)) {
      ldb_test_compact_memtable(h->db);
    }
    if (i == reopen_at) {
      int rc;
      iom_mark(MK_CLOSING, 0, 0);
      dbh_close(h);
      rc = dbh_open(h, 0);
      if (rc != LDB_OK) vh_fatal("clean reopen inside workload failed rc=%d", rc);
      iom_mark(MK_OPENED, 0, 0);
    }
  }
  if (vr_chance(&R, 500)) ldb_verif_wait_idle(h->db);
  iom_mark(MK_CLOSING, 1, 0);
  dbh_close(h);
}

/* group-commit workload: W native writer threads with thread-owned keys, mixed sync flags; delays on
   the WAL write/fsync make followers queue behind a leader so that groups really merge */
typedef struct mwarg_s { dbh_t *h; int w, W, n; vrng_t rg; uint8_t *vb; } mwarg_t;

static void *mw_thread(void *p) {
  mwarg_t *a = p;
  int i;
  for (i = 0; i < a->n; i++) {
    uint32_t c = vr_uniform(&a->rg, 1000);
    issue_batch_r(a->h, c < 900 ? 1 + (int)vr_uniform(&a->rg, 4) : 5 + (int)vr_uniform(&a->rg, 40), &a->rg, a->vb, a->w, a->W);
  }
  return NULL;
}

static void mw_hook(int id, const void *p, uint64_t a, uint64_t b) {
  (void)p; (void)a; (void)b;
  if (id == 2 /* LDB_VP_WRITE_LOGGED */) __atomic_add_fetch(&logged_records, 1, __ATOMIC_RELAXED);
}

static void run_workload_mt(dbh_t *h, int n, int W) {
  pthread_t th[8];
  mwarg_t arg[8];
  int i;
  reserve_batches(n + 16);
  iom_slow(IOP_WRITE, PC_LOG, 150);
  iom_slow(IOP_FSYNC, PC_LOG, 300);
  ldb_verif_point_cb = mw_hook;
  mw_running = 1;
  for (i = 0; i < W; i++) {
    arg[i].h = h; arg[i].w = i; arg[i].W = W; arg[i].n = n / W;
    vr_seed(&arg[i].rg, vr_next(&R));
    arg[i].vb = malloc(MAXV + 64);
    if (pthread_create(&th[i], NULL, mw_thread, &arg[i]) != 0) vh_fatal("pthread_create");
  }
  for (i = 0; i < W; i++) { pthread_join(th[i], NULL); free(arg[i].vb); }
  mw_running = 0;
  ldb_verif_point_cb = NULL;
  iom_slow_clear();
  if (vr_chance(&R, 500)) ldb_verif_wait_idle(h->db);
  iom_mark(MK_CLOSING, 1, 0);
  dbh_close(h);
}

/* ------------------------------------------------------------------ */
/* file-system model over the recorded trace */

typedef struct fsm_s {
  size_t nobj;
  uint64_t *w, *s;         /* per object: written length, length at last fsync */
  size_t *dirops;          /* event indices of successful directory operations */
  size_t ndirops;
  size_t d_sync;           /* number of dir ops before the last fsync of anything */
  size_t last_write_ev;    /* event index of the most recent write (or -1) */
  size_t p;                /* events [0, p) applied */
} fsm_t;

static int is_dirop(const iom_event_t *e) {
  if (e->res < 0) return 0;
  switch (e->op) {
    case IOP_CREATE: return (e->flags & IOM_F_NEWOBJ) != 0;
    case IOP_RENAME: case IOP_UNLINK: case IOP_LINK: return 1;
    default: return 0;
  }
}

static void fsm_init(fsm_t *f) {
  size_t i;
  memset(f, 0, sizeof(*f));
  f->nobj = iom_nobjs();
  f->w = calloc(f->nobj + 1, sizeof(uint64_t));
  f->s = calloc(f->nobj + 1, sizeof(uint64_t));
  f->dirops = calloc(iom_nevents() + 1, sizeof(size_t));
  for (i = 0; i < f->nobj; i++) f->w[i] = f->s[i] = iom_obj((int)i)->preexisting;
  f->last_write_ev = (size_t)-1;
}

static void fsm_free(fsm_t *f) { free(f->w); free(f->s); free(f->dirops); }

static void fsm_step(fsm_t *f) {
  const iom_event_t *e = iom_event(f->p);
  if (is_dirop(e)) f->dirops[f->ndirops++] = f->p;
  if (e->op == IOP_WRITE && e->res > 0 && e->obj >= 0) {
    if (e->off + e->len > f->w[e->obj]) f->w[e->obj] = e->off + e->len;
    f->last_write_ev = f->p;
  } else if (e->op == IOP_FSYNC && e->res == 0) {
    if (e->obj >= 0) f->s[e->obj] = f->w[e->obj];
    f->d_sync = f->ndirops;
  }
  f->p++;
}

typedef struct image_s {
  size_t d;                /* directory-op prefix length */
  uint64_t *l;             /* per object length */
  int kind;
  size_t p;
  uint64_t withheld_bytes; /* unsynced bytes withheld */
  size_t withheld_dirops;
} image_t;

/* pre-existing names (nested / chained incarnations): name -> object at trace start */
static int *pre_name_obj = NULL;   /* indexed by name id, -1 none */
static size_t pre_names = 0;

static void remember_preexisting(void) {
  size_t i;
  free(pre_name_obj);
  pre_names = 0;
  pre_name_obj = NULL;
  /* objects registered by iom_snapshot_existing are exactly those with preexisting
     length recorded and first_name bound before any event */
  for (i = 0; i < iom_nobjs(); i++) {
    const iom_obj_t *o = iom_obj((int)i);
    if (!o->snapshot) continue;
    if ((size_t)o->first_name >= pre_names) {
      size_t n = (size_t)o->first_name + 1, j;
      pre_name_obj = realloc(pre_name_obj, n * sizeof(int));
      for (j = pre_names; j < n; j++) pre_name_obj[j] = -1;
      pre_names = n;
    }
    pre_name_obj[o->first_name] = (int)i;
  }
}

/* materialise an image into `dir` (must not exist). Returns number of files. */
static int image_write(const fsm_t *f, const image_t *im, const char *dir, uint64_t *hash_out) {
  /* directory state: replay dir ops [0, d) over the pre-existing names */
  size_t maxname = 0, i;
  int *bind;
  int nfiles = 0;
  uint64_t h = 1469598103934665603ULL;
  char path[800];
  for (i = 0; i < iom_nevents(); i++) {
    const iom_event_t *e = iom_event(i);
    if (e->name >= 0 && (size_t)e->name >= maxname) maxname = (size_t)e->name + 1;
    if (e->name2 >= 0 && (size_t)e->name2 >= maxname) maxname = (size_t)e->name2 + 1;
  }
  if (pre_names > maxname) maxname = pre_names;
  bind = malloc((maxname + 1) * sizeof(int));
  for (i = 0; i < maxname; i++) bind[i] = i < pre_names ? pre_name_obj[i] : -1;
  for (i = 0; i < im->d; i++) {
    const iom_event_t *e = iom_event(f->dirops[i]);
    switch (e->op) {
      case IOP_CREATE: bind[e->name] = e->obj; break;
      case IOP_UNLINK: bind[e->name] = -1; break;
      case IOP_RENAME:
        if (e->name2 >= 0) bind[e->name2] = e->obj;
        if (e->name >= 0) bind[e->name] = -1;
        break;
      case IOP_LINK:
        if (e->name2 >= 0) bind[e->name2] = e->obj;
        break;
      default: break;
    }
  }
  iom_pause(1);
  if (mkdir(dir, 0755) != 0) vh_fatal("mkdir %s: %s", dir, strerror(errno));
  for (i = 0; i < maxname; i++) {
    const iom_obj_t *o;
    int fd;
    uint64_t len;
    if (bind[i] < 0) continue;
    if (strchr(iom_name((int)i), '/') != NULL || iom_name((int)i)[0] == 0) continue;
    o = iom_obj(bind[i]);
    len = im->l[bind[i]];
    if (len > o->len) len = o->len;
    snprintf(path, sizeof(path), "%s/%s", dir, iom_name((int)i));
    fd = open(path, O_WRONLY | O_CREAT | O_TRUNC, 0644);
    if (fd < 0) vh_fatal("open %s: %s", path, strerror(errno));
    if (len > 0 && write(fd, o->data, len) != (ssize_t)len) vh_fatal("write %s failed", path);
    close(fd);
    nfiles++;
    h = (h ^ vh_hash64(iom_name((int)i), strlen(iom_name((int)i)), (uint64_t)bind[i])) * 1099511628211ULL;
    h = (h ^ len) * 1099511628211ULL;
  }
  iom_pause(-1);
  free(bind);
  *hash_out = h;
  return nfiles;
}

/* ------------------------------------------------------------------ */
/* expectations at a crash point */

typedef struct expect_s {
  size_t p;
  int kind;
  int a_acked;             /* number of this incarnation's batches acked before p (single writer: a prefix) */
  int inflight;            /* id of the batch begun but not acked before p, or 0 */
  uint8_t *required;       /* per batch id: must be present (C02) */
  uint8_t *issued;         /* per batch id: begun before p */
} expect_t;

typedef struct seginfo_s { uint64_t seg; size_t unlink_ev; } seginfo_t;

static void find_segments(void) {
  /* segment of a batch = log number of the first successful WAL write by the writer
     thread between its BEGIN and ACK markers */
  int i;
  for (i = first_batch_of_incarnation; i < nbatches; i++) {
    batch_t *b = &batches[i];
    size_t e;
    for (e = b->ev_begin; e <= b->ev_ack && e < iom_nevents(); e++) {
      const iom_event_t *ev = iom_event(e);
      if (ev->op == IOP_WRITE && ev->pc == PC_LOG && ev->res > 0) { b->seg = ev->num; break; }
    }
  }
}

static size_t seg_unlink_event(uint64_t seg) {
  size_t i;
  for (i = 0; i < iom_nevents(); i++) {
    const iom_event_t *e = iom_event(i);
    if (e->op == IOP_UNLINK && e->pc == PC_LOG && e->num == seg && e->res == 0) return i;
  }
  return (size_t)-1;
}

static void expect_at(expect_t *x, size_t p) {
  int i;
  x->p = p;
  x->a_acked = 0;
  x->inflight = 0;
  x->required = calloc((size_t)nbatches + 2, 1);
  x->issued = calloc((size_t)nbatches + 2, 1);
  for (i = 0; i < first_batch_of_incarnation; i++) {
    x->issued[i + 1] = 1;
    if (base_present[i + 1]) x->required[i + 1] = 1;   /* already recovered once: must never be lost again */
  }
  for (i = first_batch_of_incarnation; i < nbatches; i++) {
    const batch_t *b = &batches[i];
    if (b->ev_begin < p) x->issued[b->id] = 1;
    if (b->ev_ack < p) {
      x->a_acked++;
      if (b->sync) x->required[b->id] = 1;
      if (b->seg != 0 && mw_writers == 1) {
        size_t u = seg_unlink_event(b->seg);
        if (u != (size_t)-1 && u < p) x->required[b->id] = 1;
      }
    } else if (b->ev_begin < p) {
      x->inflight = b->id;
    }
  }
}

static void expect_free(expect_t *x) { free(x->required); free(x->issued); }

/* ------------------------------------------------------------------ */
/* the recovery child */

typedef struct kv_s { int present; uint64_t vid; uint32_t vlen; int batch; } kv_t;

static void fold(const uint8_t *S, kv_t *out) {
  int i, j;
  memset(out, 0, sizeof(kv_t) * NKEYS);
  for (i = 0; i < nbatches; i++) {
    const batch_t *b = &batches[i];
    if (!S[b->id]) continue;
    for (j = 0; j < b->nupd; j++) {
      const upd_t *u = &b->upd[j];
      out[u->key].present = !u->del;
      out[u->key].vid = u->vid;
      out[u->key].vlen = u->vlen;
      out[u->key].batch = b->id;
    }
  }
}

/* scan the database: fills S (markers present) and actual data-key state */
typedef struct actual_s { int present; uint64_t vid; size_t len; int ok; } actual_t;

static int scan_db(ldb_t *db, uint8_t *S, actual_t *act, int *unknown_keys, char *unknown_msg, size_t msz) {
  ldb_iter_t *it = ldb_iterator(db, NULL);
  int st, nkeys = 0;
  memset(S, 0, (size_t)nbatches + 2);
  memset(act, 0, sizeof(actual_t) * NKEYS);
  *unknown_keys = 0;
  for (ldb_iter_first(it); ldb_iter_valid(it); ldb_iter_next(it)) {
    ldb_slice_t k = ldb_iter_key(it), v = ldb_iter_value(it);
    const char *kp = k.data;
    nkeys++;
    if (k.size == 10 + (size_t)keypad && kp[0] == 'm' && kp[1] == '/') {
      int id = parse_num(kp + 2, 8);
      uint64_t idv = 0;
      if (v.size == 8) memcpy(&idv, v.data, 8);
      if (id >= 1 && id <= nbatches && idv == (uint64_t)id) S[id] = 1;
      else { (*unknown_keys)++; snprintf(unknown_msg, msz, "marker '%s' with value len %zu", vh_esc(k.data, k.size), v.size); }
    } else if (k.size == 5 + (size_t)keypad && kp[0] == 'd' && kp[1] == '/') {
      int idx = parse_num(kp + 2, 3);
      if (idx >= 0 && idx < NKEYS) {
        act[idx].present = 1;
        act[idx].len = v.size;
        act[idx].vid = vh_value_vid(v.data, v.size);
        act[idx].ok = vh_check_value(v.data, v.size, act[idx].vid);
      } else { (*unknown_keys)++; snprintf(unknown_msg, msz, "key '%s'", vh_esc(k.data, k.size)); }
    } else if (k.size >= 2 && kp[0] == 'f' && kp[1] == '/') {
      /* follow-up workload keys: ignored here */
    } else {
      (*unknown_keys)++;
      snprintf(unknown_msg, msz, "key '%s'", vh_esc(k.data, k.size));
    }
  }
  st = ldb_iter_status(it);
  ldb_iter_destroy(it);
  (void)nkeys;
  return st;
}

static void compare_with_fold(ldb_t *db, const uint8_t *S, const actual_t *act, const char *when, const char *img) {
  kv_t exp[NKEYS];
  char kb[KEYBUF];
  int k;
  fold(S, exp);
  for (k = 0; k < NKEYS; k++) {
    const char *bad = NULL;
    shm->counters[CN_KEYS_CHECKED]++;
    if (exp[k].present && !act[k].present) bad = "missing";
    else if (!exp[k].present && act[k].present) bad = "unexpected";
    else if (exp[k].present && (act[k].vid != exp[k].vid || act[k].len != exp[k].vlen || !act[k].ok)) bad = "different";
    if (bad != NULL) {
      int ab = act[k].present ? vid_batch(act[k].vid) : 0;
      int known_vid = 0, i, j;
      const char *diag = "wrong-contents";
      /* diagnose */
      if (act[k].present) {
        for (i = 0; i < nbatches && !known_vid; i++)
          for (j = 0; j < batches[i].nupd; j++)
            if (!batches[i].upd[j].del && batches[i].upd[j].vid == act[k].vid && batches[i].upd[j].key == k) { known_vid = 1; break; }
        if (!known_vid || !act[k].ok) diag = "value-never-written";
        else if (ab >= 1 && ab <= nbatches && !S[ab]) diag = "partial-batch-update-without-marker";
        else diag = "stale-or-resurrected-value";
      } else if (exp[k].present) {
        diag = "partial-batch-marker-without-update";
      }
      if (act[k].present && !exp[k].present && known_vid && ab >= 1 && ab <= nbatches && S[ab]) diag = "stale-or-resurrected-value";
      data_key(kb, k);
      if (strncmp(diag, "partial-batch", 13) == 0)
        child_viol("C04", diag, "%s %s: key %s %s: expected %s(batch %d vid %llx len %u) got %s(batch %d vid %llx len %zu)",
                   img, when, kb, bad, exp[k].present ? "value" : "absent", exp[k].batch, (unsigned long long)exp[k].vid,
                   exp[k].vlen, act[k].present ? "value" : "absent", ab, (unsigned long long)act[k].vid, act[k].len);
      child_viol("C05", diag, "%s %s: key %s %s: expected %s(batch %d vid %llx len %u) got %s(batch %d vid %llx len %zu)",
                 img, when, kb, bad, exp[k].present ? "value" : "absent", exp[k].batch, (unsigned long long)exp[k].vid,
                 exp[k].vlen, act[k].present ? "value" : "absent", ab, (unsigned long long)act[k].vid, act[k].len);
      return;
    }
  }
  /* lookups must agree with the scan */
  for (k = 0; k < NKEYS; k += 1 + (k % 3)) {
    ldb_slice_t key = ldb_slice(kb, data_key(kb, k)), v;
    int rc = ldb_get(db, &key, &v, NULL);
    if ((rc == LDB_OK) != (act[k].present != 0) ||
        (rc == LDB_OK && (v.size != act[k].len || vh_value_vid(v.data, v.size) != act[k].vid))) {
      child_viol("C03", "get-disagrees-with-scan", "%s %s: key %s get rc=%d but scan says present=%d", img, when, kb, rc, act[k].present);
      child_viol("C05", "get-disagrees-with-scan", "%s %s: key %s get rc=%d but scan says present=%d", img, when, kb, rc, act[k].present);
    }
    if (rc == LDB_OK) ldb_free(v.data);
  }
}

static uint64_t set_hash(const uint8_t *S) {
  uint64_t h = 7;
  int i;
  for (i = 1; i <= nbatches; i++) if (S[i]) h = h * 1099511628211ULL + (uint64_t)i;
  return h;
}

static void explore(const char *tracedir_base, const uint8_t *acked_base);

/* CURRENT must name a MANIFEST the independent decoder replays completely */
static void check_current(const char *dir, const char *img) {
  char path[800], buf[256];
  int fd, n;
  struct stat st;
  snprintf(path, sizeof(path), "%s/CURRENT", dir);
  fd = open(path, O_RDONLY);
  if (fd < 0) return;   /* database not (yet) created in this image */
  n = (int)read(fd, buf, sizeof(buf) - 1);
  close(fd);
  shm->counters[CN_CURRENT_CHECKED]++;
  if (n <= 0 || buf[n - 1] != '\n' || strncmp(buf, "MANIFEST-", 9) != 0) {
    child_viol("C17", "current-garbled", "%s: CURRENT holds %d bytes '%s'", img, n, n > 0 ? vh_esc(buf, (size_t)n) : "");
    return;
  }
  buf[n - 1] = 0;
  snprintf(path, sizeof(path), "%s/%s", dir, buf);
  if (stat(path, &st) != 0) {
    child_viol("C17", "current-names-missing-manifest", "%s: CURRENT names %s which does not exist", img, buf);
    return;
  }
  {
    uint8_t *data = malloc((size_t)st.st_size + 1);
    rc_manifest_t m;
    ssize_t got = 0, r;
    fd = open(path, O_RDONLY);
    while (fd >= 0 && got < st.st_size && (r = read(fd, data + got, (size_t)(st.st_size - got))) > 0) got += r;
    if (fd >= 0) close(fd);
    if (rc_manifest_replay(data, (size_t)got, &m) != 0) {
      child_viol("C17", "current-names-undecodable-manifest", "%s: %s: %s", img, buf, m.err);
    } else {
      size_t i;
      if (m.nedits == 0 || !m.has_next_file || !m.has_last_sequence || !m.has_log_number)
        child_viol("C17", "current-names-incomplete-manifest", "%s: %s replays %zu edits (next_file=%d last_seq=%d log=%d)",
                   img, buf, m.nedits, m.has_next_file, m.has_last_sequence, m.has_log_number);
      for (i = 0; i < m.nfiles; i++) {
        char tp[800];
        struct stat ts;
        snprintf(tp, sizeof(tp), "%s/%06llu.ldb", dir, (unsigned long long)m.files[i].number);
        if (stat(tp, &ts) != 0 || (uint64_t)ts.st_size < m.files[i].size)
          child_viol("C17", "manifest-names-incomplete-table", "%s: %s lists table #%llu size %llu; on disk: %s %llu",
                     img, buf, (unsigned long long)m.files[i].number, (unsigned long long)m.files[i].size,
                     stat(tp, &ts) != 0 ? "missing" : "size", (unsigned long long)(stat(tp, &ts) == 0 ? ts.st_size : 0));
      }
      shm->counters[CN_MANIFEST_REPLAYED]++;
      if (m.consumed < (uint64_t)got) shm->counters[CN_HALF_MANIFEST]++;
    }
    rc_manifest_free(&m);
    free(data);
  }
}

static void classify_image(const char *dir) {
  char **names;
  int n = dir_list(dir, &names), i, logs = 0, tables = 0;
  for (i = 0; i < n; i++) {
    uint64_t num;
    int pc = iom_classify(names[i], &num);
    if (pc == PC_LOG) logs++;
    if (pc == PC_TABLE) tables++;
    if (pc == PC_DBTMP) shm->counters[CN_DBTMP]++;
  }
  if (logs >= 2) shm->counters[CN_TWO_LOGS]++;
  (void)tables;
  dir_free(names, n);
}

/* after recovery + one reopen the directory must hold no orphans (C13 crash half) */
static void leak_check(dbh_t *h, const char *img) {
  uint64_t ctr[8];
  layout_t l;
  char **names;
  int n, i;
  /* deletion is lazy: files pinned by the scan iterators above go at the next
     flush/compaction, so force one garbage-collection pass first */
  if (ldb_test_compact_memtable(h->db) != LDB_OK) return;
  ldb_verif_wait_idle(h->db);
  ldb_verif_counters(h->db, ctr);
  if (!dbh_layout(h->db, &l)) return;
  iom_pause(1);
  n = dir_list(h->dir, &names);
  iom_pause(-1);
  for (i = 0; i < n; i++) {
    uint64_t num;
    int pc = iom_classify(names[i], &num);
    int ok = 1;
    const char *key = "orphan-after-recovery";
    if (pc == PC_TABLE) ok = layout_has(&l, num);
    /* a log is live while recovery would still replay it */
    else if (pc == PC_LOG) ok = (num >= ctr[0] || num == ctr[1]);
    else if (pc == PC_MANIFEST) {
      ok = (num == ctr[4]);
      if (!ok && num > ctr[4]) key = "orphan-newer-manifest-kept";
    }
    else if (pc == PC_DBTMP) ok = 0;
    if (!ok)
      child_viol("C13", key, "%s: '%s' still present after recovery and reopen (live: MANIFEST-%06llu, logs >= %llu, current log %llu, %zu tables)",
                 img, names[i], (unsigned long long)ctr[4], (unsigned long long)ctr[0], (unsigned long long)ctr[5], l.n);
  }
  shm->counters[CN_LEAK_CHECKS]++;
  dir_free(names, n);
  layout_free(&l);
}

static void followup_and_chain(dbh_t *h, uint8_t *S, const char *img, int do_chain);

/* runs in the forked child: real recovery on the image in `dir` */
static void child_main(const char *dir, const expect_t *x, const image_t *im, int do_follow, int do_nested) {
  dbh_t h;
  cfg_t c = rec_cfg;
  uint8_t *S = calloc((size_t)nbatches + 2, 1), *S2 = calloc((size_t)nbatches + 2, 1);
  actual_t act[NKEYS], act2[NKEYS];
  char img[200], umsg[200] = "";
  int rc, unknown = 0, i, st;
  int missing_required = 0;

  snprintf(img, sizeof(img), "[inc %d depth %d p=%zu/%zu %s d=%zu]", incarnation, depth, im->p, iom_nevents(),
           kind_name[im->kind], im->d);
  /* recovery-time configuration is independent of the recording configuration */
  c.paranoid = (int)(vr_next(&R) & 1);
  c.reuse_logs = (int)((vr_next(&R) >> 1) & 1);
  c.use_mmap = vr_chance(&R, 120);          /* munmap is very expensive in this VM under parallel load */
  if (vr_chance(&R, 300)) c.write_buffer_size = 64 << 10;

  check_current(dir, img);
  classify_image(dir);

  if (do_nested) {
    iom_trace_reset();
    iom_clear_roots();
    iom_trace(1, 1);
    iom_snapshot_existing(iom_add_root(dir));
  } else {
    iom_trace(0, 0);
    iom_clear_roots();
  }

  dbh_init(&h, dir, &c);
  rc = dbh_open(&h, 1);
  if (rc != LDB_OK) {
    child_viol("C05", rc == LDB_CORRUPTION ? "open-reports-corruption" : "open-failed",
               "%s: ldb_open failed with %d (%s) [paranoid=%d reuse_logs=%d] last log line: %s", img, rc, ldb_strerror(rc),
               c.paranoid, c.reuse_logs, h.log.last_error);
    /* a database that cannot be opened does not deliver its acknowledged writes either */
    {
      int nreq = 0, nack = 0;
      for (i = 1; i <= nbatches; i++) nreq += x->required[i];
      for (i = first_batch_of_incarnation; i < nbatches; i++) nack += batches[i].ev_ack < x->p;
      for (i = 0; i < first_batch_of_incarnation; i++) nack += base_present[i + 1];
      if (im->kind == K_MAX && nack > 0)
        child_viol("C03", "open-failed-after-process-kill", "%s: ldb_open failed with %d (%s): %d acknowledged batches are unavailable [paranoid=%d reuse_logs=%d]",
                   img, rc, ldb_strerror(rc), nack, c.paranoid, c.reuse_logs);
      if (nreq > 0)
        child_viol("C02", "open-failed-with-required-writes", "%s: ldb_open failed with %d (%s): %d synced/deleted-log batches are unavailable [paranoid=%d reuse_logs=%d]",
                   img, rc, ldb_strerror(rc), nreq, c.paranoid, c.reuse_logs);
    }
    goto out;
  }
  shm->counters[CN_OPEN_OK]++;
  st = scan_db(h.db, S, act, &unknown, umsg, sizeof(umsg));
  if (st != LDB_OK) child_viol("C05", "scan-status", "%s: iterator status %d after recovery", img, st);
  if (unknown) child_viol("C05", "value-never-written", "%s: %d unknown key(s) after recovery, e.g. %s", img, unknown, umsg);

  /* S within issued; base batches never lost again */
  for (i = 1; i <= nbatches; i++) {
    if (S[i] && !x->issued[i]) {
      child_viol("C05", "batch-from-the-future", "%s: batch %d present but was not issued before the crash point", img, i);
      break;
    }
  }
  for (i = 1; i <= nbatches; i++) {
    if (x->required[i] && !S[i]) {
      const batch_t *b = &batches[i - 1];
      missing_required++;
      if (i <= first_batch_of_incarnation)
        child_viol("C05", "lost-after-earlier-recovery", "%s: batch %d had been recovered by an earlier open and is gone now", img, i);
      else
        child_viol("C02", b->sync ? "synced-write-lost" : "write-of-deleted-log-lost",
                   "%s: batch %d (sync=%d, log segment %llu) was acknowledged before the crash point but is missing after recovery",
                   img, i, b->sync, (unsigned long long)b->seg);
      break;
    }
  }
  /* per-segment prefix (single writer: the batch -> segment attribution is exact) */
  if (mw_writers == 1) {
    int j;
    for (i = first_batch_of_incarnation; i < nbatches; i++) {
      const batch_t *b = &batches[i];
      if (S[b->id] || b->seg == 0) continue;
      for (j = i + 1; j < nbatches; j++) {
        if (batches[j].seg == b->seg && S[batches[j].id]) {
          child_viol("C05", "hole-in-log-segment", "%s: batch %d missing but later batch %d of the same log segment %llu present",
                     img, b->id, batches[j].id, (unsigned long long)b->seg);
          i = nbatches;
          break;
        }
      }
    }
  }
  /* process-crash image: exactly the acknowledged writes (+ possibly the one in flight) */
  if (im->kind == K_MAX) {
    for (i = first_batch_of_incarnation; i < nbatches; i++) {
      const batch_t *b = &batches[i];
      if (b->ev_ack < x->p && !S[b->id]) {
        child_viol("C03", "acked-write-lost", "%s: batch %d (sync=%d) acknowledged before the kill point is missing", img, b->id, b->sync);
        break;
      }
      if (!(b->ev_ack < x->p) && S[b->id] && (mw_writers == 1 ? b->id != x->inflight : !(b->ev_begin < x->p))) {
        child_viol("C03", "unissued-write-present", "%s: batch %d present although neither acknowledged nor in flight", img, b->id);
        break;
      }
    }
    for (i = 0; i < first_batch_of_incarnation; i++)
      if (base_present[i + 1] && !S[i + 1]) { child_viol("C03", "acked-write-lost", "%s: earlier-incarnation batch %d missing", img, i + 1); break; }
  }
  compare_with_fold(h.db, S, act, "after-recovery", img);
  shm->s_count = 0;
  for (i = 1; i <= nbatches; i++) shm->s_count += S[i];
  shm->s_hash = set_hash(S);

  /* (d) second open: clean close + reopen must not change anything */
  if (do_follow) {
    dbh_close(&h);
    rc = dbh_open(&h, 0);
    if (rc != LDB_OK) {
      child_viol("C05", "second-open-failed", "%s: second ldb_open failed with %d (%s)", img, rc, ldb_strerror(rc));
      goto out;
    }
    scan_db(h.db, S2, act2, &unknown, umsg, sizeof(umsg));
    if (memcmp(S, S2, (size_t)nbatches + 2) != 0 || memcmp(act, act2, sizeof(act)) != 0)
      child_viol("C05", "second-open-changed-contents", "%s: contents differ between first and second open", img);
    shm->counters[CN_SECOND_OPEN]++;
    leak_check(&h, img);
    followup_and_chain(&h, S, img, 0);
  }

  if (do_nested) {
    /* kill points inside the recovery we just ran (do_nested == 1: nothing new was
       acknowledged) or inside recovery + a further workload (do_nested == 2: an
       incarnation chain, the acknowledged set grows) */
    shared_t *mine = shm, saved;
    char nbase[800];
    alarm(0);
    if (h.db == NULL) {
      rc = dbh_open(&h, 0);
      if (rc != LDB_OK) { child_viol("C05", "open-failed", "%s: reopen before chain workload failed rc=%d", img, rc); goto out; }
    }
    base_present = S;                       /* everything recovered now must stay */
    first_batch_of_incarnation = nbatches;
    incarnation++;
    if (do_nested == 2) {
      run_workload(&h, 8 + (int)vr_uniform(&R, 16), 0);
      shm->counters[CN_CHAIN]++;
    } else {
      dbh_close(&h);
    }
    iom_trace(0, 1);
    saved = *mine;
    shm = mmap(NULL, sizeof(shared_t), PROT_READ | PROT_WRITE, MAP_SHARED | MAP_ANONYMOUS, -1, 0);
    if (shm == MAP_FAILED) vh_fatal("mmap shared (nested): %s", strerror(errno));
    snprintf(nbase, sizeof(nbase), "%s-n", dir);
    iom_pause(1); vh_mkdir_p(nbase); iom_pause(-1);
    vh_reset_counts();
    /* file-number reuse after a crash (C13): every log found on disk is replayed and its number reserved, so
       a correct recovery or later incarnation never truncates an EXISTING write-ahead log when it creates one */
    {
      size_t q;
      for (q = 0; q < iom_nevents(); q++) {
        const iom_event_t *e = iom_event(q);
        if (e->op == IOP_CREATE && e->res >= 0 && e->pc == PC_LOG && (e->flags & IOM_F_NEWOBJ) && (e->flags & IOM_F_EXISTED)) {
          vh_violation("C13", "existing-log-truncated-by-number-reuse", "%s: log #%llu already existed when the %s created (O_TRUNC) it again: a file number was reused for a live file",
                       img, (unsigned long long)e->num, do_nested == 2 ? "recovered incarnation" : "recovery");
          break;
        }
      }
      vh_count("post_crash_traces_checked_for_number_reuse", 1);
    }
    depth++;
    explore(nbase, S);
    depth--;
    vh_count(do_nested == 2 ? "chain_links_explored" : "nested_recoveries_explored", 1);
    vh_flush_counts();
    iom_pause(1); vh_rm_rf(nbase); iom_pause(-1);
    munmap(shm, sizeof(shared_t));
    shm = mine;
    *shm = saved;
    shm->counters[CN_NESTED]++;
  }
out:
  if (h.db != NULL) dbh_close(&h);
  dbh_destroy(&h);
  free(S); free(S2);
  shm->done = 1;
}

/* follow-up workload after recovery: writes take precedence and persist */
static void followup_and_chain(dbh_t *h, uint8_t *S, const char *img, int do_chain) {
  kv_t exp[NKEYS];
  char kb[KEYBUF];
  int i, rc;
  uint64_t fvid[NKEYS];
  int fstate[NKEYS];   /* 0 untouched, 1 put, 2 deleted */
  (void)do_chain;
  fold(S, exp);
  memset(fstate, 0, sizeof(fstate));
  for (i = 0; i < 40; i++) {
    int k = (int)vr_uniform(&R, NKEYS);
    ldb_slice_t key = ldb_slice(kb, data_key(kb, k)), v;
    if (vr_chance(&R, 250)) {
      rc = ldb_del(h->db, &key, NULL);
      fstate[k] = 2;
    } else {
      uint32_t len = 8 + vr_uniform(&R, 2000);
      fvid[k] = make_vid(60000 + i, k, 1);
      vh_fill_value(vbuf, len, fvid[k]);
      v = ldb_slice(vbuf, len);
      rc = ldb_put(h->db, &key, &v, NULL);
      fstate[k] = 1;
    }
    if (rc != LDB_OK) { child_viol("C05", "write-after-recovery-failed", "%s: write after recovery returned %d", img, rc); return; }
    if (i == 20) { ldb_test_compact_memtable(h->db); ldb_test_compact_range(h->db, 0, NULL, NULL); }
  }
  dbh_close(h);
  rc = dbh_open(h, 0);
  if (rc != LDB_OK) { child_viol("C05", "open-after-followup-failed", "%s: rc=%d", img, rc); return; }
  for (i = 0; i < NKEYS; i++) {
    ldb_slice_t key = ldb_slice(kb, data_key(kb, i)), v;
    int want_present, ok = 1;
    rc = ldb_get(h->db, &key, &v, NULL);
    if (fstate[i] == 1) { want_present = 1; ok = rc == LDB_OK && vh_value_vid(v.data, v.size) == fvid[i]; }
    else if (fstate[i] == 2) { want_present = 0; ok = rc == LDB_NOTFOUND; }
    else { want_present = exp[i].present; ok = want_present ? (rc == LDB_OK && vh_value_vid(v.data, v.size) == exp[i].vid) : rc == LDB_NOTFOUND; }
    if (!ok)
      child_viol("C05", fstate[i] ? "write-after-recovery-not-persistent" : "recovered-data-changed-after-followup",
                 "%s: key d/%03d after follow-up+reopen: rc=%d want_present=%d", img, i, rc, want_present);
    if (rc == LDB_OK) ldb_free(v.data);
  }
  shm->counters[CN_FOLLOWUPS]++;
}

/* ------------------------------------------------------------------ */
/* explorer */

static uint64_t *seen_hashes = NULL;
static size_t nseen = 0, capseen = 0;

static int seen_before(uint64_t h) {
  size_t i, mask;
  if (h == 0) h = 1;
  if (capseen == 0 || nseen * 2 >= capseen) {
    size_t ncap = capseen ? capseen * 2 : 4096, j;
    uint64_t *nh = calloc(ncap, sizeof(uint64_t));
    for (j = 0; j < capseen; j++) if (seen_hashes[j]) {
      size_t k = seen_hashes[j] & (ncap - 1);
      while (nh[k]) k = (k + 1) & (ncap - 1);
      nh[k] = seen_hashes[j];
    }
    free(seen_hashes);
    seen_hashes = nh;
    capseen = ncap;
  }
  mask = capseen - 1;
  i = h & mask;
  while (seen_hashes[i]) { if (seen_hashes[i] == h) return 1; i = (i + 1) & mask; }
  seen_hashes[i] = h;
  nseen++;
  return 0;
}

static int img_counter = 0;
static char inproc_what[200];

static void on_fatal_signal(int sig) {
  /* the library crashed while recovering an image in this process */
  char buf[400];
  int n = snprintf(buf, sizeof(buf), "{\"t\":\"viol\",\"prop\":\"C05\",\"key\":\"recovery-crash\",\"ctx\":\"crashmon\",\"msg\":\"signal %d while recovering %s\"}\n", sig, inproc_what);
  if (inproc_what[0] && n > 0) { ssize_t w = write(1, buf, (size_t)n); (void)w; }
  signal(sig, SIG_DFL);
  raise(sig);
}

static void run_image(const fsm_t *f, image_t *im, const char *base, int do_follow, int do_nested) {
  char dir[700], keepdir[900];
  uint64_t h;
  expect_t x;
  pid_t pid;
  int status, i, nreq = 0;
  size_t k;
  double t0;

  /* account what is withheld */
  im->withheld_bytes = 0;
  for (k = 0; k < f->nobj; k++) if (f->w[k] > im->l[k]) im->withheld_bytes += f->w[k] - im->l[k];
  im->withheld_dirops = f->ndirops - im->d;

  snprintf(dir, sizeof(dir), "%s/img-%d-%d", base, (int)getpid(), img_counter++);
  t0 = vh_now();
  image_write(f, im, dir, &h);
  vh_count("us_materialise", (uint64_t)((vh_now() - t0) * 1e6));
  h ^= ((uint64_t)im->kind == K_MAX ? 0x1111 : 0);   /* the MAX image carries the stronger C03 oracle */
  if (seen_before(h ^ (uint64_t)do_follow ^ ((uint64_t)do_nested << 1))) {
    iom_pause(1); vh_rm_rf(dir); iom_pause(-1);
    vh_count("images_deduplicated", 1);
    return;
  }
  expect_at(&x, im->p);
  x.kind = im->kind;
  for (i = 1; i <= nbatches; i++) nreq += x.required[i];

  if (getenv("CRASHMON_KEEP")) {
    snprintf(keepdir, sizeof(keepdir), "%s/kept-%d-%d", getenv("CRASHMON_KEEP"), (int)getpid(), img_counter);
    iom_pause(1);
    vh_copy_dir(dir, keepdir);
    iom_pause(-1);
  }
  memset(shm, 0, sizeof(*shm));
  t0 = vh_now();
  if (!do_nested) {
    /* plain image: recover in this process (a crash of the library then ends the
       case and is reported by the driver as a crash of the monitor process) */
    snprintf(inproc_what, sizeof(inproc_what), "image [inc %d depth %d p=%zu %s d=%zu]", incarnation, depth, im->p,
             kind_name[im->kind], im->d);
    child_main(dir, &x, im, do_follow, 0);
    inproc_what[0] = 0;
    iom_trace(0, 1);
    status = 0;
  } else {
    fflush(NULL);
    pid = iom_fork();
    if (pid < 0) vh_fatal("fork: %s", strerror(errno));
    if (pid == 0) {
      child_main(dir, &x, im, do_follow, do_nested);
      _exit(0);
    }
    while (waitpid(pid, &status, 0) < 0 && errno == EINTR) {}
  }
  vh_count("us_child", (uint64_t)((vh_now() - t0) * 1e6));
  vh_count("images", 1);
  vh_count(depth == 0 ? "images_depth0" : "images_nested", 1);
  {
    char nm[64];
    snprintf(nm, sizeof(nm), "images_%s", kind_name[im->kind]);
    vh_count(nm, 1);
  }
  if (!WIFEXITED(status) || WEXITSTATUS(status) != 0 || !shm->done) {
    int sig = WIFSIGNALED(status) ? WTERMSIG(status) : 0;
    if (sig == SIGALRM) {
      vh_violation("C05", "recovery-hang", "recovery child exceeded 120 s on image [inc %d depth %d p=%zu %s]", incarnation, depth, im->p, kind_name[im->kind]);
    } else {
      vh_violation("C05", "recovery-crash", "recovery child died (signal %d, status %d) on image [inc %d depth %d p=%zu %s d=%zu]",
                   sig, status, incarnation, depth, im->p, kind_name[im->kind], im->d);
    }
  }
  for (i = 0; i < shm->nviol; i++) vh_violation(shm->v[i].prop, shm->v[i].key, "%s", shm->v[i].msg);
  /* evidence */
  vh_count("recoveries_ok", shm->counters[CN_OPEN_OK]);
  vh_count("followups", shm->counters[CN_FOLLOWUPS]);
  vh_count("second_opens", shm->counters[CN_SECOND_OPEN]);
  vh_count("nested_explorations", shm->counters[CN_NESTED]);
  vh_count("current_checked", shm->counters[CN_CURRENT_CHECKED]);
  vh_count("manifests_replayed_independently", shm->counters[CN_MANIFEST_REPLAYED]);
  vh_count("images_with_torn_manifest_tail", shm->counters[CN_HALF_MANIFEST]);
  vh_count("images_with_two_logs", shm->counters[CN_TWO_LOGS]);
  vh_count("images_with_dbtmp", shm->counters[CN_DBTMP]);
  vh_count("keys_compared", shm->counters[CN_KEYS_CHECKED]);
  vh_count("leak_checks_after_recovery", shm->counters[CN_LEAK_CHECKS]);
  if (nreq > 0 && (im->withheld_bytes > 0 || im->withheld_dirops > 0)) {
    vh_count("nontrivial_c02_images", 1);
    vh_distinct("c02_image", "%llx", (unsigned long long)h);
  }
  if (im->kind == K_MAX) {
    vh_count("max_images", 1);
    vh_distinct("c03_image", "%llx", (unsigned long long)h);
  }
  vh_distinct("c05_image", "%llx", (unsigned long long)h);
  vh_distinct("recovered_sets", "%llx", (unsigned long long)shm->s_hash);
  {
    const iom_event_t *e = iom_event(im->p - 1);
    vh_distinct("crashpoint_class", "%s/%s/%s", iom_opname[e->op], iom_pcname[e->pc], kind_name[im->kind]);
  }
  if (img_counter % 500 == 1 || shm->nviol > 0) {
    const iom_event_t *e = iom_event(im->p - 1);
    vh_sample(focus == F_C02 ? "C02" : focus == F_C03 ? "C03" : focus == F_C04 ? "C04" : "C05",
              "case %d inc %d depth %d: crash after event %zu/%zu (%s %s #%llu), image %s d=%zu/%zu withheld %llu bytes %zu dirops; "
              "required %d batches; recovered |S|=%d; violations %d; %.1f ms",
              g_case, incarnation, depth, im->p, iom_nevents(), iom_opname[e->op], iom_pcname[e->pc],
              (unsigned long long)e->num, kind_name[im->kind], im->d, f->ndirops,
              (unsigned long long)im->withheld_bytes, im->withheld_dirops, nreq, shm->s_count, shm->nviol,
              (vh_now() - t0) * 1000);
  }
  expect_free(&x);
  t0 = vh_now();
  if (getenv("CRASHMON_KEEP")) {
    if (shm->nviol > 0) vh_note("kept pristine image with violations (%s: %s) in %s", shm->v[0].prop, shm->v[0].key, keepdir);
    else { iom_pause(1); vh_rm_rf(keepdir); iom_pause(-1); }
  }
  iom_pause(1);
  vh_rm_rf(dir);
  iom_pause(-1);
  vh_count("us_cleanup", (uint64_t)((vh_now() - t0) * 1e6));
}

static int point_selected(size_t p, size_t n, const uint8_t *sel) { (void)n; return sel[p]; }

/* enumerate crash points of the trace currently held by iomon */
static void explore(const char *base, const uint8_t *acked_base) {
  fsm_t f;
  size_t n = iom_nevents(), p, nsel = 0;
  uint8_t *sel = calloc(n + 2, 1);
  image_t im;
  int follow_every = focus == F_C05 ? 3 : 0;
  long budget = depth > 0 ? (points_max > 0 && points_max < 300 ? points_max : 300) : points_max;
  long nested_budget = nested_max;
  long budget_cat[3];     /* separate allowances: inside multi-block WAL record, inside multi-block MANIFEST record, other */
  budget_cat[0] = budget_cat[1] = budget_cat[2] = nested_max / 3 + (nested_max > 0);
  (void)acked_base;

  remember_preexisting();
  find_segments();
  if (getenv("CRASHMON_DUMP")) {
    size_t q;
    for (q = 0; q < n; q++) {
      const iom_event_t *e = iom_event(q);
      if (e->pc == PC_MANIFEST || e->pc == PC_DIR)
        fprintf(stderr, "ev %zu tid %d %s %s #%llu off %llu len %llu res %d\n", q, e->tid, iom_opname[e->op], iom_pcname[e->pc],
                (unsigned long long)e->num, (unsigned long long)e->off, (unsigned long long)e->len, e->res);
    }
  }

  /* selection: every state-changing event and every ACK marker ... */
  for (p = 1; p <= n; p++) {
    const iom_event_t *e = iom_event(p - 1);
    int sc = (e->op == IOP_WRITE || e->op == IOP_FSYNC || e->op == IOP_RENAME || e->op == IOP_UNLINK ||
              e->op == IOP_LINK || e->op == IOP_MKDIR || (e->op == IOP_CREATE && (e->flags & IOM_F_NEWOBJ)) ||
              (e->op == IOP_MARK && e->flags == MK_ACK));
    if (sc) { sel[p] = 1; nsel++; }
  }
  /* ... thinned to the budget: keep all non-write events and their +-3 neighbours, sample the rest */
  if (budget > 0 && (long)nsel > budget) {
    uint8_t *keep = calloc(n + 2, 1);
    size_t kept = 0;
    for (p = 1; p <= n; p++) {
      const iom_event_t *e = iom_event(p - 1);
      if (sel[p] && e->op != IOP_WRITE && e->op != IOP_MARK) {
        long q;
        for (q = (long)p - 3; q <= (long)p + 3; q++) if (q >= 1 && q <= (long)n && sel[q] && !keep[q]) { keep[q] = 1; kept++; }
      }
    }
    for (p = 1; p <= n; p++) {
      if (sel[p] && !keep[p] && (long)kept < budget && vr_uniform(&R, (uint32_t)nsel) < (uint32_t)budget) { keep[p] = 1; kept++; }
    }
    memcpy(sel, keep, n + 2);
    free(keep);
    vh_count("crash_points_thinned", 1);
  } else if (depth == 0) {
    vh_count("traces_explored_exhaustively", 1);
  }

  fsm_init(&f);
  im.l = calloc(f.nobj + 1, sizeof(uint64_t));
  for (p = 1; p <= n; p++) {
    size_t k;
    int do_follow, do_nested;
    fsm_step(&f);
    if (!point_selected(p, n, sel)) continue;
    vh_count(depth == 0 ? "crash_points" : "crash_points_nested", 1);
    do_follow = follow_every && (vr_uniform(&R, (uint32_t)follow_every) == 0 || iom_event(p - 1)->op != IOP_WRITE);
    do_nested = 0;
    if (depth + 1 < max_depth && nested_budget > 0) {
      const iom_event_t *e = iom_event(p - 1);
      const iom_event_t *ne = p < n ? iom_event(p) : NULL;     /* the call the process was about to make */
      uint32_t pr = 4;                                      /* permille */
      int cat = 2;
      if (ne != NULL && e->op == IOP_WRITE && (e->pc == PC_LOG || e->pc == PC_MANIFEST) && ne->op == IOP_WRITE &&
          ne->pc == e->pc && ne->obj == e->obj && ne->tid == e->tid) {
        /* between two write(2)s of one multi-block record */
        pr = 600;
        cat = e->pc == PC_LOG ? 0 : 1;
        vh_count(e->pc == PC_LOG ? "points_inside_multiblock_wal_record" : "points_inside_multiblock_manifest_record", 1);
      }
      else if (e->pc == PC_MANIFEST || e->pc == PC_CURRENT || e->pc == PC_DBTMP) pr = 120;
      else if (e->op == IOP_CREATE && e->pc == PC_LOG) pr = 200;
      else if (e->op == IOP_UNLINK) pr = 60;
      if (budget_cat[cat] > 0 && vr_chance(&R, pr)) {
        do_nested = cat == 2 ? 1 + (int)vr_uniform(&R, 2) : 2;
        nested_budget--;
        budget_cat[cat]--;
      }
    }
    im.p = p;
    /* MAX */
    im.kind = K_MAX; im.d = f.ndirops;
    for (k = 0; k < f.nobj; k++) im.l[k] = f.w[k];
    run_image(&f, &im, base, do_nested ? 0 : do_follow, do_nested);
    if (focus == F_C03 || depth > 0) {
      /* process-crash property: byte-exact image only; nested/chained levels: byte-exact + torn */
    } else {
      /* MIN */
      im.kind = K_MIN; im.d = f.d_sync;
      for (k = 0; k < f.nobj; k++) im.l[k] = f.s[k];
      run_image(&f, &im, base, do_follow, 0);
      /* DIR-AHEAD */
      im.kind = K_DIRAHEAD; im.d = f.ndirops;
      for (k = 0; k < f.nobj; k++) im.l[k] = f.s[k];
      run_image(&f, &im, base, do_follow, 0);
      /* DATA-AHEAD */
      im.kind = K_DATAAHEAD; im.d = f.d_sync;
      for (k = 0; k < f.nobj; k++) im.l[k] = f.w[k];
      run_image(&f, &im, base, do_follow, 0);
      /* RANDOM x2 */
      {
        int rr;
        for (rr = 0; rr < 2; rr++) {
          im.kind = K_RANDOM;
          im.d = f.d_sync + vr_uniform(&R, (uint32_t)(f.ndirops - f.d_sync + 1));
          for (k = 0; k < f.nobj; k++) {
            uint64_t span = f.w[k] - f.s[k];
            uint32_t c = vr_uniform(&R, 4);
            im.l[k] = c == 0 ? f.s[k] : c == 1 ? f.w[k] : f.s[k] + (span ? vr_next(&R) % (span + 1) : 0);
          }
          run_image(&f, &im, base, do_follow, 0);
        }
      }
    }
    /* TORN: cuts inside the write that just happened */
    if (f.last_write_ev == p - 1 && focus != F_C03) {
      const iom_event_t *e = iom_event(p - 1);
      uint64_t cuts[4];
      int nc = 0, ci;
      if (e->len >= 2 && e->obj >= 0) {
        cuts[nc++] = 1;
        if (e->len >= 4) cuts[nc++] = e->len / 2;
        cuts[nc++] = e->len - 1;
        if (e->len >= 16) cuts[nc++] = 1 + vr_next(&R) % (e->len - 1);
        for (ci = 0; ci < nc; ci++) {
          if (e->off + cuts[ci] < f.s[e->obj]) continue;
          int tn = 0;
          /* chains that start from a torn tail (a later incarnation appends after it) */
          if (depth + 1 < max_depth && nested_budget > 0 && (e->pc == PC_MANIFEST || e->pc == PC_LOG) &&
              vr_chance(&R, e->pc == PC_MANIFEST ? 400 : 60)) { tn = 2; nested_budget--; }
          im.kind = K_TORN; im.d = f.ndirops;
          for (k = 0; k < f.nobj; k++) im.l[k] = f.w[k];
          im.l[e->obj] = e->off + cuts[ci];
          run_image(&f, &im, base, tn ? 0 : do_follow, tn);
          vh_count("torn_images", 1);
          if (depth > 0) continue;
          /* torn tail on top of the minimal directory/data state of everything else */
          if (ci == 1) {
            im.d = f.ndirops;
            for (k = 0; k < f.nobj; k++) im.l[k] = f.s[k];
            im.l[e->obj] = e->off + cuts[ci];
            if (im.l[e->obj] >= f.s[e->obj]) run_image(&f, &im, base, do_follow, 0);
          }
        }
      }
    }
  }
  free(im.l);
  free(sel);
  fsm_free(&f);
}

/* ------------------------------------------------------------------ */

int main(int argc, char **argv) {
  int nb = 150, i;
  char dir[700], imgbase[700];
  dbh_t h;
  int rc;
  const char *base = "/dev/shm/verif-crashmon";

  for (i = 1; i < argc; i++) {
    if (!strcmp(argv[i], "--seed") && i + 1 < argc) g_seed = strtoull(argv[++i], NULL, 0);
    else if (!strcmp(argv[i], "--case") && i + 1 < argc) g_case = atoi(argv[++i]);
    else if (!strcmp(argv[i], "--batches") && i + 1 < argc) nb = atoi(argv[++i]);
    else if (!strcmp(argv[i], "--points-max") && i + 1 < argc) points_max = atol(argv[++i]);
    else if (!strcmp(argv[i], "--depth") && i + 1 < argc) max_depth = atoi(argv[++i]);
    else if (!strcmp(argv[i], "--nested-max") && i + 1 < argc) nested_max = atol(argv[++i]);
    else if (!strcmp(argv[i], "--writers") && i + 1 < argc) mw_writers = atoi(argv[++i]);
    else if (!strcmp(argv[i], "--keypad") && i + 1 < argc) keypad_opt = atoi(argv[++i]);
    else if (!strcmp(argv[i], "--dir") && i + 1 < argc) base = argv[++i];
    else if (!strcmp(argv[i], "--focus") && i + 1 < argc) {
      const char *fn = argv[++i];
      int k;
      for (k = 0; k < 4; k++) if (!strcmp(fn, focus_name[k])) focus = k;
    } else { fprintf(stderr, "unknown argument %s\n", argv[i]); return 2; }
  }
  vh_init(NULL);
  mallopt(M_MMAP_THRESHOLD, 64 << 20);
  signal(SIGPIPE, SIG_IGN);
  signal(SIGSEGV, on_fatal_signal);
  signal(SIGABRT, on_fatal_signal);
  signal(SIGBUS, on_fatal_signal);
  signal(SIGFPE, on_fatal_signal);
  shm = mmap(NULL, sizeof(shared_t), PROT_READ | PROT_WRITE, MAP_SHARED | MAP_ANONYMOUS, -1, 0);
  if (shm == MAP_FAILED) vh_fatal("mmap shared: %s", strerror(errno));
  vbuf = malloc(MAXV + 64);
  vr_seed(&R, g_seed * 1000003ULL + (uint64_t)g_case * 7919ULL + (uint64_t)focus * 31ULL);
  snprintf(base_dir, sizeof(base_dir), "%s/c%d", base, g_case);
  iom_pause(1);
  vh_rm_rf(base_dir);
  vh_mkdir_p(base_dir);
  iom_pause(-1);
  snprintf(dir, sizeof(dir), "%s/db", base_dir);
  snprintf(imgbase, sizeof(imgbase), "%s/img", base_dir);
  iom_pause(1); vh_mkdir_p(imgbase); iom_pause(-1);
  vh_set_context("crashmon focus=%s seed=%llu case=%d", focus_name[focus], (unsigned long long)g_seed, g_case);

  cfg_default(&rec_cfg);
  rec_cfg.write_buffer_size = (g_case & 1) ? (128 << 10) : (64 << 10);
  rec_cfg.reuse_logs = (g_case >> 1) & 1;
  rec_cfg.compression = (g_case >> 2) & 1;
  rec_cfg.block_size = 1024 << (g_case % 3);
  rec_cfg.filter_bits = (g_case % 3 == 0) ? 10 : 0;
  rec_cfg.use_mmap = (g_case >> 3) & 1;
  rec_cfg.max_file_size = 1 << 20;
  rec_cfg.paranoid = (g_case >> 1) & 1;
  if (keypad_opt >= 0) keypad = keypad_opt;

  base_present = calloc(4, 1);
  iom_trace_reset();
  iom_clear_roots();
  iom_add_root(dir);
  iom_trace(1, 1);
  dbh_init(&h, dir, &rec_cfg);
  rc = dbh_open(&h, 1);
  if (rc != LDB_OK) vh_fatal("cannot create database rc=%d", rc);
  iom_mark(MK_OPENED, 0, 0);
  first_batch_of_incarnation = 0;
  if (mw_writers > 1) run_workload_mt(&h, nb, mw_writers);
  else run_workload(&h, nb, 1);
  dbh_destroy(&h);
  iom_trace(0, 1);

  {
    size_t oi, mx = 0;
    for (oi = 0; oi < iom_nobjs(); oi++) if (iom_obj((int)oi)->pc == PC_MANIFEST && iom_obj((int)oi)->len > mx) mx = iom_obj((int)oi)->len;
    vh_count("largest_manifest_bytes", mx);
    if (mx > 32768) vh_count("workloads_with_multiblock_manifest", 1);
  }
  vh_count("workloads", 1);
  vh_count("trace_events", iom_nevents());
  vh_count("batches_issued", (uint64_t)nbatches);
  vh_count("workload_level0_tables", h.log.level0_started);
  vh_count("workload_compactions", h.log.compacting);
  vh_count("workload_reused_logs", h.log.reusing);
  if (mw_writers > 1) {
    vh_count("group_commit_workloads", 1);
    vh_count("group_commit_batches", (uint64_t)nbatches);
    vh_count("group_commit_log_records", logged_records);
    if (logged_records < (uint64_t)nbatches) vh_count("group_commit_merged_batches", (uint64_t)nbatches - logged_records);
  }
  {
    int multi = 0, syncs = 0;
    for (i = 0; i < nbatches; i++) { syncs += batches[i].sync; if (batches[i].nupd > 100) multi++; }
    vh_count("sync_batches", (uint64_t)syncs);
    vh_count("large_batches", (uint64_t)multi);
  }
  explore(imgbase, NULL);
  iom_pause(1);
  vh_rm_rf(base_dir);
  iom_pause(-1);
  vh_finish();
  return 0;
}

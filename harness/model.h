/* model - in-memory versioned sorted map (the reference for histmon & co). */
#ifndef MODEL_H
#define MODEL_H

#include <stddef.h>
#include <stdint.h>
#include <lcdb.h>

/* CMP_NOCASE: ASCII letters compare case-insensitively: distinct byte strings can be the SAME key
   (a comparator with equivalence classes, legal for LevelDB as long as no byte-wise filter policy is used) */
enum { CMP_BYTEWISE = 0, CMP_REVERSE = 1, CMP_LENFIRST = 2, CMP_NOCASE = 3, CMP_KINDS = 4 };

typedef struct mver_s {
  uint64_t ver;      /* model version at which this entry became current */
  int present;       /* 0 = tombstone */
  uint64_t vid;      /* value id (see vh_fill_value) */
  uint32_t vlen;
  uint32_t spell;    /* spelling of the key used by this write (CMP_NOCASE); 0 = canonical */
} mver_t;

typedef struct mrow_s {
  uint8_t *key;
  size_t klen;
  mver_t *v;
  size_t nv, cap;
} mrow_t;

typedef struct model_s {
  mrow_t *rows;
  size_t nrows, caprows;
  int cmp_kind;
  uint64_t version;  /* increases by one per applied update */
  int finalized;
} model_t;

int m_cmp(int kind, const void *a, size_t alen, const void *b, size_t blen);
const ldb_comparator_t *m_comparator(int kind);   /* lcdb comparator for the kind */

void m_init(model_t *m, int cmp_kind);
void m_free(model_t *m);
void m_add_key(model_t *m, const void *k, size_t n);  /* before finalize */
void m_finalize(model_t *m);                           /* sort + dedupe */
int m_find(const model_t *m, const void *k, size_t n); /* row or -1 */

uint64_t m_put(model_t *m, int row, uint64_t vid, uint32_t vlen); /* returns new version */
uint64_t m_put_spell(model_t *m, int row, uint64_t vid, uint32_t vlen, uint32_t spell);
/* the row's key written with spelling `spell` (case of ASCII letters flipped pseudo-randomly); out has klen bytes */
void m_spelled_key(const model_t *m, int row, uint32_t spell, uint8_t *out);
uint64_t m_del(model_t *m, int row);
/* newest entry with ver <= at (NULL = never written); tombstones are returned */
const mver_t *m_get(const model_t *m, int row, uint64_t at);
int m_live(const model_t *m, int row, uint64_t at);    /* present at version */

/* ordered navigation over rows live at version `at`; -1 = none */
int m_first(const model_t *m, uint64_t at);
int m_last(const model_t *m, uint64_t at);
int m_next(const model_t *m, int row, uint64_t at);
int m_prev(const model_t *m, int row, uint64_t at);
int m_seek_ge(const model_t *m, const void *k, size_t n, uint64_t at);
int m_seek_gt(const model_t *m, const void *k, size_t n, uint64_t at);
int m_seek_le(const model_t *m, const void *k, size_t n, uint64_t at);
int m_seek_lt(const model_t *m, const void *k, size_t n, uint64_t at);
size_t m_count_live(const model_t *m, uint64_t at);

/* forget history older than `keep_from` (the oldest version any reader can
 * still ask for): keeps the newest entry <= keep_from and everything after. */
void m_trim(model_t *m, uint64_t keep_from);

#endif

/* dbh - shared helpers for monitors that drive a real lcdb handle:
 * option configurations, key universes, info-log capture, layout parsing. */
#ifndef DBH_H
#define DBH_H

#include <lcdb.h>
#include "model.h"
#include "vh.h"

/* internal (hidden-visibility) entry points linkable from the static archive */
int ldb_test_compact_memtable(ldb_t *db);
void ldb_test_compact_range(ldb_t *db, int level, const ldb_slice_t *begin, const ldb_slice_t *end);
void ldb_verif_wait_idle(ldb_t *db);
void ldb_verif_counters(ldb_t *db, uint64_t *out);
extern void (*ldb_verif_point_cb)(int id, const void *p, uint64_t a, uint64_t b);

typedef struct cfg_s {
  size_t write_buffer_size, block_size, max_file_size;
  int restart, compression, filter_bits /* 0 = none */;
  int cache_kind /* 0 default, 1 tiny (8 KiB), 2 roomy explicit */;
  int use_mmap, reuse_logs, max_open_files, cmp_kind, paranoid;
} cfg_t;

void cfg_default(cfg_t *c);
void cfg_random(cfg_t *c, vrng_t *r);
/* vary only the options that may legally change across a reopen */
void cfg_mutate_reopen(cfg_t *c, vrng_t *r);
const char *cfg_id(const cfg_t *c);  /* static buffer */

/* info-log event counters (atomic) */
typedef struct loginfo_s {
  uint64_t compacting, compacted, level0_started, moved, deleted, reusing, manual,
           trivial, generated, errors, waiting_mem, waiting_l0, recovering, lines;
  char last_error[200];
} loginfo_t;

typedef struct dbh_s {
  ldb_t *db;
  ldb_dbopt_t opt;
  ldb_bloom_t *bloom;
  ldb_lru_t *cache;
  ldb_logger_t *logger;
  cfg_t cfg;
  char dir[600];
  loginfo_t log;
} dbh_t;

void dbh_init(dbh_t *h, const char *dir, const cfg_t *cfg);
int dbh_open(dbh_t *h, int create_if_missing);   /* returns lcdb status */
void dbh_close(dbh_t *h);                        /* closes handle, keeps helper objects */
void dbh_destroy(dbh_t *h);                      /* frees bloom/cache/logger */
void dbh_set_cfg(dbh_t *h, const cfg_t *cfg);    /* while closed */

/* layout parsed from "leveldb.sstables" */
typedef struct lfile_s {
  int level;
  uint64_t number, size;
  char *bounds;   /* text between '[' and the final ']' (escaped domain) */
} lfile_t;

typedef struct layout_s {
  lfile_t *files;
  size_t n;
  int per_level[7];
  char *raw;
} layout_t;

int dbh_layout(ldb_t *db, layout_t *out);   /* 1 ok */
void layout_free(layout_t *l);
const char *layout_sig(const layout_t *l);  /* "a/b/c/d/e/f/g" files per level (static buf) */
int layout_has(const layout_t *l, uint64_t number);

/* key universe: n keys of hostile shapes, added to (and finalizing) the model */
void universe_generate(model_t *m, vrng_t *r, int nkeys);
/* value length distribution; big=1 allows 300 KiB..1.2 MiB */
uint32_t value_len_random(vrng_t *r, int allow_big);

/* list directory entries (names only, excluding . and ..); returns count, caller frees with dir_free */
int dir_list(const char *dir, char ***names);
void dir_free(char **names, int n);

#endif

/* fmtmon_table - C16 "table files round-trip under every option and follow
 * the standard format".
 *
 *   fmtmon_table --seed S --mode table|snappy|sep --first I --count N --dir D [--big 1]
 *
 * Runs cases I..I+N-1 of a deterministic enumeration (per seed and mode), so
 * the driver can shard one enumeration over many processes.
 *
 * mode table : REAL ldb_tablegen_* builds a table file from a generated sorted
 *              entry set under an option tuple, the REAL reader (ldb_table_open,
 *              ldb_tableiter, ldb_table_internal_get, ldb_filter_matches,
 *              ldb_table_approximate_offset) reads it back, and the independent
 *              reference reader (refcodec.c: rc_table_decode) decodes the bytes.
 * mode snappy: REAL snappy_encode/snappy_decode against rc_snappy_decode /
 *              rc_snappy_encode, plus truncated / altered streams.
 * mode sep   : shortest_separator / short_successor contract (bytewise and
 *              internal-key comparator), exhaustive on short strings + random.
 *
 * The ordering oracle is m_cmp() (model.c) + the 8-byte trailer rule written
 * here; lcdb's comparators are only ever the object under test.
 *
 * Link: fmtmon_table.c vh.c refcodec.c model.c   (wrap=())
 */
#include <fcntl.h>
#include <malloc.h>
#include <sys/stat.h>
#include <unistd.h>

#include "vh.h"
#include "refcodec.h"

#include "util/types.h"
#include "util/buffer.h"
#include "util/slice.h"
#include "util/comparator.h"
#include "util/bloom.h"
#include "util/cache.h"
#include "util/env.h"
#include "util/options.h"
#include "util/snappy.h"
#include "util/status.h"
#include "table/iterator.h"
#include "table/filter_block.h"
#include "table/table.h"
#include "table/table_builder.h"
#include "dbformat.h"

/* From model.h.  model.h itself cannot be included here: it pulls in the
 * public <lcdb.h>, whose struct definitions collide with lcdb's internal
 * headers.  The two declarations below are layout-compatible (one library). */
enum { CMP_BYTEWISE = 0, CMP_REVERSE = 1 };
int m_cmp(int kind, const void *a, size_t alen, const void *b, size_t blen);
const ldb_comparator_t *m_comparator(int kind);

#define PROP "C16"
#define MAXSEQ ((UINT64_C(1) << 56) - 1)

enum { K_PLAIN = 0, K_IBYTE = 1, K_IREV = 2 };
static const char *kind_name[3] = {"plain-bytewise", "internal-bytewise", "internal-reverse"};

static ldb_comparator_t ikc_byte, ikc_rev;
static uint64_t g_seed = 1;
static int g_big = 0;
static const char *g_dir = "/dev/shm/verif-fmtmon-table";
static const char *g_mode = "table";

/* ------------------------------------------------------------------ helpers */

static void *xmalloc(size_t n) {
  void *p = malloc(n ? n : 1);
  if (p == NULL) vh_fatal("out of memory (%zu bytes)", n);
  return p;
}

static uint8_t *xdup(const uint8_t *p, size_t n) {
  uint8_t *q = xmalloc(n);
  if (n) memcpy(q, p, n);
  return q;
}

static void case_rng(vrng_t *r, const char *mode, uint64_t idx) {
  uint64_t h = vh_hash64(mode, strlen(mode), g_seed * 0x9e3779b97f4a7c15ULL + 77);
  vr_seed(r, h ^ (idx * 0xd1342543de82ef95ULL + 0x2545f4914f6cdd1dULL));
}

/* per-case de-duplication of violation keys: the first occurrence of a key is
 * reported in full, repeats inside the same case are only counted */
#define MAXKEYS 48
static const char *seen_keys[MAXKEYS];
static int nseen = 0;

static void case_begin(void) { nseen = 0; }

static int first_time(const char *key) {
  int i;
  for (i = 0; i < nseen; i++) if (strcmp(seen_keys[i], key) == 0) { vh_count("c16_repeat_violations_suppressed", 1); return 0; }
  if (nseen < MAXKEYS) seen_keys[nseen++] = key;
  return 1;
}

#define VIOL(key, ...) do { if (first_time(key)) vh_violation(PROP, key, __VA_ARGS__); } while (0)

/* oracle order of the key domain */
static int ocmp(int kind, const uint8_t *a, size_t al, const uint8_t *b, size_t bl) {
  int uc, c;
  uint64_t ta, tb;
  if (kind == K_PLAIN) return m_cmp(CMP_BYTEWISE, a, al, b, bl);
  uc = kind == K_IREV ? CMP_REVERSE : CMP_BYTEWISE;
  if (al < 8 || bl < 8) vh_fatal("ocmp: internal key shorter than 8 bytes");
  c = m_cmp(uc, a, al - 8, b, bl - 8);
  if (c != 0) return c;
  ta = rc_get_fixed64(a + al - 8);
  tb = rc_get_fixed64(b + bl - 8);
  return ta > tb ? -1 : ta < tb ? 1 : 0;   /* larger (seq,type) sorts first */
}

static int ucmp_of(int kind) { return kind == K_IREV ? CMP_REVERSE : CMP_BYTEWISE; }

/* printable rendering of a key of the given domain */
static const char *kstr(int kind, const uint8_t *k, size_t kl) {
  static char ring[8][900];
  static int pos = 0;
  char *b = ring[pos++ % 8];
  if (kind == K_PLAIN || kl < 8) {
    snprintf(b, 900, "'%s'[%zu]", vh_esc(k, kl), kl);
  } else {
    uint64_t tag = rc_get_fixed64(k + kl - 8);
    snprintf(b, 900, "'%s'[%zu]@%llu:%u", vh_esc(k, kl - 8), kl - 8, (unsigned long long)(tag >> 8), (unsigned)(tag & 0xff));
  }
  return b;
}

static uint8_t *read_whole(const char *path, size_t *n) {
  struct stat st;
  int fd = open(path, O_RDONLY);
  uint8_t *buf;
  size_t got = 0;
  ssize_t r;
  if (fd < 0 || fstat(fd, &st) != 0) vh_fatal("cannot open %s", path);
  buf = xmalloc((size_t)st.st_size);
  while (got < (size_t)st.st_size && (r = read(fd, buf + got, (size_t)st.st_size - got)) > 0) got += (size_t)r;
  close(fd);
  if (got != (size_t)st.st_size) vh_fatal("short read of %s", path);
  *n = got;
  return buf;
}

/* ================================================================== mode table */

typedef struct ent_s {
  uint8_t *k; size_t kl;
  uint8_t *v; size_t vl;
} ent_t;

typedef struct topt_s {
  size_t block_size;
  int restart, snappy, fbits, cache, mmap;
  int verify, paranoid, fill_cache;
} topt_t;

typedef struct tcase_s {
  int kind;
  topt_t o;
  ent_t *e;
  size_t n, cap;
  int vprof, cprof, shape1, shape2;
  size_t plen;
  char optid[96];
} tcase_t;

static const size_t BS[3] = {1024, 4096, 65536};
static const int RI[4] = {1, 2, 16, 128};
static const int FB[4] = {0, 1, 10, 20};
#define NTUPLES (3 * 4 * 2 * 4 * 3 * 2 * 3)

static void tc_free(tcase_t *tc) {
  size_t i;
  for (i = 0; i < tc->n; i++) { free(tc->e[i].k); free(tc->e[i].v); }
  free(tc->e);
  tc->e = NULL;
  tc->n = tc->cap = 0;
}

static void tc_push(tcase_t *tc, uint8_t *k, size_t kl, uint8_t *v, size_t vl) {
  if (tc->n == tc->cap) {
    tc->cap = tc->cap ? tc->cap * 2 : 256;
    tc->e = realloc(tc->e, tc->cap * sizeof(ent_t));
    if (tc->e == NULL) vh_fatal("out of memory");
  }
  tc->e[tc->n].k = k; tc->e[tc->n].kl = kl;
  tc->e[tc->n].v = v; tc->e[tc->n].vl = vl;
  tc->n++;
}

/* ---- user keys */

static const uint8_t ALPHA[6] = {0x00, 0x01, 0x7f, 0x80, 0xfe, 0xff};
#define UKEY_MAX 420
#define NSHAPES 8

static size_t run_len(vrng_t *r) {
  if (vr_chance(r, 250)) return 124 + vr_uniform(r, 9);      /* around 127/128 */
  if (vr_chance(r, 60)) return 300 + vr_uniform(r, 101);
  return 1 + vr_skewed(r, 7);
}

static size_t gen_ukey(vrng_t *r, int shape, const uint8_t *pfx, size_t plen, uint32_t dense, uint8_t *out) {
  size_t n = 0, i, len;
  switch (shape) {
    case 0:  /* very short strings over the edge alphabet: many k / k+"\0" neighbours */
      len = vr_uniform(r, 7);
      for (i = 0; i < len; i++) out[n++] = ALPHA[vr_uniform(r, 6)];
      break;
    case 1:  /* long shared prefix + dense decimal suffix */
      memcpy(out, pfx, plen); n = plen;
      n += (size_t)sprintf((char *)out + n, "%06u", (unsigned)vr_uniform(r, dense));
      break;
    case 2:  /* long shared prefix + edge-alphabet suffix */
      memcpy(out, pfx, plen); n = plen;
      len = vr_uniform(r, 5);
      for (i = 0; i < len; i++) out[n++] = ALPHA[vr_uniform(r, 6)];
      break;
    case 3:  /* 0xff runs */
    case 4:  /* 0x00 runs */
      len = run_len(r);
      memset(out, shape == 3 ? 0xff : 0x00, len); n = len;
      len = vr_uniform(r, 3);
      for (i = 0; i < len; i++) out[n++] = ALPHA[vr_uniform(r, 6)];
      break;
    case 5:  /* random bytes, skewed length */
      len = vr_chance(r, 50) ? 256 + vr_uniform(r, 145) : vr_skewed(r, 8);
      for (i = 0; i < len; i++) out[n++] = (uint8_t)vr_next(r);
      break;
    case 6:  /* total length crossing the 1-byte varint boundary */
      len = 120 + vr_uniform(r, 17);
      memset(out, 'k', len - 3); n = len - 3;
      for (i = 0; i < 3; i++) out[n++] = (uint8_t)('a' + vr_uniform(r, 6));
      break;
    default: /* ascii */
      n = (size_t)sprintf((char *)out, "user%u", (unsigned)vr_uniform(r, dense * 4 + 10));
      break;
  }
  if (n > UKEY_MAX) vh_fatal("gen_ukey overflow");
  return n;
}

typedef struct ukey_s { uint8_t *p; size_t n; } ukey_t;
static int sort_uc;
static int ukey_cmp(const void *a, const void *b) {
  const ukey_t *x = a, *y = b;
  return m_cmp(sort_uc, x->p, x->n, y->p, y->n);
}

static size_t pick_count(vrng_t *r, int big) {
  uint32_t c = vr_uniform(r, 100);
  if (big && c >= 88) return 5000 + vr_uniform(r, 45001);
  if (c < 2) return 0;
  if (c < 5) return 1;
  if (c < 20) return 2 + vr_uniform(r, 19);
  if (c < 55) return 20 + vr_uniform(r, 281);
  if (c < 85) return 300 + vr_uniform(r, 1701);
  return 2000 + vr_uniform(r, 3001);
}

static size_t gen_vlen(vrng_t *r, int vprof, size_t *budget, int *huge_left) {
  static const size_t edge[10] = {0, 1, 126, 127, 128, 129, 255, 256, 16383, 16384};
  size_t len;
  switch (vprof) {
    case 0: len = vr_uniform(r, 17); break;
    case 1: len = vr_skewed(r, 10); break;
    case 2: len = vr_skewed(r, 14); break;
    case 3:
      if (*huge_left > 0 && vr_chance(r, 30)) { len = vr_skewed(r, 20); if (vr_chance(r, 200)) len = 1u << 20; (*huge_left)--; }
      else len = vr_skewed(r, 8);
      break;
    case 4: len = edge[vr_uniform(r, 10)]; break;
    default: len = 100 + vr_uniform(r, 1900); break;    /* 5: borderline-compressible profile */
  }
  if (vprof != 5 && vr_chance(r, 60)) len = 126 + vr_uniform(r, 4);
  if (len > *budget) len = vr_uniform(r, 65);
  *budget -= len < *budget ? len : *budget;
  return len;
}

/* value bytes: cprof 0 all compressible (even vid), 1 all incompressible (odd
 * vid), 2 random per entry, 3 borderline: an incompressible head of 78..97 %
 * and a compressible tail, so whole blocks land on both sides of the 12.5 %
 * rule */
static uint8_t *gen_value(vrng_t *r, int cprof, size_t len, uint64_t *vidc) {
  uint8_t *v = xmalloc(len);
  uint64_t vid = (*vidc += 2);
  if (cprof == 0) vh_fill_value(v, len, vid);
  else if (cprof == 1) vh_fill_value(v, len, vid | 1);
  else if (cprof == 2) vh_fill_value(v, len, vid | (vr_next(r) & 1));
  else {
    size_t head = len * (780 + vr_uniform(r, 191)) / 1000;
    vh_fill_value(v, head, vid | 1);
    vh_fill_value(v + head, len - head, vid);
  }
  return v;
}

static void gen_table_case(vrng_t *r, uint64_t idx, tcase_t *tc) {
  uint64_t t = (idx * 1223u + g_seed * 7919u) % NTUPLES;
  size_t target, nuk, i, budget, maxn;
  ukey_t *uk;
  uint8_t pfx[400], tmp[UKEY_MAX + 16];
  static const size_t plens[12] = {0, 1, 5, 20, 100, 126, 127, 128, 129, 200, 300, 390};
  uint32_t dense;
  int huge_left, pstyle;
  uint64_t vidc = (idx + 1) * 1000000u;

  memset(tc, 0, sizeof(*tc));
  tc->o.block_size = BS[t % 3]; t /= 3;
  tc->o.restart = RI[t % 4]; t /= 4;
  tc->o.snappy = (int)(t % 2); t /= 2;
  tc->o.fbits = FB[t % 4]; t /= 4;
  tc->o.cache = (int)(t % 3); t /= 3;
  tc->o.mmap = (int)(t % 2); t /= 2;
  tc->kind = (int)(t % 3);
  tc->o.verify = (int)vr_uniform(r, 2);
  tc->o.paranoid = (int)vr_uniform(r, 2);
  tc->o.fill_cache = vr_chance(r, 800);
  snprintf(tc->optid, sizeof(tc->optid), "bs%zu|ri%d|%s|f%d|c%d|m%d", tc->o.block_size, tc->o.restart,
           tc->o.snappy ? "snappy" : "none", tc->o.fbits, tc->o.cache, tc->o.mmap);

  target = pick_count(r, g_big);
  maxn = g_big ? 50000 : 5000;
  tc->shape1 = (int)vr_uniform(r, NSHAPES);
  tc->shape2 = (int)vr_uniform(r, NSHAPES);
  tc->plen = plens[vr_uniform(r, 12)];
  pstyle = (int)vr_uniform(r, 4);
  for (i = 0; i < tc->plen; i++)
    pfx[i] = pstyle == 0 ? (uint8_t)vr_next(r) : pstyle == 1 ? 0xff : pstyle == 2 ? 0x00 : 'p';
  dense = (uint32_t)(target * (1 + vr_uniform(r, 4)) + 10);
  tc->vprof = (int)vr_uniform(r, 5);
  tc->cprof = (int)vr_uniform(r, 4);
  if (tc->cprof == 3) tc->vprof = 5;
  if (target > 8000 && tc->vprof == 2) tc->vprof = 1;
  budget = g_big ? (24u << 20) : (3u << 20);
  huge_left = g_big ? 6 : 3;

  /* user keys */
  nuk = tc->kind == K_PLAIN ? target : (target * 3 + 3) / 4;
  if (target > 0 && nuk == 0) nuk = 1;
  uk = xmalloc((nuk + 1) * sizeof(ukey_t));
  for (i = 0; i < nuk; i++) {
    uint32_t c = vr_uniform(r, 100);
    int shape = c < 68 ? tc->shape1 : c < 93 ? tc->shape2 : (int)vr_uniform(r, NSHAPES);
    size_t n = gen_ukey(r, shape, pfx, tc->plen, dense, tmp);
    uk[i].p = xdup(tmp, n);
    uk[i].n = n;
  }
  if (nuk > 0 && vr_chance(r, 300)) { free(uk[0].p); uk[0].p = xmalloc(0); uk[0].n = 0; }   /* the empty user key */
  sort_uc = ucmp_of(tc->kind);
  qsort(uk, nuk, sizeof(ukey_t), ukey_cmp);

  for (i = 0; i < nuk && tc->n < maxn; i++) {
    if (i > 0 && m_cmp(sort_uc, uk[i - 1].p, uk[i - 1].n, uk[i].p, uk[i].n) == 0) continue;
    if (tc->kind == K_PLAIN) {
      size_t vl = gen_vlen(r, tc->vprof, &budget, &huge_left);
      tc_push(tc, xdup(uk[i].p, uk[i].n), uk[i].n, gen_value(r, tc->cprof, vl, &vidc), vl);
    } else {
      uint32_t c = vr_uniform(r, 100);
      size_t nver = c < 72 ? 1 : c < 94 ? 2 + vr_uniform(r, 3) : 5 + vr_uniform(r, 36);
      uint64_t seqs[48];
      size_t j, k;
      int wide = vr_chance(r, 500);
      for (j = 0; j < nver; j++) {
        uint32_t s = vr_uniform(r, 100);
        seqs[j] = s < 3 ? 0 : s < 6 ? MAXSEQ : s < 9 ? MAXSEQ - 1 : wide ? (vr_next(r) & MAXSEQ) : vr_uniform(r, 2000);
      }
      /* sort descending, drop duplicates */
      for (j = 1; j < nver; j++) {
        uint64_t x = seqs[j];
        for (k = j; k > 0 && seqs[k - 1] < x; k--) seqs[k] = seqs[k - 1];
        seqs[k] = x;
      }
      for (j = 0; j < nver && tc->n < maxn; j++) {
        int type = vr_chance(r, 800) ? 1 : 0;
        size_t vl = type ? gen_vlen(r, tc->vprof, &budget, &huge_left) : 0;
        uint8_t *ik;
        if (j > 0 && seqs[j] == seqs[j - 1]) continue;
        ik = xmalloc(uk[i].n + 8);
        if (uk[i].n) memcpy(ik, uk[i].p, uk[i].n);
        rc_put_fixed64(ik + uk[i].n, (seqs[j] << 8) | (uint64_t)type);
        tc_push(tc, ik, uk[i].n + 8, gen_value(r, tc->cprof, vl, &vidc), vl);
      }
    }
  }
  for (i = 0; i < nuk; i++) free(uk[i].p);
  free(uk);

  for (i = 1; i < tc->n; i++)
    if (ocmp(tc->kind, tc->e[i - 1].k, tc->e[i - 1].kl, tc->e[i].k, tc->e[i].kl) >= 0)
      vh_fatal("generator produced unsorted entries at %zu", i);
}

/* ---- state of one built table */

typedef struct tstate_s {
  tcase_t *tc;
  char path[600];
  uint8_t *file; size_t fsize;        /* the bytes on disk */
  rc_table_t rt; int rt_ok;           /* reference decode */
  ldb_bloom_t bloom, ifp;
  const ldb_bloom_t *policy;          /* NULL = none */
  ldb_bloom_t rbloom, rifp;           /* the READER's policy object: same name, possibly another bits_per_key */
  const ldb_bloom_t *rpolicy;         /* (a database may be reopened with a different bloom setting: the stored */
  int rbits;                          /*  filters carry their own probe count and must still accept every present key) */
  const ldb_comparator_t *cmp;
  ldb_lru_t *cache;
  ldb_rfile_t *rfile;
  ldb_table_t *table;
  ldb_readopt_t ropt;
  int ncomp, nfallback, nplain, interior_restart;
} tstate_t;

static size_t lower_bound(const tcase_t *tc, const uint8_t *k, size_t kl) {
  size_t lo = 0, hi = tc->n;
  while (lo < hi) {
    size_t mid = lo + (hi - lo) / 2;
    if (ocmp(tc->kind, tc->e[mid].k, tc->e[mid].kl, k, kl) < 0) lo = mid + 1; else hi = mid;
  }
  return lo;
}

/* key as the filter policy must see it */
static void filter_key(int kind, const uint8_t *k, size_t kl, const uint8_t **fk, size_t *fl) {
  *fk = k;
  *fl = kind == K_PLAIN ? kl : kl - 8;
}

/* build with the REAL table builder; returns 0 when a file exists */
static int build_table(tstate_t *s) {
  tcase_t *tc = s->tc;
  ldb_dbopt_t opt = *ldb_dbopt_default;
  ldb_tablegen_t *tb;
  ldb_wfile_t *sink;
  size_t i;
  int rc;
  uint64_t gsize, gentries;

  s->cmp = tc->kind == K_PLAIN ? ldb_bytewise_comparator : tc->kind == K_IBYTE ? &ikc_byte : &ikc_rev;
  s->policy = NULL;
  if (tc->o.fbits > 0) {
    ldb_bloom_init(&s->bloom, tc->o.fbits);
    if (tc->kind == K_PLAIN) s->policy = &s->bloom;
    else { ldb_ifp_init(&s->ifp, &s->bloom); s->policy = &s->ifp; }   /* as db_impl.c does */
  }
  s->rpolicy = s->policy;
  s->rbits = tc->o.fbits;
  if (s->policy != NULL) {
    static const int alt[] = {1, 4, 7, 12, 16, 20, 32, 60};
    uint64_t hsel = vh_hash64(&tc->n, sizeof(tc->n), (uint64_t)tc->o.fbits * 131 + (uint64_t)tc->o.block_size);
    if (hsel % 2 == 0) {
      s->rbits = alt[(hsel >> 8) % 8];
      ldb_bloom_init(&s->rbloom, s->rbits);
      if (tc->kind == K_PLAIN) s->rpolicy = &s->rbloom;
      else { ldb_ifp_init(&s->rifp, &s->rbloom); s->rpolicy = &s->rifp; }
      vh_count("c16_tables_read_with_other_bloom_bits_than_built", 1);
    }
  }
  opt.comparator = s->cmp;
  opt.block_size = tc->o.block_size;
  opt.block_restart_interval = tc->o.restart;
  opt.compression = tc->o.snappy ? LDB_SNAPPY_COMPRESSION : LDB_NO_COMPRESSION;
  opt.filter_policy = s->policy;
  opt.use_mmap = tc->o.mmap;

  unlink(s->path);
  rc = ldb_truncfile_create(s->path, &sink);
  if (rc != LDB_OK) vh_fatal("ldb_truncfile_create(%s) = %d", s->path, rc);
  tb = ldb_tablegen_create(&opt, sink);
  for (i = 0; i < tc->n; i++) {
    ldb_slice_t k = ldb_slice(tc->e[i].k, tc->e[i].kl);
    ldb_slice_t v = ldb_slice(tc->e[i].v, tc->e[i].vl);
    ldb_tablegen_add(tb, &k, &v);
    if ((rc = ldb_tablegen_status(tb)) != LDB_OK) {
      VIOL("table-build-error", "ldb_tablegen_add of entry %zu (%s) left status %d", i, kstr(tc->kind, tc->e[i].k, tc->e[i].kl), rc);
      break;
    }
  }
  rc = ldb_tablegen_finish(tb);
  if (rc != LDB_OK) VIOL("table-build-error", "ldb_tablegen_finish = %d", rc);
  gsize = ldb_tablegen_size(tb);
  gentries = ldb_tablegen_entries(tb);
  if ((rc = ldb_wfile_close(sink)) != LDB_OK) vh_fatal("ldb_wfile_close = %d", rc);
  ldb_wfile_destroy(sink);
  ldb_tablegen_destroy(tb);

  s->file = read_whole(s->path, &s->fsize);
  if (gentries != tc->n)
    VIOL("footer-or-size-wrong", "ldb_tablegen_entries = %llu after adding %zu entries", (unsigned long long)gentries, tc->n);
  if (gsize != s->fsize)
    VIOL("footer-or-size-wrong", "ldb_tablegen_size = %llu but the file holds %zu bytes", (unsigned long long)gsize, s->fsize);
  vh_count("c16_tables_built", 1);
  vh_count("c16_entries", tc->n);
  vh_count("c16_table_bytes", s->fsize);
  return 0;
}

/* (e) independent reader + structural rules of the standard format */
static void check_reference(tstate_t *s) {
  tcase_t *tc = s->tc;
  rc_table_t *t = &s->rt;
  size_t i, b, first;
  uint64_t pos;
  size_t near_c = 0, near_f = 0;

  s->rt_ok = rc_table_decode(s->file, s->fsize, t) == 0;
  vh_count("c16_reference_decodes", 1);
  if (!s->rt_ok) {
    VIOL("reference-decode-failed", "independent table reader rejects the file (%zu bytes, %zu entries): %s", s->fsize, tc->n, t->err);
    return;
  }

  /* entries */
  if (t->nentries != tc->n) {
    VIOL("reference-entries-differ", "independent reader decodes %zu entries, %zu were added", t->nentries, tc->n);
  } else {
    for (i = 0; i < tc->n; i++) {
      const rc_entry_t *re = &t->entries[i];
      const ent_t *e = &tc->e[i];
      if (re->klen != e->kl || memcmp(re->key, e->k, e->kl) != 0 || re->vlen != e->vl || (e->vl && memcmp(re->val, e->v, e->vl) != 0)) {
        VIOL("reference-entries-differ", "entry %zu: added %s value[%zu] %s, file holds %s value[%zu] %s (data block %u)", i,
             kstr(tc->kind, e->k, e->kl), e->vl, vh_hex(e->v, e->vl > 24 ? 24 : e->vl),
             kstr(tc->kind, re->key, re->klen), re->vlen, vh_hex(re->val, re->vlen > 24 ? 24 : re->vlen), re->block);
        break;
      }
    }
  }

  /* layout: data blocks back to back from offset 0, [filter], metaindex, index, footer */
  pos = 0;
  for (b = 0; b < t->nblocks; b++) {
    if (t->blocks[b].offset != pos) {
      VIOL("footer-or-size-wrong", "data block %zu starts at %llu, expected %llu (blocks are written back to back)", b,
           (unsigned long long)t->blocks[b].offset, (unsigned long long)pos);
      break;
    }
    pos += t->blocks[b].size + 5;
  }
  if (b == t->nblocks) {
    if (t->filter != NULL) pos += t->filter_len + 5;
    if (t->metaindex_off != pos)
      VIOL("footer-or-size-wrong", "metaindex block at %llu, expected %llu", (unsigned long long)t->metaindex_off, (unsigned long long)pos);
    else if (t->index_off != t->metaindex_off + t->metaindex_size + 5)
      VIOL("footer-or-size-wrong", "index block at %llu, expected %llu", (unsigned long long)t->index_off,
           (unsigned long long)(t->metaindex_off + t->metaindex_size + 5));
    else if (t->index_off + t->index_size + 5 + 48 != s->fsize)
      VIOL("footer-or-size-wrong", "index block ends at %llu (+48-byte footer) but the file holds %zu bytes",
           (unsigned long long)(t->index_off + t->index_size + 5), s->fsize);
  }

  /* filter block presence / name / base */
  if ((s->policy != NULL) != (t->filter != NULL)) {
    VIOL("filter-block-unexpected", "filter policy %s but filter block %s", s->policy ? "set" : "unset", t->filter ? "present" : "absent");
  } else if (t->filter != NULL) {
    if (strcmp(t->filter_name, "leveldb.BuiltinBloomFilter2") != 0)
      VIOL("filter-block-unexpected", "metaindex names filter policy '%s'", t->filter_name);
    if (t->filter[t->filter_len - 1] != 11)
      VIOL("filter-base-unexpected", "filter block ends with base_lg %u, the standard writer uses 11 (one filter per 2 KiB of file offset)",
           (unsigned)t->filter[t->filter_len - 1]);
    else if (t->nblocks > 0) {
      size_t arr = rc_get_fixed32(t->filter + t->filter_len - 5);
      size_t num = (t->filter_len - 5 - arr) / 4;
      size_t lo = (size_t)(t->blocks[t->nblocks - 1].offset >> 11) + 1;      /* every data block has its filter ... */
      size_t hi = (size_t)((t->blocks[t->nblocks - 1].offset + t->blocks[t->nblocks - 1].size + 5) >> 11) + 1;  /* ... and none lies beyond the data */
      if (num < lo || num > hi)
        VIOL("filter-base-unexpected", "filter block holds %zu filters, expected %zu..%zu (last data block at offset %llu, 2 KiB base)", num, lo, hi,
             (unsigned long long)t->blocks[t->nblocks - 1].offset);
    }
  }

  /* per data block */
  vh_count("c16_data_blocks", t->nblocks);
  first = 0;
  for (b = 0; b < t->nblocks; b++) {
    const rc_blockinfo_t *bi = &t->blocks[b];
    size_t last, want_restarts;
    uint64_t raw = bi->size;
    if (bi->nentries == 0) { VIOL("restart-array-wrong", "data block %zu holds no entries", b); break; }
    last = first + bi->nentries - 1;
    if (last >= tc->n || last >= t->nentries) break;   /* entry mismatch already reported */

    /* compression type */
    if (bi->ctype == 1) {
      uint32_t ul = 0;
      rc_snappy_uncompressed_length(s->file + bi->offset, (size_t)bi->size, &ul);
      raw = ul;
      if (!tc->o.snappy)
        VIOL("compression-type-unexpected", "data block %zu is snappy-compressed although compression is off", b);
      else if (!(bi->size < raw - raw / 8))
        VIOL("compression-type-unexpected", "data block %zu stored compressed: %llu bytes for %llu raw saves less than 12.5%%", b,
             (unsigned long long)bi->size, (unsigned long long)raw);
      s->ncomp++;
      if (bi->size * 8 > raw * 6) near_c++;          /* saved 12.5..25 % */
    } else if (tc->o.snappy) {
      size_t bound = 0, zl;
      uint8_t *z;
      if (!snappy_encode_size(&bound, (size_t)raw)) vh_fatal("snappy_encode_size failed for %llu", (unsigned long long)raw);
      z = xmalloc(bound);
      zl = snappy_encode(z, s->file + bi->offset, (size_t)raw);
      free(z);
      if (zl < raw - raw / 8)
        VIOL("compression-type-unexpected", "data block %zu stored raw (%llu bytes) although snappy_encode shrinks it to %zu (>= 12.5%% saved)", b,
             (unsigned long long)raw, zl);
      s->nfallback++;
      if (zl * 20 <= raw * 19) near_f++;             /* saved 5..12.5 %: just not enough */
    } else {
      s->nplain++;
    }

    /* block size option honoured: a block is cut once its size reaches block_size */
    if (b + 1 < t->nblocks && raw < tc->o.block_size)
      VIOL("block-size-not-honoured", "data block %zu (not the last) holds %llu raw bytes < block_size %zu", b, (unsigned long long)raw, tc->o.block_size);

    /* restart array */
    want_restarts = (bi->nentries + (size_t)tc->o.restart - 1) / (size_t)tc->o.restart;
    if (bi->nrestarts != want_restarts)
      VIOL("restart-array-wrong", "data block %zu: %u entries at restart interval %d need %zu restart points, block has %u", b,
           bi->nentries, tc->o.restart, want_restarts, bi->nrestarts);
    if (bi->nrestarts >= 2) s->interior_restart = 1;

    /* index separator */
    if (tc->kind != K_PLAIN && bi->seplen < 8)
      VIOL("index-separator-out-of-range", "index key of data block %zu is %zu bytes long: not a well-formed internal key", b, bi->seplen);
    else if (ocmp(tc->kind, tc->e[last].k, tc->e[last].kl, bi->sep, bi->seplen) > 0)
      VIOL("index-separator-out-of-range", "index key %s of data block %zu sorts before the block's last key %s", kstr(tc->kind, bi->sep, bi->seplen), b,
           kstr(tc->kind, tc->e[last].k, tc->e[last].kl));
    else if (last + 1 < tc->n && ocmp(tc->kind, bi->sep, bi->seplen, tc->e[last + 1].k, tc->e[last + 1].kl) >= 0)
      VIOL("index-separator-out-of-range", "index key %s of data block %zu is not below the next block's first key %s (last key of the block: %s)",
           kstr(tc->kind, bi->sep, bi->seplen), b, kstr(tc->kind, tc->e[last + 1].k, tc->e[last + 1].kl), kstr(tc->kind, tc->e[last].k, tc->e[last].kl));
    if (bi->seplen != tc->e[last].kl || memcmp(bi->sep, tc->e[last].k, bi->seplen) != 0) vh_count("c16_index_keys_shortened", 1);
    first = last + 1;
  }
  if (b == t->nblocks && first != tc->n && t->nentries == tc->n)
    VIOL("reference-entries-differ", "data blocks hold %zu entries in total, %zu were added", first, tc->n);
  vh_count("c16_blocks_compressed", (uint64_t)s->ncomp);
  vh_count("c16_blocks_fallback_raw", (uint64_t)s->nfallback);
  vh_count("c16_blocks_uncompressed", (uint64_t)s->nplain);
  vh_count("c16_blocks_compressed_saving_12_5_to_25pct", near_c);
  vh_count("c16_blocks_fallback_saving_5_to_12_5pct", near_f);

  /* (d) reference + real filter probe on every present key */
  if (t->filter != NULL && t->nentries == tc->n) {
    ldb_slice_t contents = ldb_slice(t->filter, t->filter_len);
    ldb_filter_t *fr = ldb_filter_create(s->rpolicy, &contents);
    for (i = 0; i < tc->n; i++) {
      const uint8_t *fk; size_t fl;
      uint64_t boff = t->blocks[t->entries[i].block].offset;
      ldb_slice_t k = ldb_slice(tc->e[i].k, tc->e[i].kl);
      filter_key(tc->kind, tc->e[i].k, tc->e[i].kl, &fk, &fl);
      if (!rc_table_filter_may_match(t, boff, fk, fl))
        VIOL("filter-false-negative", "reference bloom probe of the filter block rejects present key %s (filter key '%s', data block %u at offset %llu)",
             kstr(tc->kind, tc->e[i].k, tc->e[i].kl), vh_esc(fk, fl), t->entries[i].block, (unsigned long long)boff);
      if (!ldb_filter_matches(fr, boff, &k))
        VIOL("filter-false-negative", "ldb_filter_matches rejects present key %s (data block %u at offset %llu)",
             kstr(tc->kind, tc->e[i].k, tc->e[i].kl), t->entries[i].block, (unsigned long long)boff);
    }
    vh_count("c16_filter_probes_reference", tc->n);
    vh_count("c16_filter_probes_real", tc->n);
    ldb_filter_destroy(fr);
  }
}

/* ---- the real reader */

static int open_table(tstate_t *s) {
  tcase_t *tc = s->tc;
  ldb_dbopt_t opt = *ldb_dbopt_default;
  int rc;
  s->cache = tc->o.cache == 0 ? NULL : ldb_lru_create(tc->o.cache == 1 ? 8192 : (8u << 20));
  opt.comparator = s->cmp;
  opt.filter_policy = s->rpolicy;
  opt.block_cache = s->cache;
  opt.use_mmap = tc->o.mmap;
  opt.paranoid_checks = tc->o.paranoid;
  opt.block_size = tc->o.block_size;
  opt.block_restart_interval = tc->o.restart;
  s->ropt = *ldb_readopt_default;
  s->ropt.verify_checksums = tc->o.verify;
  s->ropt.fill_cache = tc->o.fill_cache;
  rc = ldb_randfile_create(s->path, &s->rfile, tc->o.mmap);
  if (rc != LDB_OK) vh_fatal("ldb_randfile_create(%s) = %d", s->path, rc);
  rc = ldb_table_open(&opt, s->rfile, s->fsize, &s->table);
  if (rc != LDB_OK || s->table == NULL) {
    VIOL("real-reader-open-failed", "ldb_table_open of the freshly built %zu-byte table = %d (paranoid_checks=%d)", s->fsize, rc, tc->o.paranoid);
    s->table = NULL;
    return -1;
  }
  return 0;
}

static void close_table(tstate_t *s) {
  if (s->table != NULL) ldb_table_destroy(s->table);
  if (s->rfile != NULL) ldb_rfile_destroy(s->rfile);
  if (s->cache != NULL) ldb_lru_destroy(s->cache);
  s->table = NULL; s->rfile = NULL; s->cache = NULL;
}

/* does the iterator stand on entry idx (idx == n: must be invalid)? */
static int iter_at(tstate_t *s, ldb_iter_t *it, size_t idx, char *why, size_t cap) {
  tcase_t *tc = s->tc;
  ldb_slice_t k, v;
  if (idx >= tc->n) {
    if (!ldb_iter_valid(it)) return 1;
    k = ldb_iter_key(it);
    snprintf(why, cap, "iterator should be exhausted but stands on %s", kstr(tc->kind, k.data, k.size));
    return 0;
  }
  if (!ldb_iter_valid(it)) {
    snprintf(why, cap, "iterator invalid (status %d), expected entry %zu %s", ldb_iter_status(it), idx, kstr(tc->kind, tc->e[idx].k, tc->e[idx].kl));
    return 0;
  }
  k = ldb_iter_key(it);
  v = ldb_iter_value(it);
  if (k.size != tc->e[idx].kl || (k.size && memcmp(k.data, tc->e[idx].k, k.size) != 0)) {
    snprintf(why, cap, "iterator on %s, expected entry %zu %s", kstr(tc->kind, k.data, k.size), idx, kstr(tc->kind, tc->e[idx].k, tc->e[idx].kl));
    return 0;
  }
  if (v.size != tc->e[idx].vl || (v.size && memcmp(v.data, tc->e[idx].v, v.size) != 0)) {
    snprintf(why, cap, "entry %zu %s: value[%zu] %s.., expected value[%zu] %s..", idx, kstr(tc->kind, k.data, k.size), v.size,
             vh_hex(v.data, v.size > 24 ? 24 : v.size), tc->e[idx].vl, vh_hex(tc->e[idx].v, tc->e[idx].vl > 24 ? 24 : tc->e[idx].vl));
    return 0;
  }
  return 1;
}

/* (a) */
static void check_scans(tstate_t *s) {
  tcase_t *tc = s->tc;
  char why[2500];
  ldb_iter_t *it = ldb_tableiter_create(s->table, &s->ropt);
  size_t i;
  int rc;
  if (ldb_iter_valid(it)) VIOL("scan-mismatch", "a fresh table iterator claims to be valid before positioning");
  ldb_iter_first(it);
  for (i = 0; i <= tc->n; i++) {
    if (!iter_at(s, it, i, why, sizeof(why))) { VIOL("scan-mismatch", "forward scan of %zu entries, step %zu: %s", tc->n, i, why); break; }
    if (i < tc->n) ldb_iter_next(it);
  }
  if ((rc = ldb_iter_status(it)) != LDB_OK) VIOL("scan-mismatch", "forward scan ends with iterator status %d", rc);
  ldb_iter_last(it);
  for (i = tc->n; ; i--) {
    size_t want = i == 0 ? tc->n : i - 1;   /* i == 0: stepped before the first entry -> invalid */
    if (!iter_at(s, it, want, why, sizeof(why))) { VIOL("backward-scan-mismatch", "backward scan of %zu entries, %zu steps from the end: %s", tc->n, tc->n - i, why); break; }
    if (i == 0) break;
    ldb_iter_prev(it);
  }
  if ((rc = ldb_iter_status(it)) != LDB_OK) VIOL("backward-scan-mismatch", "backward scan ends with iterator status %d", rc);
  ldb_iter_destroy(it);
  vh_count("c16_scan_steps", 2 * tc->n);
}

/* ---- targets for seeks / gets */

typedef struct tgt_s { uint8_t *k; size_t kl; size_t idx; int present; } tgt_t;
typedef struct tgts_s { tgt_t *t; size_t n, cap; } tgts_t;

static void tgt_add(tgts_t *g, const tcase_t *tc, const uint8_t *k, size_t kl) {
  tgt_t *t;
  if (g->n == g->cap) { g->cap = g->cap ? g->cap * 2 : 1024; g->t = realloc(g->t, g->cap * sizeof(tgt_t)); if (!g->t) vh_fatal("oom"); }
  t = &g->t[g->n++];
  t->k = xdup(k, kl);     /* exact-size copy: ASan sees any over-read of a target */
  t->kl = kl;
  t->idx = lower_bound(tc, k, kl);
  t->present = t->idx < tc->n && ocmp(tc->kind, tc->e[t->idx].k, tc->e[t->idx].kl, k, kl) == 0;
}

static void tgts_free(tgts_t *g) {
  size_t i;
  for (i = 0; i < g->n; i++) free(g->t[i].k);
  free(g->t);
}

/* a neighbour of entry i in key space */
static void tgt_variant(vrng_t *r, tgts_t *g, const tcase_t *tc, size_t i) {
  uint8_t buf[UKEY_MAX + 32];
  const ent_t *e = &tc->e[i];
  size_t ul = tc->kind == K_PLAIN ? e->kl : e->kl - 8;
  uint64_t tag = tc->kind == K_PLAIN ? 0 : rc_get_fixed64(e->k + ul);
  uint64_t seq = tag >> 8;
  int uv = (int)vr_uniform(r, tc->kind == K_PLAIN ? 5 : 7);
  memcpy(buf, e->k, ul);
  switch (uv) {
    case 0: buf[ul++] = 0x00; break;                      /* bytewise successor: strictly between e and its neighbour */
    case 1: if (ul > 0) ul--; else buf[ul++] = 0x00; break;
    case 2: if (ul > 0 && buf[ul - 1] < 0xff) buf[ul - 1]++; else buf[ul++] = 0x01; break;
    case 3: if (ul > 0 && buf[ul - 1] > 0) buf[ul - 1]--; else buf[ul++] = 0xff; break;
    case 4: buf[ul++] = 0xff; break;
    default: break;                                        /* same user key, other trailer */
  }
  if (tc->kind != K_PLAIN) {
    uint64_t nt;
    switch (uv >= 5 ? 1 + vr_uniform(r, 5) : vr_uniform(r, 6)) {
      case 0: nt = (MAXSEQ << 8) | 1; break;               /* lookup of the newest version */
      case 1: nt = tag ^ 1; break;
      case 2: nt = seq > 0 ? ((seq - 1) << 8) | 1 : 0; break;
      case 3: nt = seq < MAXSEQ ? ((seq + 1) << 8) | (tag & 1) : (MAXSEQ << 8); break;
      case 4: nt = 0; break;
      default: nt = ((vr_next(r) & MAXSEQ) << 8) | 1; break;
    }
    rc_put_fixed64(buf + ul, nt);
    ul += 8;
  }
  tgt_add(g, tc, buf, ul);
}

static void make_targets(vrng_t *r, tstate_t *s, tgts_t *g) {
  tcase_t *tc = s->tc;
  size_t i, n = tc->n, limit = 2000;
  uint8_t big[UKEY_MAX + 120];
  memset(g, 0, sizeof(*g));
  if (n <= limit) {
    for (i = 0; i < n; i++) { tgt_add(g, tc, tc->e[i].k, tc->e[i].kl); tgt_variant(r, g, tc, i); if (vr_chance(r, 500)) tgt_variant(r, g, tc, i); }
  } else {
    size_t budget = limit;
    /* every block boundary first (first and last entry of each data block) */
    if (s->rt_ok && s->rt.nentries == n) {
      size_t first = 0, b;
      for (b = 0; b < s->rt.nblocks && budget > 2; b++) {
        size_t last = first + s->rt.blocks[b].nentries - 1;
        if (s->rt.nblocks > 600 && vr_uniform(r, (uint32_t)s->rt.nblocks) >= 600) { first = last + 1; continue; }
        tgt_add(g, tc, tc->e[first].k, tc->e[first].kl); tgt_variant(r, g, tc, first);
        if (last != first) { tgt_add(g, tc, tc->e[last].k, tc->e[last].kl); tgt_variant(r, g, tc, last); }
        budget -= budget > 2 ? 2 : budget;
        first = last + 1;
      }
    }
    while (budget-- > 0) { i = vr_uniform(r, (uint32_t)n); tgt_add(g, tc, tc->e[i].k, tc->e[i].kl); tgt_variant(r, g, tc, i); }
  }
  /* before-first / after-last in every domain */
  memset(big, 0xff, UKEY_MAX + 60);
  if (tc->kind == K_PLAIN) {
    tgt_add(g, tc, big, 0);
    tgt_add(g, tc, big, UKEY_MAX + 60);
  } else {
    rc_put_fixed64(big + UKEY_MAX + 60, (MAXSEQ << 8) | 1);
    tgt_add(g, tc, big, UKEY_MAX + 68);                       /* 0xff.. user key: last (bytewise) / first (reverse) */
    rc_put_fixed64(big + UKEY_MAX + 60, 0);
    tgt_add(g, tc, big, UKEY_MAX + 68);
    rc_put_fixed64(big, (MAXSEQ << 8) | 1);
    tgt_add(g, tc, big, 8);                                   /* empty user key, newest */
    rc_put_fixed64(big, 0);
    tgt_add(g, tc, big, 8);                                   /* empty user key, oldest */
    if (n > 0) {
      size_t ul = tc->e[0].kl - 8;
      memcpy(big, tc->e[0].k, ul); rc_put_fixed64(big + ul, (MAXSEQ << 8) | 1);
      tgt_add(g, tc, big, ul + 8);
      ul = tc->e[n - 1].kl - 8;
      memcpy(big, tc->e[n - 1].k, ul); rc_put_fixed64(big + ul, 0);
      tgt_add(g, tc, big, ul + 8);
    }
  }
}

/* (b) */
static void check_seeks(tstate_t *s, const tgts_t *g) {
  tcase_t *tc = s->tc;
  char why[2500];
  ldb_iter_t *it = ldb_tableiter_create(s->table, &s->ropt);
  size_t j, between = 0, edge = 0;
  int rc;
  for (j = 0; j < g->n; j++) {
    const tgt_t *t = &g->t[j];
    ldb_slice_t k = ldb_slice(t->k, t->kl);
    if ((j & 63) == 63) { ldb_iter_destroy(it); it = ldb_tableiter_create(s->table, &s->ropt); }
    ldb_iter_seek(it, &k);
    if (!iter_at(s, it, t->idx, why, sizeof(why))) {
      VIOL("seek-wrong-position", "seek(%s) [%s target, first entry >= target is #%zu of %zu]: %s", kstr(tc->kind, t->k, t->kl),
           t->present ? "present" : "absent", t->idx, tc->n, why);
      continue;
    }
    if (!t->present && t->idx > 0 && t->idx < tc->n) between++;
    if (t->idx == 0 || t->idx == tc->n) edge++;
    if (t->idx < tc->n) {
      if (j & 1) {
        ldb_iter_next(it);
        if (!iter_at(s, it, t->idx + 1, why, sizeof(why)))
          VIOL("seek-wrong-position", "next() after seek(%s) that landed on entry #%zu: %s", kstr(tc->kind, t->k, t->kl), t->idx, why);
      } else {
        ldb_iter_prev(it);
        if (!iter_at(s, it, t->idx == 0 ? tc->n : t->idx - 1, why, sizeof(why)))
          VIOL("seek-wrong-position", "prev() after seek(%s) that landed on entry #%zu: %s", kstr(tc->kind, t->k, t->kl), t->idx, why);
      }
    }
  }
  if ((rc = ldb_iter_status(it)) != LDB_OK) VIOL("seek-wrong-position", "iterator status %d after the seeks", rc);
  ldb_iter_destroy(it);
  vh_count("c16_seeks", g->n);
  vh_count("c16_seeks_strictly_between_neighbours", between);
  vh_count("c16_seeks_before_first_or_after_last", edge);
}

/* (c) */
typedef struct getctx_s {
  tstate_t *s;
  const tgt_t *t;
  int calls, exact, usermatch;
  char got[900];
} getctx_t;

static int user_match(int kind, const uint8_t *a, size_t al, const uint8_t *b, size_t bl) {
  if (kind == K_PLAIN) return al == bl && (al == 0 || memcmp(a, b, al) == 0);
  if (al < 8 || bl < 8) return 0;
  return m_cmp(ucmp_of(kind), a, al - 8, b, bl - 8) == 0;   /* what ldb_version_get's saver tests */
}

static void get_saver(void *arg, const ldb_slice_t *k, const ldb_slice_t *v) {
  getctx_t *c = arg;
  const tcase_t *tc = c->s->tc;
  const tgt_t *t = c->t;
  c->calls++;
  c->usermatch = user_match(tc->kind, k->data, k->size, t->k, t->kl);
  c->exact = 0;
  if (t->idx < tc->n) {
    const ent_t *e = &tc->e[t->idx];
    c->exact = k->size == e->kl && (e->kl == 0 || memcmp(k->data, e->k, e->kl) == 0) &&
               v->size == e->vl && (e->vl == 0 || memcmp(v->data, e->v, e->vl) == 0);
  }
  if (!c->exact)
    snprintf(c->got, sizeof(c->got), "%s value[%zu] %s..", kstr(tc->kind, k->data, k->size), v->size, vh_hex(v->data, v->size > 24 ? 24 : v->size));
}

static void check_gets(tstate_t *s, const tgts_t *g) {
  tcase_t *tc = s->tc;
  size_t j, absent = 0, rejected = 0, found = 0;
  for (j = 0; j < g->n; j++) {
    const tgt_t *t = &g->t[j];
    ldb_slice_t k = ldb_slice(t->k, t->kl);
    getctx_t c;
    int rc, want;                      /* want: the saver must be handed entry t->idx */
    memset(&c, 0, sizeof(c));
    c.s = s; c.t = t;
    rc = ldb_table_internal_get(s->table, &s->ropt, &k, &c, get_saver);
    if (rc != LDB_OK) { VIOL("get-status-error", "ldb_table_internal_get(%s) = %d", kstr(tc->kind, t->k, t->kl), rc); continue; }
    want = t->idx < tc->n && user_match(tc->kind, tc->e[t->idx].k, tc->e[t->idx].kl, t->k, t->kl);
    if (!want) absent++;
    if (c.calls > 1) { VIOL("get-wrong-entry", "ldb_table_internal_get(%s) called the saver %d times", kstr(tc->kind, t->k, t->kl), c.calls); continue; }
    if (c.calls == 0) {
      if (want) {
        const uint8_t *fk; size_t fl;
        int refsays = 1;
        filter_key(tc->kind, t->k, t->kl, &fk, &fl);
        if (s->rt_ok && s->rt.filter != NULL && s->rt.nentries == tc->n)
          refsays = rc_table_filter_may_match(&s->rt, s->rt.blocks[s->rt.entries[t->idx].block].offset, fk, fl);
        if (s->policy != NULL && !refsays)
          VIOL("filter-false-negative", "ldb_table_internal_get(%s) finds nothing although entry #%zu %s exists; the reference probe of the stored filter rejects '%s' too",
               kstr(tc->kind, t->k, t->kl), t->idx, kstr(tc->kind, tc->e[t->idx].k, tc->e[t->idx].kl), vh_esc(fk, fl));
        else
          VIOL("get-missed-present-key", "ldb_table_internal_get(%s) never calls the saver although entry #%zu %s exists (filter %s)",
               kstr(tc->kind, t->k, t->kl), t->idx, kstr(tc->kind, tc->e[t->idx].k, tc->e[t->idx].kl), s->policy ? "on" : "off");
      } else if (s->policy != NULL) {
        rejected++;
      }
      continue;
    }
    if (c.exact) { if (want) found++; continue; }
    if (c.usermatch && !want)
      VIOL("get-matched-absent-key", "ldb_table_internal_get(%s): no entry of that user key is >= the target (first entry >= target: #%zu of %zu), but the saver was handed %s",
           kstr(tc->kind, t->k, t->kl), t->idx, tc->n, c.got);
    else
      VIOL("get-wrong-entry", "ldb_table_internal_get(%s) handed the saver %s, but the first entry >= target is #%zu %s", kstr(tc->kind, t->k, t->kl), c.got,
           t->idx, t->idx < tc->n ? kstr(tc->kind, tc->e[t->idx].k, tc->e[t->idx].kl) : "(none)");
  }
  vh_count("c16_gets", g->n);
  vh_count("c16_gets_found", found);
  vh_count("c16_gets_absent_user_key", absent);
  vh_count("c16_gets_absent_saver_not_called_with_filter", rejected);
}

/* (f) */
static void check_offsets(tstate_t *s) {
  tcase_t *tc = s->tc;
  size_t i, step = tc->n > 3000 ? tc->n / 3000 : 1, checks = 0;
  uint64_t prev = 0;
  for (i = 0; i < tc->n; i += step) {
    ldb_slice_t k = ldb_slice(tc->e[i].k, tc->e[i].kl);
    uint64_t off = ldb_table_approximate_offset(s->table, &k);
    checks++;
    if (off < prev || off > s->fsize) {
      VIOL("approximate-offset-wrong", "ldb_table_approximate_offset(%s) = %llu, previous key gave %llu, file size %zu", kstr(tc->kind, tc->e[i].k, tc->e[i].kl),
           (unsigned long long)off, (unsigned long long)prev, s->fsize);
      break;
    }
    if (s->rt_ok && s->rt.nentries == tc->n && off != s->rt.blocks[s->rt.entries[i].block].offset) {
      VIOL("approximate-offset-wrong", "ldb_table_approximate_offset(%s) = %llu, but the key lives in data block %u at offset %llu", kstr(tc->kind, tc->e[i].k, tc->e[i].kl),
           (unsigned long long)off, s->rt.entries[i].block, (unsigned long long)s->rt.blocks[s->rt.entries[i].block].offset);
      break;
    }
    prev = off;
  }
  {
    uint8_t big[UKEY_MAX + 80];
    ldb_slice_t k;
    uint64_t off;
    memset(big, tc->kind == K_IREV ? 0x00 : 0xff, sizeof(big));
    k = ldb_slice(big, tc->kind == K_IREV ? 8 : sizeof(big));     /* sorts after every generated key */
    off = ldb_table_approximate_offset(s->table, &k);
    checks++;
    if (lower_bound(tc, k.data, k.size) == tc->n && (off < prev || off > s->fsize))
      VIOL("approximate-offset-wrong", "ldb_table_approximate_offset(past-the-end key) = %llu, last key gave %llu, file size %zu",
           (unsigned long long)off, (unsigned long long)prev, s->fsize);
  }
  vh_count("c16_approximate_offset_checks", checks);
}

static int samples_left = 3;

static void run_table_case(uint64_t idx) {
  vrng_t r;
  tcase_t tc;
  tstate_t s;
  tgts_t g;
  double t0 = vh_now();
  int viol0 = vh_nviolations();

  case_begin();
  case_rng(&r, "table", idx);
  gen_table_case(&r, idx, &tc);
  memset(&s, 0, sizeof(s));
  s.tc = &tc;
  snprintf(s.path, sizeof(s.path), "%s/t-%d-%llu.ldb", g_dir, (int)getpid(), (unsigned long long)idx);
  vh_set_context("fmtmon_table --seed %llu --mode table --first %llu --count 1%s | %s %s n=%zu shapes=%d/%d plen=%zu vprof=%d cprof=%d verify=%d paranoid=%d",
                 (unsigned long long)g_seed, (unsigned long long)idx, g_big ? " --big 1" : "", tc.optid, kind_name[tc.kind], tc.n,
                 tc.shape1, tc.shape2, tc.plen, tc.vprof, tc.cprof, tc.o.verify, tc.o.paranoid);

  build_table(&s);
  check_reference(&s);
  if (open_table(&s) == 0) {
    check_scans(&s);
    make_targets(&r, &s, &g);
    check_seeks(&s, &g);
    check_gets(&s, &g);
    check_offsets(&s);
    tgts_free(&g);
  }
  close_table(&s);

  {
    char mix[8];
    int nontrivial = s.rt_ok && s.rt.nblocks >= 2 && s.interior_restart;
    snprintf(mix, sizeof(mix), "%s%s%s", s.ncomp ? "C" : "", s.nfallback ? "F" : "", s.nplain ? "U" : "");
    vh_distinct("c16_shape", "%s|%s|%s", tc.optid, kind_name[tc.kind], mix);
    vh_distinct("c16_option_tuple", "%s|%s", tc.optid, kind_name[tc.kind]);
    if (nontrivial) { vh_count("c16_nontrivial_tables", 1); vh_distinct("c16_shape_nontrivial", "%s|%s|%s", tc.optid, kind_name[tc.kind], mix); }
    vh_count(tc.kind == K_PLAIN ? "c16_tables_plain" : tc.kind == K_IBYTE ? "c16_tables_internal_bytewise" : "c16_tables_internal_reverse", 1);
    if (tc.n == 0) vh_count("c16_tables_empty", 1);
    if (samples_left > 0 && tc.n > 20 && s.rt_ok && vh_nviolations() == viol0) {
      samples_left--;
      vh_sample(PROP, "table case %llu: %s %s, %zu entries (first %s, last %s), %zu bytes, %zu data blocks (%d snappy, %d raw-fallback, %d uncompressed), filter %zu bytes, %.3fs: scans, seeks, gets, filter probes and the reference decode all agree",
                (unsigned long long)idx, tc.optid, kind_name[tc.kind], tc.n, kstr(tc.kind, tc.e[0].k, tc.e[0].kl),
                kstr(tc.kind, tc.e[tc.n - 1].k, tc.e[tc.n - 1].kl), s.fsize, s.rt.nblocks, s.ncomp, s.nfallback, s.nplain, s.rt.filter_len,
                vh_now() - t0);
    }
  }
  if (s.rt_ok) rc_table_free(&s.rt);
  free(s.file);
  unlink(s.path);
  tc_free(&tc);
}

/* ================================================================== mode snappy */

static const char *style_name[7] = {"random", "runs", "text", "periodic", "mixed", "mutated-records", "low-entropy"};

static size_t snappy_size(vrng_t *r) {
  static const size_t edge[10] = {65535, 65536, 65537, 131071, 131072, 131073, 15, 16, 17, 18};
  uint32_t c = vr_uniform(r, 100);
  if (c < 2) return 0;
  if (c < 10) return 1 + vr_uniform(r, 16);
  if (c < 20) return 17 + vr_uniform(r, 48);
  if (c < 50) return 65 + vr_uniform(r, 4032);
  if (c < 75) return 4097 + vr_uniform(r, 61439);
  if (c < 81) return edge[vr_uniform(r, 10)];
  if (c < 95) return 65538 + vr_uniform(r, 196607);
  return 262145 + vr_uniform(r, (1u << 20) - 262144);
}

static void fill_style(vrng_t *r, int style, uint8_t *p, size_t n) {
  static const char *words[12] = {"the", "quick", "brown", "fox", "leveldb", "table", "block", "restart", "a", "of", "compaction", "snappy"};
  static const size_t periods[28] = {1, 2, 3, 4, 5, 7, 8, 15, 16, 17, 60, 64, 100, 255, 256, 257, 2047, 2048, 2049, 4095, 4096, 4097, 32767, 32768, 65535, 65536, 65537, 70000};
  size_t i = 0;
  switch (style) {
    case 0:
      for (i = 0; i < n; i++) p[i] = (uint8_t)vr_next(r);
      break;
    case 1:
      while (i < n) {
        size_t len = vr_chance(r, 30) ? 1 + vr_uniform(r, 100000) : 1 + vr_skewed(r, 9);
        uint8_t c = (uint8_t)vr_next(r);
        while (len-- > 0 && i < n) p[i++] = c;
      }
      break;
    case 2:
      while (i < n) {
        const char *w = words[vr_uniform(r, 12)];
        while (*w && i < n) p[i++] = (uint8_t)*w++;
        if (i < n) p[i++] = vr_chance(r, 100) ? '\n' : ' ';
      }
      break;
    case 3: {
      size_t per = periods[vr_uniform(r, 28)];
      static const uint32_t noise[5] = {0, 1, 10, 50, 200};
      uint32_t q = noise[vr_uniform(r, 5)];
      for (i = 0; i < n; i++) p[i] = i < per ? (uint8_t)vr_next(r) : p[i - per];
      if (q) for (i = 0; i < n; i++) if (vr_chance(r, q)) p[i] = (uint8_t)vr_next(r);
      break;
    }
    case 4:
      while (i < n) {
        size_t len = 1 + vr_uniform(r, 20000);
        if (len > n - i) len = n - i;
        { static const int sub[6] = {0, 1, 2, 3, 5, 6}; fill_style(r, sub[vr_uniform(r, 6)], p + i, len); }
        i += len;
      }
      break;
    case 5: {   /* records: each is the previous one (distance = record length) with a few spans re-randomised,
                   which leaves short and long matches at one exact back-reference distance */
      size_t rec = vr_chance(r, 600) ? periods[16 + vr_uniform(r, 12)] : 20 + vr_uniform(r, 5000);
      uint32_t spans = 1 + vr_uniform(r, 60);
      for (i = 0; i < n && i < rec; i++) p[i] = (uint8_t)vr_next(r);
      for (; i < n; i++) p[i] = p[i - rec];
      for (i = rec; i < n; i += rec) {
        uint32_t k;
        size_t j;
        for (k = 0; k < spans; k++) {
          size_t at = i + vr_uniform(r, (uint32_t)rec), len = 1 + vr_uniform(r, 24);
          for (j = at; j < at + len && j < n; j++) p[j] = (uint8_t)vr_next(r);
        }
        /* later records copy the already mutated predecessor */
        for (j = i + rec; j < i + 2 * rec && j < n; j++) p[j] = p[j - rec];
      }
      break;
    }
    default: {
      uint32_t syms = 2 + vr_uniform(r, 3);
      for (i = 0; i < n; i++) p[i] = (uint8_t)('a' + vr_uniform(r, syms));
      break;
    }
  }
}

/* histogram of element kinds in a VALID stream (evidence only) */
static void snappy_elements(const uint8_t *z, size_t n) {
  size_t ip = 0;
  uint64_t lit[3] = {0, 0, 0}, c1 = 0, c2near = 0, c2far = 0, c2_2048 = 0, c4 = 0;
  while (ip < n && (z[ip] & 0x80)) ip++;
  ip++;
  while (ip < n) {
    uint8_t tag = z[ip++];
    if ((tag & 3) == 0) {
      size_t len = tag >> 2;
      if (len >= 60) {
        size_t nb = len - 59, j;
        if (ip + nb > n) return;
        len = 0;
        for (j = 0; j < nb; j++) len |= (size_t)z[ip + j] << (8 * j);
        ip += nb;
        lit[nb <= 2 ? nb : 2]++;
      } else lit[0]++;
      ip += len + 1;
    } else if ((tag & 3) == 1) { c1++; ip += 1; }
    else if ((tag & 3) == 2) {
      size_t off;
      if (ip + 2 > n) return;
      off = z[ip] | ((size_t)z[ip + 1] << 8);
      if (off < 2048) c2near++; else c2far++;
      if (off == 2048) c2_2048++;
      ip += 2;
    } else { c4++; ip += 4; }
  }
  vh_count("c16_snappy_real_lit_intag", lit[0]); vh_count("c16_snappy_real_lit_1byte", lit[1]); vh_count("c16_snappy_real_lit_2byte", lit[2]);
  vh_count("c16_snappy_real_copy1", c1); vh_count("c16_snappy_real_copy2_near", c2near); vh_count("c16_snappy_real_copy2_off_ge_2048", c2far);
  vh_count("c16_snappy_real_copy2_off_eq_2048", c2_2048); vh_count("c16_snappy_real_copy4", c4);
}

/* real decoder on an arbitrary stream; output buffer is exactly the declared
 * length (ASan).  returns 1 accepted (out/outlen set), 0 rejected, -1 skipped */
static int real_decode(const uint8_t *z, size_t zn, size_t cap, uint8_t **out, size_t *outlen) {
  size_t decl = 0;
  uint8_t *o;
  *out = NULL; *outlen = 0;
  if (!snappy_decode_size(&decl, z, zn)) return 0;
  if (decl > cap) return -1;
  o = xmalloc(decl);
  memset(o, 0xA5, decl);
  if (!snappy_decode(o, z, zn)) { free(o); return 0; }
  *out = o; *outlen = decl;
  return 1;
}

static void snappy_mutations(vrng_t *r, const uint8_t *z, size_t zn, size_t n, const char *what) {
  size_t rounds = 4 + 400000 / (zn + n + 1000), k;
  rc_buf_t ref;
  if (rounds > 48) rounds = 48;
  rc_buf_init(&ref);
  for (k = 0; k < rounds; k++) {
    size_t mn = zn, at = 0;
    uint8_t *m, *out;
    size_t outlen;
    int trunc = (k & 1) == 0, ra, rr;
    uint8_t old = 0;
    if (zn == 0) break;
    if (trunc) mn = vr_chance(r, 300) ? zn - 1 - vr_uniform(r, zn > 8 ? 8 : (uint32_t)zn) : vr_uniform(r, (uint32_t)zn);
    m = xdup(z, mn);                               /* exact-size copy */
    if (!trunc) {
      at = vr_chance(r, 300) ? vr_uniform(r, zn > 12 ? 12 : (uint32_t)zn) : vr_uniform(r, (uint32_t)zn);
      old = m[at];
      m[at] = vr_chance(r, 500) ? (uint8_t)(old ^ (1u << vr_uniform(r, 8))) : (uint8_t)vr_next(r);
    }
    ra = real_decode(m, mn, 4 * n + (1u << 20), &out, &outlen);
    vh_count(trunc ? "c16_snappy_truncations" : "c16_snappy_alterations", 1);
    if (ra >= 0) {
      rr = rc_snappy_decode(m, mn, &ref) == 0;
      if (ra == 1 && !rr)
        VIOL("snappy-decoder-accepts-garbage-wrong-length", "%s of a %zu-byte stream (%s, %zu raw bytes): snappy_decode accepts it (declared %zu) but the stream is not a valid snappy encoding of that length per the reference decoder [%s byte %zu %02x->%02x len %zu] head %s",
             trunc ? "truncation" : "alteration", zn, what, n, outlen, trunc ? "cut" : "at", at, old, trunc ? 0 : m[at], mn, vh_hex(m, mn > 40 ? 40 : mn));
      else if (ra == 1 && (ref.len != outlen || (outlen && memcmp(ref.data, out, outlen) != 0)))
        VIOL("snappy-decoder-accepts-garbage-wrong-length", "%s of a %zu-byte stream (%s): snappy_decode output (%zu bytes) differs from the reference decoding (%zu bytes) [byte %zu len %zu]",
             trunc ? "truncation" : "alteration", zn, what, outlen, ref.len, at, mn);
      else if (ra == 0 && rr)
        VIOL("snappy-decoder-rejects-valid", "%s of a %zu-byte stream (%s) is still a valid stream (reference decodes %zu bytes) but snappy_decode rejects it [byte %zu %02x->%02x len %zu]",
             trunc ? "truncation" : "alteration", zn, what, ref.len, at, old, trunc ? 0 : m[at], mn);
      if (ra == 1) vh_count("c16_snappy_mutants_still_valid", 1); else vh_count("c16_snappy_mutants_rejected", 1);
    } else vh_count("c16_snappy_mutants_skipped_huge_declared_length", 1);
    free(out);
    free(m);
  }
  rc_buf_free(&ref);
}

static void run_snappy_case(uint64_t idx) {
  vrng_t r;
  size_t n, bound = 0, zl;
  int style, st;
  uint8_t *x, *z, *out;
  size_t outlen;
  rc_buf_t ref, enc;
  char cname[40];

  case_begin();
  case_rng(&r, "snappy", idx);
  n = snappy_size(&r);
  style = (int)((idx + g_seed) % 7);
  vh_set_context("fmtmon_table --seed %llu --mode snappy --first %llu --count 1 | style=%s n=%zu", (unsigned long long)g_seed,
                 (unsigned long long)idx, style_name[style], n);
  x = xmalloc(n);
  fill_style(&r, style, x, n);
  rc_buf_init(&ref);
  rc_buf_init(&enc);

  /* (i) real encoder -> both decoders */
  if (!snappy_encode_size(&bound, n)) vh_fatal("snappy_encode_size(%zu) failed", n);
  z = xmalloc(bound);                                  /* exactly the promised bound (ASan) */
  zl = snappy_encode(z, x, n);
  if (zl > bound || bound > 32 + n + n / 6)
    VIOL("snappy-roundtrip", "snappy_encode of %zu bytes produced %zu bytes, bound %zu (format bound %zu)", n, zl, bound, 32 + n + n / 6);
  else {
    uint8_t *zz = xdup(z, zl);                         /* exact-size stream for the decoders */
    if (rc_snappy_decode(zz, zl, &ref) != 0)
      VIOL("snappy-roundtrip", "reference decoder rejects snappy_encode's %zu-byte output for %zu input bytes; head %s", zl, n, vh_hex(zz, zl > 48 ? 48 : zl));
    else if (ref.len != n || (n && memcmp(ref.data, x, n) != 0)) {
      size_t d = 0;
      while (d < n && d < ref.len && ref.data[d] == x[d]) d++;
      VIOL("snappy-roundtrip", "reference decoding of snappy_encode's output differs from the input: %zu bytes vs %zu, first difference at %zu", ref.len, n, d);
    } else snappy_elements(zz, zl);
    st = real_decode(zz, zl, n + 64, &out, &outlen);
    if (st != 1)
      VIOL("snappy-roundtrip", "snappy_decode %s its own encoder's output (%zu bytes for %zu input bytes)", st == 0 ? "rejects" : "declares an absurd length for", zl, n);
    else if (outlen != n || (n && memcmp(out, x, n) != 0))
      VIOL("snappy-roundtrip", "snappy_decode(snappy_encode(x)) != x (%zu vs %zu bytes)", outlen, n);
    free(out);
    snappy_mutations(&r, zz, zl, n, "lcdb encoder output");
    free(zz);
  }
  free(z);
  snprintf(cname, sizeof(cname), "c16_snappy_buffers_%s", style_name[style]);
  vh_count(cname, 1);
  vh_count("c16_snappy_real_encodes", 1);
  vh_count("c16_snappy_input_bytes", n);

  /* (ii) reference encoder styles -> real decoder */
  for (st = 0; st < 4; st++) {
    uint8_t *zz;
    int ok;
    if (st == 3 && n > (256u << 10) && style == 0) continue;   /* rle search on 1 MiB of noise: nothing to find */
    rc_snappy_encode(x, n, st, &enc);
    zz = xdup(enc.data, enc.len);
    ok = real_decode(zz, enc.len, n + 64, &out, &outlen);
    if (ok != 1)
      VIOL("snappy-decoder-rejects-valid", "snappy_decode rejects a valid stream from the reference encoder style %d (%zu bytes encoding %zu); head %s", st, enc.len, n,
           vh_hex(zz, enc.len > 48 ? 48 : enc.len));
    else if (outlen != n || (n && memcmp(out, x, n) != 0)) {
      size_t d = 0;
      while (d < n && d < outlen && out[d] == x[d]) d++;
      VIOL("snappy-decoder-rejects-valid", "snappy_decode mis-decodes a valid stream from the reference encoder style %d: %zu bytes vs %zu, first difference at %zu", st, outlen, n, d);
    }
    free(out);
    snprintf(cname, sizeof(cname), "c16_snappy_ref_style%d_streams", st);
    vh_count(cname, 1);
    if (st == (int)(idx % 4)) snappy_mutations(&r, zz, enc.len, n, st == 2 ? "reference style 2 (copy-4)" : st == 3 ? "reference style 3 (rle/long literals)" : "reference encoder");
    free(zz);
  }
  if (samples_left > 0 && n > 64) {
    samples_left--;
    vh_sample(PROP, "snappy case %llu: %zu bytes of style %s -> snappy_encode %zu bytes (bound %zu); reference decoder and snappy_decode both reproduce the input; reference encoder styles 0..3 accepted by snappy_decode; truncated/altered streams handled",
              (unsigned long long)idx, n, style_name[style], zl, bound);
  }
  vh_distinct("c16_snappy_shape", "%s|%s", style_name[style], n == 0 ? "0" : n < 17 ? "<17" : n < 65536 ? "<64K" : n == 65536 ? "=64K" : n <= (256u << 10) ? "<=256K" : "<=1M");
  rc_buf_free(&ref);
  rc_buf_free(&enc);
  free(x);
}

/* ================================================================== mode sep */

#define NSTR 259
#define NPAIRS (NSTR * (NSTR - 1) / 2)
static uint8_t sstr[NSTR][3];
static uint8_t slen[NSTR];
static uint16_t pair_a[NPAIRS], pair_b[NPAIRS];

static int sstr_cmp(const void *x, const void *y) {
  const uint8_t *a = x, *b = y;   /* layout: 3 bytes + length byte */
  return m_cmp(CMP_BYTEWISE, a, a[3], b, b[3]);
}

static void sep_init(void) {
  uint8_t tmp[NSTR][4];
  int n = 0, i, j, k, l;
  size_t p = 0;
  memset(tmp, 0, sizeof(tmp));
  n++;                                        /* the empty string */
  for (i = 0; i < 6; i++) { tmp[n][0] = ALPHA[i]; tmp[n][3] = 1; n++; }
  for (i = 0; i < 6; i++) for (j = 0; j < 6; j++) { tmp[n][0] = ALPHA[i]; tmp[n][1] = ALPHA[j]; tmp[n][3] = 2; n++; }
  for (i = 0; i < 6; i++) for (j = 0; j < 6; j++) for (k = 0; k < 6; k++) { tmp[n][0] = ALPHA[i]; tmp[n][1] = ALPHA[j]; tmp[n][2] = ALPHA[k]; tmp[n][3] = 3; n++; }
  if (n != NSTR) vh_fatal("sep_init: %d strings", n);
  qsort(tmp, NSTR, 4, sstr_cmp);
  for (l = 0; l < NSTR; l++) { memcpy(sstr[l], tmp[l], 3); slen[l] = tmp[l][3]; }
  for (i = 0; i < NSTR; i++) for (j = i + 1; j < NSTR; j++) { pair_a[p] = (uint16_t)i; pair_b[p] = (uint16_t)j; p++; }
}

static void sep_bytewise(const uint8_t *a, size_t al, const uint8_t *b, size_t bl) {
  ldb_buffer_t s;
  uint8_t *bb = xdup(b, bl);
  ldb_slice_t lim = ldb_slice(bb, bl);
  ldb_buffer_init(&s);
  ldb_buffer_set(&s, a, al);
  ldb_shortest_separator(ldb_bytewise_comparator, &s, &lim);
  if (m_cmp(CMP_BYTEWISE, a, al, s.data, s.size) > 0 || m_cmp(CMP_BYTEWISE, s.data, s.size, b, bl) >= 0)
    VIOL("separator-contract", "bytewise shortest_separator(start=%s, limit=%s) = %s: not in [start, limit)", vh_hex(a, al), vh_hex(b, bl), vh_hex(s.data, s.size));
  if (s.size != al || (al && memcmp(s.data, a, al) != 0)) vh_count("c16_sep_bytewise_shortened", 1);
  vh_count("c16_sep_pairs_bytewise", 1);
  ldb_buffer_clear(&s);
  free(bb);
}

static void succ_bytewise(const uint8_t *a, size_t al) {
  ldb_buffer_t s;
  ldb_buffer_init(&s);
  ldb_buffer_set(&s, a, al);
  ldb_short_successor(ldb_bytewise_comparator, &s);
  if (m_cmp(CMP_BYTEWISE, a, al, s.data, s.size) > 0)
    VIOL("successor-contract", "bytewise short_successor(%s) = %s sorts before its argument", vh_hex(a, al), vh_hex(s.data, s.size));
  vh_count("c16_successor_checks_bytewise", 1);
  ldb_buffer_clear(&s);
}

static size_t mk_ikey(uint8_t *dst, const uint8_t *u, size_t ul, uint64_t tag) {
  if (ul) memcpy(dst, u, ul);
  rc_put_fixed64(dst + ul, tag);
  return ul + 8;
}

static void sep_internal(const uint8_t *a, size_t al, uint64_t taga, const uint8_t *b, size_t bl, uint64_t tagb) {
  uint8_t ia[120], ib[120];
  size_t ial = mk_ikey(ia, a, al, taga), ibl = mk_ikey(ib, b, bl, tagb);
  ldb_buffer_t s;
  uint8_t *bb;
  ldb_slice_t lim;
  if (ocmp(K_IBYTE, ia, ial, ib, ibl) >= 0) return;      /* contract only speaks about start < limit */
  bb = xdup(ib, ibl);
  lim = ldb_slice(bb, ibl);
  ldb_buffer_init(&s);
  ldb_buffer_set(&s, ia, ial);
  ldb_shortest_separator(&ikc_byte, &s, &lim);
  if (s.size < 8)
    VIOL("separator-contract", "internal-key shortest_separator(%s, %s) = %s: shorter than 8 bytes, not an internal key", kstr(K_IBYTE, ia, ial), kstr(K_IBYTE, ib, ibl), vh_hex(s.data, s.size));
  else if (ocmp(K_IBYTE, ia, ial, s.data, s.size) > 0 || ocmp(K_IBYTE, s.data, s.size, ib, ibl) >= 0)
    VIOL("separator-contract", "internal-key shortest_separator(start=%s, limit=%s) = %s: not in [start, limit)", kstr(K_IBYTE, ia, ial), kstr(K_IBYTE, ib, ibl), kstr(K_IBYTE, s.data, s.size));
  if (s.size != ial || memcmp(s.data, ia, ial) != 0) vh_count("c16_sep_internal_shortened", 1);
  vh_count("c16_sep_pairs_internal", 1);
  ldb_buffer_clear(&s);
  free(bb);
}

static void succ_internal(const uint8_t *a, size_t al, uint64_t taga) {
  uint8_t ia[120];
  size_t ial = mk_ikey(ia, a, al, taga);
  ldb_buffer_t s;
  ldb_buffer_init(&s);
  ldb_buffer_set(&s, ia, ial);
  ldb_short_successor(&ikc_byte, &s);
  if (s.size < 8)
    VIOL("successor-contract", "internal-key short_successor(%s) = %s: shorter than 8 bytes", kstr(K_IBYTE, ia, ial), vh_hex(s.data, s.size));
  else if (ocmp(K_IBYTE, ia, ial, s.data, s.size) > 0)
    VIOL("successor-contract", "internal-key short_successor(%s) = %s sorts before its argument", kstr(K_IBYTE, ia, ial), kstr(K_IBYTE, s.data, s.size));
  vh_count("c16_successor_checks_internal", 1);
  ldb_buffer_clear(&s);
}

static const uint64_t TAGS[6] = {(MAXSEQ << 8) | 1, 0, (5 << 8) | 1, (5 << 8) | 0, (UINT64_C(1) << 48) | 1, (MAXSEQ << 8) | 0};

static void sep_pair(vrng_t *r, const uint8_t *a, size_t al, const uint8_t *b, size_t bl, uint64_t salt) {
  int i;
  sep_bytewise(a, al, b, bl);
  succ_bytewise(a, al);
  succ_bytewise(b, bl);
  for (i = 0; i < 3; i++) sep_internal(a, al, TAGS[(salt + (uint64_t)i * 2) % 6], b, bl, TAGS[(salt / 6 + (uint64_t)i) % 6]);
  sep_internal(a, al, (vr_next(r) & MAXSEQ) << 8 | (vr_next(r) & 1), b, bl, (vr_next(r) & MAXSEQ) << 8 | (vr_next(r) & 1));
  succ_internal(a, al, TAGS[salt % 6]);
  succ_internal(b, bl, TAGS[(salt / 6) % 6]);
}

static void run_sep_case(uint64_t idx) {
  vrng_t r;
  case_begin();
  case_rng(&r, "sep", idx);
  vh_set_context("fmtmon_table --seed %llu --mode sep --first %llu --count 1", (unsigned long long)g_seed, (unsigned long long)idx);
  if (idx < NPAIRS) {
    int ai = pair_a[idx], bi = pair_b[idx], i, j;
    sep_pair(&r, sstr[ai], slen[ai], sstr[bi], slen[bi], idx);
    vh_count("c16_sep_exhaustive_pairs", 1);
    if (samples_left > 0 && idx % 9973 == 4000) {
      samples_left--;
      vh_sample(PROP, "sep case %llu: start=%s limit=%s: bytewise and internal-key shortest_separator stay in [start, limit), short_successor >= argument",
                (unsigned long long)idx, vh_hex(sstr[ai], slen[ai]), vh_hex(sstr[bi], slen[bi]));
    }
    if (bi == ai + 1) {
      /* once per string: versions of ONE user key (start and limit share the user key) */
      int who = ai;
      for (i = 0; i < 6; i++) for (j = 0; j < 6; j++) sep_internal(sstr[who], slen[who], TAGS[i], sstr[who], slen[who], TAGS[j]);
      if (ai == NSTR - 2) for (i = 0; i < 6; i++) for (j = 0; j < 6; j++) sep_internal(sstr[bi], slen[bi], TAGS[i], sstr[bi], slen[bi], TAGS[j]);
    }
  } else {
    uint8_t a[100], b[100];
    size_t pl = vr_chance(&r, 300) ? 0 : vr_uniform(&r, 61), al, bl, i, ta = vr_uniform(&r, 9), tb = vr_uniform(&r, 9);
    int edgy = vr_chance(&r, 600);
    for (i = 0; i < pl; i++) a[i] = b[i] = edgy ? ALPHA[vr_uniform(&r, 6)] : (uint8_t)vr_next(&r);
    al = bl = pl;
    for (i = 0; i < ta; i++) a[al++] = edgy || vr_chance(&r, 500) ? ALPHA[vr_uniform(&r, 6)] : (uint8_t)vr_next(&r);
    for (i = 0; i < tb; i++) b[bl++] = edgy || vr_chance(&r, 500) ? ALPHA[vr_uniform(&r, 6)] : (uint8_t)vr_next(&r);
    if (vr_chance(&r, 150) && al > 0 && bl > pl) b[pl] = (uint8_t)(a[pl < al ? pl : al - 1] + 1);   /* adjacent bytes at the split */
    if (m_cmp(CMP_BYTEWISE, a, al, b, bl) == 0) b[bl++] = 0x00;
    if (m_cmp(CMP_BYTEWISE, a, al, b, bl) < 0) sep_pair(&r, a, al, b, bl, vr_next(&r));
    else sep_pair(&r, b, bl, a, al, vr_next(&r));
    vh_count("c16_sep_random_pairs", 1);
  }
}

/* ================================================================== main */

int main(int argc, char **argv) {
  uint64_t first = 0, count = 1, i;
  int k;
  for (k = 1; k < argc; k++) {
    if (!strcmp(argv[k], "--seed") && k + 1 < argc) g_seed = strtoull(argv[++k], NULL, 0);
    else if (!strcmp(argv[k], "--mode") && k + 1 < argc) g_mode = argv[++k];
    else if (!strcmp(argv[k], "--first") && k + 1 < argc) first = strtoull(argv[++k], NULL, 0);
    else if (!strcmp(argv[k], "--count") && k + 1 < argc) count = strtoull(argv[++k], NULL, 0);
    else if (!strcmp(argv[k], "--dir") && k + 1 < argc) g_dir = argv[++k];
    else if (!strcmp(argv[k], "--big") && k + 1 < argc) g_big = atoi(argv[++k]);
    else { fprintf(stderr, "unknown argument %s\nusage: fmtmon_table --seed S --mode table|snappy|sep --first I --count N --dir D [--big 1]\n", argv[k]); return 2; }
  }
  vh_init(NULL);
  mallopt(M_MMAP_THRESHOLD, 64 << 20);
  ldb_ikc_init(&ikc_byte, ldb_bytewise_comparator);
  ldb_ikc_init(&ikc_rev, m_comparator(CMP_REVERSE));
  if (!strcmp(g_mode, "table")) {
    if (vh_mkdir_p(g_dir) != 0) vh_fatal("cannot create %s", g_dir);
    for (i = first; i < first + count; i++) run_table_case(i);
  } else if (!strcmp(g_mode, "snappy")) {
    for (i = first; i < first + count; i++) run_snappy_case(i);
  } else if (!strcmp(g_mode, "sep")) {
    sep_init();
    for (i = first; i < first + count; i++) run_sep_case(i);
    vh_distinct("c16_sep_shape", "exhaustive<=3 over {00,01,7f,80,fe,ff}: %d pairs; beyond: random", NPAIRS);
  } else {
    fprintf(stderr, "unknown mode %s\n", g_mode);
    return 2;
  }
  vh_finish();
  return 0;
}

/* iomon - libc-boundary interposer. See iomon.h. */
#include <dirent.h>
#include <errno.h>
#include <fcntl.h>
#include <sched.h>
#include <stdarg.h>
#include <stdio.h>
#include <stdlib.h>
#include <string.h>
#include <sys/mman.h>
#include <sys/stat.h>
#include <sys/types.h>
#include <time.h>
#include <unistd.h>

#include "iomon.h"


const char *iom_opname[IOP_MAX] = {
  "none", "create", "open", "write", "fsync", "rename", "unlink", "close",
  "mkdir", "rmdir", "link", "read", "mmap", "opendir", "stat", "lseek", "mark"
};

const char *iom_pcname[PC_MAX] = {
  "none", "log", "table", "manifest", "current", "dbtmp", "lock", "info", "dir", "other"
};

/* real functions */
int __real_open(const char *path, int flags, ...);
int __real_open64(const char *path, int flags, ...);
int __real_creat(const char *path, mode_t mode);
int __real_close(int fd);
ssize_t __real_read(int fd, void *buf, size_t n);
ssize_t __real_pread(int fd, void *buf, size_t n, off_t off);
ssize_t __real_pread64(int fd, void *buf, size_t n, off_t off);
ssize_t __real_write(int fd, const void *buf, size_t n);
off_t __real_lseek(int fd, off_t off, int whence);
off_t __real_lseek64(int fd, off_t off, int whence);
int __real_fsync(int fd);
int __real_fdatasync(int fd);
int __real_unlink(const char *path);
int __real_rename(const char *from, const char *to);
int __real_mkdir(const char *path, mode_t mode);
int __real_rmdir(const char *path);
int __real_link(const char *from, const char *to);
int __real_stat(const char *path, struct stat *st);
int __real_fstat(int fd, struct stat *st);
int __real_access(const char *path, int mode);
DIR *__real_opendir(const char *path);
void *__real_mmap(void *addr, size_t len, int prot, int flags, int fd, off_t off);

void (*iom_yield_hook)(int op, int pc) = NULL;
void (*iom_event_hook)(const iom_event_t *ev) = NULL;

/* ------------------------------------------------------------------ */
/* lock: a spinlock on atomics, invisible to the pthread interposer */

static int iom_lock_word = 0;

static void lock(void) {
  while (__atomic_exchange_n(&iom_lock_word, 1, __ATOMIC_ACQUIRE))
    sched_yield();
}

static void unlock(void) {
  __atomic_store_n(&iom_lock_word, 0, __ATOMIC_RELEASE);
}

/* fork() of a process whose other threads (lcdb background threads of other handles) may be inside the interposer:
   taken with the interposer's lock held, so that the child - which consists of the forking thread only - never
   inherits the lock in the hands of a thread that does not exist there */
pid_t iom_fork(void) {
  pid_t pid;
  lock();
  pid = fork();
  unlock();          /* parent and child alike: the forking thread is the holder in both */
  return pid;
}

/* ------------------------------------------------------------------ */
/* state */

#define MAX_ROOTS 8
#define MAX_FD 8192

static char roots[MAX_ROOTS][1024];
static size_t rootlen[MAX_ROOTS];
static int nroots = 0;

static uint64_t g_clock = 0;
static int g_trace = 0, g_keep = 0;

/* events live in fixed chunks that never move, so a monitor thread may read
   events [0, iom_nevents()) while other threads keep appending */
#define EV_CHUNK 4096
#define EV_MAXCHUNKS 65536
static iom_event_t *evchunks[EV_MAXCHUNKS];
static size_t nevents = 0;

static iom_obj_t *objs = NULL;
static size_t nobjs = 0, capobjs = 0;

static char **names = NULL;
static int *name_root = NULL;
static int *name_bind = NULL; /* object currently bound to this name, -1 none */
static size_t nnames = 0, capnames = 0;

typedef struct {
  int used, obj, root, pc, name, writable, append, isdir;
  uint64_t num;
  uint64_t pos;
  int fail_next_write; /* errno to fail the next write with (short-write mode) */
} fdent_t;

static fdent_t fdt[MAX_FD];

static uint64_t counts[IOP_MAX][PC_MAX];
static uint64_t total_calls;   /* never reset: progress measure for hang detection */

static __thread int t_pause = 0;
static __thread int t_tid = 0;
static int next_tid = 0;

int iom_tid(void) {
  if (t_tid == 0)
    t_tid = __atomic_add_fetch(&next_tid, 1, __ATOMIC_RELAXED);
  return t_tid;
}

uint64_t iom_clock(void) {
  return __atomic_add_fetch(&g_clock, 1, __ATOMIC_SEQ_CST);
}

void iom_pause(int delta) { t_pause += delta; }

/* ------------------------------------------------------------------ */
/* roots, names, classification */

int iom_add_root(const char *dir) {
  int i;
  size_t n = strlen(dir);
  while (n > 1 && dir[n - 1] == '/') n--;
  lock();
  for (i = 0; i < nroots; i++) {
    if (rootlen[i] == n && memcmp(roots[i], dir, n) == 0) { unlock(); return i; }
  }
  if (nroots == MAX_ROOTS || n >= sizeof(roots[0])) { unlock(); abort(); }
  memcpy(roots[nroots], dir, n);
  roots[nroots][n] = 0;
  rootlen[nroots] = n;
  i = nroots++;
  unlock();
  return i;
}

void iom_clear_roots(void) { lock(); nroots = 0; unlock(); }

const char *iom_root(int idx) { return roots[idx]; }

/* returns root index or -1; *rel = path relative to root ("" for the dir itself) */
static int match_root(const char *path, const char **rel) {
  int i;
  size_t n;
  if (path == NULL) return -1;
  n = strlen(path);
  for (i = 0; i < nroots; i++) {
    size_t r = rootlen[i];
    if (n >= r && memcmp(path, roots[i], r) == 0) {
      if (path[r] == 0) { *rel = path + r; return i; }
      if (path[r] == '/') {
        const char *p = path + r + 1;
        while (*p == '/') p++;
        *rel = p;
        return i;
      }
    }
  }
  return -1;
}

static int all_digits(const char *s, size_t n) {
  size_t i;
  if (n == 0) return 0;
  for (i = 0; i < n; i++) if (s[i] < '0' || s[i] > '9') return 0;
  return 1;
}

int iom_classify(const char *base, uint64_t *num) {
  size_t n = strlen(base);
  const char *dot;
  *num = 0;
  if (n == 0) return PC_DIR;
  if (strchr(base, '/') != NULL) return PC_OTHER;
  if (strcmp(base, "CURRENT") == 0) return PC_CURRENT;
  if (strcmp(base, "LOCK") == 0) return PC_LOCK;
  if (strcmp(base, "LOG") == 0 || strcmp(base, "LOG.old") == 0) return PC_INFO;
  if (strncmp(base, "MANIFEST-", 9) == 0 && all_digits(base + 9, n - 9)) {
    *num = strtoull(base + 9, NULL, 10);
    return PC_MANIFEST;
  }
  dot = strrchr(base, '.');
  if (dot != NULL && all_digits(base, dot - base)) {
    *num = strtoull(base, NULL, 10);
    if (strcmp(dot, ".log") == 0) return PC_LOG;
    if (strcmp(dot, ".ldb") == 0 || strcmp(dot, ".sst") == 0) return PC_TABLE;
    if (strcmp(dot, ".dbtmp") == 0) return PC_DBTMP;
    *num = 0;
  }
  return PC_OTHER;
}

/* caller holds lock */
static int name_id(int root, const char *rel) {
  size_t i;
  for (i = nnames; i-- > 0;) {
    if (name_root[i] == root && strcmp(names[i], rel) == 0) return (int)i;
  }
  if (nnames == capnames) {
    capnames = capnames ? capnames * 2 : 256;
    names = realloc(names, capnames * sizeof(char *));
    name_root = realloc(name_root, capnames * sizeof(int));
    name_bind = realloc(name_bind, capnames * sizeof(int));
  }
  names[nnames] = strdup(rel);
  name_root[nnames] = root;
  name_bind[nnames] = -1;
  return (int)nnames++;
}

const char *iom_name(int id) { return (id >= 0 && (size_t)id < nnames) ? names[id] : ""; }

/* caller holds lock */
static int new_obj(int pc, int name, uint64_t num) {
  iom_obj_t *o;
  if (nobjs == capobjs) {
    capobjs = capobjs ? capobjs * 2 : 128;
    objs = realloc(objs, capobjs * sizeof(iom_obj_t));
  }
  o = &objs[nobjs];
  memset(o, 0, sizeof(*o));
  o->id = (int)nobjs;
  o->pc = pc;
  o->first_name = name;
  o->num = num;
  o->creator_fd = -1;
  return (int)nobjs++;
}

static void obj_write(iom_obj_t *o, uint64_t off, const void *buf, size_t n) {
  if (off + n > o->len) {
    if (g_keep) {
      if (off + n > o->cap) {
        size_t c = o->cap ? o->cap : 4096;
        while (c < off + n) c *= 2;
        o->data = realloc(o->data, c);
        if (c > o->cap) memset(o->data + o->cap, 0, c - o->cap);
        o->cap = c;
      }
    }
    o->len = off + n;
  }
  if (g_keep && n) memcpy(o->data + off, buf, n);
}

size_t iom_nevents(void) {
  size_t n;
  lock();     /* events are completed under the lock: everything below n is final */
  n = nevents;
  unlock();
  return n;
}
const iom_event_t *iom_event(size_t i) { return &evchunks[i / EV_CHUNK][i % EV_CHUNK]; }
size_t iom_nobjs(void) { return nobjs; }
const iom_obj_t *iom_obj(int id) { return (id >= 0 && (size_t)id < nobjs) ? &objs[id] : NULL; }

/* caller holds lock */
static iom_event_t *push_event(int op, int pc) {
  iom_event_t *e;
  size_t c = nevents / EV_CHUNK;
  if (c >= EV_MAXCHUNKS) abort();
  if (evchunks[c] == NULL) evchunks[c] = malloc(EV_CHUNK * sizeof(iom_event_t));
  e = &evchunks[c][nevents % EV_CHUNK];
  nevents++;
  memset(e, 0, sizeof(*e));
  e->clk = iom_clock();
  e->tid = iom_tid();
  e->op = op;
  e->pc = pc;
  e->obj = -1;
  e->name = -1;
  e->name2 = -1;
  e->root = -1;
  e->fd = -1;
  return e;
}

void iom_trace(int on, int keep_data) {
  lock();
  g_trace = on;
  g_keep = keep_data;
  unlock();
}

void iom_trace_reset(void) {
  size_t i;
  lock();
  for (i = 0; i < nobjs; i++) free(objs[i].data);
  for (i = 0; i < nnames; i++) free(names[i]);
  nobjs = nnames = nevents = 0;
  { int k; for (k = 0; k < MAX_FD; k++) __atomic_store_n(&fdt[k].used, 0, __ATOMIC_RELEASE); }
  memset(counts, 0, sizeof(counts));
  unlock();
}

void iom_mark(int kind, uint64_t a, uint64_t b) {
  lock();
  if (g_trace) {
    iom_event_t *e = push_event(IOP_MARK, PC_NONE);
    e->flags = kind;
    e->off = a;
    e->len = b;
    if (iom_event_hook) iom_event_hook(e);
  }
  unlock();
}

void iom_snapshot_existing(int root) {
  DIR *d;
  struct dirent *de;
  char path[2048];
  d = __real_opendir(roots[root]);
  if (d == NULL) return;
  while ((de = readdir(d)) != NULL) {
    struct stat st;
    uint64_t num;
    int pc, nid, oid;
    if (strcmp(de->d_name, ".") == 0 || strcmp(de->d_name, "..") == 0) continue;
    snprintf(path, sizeof(path), "%s/%s", roots[root], de->d_name);
    if (__real_stat(path, &st) != 0 || !S_ISREG(st.st_mode)) continue;
    pc = iom_classify(de->d_name, &num);
    lock();
    nid = name_id(root, de->d_name);
    oid = new_obj(pc, nid, num);
    name_bind[nid] = oid;
    objs[oid].len = 0;
    if (g_keep && st.st_size > 0) {
      int fd = __real_open(path, O_RDONLY);
      if (fd >= 0) {
        unsigned char *buf = malloc(st.st_size);
        ssize_t got = 0, r;
        while (got < st.st_size && (r = __real_read(fd, buf + got, st.st_size - got)) > 0) got += r;
        obj_write(&objs[oid], 0, buf, got);
        free(buf);
        __real_close(fd);
      }
    } else {
      objs[oid].len = st.st_size;
    }
    objs[oid].preexisting = objs[oid].len;
    objs[oid].snapshot = 1;
    unlock();
  }
  closedir(d);
}

uint64_t iom_count(int op, int pc) { return __atomic_load_n(&counts[op][pc], __ATOMIC_RELAXED); }
uint64_t iom_total_calls(void) { return __atomic_load_n(&total_calls, __ATOMIC_RELAXED); }
void iom_counts_reset(void) { lock(); memset(counts, 0, sizeof(counts)); unlock(); }

/* ------------------------------------------------------------------ */
/* faults, delays, gates */

#define MAX_RULES 16
typedef struct { int used, op, pc, err, persistent, mode; uint64_t nth, seen; } rule_t;
static rule_t rules[MAX_RULES];
static uint64_t faults_fired = 0;
static int rules_active = 0, gates_active = 0;

int iom_fault_add(int op, int pc, uint64_t nth, int err, int persistent, int mode) {
  int i;
  lock();
  for (i = 0; i < MAX_RULES; i++) {
    if (!rules[i].used) {
      rules[i].used = 1; rules[i].op = op; rules[i].pc = pc; rules[i].nth = nth;
      rules[i].err = err; rules[i].persistent = persistent; rules[i].mode = mode;
      rules[i].seen = 0;
      __atomic_add_fetch(&rules_active, 1, __ATOMIC_SEQ_CST);
      unlock();
      return i;
    }
  }
  unlock();
  return -1;
}

void iom_fault_clear(void) {
  int i;
  lock();
  memset(rules, 0, sizeof(rules));
  __atomic_store_n(&rules_active, 0, __ATOMIC_SEQ_CST);
  for (i = 0; i < MAX_FD; i++) fdt[i].fail_next_write = 0;
  unlock();
}

uint64_t iom_fault_fired(void) { return __atomic_load_n(&faults_fired, __ATOMIC_RELAXED); }

/* returns errno to inject (0 = none); *mode receives the rule mode */
static int fault_check(int op, int pc, int *mode) {
  int i, err = 0;
  if (__atomic_load_n(&rules_active, __ATOMIC_SEQ_CST) == 0) return 0;
  lock();
  for (i = 0; i < MAX_RULES; i++) {
    rule_t *r = &rules[i];
    if (!r->used || r->op != op || (r->pc != PC_NONE && r->pc != pc)) continue;
    r->seen++;
    if (r->seen == r->nth || (r->persistent && r->seen > r->nth)) {
      err = r->err;
      *mode = r->mode;
      faults_fired++;
      break;
    }
  }
  unlock();
  return err;
}

static uint64_t delay_seed = 0;
static int delay_permille = 0, delay_max_us = 0;
static __thread uint64_t t_rng = 0;

void iom_delay(uint64_t seed, int permille, int max_us) {
  delay_seed = seed; delay_permille = permille; delay_max_us = max_us;
}

static uint64_t trng(void) {
  if (t_rng == 0) t_rng = (delay_seed + 0x9e3779b97f4a7c15ULL) * (uint64_t)(iom_tid() * 2 + 1) | 1;
  t_rng ^= t_rng << 13; t_rng ^= t_rng >> 7; t_rng ^= t_rng << 17;
  return t_rng;
}

static void maybe_delay(void) {
  if (delay_permille > 0) {
    uint64_t r = trng();
    if ((int)(r % 1000) < delay_permille) {
      if (delay_max_us <= 0 || ((r >> 20) & 1)) sched_yield();
      else usleep((r >> 24) % (delay_max_us + 1));
    }
  }
}

#define MAX_SLOW 4
static struct { int op, pc, us; } slows[MAX_SLOW];
static int nslow = 0;

void iom_slow(int op, int pc, int us) {
  lock();
  if (nslow < MAX_SLOW) { slows[nslow].op = op; slows[nslow].pc = pc; slows[nslow].us = us; nslow++; }
  unlock();
}

void iom_slow_clear(void) { lock(); nslow = 0; unlock(); }

static void maybe_slow(int op, int pc) {
  int i, us = 0;
  for (i = 0; i < nslow; i++)
    if (slows[i].op == op && (slows[i].pc == PC_NONE || slows[i].pc == pc)) us = slows[i].us;
  if (us > 0) usleep(us);
}

#define MAX_GATES 8
typedef struct { int armed, op, pc, reached, released; uint64_t nth, seen; } gate_t;
static gate_t gates[MAX_GATES];

int iom_gate_arm(int op, int pc, uint64_t nth) {
  int i;
  lock();
  for (i = 0; i < MAX_GATES; i++) {
    if (!gates[i].armed) {
      memset(&gates[i], 0, sizeof(gate_t));
      gates[i].armed = 1; gates[i].op = op; gates[i].pc = pc; gates[i].nth = nth;
      __atomic_add_fetch(&gates_active, 1, __ATOMIC_SEQ_CST);
      unlock();
      return i;
    }
  }
  unlock();
  return -1;
}

int iom_gate_reached(int g) { return __atomic_load_n(&gates[g].reached, __ATOMIC_ACQUIRE); }

int iom_gate_wait(int g, int timeout_ms) {
  int waited = 0;
  while (!iom_gate_reached(g)) {
    if (waited >= timeout_ms * 1000) return 0;
    usleep(200);
    waited += 200;
  }
  return 1;
}

void iom_gate_release(int g) { __atomic_store_n(&gates[g].released, 1, __ATOMIC_RELEASE); }

void iom_gate_clear(void) {
  int i;
  for (i = 0; i < MAX_GATES; i++) {
    __atomic_store_n(&gates[i].released, 1, __ATOMIC_RELEASE);
    gates[i].armed = 0;
  }
  __atomic_store_n(&gates_active, 0, __ATOMIC_SEQ_CST);
}

static void gate_check(int op, int pc) {
  int i, hit = -1;
  if (__atomic_load_n(&gates_active, __ATOMIC_SEQ_CST) == 0) return;
  lock();
  for (i = 0; i < MAX_GATES; i++) {
    gate_t *g = &gates[i];
    if (!g->armed || g->reached || g->op != op || (g->pc != PC_NONE && g->pc != pc)) continue;
    if (++g->seen == g->nth) { hit = i; break; }
  }
  unlock();
  if (hit >= 0) {
    __atomic_store_n(&gates[hit].reached, 1, __ATOMIC_RELEASE);
    while (!__atomic_load_n(&gates[hit].released, __ATOMIC_ACQUIRE)) usleep(100);
  }
}

/* common prologue for an observed call: returns errno to inject or 0 */
static int pre(int op, int pc, int *mode) {
  *mode = 0;
  __atomic_add_fetch(&counts[op][pc], 1, __ATOMIC_RELAXED);
  __atomic_add_fetch(&total_calls, 1, __ATOMIC_RELAXED);
  if (iom_yield_hook) iom_yield_hook(op, pc);
  maybe_delay();
  if (nslow) maybe_slow(op, pc);
  gate_check(op, pc);
  return fault_check(op, pc, mode);
}

/* ------------------------------------------------------------------ */
/* wrappers */

static int do_open(int which, const char *path, int flags, mode_t mode) {
  const char *rel;
  int root, pc, op, inj, fmode, fd, existed = 1, err = 0;
  uint64_t num;

  if (t_pause || (root = match_root(path, &rel)) < 0) {
    if (which == 1) return __real_open64(path, flags, mode);
    return __real_open(path, flags, mode);
  }

  pc = iom_classify(rel, &num);
  op = (flags & O_CREAT) ? IOP_CREATE : IOP_OPEN;
  inj = pre(op, pc, &fmode);

  if (flags & O_CREAT) existed = (__real_access(path, F_OK) == 0);

  if (inj) {
    fd = -1; err = inj;
  } else {
    fd = (which == 1) ? __real_open64(path, flags, mode) : __real_open(path, flags, mode);
    err = errno;
  }

  lock();
  {
    int nid = name_id(root, rel);
    int oid = -1, newobj = 0;
    if (fd >= 0 && fd < MAX_FD) {
      struct stat st;
      int isdir = 0;
      fdent_t *f = &fdt[fd];
      if (pc == PC_DIR || pc == PC_OTHER) {
        if (__real_fstat(fd, &st) == 0 && S_ISDIR(st.st_mode)) isdir = 1;
      }
      if (!isdir) {
        oid = name_bind[nid];
        if ((flags & O_CREAT) && (!existed || (flags & O_TRUNC) || oid < 0)) {
          if (!existed || (flags & O_TRUNC)) {
            oid = new_obj(pc, nid, num);
            name_bind[nid] = oid;
            newobj = 1;
          } else if (oid < 0) {
            /* existing file we never saw: adopt it with its current size */
            oid = new_obj(pc, nid, num);
            name_bind[nid] = oid;
            if (__real_fstat(fd, &st) == 0) objs[oid].len = objs[oid].preexisting = st.st_size;
            objs[oid].snapshot = 1;
          }
        } else if (oid < 0) {
          oid = new_obj(pc, nid, num);
          name_bind[nid] = oid;
          if (__real_fstat(fd, &st) == 0) objs[oid].len = objs[oid].preexisting = st.st_size;
        }
      }
      /* `used` is the publication flag of the entry (release/acquire): descriptors are recycled
         between threads through the kernel, which the race detector cannot see */
      f->fail_next_write = 0;
      f->obj = oid; f->root = root; f->pc = pc; f->name = nid; f->num = num;
      f->isdir = isdir;
      f->writable = ((flags & O_ACCMODE) != O_RDONLY);
      f->append = (flags & O_APPEND) != 0;
      f->pos = 0;
      if (oid >= 0 && f->writable) {
        objs[oid].open_w++;
        if (newobj) objs[oid].creator_fd = fd;
      }
      __atomic_store_n(&f->used, 1, __ATOMIC_RELEASE);
    }
    if (g_trace) {
      iom_event_t *e = push_event(op, pc);
      e->root = root; e->name = nid; e->obj = oid; e->num = num;
      e->flags = (flags & ~(IOM_F_NEWOBJ | IOM_F_EXISTED)) | (newobj ? IOM_F_NEWOBJ : 0) |
                 (((flags & O_CREAT) && existed) ? IOM_F_EXISTED : 0);
      e->res = fd; e->err = fd < 0 ? err : 0; e->injected = inj != 0; e->fd = fd;
      if (iom_event_hook) iom_event_hook(e);
    }
  }
  unlock();
  errno = err;
  return fd;
}

int __wrap_open(const char *path, int flags, ...) {
  mode_t mode = 0;
  if (flags & (O_CREAT | O_TMPFILE)) {
    va_list ap; va_start(ap, flags); mode = va_arg(ap, int); va_end(ap);
  }
  return do_open(0, path, flags, mode);
}

int __wrap_open64(const char *path, int flags, ...) {
  mode_t mode = 0;
  if (flags & (O_CREAT | O_TMPFILE)) {
    va_list ap; va_start(ap, flags); mode = va_arg(ap, int); va_end(ap);
  }
  return do_open(1, path, flags, mode);
}

int __wrap_creat(const char *path, mode_t mode) {
  return do_open(0, path, O_CREAT | O_WRONLY | O_TRUNC, mode);
}

static fdent_t *fdent(int fd) {
  if (fd < 0 || fd >= MAX_FD || !__atomic_load_n(&fdt[fd].used, __ATOMIC_ACQUIRE)) return NULL;
  return &fdt[fd];
}

int __wrap_close(int fd) {
  fdent_t *f;
  int inj, fmode, r, err = 0;
  fdent_t copy;
  if ((f = fdent(fd)) == NULL) return __real_close(fd);
  if (t_pause) {
    lock();
    if (f->obj >= 0 && f->writable) {
      objs[f->obj].open_w--;
      if (objs[f->obj].creator_fd == fd) objs[f->obj].creator_fd = -1;
    }
    __atomic_store_n(&f->used, 0, __ATOMIC_RELEASE);
    unlock();
    return __real_close(fd);
  }
  copy = *f;
  inj = pre(IOP_CLOSE, copy.pc, &fmode);
  /* the descriptor is released even when an error is reported (as on Linux) */
  lock();
  __atomic_store_n(&f->used, 0, __ATOMIC_RELEASE);
  if (copy.obj >= 0 && copy.writable) {
    objs[copy.obj].open_w--;
    if (objs[copy.obj].creator_fd == fd) objs[copy.obj].creator_fd = -1;
  }
  unlock();
  r = __real_close(fd);
  err = errno;
  if (inj) { r = -1; err = inj; }
  lock();
  if (g_trace) {
    iom_event_t *e = push_event(IOP_CLOSE, copy.pc);
    e->root = copy.root; e->name = copy.name; e->obj = copy.obj; e->num = copy.num; e->fd = fd;
    e->res = r; e->err = r < 0 ? err : 0; e->injected = inj != 0; e->flags = copy.writable;
    if (iom_event_hook) iom_event_hook(e);
  }
  unlock();
  errno = err;
  return r;
}

ssize_t __wrap_write(int fd, const void *buf, size_t n) {
  fdent_t *f;
  int inj, fmode, err = 0, pc;
  ssize_t r;
  if (t_pause || (f = fdent(fd)) == NULL) return __real_write(fd, buf, n);
  pc = f->pc;
  inj = pre(IOP_WRITE, pc, &fmode);
  if (!inj && f->fail_next_write) {
    inj = f->fail_next_write;
    fmode = IOF_CLEAN;
    f->fail_next_write = 0;
  }
  if (inj && fmode == IOF_SHORT && n >= 2) {
    /* the kernel accepted half of the request; the rest fails on the next call */
    r = __real_write(fd, buf, n / 2);
    err = errno;
    if (r >= 0) f->fail_next_write = inj;
  } else if (inj) {
    r = -1; err = inj;
  } else {
    r = __real_write(fd, buf, n);
    err = errno;
  }
  lock();
  {
    uint64_t off = 0;
    if (f->obj >= 0) {
      iom_obj_t *o = &objs[f->obj];
      off = f->append ? o->len : f->pos;
      if (r > 0) {
        obj_write(o, off, buf, r);
        f->pos = off + r;
      }
    }
    if (g_trace) {
      iom_event_t *e = push_event(IOP_WRITE, pc);
      e->root = f->root; e->name = f->name; e->obj = f->obj; e->num = f->num; e->fd = fd;
      e->off = off; e->len = r > 0 ? (uint64_t)r : 0;
      e->res = (int)r; e->err = r < 0 ? err : 0; e->injected = inj != 0;
      if (iom_event_hook) iom_event_hook(e);
    }
  }
  unlock();
  errno = err;
  return r;
}

static int do_fsync(int which, int fd) {
  fdent_t *f;
  int inj, fmode, r, err = 0, pc;
  if (t_pause || (f = fdent(fd)) == NULL) return which ? __real_fdatasync(fd) : __real_fsync(fd);
  pc = f->isdir ? PC_DIR : f->pc;
  inj = pre(IOP_FSYNC, pc, &fmode);
  if (inj) { r = -1; err = inj; }
  else { r = which ? __real_fdatasync(fd) : __real_fsync(fd); err = errno; }
  lock();
  if (g_trace) {
    iom_event_t *e = push_event(IOP_FSYNC, pc);
    e->root = f->root; e->name = f->name; e->obj = f->isdir ? -1 : f->obj; e->num = f->num; e->fd = fd;
    e->res = r; e->err = r < 0 ? err : 0; e->injected = inj != 0;
    if (f->obj >= 0 && !f->isdir) e->len = objs[f->obj].len;
    if (iom_event_hook) iom_event_hook(e);
  }
  unlock();
  errno = err;
  return r;
}

int __wrap_fsync(int fd) { return do_fsync(0, fd); }
int __wrap_fdatasync(int fd) { return do_fsync(1, fd); }

static ssize_t do_read(int which, int fd, void *buf, size_t n, off_t off) {
  fdent_t *f;
  int inj, fmode;
  if (t_pause || (f = fdent(fd)) == NULL) {
    if (which == 1) return __real_pread(fd, buf, n, off);
    if (which == 2) return __real_pread64(fd, buf, n, off);
    return __real_read(fd, buf, n);
  }
  inj = pre(IOP_READ, f->pc, &fmode);
  if (inj) { errno = inj; return -1; }
  if (which == 1) return __real_pread(fd, buf, n, off);
  if (which == 2) return __real_pread64(fd, buf, n, off);
  return __real_read(fd, buf, n);
}

ssize_t __wrap_read(int fd, void *buf, size_t n) { return do_read(0, fd, buf, n, 0); }
ssize_t __wrap_pread(int fd, void *buf, size_t n, off_t off) { return do_read(1, fd, buf, n, off); }
ssize_t __wrap_pread64(int fd, void *buf, size_t n, off_t off) { return do_read(2, fd, buf, n, off); }

static off_t do_lseek(int which, int fd, off_t off, int whence) {
  fdent_t *f;
  int inj, fmode;
  off_t r;
  if (t_pause || (f = fdent(fd)) == NULL)
    return which ? __real_lseek64(fd, off, whence) : __real_lseek(fd, off, whence);
  inj = pre(IOP_LSEEK, f->pc, &fmode);
  if (inj) { errno = inj; return -1; }
  r = which ? __real_lseek64(fd, off, whence) : __real_lseek(fd, off, whence);
  if (r >= 0 && f->writable) f->pos = r;
  return r;
}

off_t __wrap_lseek(int fd, off_t off, int whence) { return do_lseek(0, fd, off, whence); }
off_t __wrap_lseek64(int fd, off_t off, int whence) { return do_lseek(1, fd, off, whence); }

int __wrap_unlink(const char *path) {
  const char *rel;
  int root, pc, inj, fmode, r, err = 0;
  uint64_t num;
  if (t_pause || (root = match_root(path, &rel)) < 0) return __real_unlink(path);
  pc = iom_classify(rel, &num);
  inj = pre(IOP_UNLINK, pc, &fmode);
  if (inj) { r = -1; err = inj; } else { r = __real_unlink(path); err = errno; }
  lock();
  {
    int nid = name_id(root, rel);
    int oid = name_bind[nid];
    if (r == 0) name_bind[nid] = -1;
    if (g_trace) {
      iom_event_t *e = push_event(IOP_UNLINK, pc);
      e->root = root; e->name = nid; e->obj = oid; e->num = num;
      e->res = r; e->err = r < 0 ? err : 0; e->injected = inj != 0;
      if (oid >= 0) { e->flags = objs[oid].open_w; e->fd = objs[oid].creator_fd; }
      if (iom_event_hook) iom_event_hook(e);
    }
  }
  unlock();
  errno = err;
  return r;
}

static int two_names(int op, const char *from, const char *to) {
  const char *rel1, *rel2;
  int root1, root2, pc, inj, fmode, r, err = 0;
  uint64_t num, num2;
  root1 = match_root(from, &rel1);
  root2 = match_root(to, &rel2);
  if (t_pause || (root1 < 0 && root2 < 0))
    return op == IOP_RENAME ? __real_rename(from, to) : __real_link(from, to);
  pc = iom_classify(root2 >= 0 ? rel2 : rel1, &num2);
  (void)num2;
  inj = pre(op, pc, &fmode);
  if (inj) { r = -1; err = inj; }
  else { r = (op == IOP_RENAME) ? __real_rename(from, to) : __real_link(from, to); err = errno; }
  lock();
  {
    int n1 = root1 >= 0 ? name_id(root1, rel1) : -1;
    int n2 = root2 >= 0 ? name_id(root2, rel2) : -1;
    int oid = n1 >= 0 ? name_bind[n1] : -1;
    if (r == 0) {
      if (n2 >= 0) {
        if (oid < 0 && root2 >= 0) {
          /* source outside our roots or unseen: adopt as a new (complete) object */
          struct stat st;
          iom_classify(rel2, &num);
          oid = new_obj(pc, n2, num);
          if (__real_stat(to, &st) == 0) objs[oid].len = objs[oid].preexisting = st.st_size;
        }
        name_bind[n2] = oid;
      }
      if (op == IOP_RENAME && n1 >= 0) name_bind[n1] = -1;
    }
    if (g_trace) {
      iom_event_t *e = push_event(op, pc);
      e->root = root2 >= 0 ? root2 : root1; e->name = n1; e->name2 = n2; e->obj = oid;
      iom_classify(root2 >= 0 ? rel2 : rel1, &e->num);
      e->res = r; e->err = r < 0 ? err : 0; e->injected = inj != 0;
      e->flags = (root1 >= 0 ? 1 : 0) | (root2 >= 0 ? 2 : 0);
      if (iom_event_hook) iom_event_hook(e);
    }
  }
  unlock();
  errno = err;
  return r;
}

int __wrap_rename(const char *from, const char *to) { return two_names(IOP_RENAME, from, to); }
int __wrap_link(const char *from, const char *to) { return two_names(IOP_LINK, from, to); }

static int dir_op(int op, const char *path, mode_t mode) {
  const char *rel;
  int root, pc, inj, fmode, r, err = 0;
  uint64_t num;
  if (t_pause || (root = match_root(path, &rel)) < 0)
    return op == IOP_MKDIR ? __real_mkdir(path, mode) : __real_rmdir(path);
  pc = iom_classify(rel, &num);
  inj = pre(op, pc, &fmode);
  if (inj) { r = -1; err = inj; }
  else { r = op == IOP_MKDIR ? __real_mkdir(path, mode) : __real_rmdir(path); err = errno; }
  lock();
  if (g_trace) {
    iom_event_t *e = push_event(op, pc);
    e->root = root; e->name = name_id(root, rel);
    e->res = r; e->err = r < 0 ? err : 0; e->injected = inj != 0;
    if (iom_event_hook) iom_event_hook(e);
  }
  unlock();
  errno = err;
  return r;
}

int __wrap_mkdir(const char *path, mode_t mode) { return dir_op(IOP_MKDIR, path, mode); }
int __wrap_rmdir(const char *path) { return dir_op(IOP_RMDIR, path, 0); }

int __wrap_stat(const char *path, struct stat *st) {
  const char *rel;
  int root, inj, fmode;
  uint64_t num;
  if (t_pause || (root = match_root(path, &rel)) < 0) return __real_stat(path, st);
  inj = pre(IOP_STAT, iom_classify(rel, &num), &fmode);
  if (inj) { errno = inj; return -1; }
  return __real_stat(path, st);
}

int __wrap_fstat(int fd, struct stat *st) {
  fdent_t *f;
  int inj, fmode;
  if (t_pause || (f = fdent(fd)) == NULL) return __real_fstat(fd, st);
  inj = pre(IOP_STAT, f->pc, &fmode);
  if (inj) { errno = inj; return -1; }
  return __real_fstat(fd, st);
}

int __wrap_access(const char *path, int mode) {
  const char *rel;
  int root, inj, fmode;
  uint64_t num;
  if (t_pause || (root = match_root(path, &rel)) < 0) return __real_access(path, mode);
  inj = pre(IOP_STAT, iom_classify(rel, &num), &fmode);
  /* access() is used as an existence test: an injected failure must not turn
     "exists" into "missing" silently, so only yield/delay here */
  (void)inj;
  return __real_access(path, mode);
}

DIR *__wrap_opendir(const char *path) {
  const char *rel;
  int root, inj, fmode;
  uint64_t num;
  if (t_pause || (root = match_root(path, &rel)) < 0) return __real_opendir(path);
  inj = pre(IOP_OPENDIR, iom_classify(rel, &num), &fmode);
  if (inj) { errno = inj; return NULL; }
  return __real_opendir(path);
}

void *__wrap_mmap(void *addr, size_t len, int prot, int flags, int fd, off_t off) {
  fdent_t *f;
  int inj, fmode;
  if (t_pause || fd < 0 || (f = fdent(fd)) == NULL) return __real_mmap(addr, len, prot, flags, fd, off);
  inj = pre(IOP_MMAP, f->pc, &fmode);
  if (inj) { errno = inj; return MAP_FAILED; }
  return __real_mmap(addr, len, prot, flags, fd, off);
}

#include <dirent.h>
#include <stdarg.h>
#include <stdio.h>
#include <stdlib.h>
#include <string.h>

#include "dbh.h"

/* ------------------------------------------------------------ configurations */

void cfg_default(cfg_t *c) {
  memset(c, 0, sizeof(*c));
  c->write_buffer_size = 4 << 20;
  c->block_size = 4096;
  c->max_file_size = 2 << 20;
  c->restart = 16;
  c->compression = 1;
  c->filter_bits = 0;
  c->cache_kind = 0;
  c->use_mmap = 1;
  c->reuse_logs = 0;
  c->max_open_files = 1000;
  c->cmp_kind = CMP_BYTEWISE;
  c->paranoid = 0;
}

void cfg_random(cfg_t *c, vrng_t *r) {
  static const size_t wbs[] = {64 << 10, 64 << 10, 128 << 10, 256 << 10, 4 << 20};
  static const size_t bs[] = {1 << 10, 1 << 10, 4 << 10, 64 << 10};
  static const int rs[] = {1, 2, 16, 16};
  static const int fb[] = {0, 10, 1, 10};
  c->write_buffer_size = wbs[vr_uniform(r, 5)];
  c->block_size = bs[vr_uniform(r, 4)];
  c->restart = rs[vr_uniform(r, 4)];
  c->max_file_size = vr_uniform(r, 2) ? (1 << 20) : (2 << 20);
  c->compression = vr_uniform(r, 2);
  c->filter_bits = fb[vr_uniform(r, 4)];
  c->cache_kind = vr_uniform(r, 3);
  c->use_mmap = vr_uniform(r, 2);
  c->reuse_logs = vr_uniform(r, 2);
  c->max_open_files = vr_uniform(r, 2) ? 74 : 1000;
  c->cmp_kind = vr_uniform(r, 5) < 3 ? CMP_BYTEWISE : (vr_uniform(r, 2) ? CMP_REVERSE : CMP_LENFIRST);
  c->paranoid = vr_uniform(r, 2);
}

void cfg_mutate_reopen(cfg_t *c, vrng_t *r) {
  cfg_t n;
  cfg_random(&n, r);
  /* comparator and (to keep filters meaningful) filter policy stay; the rest may change */
  if (vr_chance(r, 400)) c->block_size = n.block_size;
  if (vr_chance(r, 400)) c->restart = n.restart;
  if (vr_chance(r, 400)) c->compression = n.compression;
  if (vr_chance(r, 400)) c->use_mmap = n.use_mmap;
  if (vr_chance(r, 400)) c->reuse_logs = n.reuse_logs;
  if (vr_chance(r, 300)) c->cache_kind = n.cache_kind;
  if (vr_chance(r, 300)) c->max_open_files = n.max_open_files;
  if (vr_chance(r, 300)) c->write_buffer_size = n.write_buffer_size;
  if (vr_chance(r, 300)) c->paranoid = n.paranoid;
  if (vr_chance(r, 200)) c->filter_bits = n.filter_bits;
}

const char *cfg_id(const cfg_t *c) {
  static __thread char buf[160];
  snprintf(buf, sizeof(buf), "wb%zuK.bs%zuK.r%d.mf%zuM.z%d.f%d.c%d.mm%d.rl%d.of%d.cmp%d.p%d",
           c->write_buffer_size >> 10, c->block_size >> 10, c->restart, c->max_file_size >> 20,
           c->compression, c->filter_bits, c->cache_kind, c->use_mmap, c->reuse_logs,
           c->max_open_files, c->cmp_kind, c->paranoid);
  return buf;
}

/* ------------------------------------------------------------ logger */

static int starts(const char *s, const char *p) { return strncmp(s, p, strlen(p)) == 0; }

#define BUMP(f) __atomic_add_fetch(&li->f, 1, __ATOMIC_RELAXED)

static void log_cb(void *state, const char *fmt, va_list ap) {
  loginfo_t *li = state;
  char line[512];
  vsnprintf(line, sizeof(line), fmt, ap);
  BUMP(lines);
  if (starts(line, "Compacting ")) BUMP(compacting);
  else if (starts(line, "Compacted ")) BUMP(compacted);
  else if (starts(line, "Level-0 table") && strstr(line, "started")) BUMP(level0_started);
  else if (starts(line, "Moved #")) BUMP(moved);
  else if (starts(line, "Delete type=")) BUMP(deleted);
  else if (starts(line, "Reusing ")) BUMP(reusing);
  else if (starts(line, "Manual compaction")) BUMP(manual);
  else if (starts(line, "Generated table")) BUMP(generated);
  else if (starts(line, "Current memtable full")) BUMP(waiting_mem);
  else if (starts(line, "Too many L0")) BUMP(waiting_l0);
  else if (starts(line, "Recovering log")) BUMP(recovering);
  else if (starts(line, "Compaction error") || strstr(line, "dropping") || starts(line, "Ignoring error")) {
    static int err_lock = 0;
    BUMP(errors);
    while (__atomic_exchange_n(&err_lock, 1, __ATOMIC_ACQUIRE)) {}
    snprintf(li->last_error, sizeof(li->last_error), "%s", line);
    __atomic_store_n(&err_lock, 0, __ATOMIC_RELEASE);
  }
  if (getenv("VERIF_LOGTRACE")) fprintf(stderr, "[lcdb] %s\n", line);
}

/* ------------------------------------------------------------ handle */

void dbh_init(dbh_t *h, const char *dir, const cfg_t *cfg) {
  memset(h, 0, sizeof(*h));
  snprintf(h->dir, sizeof(h->dir), "%s", dir);
  h->cfg = *cfg;
  h->logger = ldb_logger_create(log_cb, &h->log);
}

void dbh_set_cfg(dbh_t *h, const cfg_t *cfg) { h->cfg = *cfg; }

int dbh_open(dbh_t *h, int create_if_missing) {
  const cfg_t *c = &h->cfg;
  int rc;
  h->opt = *ldb_dbopt_default;
  h->opt.comparator = m_comparator(c->cmp_kind);
  h->opt.create_if_missing = create_if_missing;
  h->opt.error_if_exists = 0;
  h->opt.paranoid_checks = c->paranoid;
  h->opt.info_log = h->logger;
  h->opt.write_buffer_size = c->write_buffer_size;
  h->opt.max_open_files = c->max_open_files;
  h->opt.block_size = c->block_size;
  h->opt.block_restart_interval = c->restart;
  h->opt.max_file_size = c->max_file_size;
  h->opt.compression = c->compression ? LDB_SNAPPY_COMPRESSION : LDB_NO_COMPRESSION;
  h->opt.reuse_logs = c->reuse_logs;
  h->opt.use_mmap = c->use_mmap;
  if (h->bloom != NULL) { ldb_bloom_destroy(h->bloom); h->bloom = NULL; }
  if (c->filter_bits > 0) {
    h->bloom = ldb_bloom_create(c->filter_bits);
    h->opt.filter_policy = h->bloom;
  } else {
    h->opt.filter_policy = NULL;
  }
  if (h->cache != NULL) { ldb_lru_destroy(h->cache); h->cache = NULL; }
  if (c->cache_kind == 1) h->cache = ldb_lru_create(8 << 10);
  else if (c->cache_kind == 2) h->cache = ldb_lru_create(16 << 20);
  h->opt.block_cache = h->cache;
  rc = ldb_open(h->dir, &h->opt, &h->db);
  if (rc != LDB_OK) h->db = NULL;
  return rc;
}

void dbh_close(dbh_t *h) {
  if (h->db != NULL) {
    ldb_close(h->db);
    h->db = NULL;
  }
}

void dbh_destroy(dbh_t *h) {
  dbh_close(h);
  if (h->bloom != NULL) ldb_bloom_destroy(h->bloom);
  if (h->cache != NULL) ldb_lru_destroy(h->cache);
  if (h->logger != NULL) ldb_logger_destroy(h->logger);
  h->bloom = NULL; h->cache = NULL; h->logger = NULL;
}

/* ------------------------------------------------------------ layout */

int dbh_layout(ldb_t *db, layout_t *out) {
  char *val = NULL, *p, *line;
  int level = -1;
  size_t cap = 0;
  memset(out, 0, sizeof(*out));
  if (!ldb_property(db, "leveldb.sstables", &val) || val == NULL) return 0;
  out->raw = strdup(val);
  ldb_free(val);
  p = out->raw;
  while (*p) {
    char *nl = strchr(p, '\n');
    size_t len = nl ? (size_t)(nl - p) : strlen(p);
    line = p;
    if (len >= 10 && strncmp(line, "--- level ", 10) == 0) {
      level = atoi(line + 10);
    } else if (len > 0 && line[0] == ' ' && level >= 0 && level < 7) {
      char *end;
      unsigned long long num = strtoull(line + 1, &end, 10);
      if (*end == ':') {
        unsigned long long size = strtoull(end + 1, &end, 10);
        if (*end == '[') {
          lfile_t *f;
          size_t blen;
          if (out->n == cap) {
            cap = cap ? cap * 2 : 16;
            out->files = realloc(out->files, cap * sizeof(lfile_t));
          }
          f = &out->files[out->n++];
          f->level = level; f->number = num; f->size = size;
          blen = (line + len) - (end + 1);
          if (blen > 0 && line[len - 1] == ']') blen--;
          f->bounds = malloc(blen + 1);
          memcpy(f->bounds, end + 1, blen);
          f->bounds[blen] = 0;
          out->per_level[level]++;
        }
      }
    }
    if (!nl) break;
    p = nl + 1;
  }
  return 1;
}

void layout_free(layout_t *l) {
  size_t i;
  for (i = 0; i < l->n; i++) free(l->files[i].bounds);
  free(l->files);
  free(l->raw);
  memset(l, 0, sizeof(*l));
}

const char *layout_sig(const layout_t *l) {
  static __thread char buf[64];
  snprintf(buf, sizeof(buf), "%d/%d/%d/%d/%d/%d/%d", l->per_level[0], l->per_level[1], l->per_level[2],
           l->per_level[3], l->per_level[4], l->per_level[5], l->per_level[6]);
  return buf;
}

int layout_has(const layout_t *l, uint64_t number) {
  size_t i;
  for (i = 0; i < l->n; i++) if (l->files[i].number == number) return 1;
  return 0;
}

/* ------------------------------------------------------------ universes */

void universe_generate(model_t *m, vrng_t *r, int nkeys) {
  uint8_t k[400];
  int i;
  uint8_t prefix[200];
  size_t plen = 20 + vr_uniform(r, 150);
  for (i = 0; i < (int)plen; i++) prefix[i] = (uint8_t)vr_next(r);
  m_add_key(m, "", 0);                 /* the empty key */
  for (i = 0; i < nkeys; i++) {
    size_t n = 0, j;
    switch (vr_uniform(r, 10)) {
      case 0: /* 1-byte keys incl. 0x00 / 0xff */
        k[0] = (uint8_t)(vr_uniform(r, 4) == 0 ? (vr_uniform(r, 2) ? 0xff : 0x00) : vr_next(r));
        n = 1;
        break;
      case 1: /* runs of 0xff */
        n = 1 + vr_uniform(r, 12);
        memset(k, 0xff, n);
        if (vr_uniform(r, 2)) k[n - 1] = (uint8_t)vr_next(r);
        break;
      case 2: /* runs of 0x00 */
        n = 1 + vr_uniform(r, 12);
        memset(k, 0x00, n);
        if (vr_uniform(r, 2)) k[n - 1] = (uint8_t)vr_next(r);
        break;
      case 3: case 4: /* long shared prefix + short suffix */
        memcpy(k, prefix, plen);
        n = plen;
        j = vr_uniform(r, 4);
        while (j-- > 0) k[n++] = (uint8_t)(vr_uniform(r, 3) == 0 ? 0xff : vr_uniform(r, 6));
        break;
      case 5: /* lengths around the 1-byte varint boundary (internal key = +8) */
        n = 116 + vr_uniform(r, 16);
        for (j = 0; j < n; j++) k[j] = (uint8_t)('a' + vr_uniform(r, 3));
        break;
      case 6: /* up to 300 bytes */
        n = 128 + vr_uniform(r, 173);
        for (j = 0; j < n; j++) k[j] = (uint8_t)vr_next(r);
        break;
      case 7: case 8: case 9:
        if (m->cmp_kind == CMP_NOCASE) { /* alphabetic keys in mixed case: several spellings of one key collapse */
          n = 1 + vr_uniform(r, 6);
          for (j = 0; j < n; j++) k[j] = (uint8_t)((vr_uniform(r, 2) ? 'a' : 'A') + vr_uniform(r, 4));
          break;
        }
        /* fall through */
      default: /* small printable keys with shared prefixes */
        n = (size_t)snprintf((char *)k, sizeof(k), "k%03u", vr_uniform(r, 600));
        if (vr_uniform(r, 4) == 0) k[n++] = (uint8_t)vr_uniform(r, 256);
        break;
    }
    m_add_key(m, k, n);
  }
  m_finalize(m);
}

uint32_t value_len_random(vrng_t *r, int allow_big) {
  uint32_t c = vr_uniform(r, 1000);
  if (c < 60) return 0;
  if (c < 600) return vr_uniform(r, 200);
  if (c < 850) return 200 + vr_uniform(r, 4000);
  if (c < 985 || !allow_big) return 4096 + vr_uniform(r, 60 << 10);
  if (c < 996) return (300 << 10) + vr_uniform(r, 100 << 10);
  return (1 << 20) + vr_uniform(r, 200 << 10);
}

/* ------------------------------------------------------------ dirs */

int dir_list(const char *dir, char ***names) {
  DIR *d = opendir(dir);
  struct dirent *de;
  int n = 0, cap = 0;
  char **v = NULL;
  *names = NULL;
  if (d == NULL) return -1;
  while ((de = readdir(d)) != NULL) {
    if (strcmp(de->d_name, ".") == 0 || strcmp(de->d_name, "..") == 0) continue;
    if (n == cap) { cap = cap ? cap * 2 : 32; v = realloc(v, cap * sizeof(char *)); }
    v[n++] = strdup(de->d_name);
  }
  closedir(d);
  *names = v;
  return n;
}

void dir_free(char **names, int n) {
  int i;
  for (i = 0; i < n; i++) free(names[i]);
  free(names);
}

/* layoutmon - C14: well-formedness of the reported level structure, decided by
 * decoding every listed table with the independent reader (refcodec). */
#ifndef LAYOUTMON_H
#define LAYOUTMON_H

#include "dbh.h"

/* 1 = decode every table at every check, 0 = stat/size checks only,
 * N>1 = decode at every Nth check */
extern int layoutmon_deep;

/* must be called at a quiescent point (background idle). Violations are
 * reported under C14. */
void layoutmon_check(ldb_t *db, dbh_t *h, const char *why, int flags);
void layoutmon_reset(void);   /* drop the per-database decode cache */

#endif

#include <stdlib.h>
#include <string.h>

#include "model.h"

static int lower(int c) { return (c >= 'A' && c <= 'Z') ? c + 32 : c; }

int m_cmp(int kind, const void *a, size_t alen, const void *b, size_t blen) {
  size_t n = alen < blen ? alen : blen;
  int r;
  switch (kind) {
    case CMP_NOCASE: {
      const unsigned char *x = a, *y = b;
      size_t i;
      for (i = 0; i < n; i++) {
        int cx = lower(x[i]), cy = lower(y[i]);
        if (cx != cy) return cx < cy ? -1 : 1;
      }
      return alen < blen ? -1 : alen > blen;
    }
    case CMP_LENFIRST:
      if (alen != blen) return alen < blen ? -1 : 1;
      r = n ? memcmp(a, b, n) : 0;
      return r < 0 ? -1 : r > 0;
    case CMP_REVERSE:
      r = n ? memcmp(a, b, n) : 0;
      if (r == 0) r = alen < blen ? -1 : alen > blen;
      return r < 0 ? 1 : r > 0 ? -1 : 0;
    default:
      r = n ? memcmp(a, b, n) : 0;
      if (r == 0) r = alen < blen ? -1 : alen > blen;
      return r < 0 ? -1 : r > 0;
  }
}

static int cmp_reverse(const ldb_comparator_t *c, const ldb_slice_t *x, const ldb_slice_t *y) {
  (void)c;
  return m_cmp(CMP_REVERSE, x->data, x->size, y->data, y->size);
}

static int cmp_lenfirst(const ldb_comparator_t *c, const ldb_slice_t *x, const ldb_slice_t *y) {
  (void)c;
  return m_cmp(CMP_LENFIRST, x->data, x->size, y->data, y->size);
}

static int cmp_nocase(const ldb_comparator_t *c, const ldb_slice_t *x, const ldb_slice_t *y) {
  (void)c;
  return m_cmp(CMP_NOCASE, x->data, x->size, y->data, y->size);
}

static const ldb_comparator_t nocase_comparator = ldb_comparator("verif.NoCase", cmp_nocase, NULL);
static const ldb_comparator_t reverse_comparator = ldb_comparator("verif.Reverse", cmp_reverse, NULL);
static const ldb_comparator_t lenfirst_comparator = ldb_comparator("verif.LengthFirst", cmp_lenfirst, NULL);

const ldb_comparator_t *m_comparator(int kind) {
  if (kind == CMP_REVERSE) return &reverse_comparator;
  if (kind == CMP_LENFIRST) return &lenfirst_comparator;
  if (kind == CMP_NOCASE) return &nocase_comparator;
  return ldb_bytewise_comparator;
}

void m_init(model_t *m, int cmp_kind) {
  memset(m, 0, sizeof(*m));
  m->cmp_kind = cmp_kind;
}

void m_free(model_t *m) {
  size_t i;
  for (i = 0; i < m->nrows; i++) { free(m->rows[i].key); free(m->rows[i].v); }
  free(m->rows);
  memset(m, 0, sizeof(*m));
}

void m_add_key(model_t *m, const void *k, size_t n) {
  mrow_t *r;
  if (m->nrows == m->caprows) {
    m->caprows = m->caprows ? m->caprows * 2 : 64;
    m->rows = realloc(m->rows, m->caprows * sizeof(mrow_t));
  }
  r = &m->rows[m->nrows++];
  memset(r, 0, sizeof(*r));
  r->key = malloc(n ? n : 1);
  if (n) memcpy(r->key, k, n);
  r->klen = n;
}

static int sort_kind;

static int row_cmp(const void *a, const void *b) {
  const mrow_t *x = a, *y = b;
  return m_cmp(sort_kind, x->key, x->klen, y->key, y->klen);
}

void m_finalize(model_t *m) {
  size_t i, o = 0;
  sort_kind = m->cmp_kind;
  qsort(m->rows, m->nrows, sizeof(mrow_t), row_cmp);
  for (i = 0; i < m->nrows; i++) {
    if (o > 0 && m_cmp(m->cmp_kind, m->rows[o - 1].key, m->rows[o - 1].klen,
                       m->rows[i].key, m->rows[i].klen) == 0) {
      free(m->rows[i].key);
      continue;
    }
    m->rows[o++] = m->rows[i];
  }
  m->nrows = o;
  m->finalized = 1;
}

int m_find(const model_t *m, const void *k, size_t n) {
  size_t lo = 0, hi = m->nrows;
  while (lo < hi) {
    size_t mid = (lo + hi) / 2;
    int c = m_cmp(m->cmp_kind, m->rows[mid].key, m->rows[mid].klen, k, n);
    if (c == 0) return (int)mid;
    if (c < 0) lo = mid + 1; else hi = mid;
  }
  return -1;
}

static void push_ver(mrow_t *r, mver_t e) {
  if (r->nv == r->cap) {
    r->cap = r->cap ? r->cap * 2 : 4;
    r->v = realloc(r->v, r->cap * sizeof(mver_t));
  }
  r->v[r->nv++] = e;
}

uint64_t m_put_spell(model_t *m, int row, uint64_t vid, uint32_t vlen, uint32_t spell) {
  mver_t e;
  e.ver = ++m->version; e.present = 1; e.vid = vid; e.vlen = vlen; e.spell = spell;
  push_ver(&m->rows[row], e);
  return m->version;
}

uint64_t m_put(model_t *m, int row, uint64_t vid, uint32_t vlen) { return m_put_spell(m, row, vid, vlen, 0); }

void m_spelled_key(const model_t *m, int row, uint32_t spell, uint8_t *out) {
  const mrow_t *r = &m->rows[row];
  size_t i;
  for (i = 0; i < r->klen; i++) {
    int c = r->key[i];
    if (spell != 0 && ((c >= 'a' && c <= 'z') || (c >= 'A' && c <= 'Z'))) {
      uint32_t h = (spell + (uint32_t)i * 2654435761u);
      h ^= h >> 15; h *= 0x2c1b3c6d; h ^= h >> 12;
      if (h & 1) c ^= 32;
    }
    out[i] = (uint8_t)c;
  }
}

uint64_t m_del(model_t *m, int row) {
  mver_t e;
  e.ver = ++m->version; e.present = 0; e.vid = 0; e.vlen = 0; e.spell = 0;
  push_ver(&m->rows[row], e);
  return m->version;
}

const mver_t *m_get(const model_t *m, int row, uint64_t at) {
  const mrow_t *r = &m->rows[row];
  size_t i;
  for (i = r->nv; i-- > 0;) if (r->v[i].ver <= at) return &r->v[i];
  return NULL;
}

int m_live(const model_t *m, int row, uint64_t at) {
  const mver_t *e = m_get(m, row, at);
  return e != NULL && e->present;
}

int m_first(const model_t *m, uint64_t at) {
  size_t i;
  for (i = 0; i < m->nrows; i++) if (m_live(m, (int)i, at)) return (int)i;
  return -1;
}

int m_last(const model_t *m, uint64_t at) {
  size_t i;
  for (i = m->nrows; i-- > 0;) if (m_live(m, (int)i, at)) return (int)i;
  return -1;
}

int m_next(const model_t *m, int row, uint64_t at) {
  size_t i;
  for (i = (size_t)(row + 1); i < m->nrows; i++) if (m_live(m, (int)i, at)) return (int)i;
  return -1;
}

int m_prev(const model_t *m, int row, uint64_t at) {
  int i;
  for (i = row - 1; i >= 0; i--) if (m_live(m, i, at)) return i;
  return -1;
}

/* index of first row with key >= k (nrows if none) */
static size_t lower_bound(const model_t *m, const void *k, size_t n) {
  size_t lo = 0, hi = m->nrows;
  while (lo < hi) {
    size_t mid = (lo + hi) / 2;
    if (m_cmp(m->cmp_kind, m->rows[mid].key, m->rows[mid].klen, k, n) < 0) lo = mid + 1;
    else hi = mid;
  }
  return lo;
}

static size_t upper_bound(const model_t *m, const void *k, size_t n) {
  size_t lo = 0, hi = m->nrows;
  while (lo < hi) {
    size_t mid = (lo + hi) / 2;
    if (m_cmp(m->cmp_kind, m->rows[mid].key, m->rows[mid].klen, k, n) <= 0) lo = mid + 1;
    else hi = mid;
  }
  return lo;
}

int m_seek_ge(const model_t *m, const void *k, size_t n, uint64_t at) {
  size_t i;
  for (i = lower_bound(m, k, n); i < m->nrows; i++) if (m_live(m, (int)i, at)) return (int)i;
  return -1;
}

int m_seek_gt(const model_t *m, const void *k, size_t n, uint64_t at) {
  size_t i;
  for (i = upper_bound(m, k, n); i < m->nrows; i++) if (m_live(m, (int)i, at)) return (int)i;
  return -1;
}

int m_seek_le(const model_t *m, const void *k, size_t n, uint64_t at) {
  size_t i;
  for (i = upper_bound(m, k, n); i-- > 0;) if (m_live(m, (int)i, at)) return (int)i;
  return -1;
}

int m_seek_lt(const model_t *m, const void *k, size_t n, uint64_t at) {
  size_t i;
  for (i = lower_bound(m, k, n); i-- > 0;) if (m_live(m, (int)i, at)) return (int)i;
  return -1;
}

size_t m_count_live(const model_t *m, uint64_t at) {
  size_t i, c = 0;
  for (i = 0; i < m->nrows; i++) c += m_live(m, (int)i, at);
  return c;
}

void m_trim(model_t *m, uint64_t keep_from) {
  size_t i, j;
  for (i = 0; i < m->nrows; i++) {
    mrow_t *r = &m->rows[i];
    size_t first = 0;
    for (j = 0; j < r->nv; j++) if (r->v[j].ver <= keep_from) first = j;
    if (first > 0) {
      memmove(r->v, r->v + first, (r->nv - first) * sizeof(mver_t));
      r->nv -= first;
    }
  }
}

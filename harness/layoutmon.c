#include <fcntl.h>
#include <sys/stat.h>
#include <unistd.h>

#include "iomon.h"
#include "layoutmon.h"
#include "refcodec.h"

int layoutmon_deep = 1;

typedef struct lent_s {
  uint8_t *ukey;
  uint32_t ulen;
  uint64_t seq;
  uint8_t type;
} lent_t;

typedef struct lfilec_s {
  uint64_t number, size;
  lent_t *ents;
  size_t n;
  uint8_t *arena;
  int used;
} lfilec_t;

static lfilec_t *cache = NULL;
static size_t ncache = 0, capcache = 0;
static uint64_t checks = 0;

void layoutmon_reset(void) {
  size_t i;
  for (i = 0; i < ncache; i++) { free(cache[i].ents); free(cache[i].arena); }
  ncache = 0;
}

static lfilec_t *cache_find(uint64_t number, uint64_t size) {
  size_t i;
  for (i = 0; i < ncache; i++) if (cache[i].number == number && cache[i].size == size) return &cache[i];
  return NULL;
}

static void esc_append(char *out, size_t *o, size_t cap, const uint8_t *p, size_t n) {
  static const char *nib = "0123456789abcdef";
  size_t i;
  for (i = 0; i < n && *o + 5 < cap; i++) {
    int ch = p[i];
    if (ch >= ' ' && ch <= '~') out[(*o)++] = (char)ch;
    else { out[(*o)++] = '\\'; out[(*o)++] = 'x'; out[(*o)++] = nib[ch >> 4]; out[(*o)++] = nib[ch & 15]; }
  }
  out[*o] = 0;
}

static void render_ikey(char *out, size_t *o, size_t cap, const lent_t *e) {
  out[(*o)++] = '\'';
  esc_append(out, o, cap, e->ukey, e->ulen);
  *o += (size_t)snprintf(out + *o, cap - *o, "' @ %llu : %u", (unsigned long long)e->seq, e->type);
}

static int ikey_cmp(int kind, const lent_t *a, const lent_t *b) {
  int c = m_cmp(kind, a->ukey, a->ulen, b->ukey, b->ulen);
  uint64_t pa, pb;
  if (c != 0) return c;
  pa = (a->seq << 8) | a->type;
  pb = (b->seq << 8) | b->type;
  return pa > pb ? -1 : pa < pb ? 1 : 0;   /* higher sequence sorts first */
}

static void lv(dbh_t *h, const char *key, const char *why, const char *fmt, ...) __attribute__((format(printf, 4, 5)));

static void lv(dbh_t *h, const char *key, const char *why, const char *fmt, ...) {
  char msg[1500];
  va_list ap;
  va_start(ap, fmt);
  vsnprintf(msg, sizeof(msg), fmt, ap);
  va_end(ap);
  vh_violation("C14", key, "%s | at %s cfg=%s", msg, why, cfg_id(&h->cfg));
}

/* decode one table into the cache; returns NULL (after reporting) on failure */
static lfilec_t *load_table(dbh_t *h, const lfile_t *f, const char *why) {
  char path[700];
  struct stat st;
  uint8_t *buf;
  int fd;
  ssize_t got = 0, r;
  rc_table_t t;
  lfilec_t *c;
  size_t i, bytes = 0;
  uint8_t *ap;

  snprintf(path, sizeof(path), "%s/%06llu.ldb", h->dir, (unsigned long long)f->number);
  iom_pause(1);
  if (stat(path, &st) != 0) {
    iom_pause(-1);
    lv(h, "listed-file-missing", why, "level %d table #%llu is listed but %s does not exist", f->level,
       (unsigned long long)f->number, path);
    return NULL;
  }
  if ((uint64_t)st.st_size != f->size) {
    iom_pause(-1);
    lv(h, "size-mismatch", why, "table #%llu reported size %llu, on disk %llu", (unsigned long long)f->number,
       (unsigned long long)f->size, (unsigned long long)st.st_size);
    return NULL;
  }
  c = cache_find(f->number, f->size);
  if (c != NULL) { iom_pause(-1); c->used = 1; return c; }
  buf = malloc(st.st_size ? st.st_size : 1);
  fd = open(path, O_RDONLY);
  while (fd >= 0 && got < st.st_size && (r = read(fd, buf + got, st.st_size - got)) > 0) got += r;
  if (fd >= 0) close(fd);
  iom_pause(-1);
  if (got != st.st_size) { free(buf); vh_fatal("short read of %s", path); }
  if (rc_table_decode(buf, (size_t)got, &t) != 0) {
    lv(h, "table-undecodable", why, "independent reader rejects table #%llu (level %d): %s",
       (unsigned long long)f->number, f->level, t.err);
    rc_table_free(&t);
    free(buf);
    return NULL;
  }
  free(buf);
  if (ncache == capcache) {
    capcache = capcache ? capcache * 2 : 32;
    cache = realloc(cache, capcache * sizeof(lfilec_t));
  }
  c = &cache[ncache++];
  memset(c, 0, sizeof(*c));
  c->number = f->number; c->size = f->size; c->used = 1;
  c->n = t.nentries;
  c->ents = malloc((t.nentries + 1) * sizeof(lent_t));
  for (i = 0; i < t.nentries; i++) bytes += t.entries[i].klen;
  c->arena = malloc(bytes + 1);
  ap = c->arena;
  for (i = 0; i < t.nentries; i++) {
    const rc_entry_t *e = &t.entries[i];
    uint64_t tag;
    if (e->klen < 8) {
      lv(h, "short-internal-key", why, "table #%llu entry %zu has a %zu-byte key", (unsigned long long)f->number, i, e->klen);
      c->n = i;
      break;
    }
    tag = rc_get_fixed64(e->key + e->klen - 8);
    memcpy(ap, e->key, e->klen - 8);
    c->ents[i].ukey = ap;
    c->ents[i].ulen = (uint32_t)(e->klen - 8);
    c->ents[i].seq = tag >> 8;
    c->ents[i].type = (uint8_t)(tag & 0xff);
    ap += e->klen - 8;
  }
  rc_table_free(&t);
  vh_count("c14_tables_decoded", 1);
  vh_count("c14_entries_decoded", c->n);
  return c;
}

typedef struct flat_s {
  const lent_t *e;
  int rank;
} flat_t;

static int flat_kind;

static int flat_cmp(const void *a, const void *b) {
  const flat_t *x = a, *y = b;
  int c = m_cmp(flat_kind, x->e->ukey, x->e->ulen, y->e->ukey, y->e->ulen);
  if (c != 0) return c;
  if (x->rank != y->rank) return x->rank < y->rank ? -1 : 1;
  if (x->e->seq != y->e->seq) return x->e->seq > y->e->seq ? -1 : 1;
  return 0;
}

static int l0_cmp(const void *a, const void *b) {
  const lfile_t *const *x = a, *const *y = b;
  return (*x)->number > (*y)->number ? -1 : (*x)->number < (*y)->number;
}

void layoutmon_check(ldb_t *db, dbh_t *h, const char *why, int flags) {
  layout_t l;
  size_t i, total = 0, nflat = 0;
  int kind = h->cfg.cmp_kind;
  lfilec_t **fc;
  int *rank;
  int deep, levels_used = 0, lvl, shared_keys = 0, straddles = 0;
  flat_t *flat;
  (void)flags;

  if (!dbh_layout(db, &l)) return;
  checks++;
  deep = layoutmon_deep == 1 || (layoutmon_deep > 1 && checks % (uint64_t)layoutmon_deep == 0);
  vh_count("c14_layout_checks", 1);
  for (lvl = 0; lvl < 7; lvl++) levels_used += l.per_level[lvl] > 0;

  if (!deep) {
    for (i = 0; i < l.n; i++) {
      char path[700];
      struct stat st;
      snprintf(path, sizeof(path), "%s/%06llu.ldb", h->dir, (unsigned long long)l.files[i].number);
      iom_pause(1);
      if (stat(path, &st) != 0)
        lv(h, "listed-file-missing", why, "table #%llu is listed but missing", (unsigned long long)l.files[i].number);
      else if ((uint64_t)st.st_size != l.files[i].size)
        lv(h, "size-mismatch", why, "table #%llu reported size %llu, on disk %llu", (unsigned long long)l.files[i].number,
           (unsigned long long)l.files[i].size, (unsigned long long)st.st_size);
      iom_pause(-1);
    }
    layout_free(&l);
    return;
  }

  for (i = 0; i < ncache; i++) cache[i].used = 0;
  fc = calloc(l.n + 1, sizeof(*fc));
  rank = calloc(l.n + 1, sizeof(int));
  for (i = 0; i < l.n; i++) {
    fc[i] = load_table(h, &l.files[i], why);
    if (fc[i] != NULL) total += fc[i]->n;
  }
  /* cache_find may have moved the array: re-resolve pointers */
  for (i = 0; i < l.n; i++) if (fc[i] != NULL) fc[i] = cache_find(l.files[i].number, l.files[i].size);

  /* (b) per file: strictly increasing internal keys, bounds as reported */
  for (i = 0; i < l.n; i++) {
    lfilec_t *c = fc[i];
    size_t j;
    char bounds[3000];
    size_t o = 0;
    if (c == NULL) continue;
    if (c->n == 0) {
      lv(h, "empty-table-listed", why, "table #%llu holds no entries", (unsigned long long)c->number);
      continue;
    }
    for (j = 1; j < c->n; j++) {
      if (ikey_cmp(kind, &c->ents[j - 1], &c->ents[j]) >= 0) {
        lv(h, "entries-not-sorted", why, "table #%llu (level %d): entry %zu '%s'@%llu is not after entry %zu '%s'@%llu",
           (unsigned long long)c->number, l.files[i].level, j, vh_esc(c->ents[j].ukey, c->ents[j].ulen),
           (unsigned long long)c->ents[j].seq, j - 1, vh_esc(c->ents[j - 1].ukey, c->ents[j - 1].ulen),
           (unsigned long long)c->ents[j - 1].seq);
        break;
      }
    }
    render_ikey(bounds, &o, sizeof(bounds) - 64, &c->ents[0]);
    o += (size_t)snprintf(bounds + o, sizeof(bounds) - o, " .. ");
    render_ikey(bounds, &o, sizeof(bounds) - 64, &c->ents[c->n - 1]);
    if (c->ents[0].ulen + c->ents[c->n - 1].ulen < 600 && strcmp(bounds, l.files[i].bounds) != 0)
      lv(h, "bounds-mismatch", why, "table #%llu (level %d) reported [%s] but holds [%s]", (unsigned long long)c->number,
         l.files[i].level, l.files[i].bounds, bounds);
  }

  /* (c) levels >= 1: sorted and disjoint in internal-key order */
  for (i = 1; i < l.n; i++) {
    if (l.files[i].level >= 1 && l.files[i - 1].level == l.files[i].level && fc[i] && fc[i - 1] &&
        fc[i]->n > 0 && fc[i - 1]->n > 0) {
      const lent_t *pl = &fc[i - 1]->ents[fc[i - 1]->n - 1], *ns = &fc[i]->ents[0];
      if (ikey_cmp(kind, pl, ns) >= 0)
        lv(h, "level-overlap", why, "level %d: table #%llu ends at '%s'@%llu, next table #%llu starts at '%s'@%llu",
           l.files[i].level, (unsigned long long)fc[i - 1]->number, vh_esc(pl->ukey, pl->ulen),
           (unsigned long long)pl->seq, (unsigned long long)fc[i]->number, vh_esc(ns->ukey, ns->ulen),
           (unsigned long long)ns->seq);
      if (m_cmp(kind, pl->ukey, pl->ulen, ns->ukey, ns->ulen) == 0) straddles++;
    }
  }

  /* (d) per user key: shallower (and newer level-0 file) = strictly newer */
  {
    const lfile_t **l0 = calloc(l.n + 1, sizeof(*l0));
    size_t n0 = 0, k;
    for (i = 0; i < l.n; i++) if (l.files[i].level == 0) l0[n0++] = &l.files[i];
    qsort(l0, n0, sizeof(*l0), l0_cmp);
    for (i = 0; i < l.n; i++) {
      if (l.files[i].level == 0) {
        for (k = 0; k < n0; k++) if (l0[k] == &l.files[i]) rank[i] = (int)k;
      } else {
        rank[i] = 100000 + l.files[i].level;
      }
    }
    free(l0);
  }
  flat = malloc((total + 1) * sizeof(flat_t));
  for (i = 0; i < l.n; i++) {
    size_t j;
    if (fc[i] == NULL) continue;
    for (j = 0; j < fc[i]->n; j++) { flat[nflat].e = &fc[i]->ents[j]; flat[nflat].rank = rank[i]; nflat++; }
  }
  flat_kind = kind;
  qsort(flat, nflat, sizeof(flat_t), flat_cmp);
  for (i = 1; i < nflat; i++) {
    const flat_t *a = &flat[i - 1], *b = &flat[i];
    if (m_cmp(kind, a->e->ukey, a->e->ulen, b->e->ukey, b->e->ulen) != 0) continue;
    if (a->rank != b->rank) shared_keys++;
    if (a->e->seq <= b->e->seq) {
      lv(h, a->rank == b->rank ? "duplicate-version" : "recency-order", why,
         "user key '%s': sequence %llu (search rank %d) is not newer than %llu (search rank %d)",
         vh_esc(a->e->ukey, a->e->ulen), (unsigned long long)a->e->seq, a->rank,
         (unsigned long long)b->e->seq, b->rank);
      break;
    }
  }
  free(flat);

  /* drop cache entries of files that left the layout */
  {
    size_t o = 0;
    for (i = 0; i < ncache; i++) {
      if (cache[i].used) cache[o++] = cache[i];
      else { free(cache[i].ents); free(cache[i].arena); }
    }
    ncache = o;
  }

  vh_count("c14_deep_checks", 1);
  if (levels_used >= 2 && shared_keys > 0) vh_count("c14_nontrivial_checks", 1);
  if (straddles > 0) vh_count("c14_straddle_layouts", 1);
  vh_distinct("c14_layout", "%s|s%d|k%d", layout_sig(&l), straddles, shared_keys > 0);
  free(fc);
  free(rank);
  layout_free(&l);
}

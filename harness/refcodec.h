/* refcodec - INDEPENDENT reference codecs for the LevelDB on-disk formats.
 *
 * Written from the public format descriptions (LevelDB doc/log_format.md,
 * doc/table_format.md, doc/impl.md, the VersionEdit tag layout, Snappy
 * format_description.txt, CRC-32C/Castagnoli definition).  MUST NOT include
 * any lcdb header and must not be derived from lcdb's sources: its value as
 * an oracle is that a symmetric change to lcdb's writer+reader cannot also
 * change this file.
 *
 * All functions are pure (no global state), allocate with malloc, and are
 * total on arbitrary input bytes (return an error, never crash).
 */
#ifndef REFCODEC_H
#define REFCODEC_H

#include <stddef.h>
#include <stdint.h>

/* ---------------------------------------------------------------- buffers */

typedef struct rc_buf_s {
  uint8_t *data;
  size_t len, cap;
} rc_buf_t;

void rc_buf_init(rc_buf_t *b);
void rc_buf_free(rc_buf_t *b);
void rc_buf_reset(rc_buf_t *b);                       /* len = 0, keep storage */
void rc_buf_append(rc_buf_t *b, const void *p, size_t n);
void rc_buf_push(rc_buf_t *b, uint8_t c);

/* ---------------------------------------------------------------- CRC-32C */

/* Bit-at-a-time CRC-32C (polynomial 0x1EDC6F41 reflected = 0x82F63B78).
 * rc_crc32c_extend(0, data, n) is the standard CRC-32C of data
 * ("123456789" -> 0xE3069283).  extend(crc(A), B) == crc(A||B). */
uint32_t rc_crc32c_extend(uint32_t crc, const uint8_t *data, size_t n);
uint32_t rc_crc32c(const uint8_t *data, size_t n);
/* LevelDB masking: ((crc >> 15) | (crc << 17)) + 0xa282ead8 */
uint32_t rc_crc_mask(uint32_t crc);
uint32_t rc_crc_unmask(uint32_t masked);

/* ---------------------------------------------------------------- varints / fixed */

/* Encoders return number of bytes written (dst must have 5 / 10 bytes). */
int rc_put_varint32(uint8_t *dst, uint32_t v);
int rc_put_varint64(uint8_t *dst, uint64_t v);
/* Decoders return bytes consumed (>0) or -1 on truncated / over-long input.
 * varint32 accepts at most 5 bytes, varint64 at most 10 bytes. */
int rc_get_varint32(const uint8_t *p, const uint8_t *limit, uint32_t *v);
int rc_get_varint64(const uint8_t *p, const uint8_t *limit, uint64_t *v);
uint32_t rc_get_fixed32(const uint8_t *p);            /* little endian */
uint64_t rc_get_fixed64(const uint8_t *p);
void rc_put_fixed32(uint8_t *p, uint32_t v);
void rc_put_fixed64(uint8_t *p, uint64_t v);

/* ---------------------------------------------------------------- WAL (log format) */

#define RC_LOG_BLOCK 32768
#define RC_LOG_HEADER 7
enum { RC_LOG_ZERO = 0, RC_LOG_FULL = 1, RC_LOG_FIRST = 2, RC_LOG_MIDDLE = 3, RC_LOG_LAST = 4 };

/* Writer: appends to `out` the exact bytes a LevelDB log writer emits for
 * each record when the file already holds `initial_length` bytes
 * (block offset = initial_length % 32768).  Zero-fills block trailers < 7. */
typedef struct rc_logw_s {
  rc_buf_t *out;
  size_t block_offset;
} rc_logw_t;

void rc_logw_init(rc_logw_t *w, rc_buf_t *out, uint64_t initial_length);
void rc_logw_add(rc_logw_t *w, const uint8_t *rec, size_t n);

/* Reader result: records returned in order, plus the list of drops that a
 * conforming reader must REPORT (checksum mismatch, bad length, fragment
 * out of sequence...).  Semantics are LevelDB's log::Reader with
 * checksum=true, initial_offset=0:
 *  - a header or payload cut off by EOF is NOT an error (writer died):
 *    reading ends silently, a partially assembled record is discarded
 *    silently;
 *  - bad checksum: the rest of the current 32 KiB block is dropped and
 *    reported; an in-progress fragmented record is discarded;
 *  - length running past the block: if at EOF silent end, else report;
 *  - zero-type zero-length header (preallocated region): skipped silently;
 *  - FULL/FIRST while a fragmented record is in progress: report the
 *    partial record's bytes, then continue with the new one;
 *  - MIDDLE/LAST without FIRST: report; unknown type: report.
 */
typedef struct rc_logrec_s {
  uint8_t *data;
  size_t len;
  uint64_t start_off;   /* file offset of the header of the first fragment */
  uint64_t end_off;     /* file offset just past the last fragment */
  int nfrag;
} rc_logrec_t;

typedef struct rc_logdrop_s {
  uint64_t off;         /* file offset where the dropped region starts (approx.) */
  uint64_t bytes;
  int reason;           /* RC_DROP_* */
} rc_logdrop_t;

enum { RC_DROP_CHECKSUM = 1, RC_DROP_BADLEN, RC_DROP_PARTIAL_NO_END, RC_DROP_MISSING_START,
       RC_DROP_UNKNOWN_TYPE, RC_DROP_ERROR_IN_MIDDLE };

typedef struct rc_logresult_s {
  rc_logrec_t *recs;
  size_t nrecs;
  rc_logdrop_t *drops;
  size_t ndrops;
  uint64_t consumed;    /* offset just past the last complete physical record accepted */
} rc_logresult_t;

void rc_log_read(const uint8_t *file, size_t n, rc_logresult_t *res);
void rc_logresult_free(rc_logresult_t *res);

/* ---------------------------------------------------------------- write batch */

/* rep = fixed64 sequence | fixed32 count | records: 0x01 key val / 0x00 key
 * (key, val = varint32 length + bytes).  cb is called per update (type 1 =
 * put, 0 = delete).  Returns 0 ok, -1 malformed / count mismatch. */
typedef void rc_batch_cb(void *arg, int type, const uint8_t *key, size_t klen,
                         const uint8_t *val, size_t vlen, uint64_t seq);
int rc_batch_iterate(const uint8_t *rep, size_t n, uint64_t *seq, uint32_t *count,
                     rc_batch_cb *cb, void *arg);

/* ---------------------------------------------------------------- Snappy */

/* Decoder of the full Snappy raw format.  Returns 0 and fills out, or -1. */
int rc_snappy_uncompressed_length(const uint8_t *in, size_t n, uint32_t *len);
int rc_snappy_decode(const uint8_t *in, size_t n, rc_buf_t *out);
/* Small valid encoder.  `style` selects which element kinds are used so that
 * every tag type gets exercised: 0 = literals only, 1 = greedy matcher using
 * copy-1 / copy-2, 2 = as 1 but emits copy-4 for every copy, 3 = long
 * literals (forces 1/2/3/4-byte literal length forms) mixed with overlapping
 * copies (offset < length, i.e. run-length). */
void rc_snappy_encode(const uint8_t *in, size_t n, int style, rc_buf_t *out);

/* ---------------------------------------------------------------- bloom filter */

/* LevelDB hash (seed 0xbc9f1d34, m = 0xc6a4a793) and bloom probe on a filter
 * as produced by the built-in policy (last byte = k). Returns 1 = may match. */
uint32_t rc_hash(const uint8_t *data, size_t n, uint32_t seed);
uint32_t rc_bloom_hash(const uint8_t *key, size_t n);
int rc_bloom_may_match(const uint8_t *filter, size_t flen, const uint8_t *key, size_t klen);

/* ---------------------------------------------------------------- tables */

typedef struct rc_entry_s {
  uint8_t *key;  size_t klen;
  uint8_t *val;  size_t vlen;
  uint32_t block;          /* index of the data block that holds it */
} rc_entry_t;

typedef struct rc_blockinfo_s {
  uint64_t offset, size;   /* BlockHandle (size excludes the 5-byte trailer) */
  uint8_t ctype;           /* 0 none, 1 snappy */
  uint32_t nrestarts;
  uint32_t nentries;
  uint8_t *sep; size_t seplen;  /* index key pointing at this block */
} rc_blockinfo_t;

typedef struct rc_table_s {
  rc_entry_t *entries;     size_t nentries;
  rc_blockinfo_t *blocks;  size_t nblocks;
  /* filter block (raw, as stored) if a "filter.<name>" metaindex entry exists */
  char filter_name[128];
  uint8_t *filter;         size_t filter_len;
  uint64_t metaindex_off, metaindex_size, index_off, index_size;
  char err[200];
} rc_table_t;

/* Decode a whole table file: footer (48 bytes, magic 0xdb4775248b80fb57),
 * metaindex, index, every data block (trailer = 1 byte type + masked crc32c
 * of block bytes + type byte), restart arrays, prefix-compressed entries.
 * Verifies every CRC and structural rule; returns 0 ok or -1 with t->err. */
int rc_table_decode(const uint8_t *file, size_t n, rc_table_t *t);
void rc_table_free(rc_table_t *t);
/* Filter block probe: block_offset = offset of the data block; key = the key
 * as handed to the filter policy.  Returns 1 = may match / filter absent. */
int rc_table_filter_may_match(const rc_table_t *t, uint64_t block_offset,
                              const uint8_t *key, size_t klen);

/* ---------------------------------------------------------------- version edits / MANIFEST */

#define RC_LEVELS 7

typedef struct rc_fileent_s {
  int level;
  uint64_t number, size;
  uint8_t *smallest; size_t slen;
  uint8_t *largest;  size_t llen;
} rc_fileent_t;

typedef struct rc_edit_s {
  int has_comparator;      char comparator[256];
  int has_log_number;      uint64_t log_number;
  int has_prev_log_number; uint64_t prev_log_number;
  int has_next_file;       uint64_t next_file;
  int has_last_sequence;   uint64_t last_sequence;
  struct { int level; uint8_t *key; size_t klen; } *compact_pointers; size_t ncompact;
  struct { int level; uint64_t number; } *deleted; size_t ndeleted;
  rc_fileent_t *added; size_t nadded;
} rc_edit_t;

/* tags: 1 comparator, 2 log number, 3 next file, 4 last sequence,
 * 5 compact pointer, 6 deleted file, 7 new file, 9 prev log number.
 * Returns 0 ok, -1 malformed (unknown tag, truncated, level >= 7). */
int rc_edit_decode(const uint8_t *rec, size_t n, rc_edit_t *e);
void rc_edit_free(rc_edit_t *e);

typedef struct rc_manifest_s {
  char comparator[256];
  uint64_t log_number, prev_log_number, next_file, last_sequence;
  int has_log_number, has_next_file, has_last_sequence;
  rc_fileent_t *files; size_t nfiles;      /* live files, sorted by (level, number) */
  size_t nedits;
  uint64_t consumed;                        /* bytes of complete records */
  size_t ndrops;                            /* drops reported by the log layer */
  char err[200];
} rc_manifest_t;

/* Replay a MANIFEST file (log format whose records are version edits). */
int rc_manifest_replay(const uint8_t *file, size_t n, rc_manifest_t *m);
void rc_manifest_free(rc_manifest_t *m);

#endif

/* lifemon - lifecycle monitor for C20 "lifecycle operations are exclusive,
 * complete and non-destructive".
 *
 * usage: lifemon --seed S --mode lock|backup|destroy|cmp|conc --first I --count N --dir D
 *
 * One case = one generated sequence.  Everything is decided by observing the real
 * library: model comparison of handles/copies, byte hashes of directories before
 * and after an operation, exit codes of other processes trying to open.
 *
 * link: lifemon.c model.c dbh.c vh.c iomon.c, wrap=build.WRAP_IO (pthread is linked).
 *
 * modes
 *   lock     20-200 random steps over 1-2 directories: open/close; second ldb_open of
 *            an open database through the same string, a relative path (after chdir),
 *            a decorated path (//, trailing /, /./, /.., ..), a symlink; from a forked
 *            child (inherits lcdb's lock table, holds no kernel lock) and from ANOTHER
 *            PROCESS forked before any database was opened (empty lock table: only the
 *            kernel lock on LOCK can stop it); failed opens (wrong comparator,
 *            error_if_exists, missing + no create, 5 kinds of bad CURRENT, injected
 *            I/O errors on MANIFEST/log) each followed by a correct open that must
 *            succeed at once; ldb_copy / ldb_destroy of an open database; ldb_backup
 *            into an existing path; ldb_copy and ldb_destroy of the closed database.
 *   backup   model-checked histories (100-600 steps) with backups in the states
 *            memtable-only, one-level, multi-level, imm-pending (just switched, and
 *            with the flush parked inside its MANIFEST update by an iomon gate),
 *            during a manual compaction (plain and gated), injected failures
 *            (mkdir, LOCK, create, write, short write, link, fsync, read of the
 *            source, final directory sync); copies are opened beside the open source,
 *            compared with the model of the moment, written to, compacted, reopened,
 *            re-checked after the source moved on; ldb_copy of the closed source.
 *   destroy  directories with foreign files, sub-directories, symlinks, stale files
 *            under owned names, the lost/ rules of ldb_destroy.
 *   cmp      every ordered pair of the three comparators x fill level x logger kind.
 *   conc     2-4 writers with numbered batches and a marker key, 1-3 backups while
 *            they run; each copy must hold a whole-batch prefix per writer inside the
 *            window [acked before invoke, begun before return].
 *
 * evidence counters: cases, steps, opens, refused_second_open_<alias kind>,
 *   failed_open_<kind>, opens_after_failed_open, backups, backups_state_<class>,
 *   backups_mem_and_multilevel, failed_backups_<fault>, keys_compared,
 *   foreign_entries_checked, owned_entries_checked, comparator_pairs,
 *   writer_prefixes_checked, prefixes_with_in_flight_batches, ...;
 *   distinct set "c20_state" = <mode>|<db state class>|<operation>.
 *
 * A harness pitfall worth knowing: this process must never open()+close() a LOCK
 * file of a database it holds open (closing ANY descriptor of a file drops the
 * process's POSIX record locks on it); the directory hasher therefore skips LOCK.
 * LIFEMON_TIMING=1 prints wall time per lock-mode action on stderr (cost analysis).
 */
#include <dirent.h>
#include <errno.h>
#include <fcntl.h>
#include <limits.h>
#include <malloc.h>
#include <pthread.h>
#include <signal.h>
#include <sys/stat.h>
#include <sys/wait.h>
#include <unistd.h>

#include "dbh.h"
#include "iomon.h"
#include "model.h"
#include "vh.h"

static uint64_t g_seed = 1;
static char g_base[600];
static const char *g_mode = "lock";
static int g_case = 0, g_step = 0;

/* ------------------------------------------------------------------ */
/* violations */

static void lv(const char *key, const char *fmt, ...) __attribute__((format(printf, 2, 3)));

static void lv(const char *key, const char *fmt, ...) {
  char msg[3000];
  va_list ap;
  va_start(ap, fmt);
  vsnprintf(msg, sizeof(msg), fmt, ap);
  va_end(ap);
  vh_violation("C20", key, "%s | mode=%s seed=%llu case=%d step=%d", msg, g_mode,
               (unsigned long long)g_seed, g_case, g_step);
}

static int is_lock_error(int rc) {
  return rc == ENOLCK || rc == EAGAIN || rc == EACCES || rc == EWOULDBLOCK;
}

/* ------------------------------------------------------------------ */
/* option sets for opens that do not go through dbh (expected failures, copies
 * opened by other means, default-logger variants) */

typedef struct xopt_s {
  ldb_dbopt_t o;
  ldb_bloom_t *bloom;
  ldb_lru_t *cache;
  ldb_logger_t *logger;
} xopt_t;

static void quiet_log(void *state, const char *fmt, va_list ap) { (void)state; (void)fmt; (void)ap; }

static void xopt_make(xopt_t *x, const cfg_t *c, int cmp_kind, int create, int error_if_exists,
                      int paranoid, int default_logger) {
  memset(x, 0, sizeof(*x));
  x->o = *ldb_dbopt_default;
  x->o.comparator = m_comparator(cmp_kind);
  x->o.create_if_missing = create;
  x->o.error_if_exists = error_if_exists;
  x->o.paranoid_checks = paranoid;
  if (!default_logger) {
    x->logger = ldb_logger_create(quiet_log, NULL);
    x->o.info_log = x->logger;
  } else {
    x->o.info_log = NULL;
  }
  x->o.write_buffer_size = c->write_buffer_size;
  x->o.max_open_files = c->max_open_files;
  x->o.block_size = c->block_size;
  x->o.block_restart_interval = c->restart;
  x->o.max_file_size = c->max_file_size;
  x->o.compression = c->compression ? LDB_SNAPPY_COMPRESSION : LDB_NO_COMPRESSION;
  x->o.reuse_logs = c->reuse_logs;
  x->o.use_mmap = c->use_mmap;
  if (c->filter_bits > 0) {
    x->bloom = ldb_bloom_create(c->filter_bits);
    x->o.filter_policy = x->bloom;
  }
  if (c->cache_kind == 1) x->cache = ldb_lru_create(8 << 10);
  else if (c->cache_kind == 2) x->cache = ldb_lru_create(16 << 20);
  x->o.block_cache = x->cache;
}

static void xopt_free(xopt_t *x) {
  if (x->bloom) ldb_bloom_destroy(x->bloom);
  if (x->cache) ldb_lru_destroy(x->cache);
  if (x->logger) ldb_logger_destroy(x->logger);
  memset(x, 0, sizeof(*x));
}

/* ------------------------------------------------------------------ */
/* directory snapshots: recursive listing with content hashes (real syscalls,
 * bypassing the interposer) */

typedef struct snapent_s {
  char *rel;
  int kind;          /* 'f' file, 'd' directory, 'l' symlink, 'o' other */
  uint64_t size, hash;
} snapent_t;

typedef struct dirsnap_s {
  snapent_t *e;
  size_t n, cap;
  int exists;
} dirsnap_t;

static uint64_t hash_file(const char *path, uint64_t *size) {
  static __thread unsigned char buf[1 << 16];
  uint64_t h = 0x1234, total = 0;
  ssize_t r;
  int fd = open(path, O_RDONLY);
  if (fd < 0) { *size = 0; return 0xdeadULL + (uint64_t)errno; }
  while ((r = read(fd, buf, sizeof(buf))) > 0) {
    h = vh_hash64(buf, (size_t)r, h);
    total += (uint64_t)r;
  }
  close(fd);
  *size = total;
  return h;
}

static void snap_add(dirsnap_t *s, const char *rel, int kind, uint64_t size, uint64_t hash) {
  if (s->n == s->cap) {
    s->cap = s->cap ? s->cap * 2 : 32;
    s->e = realloc(s->e, s->cap * sizeof(snapent_t));
  }
  s->e[s->n].rel = strdup(rel);
  s->e[s->n].kind = kind;
  s->e[s->n].size = size;
  s->e[s->n].hash = hash;
  s->n++;
}

static void snap_walk(dirsnap_t *s, const char *dir, const char *prefix) {
  DIR *d = opendir(dir);
  struct dirent *de;
  if (d == NULL) return;
  while ((de = readdir(d)) != NULL) {
    char path[2048], rel[1024];
    struct stat st;
    if (strcmp(de->d_name, ".") == 0 || strcmp(de->d_name, "..") == 0) continue;
    snprintf(path, sizeof(path), "%s/%s", dir, de->d_name);
    snprintf(rel, sizeof(rel), "%s%s", prefix, de->d_name);
    if (lstat(path, &st) != 0) continue;
    if (S_ISDIR(st.st_mode)) {
      char sub[1100];
      snap_add(s, rel, 'd', 0, 0);
      snprintf(sub, sizeof(sub), "%s/", rel);
      snap_walk(s, path, sub);
    } else if (S_ISLNK(st.st_mode)) {
      char tgt[1024];
      ssize_t n = readlink(path, tgt, sizeof(tgt) - 1);
      if (n < 0) n = 0;
      snap_add(s, rel, 'l', (uint64_t)n, vh_hash64(tgt, (size_t)n, 7));
    } else if (S_ISREG(st.st_mode)) {
      uint64_t size, h;
      if (strcmp(de->d_name, "LOCK") == 0) {
        /* never open a LOCK file from this process: closing ANY descriptor of a file
           drops the process's fcntl record locks on it (POSIX), i.e. the lock of a
           handle that is open in this process */
        snap_add(s, rel, 'f', (uint64_t)st.st_size, 0);
        continue;
      }
      h = hash_file(path, &size);
      snap_add(s, rel, 'f', size, h);
    } else {
      snap_add(s, rel, 'o', 0, 0);
    }
  }
  closedir(d);
}

static int snapent_cmp(const void *a, const void *b) {
  return strcmp(((const snapent_t *)a)->rel, ((const snapent_t *)b)->rel);
}

static void snap_take(dirsnap_t *s, const char *dir) {
  struct stat st;
  memset(s, 0, sizeof(*s));
  iom_pause(1);
  if (lstat(dir, &st) == 0) {
    s->exists = 1;
    if (S_ISDIR(st.st_mode)) snap_walk(s, dir, "");
    else {
      uint64_t size, h = hash_file(dir, &size);
      snap_add(s, "", 'f', size, h);
    }
  }
  iom_pause(-1);
  if (s->n > 1) qsort(s->e, s->n, sizeof(snapent_t), snapent_cmp);
}

static void snap_free(dirsnap_t *s) {
  size_t i;
  for (i = 0; i < s->n; i++) free(s->e[i].rel);
  free(s->e);
  memset(s, 0, sizeof(*s));
}

static const snapent_t *snap_find(const dirsnap_t *s, const char *rel) {
  size_t lo = 0, hi = s->n;
  while (lo < hi) {
    size_t mid = (lo + hi) / 2;
    int c = strcmp(s->e[mid].rel, rel);
    if (c == 0) return &s->e[mid];
    if (c < 0) lo = mid + 1; else hi = mid;
  }
  return NULL;
}

static int ignore_info(const char *rel) {
  return strcmp(rel, "LOG") == 0 || strcmp(rel, "LOG.old") == 0 || strcmp(rel, "LOCK") == 0;
}

/* number of differences; the first few are described in msg */
static int snap_diff(const dirsnap_t *a, const dirsnap_t *b, int (*ignore)(const char *), char *msg, size_t msgsz) {
  size_t i, o = 0;
  int nd = 0;
  msg[0] = 0;
  if (a->exists != b->exists) {
    snprintf(msg, msgsz, "exists before=%d after=%d", a->exists, b->exists);
    return 1;
  }
  for (i = 0; i < a->n; i++) {
    const snapent_t *x = &a->e[i], *y;
    if (ignore && ignore(x->rel)) continue;
    y = snap_find(b, x->rel);
    if (y == NULL) {
      nd++;
      if (o + 200 < msgsz) o += (size_t)snprintf(msg + o, msgsz - o, "[removed '%s' (%c, %llu bytes)] ", x->rel, x->kind, (unsigned long long)x->size);
    } else if (y->kind != x->kind || y->size != x->size || y->hash != x->hash) {
      nd++;
      if (o + 200 < msgsz) o += (size_t)snprintf(msg + o, msgsz - o, "[changed '%s' %c/%llu/%llx -> %c/%llu/%llx] ", x->rel, x->kind,
                                                 (unsigned long long)x->size, (unsigned long long)x->hash, y->kind,
                                                 (unsigned long long)y->size, (unsigned long long)y->hash);
    }
  }
  for (i = 0; i < b->n; i++) {
    const snapent_t *y = &b->e[i];
    if (ignore && ignore(y->rel)) continue;
    if (snap_find(a, y->rel) == NULL) {
      nd++;
      if (o + 200 < msgsz) o += (size_t)snprintf(msg + o, msgsz - o, "[new '%s' (%c, %llu bytes)] ", y->rel, y->kind, (unsigned long long)y->size);
    }
  }
  return nd;
}

static int path_exists(const char *p) {
  struct stat st;
  int r;
  iom_pause(1);
  r = lstat(p, &st) == 0;
  iom_pause(-1);
  return r;
}

static void write_file(const char *path, const void *data, size_t n) {
  int fd;
  iom_pause(1);
  fd = open(path, O_WRONLY | O_CREAT | O_TRUNC, 0644);
  if (fd < 0) vh_fatal("cannot write %s: %s", path, strerror(errno));
  if (n > 0 && write(fd, data, n) != (ssize_t)n) vh_fatal("short write to %s", path);
  close(fd);
  iom_pause(-1);
}

static void write_junk(const char *path, vrng_t *r, size_t n) {
  unsigned char *b = malloc(n + 1);
  size_t i;
  for (i = 0; i < n; i++) b[i] = (unsigned char)vr_next(r);
  write_file(path, b, n);
  free(b);
}

static size_t read_small(const char *path, char *buf, size_t cap) {
  int fd;
  ssize_t n = 0;
  iom_pause(1);
  fd = open(path, O_RDONLY);
  if (fd >= 0) { n = read(fd, buf, cap); close(fd); }
  iom_pause(-1);
  return n < 0 ? 0 : (size_t)n;
}

static void rm_rf(const char *p) {
  iom_pause(1);
  vh_rm_rf(p);
  iom_pause(-1);
}

static void mk_dir(const char *p) {
  iom_pause(1);
  if (vh_mkdir_p(p) != 0) vh_fatal("mkdir %s failed", p);
  iom_pause(-1);
}

/* ------------------------------------------------------------------ */
/* model helpers */

static ldb_slice_t mrow_key(const model_t *m, int row) { return ldb_slice(m->rows[row].key, m->rows[row].klen); }

/* dst := the state of src at version ver (same keys, same row numbering) */
static void model_clone(const model_t *src, uint64_t ver, model_t *dst) {
  size_t i;
  m_init(dst, src->cmp_kind);
  for (i = 0; i < src->nrows; i++) m_add_key(dst, src->rows[i].key, src->rows[i].klen);
  m_finalize(dst);
  if (dst->nrows != src->nrows) vh_fatal("model_clone: row count changed");
  for (i = 0; i < src->nrows; i++) {
    const mver_t *e = m_get(src, (int)i, ver);
    if (e != NULL && e->present) m_put(dst, (int)i, e->vid, e->vlen);
  }
}

typedef struct mm_s {
  int n;
  char first[900];
  int have_vid;
  uint64_t got_vid;
} mm_t;

static void mm_add(mm_t *mm, int have_vid, uint64_t vid, const char *fmt, ...) __attribute__((format(printf, 4, 5)));

static void mm_add(mm_t *mm, int have_vid, uint64_t vid, const char *fmt, ...) {
  if (mm->n++ == 0) {
    va_list ap;
    va_start(ap, fmt);
    vsnprintf(mm->first, sizeof(mm->first), fmt, ap);
    va_end(ap);
    mm->have_vid = have_vid;
    mm->got_vid = vid;
  }
}

static int val_ok(const mver_t *e, const void *p, size_t n) {
  return e != NULL && e->present && n == e->vlen && vh_check_value(p, n, e->vid);
}

/* every key by get, plus a forward and a backward scan, against the model at ver */
static void check_equal(ldb_t *db, const model_t *m, uint64_t ver, mm_t *mm) {
  size_t i;
  int dir;
  ldb_iter_t *it;
  memset(mm, 0, sizeof(*mm));
  for (i = 0; i < m->nrows; i++) {
    ldb_slice_t k = mrow_key(m, (int)i), v;
    const mver_t *e = m_get(m, (int)i, ver);
    int want = e != NULL && e->present;
    int rc = ldb_get(db, &k, &v, NULL);
    if (rc == LDB_OK) {
      if (!want)
        mm_add(mm, v.size >= 8, vh_value_vid(v.data, v.size), "get('%s'): expected absent, got %zu bytes vid=%llx",
               vh_esc(k.data, k.size), v.size, (unsigned long long)vh_value_vid(v.data, v.size));
      else if (!val_ok(e, v.data, v.size))
        mm_add(mm, v.size >= 8, vh_value_vid(v.data, v.size), "get('%s'): expected vid=%llx len=%u, got len=%zu vid=%llx",
               vh_esc(k.data, k.size), (unsigned long long)e->vid, e->vlen, v.size,
               (unsigned long long)vh_value_vid(v.data, v.size));
      ldb_free(v.data);
    } else if (rc == LDB_NOTFOUND) {
      if (want)
        mm_add(mm, 0, 0, "get('%s'): expected vid=%llx len=%u, got NOTFOUND", vh_esc(k.data, k.size),
               (unsigned long long)e->vid, e->vlen);
    } else {
      mm_add(mm, 0, 0, "get('%s'): status %d (%s)", vh_esc(k.data, k.size), rc, ldb_strerror(rc));
    }
  }
  it = ldb_iterator(db, NULL);
  for (dir = 0; dir < 2; dir++) {
    int row = dir == 0 ? m_first(m, ver) : m_last(m, ver);
    const char *dn = dir == 0 ? "forward" : "backward";
    if (dir == 0) ldb_iter_first(it); else ldb_iter_last(it);
    for (;;) {
      int valid = ldb_iter_valid(it);
      if (row < 0 && !valid) break;
      if (row < 0) {
        ldb_slice_t k = ldb_iter_key(it), v = ldb_iter_value(it);
        mm_add(mm, v.size >= 8, vh_value_vid(v.data, v.size), "%s scan: extra key '%s' (%zu bytes, vid=%llx)", dn,
               vh_esc(k.data, k.size), v.size, (unsigned long long)vh_value_vid(v.data, v.size));
        break;
      }
      if (!valid) {
        mm_add(mm, 0, 0, "%s scan: ended before key '%s'", dn, vh_esc(m->rows[row].key, m->rows[row].klen));
        break;
      }
      {
        ldb_slice_t k = ldb_iter_key(it), v = ldb_iter_value(it);
        const mver_t *e = m_get(m, row, ver);
        if (k.size != m->rows[row].klen || memcmp(k.data, m->rows[row].key, k.size) != 0) {
          mm_add(mm, v.size >= 8, vh_value_vid(v.data, v.size), "%s scan: expected key '%s', got '%s' (vid=%llx)", dn,
                 vh_esc(m->rows[row].key, m->rows[row].klen), vh_esc(k.data, k.size),
                 (unsigned long long)vh_value_vid(v.data, v.size));
          break;
        }
        if (!val_ok(e, v.data, v.size)) {
          mm_add(mm, v.size >= 8, vh_value_vid(v.data, v.size), "%s scan: key '%s' expected vid=%llx len=%u, got len=%zu vid=%llx",
                 dn, vh_esc(k.data, k.size), (unsigned long long)e->vid, e->vlen, v.size,
                 (unsigned long long)vh_value_vid(v.data, v.size));
          break;
        }
      }
      if (dir == 0) { ldb_iter_next(it); row = m_next(m, row, ver); }
      else { ldb_iter_prev(it); row = m_prev(m, row, ver); }
    }
    if (ldb_iter_status(it) != LDB_OK)
      mm_add(mm, 0, 0, "%s scan: iterator status %d", dn, ldb_iter_status(it));
  }
  ldb_iter_destroy(it);
  vh_count("keys_compared", (uint64_t)m->nrows * 3);
}

/* layout classification of an open handle */
static void db_shape(ldb_t *db, int *ntables, int *levels_used, char *sig, size_t sigsz) {
  layout_t l;
  int j;
  *ntables = 0; *levels_used = 0;
  if (sig) snprintf(sig, sigsz, "?");
  if (dbh_layout(db, &l)) {
    *ntables = (int)l.n;
    for (j = 0; j < 7; j++) *levels_used += l.per_level[j] > 0;
    if (sig) snprintf(sig, sigsz, "%s", layout_sig(&l));
    layout_free(&l);
  }
}

/* ------------------------------------------------------------------ */
/* helper process: forked before any database is opened, so that its lcdb lock
 * table is empty - a genuine "other process" */

typedef struct hreq_s { int op, cmp, create; char path[700]; } hreq_t;

static int helper_wfd = -1, helper_rfd = -1;
static pid_t helper_pid = -1;

static void helper_main(int rfd, int wfd) {
  hreq_t rq;
  for (;;) {
    ssize_t n = read(rfd, &rq, sizeof(rq));
    int rc;
    dbh_t h;
    cfg_t c;
    if (n != (ssize_t)sizeof(rq) || (rq.op != 0 && rq.op != 1)) _exit(0);
    if (rq.op == 1) {
      /* non-destructive probe: does any other process hold a record lock on this file?
         0 = locked by somebody, 1 = nobody holds a lock, <0 = cannot tell */
      struct flock fl;
      int fd = open(rq.path, O_RDWR);
      rc = -1;
      if (fd >= 0) {
        memset(&fl, 0, sizeof(fl));
        fl.l_type = F_WRLCK;
        fl.l_whence = SEEK_SET;
        if (fcntl(fd, F_GETLK, &fl) == 0) rc = fl.l_type == F_UNLCK ? 1 : 0;
        close(fd);
      }
      if (write(wfd, &rc, sizeof(rc)) != (ssize_t)sizeof(rc)) _exit(0);
      continue;
    }
    cfg_default(&c);
    c.cmp_kind = rq.cmp;
    dbh_init(&h, rq.path, &c);
    rc = dbh_open(&h, rq.create);
    dbh_destroy(&h);
    if (write(wfd, &rc, sizeof(rc)) != (ssize_t)sizeof(rc)) _exit(0);
  }
}

static void helper_start(void) {
  int a[2], b[2];
  if (pipe(a) != 0 || pipe(b) != 0) vh_fatal("pipe failed");
  helper_pid = fork();
  if (helper_pid < 0) vh_fatal("fork failed");
  if (helper_pid == 0) {
    int nul = open("/dev/null", O_WRONLY);
    close(a[1]); close(b[0]);
    if (nul >= 0) { dup2(nul, 1); close(nul); }
    signal(SIGPIPE, SIG_DFL);
    helper_main(a[0], b[1]);
    _exit(0);
  }
  close(a[0]); close(b[1]);
  helper_wfd = a[1];
  helper_rfd = b[0];
}

/* ask the other process to ldb_open(path) and close again (op 0; returns its status),
 * or to query the kernel for a record lock on path (op 1) */
static int helper_call(int op, const char *path, int cmp, int create) {
  hreq_t rq;
  int rc = -1;
  memset(&rq, 0, sizeof(rq));
  rq.op = op; rq.cmp = cmp; rq.create = create;
  snprintf(rq.path, sizeof(rq.path), "%s", path);
  if (write(helper_wfd, &rq, sizeof(rq)) != (ssize_t)sizeof(rq)) vh_fatal("helper process is gone (write)");
  if (read(helper_rfd, &rc, sizeof(rc)) != (ssize_t)sizeof(rc)) vh_fatal("helper process died while opening %s", path);
  return rc;
}

static int helper_open(const char *path, int cmp, int create) { return helper_call(0, path, cmp, create); }
static int helper_lock_free(const char *path) { return helper_call(1, path, 0, 0); }

static void helper_stop(void) {
  int st;
  if (helper_pid <= 0) return;
  close(helper_wfd);
  close(helper_rfd);
  while (waitpid(helper_pid, &st, 0) < 0 && errno == EINTR) {}
  helper_pid = -1;
}

/* forked child (inherits this process's lcdb lock table, holds no fcntl lock) */
enum { CH_OPENED = 42, CH_REFUSED = 43 };

static int forked_child_open(const char *path, const cfg_t *cfg, int *rc_out) {
  pid_t pid;
  int st;
  pid = iom_fork();
  if (pid < 0) vh_fatal("fork failed: %s", strerror(errno));
  if (pid == 0) {
    dbh_t h;
    int rc;
    alarm(60);
    iom_pause(1);
    dbh_init(&h, path, cfg);
    rc = dbh_open(&h, 1);
    _exit(rc == LDB_OK ? CH_OPENED : CH_REFUSED);
  }
  while (waitpid(pid, &st, 0) < 0 && errno == EINTR) {}
  *rc_out = st;
  if (WIFEXITED(st) && WEXITSTATUS(st) == CH_OPENED) return 1;
  if (WIFEXITED(st) && WEXITSTATUS(st) == CH_REFUSED) return 0;
  return -1;
}

/* ================================================================== */
/* mode lock */

typedef struct ldbs_s {
  char dir[700], parent[700], base[64];
  dbh_t h;
  model_t m;
  int exists;                /* a database (CURRENT) exists in dir */
  int is_open;
  int refusals_since_open;   /* refused in-process lock attempts since the handle was opened */
  int lock_loss_reported;    /* the kernel lock of this handle was already seen released */
  char last_event[64];
  uint64_t next_vid;
} ldbs_t;

typedef struct lk_s {
  vrng_t r;
  char cdir[700];
  ldbs_t d[2];
  int ndb;
  int serial;
  int abandon;
  int lock_loss_viols;       /* the diagnosed lock-loss finding is written out once per case */
  uint8_t vbuf[4096];
} lk_t;

static int g_confirm_budget = 1, g_confirmed_case = -1;

/* LIFEMON_TIMING=1: wall time per action kind on stderr (cost analysis only, never a verdict) */
static double g_tacc[32];
static int g_tcnt[32];
static const char *g_tname[32];
static void tacc(int slot, const char *name, double t0) {
  g_tacc[slot] += vh_now() - t0; g_tcnt[slot]++; g_tname[slot] = name;
}
static void tacc_dump(void) {
  int i;
  if (!getenv("LIFEMON_TIMING")) return;
  for (i = 0; i < 32; i++) if (g_tcnt[i]) fprintf(stderr, "timing %-22s n=%6d total=%8.3fs avg=%7.2fms\n", g_tname[i], g_tcnt[i], g_tacc[i], 1e3 * g_tacc[i] / g_tcnt[i]);
}

static const char *alias_names[] = {"same-path", "relative", "decorated-path", "symlink"};

static void lk_event(ldbs_t *D, const char *fmt, ...) __attribute__((format(printf, 2, 3)));
static void lk_event(ldbs_t *D, const char *fmt, ...) {
  va_list ap;
  va_start(ap, fmt);
  vsnprintf(D->last_event, sizeof(D->last_event), fmt, ap);
  va_end(ap);
}

static void lk_write_some(lk_t *L, ldbs_t *D, int n) {
  int i;
  for (i = 0; i < n; i++) {
    int row = (int)vr_uniform(&L->r, (uint32_t)D->m.nrows);
    ldb_slice_t k = mrow_key(&D->m, row), v;
    int rc;
    if (vr_chance(&L->r, 200)) {
      rc = ldb_del(D->h.db, &k, NULL);
      if (rc == LDB_OK) m_del(&D->m, row);
    } else {
      uint32_t len = 8 + vr_uniform(&L->r, 1500);
      uint64_t vid = (D->next_vid += 2) | (vr_next(&L->r) & 1);
      vh_fill_value(L->vbuf, len, vid);
      v = ldb_slice(L->vbuf, len);
      rc = ldb_put(D->h.db, &k, &v, NULL);
      if (rc == LDB_OK) m_put(&D->m, row, vid, len);
    }
    if (rc != LDB_OK) {
      lv(D->refusals_since_open ? "first-handle-damaged-by-failed-open" : "write-failed",
         "write through the open handle of %s returned %d (%s) after %d refused lock attempts (last event: %s)",
         D->base, rc, ldb_strerror(rc), D->refusals_since_open, D->last_event);
      L->abandon = 1;
      return;
    }
  }
}

/* after a refused second open / copy / destroy: the first handle must be fully usable */
static void lk_verify_first(lk_t *L, ldbs_t *D, const char *after) {
  mm_t mm;
  lk_write_some(L, D, 2);
  if (L->abandon) return;
  check_equal(D->h.db, &D->m, D->m.version, &mm);
  if (mm.n > 0) {
    lv("first-handle-damaged-by-failed-open", "after %s on %s the first handle disagrees with the model (%d mismatches): %s",
       after, D->base, mm.n, mm.first);
    L->abandon = 1;
  }
  vh_count("first_handle_checks", 1);
}

/* open with the right options: must succeed and show the model's contents */
static void lk_open(lk_t *L, ldbs_t *D) {
  int rc = dbh_open(&D->h, 1);
  mm_t mm;
  int failed_before = strncmp(D->last_event, "failed-open", 11) == 0;
  vh_count("opens", 1);
  if (rc != LDB_OK) {
    if (is_lock_error(rc))
      lv(failed_before ? "lock-not-released-after-failed-open" : "lock-not-released-after-close",
         "ldb_open(%s) returned %d (%s) although no handle is open; previous event: %s", D->base, rc, ldb_strerror(rc),
         D->last_event);
    else
      lv(failed_before ? "open-failed-after-failed-open" : "reopen-failed",
         "ldb_open(%s) returned %d (%s); previous event: %s", D->base, rc, ldb_strerror(rc), D->last_event);
    L->abandon = 1;
    return;
  }
  D->is_open = 1;
  D->exists = 1;
  D->refusals_since_open = 0;
  D->lock_loss_reported = 0;
  check_equal(D->h.db, &D->m, D->m.version, &mm);
  if (mm.n > 0) {
    lv(failed_before ? "contents-changed-by-failed-open" : "contents-differ-after-reopen",
       "after open of %s (previous event: %s) %d mismatches: %s", D->base, D->last_event, mm.n, mm.first);
    L->abandon = 1;
  }
  if (failed_before) vh_count("opens_after_failed_open", 1);
  vh_distinct("c20_state", "lock|%s|open-after-%s", D->m.version ? "data" : "empty", D->last_event);
  lk_event(D, "open");
}

static void lk_close(lk_t *L, ldbs_t *D) {
  (void)L;
  dbh_close(&D->h);
  D->is_open = 0;
  lk_event(D, "close");
  vh_count("closes", 1);
}

/* a second ldb_open of an open database through an alias of its path */
static void lk_second_open(lk_t *L, ldbs_t *D, int kind) {
  char path[1500], link[800] = "";
  int cwdfd = -1, rc, wrongopt = (int)vr_uniform(&L->r, 4);
  xopt_t x;
  ldb_t *db2 = NULL;
  const char *variant = "";
  switch (kind) {
    case 0:
      snprintf(path, sizeof(path), "%s", D->dir);
      break;
    case 1: {
      const char *pb = strrchr(D->parent, '/');
      cwdfd = open(".", O_RDONLY);
      if (cwdfd < 0 || chdir(D->parent) != 0) vh_fatal("chdir %s failed", D->parent);
      switch (vr_uniform(&L->r, 3)) {
        case 0: snprintf(path, sizeof(path), "%s", D->base); variant = "name"; break;
        case 1: snprintf(path, sizeof(path), "./%s", D->base); variant = "./name"; break;
        default: snprintf(path, sizeof(path), "../%s/%s", pb ? pb + 1 : "", D->base); variant = "../parent/name"; break;
      }
      break;
    }
    case 2: {
      const char *pb = strrchr(D->parent, '/');
      switch (vr_uniform(&L->r, 5)) {
        case 0: snprintf(path, sizeof(path), "%s//%s", D->parent, D->base); variant = "double-slash"; break;
        case 1: snprintf(path, sizeof(path), "%s/", D->dir); variant = "trailing-slash"; break;
        case 2: snprintf(path, sizeof(path), "%s/./%s", D->parent, D->base); variant = "dot-component"; break;
        case 3: snprintf(path, sizeof(path), "%s/.", D->dir); variant = "trailing-dot"; break;
        default: snprintf(path, sizeof(path), "%s/../%s/%s", D->parent, pb ? pb + 1 : "", D->base); variant = "dotdot"; break;
      }
      break;
    }
    default:
      snprintf(link, sizeof(link), "%s/ln-%d", L->cdir, L->serial++);
      if (vr_chance(&L->r, 500)) {
        if (symlink(D->dir, link) != 0) vh_fatal("symlink failed");
        variant = "absolute-target";
      } else {
        if (symlink(D->base, link) != 0) vh_fatal("symlink failed");   /* relative target, same parent */
        variant = "relative-target";
      }
      snprintf(path, sizeof(path), "%s", link);
      break;
  }
  /* the options of the intruder vary; none may get in */
  xopt_make(&x, &D->h.cfg, wrongopt == 1 ? (D->h.cfg.cmp_kind + 1) % CMP_KINDS : D->h.cfg.cmp_kind, wrongopt != 2,
            wrongopt == 3, 0, 0);
  rc = ldb_open(path, &x.o, &db2);
  if (cwdfd >= 0) {
    if (fchdir(cwdfd) != 0) vh_fatal("fchdir back failed");
    close(cwdfd);
  }
  vh_count("second_open_attempts", 1);
  if (rc == LDB_OK) {
    char key[80];
    snprintf(key, sizeof(key), "second-open-succeeded-%s", alias_names[kind]);
    lv(key, "second ldb_open of the open database %s through alias kind %s (%s: '%s', option variant %d) returned OK",
       D->base, alias_names[kind], variant, path, wrongopt);
    ldb_close(db2);
    L->abandon = 1;
  } else {
    char cname[64];
    snprintf(cname, sizeof(cname), "refused_second_open_%s", alias_names[kind]);
    vh_count(cname, 1);
    vh_distinct("c20_state", "lock|open|second-open-%s-%s-opt%d", alias_names[kind], variant, wrongopt);
    D->refusals_since_open++;
  }
  xopt_free(&x);
  if (link[0]) unlink(link);
  if (!L->abandon) lk_verify_first(L, D, "a refused second open");
}

static void lk_fork_child(lk_t *L, ldbs_t *D) {
  int st = 0, r;
  ldb_verif_wait_idle(D->h.db);
  r = forked_child_open(D->dir, &D->h.cfg, &st);
  vh_count("forked_child_attempts", 1);
  if (r == 1) {
    lv("second-open-succeeded-forked-child", "a forked child process opened %s while the parent holds it open (%d refused in-process attempts before)",
       D->base, D->refusals_since_open);
    L->abandon = 1;
  } else if (r == 0) {
    vh_count("refused_second_open_forked_child", 1);
    vh_distinct("c20_state", "lock|open|second-open-forked-child");
  } else if (WIFSIGNALED(st) && WTERMSIG(st) == SIGALRM) {
    /* the child's 60 s wall-clock watchdog: inconclusive, never a verdict (a loaded machine, or a fork taken at a bad
       moment for some lock of the harness); counted so that the evidence shows it */
    vh_count("forked_child_watchdog_expired", 1);
    vh_note("forked child trying ldb_open(%s): watchdog expired (inconclusive)", D->base);
  } else {
    lv("forked-child-crashed", "forked child trying ldb_open(%s) ended with wait status 0x%x", D->base, st);
    L->abandon = 1;
  }
  if (!L->abandon) lk_verify_first(L, D, "a refused open in a forked child");
}

static void lk_helper(lk_t *L, ldbs_t *D) {
  int rc;
  if (D->is_open) {
    ldb_verif_wait_idle(D->h.db);
    if (D->refusals_since_open > 0) {
      /* The kernel lock may have been dropped by a refused in-process attempt (each one
         closes a descriptor of LOCK).  A real ldb_open from the other process would then
         run recovery on the live directory and end this case, so the lock is first
         queried without side effects; the real open is performed once per process to
         confirm what the query says. */
      char lockpath[800];
      int fr;
      if (D->lock_loss_reported) return;
      snprintf(lockpath, sizeof(lockpath), "%s/LOCK", D->dir);
      fr = helper_lock_free(lockpath);
      vh_count("other_process_lock_queries", 1);
      if (fr == 1) {
        int confirmed = -1;
        if (g_confirm_budget > 0) {
          g_confirm_budget--;
          confirmed = helper_open(D->dir, D->h.cfg.cmp_kind, 0);
          vh_count("other_process_attempts", 1);
          if (confirmed == LDB_OK) g_confirmed_case = g_case;
        }
        if (confirmed == -1 && L->lock_loss_viols > 0)
          vh_count("kernel_lock_lost_repeats_not_printed", 1);
        else if ((confirmed == -1 || confirmed == LDB_OK) && ++L->lock_loss_viols)
          lv("second-open-succeeded-other-process-after-refused-open",
             "%s: this process holds %s open, but after %d refused in-process lock attempts on it (second ldb_open / ldb_copy / "
             "ldb_destroy; last event: %s) no fcntl record lock is held on %s/LOCK any more: ldb_lock_file opens LOCK, finds "
             "(dev,ino) in its table and close()s the descriptor, which drops the record lock of the first handle (POSIX)",
             confirmed == LDB_OK ? "another process OPENED the database with ldb_open"
                                 : (g_confirmed_case >= 0 ? "another process sees the lock released (F_GETLK; a real ldb_open from another "
                                                            "process was confirmed to succeed earlier in this run)"
                                                          : "another process sees the lock released (F_GETLK)"),
             D->base, D->refusals_since_open, D->last_event, D->base);
        else
          lv("lock-query-disagrees", "F_GETLK reports no lock on %s/LOCK but ldb_open from the other process returned %d", D->base, confirmed);
        D->lock_loss_reported = 1;
        vh_count("kernel_lock_lost_after_refusal", 1);
        if (confirmed == LDB_OK) L->abandon = 1;   /* the other process ran recovery on the live directory */
        return;
      }
      if (fr != 0) vh_fatal("lock query on %s failed", lockpath);
    }
    rc = helper_open(D->dir, D->h.cfg.cmp_kind, 0);
    vh_count("other_process_attempts", 1);
    if (rc == LDB_OK) {
      lv(D->refusals_since_open > 0 ? "second-open-succeeded-other-process-after-refused-open" : "second-open-succeeded-other-process",
         "another process opened %s while this process holds it open (%d refused in-process attempts before)", D->base,
         D->refusals_since_open);
      L->abandon = 1;
      return;
    }
    vh_count(D->refusals_since_open ? "refused_second_open_other_process_after_refusal" : "refused_second_open_other_process", 1);
    vh_distinct("c20_state", "lock|open|second-open-other-process-%s", D->refusals_since_open ? "after-refusal" : "clean");
    lk_verify_first(L, D, "a refused open in another process");
  } else if (D->exists) {
    rc = helper_open(D->dir, D->h.cfg.cmp_kind, 0);
    vh_count("other_process_opens_closed_db", 1);
    if (rc != LDB_OK) {
      lv(is_lock_error(rc) ? "lock-not-released-after-close" : "reopen-failed",
         "another process could not open the closed database %s: %d (%s); previous event: %s", D->base, rc,
         ldb_strerror(rc), D->last_event);
      L->abandon = 1;
      return;
    }
    lk_event(D, "other-process-open-close");
    lk_open(L, D);
  }
}

/* expected-to-fail opens of a closed database, each followed by a correct open */
enum { FO_CMP, FO_EXISTS, FO_MISSING, FO_CURRENT, FO_IO, FO_KINDS };
static const char *fo_names[] = {"wrong-comparator", "error-if-exists", "missing-no-create", "bad-current", "io-error"};

static void lk_failed_open(lk_t *L, ldbs_t *D, int kind) {
  xopt_t x;
  ldb_t *db2 = NULL;
  int rc, variant = 0;
  char cur[800], saved[256], detail[120] = "";
  size_t savedn = 0;
  dirsnap_t before, after;
  char diff[900];
  uint64_t fired0 = iom_fault_fired();
  int check_unmodified = 1;

  if (kind == FO_MISSING) {
    /* a sibling path that never held a database */
    char mdir[800];
    dbh_t h2;
    mm_t mm;
    model_t empty;
    snprintf(mdir, sizeof(mdir), "%s/missing-%d", L->cdir, L->serial++);
    if (vr_chance(&L->r, 500)) mk_dir(mdir);    /* directory exists but holds no database */
    xopt_make(&x, &D->h.cfg, D->h.cfg.cmp_kind, 0, 0, 0, 0);
    rc = ldb_open(mdir, &x.o, &db2);
    vh_count("failed_open_attempts", 1);
    if (rc == LDB_OK) {
      lv("bad-open-accepted", "ldb_open of the missing database %s with create_if_missing=0 returned OK", mdir);
      ldb_close(db2);
      L->abandon = 1;
    } else {
      vh_count("failed_open_missing_no_create", 1);
      dbh_init(&h2, mdir, &D->h.cfg);
      rc = dbh_open(&h2, 1);
      vh_count("opens", 1);
      if (rc != LDB_OK) {
        lv(is_lock_error(rc) ? "lock-not-released-after-failed-open" : "open-failed-after-failed-open",
           "creating %s right after a failed open (missing, create_if_missing=0) returned %d (%s)", mdir, rc, ldb_strerror(rc));
        L->abandon = 1;
      } else {
        m_init(&empty, D->h.cfg.cmp_kind);
        m_add_key(&empty, "k", 1);
        m_finalize(&empty);
        check_equal(h2.db, &empty, 0, &mm);
        if (mm.n > 0) lv("contents-changed-by-failed-open", "fresh database %s is not empty: %s", mdir, mm.first);
        m_free(&empty);
        vh_count("opens_after_failed_open", 1);
        vh_distinct("c20_state", "lock|missing|open-after-failed-open:missing-no-create");
      }
      dbh_destroy(&h2);
    }
    xopt_free(&x);
    rm_rf(mdir);
    return;
  }

  snprintf(cur, sizeof(cur), "%s/CURRENT", D->dir);
  switch (kind) {
    case FO_CMP:
      variant = 1 + (int)vr_uniform(&L->r, CMP_KINDS - 1);
      xopt_make(&x, &D->h.cfg, (D->h.cfg.cmp_kind + variant) % CMP_KINDS, 1, 0, (int)vr_uniform(&L->r, 2), 0);
      snprintf(detail, sizeof(detail), "created cmp%d opened cmp%d", D->h.cfg.cmp_kind, (D->h.cfg.cmp_kind + variant) % CMP_KINDS);
      break;
    case FO_EXISTS:
      xopt_make(&x, &D->h.cfg, D->h.cfg.cmp_kind, (int)vr_uniform(&L->r, 2), 1, 0, 0);
      break;
    case FO_CURRENT: {
      variant = (int)vr_uniform(&L->r, 5);
      savedn = read_small(cur, saved, sizeof(saved));
      switch (variant) {
        case 0: write_file(cur, "", 0); snprintf(detail, sizeof(detail), "empty"); break;
        case 1: write_file(cur, "MANIFEST-000002", 15); snprintf(detail, sizeof(detail), "no-newline"); break;
        case 2: write_file(cur, "MANIFEST-999999\n", 16); snprintf(detail, sizeof(detail), "missing-manifest"); break;
        case 3: write_file(cur, "xyzzy\n", 6); snprintf(detail, sizeof(detail), "garbage-name"); break;
        default: write_junk(cur, &L->r, 1 + vr_uniform(&L->r, 60)); snprintf(detail, sizeof(detail), "random-bytes"); break;
      }
      xopt_make(&x, &D->h.cfg, D->h.cfg.cmp_kind, 1, 0, (int)vr_uniform(&L->r, 2), 0);
      break;
    }
    default: {
      /* faults that recovery cannot ignore: MANIFEST always; the log only with paranoid_checks */
      static const int errs[] = {EIO, EACCES, EMFILE, ENOMEM};
      int err = errs[vr_uniform(&L->r, 4)];
      variant = (int)vr_uniform(&L->r, 4);
      iom_fault_clear();
      switch (variant) {
        case 0: iom_fault_add(IOP_OPEN, PC_MANIFEST, 1, err, 0, IOF_CLEAN); snprintf(detail, sizeof(detail), "open-manifest errno=%d", err); break;
        case 1: iom_fault_add(IOP_READ, PC_MANIFEST, 1, err, 0, IOF_CLEAN); snprintf(detail, sizeof(detail), "read-manifest errno=%d", err); break;
        case 2: iom_fault_add(IOP_OPEN, PC_LOG, 1, err, 0, IOF_CLEAN); snprintf(detail, sizeof(detail), "open-log errno=%d", err); break;
        default: iom_fault_add(IOP_READ, PC_LOG, 1, err, 0, IOF_CLEAN); snprintf(detail, sizeof(detail), "read-log errno=%d", err); break;
      }
      xopt_make(&x, &D->h.cfg, D->h.cfg.cmp_kind, 1, 0, 1, 0);
      check_unmodified = variant < 2;   /* a log fault may leave an orphan table behind */
      break;
    }
  }
  snap_take(&before, D->dir);
  rc = ldb_open(D->dir, &x.o, &db2);
  iom_fault_clear();
  vh_count("failed_open_attempts", 1);
  snap_take(&after, D->dir);
  if (kind == FO_CURRENT) write_file(cur, saved, savedn);

  if (rc == LDB_OK) {
    if (kind == FO_IO && iom_fault_fired() == fired0) {
      /* nothing was injected: this was an ordinary successful open */
      vh_count("fault_not_fired", 1);
      ldb_close(db2);
      lk_event(D, "close");
    } else {
      lv(kind == FO_CMP ? "comparator-mismatch-accepted" : "bad-open-accepted",
         "ldb_open of %s that must fail (%s: %s) returned OK", D->base, fo_names[kind], detail);
      ldb_close(db2);
      L->abandon = 1;
    }
  } else {
    char cname[80];
    snprintf(cname, sizeof(cname), "failed_open_%s", fo_names[kind]);
    vh_count(cname, 1);
    vh_distinct("c20_state", "lock|closed|failed-open-%s-%d", fo_names[kind], variant);
    if (check_unmodified && snap_diff(&before, &after, ignore_info, diff, sizeof(diff)) > 0) {
      lv(kind == FO_CMP ? "comparator-mismatch-modified-files" : "failed-open-modified-files",
         "failed open (%s: %s, rc=%d) changed the directory of %s: %s", fo_names[kind], detail, rc, D->base, diff);
      L->abandon = 1;
    }
    lk_event(D, "failed-open:%s", fo_names[kind]);
  }
  xopt_free(&x);
  snap_free(&before);
  snap_free(&after);
  /* the lock must have been released: a correct open succeeds immediately */
  if (!L->abandon) lk_open(L, D);
}

/* ldb_copy / ldb_destroy of a database that is open in this process */
static void lk_copy_destroy_open(lk_t *L, ldbs_t *D, int destroy) {
  dirsnap_t before, after;
  char to[800], diff[900];
  int rc;
  ldb_verif_wait_idle(D->h.db);
  snap_take(&before, D->dir);
  snprintf(to, sizeof(to), "%s/cp-%d", L->cdir, L->serial++);
  if (destroy) rc = ldb_destroy(D->dir, ldb_dbopt_default);
  else rc = ldb_copy(D->dir, to, ldb_dbopt_default);
  snap_take(&after, D->dir);
  vh_count(destroy ? "destroy_open_attempts" : "copy_open_attempts", 1);
  if (rc == LDB_OK) {
    lv(destroy ? "destroy-of-open-db-allowed" : "copy-of-open-db-allowed", "%s of %s returned OK while the database is open in this process",
       destroy ? "ldb_destroy" : "ldb_copy", D->base);
    L->abandon = 1;
  } else if (snap_diff(&before, &after, NULL, diff, sizeof(diff)) > 0) {
    lv(destroy ? "destroy-of-open-db-allowed" : "copy-of-open-db-allowed", "refused %s (rc=%d) of the open database %s still changed its directory: %s",
       destroy ? "ldb_destroy" : "ldb_copy", rc, D->base, diff);
    L->abandon = 1;
  } else if (!destroy && path_exists(to)) {
    lv("copy-of-open-db-allowed", "refused ldb_copy (rc=%d) of the open database %s left a target directory behind", rc, D->base);
    L->abandon = 1;
  } else {
    vh_count(destroy ? "refused_destroy_of_open_db" : "refused_copy_of_open_db", 1);
    vh_distinct("c20_state", "lock|open|%s-refused", destroy ? "destroy" : "copy");
    D->refusals_since_open++;
    lk_event(D, destroy ? "refused-destroy" : "refused-copy");
  }
  snap_free(&before);
  snap_free(&after);
  rm_rf(to);
  if (!L->abandon) lk_verify_first(L, D, destroy ? "a refused ldb_destroy" : "a refused ldb_copy");
}

/* ldb_backup into a path that already exists */
static void lk_backup_existing(lk_t *L, ldbs_t *D) {
  char tgt[800], f[900], diff[900];
  dirsnap_t before, after;
  int rc, variant = (int)vr_uniform(&L->r, 4);
  const char *vn;
  snprintf(tgt, sizeof(tgt), "%s/tgt-%d", L->cdir, L->serial++);
  if (variant == 0) {
    mk_dir(tgt); vn = "empty-dir";
  } else if (variant == 1) {
    mk_dir(tgt);
    snprintf(f, sizeof(f), "%s/keep.txt", tgt); write_junk(f, &L->r, 100);
    snprintf(f, sizeof(f), "%s/000005.ldb", tgt); write_junk(f, &L->r, 300);
    snprintf(f, sizeof(f), "%s/CURRENT", tgt); write_file(f, "MANIFEST-000004\n", 16);
    snprintf(f, sizeof(f), "%s/MANIFEST-000004", tgt); write_junk(f, &L->r, 80);
    vn = "dir-with-files";
  } else if (variant == 2) {
    write_junk(tgt, &L->r, 50); vn = "regular-file";
  } else {
    snprintf(tgt, sizeof(tgt), "%s", D->dir); vn = "the-source-itself";
    ldb_verif_wait_idle(D->h.db);
  }
  snap_take(&before, tgt);
  rc = ldb_backup(D->h.db, tgt);
  snap_take(&after, tgt);
  vh_count("backup_existing_target_attempts", 1);
  if (rc == LDB_OK) {
    lv("backup-overwrote-existing-target", "ldb_backup of %s into the existing path %s (%s) returned OK", D->base, tgt, vn);
    L->abandon = 1;
  } else if (snap_diff(&before, &after, NULL, diff, sizeof(diff)) > 0) {
    lv("backup-overwrote-existing-target", "refused ldb_backup (rc=%d) into the existing path (%s) changed it: %s", rc, vn, diff);
    L->abandon = 1;
  } else {
    vh_count("refused_backup_existing_target", 1);
    vh_distinct("c20_state", "lock|open|backup-existing-%s", vn);
  }
  snap_free(&before);
  snap_free(&after);
  if (variant != 3) rm_rf(tgt);
  if (!L->abandon) lk_verify_first(L, D, "a refused ldb_backup");
}

static void lk_copy_closed(lk_t *L, ldbs_t *D) {
  char to[800], diff[900];
  dirsnap_t before, after;
  int rc, existing = vr_chance(&L->r, 300);
  snprintf(to, sizeof(to), "%s/cpc-%d", L->cdir, L->serial++);
  if (existing) { char f[900]; mk_dir(to); snprintf(f, sizeof(f), "%s/keep.txt", to); write_junk(f, &L->r, 64); }
  snap_take(&before, existing ? to : D->dir);
  rc = ldb_copy(D->dir, to, ldb_dbopt_default);
  snap_take(&after, existing ? to : D->dir);
  vh_count("copies_of_closed_db", 1);
  if (existing) {
    if (rc == LDB_OK || snap_diff(&before, &after, NULL, diff, sizeof(diff)) > 0) {
      lv("backup-overwrote-existing-target", "ldb_copy of %s into an existing directory: rc=%d, directory %s", D->base, rc,
         rc == LDB_OK ? "accepted" : diff);
      L->abandon = 1;
    }
  } else if (rc != LDB_OK) {
    lv("backup-failed", "ldb_copy of the closed database %s returned %d (%s); previous event: %s", D->base, rc, ldb_strerror(rc), D->last_event);
    L->abandon = 1;
  } else {
    dbh_t h2;
    mm_t mm;
    if (snap_diff(&before, &after, ignore_info, diff, sizeof(diff)) > 0) {
      lv("source-changed-by-backup", "ldb_copy changed the closed source %s: %s", D->base, diff);
      L->abandon = 1;
    }
    dbh_init(&h2, to, &D->h.cfg);
    rc = dbh_open(&h2, 0);
    if (rc != LDB_OK) {
      lv("backup-not-openable", "copy of the closed database %s does not open: %d (%s)", D->base, rc, ldb_strerror(rc));
      L->abandon = 1;
    } else {
      check_equal(h2.db, &D->m, D->m.version, &mm);
      if (mm.n > 0) {
        lv("backup-contents-differ", "copy of the closed database %s: %d mismatches: %s", D->base, mm.n, mm.first);
        L->abandon = 1;
      }
    }
    dbh_destroy(&h2);
    vh_distinct("c20_state", "lock|closed|copy");
  }
  snap_free(&before);
  snap_free(&after);
  rm_rf(to);
  lk_event(D, "copy");
  if (!L->abandon) lk_open(L, D);   /* the source lock must be free again */
}

static void lk_destroy_closed(lk_t *L, ldbs_t *D) {
  int rc = ldb_destroy(D->dir, ldb_dbopt_default);
  size_t i;
  vh_count("destroys_of_closed_db", 1);
  if (rc != LDB_OK) {
    lv("destroy-failed", "ldb_destroy of the closed database %s returned %d (%s); previous event: %s", D->base, rc, ldb_strerror(rc), D->last_event);
    L->abandon = 1;
    return;
  }
  if (path_exists(D->dir)) {
    dirsnap_t s;
    snap_take(&s, D->dir);
    lv("destroy-left-owned-file", "after ldb_destroy the directory %s still exists with %zu entries (first: %s)", D->base, s.n,
       s.n ? s.e[0].rel : "-");
    snap_free(&s);
    L->abandon = 1;
    return;
  }
  for (i = 0; i < D->m.nrows; i++) if (m_live(&D->m, (int)i, D->m.version)) m_del(&D->m, (int)i);
  D->exists = 0;
  lk_event(D, "destroy");
  vh_distinct("c20_state", "lock|closed|destroy");
}

static void lock_case(int caseidx) {
  lk_t *L = calloc(1, sizeof(lk_t));
  int steps, i, nrefused = 0;
  double t0 = vh_now();
  vr_seed(&L->r, g_seed * 1000003ULL + (uint64_t)caseidx * 7919ULL + 11);
  snprintf(L->cdir, sizeof(L->cdir), "%s/lock-%d", g_base, caseidx);
  rm_rf(L->cdir);
  mk_dir(L->cdir);
  iom_trace_reset();
  iom_clear_roots();
  iom_fault_clear();
  L->ndb = 1 + (int)vr_uniform(&L->r, 2);
  for (i = 0; i < L->ndb; i++) {
    ldbs_t *D = &L->d[i];
    cfg_t cfg;
    cfg_random(&cfg, &L->r);
    snprintf(D->parent, sizeof(D->parent), "%s", L->cdir);
    snprintf(D->base, sizeof(D->base), "db%d", i);
    snprintf(D->dir, sizeof(D->dir), "%s/%s", D->parent, D->base);
    iom_add_root(D->dir);
    dbh_init(&D->h, D->dir, &cfg);
    m_init(&D->m, cfg.cmp_kind);
    universe_generate(&D->m, &L->r, 10 + (int)vr_uniform(&L->r, 30));
    lk_event(D, "none");
  }
  steps = 20 + (int)vr_uniform(&L->r, 181);
  for (g_step = 0; g_step < steps && !L->abandon; g_step++) {
    ldbs_t *D = &L->d[vr_uniform(&L->r, (uint32_t)L->ndb)];
    uint32_t c = vr_uniform(&L->r, 100);
    double ts = vh_now();
    if (D->is_open) {
      if (c < 18) { lk_write_some(L, D, 1 + (int)vr_uniform(&L->r, 5)); tacc(0, "write", ts); }
      else if (c < 21) { if (ldb_test_compact_memtable(D->h.db) != LDB_OK) lv("write-failed", "flush failed"); tacc(1, "flush", ts); }
      else if (c < 30) { lk_second_open(L, D, 0); tacc(2, "second-open-same", ts); }
      else if (c < 39) { lk_second_open(L, D, 1); tacc(3, "second-open-relative", ts); }
      else if (c < 48) { lk_second_open(L, D, 2); tacc(4, "second-open-decorated", ts); }
      else if (c < 57) { lk_second_open(L, D, 3); tacc(5, "second-open-symlink", ts); }
      else if (c < 60) { lk_fork_child(L, D); tacc(6, "fork-child", ts); }
      else if (c < 68) { lk_helper(L, D); tacc(7, "other-process(open)", ts); }
      else if (c < 73) { lk_copy_destroy_open(L, D, 0); tacc(8, "copy-open", ts); }
      else if (c < 78) { lk_copy_destroy_open(L, D, 1); tacc(9, "destroy-open", ts); }
      else if (c < 82) { lk_backup_existing(L, D); tacc(10, "backup-existing", ts); }
      else if (c < 85) { lk_verify_first(L, D, "nothing"); tacc(11, "verify", ts); }
      else { lk_close(L, D); tacc(12, "close", ts); }
      nrefused += D->refusals_since_open > 0;
    } else {
      if (!D->exists) {
        if (c < 20) { lk_failed_open(L, D, FO_MISSING); tacc(13, "failed-open-missing", ts); }
        else { lk_open(L, D); tacc(14, "open", ts); }
      } else if (c < 30) { lk_open(L, D); tacc(14, "open", ts); }
      else if (c < 40) { lk_failed_open(L, D, FO_CMP); tacc(15, "failed-open-cmp", ts); }
      else if (c < 49) { lk_failed_open(L, D, FO_EXISTS); tacc(16, "failed-open-exists", ts); }
      else if (c < 54) { lk_failed_open(L, D, FO_MISSING); tacc(13, "failed-open-missing", ts); }
      else if (c < 66) { lk_failed_open(L, D, FO_CURRENT); tacc(17, "failed-open-current", ts); }
      else if (c < 78) { lk_failed_open(L, D, FO_IO); tacc(18, "failed-open-io", ts); }
      else if (c < 86) { lk_helper(L, D); tacc(19, "other-process(closed)", ts); }
      else if (c < 93) { lk_copy_closed(L, D); tacc(20, "copy-closed", ts); }
      else { lk_destroy_closed(L, D); tacc(21, "destroy-closed", ts); }
    }
  }
  /* epilogue: every database closes, reopens with its contents, closes */
  for (i = 0; i < L->ndb && !L->abandon; i++) {
    ldbs_t *D = &L->d[i];
    if (D->is_open) lk_close(L, D);
    if (D->exists) { lk_open(L, D); if (D->is_open) lk_close(L, D); }
  }
  vh_count("cases", 1);
  vh_count("steps", (uint64_t)g_step);
  if (caseidx % 16 == 0 || L->abandon)
    vh_sample("C20", "lock case %d seed %llu: %d databases, %d steps%s, wall=%.2fs", caseidx, (unsigned long long)g_seed,
              L->ndb, g_step, L->abandon ? " (abandoned after a violation)" : "", vh_now() - t0);
  for (i = 0; i < L->ndb; i++) {
    dbh_destroy(&L->d[i].h);
    m_free(&L->d[i].m);
  }
  iom_fault_clear();
  iom_clear_roots();
  rm_rf(L->cdir);
  free(L);
}

/* ================================================================== */
/* mode backup */

#define BK_MAXCP 2
#define COPY_VID_BASE (1ULL << 60)

typedef struct bkcopy_s {
  dbh_t h;
  model_t m;
  char dir[700];
  char state[40];
  uint64_t src_vid_mark;   /* highest value id the source had handed out when the backup was taken */
} bkcopy_t;

typedef struct bk_s {
  dbh_t h;
  model_t m;
  vrng_t r;
  int caseidx, steps;
  char cdir[700], src[700];
  uint64_t next_vid, next_cvid;
  uint8_t *vbuf;
  bkcopy_t *cp[BK_MAXCP];
  int ncp;
  int serial;
  int abandon;
  int writes_since_flush;
  int flushes, compactions, backups, failed_backups, nontrivial;
} bk_t;

#define BK_MAXVAL (70 << 10)

static void bk_expect_ok(bk_t *B, int rc, const char *what) {
  if (rc != LDB_OK) {
    lv("source-unusable", "%s on the source returned %d (%s) after %d backups", what, rc, ldb_strerror(rc), B->backups);
    B->abandon = 1;
  }
}

static void bk_put(bk_t *B, dbh_t *h, model_t *m, int row, uint32_t vlen, uint64_t vid) {
  ldb_slice_t k = mrow_key(m, row), v;
  int rc;
  vh_fill_value(B->vbuf, vlen, vid);
  v = ldb_slice(B->vbuf, vlen);
  rc = ldb_put(h->db, &k, &v, NULL);
  if (rc == LDB_OK) m_put(m, row, vid, vlen);
  else bk_expect_ok(B, rc, "put");
}

static uint64_t bk_vid(bk_t *B) { return (B->next_vid += 2) | (vr_next(&B->r) & 1); }
static uint64_t bk_cvid(bk_t *B) { return COPY_VID_BASE | ((B->next_cvid += 2) | (vr_next(&B->r) & 1)); }

static void bk_history_step(bk_t *B) {
  uint32_t c = vr_uniform(&B->r, 1000);
  int row = (int)vr_uniform(&B->r, (uint32_t)B->m.nrows);
  if (c < 520) {
    uint32_t vlen = value_len_random(&B->r, 0);
    if (vlen > BK_MAXVAL) vlen = BK_MAXVAL;
    bk_put(B, &B->h, &B->m, row, vlen, bk_vid(B));
    B->writes_since_flush++;
  } else if (c < 640) {
    ldb_slice_t k = mrow_key(&B->m, row);
    int rc = ldb_del(B->h.db, &k, NULL);
    if (rc == LDB_OK) m_del(&B->m, row); else bk_expect_ok(B, rc, "del");
    B->writes_since_flush++;
  } else if (c < 740) {
    ldb_batch_t *b = ldb_batch_create();
    int n = 1 + (int)vr_uniform(&B->r, 12), i, rc;
    struct { int row, del; uint64_t vid; uint32_t vlen; } ups[12];
    for (i = 0; i < n; i++) {
      ldb_slice_t k, v;
      ups[i].row = (int)vr_uniform(&B->r, (uint32_t)B->m.nrows);
      k = mrow_key(&B->m, ups[i].row);
      ups[i].del = vr_chance(&B->r, 200);
      if (ups[i].del) { ldb_batch_del(b, &k); continue; }
      ups[i].vlen = vr_uniform(&B->r, 6000);
      ups[i].vid = bk_vid(B);
      vh_fill_value(B->vbuf, ups[i].vlen, ups[i].vid);
      v = ldb_slice(B->vbuf, ups[i].vlen);
      ldb_batch_put(b, &k, &v);
    }
    rc = ldb_write(B->h.db, b, NULL);
    if (rc == LDB_OK) {
      for (i = 0; i < n; i++) {
        if (ups[i].del) m_del(&B->m, ups[i].row); else m_put(&B->m, ups[i].row, ups[i].vid, ups[i].vlen);
      }
    } else bk_expect_ok(B, rc, "write(batch)");
    ldb_batch_destroy(b);
    B->writes_since_flush += n;
  } else if (c < 900) {
    ldb_slice_t k = mrow_key(&B->m, row), v;
    const mver_t *e = m_get(&B->m, row, B->m.version);
    int rc = ldb_get(B->h.db, &k, &v, NULL);
    int want = e != NULL && e->present;
    if ((rc == LDB_OK) != want || (rc != LDB_OK && rc != LDB_NOTFOUND) || (rc == LDB_OK && !val_ok(e, v.data, v.size))) {
      lv(B->backups ? "source-changed-by-backup" : "source-get-wrong", "get('%s') on the source: rc=%d, expected %s (after %d backups)",
         vh_esc(k.data, k.size), rc, want ? "a value" : "absent", B->backups);
      B->abandon = 1;
    }
    if (rc == LDB_OK) ldb_free(v.data);
  } else if (c < 940) {
    bk_expect_ok(B, ldb_test_compact_memtable(B->h.db), "flush");
    B->flushes++;
    B->writes_since_flush = 0;
  } else if (c < 990) {
    int level = (int)vr_uniform(&B->r, 5);
    ldb_test_compact_range(B->h.db, level, NULL, NULL);
    B->compactions++;
  } else {
    ldb_compact(B->h.db, NULL, NULL);
    B->compactions++;
    B->writes_since_flush = 0;
  }
}

static void bk_source_check(bk_t *B, const char *when) {
  mm_t mm;
  check_equal(B->h.db, &B->m, B->m.version, &mm);
  if (mm.n > 0) {
    const char *key = "source-changed-by-backup";
    if (mm.have_vid && (mm.got_vid & COPY_VID_BASE)) key = "source-sees-backup-writes";
    else if (B->backups == 0) key = "source-contents-wrong";
    lv(key, "%s: the source disagrees with its model after %d backups (%d mismatches): %s", when, B->backups, mm.n, mm.first);
    B->abandon = 1;
  }
}

static void bk_copy_check(bk_t *B, bkcopy_t *C, const char *when) {
  mm_t mm;
  check_equal(C->h.db, &C->m, C->m.version, &mm);
  if (mm.n > 0) {
    const char *key = "backup-contents-differ";
    /* a value the source wrote after this backup was taken? */
    if (mm.have_vid && !(mm.got_vid & COPY_VID_BASE) && (mm.got_vid & ~1ULL) > C->src_vid_mark) key = "backup-sees-later-source-writes";
    lv(key, "%s: backup taken in state '%s' (%s) disagrees with the model of that moment (%d mismatches): %s", when, C->state,
       C->dir, mm.n, mm.first);
    B->abandon = 1;
  }
}

static void bk_copy_drop(bk_t *B, int i) {
  bkcopy_t *C = B->cp[i];
  dbh_destroy(&C->h);
  m_free(&C->m);
  rm_rf(C->dir);
  free(C);
  memmove(&B->cp[i], &B->cp[i + 1], (size_t)(B->ncp - i - 1) * sizeof(bkcopy_t *));
  B->ncp--;
}

/* after ldb_backup returned OK: open the copy beside the open source and compare */
static void bk_verify_new_copy(bk_t *B, const char *target, const char *state, uint64_t ver, uint64_t vid_mark) {
  bkcopy_t *C = calloc(1, sizeof(bkcopy_t));
  int rc, keep;
  C->src_vid_mark = vid_mark;
  snprintf(C->dir, sizeof(C->dir), "%s", target);
  snprintf(C->state, sizeof(C->state), "%s", state);
  model_clone(&B->m, ver, &C->m);
  {
    cfg_t cc = B->h.cfg;
    if (vr_chance(&B->r, 400)) cfg_mutate_reopen(&cc, &B->r);
    if (cc.write_buffer_size > (256 << 10)) cc.write_buffer_size = 256 << 10;
    dbh_init(&C->h, C->dir, &cc);
  }
  rc = dbh_open(&C->h, 0);
  if (rc != LDB_OK) {
    lv("backup-not-openable", "backup taken in state '%s' does not open (source still open): %d (%s)", state, rc, ldb_strerror(rc));
    B->abandon = 1;
    dbh_destroy(&C->h);
    m_free(&C->m);
    free(C);
    return;
  }
  bk_copy_check(B, C, "right after the backup");
  vh_count("backups_verified", 1);
  if (!B->abandon && vr_chance(&B->r, 600)) {
    /* independence: different keys into the copy and into the source, flush + compact both */
    int n = 2 + (int)vr_uniform(&B->r, 6), i;
    for (i = 0; i < n && !B->abandon; i++) {
      int row = (int)vr_uniform(&B->r, (uint32_t)B->m.nrows);
      if (vr_chance(&B->r, 250)) {
        ldb_slice_t k = mrow_key(&C->m, row);
        if (ldb_del(C->h.db, &k, NULL) == LDB_OK) m_del(&C->m, row);
      } else {
        bk_put(B, &C->h, &C->m, row, 16 + vr_uniform(&B->r, 3000), bk_cvid(B));
      }
      row = (int)vr_uniform(&B->r, (uint32_t)B->m.nrows);
      bk_put(B, &B->h, &B->m, row, 16 + vr_uniform(&B->r, 3000), bk_vid(B));
    }
    bk_expect_ok(B, ldb_test_compact_memtable(C->h.db), "flush(copy)");
    bk_expect_ok(B, ldb_test_compact_memtable(B->h.db), "flush(source)");
    if (vr_chance(&B->r, 500)) {
      ldb_compact(C->h.db, NULL, NULL);
      ldb_compact(B->h.db, NULL, NULL);
    } else {
      ldb_test_compact_range(C->h.db, 0, NULL, NULL);
      ldb_test_compact_range(B->h.db, 0, NULL, NULL);
    }
    B->flushes++; B->compactions++; B->writes_since_flush = 0;
    if (!B->abandon) bk_copy_check(B, C, "after later writes to both sides");
    if (!B->abandon) bk_source_check(B, "after writes into a backup");
    vh_count("cross_write_checks", 1);
  }
  keep = !B->abandon && B->ncp < BK_MAXCP && vr_chance(&B->r, 600);
  if (!B->abandon && vr_chance(&B->r, 400)) {
    /* the backup is a database in its own right: close, reopen, compare */
    dbh_close(&C->h);
    rc = dbh_open(&C->h, 0);
    if (rc != LDB_OK) {
      lv("backup-not-openable", "backup (state '%s') does not reopen: %d (%s)", C->state, rc, ldb_strerror(rc));
      B->abandon = 1;
      keep = 0;
    } else {
      bk_copy_check(B, C, "after reopening the backup");
    }
  }
  if (keep && !B->abandon) {
    B->cp[B->ncp++] = C;
  } else {
    dbh_destroy(&C->h);
    m_free(&C->m);
    rm_rf(C->dir);
    free(C);
  }
}

typedef struct bkthr_s { ldb_t *db; const char *target; int kind, level, rc, done; } bkthr_t;

static void *bk_thread(void *arg) {
  bkthr_t *t = arg;
  switch (t->kind) {
    case 0: t->rc = ldb_backup(t->db, t->target); break;
    case 1: t->rc = ldb_test_compact_memtable(t->db); break;
    case 2: ldb_compact(t->db, NULL, NULL); t->rc = LDB_OK; break;
    default: ldb_test_compact_range(t->db, t->level, NULL, NULL); t->rc = LDB_OK; break;
  }
  __atomic_store_n(&t->done, 1, __ATOMIC_RELEASE);
  return NULL;
}

enum { BS_ASIS, BS_IMM, BS_IMM_GATED, BS_COMPACT, BS_FAULT, BS_KINDS };

static void bk_backup(bk_t *B, int how) {
  char target[800], state[40], sig[64];
  int ntables, levels, rc = LDB_OK, check_src = 0;
  uint64_t ver, mark;
  dirsnap_t before, after;
  char diff[900];
  snprintf(target, sizeof(target), "%s/bk-%d", B->cdir, B->serial++);

  if (how == BS_IMM) {
    /* write past the write buffer; the moment a new log file appears the old memtable
       has become immutable - back up immediately */
    uint64_t logs0 = iom_count(IOP_CREATE, PC_LOG), syncs0;
    int guard = 0;
    iom_slow(IOP_CREATE, PC_TABLE, 1500);
    while (iom_count(IOP_CREATE, PC_LOG) == logs0 && guard++ < 400 && !B->abandon)
      bk_put(B, &B->h, &B->m, (int)vr_uniform(&B->r, (uint32_t)B->m.nrows), 3000 + vr_uniform(&B->r, 6000), bk_vid(B));
    syncs0 = iom_count(IOP_FSYNC, PC_TABLE);
    ver = B->m.version; mark = B->next_vid;
    rc = ldb_backup(B->h.db, target);
    if (iom_count(IOP_FSYNC, PC_TABLE) > syncs0) vh_count("backups_imm_pending_flush_finished_inside_backup", 1);
    iom_slow_clear();
    snprintf(state, sizeof(state), "imm-pending");
    B->writes_since_flush = 0;
  } else if (how == BS_IMM_GATED || how == BS_COMPACT) {
    /* park the background thread inside the MANIFEST update of a flush / compaction
       (mutex released there) and call ldb_backup meanwhile: it has to wait */
    pthread_t ta, tb;
    bkthr_t A, Bt;
    int gated = how == BS_IMM_GATED || vr_chance(&B->r, 600), g = -1, reached = 0;
    memset(&A, 0, sizeof(A)); memset(&Bt, 0, sizeof(Bt));
    A.db = B->h.db;
    if (how == BS_IMM_GATED) {
      if (B->writes_since_flush == 0) bk_put(B, &B->h, &B->m, 0, 100, bk_vid(B));
      A.kind = 1;
    } else {
      A.kind = vr_chance(&B->r, 500) ? 2 : 3;
      A.level = (int)vr_uniform(&B->r, 3);
    }
    ver = B->m.version; mark = B->next_vid;
    if (gated) g = iom_gate_arm(IOP_FSYNC, PC_MANIFEST, 1);
    pthread_create(&ta, NULL, bk_thread, &A);
    if (gated) {
      while (!(reached = iom_gate_reached(g)) && !__atomic_load_n(&A.done, __ATOMIC_ACQUIRE)) usleep(100);
      if (!reached) reached = iom_gate_reached(g);
    } else if (vr_chance(&B->r, 500)) {
      usleep(vr_uniform(&B->r, 800));
    }
    Bt.db = B->h.db; Bt.target = target; Bt.kind = 0;
    pthread_create(&tb, NULL, bk_thread, &Bt);
    if (gated) {
      if (reached) usleep(2000);   /* gives a non-waiting backup the time to copy a half-installed state */
      iom_gate_clear();
    }
    pthread_join(tb, NULL);
    pthread_join(ta, NULL);
    rc = Bt.rc;
    if (how == BS_IMM_GATED) {
      bk_expect_ok(B, A.rc, "flush (gated)");
      snprintf(state, sizeof(state), reached ? "imm-pending-gated" : "imm-pending");
      B->flushes++;
      B->writes_since_flush = 0;
    } else {
      snprintf(state, sizeof(state), reached ? "during-compaction-gated" : "during-compaction");
      B->compactions++;
    }
    if (reached) vh_count("backups_with_background_thread_parked_in_manifest_update", 1);
  } else {
    if (how == BS_ASIS && vr_chance(&B->r, 500)) {
      ldb_verif_wait_idle(B->h.db);
      snap_take(&before, B->src);
      check_src = 1;
    }
    db_shape(B->h.db, &ntables, &levels, sig, sizeof(sig));
    snprintf(state, sizeof(state), "%s", ntables == 0 ? "memtable-only" : levels >= 2 ? "multi-level" : "one-level");
    ver = B->m.version; mark = B->next_vid;
    if (how == BS_FAULT) {
      /* a failure somewhere inside the backup: nothing may be left behind */
      static const int errs[] = {EIO, ENOSPC, EMFILE, EACCES, EDQUOT};
      int err = errs[vr_uniform(&B->r, 5)], fk = (int)vr_uniform(&B->r, 9), relaxed = 0;
      const char *fname;
      uint64_t fired0;
      ldb_verif_wait_idle(B->h.db);
      iom_clear_roots();
      iom_add_root(B->src);
      iom_add_root(target);
      iom_fault_clear();
      fired0 = iom_fault_fired();
      switch (fk) {
        case 0: iom_fault_add(IOP_MKDIR, PC_DIR, 1, err, 0, IOF_CLEAN); fname = "mkdir"; break;
        case 1: iom_fault_add(IOP_CREATE, PC_LOCK, 1, err, 0, IOF_CLEAN); fname = "create-lock"; break;
        case 2: iom_fault_add(IOP_CREATE, vr_chance(&B->r, 500) ? PC_LOG : PC_MANIFEST, 1, err, 0, IOF_CLEAN); fname = "create-copy"; break;
        case 3: iom_fault_add(IOP_CREATE, PC_CURRENT, 1, err, 0, IOF_CLEAN); fname = "create-current"; break;
        case 4: iom_fault_add(IOP_WRITE, vr_chance(&B->r, 500) ? PC_LOG : PC_MANIFEST, 1, err, 0, vr_chance(&B->r, 500) ? IOF_SHORT : IOF_CLEAN); fname = "write"; break;
        case 5: iom_fault_add(IOP_LINK, PC_TABLE, 1 + vr_uniform(&B->r, (uint32_t)(ntables > 0 ? ntables : 1)), err, 0, IOF_CLEAN); fname = "link"; break;
        case 6: iom_fault_add(IOP_FSYNC, vr_chance(&B->r, 500) ? PC_MANIFEST : PC_CURRENT, 1, err, 0, IOF_CLEAN); fname = "fsync-file"; break;
        case 7: iom_fault_add(IOP_READ, PC_MANIFEST, 1, err, 0, IOF_CLEAN); fname = "read-source"; break;
        default: iom_fault_add(IOP_FSYNC, PC_DIR, 1, err, 0, IOF_CLEAN); fname = "fsync-dir"; relaxed = 1; break;
      }
      rc = ldb_backup(B->h.db, target);
      iom_fault_clear();
      iom_clear_roots();
      iom_add_root(B->src);
      vh_count("backup_fault_attempts", 1);
      if (iom_fault_fired() == fired0) {
        vh_count("backup_fault_not_fired", 1);
      } else if (rc == LDB_OK) {
        lv("failed-backup-reported-ok", "ldb_backup returned OK although a %s failure (errno %d) was injected", fname, err);
        B->abandon = 1;
        return;
      } else {
        dirsnap_t t;
        char cname[64];
        snap_take(&t, target);
        B->failed_backups++;
        snprintf(cname, sizeof(cname), "failed_backups_%s", fname);
        vh_count(cname, 1);
        vh_distinct("c20_state", "backup|%s|failed-backup-%s", state, fname);
        if (t.exists && relaxed) {
          /* the directory sync at the very end failed: everything had been copied; the
             code keeps the directory.  Accept iff it is a complete backup. */
          vh_count("failed_backup_dirsync_left_complete_copy", 1);
          snap_free(&t);
          snprintf(state, sizeof(state), "after-dirsync-failure");
          bk_verify_new_copy(B, target, state, ver, mark);
          if (!B->abandon) bk_source_check(B, "after a failed backup");
          return;
        }
        if (t.exists && t.n > 0) {
          lv("failed-backup-left-partial-target", "ldb_backup failed (%s, errno %d, rc=%d) and left %zu entries in the target (first: %s)",
             fname, err, rc, t.n, t.e[0].rel);
          B->abandon = 1;
        } else if (t.exists) {
          vh_count("failed_backup_left_empty_dir", 1);
          rm_rf(target);
        }
        snap_free(&t);
        if (!B->abandon) bk_source_check(B, "after a failed backup");
        if (B->abandon) return;
        /* the retry into the same path must now succeed */
        snprintf(state, sizeof(state), "retry-after-failure");
        rc = ldb_backup(B->h.db, target);
      }
    } else {
      rc = ldb_backup(B->h.db, target);
    }
    if (check_src) {
      snap_take(&after, B->src);
      if (snap_diff(&before, &after, NULL, diff, sizeof(diff)) > 0) {
        lv("source-changed-by-backup", "ldb_backup (state %s) changed files of the idle source: %s", state, diff);
        B->abandon = 1;
      }
      snap_free(&before);
      snap_free(&after);
      vh_count("source_dir_unchanged_checks", 1);
    }
  }
  if (B->abandon) return;
  B->backups++;
  vh_count("backups", 1);
  {
    char cname[80];
    snprintf(cname, sizeof(cname), "backups_state_%s", state);
    vh_count(cname, 1);
  }
  db_shape(B->h.db, &ntables, &levels, sig, sizeof(sig));
  vh_distinct("c20_state", "backup|%s|L%d|mem%d", state, levels, B->writes_since_flush > 0);
  if (how == BS_ASIS && B->writes_since_flush > 0 && levels >= 2) { B->nontrivial++; vh_count("backups_mem_and_multilevel", 1); }
  if (rc != LDB_OK) {
    lv("backup-failed", "ldb_backup in state '%s' (layout %s) returned %d (%s)", state, sig, rc, ldb_strerror(rc));
    B->abandon = 1;
    return;
  }
  bk_verify_new_copy(B, target, state, ver, mark);
}

static void backup_case(int caseidx) {
  bk_t *B = calloc(1, sizeof(bk_t));
  cfg_t cfg;
  int rc, i, early;
  static const size_t wbs[] = {64 << 10, 64 << 10, 128 << 10, 256 << 10};
  double t0 = vh_now();
  B->caseidx = caseidx;
  vr_seed(&B->r, g_seed * 1000003ULL + (uint64_t)caseidx * 7919ULL + 22);
  snprintf(B->cdir, sizeof(B->cdir), "%s/backup-%d", g_base, caseidx);
  snprintf(B->src, sizeof(B->src), "%s/src", B->cdir);
  rm_rf(B->cdir);
  mk_dir(B->cdir);
  cfg_random(&cfg, &B->r);
  cfg.write_buffer_size = wbs[vr_uniform(&B->r, 4)];
  cfg.max_file_size = 1 << 20;
  iom_trace_reset();
  iom_clear_roots();
  iom_fault_clear();
  iom_gate_clear();
  iom_slow_clear();
  iom_add_root(B->src);
  m_init(&B->m, cfg.cmp_kind);
  universe_generate(&B->m, &B->r, 40 + (int)vr_uniform(&B->r, 260));
  B->vbuf = malloc(BK_MAXVAL + 16);
  dbh_init(&B->h, B->src, &cfg);
  rc = dbh_open(&B->h, 1);
  if (rc != LDB_OK) vh_fatal("backup case %d: cannot create the source: %d", caseidx, rc);
  B->steps = 100 + (int)vr_uniform(&B->r, 501);
  early = vr_chance(&B->r, 700) ? 2 + (int)vr_uniform(&B->r, 10) : -1;
  for (g_step = 0; g_step < B->steps && !B->abandon; g_step++) {
    if (g_step == early && B->flushes == 0) {
      /* data only in the memtable (small values so that no switch happened yet) */
      int n = 1 + (int)vr_uniform(&B->r, 8);
      for (i = 0; i < n; i++) bk_put(B, &B->h, &B->m, (int)vr_uniform(&B->r, (uint32_t)B->m.nrows), vr_uniform(&B->r, 300), bk_vid(B));
      B->writes_since_flush += n;
      bk_backup(B, vr_chance(&B->r, 850) ? BS_ASIS : BS_FAULT);
      continue;
    }
    if (vr_chance(&B->r, 22)) {
      uint32_t k = vr_uniform(&B->r, 100);
      bk_backup(B, k < 40 ? BS_ASIS : k < 52 ? BS_IMM : k < 66 ? BS_IMM_GATED : k < 82 ? BS_COMPACT : BS_FAULT);
      /* every now and then a kept copy is checked again while the source has moved on */
      if (!B->abandon && B->ncp > 0 && vr_chance(&B->r, 500))
        bk_copy_check(B, B->cp[vr_uniform(&B->r, (uint32_t)B->ncp)], "later, the source moved on");
      if (!B->abandon && B->ncp == BK_MAXCP && vr_chance(&B->r, 500)) bk_copy_drop(B, 0);
    } else {
      bk_history_step(B);
    }
    if (g_step % 100 == 99 && !B->abandon) bk_source_check(B, "periodic");
  }
  if (!B->abandon && B->backups == 0) bk_backup(B, BS_ASIS);
  /* epilogue */
  if (!B->abandon) bk_source_check(B, "final");
  while (B->ncp > 0) {
    if (!B->abandon) bk_copy_check(B, B->cp[0], "final, later than all source writes");
    bk_copy_drop(B, 0);
  }
  dbh_close(&B->h);
  if (!B->abandon) {
    /* ldb_copy of the closed source */
    char dst[800], diff[900];
    dirsnap_t before, after;
    dbh_t h2;
    mm_t mm;
    model_t cm;
    int have_cm = 0, have_h2 = 0;
    snprintf(dst, sizeof(dst), "%s/final-copy", B->cdir);
    snap_take(&before, B->src);
    rc = ldb_copy(B->src, dst, ldb_dbopt_default);
    snap_take(&after, B->src);
    vh_count("copies_of_closed_db", 1);
    if (rc != LDB_OK) {
      lv("backup-failed", "ldb_copy of the closed source returned %d (%s)", rc, ldb_strerror(rc));
    } else {
      if (snap_diff(&before, &after, NULL, diff, sizeof(diff)) > 0)
        lv("source-changed-by-backup", "ldb_copy changed the closed source: %s", diff);
      dbh_init(&h2, dst, &cfg);
      have_h2 = 1;
      rc = dbh_open(&h2, 0);
      if (rc != LDB_OK) lv("backup-not-openable", "ldb_copy of the closed source does not open: %d (%s)", rc, ldb_strerror(rc));
      else {
        check_equal(h2.db, &B->m, B->m.version, &mm);
        if (mm.n > 0) lv("backup-contents-differ", "ldb_copy of the closed source: %d mismatches: %s", mm.n, mm.first);
        else {
          /* independence of the copy: write into it (values the source never had), close it; the source, opened
             afterwards, must know nothing of them - and the copy, opened once more after the source has been
             written to, nothing of the source's later writes (whatever reuse_logs says on either side) */
          int n = 3 + (int)vr_uniform(&B->r, 6);
          model_clone(&B->m, B->m.version, &cm);
          have_cm = 1;
          for (i = 0; i < n; i++) bk_put(B, &h2, &cm, (int)vr_uniform(&B->r, (uint32_t)cm.nrows), 16 + vr_uniform(&B->r, 2000), bk_cvid(B));
          if (vr_chance(&B->r, 400)) ldb_test_compact_memtable(h2.db);
          vh_count("copies_written_to_for_independence", 1);
        }
      }
      dbh_close(&h2);
      vh_distinct("c20_state", "backup|closed|copy");
    }
    snap_free(&before);
    snap_free(&after);
    /* and the source is still a usable database */
    rc = dbh_open(&B->h, 0);
    if (rc != LDB_OK) lv("source-unusable", "the source does not reopen after ldb_copy: %d (%s)", rc, ldb_strerror(rc));
    else {
      bk_source_check(B, "after reopening the source (the copy had been written to meanwhile)");
      if (have_cm && !B->abandon) {
        int n = 3 + (int)vr_uniform(&B->r, 6);
        for (i = 0; i < n; i++) bk_put(B, &B->h, &B->m, (int)vr_uniform(&B->r, (uint32_t)B->m.nrows), 16 + vr_uniform(&B->r, 2000), bk_vid(B));
        if (vr_chance(&B->r, 400)) ldb_test_compact_memtable(B->h.db);
        dbh_close(&B->h);
        rc = dbh_open(&h2, 0);
        if (rc != LDB_OK) lv("backup-not-openable", "the copy made by ldb_copy does not reopen after the source was written to: %d (%s)", rc, ldb_strerror(rc));
        else {
          check_equal(h2.db, &cm, cm.version, &mm);
          if (mm.n > 0) lv("copy-not-independent", "the copy made by ldb_copy changed after later writes to the source: %d mismatches: %s", mm.n, mm.first);
          dbh_close(&h2);
        }
        rc = dbh_open(&B->h, 0);
        if (rc != LDB_OK) lv("source-unusable", "the source does not reopen at the end: %d (%s)", rc, ldb_strerror(rc));
        else bk_source_check(B, "at the very end");
      }
    }
    if (have_h2) dbh_destroy(&h2);
    if (have_cm) m_free(&cm);
  }
  vh_count("cases", 1);
  vh_count("steps", (uint64_t)g_step);
  vh_count("flushes", (uint64_t)B->flushes);
  vh_count("manual_compactions", (uint64_t)B->compactions);
  vh_count("engine_compactions", B->h.log.compacting);
  if (B->nontrivial > 0) vh_count("cases_with_nontrivial_backup", 1);
  if (caseidx % 16 == 0 || B->abandon)
    vh_sample("C20", "backup case %d seed %llu: cfg=%s keys=%zu steps=%d backups=%d failed_backups=%d flushes=%d manual_compactions=%d "
              "engine_compactions=%llu%s wall=%.2fs", caseidx, (unsigned long long)g_seed, cfg_id(&cfg), B->m.nrows, g_step,
              B->backups, B->failed_backups, B->flushes, B->compactions, (unsigned long long)B->h.log.compacting,
              B->abandon ? " (abandoned after a violation)" : "", vh_now() - t0);
  dbh_destroy(&B->h);
  iom_gate_clear();
  iom_slow_clear();
  iom_fault_clear();
  iom_clear_roots();
  rm_rf(B->cdir);
  m_free(&B->m);
  free(B->vbuf);
  free(B);
}

/* ================================================================== */
/* shared: create and fill a small database to one of three shapes, close it */

enum { FILL_EMPTY, FILL_MEM, FILL_FLUSHED, FILL_MULTI, FILL_KINDS };
static const char *fill_names[] = {"empty", "memtable-only", "flushed", "multi-level"};

/* h is initialised and open; writes through it and records into m */
static void fill_db(ldb_t *db, model_t *m, vrng_t *r, int fill, uint64_t *next_vid) {
  static uint8_t vbuf[8192];
  int rounds = fill == FILL_MULTI ? 3 : 1, round, i;
  if (fill == FILL_EMPTY) return;
  for (round = 0; round < rounds; round++) {
    int n = 5 + (int)vr_uniform(r, 40);
    for (i = 0; i < n; i++) {
      int row = (int)vr_uniform(r, (uint32_t)m->nrows);
      ldb_slice_t k = mrow_key(m, row), v;
      if (vr_chance(r, 150)) {
        if (ldb_del(db, &k, NULL) != LDB_OK) vh_fatal("fill: del failed");
        m_del(m, row);
      } else {
        uint32_t len = vr_uniform(r, 4) == 0 ? vr_uniform(r, 8000) : vr_uniform(r, 300);
        uint64_t vid = (*next_vid += 2) | (vr_next(r) & 1);
        vh_fill_value(vbuf, len, vid);
        v = ldb_slice(vbuf, len);
        if (ldb_put(db, &k, &v, NULL) != LDB_OK) vh_fatal("fill: put failed");
        m_put(m, row, vid, len);
      }
    }
    if (fill == FILL_FLUSHED || (fill == FILL_MULTI && round < rounds - 1) || (fill == FILL_MULTI && vr_chance(r, 500))) {
      if (ldb_test_compact_memtable(db) != LDB_OK) vh_fatal("fill: flush failed");
      if (fill == FILL_MULTI && round == 0) {
        ldb_test_compact_range(db, 0, NULL, NULL);
        ldb_test_compact_range(db, 1, NULL, NULL);
      }
    }
  }
}

/* ================================================================== */
/* mode destroy */

typedef struct seeded_s {
  char rel[200];
  int owned_name;     /* the name is one lcdb claims (must disappear); otherwise foreign (must survive) */
} seeded_t;

typedef struct ds_s {
  vrng_t r;
  char cdir[700], dir[700];
  seeded_t seeded[64];
  int nseeded;
  int lost_kind;      /* 0 none, 1 foreign only, 2 lcdb-named + foreign without CURRENT, 3 lcdb-named with CURRENT,
                         4 lcdb-named files only (no CURRENT): lost/ itself goes */
} ds_t;

static void ds_note(ds_t *S, const char *rel, int owned) {
  snprintf(S->seeded[S->nseeded].rel, sizeof(S->seeded[0].rel), "%s", rel);
  S->seeded[S->nseeded].owned_name = owned;
  S->nseeded++;
}

static void ds_file(ds_t *S, const char *rel, int owned) {
  char p[1000];
  snprintf(p, sizeof(p), "%s/%s", S->dir, rel);
  write_junk(p, &S->r, vr_uniform(&S->r, 3) == 0 ? 0 : 1 + vr_uniform(&S->r, 3000));
  ds_note(S, rel, owned);
}

static void ds_seed_foreign(ds_t *S, int phase) {
  /* phase 0: before the database is created; 1: after it was closed */
  static const char *names[] = {"notes.txt", "000012.bak", "MANIFEST", "MANIFEST-abc", "12.ldb.tmp", "LOG.old.1",
                                "CURRENT.bak", ".hidden", "MANIFEST-", "000007.ldbx", "LOCK.bak", "x000003.log"};
  char p[1000];
  size_t i;
  for (i = 0; i < sizeof(names) / sizeof(names[0]); i++) {
    if ((int)(i % 2) == phase && vr_chance(&S->r, 800)) ds_file(S, names[i], 0);
  }
  if (phase == 0) {
    if (vr_chance(&S->r, 700)) {
      snprintf(p, sizeof(p), "%s/sub", S->dir); mk_dir(p); ds_note(S, "sub", 0);
      ds_file(S, "sub/000005.ldb", 0);
      ds_file(S, "sub/readme", 0);
      if (vr_chance(&S->r, 500)) ds_file(S, "sub/CURRENT", 0);
    }
    if (vr_chance(&S->r, 700)) {
      snprintf(p, sizeof(p), "%s/outlink", S->dir);
      if (symlink("../outside.txt", p) != 0) vh_fatal("symlink failed");
      ds_note(S, "outlink", 0);
    }
  } else {
    S->lost_kind = (int)vr_uniform(&S->r, 5);
    if (S->lost_kind > 0) {
      snprintf(p, sizeof(p), "%s/lost", S->dir); mk_dir(p);
      if (S->lost_kind != 4) {
        ds_file(S, "lost/foreign.txt", 0);
        if (vr_chance(&S->r, 500)) ds_file(S, "lost/000031.bak", 0);
      }
      if (S->lost_kind >= 2) {
        /* what repair leaves behind: lcdb-named files */
        int keep = S->lost_kind == 3;   /* with a CURRENT inside, destroy must not touch lost/ at all */
        ds_file(S, "lost/000021.ldb", !keep);
        ds_file(S, "lost/000022.log", !keep);
        if (vr_chance(&S->r, 500)) ds_file(S, "lost/MANIFEST-000020", !keep);
        if (vr_chance(&S->r, 500)) ds_file(S, "lost/000023.sst", !keep);
        if (keep) ds_file(S, "lost/CURRENT", 0);
      }
    }
    /* stale files under names the database owns */
    if (vr_chance(&S->r, 500)) ds_file(S, "000900.ldb", 1);
    if (vr_chance(&S->r, 500)) ds_file(S, "000901.sst", 1);
    if (vr_chance(&S->r, 500)) ds_file(S, "000902.dbtmp", 1);
    if (vr_chance(&S->r, 500)) ds_file(S, "000903.log", 1);
    if (vr_chance(&S->r, 300)) ds_file(S, "MANIFEST-000904", 1);
    if (vr_chance(&S->r, 300)) ds_file(S, "LOG.old", 1);
    if (vr_chance(&S->r, 400)) {
      /* an owned NAME that is a symlink to an outside file: the link goes, the file stays */
      snprintf(p, sizeof(p), "%s/000777.ldb", S->dir);
      if (symlink("../outside2.txt", p) != 0) vh_fatal("symlink failed");
      ds_note(S, "000777.ldb", 1);
    }
  }
}

static const seeded_t *ds_seeded(const ds_t *S, const char *rel) {
  int i;
  for (i = 0; i < S->nseeded; i++) if (strcmp(S->seeded[i].rel, rel) == 0) return &S->seeded[i];
  return NULL;
}

static void destroy_case(int caseidx) {
  ds_t *S = calloc(1, sizeof(ds_t));
  dirsnap_t before, after, out_before, out_after;
  char p[1000], diff[900];
  int variant, fill = 0, default_logger = 0, rc, i, foreign_left = 0, nviol0 = vh_nviolations();
  size_t k;
  cfg_t cfg;
  vr_seed(&S->r, g_seed * 1000003ULL + (uint64_t)caseidx * 7919ULL + 33);
  snprintf(S->cdir, sizeof(S->cdir), "%s/destroy-%d", g_base, caseidx);
  snprintf(S->dir, sizeof(S->dir), "%s/db", S->cdir);
  rm_rf(S->cdir);
  mk_dir(S->cdir);
  iom_clear_roots();
  snprintf(p, sizeof(p), "%s/outside.txt", S->cdir); write_junk(p, &S->r, 500);
  snprintf(p, sizeof(p), "%s/outside2.txt", S->cdir); write_junk(p, &S->r, 700);
  cfg_random(&cfg, &S->r);
  /* variant: 0 = directory does not exist, 1 = only foreign files (no database), 2.. = database */
  variant = (int)vr_uniform(&S->r, 12);
  if (variant == 0) {
    /* nothing */
  } else {
    mk_dir(S->dir);
    if (variant == 1 || vr_chance(&S->r, 600)) ds_seed_foreign(S, 0);
    if (variant >= 2) {
      dbh_t h;
      model_t m;
      uint64_t nv = 0;
      fill = (int)vr_uniform(&S->r, FILL_KINDS);
      default_logger = vr_chance(&S->r, 350);
      m_init(&m, cfg.cmp_kind);
      universe_generate(&m, &S->r, 20 + (int)vr_uniform(&S->r, 60));
      if (default_logger) {
        /* LOG and LOG.old are files the database owns */
        xopt_t x;
        ldb_t *db = NULL;
        int round;
        for (round = 0; round < 2; round++) {
          xopt_make(&x, &cfg, cfg.cmp_kind, 1, 0, 0, 1);
          rc = ldb_open(S->dir, &x.o, &db);
          if (rc != LDB_OK) vh_fatal("destroy case %d: cannot create database: %d", caseidx, rc);
          if (round == 0) fill_db(db, &m, &S->r, fill, &nv);
          ldb_close(db);
          xopt_free(&x);
        }
      } else {
        dbh_init(&h, S->dir, &cfg);
        rc = dbh_open(&h, 1);
        if (rc != LDB_OK) vh_fatal("destroy case %d: cannot create database: %d", caseidx, rc);
        fill_db(h.db, &m, &S->r, fill, &nv);
        if (vr_chance(&S->r, 300)) { dbh_close(&h); if (dbh_open(&h, 0) != LDB_OK) vh_fatal("reopen failed"); }
        dbh_destroy(&h);
      }
      m_free(&m);
      ds_seed_foreign(S, 1);
    }
  }
  snap_take(&before, S->dir);
  snap_take(&out_before, S->cdir);
  rc = ldb_destroy(S->dir, ldb_dbopt_default);
  snap_take(&after, S->dir);
  vh_count("destroys", 1);
  if (rc != LDB_OK)
    lv("destroy-failed", "ldb_destroy returned %d (%s); variant=%d fill=%s lost_kind=%d", rc, ldb_strerror(rc), variant,
       fill_names[fill], S->lost_kind);
  /* every entry that existed: foreign -> identical; owned -> gone */
  for (k = 0; k < before.n; k++) {
    const snapent_t *e = &before.e[k], *a = snap_find(&after, e->rel);
    const seeded_t *sd = ds_seeded(S, e->rel);
    int foreign;
    if (strcmp(e->rel, "lost") == 0) continue;   /* the directory itself: see below */
    foreign = sd != NULL && !sd->owned_name;
    if (foreign) {
      foreign_left++;
      vh_count("foreign_entries_checked", 1);
      if (a == NULL)
        lv("destroy-removed-foreign-file", "ldb_destroy removed the foreign entry '%s' (%c, %llu bytes); lost_kind=%d", e->rel, e->kind,
           (unsigned long long)e->size, S->lost_kind);
      else if (a->kind != e->kind || a->size != e->size || a->hash != e->hash)
        lv("destroy-removed-foreign-file", "ldb_destroy altered the foreign entry '%s'", e->rel);
    } else {
      vh_count("owned_entries_checked", 1);
      if (a != NULL)
        lv("destroy-left-owned-file", "after ldb_destroy '%s' (%s) is still there; variant=%d fill=%s lost_kind=%d", e->rel,
           sd ? "seeded under an lcdb name" : "created by the database", variant, fill_names[fill], S->lost_kind);
    }
  }
  for (k = 0; k < after.n; k++)
    if (snap_find(&before, after.e[k].rel) == NULL)
      lv("destroy-left-owned-file", "ldb_destroy created '%s' and left it behind", after.e[k].rel);
  /* lost/: removed exactly when it became empty and had no CURRENT */
  if (S->lost_kind > 0) {
    const snapent_t *l = snap_find(&after, "lost");
    if (l == NULL && S->lost_kind != 4)
      lv("destroy-removed-foreign-file", "ldb_destroy removed the sub-directory lost/ although it holds foreign files (lost_kind=%d)", S->lost_kind);
    if (l != NULL && S->lost_kind == 4)
      lv("destroy-left-owned-file", "lost/ held only lcdb-named files and no CURRENT, yet the (empty) directory is still there");
    vh_distinct("c20_state", "destroy|lost%d|%s", S->lost_kind, fill_names[fill]);
  }
  /* the directory itself: gone iff nothing foreign was in it */
  if (before.exists) {
    if (foreign_left == 0 && (S->lost_kind == 0 || S->lost_kind == 4) && after.exists)
      lv("destroy-left-owned-file", "the database directory still exists after ldb_destroy although nothing foreign was in it (%zu entries)", after.n);
    if ((foreign_left > 0 || (S->lost_kind > 0 && S->lost_kind != 4)) && !after.exists)
      lv("destroy-removed-foreign-file", "the directory with %d foreign entries is gone", foreign_left);
  } else if (after.exists) {
    lv("destroy-left-owned-file", "ldb_destroy of a non-existent directory created it");
  }
  /* nothing outside the directory changed (targets of symlinks!) */
  snap_take(&out_after, S->cdir);
  {
    int nd = 0;
    for (k = 0; k < out_before.n; k++) {
      const snapent_t *e = &out_before.e[k], *a;
      if (strncmp(e->rel, "db/", 3) == 0 || strcmp(e->rel, "db") == 0) continue;
      a = snap_find(&out_after, e->rel);
      if (a == NULL || a->size != e->size || a->hash != e->hash) {
        nd++;
        lv("destroy-removed-foreign-file", "ldb_destroy %s '%s' OUTSIDE the database directory", a ? "altered" : "removed", e->rel);
      }
      vh_count("foreign_entries_checked", 1);
    }
    (void)nd;
  }
  /* a second destroy is a no-op that reports OK */
  {
    dirsnap_t again;
    rc = ldb_destroy(S->dir, ldb_dbopt_default);
    snap_take(&again, S->dir);
    if (rc != LDB_OK) lv("destroy-failed", "second ldb_destroy returned %d (%s)", rc, ldb_strerror(rc));
    if (snap_diff(&after, &again, NULL, diff, sizeof(diff)) > 0)
      lv("destroy-removed-foreign-file", "second ldb_destroy changed the directory: %s", diff);
    snap_free(&again);
    vh_count("destroys", 1);
  }
  /* the place is usable for a new database, foreign files and all */
  if (vh_nviolations() == nviol0 && vr_chance(&S->r, 500)) {
    dbh_t h;
    cfg_t c2;
    cfg_default(&c2);
    dbh_init(&h, S->dir, &c2);
    rc = dbh_open(&h, 1);
    if (rc != LDB_OK) lv("open-after-destroy-failed", "creating a database where one was destroyed returned %d (%s)", rc, ldb_strerror(rc));
    else {
      ldb_slice_t k1 = ldb_string("a"), v;
      if (ldb_get(h.db, &k1, &v, NULL) == LDB_OK) { ldb_free(v.data); lv("destroy-left-owned-file", "the new database is not empty"); }
    }
    dbh_destroy(&h);
    vh_count("recreate_after_destroy", 1);
  }
  vh_count("cases", 1);
  vh_count("steps", 3);
  vh_distinct("c20_state", "destroy|v%d|%s|log%d|foreign%d", variant > 2 ? 2 : variant, fill_names[fill], default_logger, foreign_left > 0);
  if (caseidx % 16 == 0 || vh_nviolations() > nviol0)
    vh_sample("C20", "destroy case %d seed %llu: variant=%d fill=%s default_logger=%d lost_kind=%d entries_before=%zu foreign=%d after=%zu dir_exists_after=%d",
              caseidx, (unsigned long long)g_seed, variant, fill_names[fill], default_logger, S->lost_kind, before.n, foreign_left,
              after.n, after.exists);
  (void)i;
  snap_free(&before); snap_free(&after); snap_free(&out_before); snap_free(&out_after);
  rm_rf(S->cdir);
  free(S);
}

/* ================================================================== */
/* mode cmp */

static int ignore_logs(const char *rel) { return strcmp(rel, "LOG") == 0 || strcmp(rel, "LOG.old") == 0; }

static void cmp_case(int caseidx) {
  vrng_t r;
  char cdir[700], dir[700], diff[900];
  cfg_t cfg;
  model_t m;
  uint64_t nv = 0;
  int A = caseidx % CMP_KINDS, fill = 1 + (caseidx / CMP_KINDS) % 3, default_logger = (caseidx / 9) % 2;
  int rc, b, nviol0 = vh_nviolations();
  ldb_t *db = NULL;
  xopt_t x;
  dirsnap_t before, after;
  mm_t mm;
  vr_seed(&r, g_seed * 1000003ULL + (uint64_t)caseidx * 7919ULL + 44);
  snprintf(cdir, sizeof(cdir), "%s/cmp-%d", g_base, caseidx);
  snprintf(dir, sizeof(dir), "%s/db", cdir);
  rm_rf(cdir);
  mk_dir(cdir);
  iom_clear_roots();
  cfg_random(&cfg, &r);
  cfg.cmp_kind = A;
  m_init(&m, A);
  universe_generate(&m, &r, 20 + (int)vr_uniform(&r, 80));
  xopt_make(&x, &cfg, A, 1, 0, 0, default_logger);
  rc = ldb_open(dir, &x.o, &db);
  if (rc != LDB_OK) vh_fatal("cmp case %d: cannot create: %d", caseidx, rc);
  fill_db(db, &m, &r, fill, &nv);
  ldb_close(db);
  xopt_free(&x);
  if (vr_chance(&r, 300)) {
    /* one clean reopen first, so that the MANIFEST was rewritten at least once */
    xopt_make(&x, &cfg, A, 0, 0, 0, default_logger);
    rc = ldb_open(dir, &x.o, &db);
    if (rc != LDB_OK) vh_fatal("cmp case %d: clean reopen failed: %d", caseidx, rc);
    ldb_close(db);
    xopt_free(&x);
  }
  for (b = 1; b < CMP_KINDS; b++) {
    int Bk = (A + b) % CMP_KINDS;
    cfg_t c2 = cfg;
    if (vr_chance(&r, 500)) cfg_mutate_reopen(&c2, &r);
    snap_take(&before, dir);
    xopt_make(&x, &c2, Bk, (int)vr_uniform(&r, 2), 0, (int)vr_uniform(&r, 2), default_logger);
    db = NULL;
    rc = ldb_open(dir, &x.o, &db);
    vh_count("comparator_pairs", 1);
    vh_distinct("c20_state", "cmp|%s|A%d-B%d-log%d", fill_names[fill], A, Bk, default_logger);
    if (rc == LDB_OK) {
      lv("comparator-mismatch-accepted", "database created with %s (%s) was opened with %s: ldb_open returned OK", m_comparator(A)->name,
         fill_names[fill], m_comparator(Bk)->name);
      ldb_close(db);
    } else {
      vh_count("comparator_mismatch_refused", 1);
    }
    xopt_free(&x);
    snap_take(&after, dir);
    if (snap_diff(&before, &after, ignore_logs, diff, sizeof(diff)) > 0)
      lv("comparator-mismatch-modified-files", "ldb_open with %s on a %s database (%s, rc=%d) changed the directory: %s",
         m_comparator(Bk)->name, m_comparator(A)->name, fill_names[fill], rc, diff);
    if (!default_logger && (snap_find(&after, "LOG") != NULL || snap_find(&after, "LOG.old") != NULL))
      lv("comparator-mismatch-modified-files", "LOG file appeared although a logger was supplied");
    snap_free(&before);
    snap_free(&after);
    if (vh_nviolations() > nviol0) break;
  }
  /* the right comparator still sees everything */
  xopt_make(&x, &cfg, A, 0, 0, (int)vr_uniform(&r, 2), default_logger);
  rc = ldb_open(dir, &x.o, &db);
  if (rc != LDB_OK) {
    if (vh_nviolations() == nviol0)
      lv(is_lock_error(rc) ? "lock-not-released-after-failed-open" : "open-failed-after-failed-open",
         "open with the creating comparator after refused mismatching opens returned %d (%s)", rc, ldb_strerror(rc));
  } else {
    check_equal(db, &m, m.version, &mm);
    if (mm.n > 0 && vh_nviolations() == nviol0)
      lv("contents-changed-by-failed-open", "after refused comparator-mismatch opens: %d mismatches: %s", mm.n, mm.first);
    ldb_close(db);
  }
  xopt_free(&x);
  vh_count("cases", 1);
  vh_count("steps", 4);
  if (caseidx % 16 == 0 || vh_nviolations() > nviol0)
    vh_sample("C20", "cmp case %d seed %llu: created with %s, fill=%s, default_logger=%d, keys=%zu live=%zu, both other comparators refused=%s",
              caseidx, (unsigned long long)g_seed, m_comparator(A)->name, fill_names[fill], default_logger, m.nrows,
              m_count_live(&m, m.version), vh_nviolations() == nviol0 ? "yes" : "NO");
  m_free(&m);
  rm_rf(cdir);
}

/* ================================================================== */
/* mode conc: backups concurrent with writers */

#define CC_MAXW 4
#define CC_MAXK 40
#define CC_MAXB 3

typedef struct ccop_s { int key; int del; uint32_t len; } ccop_t;

typedef struct ccw_s {
  struct cc_s *C;
  int id, nkeys, nbatches;
  uint64_t *inv, *ret;     /* stamps per batch (1-based) */
  int begun, acked;        /* progress (atomics) */
  int failed_rc;
  pthread_t th;
} ccw_t;

typedef struct cc_s {
  dbh_t h;
  char cdir[700], src[700];
  uint64_t seed;
  int nw;
  ccw_t w[CC_MAXW];
  int total_acked;         /* atomic */
  int total_batches;
  int abandon;
} cc_t;

static uint64_t cc_vid(int w, int b) { return ((((uint64_t)(w + 1)) << 40) | (uint64_t)b) << 1; }

static size_t cc_key(char *buf, int w, int k) {
  if (k < 0) return (size_t)sprintf(buf, "w%d/~marker", w);
  return (size_t)sprintf(buf, "w%d/k%03d", w, k);
}

/* the content of batch b of writer w: a pure function of (seed, w, b) */
static int cc_gen(const cc_t *C, int w, int b, ccop_t *ops) {
  vrng_t r;
  int n = 0, k;
  vr_seed(&r, C->seed ^ ((uint64_t)(w + 1) << 32) ^ (uint64_t)b * 0x9e3779b97f4a7c15ULL);
  for (k = 0; k < C->w[w].nkeys; k++) {
    if (!vr_chance(&r, 350)) continue;
    ops[n].key = k;
    ops[n].del = vr_chance(&r, 200);
    ops[n].len = 8 + vr_uniform(&r, vr_chance(&r, 100) ? 3000 : 400);
    n++;
  }
  return n;
}

static void *cc_writer(void *arg) {
  ccw_t *W = arg;
  cc_t *C = W->C;
  ccop_t ops[CC_MAXK];
  uint8_t vbuf[3100];
  char kb[32];
  int b, i;
  for (b = 1; b <= W->nbatches; b++) {
    ldb_batch_t *bt = ldb_batch_create();
    int n = cc_gen(C, W->id, b, ops), rc;
    ldb_slice_t k, v;
    uint64_t vid = cc_vid(W->id, b);
    for (i = 0; i < n; i++) {
      k = ldb_slice(kb, cc_key(kb, W->id, ops[i].key));
      if (ops[i].del) { ldb_batch_del(bt, &k); continue; }
      vh_fill_value(vbuf, ops[i].len, vid);
      v = ldb_slice(vbuf, ops[i].len);
      ldb_batch_put(bt, &k, &v);
    }
    k = ldb_slice(kb, cc_key(kb, W->id, -1));
    vh_fill_value(vbuf, 16, vid);
    v = ldb_slice(vbuf, 16);
    ldb_batch_put(bt, &k, &v);
    W->inv[b] = iom_clock();
    __atomic_store_n(&W->begun, b, __ATOMIC_SEQ_CST);
    rc = ldb_write(C->h.db, bt, NULL);
    W->ret[b] = iom_clock();
    ldb_batch_destroy(bt);
    if (rc != LDB_OK) { W->failed_rc = rc; break; }
    __atomic_store_n(&W->acked, b, __ATOMIC_SEQ_CST);
    __atomic_add_fetch(&C->total_acked, 1, __ATOMIC_SEQ_CST);
  }
  return NULL;
}

/* compare writer w's keys in db with fold(batches 1..j); returns number of mismatches */
static int cc_check_prefix(cc_t *C, ldb_t *db, int w, int j, char *msg, size_t msgsz) {
  ccop_t ops[CC_MAXK];
  int last[CC_MAXK], del[CC_MAXK];
  uint32_t len[CC_MAXK];
  int b, i, k, bad = 0;
  char kb[32];
  for (k = 0; k < C->w[w].nkeys; k++) { last[k] = 0; del[k] = 1; len[k] = 0; }
  for (b = 1; b <= j; b++) {
    int n = cc_gen(C, w, b, ops);
    for (i = 0; i < n; i++) { last[ops[i].key] = b; del[ops[i].key] = ops[i].del; len[ops[i].key] = ops[i].len; }
  }
  msg[0] = 0;
  for (k = 0; k < C->w[w].nkeys; k++) {
    ldb_slice_t key = ldb_slice(kb, cc_key(kb, w, k)), v;
    int rc = ldb_get(db, &key, &v, NULL);
    int want = last[k] > 0 && !del[k];
    int ok;
    if (rc == LDB_OK) {
      ok = want && v.size == len[k] && vh_check_value(v.data, v.size, cc_vid(w, last[k]));
      if (!ok && bad++ == 0) {
        uint64_t gv = vh_value_vid(v.data, v.size);
        snprintf(msg, msgsz, "key %s: expected %s (last touched by batch %d), found a value of %zu bytes written by writer %d batch %d",
                 kb, want ? "a value" : "absent", last[k], v.size, (int)((gv >> 41) - 1), (int)((gv >> 1) & 0xffffffffffULL));
      }
      ldb_free(v.data);
    } else if (rc == LDB_NOTFOUND) {
      if (want && bad++ == 0)
        snprintf(msg, msgsz, "key %s: expected the value of batch %d (%u bytes), found nothing", kb, last[k], len[k]);
    } else if (bad++ == 0) {
      snprintf(msg, msgsz, "key %s: get returned %d", kb, rc);
    }
  }
  vh_count("keys_compared", (uint64_t)C->w[w].nkeys);
  return bad;
}

/* marker of writer w in db: batch index, 0 = none, -1 = unreadable */
static int cc_marker(ldb_t *db, int w) {
  char kb[32];
  ldb_slice_t key = ldb_slice(kb, cc_key(kb, w, -1)), v;
  int rc = ldb_get(db, &key, &v, NULL), j;
  uint64_t gv;
  if (rc == LDB_NOTFOUND) return 0;
  if (rc != LDB_OK) return -1;
  gv = vh_value_vid(v.data, v.size);
  j = (int)((gv >> 1) & 0xffffffffffULL);
  if (v.size != 16 || (int)(gv >> 41) - 1 != w || !vh_check_value(v.data, v.size, cc_vid(w, j))) j = -1;
  ldb_free(v.data);
  return j;
}

/* total number of entries in db and whether every key belongs to a writer */
static int cc_scan_count(ldb_t *db, int *foreign) {
  ldb_iter_t *it = ldb_iterator(db, NULL);
  int n = 0;
  *foreign = 0;
  for (ldb_iter_first(it); ldb_iter_valid(it); ldb_iter_next(it)) {
    ldb_slice_t k = ldb_iter_key(it);
    if (k.size < 4 || ((char *)k.data)[0] != 'w') (*foreign)++;
    n++;
  }
  if (ldb_iter_status(it) != LDB_OK) n = -1;
  ldb_iter_destroy(it);
  return n;
}

static int cc_expected_count(cc_t *C, int w, int j) {
  ccop_t ops[CC_MAXK];
  int del[CC_MAXK], touched[CC_MAXK], b, i, k, n = j > 0 ? 1 : 0;
  for (k = 0; k < C->w[w].nkeys; k++) { del[k] = 1; touched[k] = 0; }
  for (b = 1; b <= j; b++) {
    int cnt = cc_gen(C, w, b, ops);
    for (i = 0; i < cnt; i++) { touched[ops[i].key] = 1; del[ops[i].key] = ops[i].del; }
  }
  for (k = 0; k < C->w[w].nkeys; k++) n += touched[k] && !del[k];
  return n;
}

static void cc_verify_backup(cc_t *C, const char *target, int idx, uint64_t b_inv, uint64_t b_ret) {
  dbh_t h;
  cfg_t c = C->h.cfg;
  int rc, w, total = 0, foreign = 0, n;
  char msg[600];
  dbh_init(&h, target, &c);
  rc = dbh_open(&h, 0);
  if (rc != LDB_OK) {
    lv("backup-not-openable", "concurrent backup #%d does not open: %d (%s)", idx, rc, ldb_strerror(rc));
    C->abandon = 1;
    dbh_destroy(&h);
    return;
  }
  for (w = 0; w < C->nw; w++) {
    ccw_t *W = &C->w[w];
    int j = cc_marker(h.db, w), lo = 0, hi = 0, b;
    /* window from the stamps (the writer may still be running: read only finished entries) */
    int begun = __atomic_load_n(&W->begun, __ATOMIC_SEQ_CST), acked = __atomic_load_n(&W->acked, __ATOMIC_SEQ_CST);
    for (b = 1; b <= acked; b++) if (W->ret[b] < b_inv) lo = b;
    for (b = 1; b <= begun; b++) if (W->inv[b] < b_ret) hi = b;
    if (j < 0) {
      lv("concurrent-backup-partial-batch", "backup #%d: marker of writer %d is unreadable or malformed", idx, w);
      C->abandon = 1;
      continue;
    }
    if (cc_check_prefix(C, h.db, w, j, msg, sizeof(msg)) > 0) {
      lv("concurrent-backup-partial-batch", "backup #%d: writer %d's marker says batch %d, but its keys are not fold(1..%d): %s (window %d..%d)",
         idx, w, j, j, msg, lo, hi);
      C->abandon = 1;
    }
    if (j < lo || j > hi) {
      lv("concurrent-backup-outside-window", "backup #%d holds batches 1..%d of writer %d; acknowledged before the backup was invoked: %d, "
         "begun before it returned: %d", idx, j, w, lo, hi);
      C->abandon = 1;
    }
    total += cc_expected_count(C, w, j);
    vh_count("writer_prefixes_checked", 1);
    if (j > lo) vh_count("prefixes_with_in_flight_batches", 1);
    vh_distinct("c20_state", "conc|%s|%s", j == lo ? "exactly-acked" : j == hi ? "all-begun" : "between", hi > lo ? "window-open" : "window-tight");
  }
  n = cc_scan_count(h.db, &foreign);
  if (!C->abandon && (n != total || foreign)) {
    lv("concurrent-backup-partial-batch", "backup #%d: scan shows %d entries (%d not of any writer), the per-writer prefixes account for %d", idx, n, foreign, total);
    C->abandon = 1;
  }
  dbh_destroy(&h);
}

static void conc_case(int caseidx) {
  cc_t *C = calloc(1, sizeof(cc_t));
  vrng_t r;
  cfg_t cfg;
  int rc, w, nb, i;
  double t0 = vh_now();
  int thresholds[CC_MAXB];
  vr_seed(&r, g_seed * 1000003ULL + (uint64_t)caseidx * 7919ULL + 55);
  C->seed = vr_next(&r);
  snprintf(C->cdir, sizeof(C->cdir), "%s/conc-%d", g_base, caseidx);
  snprintf(C->src, sizeof(C->src), "%s/src", C->cdir);
  rm_rf(C->cdir);
  mk_dir(C->cdir);
  cfg_random(&cfg, &r);
  cfg.cmp_kind = CMP_BYTEWISE;
  cfg.write_buffer_size = 64 << 10;
  cfg.max_file_size = 1 << 20;
  iom_trace_reset();
  iom_clear_roots();
  iom_fault_clear();
  iom_gate_clear();
  iom_add_root(C->src);
  dbh_init(&C->h, C->src, &cfg);
  rc = dbh_open(&C->h, 1);
  if (rc != LDB_OK) vh_fatal("conc case %d: cannot create: %d", caseidx, rc);
  C->nw = 2 + (int)vr_uniform(&r, 3);
  for (w = 0; w < C->nw; w++) {
    ccw_t *W = &C->w[w];
    W->C = C; W->id = w;
    W->nkeys = 8 + (int)vr_uniform(&r, CC_MAXK - 8);
    W->nbatches = 50 + (int)vr_uniform(&r, 251);
    W->inv = calloc((size_t)W->nbatches + 2, sizeof(uint64_t));
    W->ret = calloc((size_t)W->nbatches + 2, sizeof(uint64_t));
    C->total_batches += W->nbatches;
  }
  nb = 1 + (int)vr_uniform(&r, CC_MAXB);
  for (i = 0; i < nb; i++) thresholds[i] = (int)vr_uniform(&r, (uint32_t)C->total_batches);
  for (i = 0; i < nb; i++) {   /* ascending */
    int j2;
    for (j2 = i + 1; j2 < nb; j2++) if (thresholds[j2] < thresholds[i]) { int t = thresholds[i]; thresholds[i] = thresholds[j2]; thresholds[j2] = t; }
  }
  iom_delay(g_seed * 31 + (uint64_t)caseidx, 200, 300);
  for (w = 0; w < C->nw; w++) pthread_create(&C->w[w].th, NULL, cc_writer, &C->w[w]);
  for (i = 0; i < nb && !C->abandon; i++) {
    char target[800];
    uint64_t b_inv, b_ret;
    uint64_t c0 = C->h.log.compacting + C->h.log.level0_started;
    int running = 0;
    /* wait for the chosen amount of progress (or for the writers to finish) */
    for (;;) {
      int done = 1;
      if (__atomic_load_n(&C->total_acked, __ATOMIC_SEQ_CST) >= thresholds[i]) break;
      for (w = 0; w < C->nw; w++)
        if (__atomic_load_n(&C->w[w].acked, __ATOMIC_SEQ_CST) < C->w[w].nbatches && C->w[w].failed_rc == 0) done = 0;
      if (done) break;
      usleep(50);
    }
    for (w = 0; w < C->nw; w++) running += __atomic_load_n(&C->w[w].acked, __ATOMIC_SEQ_CST) < C->w[w].nbatches;
    snprintf(target, sizeof(target), "%s/bk-%d", C->cdir, i);
    b_inv = iom_clock();
    rc = ldb_backup(C->h.db, target);
    b_ret = iom_clock();
    vh_count("backups", 1);
    vh_count(running ? "backups_with_writers_running" : "backups_after_writers_finished", 1);
    if (C->h.log.compacting + C->h.log.level0_started > c0) vh_count("backups_state_during-compaction", 1);
    if (rc != LDB_OK) {
      lv("backup-failed", "ldb_backup concurrent with %d running writers returned %d (%s)", running, rc, ldb_strerror(rc));
      C->abandon = 1;
      break;
    }
    iom_pause(1);   /* verification I/O is not delayed */
    cc_verify_backup(C, target, i, b_inv, b_ret);
    iom_pause(-1);
    rm_rf(target);
  }
  for (w = 0; w < C->nw; w++) pthread_join(C->w[w].th, NULL);
  iom_delay(0, 0, 0);
  /* the source kept working: everything every writer wrote is there */
  for (w = 0; w < C->nw && !C->abandon; w++) {
    char msg[600];
    ccw_t *W = &C->w[w];
    if (W->failed_rc != 0) {
      lv("source-unusable", "ldb_write of writer %d batch %d returned %d (%s) while backups were taken", w, W->acked + 1, W->failed_rc,
         ldb_strerror(W->failed_rc));
      continue;
    }
    if (cc_marker(C->h.db, w) != W->nbatches || cc_check_prefix(C, C->h.db, w, W->nbatches, msg, sizeof(msg)) > 0)
      lv("source-changed-by-backup", "after %d concurrent backups the source does not hold all %d batches of writer %d: %s", nb,
         W->nbatches, w, msg);
  }
  vh_count("cases", 1);
  vh_count("steps", (uint64_t)C->total_batches);
  vh_count("writer_batches", (uint64_t)C->total_batches);
  vh_count("engine_compactions", C->h.log.compacting);
  vh_count("engine_flushes", C->h.log.level0_started);
  if (caseidx % 16 == 0 || C->abandon)
    vh_sample("C20", "conc case %d seed %llu: cfg=%s writers=%d batches=%d backups=%d flushes=%llu compactions=%llu%s wall=%.2fs", caseidx,
              (unsigned long long)g_seed, cfg_id(&cfg), C->nw, C->total_batches, nb, (unsigned long long)C->h.log.level0_started,
              (unsigned long long)C->h.log.compacting, C->abandon ? " (violation)" : "", vh_now() - t0);
  dbh_destroy(&C->h);
  for (w = 0; w < C->nw; w++) { free(C->w[w].inv); free(C->w[w].ret); }
  iom_clear_roots();
  rm_rf(C->cdir);
  free(C);
}



/* ================================================================== */

int main(int argc, char **argv) {
  int first = 0, count = 1, i;
  const char *base = "/dev/shm/verif-lifemon";
  char *rp;
  for (i = 1; i < argc; i++) {
    if (!strcmp(argv[i], "--seed") && i + 1 < argc) g_seed = strtoull(argv[++i], NULL, 0);
    else if (!strcmp(argv[i], "--first") && i + 1 < argc) first = atoi(argv[++i]);
    else if (!strcmp(argv[i], "--count") && i + 1 < argc) count = atoi(argv[++i]);
    else if (!strcmp(argv[i], "--dir") && i + 1 < argc) base = argv[++i];
    else if (!strcmp(argv[i], "--mode") && i + 1 < argc) g_mode = argv[++i];
    else { fprintf(stderr, "unknown argument %s\n", argv[i]); return 2; }
  }
  if (strcmp(g_mode, "lock") && strcmp(g_mode, "backup") && strcmp(g_mode, "destroy") && strcmp(g_mode, "cmp") &&
      strcmp(g_mode, "conc")) {
    fprintf(stderr, "unknown mode %s\n", g_mode);
    return 2;
  }
  vh_init(NULL);
  signal(SIGPIPE, SIG_IGN);
  mallopt(M_MMAP_THRESHOLD, 64 << 20);   /* page faults are the dominant cost in the sandbox: keep the heap */
  mallopt(M_TRIM_THRESHOLD, 512 << 20);
  mallopt(M_TOP_PAD, 16 << 20);
  vh_mkdir_p(base);
  rp = realpath(base, NULL);
  if (rp == NULL) vh_fatal("cannot resolve %s", base);
  snprintf(g_base, sizeof(g_base), "%s", rp);
  free(rp);
  if (!strcmp(g_mode, "lock")) helper_start();   /* before any thread or database exists */
  for (i = first; i < first + count; i++) {
    g_case = i;
    g_step = 0;
    vh_set_context("lifemon mode=%s seed=%llu case=%d", g_mode, (unsigned long long)g_seed, i);
    if (!strcmp(g_mode, "lock")) lock_case(i);
#if 1
    else if (!strcmp(g_mode, "backup")) backup_case(i);
    else if (!strcmp(g_mode, "destroy")) destroy_case(i);
    else if (!strcmp(g_mode, "cmp")) cmp_case(i);
    else conc_case(i);
#endif
  }
  helper_stop();
  tacc_dump();
  vh_finish();
  return 0;
}

/* lifemon - lifecycle monitor for C20 "lifecycle operations are exclusive,
 * complete and non-destructive".
 *
 * usage: lifemon --seed S --mode lock|backup|destroy|cmp|conc --first I --count N --dir D
 *
 * One case = one generated sequence.  Everything is decided by observing the real
 * library: model comparison of handles/copies, byte hashes of directories before
 * and after an operation, exit codes of other processes trying to open.
 */
#include <dirent.h>
#include <errno.h>
#include <fcntl.h>
#include <limits.h>
#include <malloc.h>
#include <pthread.h>
#include <signal.h>
#include <sys/stat.h>
#include <sys/wait.h>
#include <unistd.h>

#include "dbh.h"
#include "iomon.h"
#include "model.h"
#include "vh.h"

static uint64_t g_seed = 1;
static char g_base[600];
static const char *g_mode = "lock";
static int g_case = 0, g_step = 0;

/* ------------------------------------------------------------------ */
/* violations */

static void lv(const char *key, const char *fmt, ...) __attribute__((format(printf, 2, 3)));

static void lv(const char *key, const char *fmt, ...) {
  char msg[3000];
  va_list ap;
  va_start(ap, fmt);
  vsnprintf(msg, sizeof(msg), fmt, ap);
  va_end(ap);
  vh_violation("C20", key, "%s | mode=%s seed=%llu case=%d step=%d", msg, g_mode,
               (unsigned long long)g_seed, g_case, g_step);
}

static int is_lock_error(int rc) {
  return rc == ENOLCK || rc == EAGAIN || rc == EACCES || rc == EWOULDBLOCK;
}

/* ------------------------------------------------------------------ */
/* option sets for opens that do not go through dbh (expected failures, copies
 * opened by other means, default-logger variants) */

typedef struct xopt_s {
  ldb_dbopt_t o;
  ldb_bloom_t *bloom;
  ldb_lru_t *cache;
  ldb_logger_t *logger;
} xopt_t;

static void quiet_log(void *state, const char *fmt, va_list ap) { (void)state; (void)fmt; (void)ap; }

static void xopt_make(xopt_t *x, const cfg_t *c, int cmp_kind, int create, int error_if_exists,
                      int paranoid, int default_logger) {
  memset(x, 0, sizeof(*x));
  x->o = *ldb_dbopt_default;
  x->o.comparator = m_comparator(cmp_kind);
  x->o.create_if_missing = create;
  x->o.error_if_exists = error_if_exists;
  x->o.paranoid_checks = paranoid;
  if (!default_logger) {
    x->logger = ldb_logger_create(quiet_log, NULL);
    x->o.info_log = x->logger;
  } else {
    x->o.info_log = NULL;
  }
  x->o.write_buffer_size = c->write_buffer_size;
  x->o.max_open_files = c->max_open_files;
  x->o.block_size = c->block_size;
  x->o.block_restart_interval = c->restart;
  x->o.max_file_size = c->max_file_size;
  x->o.compression = c->compression ? LDB_SNAPPY_COMPRESSION : LDB_NO_COMPRESSION;
  x->o.reuse_logs = c->reuse_logs;
  x->o.use_mmap = c->use_mmap;
  if (c->filter_bits > 0) {
    x->bloom = ldb_bloom_create(c->filter_bits);
    x->o.filter_policy = x->bloom;
  }
  if (c->cache_kind == 1) x->cache = ldb_lru_create(8 << 10);
  else if (c->cache_kind == 2) x->cache = ldb_lru_create(16 << 20);
  x->o.block_cache = x->cache;
}

static void xopt_free(xopt_t *x) {
  if (x->bloom) ldb_bloom_destroy(x->bloom);
  if (x->cache) ldb_lru_destroy(x->cache);
  if (x->logger) ldb_logger_destroy(x->logger);
  memset(x, 0, sizeof(*x));
}

/* ------------------------------------------------------------------ */
/* directory snapshots: recursive listing with content hashes (real syscalls,
 * bypassing the interposer) */

typedef struct snapent_s {
  char *rel;
  int kind;          /* 'f' file, 'd' directory, 'l' symlink, 'o' other */
  uint64_t size, hash;
} snapent_t;

typedef struct dirsnap_s {
  snapent_t *e;
  size_t n, cap;
  int exists;
} dirsnap_t;

static uint64_t hash_file(const char *path, uint64_t *size) {
  static __thread unsigned char buf[1 << 16];
  uint64_t h = 0x1234, total = 0;
  ssize_t r;
  int fd = open(path, O_RDONLY);
  if (fd < 0) { *size = 0; return 0xdeadULL + (uint64_t)errno; }
  while ((r = read(fd, buf, sizeof(buf))) > 0) {
    h = vh_hash64(buf, (size_t)r, h);
    total += (uint64_t)r;
  }
  close(fd);
  *size = total;
  return h;
}

static void snap_add(dirsnap_t *s, const char *rel, int kind, uint64_t size, uint64_t hash) {
  if (s->n == s->cap) {
    s->cap = s->cap ? s->cap * 2 : 32;
    s->e = realloc(s->e, s->cap * sizeof(snapent_t));
  }
  s->e[s->n].rel = strdup(rel);
  s->e[s->n].kind = kind;
  s->e[s->n].size = size;
  s->e[s->n].hash = hash;
  s->n++;
}

static void snap_walk(dirsnap_t *s, const char *dir, const char *prefix) {
  DIR *d = opendir(dir);
  struct dirent *de;
  if (d == NULL) return;
  while ((de = readdir(d)) != NULL) {
    char path[2048], rel[1024];
    struct stat st;
    if (strcmp(de->d_name, ".") == 0 || strcmp(de->d_name, "..") == 0) continue;
    snprintf(path, sizeof(path), "%s/%s", dir, de->d_name);
    snprintf(rel, sizeof(rel), "%s%s", prefix, de->d_name);
    if (lstat(path, &st) != 0) continue;
    if (S_ISDIR(st.st_mode)) {
      char sub[1100];
      snap_add(s, rel, 'd', 0, 0);
      snprintf(sub, sizeof(sub), "%s/", rel);
      snap_walk(s, path, sub);
    } else if (S_ISLNK(st.st_mode)) {
      char tgt[1024];
      ssize_t n = readlink(path, tgt, sizeof(tgt) - 1);
      if (n < 0) n = 0;
      snap_add(s, rel, 'l', (uint64_t)n, vh_hash64(tgt, (size_t)n, 7));
    } else if (S_ISREG(st.st_mode)) {
      uint64_t size, h;
      if (strcmp(de->d_name, "LOCK") == 0) {
        /* never open a LOCK file from this process: closing ANY descriptor of a file
           drops the process's fcntl record locks on it (POSIX), i.e. the lock of a
           handle that is open in this process */
        snap_add(s, rel, 'f', (uint64_t)st.st_size, 0);
        continue;
      }
      h = hash_file(path, &size);
      snap_add(s, rel, 'f', size, h);
    } else {
      snap_add(s, rel, 'o', 0, 0);
    }
  }
  closedir(d);
}

static int snapent_cmp(const void *a, const void *b) {
  return strcmp(((const snapent_t *)a)->rel, ((const snapent_t *)b)->rel);
}

static void snap_take(dirsnap_t *s, const char *dir) {
  struct stat st;
  memset(s, 0, sizeof(*s));
  iom_pause(1);
  if (lstat(dir, &st) == 0) {
    s->exists = 1;
    if (S_ISDIR(st.st_mode)) snap_walk(s, dir, "");
    else {
      uint64_t size, h = hash_file(dir, &size);
      snap_add(s, "", 'f', size, h);
    }
  }
  iom_pause(-1);
  if (s->n > 1) qsort(s->e, s->n, sizeof(snapent_t), snapent_cmp);
}

static void snap_free(dirsnap_t *s) {
  size_t i;
  for (i = 0; i < s->n; i++) free(s->e[i].rel);
  free(s->e);
  memset(s, 0, sizeof(*s));
}

static const snapent_t *snap_find(const dirsnap_t *s, const char *rel) {
  size_t lo = 0, hi = s->n;
  while (lo < hi) {
    size_t mid = (lo + hi) / 2;
    int c = strcmp(s->e[mid].rel, rel);
    if (c == 0) return &s->e[mid];
    if (c < 0) lo = mid + 1; else hi = mid;
  }
  return NULL;
}

static int ignore_info(const char *rel) {
  return strcmp(rel, "LOG") == 0 || strcmp(rel, "LOG.old") == 0 || strcmp(rel, "LOCK") == 0;
}

/* number of differences; the first few are described in msg */
static int snap_diff(const dirsnap_t *a, const dirsnap_t *b, int (*ignore)(const char *), char *msg, size_t msgsz) {
  size_t i, o = 0;
  int nd = 0;
  msg[0] = 0;
  if (a->exists != b->exists) {
    snprintf(msg, msgsz, "exists before=%d after=%d", a->exists, b->exists);
    return 1;
  }
  for (i = 0; i < a->n; i++) {
    const snapent_t *x = &a->e[i], *y;
    if (ignore && ignore(x->rel)) continue;
    y = snap_find(b, x->rel);
    if (y == NULL) {
      nd++;
      if (o + 200 < msgsz) o += (size_t)snprintf(msg + o, msgsz - o, "[removed '%s' (%c, %llu bytes)] ", x->rel, x->kind, (unsigned long long)x->size);
    } else if (y->kind != x->kind || y->size != x->size || y->hash != x->hash) {
      nd++;
      if (o + 200 < msgsz) o += (size_t)snprintf(msg + o, msgsz - o, "[changed '%s' %c/%llu/%llx -> %c/%llu/%llx] ", x->rel, x->kind,
                                                 (unsigned long long)x->size, (unsigned long long)x->hash, y->kind,
                                                 (unsigned long long)y->size, (unsigned long long)y->hash);
    }
  }
  for (i = 0; i < b->n; i++) {
    const snapent_t *y = &b->e[i];
    if (ignore && ignore(y->rel)) continue;
    if (snap_find(a, y->rel) == NULL) {
      nd++;
      if (o + 200 < msgsz) o += (size_t)snprintf(msg + o, msgsz - o, "[new '%s' (%c, %llu bytes)] ", y->rel, y->kind, (unsigned long long)y->size);
    }
  }
  return nd;
}

static int path_exists(const char *p) {
  struct stat st;
  int r;
  iom_pause(1);
  r = lstat(p, &st) == 0;
  iom_pause(-1);
  return r;
}

static void write_file(const char *path, const void *data, size_t n) {
  int fd;
  iom_pause(1);
  fd = open(path, O_WRONLY | O_CREAT | O_TRUNC, 0644);
  if (fd < 0) vh_fatal("cannot write %s: %s", path, strerror(errno));
  if (n > 0 && write(fd, data, n) != (ssize_t)n) vh_fatal("short write to %s", path);
  close(fd);
  iom_pause(-1);
}

static void write_junk(const char *path, vrng_t *r, size_t n) {
  unsigned char *b = malloc(n + 1);
  size_t i;
  for (i = 0; i < n; i++) b[i] = (unsigned char)vr_next(r);
  write_file(path, b, n);
  free(b);
}

static size_t read_small(const char *path, char *buf, size_t cap) {
  int fd;
  ssize_t n = 0;
  iom_pause(1);
  fd = open(path, O_RDONLY);
  if (fd >= 0) { n = read(fd, buf, cap); close(fd); }
  iom_pause(-1);
  return n < 0 ? 0 : (size_t)n;
}

static void rm_rf(const char *p) {
  iom_pause(1);
  vh_rm_rf(p);
  iom_pause(-1);
}

static void mk_dir(const char *p) {
  iom_pause(1);
  if (vh_mkdir_p(p) != 0) vh_fatal("mkdir %s failed", p);
  iom_pause(-1);
}

/* ------------------------------------------------------------------ */
/* model helpers */

static ldb_slice_t mrow_key(const model_t *m, int row) { return ldb_slice(m->rows[row].key, m->rows[row].klen); }

/* dst := the state of src at version ver (same keys, same row numbering) */
static void model_clone(const model_t *src, uint64_t ver, model_t *dst) {
  size_t i;
  m_init(dst, src->cmp_kind);
  for (i = 0; i < src->nrows; i++) m_add_key(dst, src->rows[i].key, src->rows[i].klen);
  m_finalize(dst);
  if (dst->nrows != src->nrows) vh_fatal("model_clone: row count changed");
  for (i = 0; i < src->nrows; i++) {
    const mver_t *e = m_get(src, (int)i, ver);
    if (e != NULL && e->present) m_put(dst, (int)i, e->vid, e->vlen);
  }
}

typedef struct mm_s {
  int n;
  char first[900];
  int have_vid;
  uint64_t got_vid;
} mm_t;

static void mm_add(mm_t *mm, int have_vid, uint64_t vid, const char *fmt, ...) __attribute__((format(printf, 4, 5)));

static void mm_add(mm_t *mm, int have_vid, uint64_t vid, const char *fmt, ...) {
  if (mm->n++ == 0) {
    va_list ap;
    va_start(ap, fmt);
    vsnprintf(mm->first, sizeof(mm->first), fmt, ap);
    va_end(ap);
    mm->have_vid = have_vid;
    mm->got_vid = vid;
  }
}

static int val_ok(const mver_t *e, const void *p, size_t n) {
  return e != NULL && e->present && n == e->vlen && vh_check_value(p, n, e->vid);
}

/* every key by get, plus a forward and a backward scan, against the model at ver */
static void check_equal(ldb_t *db, const model_t *m, uint64_t ver, mm_t *mm) {
  size_t i;
  int dir;
  ldb_iter_t *it;
  memset(mm, 0, sizeof(*mm));
  for (i = 0; i < m->nrows; i++) {
    ldb_slice_t k = mrow_key(m, (int)i), v;
    const mver_t *e = m_get(m, (int)i, ver);
    int want = e != NULL && e->present;
    int rc = ldb_get(db, &k, &v, NULL);
    if (rc == LDB_OK) {
      if (!want)
        mm_add(mm, v.size >= 8, vh_value_vid(v.data, v.size), "get('%s'): expected absent, got %zu bytes vid=%llx",
               vh_esc(k.data, k.size), v.size, (unsigned long long)vh_value_vid(v.data, v.size));
      else if (!val_ok(e, v.data, v.size))
        mm_add(mm, v.size >= 8, vh_value_vid(v.data, v.size), "get('%s'): expected vid=%llx len=%u, got len=%zu vid=%llx",
               vh_esc(k.data, k.size), (unsigned long long)e->vid, e->vlen, v.size,
               (unsigned long long)vh_value_vid(v.data, v.size));
      ldb_free(v.data);
    } else if (rc == LDB_NOTFOUND) {
      if (want)
        mm_add(mm, 0, 0, "get('%s'): expected vid=%llx len=%u, got NOTFOUND", vh_esc(k.data, k.size),
               (unsigned long long)e->vid, e->vlen);
    } else {
      mm_add(mm, 0, 0, "get('%s'): status %d (%s)", vh_esc(k.data, k.size), rc, ldb_strerror(rc));
    }
  }
  it = ldb_iterator(db, NULL);
  for (dir = 0; dir < 2; dir++) {
    int row = dir == 0 ? m_first(m, ver) : m_last(m, ver);
    const char *dn = dir == 0 ? "forward" : "backward";
    if (dir == 0) ldb_iter_first(it); else ldb_iter_last(it);
    for (;;) {
      int valid = ldb_iter_valid(it);
      if (row < 0 && !valid) break;
      if (row < 0) {
        ldb_slice_t k = ldb_iter_key(it), v = ldb_iter_value(it);
        mm_add(mm, v.size >= 8, vh_value_vid(v.data, v.size), "%s scan: extra key '%s' (%zu bytes, vid=%llx)", dn,
               vh_esc(k.data, k.size), v.size, (unsigned long long)vh_value_vid(v.data, v.size));
        break;
      }
      if (!valid) {
        mm_add(mm, 0, 0, "%s scan: ended before key '%s'", dn, vh_esc(m->rows[row].key, m->rows[row].klen));
        break;
      }
      {
        ldb_slice_t k = ldb_iter_key(it), v = ldb_iter_value(it);
        const mver_t *e = m_get(m, row, ver);
        if (k.size != m->rows[row].klen || memcmp(k.data, m->rows[row].key, k.size) != 0) {
          mm_add(mm, v.size >= 8, vh_value_vid(v.data, v.size), "%s scan: expected key '%s', got '%s' (vid=%llx)", dn,
                 vh_esc(m->rows[row].key, m->rows[row].klen), vh_esc(k.data, k.size),
                 (unsigned long long)vh_value_vid(v.data, v.size));
          break;
        }
        if (!val_ok(e, v.data, v.size)) {
          mm_add(mm, v.size >= 8, vh_value_vid(v.data, v.size), "%s scan: key '%s' expected vid=%llx len=%u, got len=%zu vid=%llx",
                 dn, vh_esc(k.data, k.size), (unsigned long long)e->vid, e->vlen, v.size,
                 (unsigned long long)vh_value_vid(v.data, v.size));
          break;
        }
      }
      if (dir == 0) { ldb_iter_next(it); row = m_next(m, row, ver); }
      else { ldb_iter_prev(it); row = m_prev(m, row, ver); }
    }
    if (ldb_iter_status(it) != LDB_OK)
      mm_add(mm, 0, 0, "%s scan: iterator status %d", dn, ldb_iter_status(it));
  }
  ldb_iter_destroy(it);
  vh_count("keys_compared", (uint64_t)m->nrows * 3);
}

/* layout classification of an open handle */
static void db_shape(ldb_t *db, int *ntables, int *levels_used, char *sig, size_t sigsz) {
  layout_t l;
  int j;
  *ntables = 0; *levels_used = 0;
  if (sig) snprintf(sig, sigsz, "?");
  if (dbh_layout(db, &l)) {
    *ntables = (int)l.n;
    for (j = 0; j < 7; j++) *levels_used += l.per_level[j] > 0;
    if (sig) snprintf(sig, sigsz, "%s", layout_sig(&l));
    layout_free(&l);
  }
}

/* ------------------------------------------------------------------ */
/* helper process: forked before any database is opened, so that its lcdb lock
 * table is empty - a genuine "other process" */

typedef struct hreq_s { int op, cmp, create; char path[700]; } hreq_t;

static int helper_wfd = -1, helper_rfd = -1;
static pid_t helper_pid = -1;

static void helper_main(int rfd, int wfd) {
  hreq_t rq;
  for (;;) {
    ssize_t n = read(rfd, &rq, sizeof(rq));
    int rc;
    dbh_t h;
    cfg_t c;
    if (n != (ssize_t)sizeof(rq) || rq.op != 0) _exit(0);
    cfg_default(&c);
    c.cmp_kind = rq.cmp;
    dbh_init(&h, rq.path, &c);
    rc = dbh_open(&h, rq.create);
    dbh_destroy(&h);
    if (write(wfd, &rc, sizeof(rc)) != (ssize_t)sizeof(rc)) _exit(0);
  }
}

static void helper_start(void) {
  int a[2], b[2];
  if (pipe(a) != 0 || pipe(b) != 0) vh_fatal("pipe failed");
  helper_pid = fork();
  if (helper_pid < 0) vh_fatal("fork failed");
  if (helper_pid == 0) {
    int nul = open("/dev/null", O_WRONLY);
    close(a[1]); close(b[0]);
    if (nul >= 0) { dup2(nul, 1); close(nul); }
    signal(SIGPIPE, SIG_DFL);
    helper_main(a[0], b[1]);
    _exit(0);
  }
  close(a[0]); close(b[1]);
  helper_wfd = a[1];
  helper_rfd = b[0];
}

/* ask the other process to ldb_open(path) and close again; returns its status */
static int helper_open(const char *path, int cmp, int create) {
  hreq_t rq;
  int rc = -1;
  memset(&rq, 0, sizeof(rq));
  rq.op = 0; rq.cmp = cmp; rq.create = create;
  snprintf(rq.path, sizeof(rq.path), "%s", path);
  if (write(helper_wfd, &rq, sizeof(rq)) != (ssize_t)sizeof(rq)) vh_fatal("helper process is gone (write)");
  if (read(helper_rfd, &rc, sizeof(rc)) != (ssize_t)sizeof(rc)) vh_fatal("helper process died while opening %s", path);
  return rc;
}

static void helper_stop(void) {
  int st;
  if (helper_pid <= 0) return;
  close(helper_wfd);
  close(helper_rfd);
  while (waitpid(helper_pid, &st, 0) < 0 && errno == EINTR) {}
  helper_pid = -1;
}

/* forked child (inherits this process's lcdb lock table, holds no fcntl lock) */
enum { CH_OPENED = 42, CH_REFUSED = 43 };

static int forked_child_open(const char *path, const cfg_t *cfg, int *rc_out) {
  pid_t pid;
  int st;
  pid = fork();
  if (pid < 0) vh_fatal("fork failed: %s", strerror(errno));
  if (pid == 0) {
    dbh_t h;
    int rc;
    alarm(60);
    iom_pause(1);
    dbh_init(&h, path, cfg);
    rc = dbh_open(&h, 1);
    _exit(rc == LDB_OK ? CH_OPENED : CH_REFUSED);
  }
  while (waitpid(pid, &st, 0) < 0 && errno == EINTR) {}
  *rc_out = st;
  if (WIFEXITED(st) && WEXITSTATUS(st) == CH_OPENED) return 1;
  if (WIFEXITED(st) && WEXITSTATUS(st) == CH_REFUSED) return 0;
  return -1;
}

/* ================================================================== */
/* mode lock */

typedef struct ldbs_s {
  char dir[700], parent[700], base[64];
  dbh_t h;
  model_t m;
  int exists;                /* a database (CURRENT) exists in dir */
  int is_open;
  int refusals_since_open;   /* refused in-process lock attempts since the handle was opened */
  char last_event[64];
  uint64_t next_vid;
} ldbs_t;

typedef struct lk_s {
  vrng_t r;
  char cdir[700];
  ldbs_t d[2];
  int ndb;
  int serial;
  int abandon;
  uint8_t vbuf[4096];
} lk_t;

static const char *alias_names[] = {"same-path", "relative", "decorated-path", "symlink"};

static void lk_event(ldbs_t *D, const char *fmt, ...) __attribute__((format(printf, 2, 3)));
static void lk_event(ldbs_t *D, const char *fmt, ...) {
  va_list ap;
  va_start(ap, fmt);
  vsnprintf(D->last_event, sizeof(D->last_event), fmt, ap);
  va_end(ap);
}

static void lk_write_some(lk_t *L, ldbs_t *D, int n) {
  int i;
  for (i = 0; i < n; i++) {
    int row = (int)vr_uniform(&L->r, (uint32_t)D->m.nrows);
    ldb_slice_t k = mrow_key(&D->m, row), v;
    int rc;
    if (vr_chance(&L->r, 200)) {
      rc = ldb_del(D->h.db, &k, NULL);
      if (rc == LDB_OK) m_del(&D->m, row);
    } else {
      uint32_t len = 8 + vr_uniform(&L->r, 1500);
      uint64_t vid = (D->next_vid += 2) | (vr_next(&L->r) & 1);
      vh_fill_value(L->vbuf, len, vid);
      v = ldb_slice(L->vbuf, len);
      rc = ldb_put(D->h.db, &k, &v, NULL);
      if (rc == LDB_OK) m_put(&D->m, row, vid, len);
    }
    if (rc != LDB_OK) {
      lv(D->refusals_since_open ? "first-handle-damaged-by-failed-open" : "write-failed",
         "write through the open handle of %s returned %d (%s) after %d refused lock attempts (last event: %s)",
         D->base, rc, ldb_strerror(rc), D->refusals_since_open, D->last_event);
      L->abandon = 1;
      return;
    }
  }
}

/* after a refused second open / copy / destroy: the first handle must be fully usable */
static void lk_verify_first(lk_t *L, ldbs_t *D, const char *after) {
  mm_t mm;
  lk_write_some(L, D, 2);
  if (L->abandon) return;
  check_equal(D->h.db, &D->m, D->m.version, &mm);
  if (mm.n > 0) {
    lv("first-handle-damaged-by-failed-open", "after %s on %s the first handle disagrees with the model (%d mismatches): %s",
       after, D->base, mm.n, mm.first);
    L->abandon = 1;
  }
  vh_count("first_handle_checks", 1);
}

/* open with the right options: must succeed and show the model's contents */
static void lk_open(lk_t *L, ldbs_t *D) {
  int rc = dbh_open(&D->h, 1);
  mm_t mm;
  int failed_before = strncmp(D->last_event, "failed-open", 11) == 0;
  vh_count("opens", 1);
  if (rc != LDB_OK) {
    if (is_lock_error(rc))
      lv(failed_before ? "lock-not-released-after-failed-open" : "lock-not-released-after-close",
         "ldb_open(%s) returned %d (%s) although no handle is open; previous event: %s", D->base, rc, ldb_strerror(rc),
         D->last_event);
    else
      lv(failed_before ? "open-failed-after-failed-open" : "reopen-failed",
         "ldb_open(%s) returned %d (%s); previous event: %s", D->base, rc, ldb_strerror(rc), D->last_event);
    L->abandon = 1;
    return;
  }
  D->is_open = 1;
  D->exists = 1;
  D->refusals_since_open = 0;
  check_equal(D->h.db, &D->m, D->m.version, &mm);
  if (mm.n > 0) {
    lv(failed_before ? "contents-changed-by-failed-open" : "contents-differ-after-reopen",
       "after open of %s (previous event: %s) %d mismatches: %s", D->base, D->last_event, mm.n, mm.first);
    L->abandon = 1;
  }
  if (failed_before) vh_count("opens_after_failed_open", 1);
  vh_distinct("c20_state", "lock|%s|open-after-%s", D->m.version ? "data" : "empty", D->last_event);
  lk_event(D, "open");
}

static void lk_close(lk_t *L, ldbs_t *D) {
  (void)L;
  dbh_close(&D->h);
  D->is_open = 0;
  lk_event(D, "close");
  vh_count("closes", 1);
}

/* a second ldb_open of an open database through an alias of its path */
static void lk_second_open(lk_t *L, ldbs_t *D, int kind) {
  char path[1500], link[800] = "";
  int cwdfd = -1, rc, wrongopt = (int)vr_uniform(&L->r, 4);
  xopt_t x;
  ldb_t *db2 = NULL;
  const char *variant = "";
  switch (kind) {
    case 0:
      snprintf(path, sizeof(path), "%s", D->dir);
      break;
    case 1: {
      const char *pb = strrchr(D->parent, '/');
      cwdfd = open(".", O_RDONLY);
      if (cwdfd < 0 || chdir(D->parent) != 0) vh_fatal("chdir %s failed", D->parent);
      switch (vr_uniform(&L->r, 3)) {
        case 0: snprintf(path, sizeof(path), "%s", D->base); variant = "name"; break;
        case 1: snprintf(path, sizeof(path), "./%s", D->base); variant = "./name"; break;
        default: snprintf(path, sizeof(path), "../%s/%s", pb ? pb + 1 : "", D->base); variant = "../parent/name"; break;
      }
      break;
    }
    case 2: {
      const char *pb = strrchr(D->parent, '/');
      switch (vr_uniform(&L->r, 5)) {
        case 0: snprintf(path, sizeof(path), "%s//%s", D->parent, D->base); variant = "double-slash"; break;
        case 1: snprintf(path, sizeof(path), "%s/", D->dir); variant = "trailing-slash"; break;
        case 2: snprintf(path, sizeof(path), "%s/./%s", D->parent, D->base); variant = "dot-component"; break;
        case 3: snprintf(path, sizeof(path), "%s/.", D->dir); variant = "trailing-dot"; break;
        default: snprintf(path, sizeof(path), "%s/../%s/%s", D->parent, pb ? pb + 1 : "", D->base); variant = "dotdot"; break;
      }
      break;
    }
    default:
      snprintf(link, sizeof(link), "%s/ln-%d", L->cdir, L->serial++);
      if (vr_chance(&L->r, 500)) {
        if (symlink(D->dir, link) != 0) vh_fatal("symlink failed");
        variant = "absolute-target";
      } else {
        if (symlink(D->base, link) != 0) vh_fatal("symlink failed");   /* relative target, same parent */
        variant = "relative-target";
      }
      snprintf(path, sizeof(path), "%s", link);
      break;
  }
  /* the options of the intruder vary; none may get in */
  xopt_make(&x, &D->h.cfg, wrongopt == 1 ? (D->h.cfg.cmp_kind + 1) % CMP_KINDS : D->h.cfg.cmp_kind, wrongopt != 2,
            wrongopt == 3, 0, 0);
  rc = ldb_open(path, &x.o, &db2);
  if (cwdfd >= 0) {
    if (fchdir(cwdfd) != 0) vh_fatal("fchdir back failed");
    close(cwdfd);
  }
  vh_count("second_open_attempts", 1);
  if (rc == LDB_OK) {
    char key[80];
    snprintf(key, sizeof(key), "second-open-succeeded-%s", alias_names[kind]);
    lv(key, "second ldb_open of the open database %s through alias kind %s (%s: '%s', option variant %d) returned OK",
       D->base, alias_names[kind], variant, path, wrongopt);
    ldb_close(db2);
    L->abandon = 1;
  } else {
    char cname[64];
    snprintf(cname, sizeof(cname), "refused_second_open_%s", alias_names[kind]);
    vh_count(cname, 1);
    vh_distinct("c20_state", "lock|open|second-open-%s-%s-opt%d", alias_names[kind], variant, wrongopt);
    D->refusals_since_open++;
  }
  xopt_free(&x);
  if (link[0]) unlink(link);
  if (!L->abandon) lk_verify_first(L, D, "a refused second open");
}

static void lk_fork_child(lk_t *L, ldbs_t *D) {
  int st = 0, r;
  ldb_verif_wait_idle(D->h.db);
  r = forked_child_open(D->dir, &D->h.cfg, &st);
  vh_count("forked_child_attempts", 1);
  if (r == 1) {
    lv("second-open-succeeded-forked-child", "a forked child process opened %s while the parent holds it open (%d refused in-process attempts before)",
       D->base, D->refusals_since_open);
    L->abandon = 1;
  } else if (r == 0) {
    vh_count("refused_second_open_forked_child", 1);
    vh_distinct("c20_state", "lock|open|second-open-forked-child");
  } else {
    lv("forked-child-crashed", "forked child trying ldb_open(%s) ended with wait status 0x%x", D->base, st);
    L->abandon = 1;
  }
  if (!L->abandon) lk_verify_first(L, D, "a refused open in a forked child");
}

static void lk_helper(lk_t *L, ldbs_t *D) {
  int rc;
  if (D->is_open) {
    ldb_verif_wait_idle(D->h.db);
    rc = helper_open(D->dir, D->h.cfg.cmp_kind, 0);
    vh_count("other_process_attempts", 1);
    if (rc == LDB_OK) {
      if (D->refusals_since_open > 0)
        lv("second-open-succeeded-other-process-after-refused-open",
           "another process opened %s while this process holds it open; %d in-process lock attempts on the same LOCK file "
           "were refused since the handle was opened (last: %s) - each closes a descriptor of LOCK, which drops the "
           "process's fcntl record lock", D->base, D->refusals_since_open, D->last_event);
      else
        lv("second-open-succeeded-other-process", "another process opened %s while this process holds it open", D->base);
      L->abandon = 1;
      return;
    }
    vh_count(D->refusals_since_open ? "refused_second_open_other_process_after_refusal" : "refused_second_open_other_process", 1);
    vh_distinct("c20_state", "lock|open|second-open-other-process-%s", D->refusals_since_open ? "after-refusal" : "clean");
    lk_verify_first(L, D, "a refused open in another process");
  } else if (D->exists) {
    rc = helper_open(D->dir, D->h.cfg.cmp_kind, 0);
    vh_count("other_process_opens_closed_db", 1);
    if (rc != LDB_OK) {
      lv(is_lock_error(rc) ? "lock-not-released-after-close" : "reopen-failed",
         "another process could not open the closed database %s: %d (%s); previous event: %s", D->base, rc,
         ldb_strerror(rc), D->last_event);
      L->abandon = 1;
      return;
    }
    lk_event(D, "other-process-open-close");
    lk_open(L, D);
  }
}

/* expected-to-fail opens of a closed database, each followed by a correct open */
enum { FO_CMP, FO_EXISTS, FO_MISSING, FO_CURRENT, FO_IO, FO_KINDS };
static const char *fo_names[] = {"wrong-comparator", "error-if-exists", "missing-no-create", "bad-current", "io-error"};

static void lk_failed_open(lk_t *L, ldbs_t *D, int kind) {
  xopt_t x;
  ldb_t *db2 = NULL;
  int rc, variant = 0;
  char cur[800], saved[256], detail[120] = "";
  size_t savedn = 0;
  dirsnap_t before, after;
  char diff[900];
  uint64_t fired0 = iom_fault_fired();
  int check_unmodified = 1;

  if (kind == FO_MISSING) {
    /* a sibling path that never held a database */
    char mdir[800];
    dbh_t h2;
    mm_t mm;
    model_t empty;
    snprintf(mdir, sizeof(mdir), "%s/missing-%d", L->cdir, L->serial++);
    if (vr_chance(&L->r, 500)) mk_dir(mdir);    /* directory exists but holds no database */
    xopt_make(&x, &D->h.cfg, D->h.cfg.cmp_kind, 0, 0, 0, 0);
    rc = ldb_open(mdir, &x.o, &db2);
    vh_count("failed_open_attempts", 1);
    if (rc == LDB_OK) {
      lv("bad-open-accepted", "ldb_open of the missing database %s with create_if_missing=0 returned OK", mdir);
      ldb_close(db2);
      L->abandon = 1;
    } else {
      vh_count("failed_open_missing_no_create", 1);
      dbh_init(&h2, mdir, &D->h.cfg);
      rc = dbh_open(&h2, 1);
      vh_count("opens", 1);
      if (rc != LDB_OK) {
        lv(is_lock_error(rc) ? "lock-not-released-after-failed-open" : "open-failed-after-failed-open",
           "creating %s right after a failed open (missing, create_if_missing=0) returned %d (%s)", mdir, rc, ldb_strerror(rc));
        L->abandon = 1;
      } else {
        m_init(&empty, D->h.cfg.cmp_kind);
        m_add_key(&empty, "k", 1);
        m_finalize(&empty);
        check_equal(h2.db, &empty, 0, &mm);
        if (mm.n > 0) lv("contents-changed-by-failed-open", "fresh database %s is not empty: %s", mdir, mm.first);
        m_free(&empty);
        vh_count("opens_after_failed_open", 1);
        vh_distinct("c20_state", "lock|missing|open-after-failed-open:missing-no-create");
      }
      dbh_destroy(&h2);
    }
    xopt_free(&x);
    rm_rf(mdir);
    return;
  }

  snprintf(cur, sizeof(cur), "%s/CURRENT", D->dir);
  switch (kind) {
    case FO_CMP:
      variant = 1 + (int)vr_uniform(&L->r, CMP_KINDS - 1);
      xopt_make(&x, &D->h.cfg, (D->h.cfg.cmp_kind + variant) % CMP_KINDS, 1, 0, (int)vr_uniform(&L->r, 2), 0);
      snprintf(detail, sizeof(detail), "created cmp%d opened cmp%d", D->h.cfg.cmp_kind, (D->h.cfg.cmp_kind + variant) % CMP_KINDS);
      break;
    case FO_EXISTS:
      xopt_make(&x, &D->h.cfg, D->h.cfg.cmp_kind, (int)vr_uniform(&L->r, 2), 1, 0, 0);
      break;
    case FO_CURRENT: {
      variant = (int)vr_uniform(&L->r, 5);
      savedn = read_small(cur, saved, sizeof(saved));
      switch (variant) {
        case 0: write_file(cur, "", 0); snprintf(detail, sizeof(detail), "empty"); break;
        case 1: write_file(cur, "MANIFEST-000002", 15); snprintf(detail, sizeof(detail), "no-newline"); break;
        case 2: write_file(cur, "MANIFEST-999999\n", 16); snprintf(detail, sizeof(detail), "missing-manifest"); break;
        case 3: write_file(cur, "xyzzy\n", 6); snprintf(detail, sizeof(detail), "garbage-name"); break;
        default: write_junk(cur, &L->r, 1 + vr_uniform(&L->r, 60)); snprintf(detail, sizeof(detail), "random-bytes"); break;
      }
      xopt_make(&x, &D->h.cfg, D->h.cfg.cmp_kind, 1, 0, (int)vr_uniform(&L->r, 2), 0);
      break;
    }
    default: {
      /* faults that recovery cannot ignore: MANIFEST always; the log only with paranoid_checks */
      static const int errs[] = {EIO, EACCES, EMFILE, ENOMEM};
      int err = errs[vr_uniform(&L->r, 4)];
      variant = (int)vr_uniform(&L->r, 4);
      iom_fault_clear();
      switch (variant) {
        case 0: iom_fault_add(IOP_OPEN, PC_MANIFEST, 1, err, 0, IOF_CLEAN); snprintf(detail, sizeof(detail), "open-manifest errno=%d", err); break;
        case 1: iom_fault_add(IOP_READ, PC_MANIFEST, 1, err, 0, IOF_CLEAN); snprintf(detail, sizeof(detail), "read-manifest errno=%d", err); break;
        case 2: iom_fault_add(IOP_OPEN, PC_LOG, 1, err, 0, IOF_CLEAN); snprintf(detail, sizeof(detail), "open-log errno=%d", err); break;
        default: iom_fault_add(IOP_READ, PC_LOG, 1, err, 0, IOF_CLEAN); snprintf(detail, sizeof(detail), "read-log errno=%d", err); break;
      }
      xopt_make(&x, &D->h.cfg, D->h.cfg.cmp_kind, 1, 0, 1, 0);
      check_unmodified = variant < 2;   /* a log fault may leave an orphan table behind */
      break;
    }
  }
  snap_take(&before, D->dir);
  rc = ldb_open(D->dir, &x.o, &db2);
  iom_fault_clear();
  vh_count("failed_open_attempts", 1);
  snap_take(&after, D->dir);
  if (kind == FO_CURRENT) write_file(cur, saved, savedn);

  if (rc == LDB_OK) {
    if (kind == FO_IO && iom_fault_fired() == fired0) {
      /* nothing was injected: this was an ordinary successful open */
      vh_count("fault_not_fired", 1);
      ldb_close(db2);
      lk_event(D, "close");
    } else {
      lv(kind == FO_CMP ? "comparator-mismatch-accepted" : "bad-open-accepted",
         "ldb_open of %s that must fail (%s: %s) returned OK", D->base, fo_names[kind], detail);
      ldb_close(db2);
      L->abandon = 1;
    }
  } else {
    char cname[80];
    snprintf(cname, sizeof(cname), "failed_open_%s", fo_names[kind]);
    vh_count(cname, 1);
    vh_distinct("c20_state", "lock|closed|failed-open-%s-%d", fo_names[kind], variant);
    if (check_unmodified && snap_diff(&before, &after, ignore_info, diff, sizeof(diff)) > 0) {
      lv(kind == FO_CMP ? "comparator-mismatch-modified-files" : "failed-open-modified-files",
         "failed open (%s: %s, rc=%d) changed the directory of %s: %s", fo_names[kind], detail, rc, D->base, diff);
      L->abandon = 1;
    }
    lk_event(D, "failed-open:%s", fo_names[kind]);
  }
  xopt_free(&x);
  snap_free(&before);
  snap_free(&after);
  /* the lock must have been released: a correct open succeeds immediately */
  if (!L->abandon) lk_open(L, D);
}

/* ldb_copy / ldb_destroy of a database that is open in this process */
static void lk_copy_destroy_open(lk_t *L, ldbs_t *D, int destroy) {
  dirsnap_t before, after;
  char to[800], diff[900];
  int rc;
  ldb_verif_wait_idle(D->h.db);
  snap_take(&before, D->dir);
  snprintf(to, sizeof(to), "%s/cp-%d", L->cdir, L->serial++);
  if (destroy) rc = ldb_destroy(D->dir, ldb_dbopt_default);
  else rc = ldb_copy(D->dir, to, ldb_dbopt_default);
  snap_take(&after, D->dir);
  vh_count(destroy ? "destroy_open_attempts" : "copy_open_attempts", 1);
  if (rc == LDB_OK) {
    lv(destroy ? "destroy-of-open-db-allowed" : "copy-of-open-db-allowed", "%s of %s returned OK while the database is open in this process",
       destroy ? "ldb_destroy" : "ldb_copy", D->base);
    L->abandon = 1;
  } else if (snap_diff(&before, &after, NULL, diff, sizeof(diff)) > 0) {
    lv(destroy ? "destroy-of-open-db-allowed" : "copy-of-open-db-allowed", "refused %s (rc=%d) of the open database %s still changed its directory: %s",
       destroy ? "ldb_destroy" : "ldb_copy", rc, D->base, diff);
    L->abandon = 1;
  } else if (!destroy && path_exists(to)) {
    lv("copy-of-open-db-allowed", "refused ldb_copy (rc=%d) of the open database %s left a target directory behind", rc, D->base);
    L->abandon = 1;
  } else {
    vh_count(destroy ? "refused_destroy_of_open_db" : "refused_copy_of_open_db", 1);
    vh_distinct("c20_state", "lock|open|%s-refused", destroy ? "destroy" : "copy");
    D->refusals_since_open++;
    lk_event(D, destroy ? "refused-destroy" : "refused-copy");
  }
  snap_free(&before);
  snap_free(&after);
  rm_rf(to);
  if (!L->abandon) lk_verify_first(L, D, destroy ? "a refused ldb_destroy" : "a refused ldb_copy");
}

/* ldb_backup into a path that already exists */
static void lk_backup_existing(lk_t *L, ldbs_t *D) {
  char tgt[800], f[900], diff[900];
  dirsnap_t before, after;
  int rc, variant = (int)vr_uniform(&L->r, 4);
  const char *vn;
  snprintf(tgt, sizeof(tgt), "%s/tgt-%d", L->cdir, L->serial++);
  if (variant == 0) {
    mk_dir(tgt); vn = "empty-dir";
  } else if (variant == 1) {
    mk_dir(tgt);
    snprintf(f, sizeof(f), "%s/keep.txt", tgt); write_junk(f, &L->r, 100);
    snprintf(f, sizeof(f), "%s/000005.ldb", tgt); write_junk(f, &L->r, 300);
    snprintf(f, sizeof(f), "%s/CURRENT", tgt); write_file(f, "MANIFEST-000004\n", 16);
    snprintf(f, sizeof(f), "%s/MANIFEST-000004", tgt); write_junk(f, &L->r, 80);
    vn = "dir-with-files";
  } else if (variant == 2) {
    write_junk(tgt, &L->r, 50); vn = "regular-file";
  } else {
    snprintf(tgt, sizeof(tgt), "%s", D->dir); vn = "the-source-itself";
    ldb_verif_wait_idle(D->h.db);
  }
  snap_take(&before, tgt);
  rc = ldb_backup(D->h.db, tgt);
  snap_take(&after, tgt);
  vh_count("backup_existing_target_attempts", 1);
  if (rc == LDB_OK) {
    lv("backup-overwrote-existing-target", "ldb_backup of %s into the existing path %s (%s) returned OK", D->base, tgt, vn);
    L->abandon = 1;
  } else if (snap_diff(&before, &after, NULL, diff, sizeof(diff)) > 0) {
    lv("backup-overwrote-existing-target", "refused ldb_backup (rc=%d) into the existing path (%s) changed it: %s", rc, vn, diff);
    L->abandon = 1;
  } else {
    vh_count("refused_backup_existing_target", 1);
    vh_distinct("c20_state", "lock|open|backup-existing-%s", vn);
  }
  snap_free(&before);
  snap_free(&after);
  if (variant != 3) rm_rf(tgt);
  if (!L->abandon) lk_verify_first(L, D, "a refused ldb_backup");
}

static void lk_copy_closed(lk_t *L, ldbs_t *D) {
  char to[800], diff[900];
  dirsnap_t before, after;
  int rc, existing = vr_chance(&L->r, 300);
  snprintf(to, sizeof(to), "%s/cpc-%d", L->cdir, L->serial++);
  if (existing) { char f[900]; mk_dir(to); snprintf(f, sizeof(f), "%s/keep.txt", to); write_junk(f, &L->r, 64); }
  snap_take(&before, existing ? to : D->dir);
  rc = ldb_copy(D->dir, to, ldb_dbopt_default);
  snap_take(&after, existing ? to : D->dir);
  vh_count("copies_of_closed_db", 1);
  if (existing) {
    if (rc == LDB_OK || snap_diff(&before, &after, NULL, diff, sizeof(diff)) > 0) {
      lv("backup-overwrote-existing-target", "ldb_copy of %s into an existing directory: rc=%d, directory %s", D->base, rc,
         rc == LDB_OK ? "accepted" : diff);
      L->abandon = 1;
    }
  } else if (rc != LDB_OK) {
    lv("backup-failed", "ldb_copy of the closed database %s returned %d (%s); previous event: %s", D->base, rc, ldb_strerror(rc), D->last_event);
    L->abandon = 1;
  } else {
    dbh_t h2;
    mm_t mm;
    if (snap_diff(&before, &after, ignore_info, diff, sizeof(diff)) > 0) {
      lv("source-changed-by-backup", "ldb_copy changed the closed source %s: %s", D->base, diff);
      L->abandon = 1;
    }
    dbh_init(&h2, to, &D->h.cfg);
    rc = dbh_open(&h2, 0);
    if (rc != LDB_OK) {
      lv("backup-not-openable", "copy of the closed database %s does not open: %d (%s)", D->base, rc, ldb_strerror(rc));
      L->abandon = 1;
    } else {
      check_equal(h2.db, &D->m, D->m.version, &mm);
      if (mm.n > 0) {
        lv("backup-contents-differ", "copy of the closed database %s: %d mismatches: %s", D->base, mm.n, mm.first);
        L->abandon = 1;
      }
    }
    dbh_destroy(&h2);
    vh_distinct("c20_state", "lock|closed|copy");
  }
  snap_free(&before);
  snap_free(&after);
  rm_rf(to);
  lk_event(D, "copy");
  if (!L->abandon) lk_open(L, D);   /* the source lock must be free again */
}

static void lk_destroy_closed(lk_t *L, ldbs_t *D) {
  int rc = ldb_destroy(D->dir, ldb_dbopt_default);
  size_t i;
  vh_count("destroys_of_closed_db", 1);
  if (rc != LDB_OK) {
    lv("destroy-failed", "ldb_destroy of the closed database %s returned %d (%s); previous event: %s", D->base, rc, ldb_strerror(rc), D->last_event);
    L->abandon = 1;
    return;
  }
  if (path_exists(D->dir)) {
    dirsnap_t s;
    snap_take(&s, D->dir);
    lv("destroy-left-owned-file", "after ldb_destroy the directory %s still exists with %zu entries (first: %s)", D->base, s.n,
       s.n ? s.e[0].rel : "-");
    snap_free(&s);
    L->abandon = 1;
    return;
  }
  for (i = 0; i < D->m.nrows; i++) if (m_live(&D->m, (int)i, D->m.version)) m_del(&D->m, (int)i);
  D->exists = 0;
  lk_event(D, "destroy");
  vh_distinct("c20_state", "lock|closed|destroy");
}

static void lock_case(int caseidx) {
  lk_t *L = calloc(1, sizeof(lk_t));
  int steps, i, nrefused = 0;
  double t0 = vh_now();
  vr_seed(&L->r, g_seed * 1000003ULL + (uint64_t)caseidx * 7919ULL + 11);
  snprintf(L->cdir, sizeof(L->cdir), "%s/lock-%d", g_base, caseidx);
  rm_rf(L->cdir);
  mk_dir(L->cdir);
  iom_trace_reset();
  iom_clear_roots();
  iom_fault_clear();
  L->ndb = 1 + (int)vr_uniform(&L->r, 2);
  for (i = 0; i < L->ndb; i++) {
    ldbs_t *D = &L->d[i];
    cfg_t cfg;
    cfg_random(&cfg, &L->r);
    snprintf(D->parent, sizeof(D->parent), "%s", L->cdir);
    snprintf(D->base, sizeof(D->base), "db%d", i);
    snprintf(D->dir, sizeof(D->dir), "%s/%s", D->parent, D->base);
    iom_add_root(D->dir);
    dbh_init(&D->h, D->dir, &cfg);
    m_init(&D->m, cfg.cmp_kind);
    universe_generate(&D->m, &L->r, 10 + (int)vr_uniform(&L->r, 30));
    lk_event(D, "none");
  }
  steps = 20 + (int)vr_uniform(&L->r, 181);
  for (g_step = 0; g_step < steps && !L->abandon; g_step++) {
    ldbs_t *D = &L->d[vr_uniform(&L->r, (uint32_t)L->ndb)];
    uint32_t c = vr_uniform(&L->r, 100);
    if (D->is_open) {
      if (c < 18) lk_write_some(L, D, 1 + (int)vr_uniform(&L->r, 5));
      else if (c < 21) { if (ldb_test_compact_memtable(D->h.db) != LDB_OK) lv("write-failed", "flush failed"); }
      else if (c < 29) lk_second_open(L, D, 0);
      else if (c < 37) lk_second_open(L, D, 1);
      else if (c < 45) lk_second_open(L, D, 2);
      else if (c < 53) lk_second_open(L, D, 3);
      else if (c < 59) lk_fork_child(L, D);
      else if (c < 68) lk_helper(L, D);
      else if (c < 73) lk_copy_destroy_open(L, D, 0);
      else if (c < 78) lk_copy_destroy_open(L, D, 1);
      else if (c < 82) lk_backup_existing(L, D);
      else if (c < 85) lk_verify_first(L, D, "nothing");
      else lk_close(L, D);
      nrefused += D->refusals_since_open > 0;
    } else {
      if (!D->exists) {
        if (c < 20) lk_failed_open(L, D, FO_MISSING);
        else lk_open(L, D);
      } else if (c < 30) lk_open(L, D);
      else if (c < 40) lk_failed_open(L, D, FO_CMP);
      else if (c < 49) lk_failed_open(L, D, FO_EXISTS);
      else if (c < 54) lk_failed_open(L, D, FO_MISSING);
      else if (c < 66) lk_failed_open(L, D, FO_CURRENT);
      else if (c < 78) lk_failed_open(L, D, FO_IO);
      else if (c < 86) lk_helper(L, D);
      else if (c < 93) lk_copy_closed(L, D);
      else lk_destroy_closed(L, D);
    }
  }
  /* epilogue: every database closes, reopens with its contents, closes */
  for (i = 0; i < L->ndb && !L->abandon; i++) {
    ldbs_t *D = &L->d[i];
    if (D->is_open) lk_close(L, D);
    if (D->exists) { lk_open(L, D); if (D->is_open) lk_close(L, D); }
  }
  vh_count("cases", 1);
  vh_count("steps", (uint64_t)g_step);
  if (caseidx % 16 == 0 || L->abandon)
    vh_sample("C20", "lock case %d seed %llu: %d databases, %d steps%s, wall=%.2fs", caseidx, (unsigned long long)g_seed,
              L->ndb, g_step, L->abandon ? " (abandoned after a violation)" : "", vh_now() - t0);
  for (i = 0; i < L->ndb; i++) {
    dbh_destroy(&L->d[i].h);
    m_free(&L->d[i].m);
  }
  iom_fault_clear();
  iom_clear_roots();
  rm_rf(L->cdir);
  free(L);
}

/* @@MODES@@ */

/* ================================================================== */

int main(int argc, char **argv) {
  int first = 0, count = 1, i;
  const char *base = "/dev/shm/verif-lifemon";
  char *rp;
  for (i = 1; i < argc; i++) {
    if (!strcmp(argv[i], "--seed") && i + 1 < argc) g_seed = strtoull(argv[++i], NULL, 0);
    else if (!strcmp(argv[i], "--first") && i + 1 < argc) first = atoi(argv[++i]);
    else if (!strcmp(argv[i], "--count") && i + 1 < argc) count = atoi(argv[++i]);
    else if (!strcmp(argv[i], "--dir") && i + 1 < argc) base = argv[++i];
    else if (!strcmp(argv[i], "--mode") && i + 1 < argc) g_mode = argv[++i];
    else { fprintf(stderr, "unknown argument %s\n", argv[i]); return 2; }
  }
  if (strcmp(g_mode, "lock") && strcmp(g_mode, "backup") && strcmp(g_mode, "destroy") && strcmp(g_mode, "cmp") &&
      strcmp(g_mode, "conc")) {
    fprintf(stderr, "unknown mode %s\n", g_mode);
    return 2;
  }
  vh_init(NULL);
  signal(SIGPIPE, SIG_IGN);
  mallopt(M_MMAP_THRESHOLD, 64 << 20);
  vh_mkdir_p(base);
  rp = realpath(base, NULL);
  if (rp == NULL) vh_fatal("cannot resolve %s", base);
  snprintf(g_base, sizeof(g_base), "%s", rp);
  free(rp);
  if (!strcmp(g_mode, "lock")) helper_start();   /* before any thread or database exists */
  for (i = first; i < first + count; i++) {
    g_case = i;
    g_step = 0;
    vh_set_context("lifemon mode=%s seed=%llu case=%d", g_mode, (unsigned long long)g_seed, i);
    if (!strcmp(g_mode, "lock")) lock_case(i);
#ifdef LIFEMON_ALL
    else if (!strcmp(g_mode, "backup")) backup_case(i);
    else if (!strcmp(g_mode, "destroy")) destroy_case(i);
    else if (!strcmp(g_mode, "cmp")) cmp_case(i);
    else conc_case(i);
#endif
  }
  helper_stop();
  vh_finish();
  return 0;
}

/* concmon - concurrency monitor under the serialising scheduler (E5b) and on
 * native threads (E5c).
 *
 * Serves C08 (linearizability: histories recorded at the client boundary and
 * checked offline), C09 (deadlock / lost wake-up / stuck call: logical deadlock
 * detector of the scheduler), C04 concurrent half (a snapshot or iterator never
 * shows part of a batch).
 *
 * usage: concmon --seed S --first I --count N --dir D [--native 1] [--variant V]
 * Each schedule runs in a forked child (a deadlock cannot be unwound).
 */
#include <errno.h>
#include <fcntl.h>
#include <malloc.h>
#include <pthread.h>
#include <signal.h>
#include <sys/mman.h>
#include <sys/stat.h>
#include <sys/wait.h>
#include <unistd.h>

#include "dbh.h"
#include "iomon.h"
#include "vh.h"
#include "vsched.h"

#include "util/verif.h"

#define MAXW 6          /* writers */
#define MAXR 6          /* readers/others */
#define KPW 8           /* keys per writer */
#define NSHARED 3
#define MAXOPS 120
#define MAXKEYS (MAXW * KPW + NSHARED)
#define MAXBATCH 200

enum { V_MIXED, V_GROUP, V_STALL, V_L0STOP, V_TWOMANUAL, V_BACKUP, V_BGERROR, V_TINY, V_REOPENL0, V_NVARIANTS };
static const char *variant_name[] = {"mixed", "group-commit", "buffer-stall", "l0-stop", "two-manual-compactions", "backup", "bg-error", "tiny-enumerated", "reopen-with-many-l0-files"};

typedef struct upd_s { int key, del; uint64_t vid; } upd_t;

typedef struct wop_s {        /* one write batch of a writer */
  int b, nupd, sync, rc;
  upd_t upd[KPW + 1];
  uint64_t inv, ret;
} wop_t;

enum { R_GET, R_SNAP, R_ITER, R_FLUSH, R_CRANGE, R_PROP, R_APPROX, R_BACKUP, R_COMPACTALL };

typedef struct rop_s {
  int kind, key, rc;
  uint64_t inv, ret;            /* of the call that fixes the view (get / snapshot / iterator creation) */
  uint64_t seen[MAXKEYS];       /* R_GET: seen[0]; R_SNAP/R_ITER: per key; 0 = not found, ~0 = error */
  uint64_t seen2[MAXKEYS];      /* R_SNAP: the same view read through an iterator created with the snapshot */
  int have2;
  int changed_key; uint64_t changed_from, changed_to;   /* R_SNAP: re-read through the same snapshot before release differs (-1 = stable) */
} rop_t;

typedef struct thr_s {
  int idx, is_writer, nops;
  wop_t *w;
  rop_t *r;
  vrng_t rng;
  pthread_t th;
  int spawned;
} thr_t;

static dbh_t H;
static thr_t T[MAXW + MAXR];
static int NW, NR, variant, native_mode;
static uint64_t g_seed;
static int g_sched;
static uint64_t native_clock;
static uint8_t *vbuf_tls[MAXW + MAXR + 1];
static int expect_errors;     /* V_BGERROR: statuses may be errors, value checks off */

/* systematic enumeration (--enum-scen): the scenario is fixed by its number, the schedule by up to two deviations
   from the default non-preemptive schedule (vsched.h SS_ENUM); results of a child come back through shared memory */
static int enum_mode, enum_n;
static uint64_t enum_target[2];
typedef struct enum_res_s { uint64_t alts[3], sig, steps; int taken, done; } enum_res_t;
static enum_res_t *enum_res;

/* commit witness from the hooks */
static uint64_t commits_first[4096], commits_last[4096];
static int ncommits;
static uint64_t hook_points[16];

static uint64_t now_clock(void) {
  if (native_mode) return __atomic_add_fetch(&native_clock, 1, __ATOMIC_SEQ_CST);
  return sched_step();
}

static size_t key_bytes(char *buf, int key) {
  if (key < MAXW * KPW) return (size_t)sprintf(buf, "w%d/k%d", key / KPW, key % KPW);
  return (size_t)sprintf(buf, "s/k%d", key - MAXW * KPW);
}

static uint32_t vlen_of(uint64_t vid) {
  uint64_t h = vid * 0x9e3779b97f4a7c15ULL;
  h ^= h >> 29;
  if (vid & 2) return 30000 + (uint32_t)(h % 30000);     /* member of a big batch (> 128 KiB in total) */
  if (variant == V_STALL || variant == V_L0STOP) return 2000 + (uint32_t)(h % 12000);
  if ((h % 1000) < 800) return 8 + (uint32_t)((h >> 10) % 300);
  if ((h % 1000) < 960) return 1000 + (uint32_t)((h >> 10) % 6000);
  return 8000 + (uint32_t)((h >> 10) % 22000);
}

/* vid = writer+1 (8 bits) | batch (24 bits) | key (12 bits) | 1 */
static uint64_t make_vid(int writer, int b, int key) {
  return (((uint64_t)(writer + 1) << 40) | ((uint64_t)b << 16) | ((uint64_t)key << 4) | 1);
}
#define VID_BIG 2
static int vid_writer(uint64_t v) { return (int)(v >> 40) - 1; }
static int vid_batch(uint64_t v) { return (int)((v >> 16) & 0xffffff); }
static int vid_key(uint64_t v) { return (int)((v >> 4) & 0xfff); }

static void io_hook(int op, int pc) { (void)op; (void)pc; sched_point(SP_IO); }

static void vp_hook(int id, const void *p, uint64_t a, uint64_t b) {
  (void)p;
  if (id >= 0 && id < 16) hook_points[id]++;
  if (id == LDB_VP_WRITE_LOGGED && ncommits < 4096) {
    commits_first[ncommits] = a;
    commits_last[ncommits] = b;
    ncommits++;
  }
  if (!native_mode) {
    /* the interesting windows: between inserts of one batch, between WAL append and publication */
    if (id == LDB_VP_SKIPLIST_LINK || id == LDB_VP_WRITE_LOGGED) sched_point(SP_HOOK);
  } else if (id == LDB_VP_SKIPLIST_LINK && (hook_points[id] & 7) == 0) {
    sched_yield();
  }
}

/* ------------------------------------------------------------------ */
/* thread bodies */

static uint64_t read_value(const ldb_slice_t *v) {
  uint64_t vid = vh_value_vid(v->data, v->size);
  if (v->size < 8 || v->size != vlen_of(vid) || !vh_check_value(v->data, v->size, vid)) return ~(uint64_t)1; /* garbage */
  return vid;
}

static void *writer_main(void *arg) {
  thr_t *t = arg;
  int i, j;
  char kb[32];
  uint8_t *vb = vbuf_tls[t->idx];
  if (!native_mode) sched_mark_harness_thread();
  for (i = 0; i < t->nops; i++) {
    wop_t *w = &t->w[i];
    ldb_batch_t *b = ldb_batch_create();
    ldb_writeopt_t wo = *ldb_writeopt_default;
    for (j = 0; j < w->nupd; j++) {
      ldb_slice_t k = ldb_slice(kb, key_bytes(kb, w->upd[j].key));
      if (w->upd[j].del) ldb_batch_del(b, &k);
      else {
        uint32_t len = vlen_of(w->upd[j].vid);
        ldb_slice_t v;
        vh_fill_value(vb, len, w->upd[j].vid);
        v = ldb_slice(vb, len);
        ldb_batch_put(b, &k, &v);
      }
    }
    wo.sync = w->sync;
    if (!native_mode) sched_label("write");
    w->inv = now_clock();
    w->rc = ldb_write(H.db, b, &wo);
    w->ret = now_clock();
    ldb_batch_destroy(b);
  }
  if (!native_mode) sched_label("done");
  return NULL;
}

static void read_all_through_iter(ldb_iter_t *it, uint64_t *seen) {
  int k;
  char kb[32];
  for (k = 0; k < MAXKEYS; k++) seen[k] = 0;
  for (ldb_iter_first(it); ldb_iter_valid(it); ldb_iter_next(it)) {
    ldb_slice_t key = ldb_iter_key(it), v = ldb_iter_value(it);
    for (k = 0; k < MAXKEYS; k++) {
      size_t n = key_bytes(kb, k);
      if (n == key.size && memcmp(kb, key.data, n) == 0) { seen[k] = read_value(&v); break; }
    }
  }
  if (ldb_iter_status(it) != LDB_OK) for (k = 0; k < MAXKEYS; k++) seen[k] = ~(uint64_t)0;
}

static void *reader_main(void *arg) {
  thr_t *t = arg;
  int i, k;
  char kb[32];
  if (!native_mode) sched_mark_harness_thread();
  for (i = 0; i < t->nops; i++) {
    rop_t *r = &t->r[i];
    switch (r->kind) {
      case R_GET: {
        ldb_slice_t key = ldb_slice(kb, key_bytes(kb, r->key)), v;
        if (!native_mode) sched_label("get");
        r->inv = now_clock();
        r->rc = ldb_get(H.db, &key, &v, NULL);
        r->ret = now_clock();
        if (r->rc == LDB_OK) { r->seen[0] = read_value(&v); ldb_free(v.data); }
        else r->seen[0] = r->rc == LDB_NOTFOUND ? 0 : ~(uint64_t)0;
        break;
      }
      case R_SNAP: {
        const ldb_snapshot_t *s;
        ldb_readopt_t ro = *ldb_readopt_default;
        if (!native_mode) sched_label("snapshot");
        r->inv = now_clock();
        s = ldb_snapshot(H.db);
        r->ret = now_clock();
        ro.snapshot = s;
        if (!native_mode) sched_label("get(snapshot)");
        for (k = 0; k < MAXKEYS; k++) {
          ldb_slice_t key = ldb_slice(kb, key_bytes(kb, k)), v;
          int rc = ldb_get(H.db, &key, &v, &ro);
          if (rc == LDB_OK) { r->seen[k] = read_value(&v); ldb_free(v.data); }
          else r->seen[k] = rc == LDB_NOTFOUND ? 0 : ~(uint64_t)0;
        }
        if ((vr_next(&t->rng) & 1) == 0) {
          ldb_iter_t *it;
          ro = *ldb_iteropt_default;
          ro.snapshot = s;
          if (!native_mode) sched_label("iterator(snapshot)");
          it = ldb_iterator(H.db, &ro);
          read_all_through_iter(it, r->seen2);
          ldb_iter_destroy(it);
          r->have2 = 1;
        }
        /* the view must not move while the snapshot is held: read everything once more */
        r->changed_key = -1;
        ro = *ldb_readopt_default;
        ro.snapshot = s;
        if (!native_mode) sched_label("get(snapshot) again");
        for (k = 0; k < MAXKEYS; k++) {
          ldb_slice_t key = ldb_slice(kb, key_bytes(kb, k)), v;
          uint64_t again;
          int rc = ldb_get(H.db, &key, &v, &ro);
          if (rc == LDB_OK) { again = read_value(&v); ldb_free(v.data); }
          else again = rc == LDB_NOTFOUND ? 0 : ~(uint64_t)0;
          if (again != r->seen[k] && r->changed_key < 0) { r->changed_key = k; r->changed_from = r->seen[k]; r->changed_to = again; }
        }
        if (!native_mode) sched_label("release");
        ldb_release(H.db, s);
        break;
      }
      case R_ITER: {
        ldb_iter_t *it;
        if (!native_mode) sched_label("iterator");
        r->inv = now_clock();
        it = ldb_iterator(H.db, NULL);
        r->ret = now_clock();
        if (!native_mode) sched_label("scan");
        read_all_through_iter(it, r->seen);
        ldb_iter_destroy(it);
        break;
      }
      case R_FLUSH:
        if (!native_mode) sched_label("flush");
        r->inv = now_clock();
        r->rc = ldb_test_compact_memtable(H.db);
        r->ret = now_clock();
        break;
      case R_CRANGE:
        if (!native_mode) sched_label("compact_range");
        r->inv = now_clock();
        ldb_test_compact_range(H.db, r->key % 3, NULL, NULL);
        r->ret = now_clock();
        break;
      case R_COMPACTALL:
        if (!native_mode) sched_label("compact");
        r->inv = now_clock();
        ldb_compact(H.db, NULL, NULL);
        r->ret = now_clock();
        break;
      case R_PROP: {
        char *val = NULL;
        static const char *props[] = {"leveldb.stats", "leveldb.sstables", "leveldb.approximate-memory-usage", "leveldb.num-files-at-level0"};
        if (!native_mode) sched_label("property");
        r->inv = now_clock();
        ldb_property(H.db, props[r->key % 4], &val);
        r->ret = now_clock();
        if (val) ldb_free(val);
        break;
      }
      case R_APPROX: {
        ldb_range_t rg;
        uint64_t sz;
        char k2[32];
        rg.start = ldb_slice(kb, key_bytes(kb, 0));
        rg.limit = ldb_slice(k2, key_bytes(k2, MAXKEYS - 1));
        if (!native_mode) sched_label("approximate_sizes");
        r->inv = now_clock();
        ldb_approximate_sizes(H.db, &rg, 1, &sz);
        r->ret = now_clock();
        break;
      }
      case R_BACKUP: {
        char bdir[700];
        snprintf(bdir, sizeof(bdir), "%s-bak-%d-%d", H.dir, t->idx, i);
        if (!native_mode) sched_label("backup");
        r->inv = now_clock();
        r->rc = ldb_backup(H.db, bdir);
        r->ret = now_clock();
        iom_pause(1); vh_rm_rf(bdir); iom_pause(-1);
        break;
      }
    }
  }
  if (!native_mode) sched_label("done");
  return NULL;
}

/* ------------------------------------------------------------------ */
/* scenario generation */

static void gen_scenario(vrng_t *r) {
  int i, j, nw, nr, ops;
  switch (variant) {
    case V_GROUP: nw = 3 + (int)vr_uniform(r, 3); nr = 1 + (int)vr_uniform(r, 2); ops = 12 + (int)vr_uniform(r, 20); break;
    case V_STALL: case V_L0STOP: nw = 2 + (int)vr_uniform(r, 2); nr = 1 + (int)vr_uniform(r, 2); ops = 20 + (int)vr_uniform(r, 25); break;
    case V_TWOMANUAL: nw = 2; nr = 3; ops = 12 + (int)vr_uniform(r, 15); break;
    case V_BACKUP: nw = 2; nr = 2; ops = 12 + (int)vr_uniform(r, 15); break;
    case V_BGERROR: nw = 2 + (int)vr_uniform(r, 2); nr = 2; ops = 20 + (int)vr_uniform(r, 20); break;
    case V_TINY: nw = 2 + (g_sched % 3 == 2); nr = 1; ops = 2; break;
    case V_REOPENL0: nw = 1 + (int)vr_uniform(r, 2); nr = (int)vr_uniform(r, 2); ops = 30 + (int)vr_uniform(r, 20); break;
    default: nw = 1 + (int)vr_uniform(r, 4); nr = 1 + (int)vr_uniform(r, 4); ops = 10 + (int)vr_uniform(r, 40); break;
  }
  NW = nw; NR = nr;
  for (i = 0; i < nw; i++) {
    thr_t *t = &T[i];
    memset(t, 0, sizeof(*t));
    t->idx = i; t->is_writer = 1;
    t->nops = ops / 2 + (int)vr_uniform(r, (uint32_t)ops / 2 + 1);
    if (variant == V_TINY) t->nops = 2;
    if (t->nops > MAXOPS) t->nops = MAXOPS;
    t->w = calloc((size_t)t->nops, sizeof(wop_t));
    vr_seed(&t->rng, vr_next(r));
    for (j = 0; j < t->nops; j++) {
      wop_t *w = &t->w[j];
      int nk = (variant == V_GROUP || variant == V_TINY) ? 1 + (int)vr_uniform(r, 2) : 1 + (int)vr_uniform(r, KPW), u, used[KPW] = {0};
      /* now and then a batch far above the 128 KiB group-size threshold, queued among small ones */
      int big = ((variant == V_GROUP || variant == V_MIXED) && vr_chance(r, 90)) || (variant == V_REOPENL0 && vr_chance(r, 150));
      if (big) nk = KPW;
      w->b = j + 1;
      w->sync = vr_chance(r, variant == V_GROUP ? 400 : 150);
      if (variant == V_TINY) w->sync = (g_sched % 3 == 2) && vr_chance(r, 400);
      for (u = 0; u < nk; u++) {
        int kk = big ? u : (int)vr_uniform(r, (variant == V_GROUP || variant == V_TINY) ? 2 : KPW);
        if (used[kk]) continue;
        used[kk] = 1;
        w->upd[w->nupd].key = i * KPW + kk;
        w->upd[w->nupd].del = !big && vr_chance(r, 180);
        w->upd[w->nupd].vid = w->upd[w->nupd].del ? 0 : (make_vid(i, w->b, i * KPW + kk) | (big ? VID_BIG : 0));
        w->nupd++;
      }
      if (big) vh_count("big_batches_generated", 1);
      if (vr_chance(r, variant == V_TINY ? 600 : 250)) {
        int sk = MAXW * KPW + (int)vr_uniform(r, NSHARED);
        w->upd[w->nupd].key = sk;
        w->upd[w->nupd].del = 0;
        w->upd[w->nupd].vid = make_vid(i, w->b, sk);
        w->nupd++;
      }
    }
  }
  for (i = 0; i < nr; i++) {
    thr_t *t = &T[nw + i];
    memset(t, 0, sizeof(*t));
    t->idx = nw + i; t->is_writer = 0;
    t->nops = ops / 2 + (int)vr_uniform(r, (uint32_t)ops / 2 + 1);
    if (variant == V_TINY) t->nops = 3;
    if (t->nops > MAXOPS) t->nops = MAXOPS;
    t->r = calloc((size_t)t->nops, sizeof(rop_t));
    vr_seed(&t->rng, vr_next(r));
    for (j = 0; j < t->nops; j++) {
      rop_t *o = &t->r[j];
      uint32_t c = vr_uniform(r, 1000);
      o->key = (int)vr_uniform(r, MAXKEYS);
      if (o->key < MAXW * KPW && o->key / KPW >= nw) o->key = (int)vr_uniform(r, (uint32_t)(nw * KPW));
      if (variant == V_TWOMANUAL && i < 2) { o->kind = c < 500 ? R_CRANGE : c < 700 ? R_GET : R_SNAP; continue; }
      if (variant == V_BACKUP && i == 0) { o->kind = c < 350 ? R_BACKUP : c < 600 ? R_FLUSH : R_GET; continue; }
      if (variant == V_L0STOP && i == 0) { o->kind = c < 600 ? R_FLUSH : R_GET; continue; }
      if (variant == V_TINY) {
        /* scenario classes: 0 = reads only, 1 = one memtable flush among the reads (background thread joins in),
           2 = three writers with sync/non-sync mix (group commit) */
        if (o->key < MAXW * KPW) o->key = (o->key / KPW) * KPW + (o->key % 2);     /* the two keys each writer uses */
        o->kind = (g_sched % 3 == 1 && j == 1) ? R_FLUSH : c < 400 ? R_GET : c < 750 ? R_SNAP : R_ITER;
        continue;
      }
      if (c < 450) o->kind = R_GET;
      else if (c < 650) o->kind = R_SNAP;
      else if (c < 800) o->kind = R_ITER;
      else if (c < 850) o->kind = R_FLUSH;
      else if (c < 900) o->kind = R_CRANGE;
      else if (c < 940) o->kind = R_PROP;
      else if (c < 970) o->kind = R_APPROX;
      else if (c < 990) o->kind = R_BACKUP;
      else o->kind = R_COMPACTALL;
    }
  }
}

/* ------------------------------------------------------------------ */
/* offline checkers over the recorded history */

typedef struct kw_s { int b, del; uint64_t vid, inv, ret; int rc; } kw_t;   /* writes of one key, program order */

static int key_writes(int key, kw_t *out) {
  int n = 0, i, j, w;
  for (w = 0; w < NW; w++) {
    for (i = 0; i < T[w].nops; i++) {
      const wop_t *o = &T[w].w[i];
      for (j = 0; j < o->nupd; j++) {
        if (o->upd[j].key == key) {
          out[n].b = o->b; out[n].del = o->upd[j].del; out[n].vid = o->upd[j].vid;
          out[n].inv = o->inv; out[n].ret = o->ret; out[n].rc = o->rc;
          n++;
        }
      }
    }
  }
  return n;
}

static void hv(const char *prop, const char *key, const char *fmt, ...) __attribute__((format(printf, 3, 4)));

static void hv(const char *prop, const char *key, const char *fmt, ...) {
  char msg[1500];
  va_list ap;
  va_start(ap, fmt);
  vsnprintf(msg, sizeof(msg), fmt, ap);
  va_end(ap);
  vh_violation(prop, key, "%s | %s schedule %d variant %s seed %llu", msg, native_mode ? "native" : "sched", g_sched,
               variant_name[variant], (unsigned long long)g_seed);
}

typedef struct rd_s { int key; uint64_t seen, inv, ret; const char *how; } rd_t;
static rd_t *reads;
static int nreads, capreads;

static void add_read(int key, uint64_t seen, uint64_t inv, uint64_t ret, const char *how) {
  if (nreads == capreads) { capreads = capreads ? capreads * 2 : 4096; reads = realloc(reads, (size_t)capreads * sizeof(rd_t)); }
  reads[nreads].key = key; reads[nreads].seen = seen; reads[nreads].inv = inv; reads[nreads].ret = ret; reads[nreads].how = how;
  nreads++;
}

static void collect_reads(void) {
  int i, j, k;
  nreads = 0;
  for (i = NW; i < NW + NR; i++) {
    for (j = 0; j < T[i].nops; j++) {
      const rop_t *r = &T[i].r[j];
      if (r->ret == 0) continue;
      if (r->kind == R_GET) add_read(r->key, r->seen[0], r->inv, r->ret, "get");
      else if (r->kind == R_SNAP || r->kind == R_ITER) {
        for (k = 0; k < MAXKEYS; k++) {
          if (k < MAXW * KPW && k / KPW >= NW) continue;
          add_read(k, r->seen[k], r->inv, r->ret, r->kind == R_SNAP ? "get(snapshot)" : "iterator");
          if (r->have2) add_read(k, r->seen2[k], r->inv, r->ret, "iterator(snapshot)");
        }
      }
    }
  }
}

/* (1) single-writer keys: complete SWMR register check */
static void check_swmr(void) {
  int key, i, j;
  kw_t kw[MAXOPS + 1];
  for (key = 0; key < NW * KPW; key++) {
    int nw = key_writes(key, kw);
    int *pos = NULL, nrk = 0;
    rd_t **rk = NULL;
    for (i = 0; i < nreads; i++) if (reads[i].key == key) nrk++;
    if (nrk == 0) continue;
    rk = malloc((size_t)nrk * sizeof(*rk));
    pos = malloc((size_t)nrk * sizeof(int));
    nrk = 0;
    for (i = 0; i < nreads; i++) if (reads[i].key == key) rk[nrk++] = &reads[i];
    /* sort by return time (insertion sort, small) */
    for (i = 1; i < nrk; i++) { rd_t *x = rk[i]; j = i; while (j > 0 && rk[j - 1]->ret > x->ret) { rk[j] = rk[j - 1]; j--; } rk[j] = x; }
    for (i = 0; i < nrk; i++) {
      const rd_t *r = rk[i];
      int L = 0, U = 0, p = -1, floor_ = 0, w;
      vh_count("swmr_reads_checked", 1);
      for (w = 0; w < nw; w++) {
        if (kw[w].ret != 0 && kw[w].ret < r->inv) L = w + 1;
        if (kw[w].inv != 0 && kw[w].inv < r->ret) U = w + 1;
      }
      for (j = 0; j < i; j++) if (rk[j]->ret < r->inv && pos[j] > floor_) floor_ = pos[j];
      if (L < U) vh_count("reads_overlapping_a_write_of_the_key", 1);
      if (r->seen == ~(uint64_t)0) { hv("C08", "read-error-status", "read of key %d via %s returned an error status", key, r->how); pos[i] = L; continue; }
      if (r->seen == ~(uint64_t)1) { hv("C08", "read-garbage-value", "read of key %d via %s returned bytes that were never written", key, r->how); pos[i] = L; continue; }
      if (r->seen != 0) {
        for (w = 0; w < nw; w++) if (!kw[w].del && kw[w].vid == r->seen) p = w + 1;
        if (p < 0) {
          hv("C08", "read-value-never-written", "key %d via %s: value id %llx (writer %d batch %d key %d) was never written to this key",
             key, r->how, (unsigned long long)r->seen, vid_writer(r->seen), vid_batch(r->seen), vid_key(r->seen));
          pos[i] = L;
          continue;
        }
      } else {
        /* not found: initial state or any delete in the window; smallest feasible position >= floor */
        int lo = L > floor_ ? L : floor_;
        for (w = lo; w <= U; w++) {
          if (w == 0 || kw[w - 1].del) { p = w; break; }
        }
        if (p < 0) {
          /* maybe a delete below lo explains it (then it is a stale read) */
          for (w = U; w >= 0; w--) if (w == 0 || kw[w - 1].del) { p = w; break; }
        }
      }
      pos[i] = p;
      if (p < L)
        hv("C08", "stale-read", "key %d via %s [%llu,%llu]: observed write #%d of the key (batch %d) but write #%d (batch %d) had completed before the read began",
           key, r->how, (unsigned long long)r->inv, (unsigned long long)r->ret, p, p ? kw[p - 1].b : 0, L, kw[L - 1].b);
      else if (p > U)
        hv("C08", "read-from-the-future", "key %d via %s [%llu,%llu]: observed write #%d (batch %d) which was invoked only after the read returned",
           key, r->how, (unsigned long long)r->inv, (unsigned long long)r->ret, p, kw[p - 1].b);
      else if (p < floor_)
        hv("C08", "reads-go-backwards", "key %d via %s [%llu,%llu]: observed write #%d although an earlier, non-overlapping read had already observed write #%d",
           key, r->how, (unsigned long long)r->inv, (unsigned long long)r->ret, p, floor_);
    }
    free(rk);
    free(pos);
  }
}

/* (2) shared keys: Gibbons-Korach zones for registers with unique values */
static void check_shared(void) {
  int sk, i, w, j;
  for (sk = MAXW * KPW; sk < MAXKEYS; sk++) {
    struct { uint64_t vid, winv, wret, min_ret, max_inv; int used; } z[MAXW * MAXOPS + 1];
    int nz = 1;
    memset(&z[0], 0, sizeof(z[0]));
    z[0].vid = 0; z[0].winv = 0; z[0].wret = 0; z[0].min_ret = 0; z[0].max_inv = 0; z[0].used = 1;   /* initial: not found */
    for (w = 0; w < NW; w++)
      for (i = 0; i < T[w].nops; i++)
        for (j = 0; j < T[w].w[i].nupd; j++)
          if (T[w].w[i].upd[j].key == sk && T[w].w[i].ret != 0) {
            z[nz].vid = T[w].w[i].upd[j].vid; z[nz].winv = T[w].w[i].inv; z[nz].wret = T[w].w[i].ret;
            z[nz].min_ret = z[nz].wret; z[nz].max_inv = z[nz].winv; z[nz].used = 1;
            nz++;
          }
    for (i = 0; i < nreads; i++) {
      const rd_t *r = &reads[i];
      int f = -1;
      if (r->key != sk) continue;
      vh_count("shared_reads_checked", 1);
      if (r->seen == ~(uint64_t)0 || r->seen == ~(uint64_t)1) { hv("C08", "read-garbage-value", "shared key %d via %s", sk, r->how); continue; }
      for (j = 0; j < nz; j++) if (z[j].vid == r->seen) f = j;
      if (f < 0) { hv("C08", "read-value-never-written", "shared key %d via %s: value id %llx", sk, r->how, (unsigned long long)r->seen); continue; }
      if (f > 0 && r->ret < z[f].winv) {
        hv("C08", "read-from-the-future", "shared key %d via %s returned value of batch %d before that write was invoked", sk, r->how, vid_batch(r->seen));
        continue;
      }
      if (r->ret < z[f].min_ret) z[f].min_ret = r->ret;
      if (r->inv > z[f].max_inv) z[f].max_inv = r->inv;
    }
    /* forward zone: min_ret < max_inv : [min_ret, max_inv]; else backward zone [max_inv, min_ret] */
    for (i = 0; i < nz; i++) {
      for (j = 0; j < nz; j++) {
        int fi = z[i].min_ret < z[i].max_inv, fj = z[j].min_ret < z[j].max_inv;
        if (i == j) continue;
        if (fi && fj && i < j) {
          if (z[i].min_ret < z[j].max_inv && z[j].min_ret < z[i].max_inv)
            hv("C08", "not-linearizable-shared-key", "shared key %d: forward zones of values %llx [%llu,%llu] and %llx [%llu,%llu] overlap",
               sk, (unsigned long long)z[i].vid, (unsigned long long)z[i].min_ret, (unsigned long long)z[i].max_inv,
               (unsigned long long)z[j].vid, (unsigned long long)z[j].min_ret, (unsigned long long)z[j].max_inv);
        } else if (fi && !fj) {
          /* backward zone j = [max_inv_j, min_ret_j] inside forward zone i */
          if (z[j].max_inv > z[i].min_ret && z[j].min_ret < z[i].max_inv)
            hv("C08", "not-linearizable-shared-key", "shared key %d: backward zone of value %llx [%llu,%llu] lies inside forward zone of %llx [%llu,%llu]",
               sk, (unsigned long long)z[j].vid, (unsigned long long)z[j].max_inv, (unsigned long long)z[j].min_ret,
               (unsigned long long)z[i].vid, (unsigned long long)z[i].min_ret, (unsigned long long)z[i].max_inv);
        }
      }
    }
  }
}

/* (3) snapshot / iterator views: one consistent cut, whole batches only */
typedef struct view_s { const uint64_t *seen; uint64_t inv, ret; int j[MAXW]; const char *how; } view_t;

static int fold_matches(int w, int j, const uint64_t *seen) {
  uint64_t cur[KPW];
  int i, u, k;
  memset(cur, 0, sizeof(cur));
  for (i = 0; i < j && i < T[w].nops; i++)
    for (u = 0; u < T[w].w[i].nupd; u++) {
      int key = T[w].w[i].upd[u].key;
      if (key / KPW == w && key < MAXW * KPW) cur[key % KPW] = T[w].w[i].upd[u].del ? 0 : T[w].w[i].upd[u].vid;
    }
  for (k = 0; k < KPW; k++) if (seen[w * KPW + k] != cur[k]) return 0;
  return 1;
}

static void check_cuts(void) {
  view_t *v = NULL;
  int nv = 0, i, j, w, a;
  for (i = NW; i < NW + NR; i++) {
    for (j = 0; j < T[i].nops; j++) {
      const rop_t *r = &T[i].r[j];
      int pass;
      if ((r->kind != R_SNAP && r->kind != R_ITER) || r->ret == 0) continue;
      for (pass = 0; pass < 1 + r->have2; pass++) {
        v = realloc(v, (size_t)(nv + 1) * sizeof(view_t));
        v[nv].seen = pass ? r->seen2 : r->seen;
        v[nv].inv = r->inv; v[nv].ret = r->ret;
        v[nv].how = r->kind == R_SNAP ? (pass ? "iterator(snapshot)" : "get(snapshot)") : "iterator";
        nv++;
      }
      if (r->kind == R_SNAP) {
        vh_count("snapshot_views_reread_before_release", 1);
        if (r->changed_key >= 0) {
          hv("C06", "snapshot-view-changed-while-held", "key %d read %llx through the snapshot and %llx through the same snapshot later (concurrent run)",
             r->changed_key, (unsigned long long)r->changed_from, (unsigned long long)r->changed_to);
          hv("C08", "snapshot-view-changed-while-held", "key %d read %llx through the snapshot and %llx through the same snapshot later",
             r->changed_key, (unsigned long long)r->changed_from, (unsigned long long)r->changed_to);
        }
      }
      if (r->have2) {
        int k;
        for (k = 0; k < MAXKEYS; k++)
          if (r->seen[k] != r->seen2[k]) {
            hv("C08", "snapshot-get-and-iterator-disagree", "key %d: get(snapshot) saw %llx, iterator(snapshot) saw %llx", k,
               (unsigned long long)r->seen[k], (unsigned long long)r->seen2[k]);
            hv("C06", "snapshot-get-and-iterator-disagree", "key %d: get(snapshot) saw %llx, iterator(snapshot) saw %llx (concurrent run)", k,
               (unsigned long long)r->seen[k], (unsigned long long)r->seen2[k]);
            break;
          }
      }
    }
  }
  /* sort by return time; assign to every view the smallest batch count per writer that explains it, is inside
     its real-time window and is not behind any earlier, non-overlapping view (greedy is complete here) */
  for (i = 1; i < nv; i++) { view_t x = v[i]; j = i; while (j > 0 && v[j - 1].ret > x.ret) { v[j] = v[j - 1]; j--; } v[j] = x; }
  for (i = 0; i < nv; i++) {
    int skip = 0, k;
    for (k = 0; k < MAXKEYS; k++) if (v[i].seen[k] == ~(uint64_t)0 || v[i].seen[k] == ~(uint64_t)1) skip = 1;
    vh_count("views_checked", 1);
    for (w = 0; w < NW; w++) {
      int lo = 0, hi = 0, jj, found = -1, floor_ = 0;
      v[i].j[w] = 0;
      if (skip) continue;
      for (jj = 0; jj < T[w].nops; jj++) {
        if (T[w].w[jj].ret != 0 && T[w].w[jj].ret < v[i].inv) lo = jj + 1;
        if (T[w].w[jj].inv != 0 && T[w].w[jj].inv < v[i].ret) hi = jj + 1;
      }
      for (a = 0; a < i; a++) if (v[a].ret < v[i].inv && v[a].j[w] > floor_) floor_ = v[a].j[w];
      if (lo < hi) vh_count("views_overlapping_a_write", 1);
      for (jj = lo > floor_ ? lo : floor_; jj <= hi; jj++) if (fold_matches(w, jj, v[i].seen)) { found = jj; break; }
      if (found >= 0) { v[i].j[w] = found; continue; }
      /* diagnose */
      for (jj = lo; jj <= hi; jj++) if (fold_matches(w, jj, v[i].seen)) { found = jj; break; }
      if (found >= 0) {
        hv("C08", "views-go-backwards", "%s view [%llu,%llu] shows writer %d after %d batches, but an earlier non-overlapping view had already shown %d",
           v[i].how, (unsigned long long)v[i].inv, (unsigned long long)v[i].ret, w, found, floor_);
        v[i].j[w] = floor_;
        continue;
      }
      for (jj = 0; jj <= T[w].nops; jj++) if (fold_matches(w, jj, v[i].seen)) { found = jj; break; }
      if (found >= 0) {
        hv("C08", found < lo ? "stale-view" : "view-from-the-future", "%s view [%llu,%llu] shows writer %d after %d batches, real-time window is [%d,%d]",
           v[i].how, (unsigned long long)v[i].inv, (unsigned long long)v[i].ret, w, found, lo, hi);
        v[i].j[w] = lo > floor_ ? lo : floor_;
      } else {
        char desc[400] = "";
        size_t o = 0;
        for (k = 0; k < KPW; k++)
          o += (size_t)snprintf(desc + o, sizeof(desc) - o, " k%d=b%d", k, v[i].seen[w * KPW + k] ? vid_batch(v[i].seen[w * KPW + k]) : 0);
        hv("C04", "torn-batch-in-view", "%s view [%llu,%llu]: keys of writer %d are not the state after any whole number of its batches:%s",
           v[i].how, (unsigned long long)v[i].inv, (unsigned long long)v[i].ret, w, desc);
        hv("C08", "torn-batch-in-view", "%s view [%llu,%llu]: keys of writer %d are not the state after any whole number of its batches:%s",
           v[i].how, (unsigned long long)v[i].inv, (unsigned long long)v[i].ret, w, desc);
        v[i].j[w] = lo > floor_ ? lo : floor_;
      }
    }
  }
  free(v);
}

/* (4) final state == fold of all acknowledged writes */
static void final_state(uint64_t *out, ldb_t *db) {
  ldb_iter_t *it = ldb_iterator(db, NULL);
  read_all_through_iter(it, out);
  ldb_iter_destroy(it);
}

static void check_final(const uint64_t *fin, const char *when) {
  int w, k, i, j;
  for (w = 0; w < NW; w++) {
    if (!fold_matches(w, T[w].nops, fin)) {
      hv("C08", "final-state-differs", "%s: keys of writer %d do not equal the fold of its %d acknowledged batches", when, w, T[w].nops);
      break;
    }
  }
  for (k = MAXW * KPW; k < MAXKEYS; k++) {
    /* the surviving value of a shared key must be a write not followed in real time by another completed write */
    uint64_t v = fin[k];
    uint64_t vinv = 0, vret = 0;
    int any = 0, ok = 1;
    for (w = 0; w < NW; w++) for (i = 0; i < T[w].nops; i++) for (j = 0; j < T[w].w[i].nupd; j++)
      if (T[w].w[i].upd[j].key == k) { any = 1; if (T[w].w[i].upd[j].vid == v) { vinv = T[w].w[i].inv; vret = T[w].w[i].ret; } }
    if (!any) { if (v != 0) hv("C08", "final-state-differs", "%s: shared key %d holds %llx but was never written", when, k, (unsigned long long)v); continue; }
    if (v == 0 || vret == 0) { hv("C08", "final-state-differs", "%s: shared key %d holds %llx which no acknowledged write produced", when, k, (unsigned long long)v); continue; }
    for (w = 0; w < NW; w++) for (i = 0; i < T[w].nops; i++) for (j = 0; j < T[w].w[i].nupd; j++)
      if (T[w].w[i].upd[j].key == k && T[w].w[i].inv > vret) ok = 0;
    (void)vinv;
    if (!ok) hv("C08", "final-state-differs", "%s: shared key %d holds value of batch %d although a later write (invoked after it returned) was acknowledged", when, k, vid_batch(v));
  }
}

/* (5) witness: commit ranges contiguous and increasing */
static void check_commits(void) {
  int i;
  for (i = 1; i < ncommits; i++) {
    if (commits_first[i] != commits_last[i - 1] + 1) {
      hv("C08", "sequence-ranges-not-contiguous", "commit %d covers [%llu,%llu], the previous one [%llu,%llu]", i,
         (unsigned long long)commits_first[i], (unsigned long long)commits_last[i], (unsigned long long)commits_first[i - 1],
         (unsigned long long)commits_last[i - 1]);
      break;
    }
  }
}

/* ------------------------------------------------------------------ */

static void on_sched_failure(const char *kind, const char *msg) {
  const char *key = strcmp(kind, "deadlock") == 0 ? "deadlock" : strcmp(kind, "stuck") == 0 ? "stuck-call" : kind;
  vh_violation("C09", key, "%s under schedule %d (variant %s, seed %llu): %s", kind, g_sched, variant_name[variant],
               (unsigned long long)g_seed, msg);
  vh_flush_counts();
  _exit(3);
}

static int run_schedule(int s, const char *base) {
  vrng_t r;
  cfg_t c;
  sched_cfg_t sc;
  char dir[700];
  int i, rc, merged = 0, writes_ok = 0, writes_err = 0;
  uint64_t fin[MAXKEYS], fin2[MAXKEYS];
  const sched_stats_t *st;

  g_sched = s;
  vr_seed(&r, g_seed * 1000003ULL + (uint64_t)s * 7919ULL + (native_mode ? 17 : 0));
  if (variant < 0) {
    uint32_t c2 = vr_uniform(&r, 100);
    variant = c2 < 40 ? V_MIXED : c2 < 52 ? V_GROUP : c2 < 64 ? V_STALL : c2 < 74 ? V_L0STOP : c2 < 82 ? V_TWOMANUAL : c2 < 90 ? V_BACKUP : V_BGERROR;
  }
  expect_errors = (variant == V_BGERROR);
  gen_scenario(&r);
  for (i = 0; i < NW + NR + 1; i++) vbuf_tls[i] = malloc(70000);

  cfg_default(&c);
  c.write_buffer_size = 64 << 10;
  c.max_file_size = 1 << 20;
  c.block_size = 1024 << vr_uniform(&r, 3);
  c.compression = (int)vr_uniform(&r, 2);
  c.filter_bits = vr_uniform(&r, 2) ? 10 : 0;
  c.use_mmap = (int)vr_uniform(&r, 2);
  c.cache_kind = (int)vr_uniform(&r, 3);
  c.max_open_files = vr_uniform(&r, 3) == 0 ? 74 : 1000;
  snprintf(dir, sizeof(dir), "%s/s%d", base, s);
  iom_pause(1); vh_rm_rf(dir); iom_pause(-1);
  iom_clear_roots();
  iom_add_root(dir);
  vh_set_context("concmon %s seed=%llu schedule=%d variant=%s", native_mode ? "native" : "sched", (unsigned long long)g_seed, s, variant_name[variant]);

  memset(&sc, 0, sizeof(sc));
  sc.seed = g_seed * 7777ULL + (uint64_t)s;
  {
    uint32_t c2 = vr_uniform(&r, 100);
    sc.strategy = c2 < 45 ? SS_RANDOM : c2 < 75 ? SS_PCT : c2 < 85 ? SS_BG_STARVE : c2 < 93 ? SS_BG_GREEDY : SS_FG_STICKY;
    if (variant == V_STALL || variant == V_L0STOP) sc.strategy = c2 < 60 ? SS_BG_STARVE : c2 < 80 ? SS_RANDOM : SS_PCT;
  }
  sc.pct_depth = 2 + (int)vr_uniform(&r, 3);
  sc.pct_len = 20000 + vr_uniform(&r, 60000);
  sc.starve_steps = 200 + (int)vr_uniform(&r, 3000);
  sc.spurious_permille = vr_chance(&r, 300) ? 20 : 0;
  sc.max_steps = 6000000;
  if (enum_mode) {
    sc.strategy = SS_ENUM;
    sc.spurious_permille = 0;
    sc.enum_n = enum_n;
    sc.enum_target[0] = enum_target[0];
    sc.enum_target[1] = enum_target[1];
  }

  ldb_verif_point_cb = vp_hook;
  ncommits = 0;
  memset(hook_points, 0, sizeof(hook_points));
  if (!native_mode) {
    sched_on_failure = on_sched_failure;
    sched_start(&sc);
    iom_yield_hook = io_hook;
    sched_label("open");
  } else {
    iom_delay(sc.seed, 150, 200);
  }
  dbh_init(&H, dir, &c);
  if (variant == V_REOPENL0) {
    /* the database is opened under the scheduler in a state that normal operation never leaves behind at an open:
       far more level-0 files than the stop limit (a 1.3 MiB log written with a large write buffer, replayed with a
       64 KiB one = ~20 level-0 tables; the compaction that follows is cut short by an immediate close), and with
       reuse_logs so that the open itself writes nothing.  Writers must still get going. */
    int k0;
    char kb0[40];
    H.cfg.write_buffer_size = 4 << 20;
    H.cfg.reuse_logs = 0;
    if (dbh_open(&H, 1) != LDB_OK) vh_fatal("reopen-l0 setup: create failed");
    for (k0 = 0; k0 < 330; k0++) {
      ldb_slice_t pk, pv;
      pk = ldb_slice(kb0, (size_t)sprintf(kb0, "pre/%06d", k0 % 150));
      vh_fill_value(vbuf_tls[0], 4000, 0x7000000 + (uint64_t)k0);
      pv = ldb_slice(vbuf_tls[0], 4000);
      if (ldb_put(H.db, &pk, &pv, NULL) != LDB_OK) vh_fatal("reopen-l0 setup: put failed");
    }
    dbh_close(&H);
    H.cfg.write_buffer_size = 64 << 10;
    if (dbh_open(&H, 0) != LDB_OK) vh_fatal("reopen-l0 setup: recovery failed");
    dbh_close(&H);           /* at once: the level-0 compaction is abandoned (if the scheduler lets the close win) */
    H.cfg.reuse_logs = 1;
    vh_count("reopen_l0_setups", 1);
  }
  rc = dbh_open(&H, variant == V_REOPENL0 ? 0 : 1);
  if (rc != LDB_OK) vh_fatal("cannot create database rc=%d", rc);
  if (variant == V_REOPENL0) {
    char *val = NULL;
    int l0 = 0;
    if (ldb_property(H.db, "leveldb.num-files-at-level0", &val) && val != NULL) { l0 = atoi(val); ldb_free(val); }
    vh_count("reopen_l0_level0_files_at_open", (uint64_t)l0);
    if (l0 >= 12) vh_count("reopen_l0_opens_at_or_above_the_stop_limit", 1);
  }
  if (variant == V_BGERROR) {
    /* a table write fails once (or from now on) while writers are active */
    iom_fault_add(IOP_WRITE, PC_TABLE, 1 + vr_uniform(&r, 6), vr_uniform(&r, 2) ? ENOSPC : EIO, (int)vr_uniform(&r, 2), IOF_CLEAN);
  }
  if (!native_mode) { sched_cond_class_hint(4); sched_label("spawn"); }
  for (i = 0; i < NW + NR; i++) {
    if (pthread_create(&T[i].th, NULL, T[i].is_writer ? writer_main : reader_main, &T[i]) != 0) vh_fatal("pthread_create failed");
    T[i].spawned = 1;
  }
  if (!native_mode) sched_label("join");
  for (i = 0; i < NW + NR; i++) pthread_join(T[i].th, NULL);
  iom_fault_clear();
  if (!native_mode) sched_label("final-scan");
  final_state(fin, H.db);
  /* close races with whatever background work is still scheduled */
  if (!native_mode) sched_label("close");
  dbh_close(&H);
  if (!native_mode) {
    iom_yield_hook = NULL;
    if (enum_mode && enum_res != NULL) {
      enum_res->alts[0] = sched_enum_alts(0); enum_res->alts[1] = sched_enum_alts(1); enum_res->alts[2] = sched_enum_alts(2);
      enum_res->sig = sched_signature(); enum_res->steps = sched_step(); enum_res->taken = sched_enum_taken();
      enum_res->done = 1;
    }
    sched_stop();
  } else {
    iom_delay(0, 0, 0);
  }
  ldb_verif_point_cb = NULL;

  /* statuses */
  for (i = 0; i < NW; i++) {
    int j;
    for (j = 0; j < T[i].nops; j++) {
      if (T[i].w[j].rc == LDB_OK) writes_ok++;
      else {
        writes_err++;
        if (!expect_errors)
          hv("C08", "unexpected-status", "write batch %d of writer %d returned %d on a healthy file system", T[i].w[j].b, i, T[i].w[j].rc);
      }
    }
  }
  for (i = 1; i < ncommits; i++) if (commits_last[i] - commits_first[i] + 1 > (uint64_t)(KPW + 1)) merged++;

  if (!expect_errors) {
    collect_reads();
    check_swmr();
    check_shared();
    check_cuts();
    check_final(fin, "before close");
    check_commits();
    /* reopen without the scheduler: same contents */
    rc = dbh_open(&H, 0);
    if (rc != LDB_OK) hv("C08", "reopen-failed", "reopen after the concurrent run returned %d", rc);
    else {
      final_state(fin2, H.db);
      if (memcmp(fin, fin2, sizeof(fin)) != 0) hv("C08", "final-state-differs", "contents after reopen differ from contents before close");
      dbh_close(&H);
    }
  }
  dbh_destroy(&H);

  /* evidence */
  vh_count("schedules", 1);
  {
    char nm[64];
    snprintf(nm, sizeof(nm), "schedules_%s", variant_name[variant]);
    vh_count(nm, 1);
  }
  vh_count("writes_acknowledged", (uint64_t)writes_ok);
  vh_count("writes_failed_status", (uint64_t)writes_err);
  vh_count("commit_groups", (uint64_t)ncommits);
  vh_count("merged_groups_estimate", (uint64_t)merged);
  vh_count("hook_skiplist_link", hook_points[LDB_VP_SKIPLIST_LINK]);
  vh_count("hook_write_logged", hook_points[LDB_VP_WRITE_LOGGED]);
  vh_count("hook_bg_calls", hook_points[LDB_VP_BG_BEGIN]);
  vh_count("memtable_flushes", H.log.level0_started);
  vh_count("compactions", H.log.compacting);
  vh_count("waits_memtable_full", H.log.waiting_mem);
  vh_count("waits_l0_stop", H.log.waiting_l0);
  if (!native_mode) {
    int a, b;
    st = sched_stats();
    vh_count("sched_steps", st->steps);
    vh_count("sched_switches", st->switches);
    vh_count("cond_waits", st->cond_waits);
    vh_count("cond_wakes", st->cond_wakes);
    vh_count("spurious_wakeups_injected", st->spurious);
    vh_count("mutex_blocks", st->mutex_blocks);
    vh_distinct("schedule_signature", "%llx", (unsigned long long)sched_signature());
    for (a = 0; a < 8; a++) for (b = 0; b < 4; b++)
      if (st->wake_pairs[a][b]) {
        static const char *cls[] = {"cv?", "cv-db-background-work", "cv-pool-master", "cv-pool-worker", "cv-writer-queue", "cv5", "cv6", "cv7"};
        static const char *who[] = {"internal-thread-woken-by-internal", "internal-thread-woken-by-client", "client-woken-by-internal", "client-woken-by-client"};
        vh_distinct("wait_wake_pairs", "%s/%s", cls[a], who[b]);
        vh_count("blocked_and_woken", st->wake_pairs[a][b]);
      }
    if (st->cond_wakes > 0) vh_count("schedules_with_block_and_wake", 1);
  }
  if (NW >= 2 && merged > 0 && (H.log.level0_started > 0 || H.log.compacting > 0)) vh_count("nontrivial_histories", 1);
  if ((!enum_mode && s % 50 == 0) || (enum_mode && enum_n == 0) || vh_nviolations() > 0)
    vh_sample("C08", "%s schedule %d variant %s: %d writers %d readers, %d acknowledged batches (%d failed), %d commit groups (%d merged), "
              "%llu flushes %llu compactions, strategy %d, %llu steps %llu switches signature %llx",
              native_mode ? "native" : "sched", s, variant_name[variant], NW, NR, writes_ok, writes_err, ncommits, merged,
              (unsigned long long)H.log.level0_started, (unsigned long long)H.log.compacting, sc.strategy,
              (unsigned long long)(native_mode ? 0 : sched_step()), (unsigned long long)(native_mode ? 0 : sched_switches()),
              (unsigned long long)(native_mode ? 0 : sched_signature()));
  iom_pause(1); vh_rm_rf(dir); iom_pause(-1);
  return 0;
}

/* one forked child = one schedule; returns 0 ok, 1 watchdog, 2 died */
static int run_child(int s, const char *base, int fixed_variant) {
  pid_t pid;
  int status;
  fflush(NULL);
  if (enum_res != NULL) memset(enum_res, 0, sizeof(*enum_res));
  pid = fork();
  if (pid < 0) vh_fatal("fork failed");
  if (pid == 0) {
    alarm(300);
    variant = fixed_variant;
    vh_reset_counts();
    run_schedule(s, base);
    vh_flush_counts();
    _exit(0);
  }
  while (waitpid(pid, &status, 0) < 0 && errno == EINTR) {}
  if (WIFSIGNALED(status)) {
    if (WTERMSIG(status) == SIGALRM) {
      vh_note("schedule %d: watchdog (300 s) expired - inconclusive", s), vh_count("watchdog_expired", 1);
      return 1;
    }
    vh_violation("C09", "crash", "schedule %d (seed %llu, deviations %llu/%llu) died with signal %d", s, (unsigned long long)g_seed,
                 (unsigned long long)enum_target[0], (unsigned long long)enum_target[1], WTERMSIG(status));
    vh_violation("C08", "crash", "schedule %d (seed %llu, deviations %llu/%llu) died with signal %d", s, (unsigned long long)g_seed,
                 (unsigned long long)enum_target[0], (unsigned long long)enum_target[1], WTERMSIG(status));
    return 2;
  } else if (WIFEXITED(status) && WEXITSTATUS(status) == 2) {
    vh_fatal("schedule %d: harness failure in child", s);
  }
  return 0;
}

/* all schedules of scenario `scen` with at most `depth` deviations from the default schedule (this shard's share of
   the first-level deviations; second level complete, or every max2-th when max2 > 0) */
static void run_enum(int scen, int depth, int shard, int nshards, uint64_t max2, const char *base) {
  uint64_t t1, sig0, i, j, ran1 = 0, ran2 = 0, total2 = 0;
  enum_mode = 1;
  enum_res = mmap(NULL, sizeof(*enum_res), PROT_READ | PROT_WRITE, MAP_SHARED | MAP_ANONYMOUS, -1, 0);
  if (enum_res == MAP_FAILED) vh_fatal("mmap failed");
  enum_n = 0; enum_target[0] = enum_target[1] = 0;
  if (run_child(scen, base, V_TINY) != 0 || !enum_res->done) { vh_count("enum_baseline_failed", 1); return; }
  t1 = enum_res->alts[0]; sig0 = enum_res->sig;
  /* the numbering of alternatives is only meaningful if the run is reproducible */
  if (run_child(scen, base, V_TINY) != 0 || !enum_res->done || enum_res->sig != sig0 || enum_res->alts[0] != t1)
    vh_fatal("enumeration scenario %d is not reproducible (signature %llx/%llx, alternatives %llu/%llu)", scen,
             (unsigned long long)sig0, (unsigned long long)enum_res->sig, (unsigned long long)t1, (unsigned long long)enum_res->alts[0]);
  if (shard == 0) {
    vh_count("enum_scenarios", 1);
    vh_count("enum_depth1_total", t1);
    vh_count("enum_baseline_steps", enum_res->steps);
  }
  for (i = 1 + (uint64_t)shard; i <= t1; i += (uint64_t)nshards) {
    uint64_t t2;
    enum_n = 1; enum_target[0] = i; enum_target[1] = 0;
    if (run_child(scen, base, V_TINY) != 0 || !enum_res->done) continue;
    if (enum_res->taken != 1) vh_fatal("scenario %d: deviation %llu of %llu was not reached", scen, (unsigned long long)i, (unsigned long long)t1);
    ran1++;
    t2 = enum_res->alts[1];
    if (depth < 2) continue;
    total2 += t2;
    for (j = 1; j <= t2; j += (max2 > 0 && t2 > max2 ? t2 / max2 : 1)) {
      enum_n = 2; enum_target[0] = i; enum_target[1] = j;
      if (run_child(scen, base, V_TINY) != 0 || !enum_res->done) continue;
      if (enum_res->taken == 2) ran2++;
    }
  }
  vh_count("enum_depth1_run", ran1);
  vh_count("enum_depth2_total", total2);
  vh_count("enum_depth2_run", ran2);
  munmap(enum_res, sizeof(*enum_res));
  enum_res = NULL;
}

int main(int argc, char **argv) {
  int first = 0, count = 1, i, fixed_variant = -1, enum_scen = -1, enum_depth = 1, shard = 0, nshards = 1;
  uint64_t enum_max2 = 0;
  const char *base = "/dev/shm/verif-concmon";
  for (i = 1; i < argc; i++) {
    if (!strcmp(argv[i], "--seed") && i + 1 < argc) g_seed = strtoull(argv[++i], NULL, 0);
    else if (!strcmp(argv[i], "--first") && i + 1 < argc) first = atoi(argv[++i]);
    else if (!strcmp(argv[i], "--count") && i + 1 < argc) count = atoi(argv[++i]);
    else if (!strcmp(argv[i], "--native") && i + 1 < argc) native_mode = atoi(argv[++i]);
    else if (!strcmp(argv[i], "--variant") && i + 1 < argc) fixed_variant = atoi(argv[++i]);
    else if (!strcmp(argv[i], "--dir") && i + 1 < argc) base = argv[++i];
    else if (!strcmp(argv[i], "--enum-scen") && i + 1 < argc) enum_scen = atoi(argv[++i]);
    else if (!strcmp(argv[i], "--enum-depth") && i + 1 < argc) enum_depth = atoi(argv[++i]);
    else if (!strcmp(argv[i], "--enum-max2") && i + 1 < argc) enum_max2 = strtoull(argv[++i], NULL, 0);
    else if (!strcmp(argv[i], "--shard") && i + 1 < argc) shard = atoi(argv[++i]);
    else if (!strcmp(argv[i], "--nshards") && i + 1 < argc) nshards = atoi(argv[++i]);
    else { fprintf(stderr, "unknown argument %s\n", argv[i]); return 2; }
  }
  vh_init(NULL);
  mallopt(M_MMAP_THRESHOLD, 64 << 20);
  iom_pause(1); vh_mkdir_p(base); iom_pause(-1);
  if (enum_scen >= 0) {
    for (i = enum_scen; i < enum_scen + count; i++) run_enum(i, enum_depth, shard, nshards, enum_max2, base);
    iom_pause(1); vh_rm_rf(base); iom_pause(-1);
    vh_finish();
    return 0;
  }
  for (i = first; i < first + count; i++) {
    pid_t pid;
    int status;
    fflush(NULL);
    pid = fork();
    if (pid < 0) vh_fatal("fork failed");
    if (pid == 0) {
      alarm(300);
      variant = fixed_variant;
      vh_reset_counts();
      run_schedule(i, base);
      vh_flush_counts();
      _exit(0);
    }
    while (waitpid(pid, &status, 0) < 0 && errno == EINTR) {}
    if (WIFSIGNALED(status)) {
      if (WTERMSIG(status) == SIGALRM)
        vh_note("schedule %d: watchdog (300 s) expired - inconclusive", i), vh_count("watchdog_expired", 1);
      else {
        vh_violation("C09", "crash", "schedule %d (seed %llu) died with signal %d", i, (unsigned long long)g_seed, WTERMSIG(status));
        vh_violation("C08", "crash", "schedule %d (seed %llu) died with signal %d", i, (unsigned long long)g_seed, WTERMSIG(status));
      }
    } else if (WIFEXITED(status) && WEXITSTATUS(status) == 2) {
      vh_fatal("schedule %d: harness failure in child", i);
    }
  }
  iom_pause(1); vh_rm_rf(base); iom_pause(-1);
  vh_finish();
  return 0;
}

/* refcodec - independent reference codecs for the LevelDB on-disk formats.
 *
 * Written from the public format descriptions only (log_format.md,
 * table_format.md, impl.md, VersionEdit tag layout, Snappy
 * format_description.txt, CRC-32C definition).  Includes no lcdb header.
 *
 * Plain C99 + libc.  Every decoder is total on arbitrary bytes.
 */
#include "refcodec.h"

#include <stdarg.h>
#include <stdio.h>
#include <stdlib.h>
#include <string.h>

/* ------------------------------------------------------------------ util */

static void *rc_xmalloc(size_t n) {
  void *p = malloc(n ? n : 1);
  if (p == NULL) {
    fprintf(stderr, "refcodec: out of memory (%lu bytes)\n", (unsigned long)n);
    abort();
  }
  return p;
}

static void *rc_xrealloc(void *q, size_t n) {
  void *p = realloc(q, n ? n : 1);
  if (p == NULL) {
    fprintf(stderr, "refcodec: out of memory (%lu bytes)\n", (unsigned long)n);
    abort();
  }
  return p;
}

/* Make room for element index n of an array currently holding n elements.
 * The capacity is implicit: 0 for n == 0, else max(8, next power of two >= n),
 * so growth is geometric without a stored capacity field. */
static void *rc_grow(void *p, size_t n, size_t elem) {
  size_t ncap;
  if (n == 0)
    ncap = 8;
  else if (n >= 8 && (n & (n - 1)) == 0)
    ncap = n * 2;
  else
    return p;
  if (ncap > (size_t)-1 / elem) {
    fprintf(stderr, "refcodec: array size overflow\n");
    abort();
  }
  return rc_xrealloc(p, ncap * elem);
}

static uint8_t *rc_memdup(const uint8_t *p, size_t n) {
  uint8_t *r = (uint8_t *)rc_xmalloc(n);
  if (n > 0) memcpy(r, p, n);
  return r;
}

static void rc_seterr(char *dst, size_t cap, const char *fmt, ...) {
  va_list ap;
  va_start(ap, fmt);
  vsnprintf(dst, cap, fmt, ap);
  va_end(ap);
}

/* ------------------------------------------------------------------ buffers */

void rc_buf_init(rc_buf_t *b) {
  b->data = NULL;
  b->len = 0;
  b->cap = 0;
}

void rc_buf_free(rc_buf_t *b) {
  free(b->data);
  b->data = NULL;
  b->len = 0;
  b->cap = 0;
}

void rc_buf_reset(rc_buf_t *b) { b->len = 0; }

static void rc_buf_reserve(rc_buf_t *b, size_t extra) {
  size_t need;
  if (extra > (size_t)-1 - b->len) {
    fprintf(stderr, "refcodec: buffer size overflow\n");
    abort();
  }
  need = b->len + extra;
  if (need > b->cap) {
    size_t ncap = b->cap ? b->cap : 64;
    while (ncap < need) {
      if (ncap > (size_t)-1 / 2) {
        ncap = need;
        break;
      }
      ncap *= 2;
    }
    b->data = (uint8_t *)rc_xrealloc(b->data, ncap);
    b->cap = ncap;
  }
}

void rc_buf_append(rc_buf_t *b, const void *p, size_t n) {
  if (n == 0) return;
  rc_buf_reserve(b, n);
  memcpy(b->data + b->len, p, n);
  b->len += n;
}

void rc_buf_push(rc_buf_t *b, uint8_t c) {
  rc_buf_reserve(b, 1);
  b->data[b->len++] = c;
}

static void rc_buf_fill(rc_buf_t *b, uint8_t c, size_t n) {
  if (n == 0) return;
  rc_buf_reserve(b, n);
  memset(b->data + b->len, c, n);
  b->len += n;
}

/* ------------------------------------------------------------------ CRC-32C */

uint32_t rc_crc32c_extend(uint32_t crc, const uint8_t *data, size_t n) {
  uint32_t c = crc ^ 0xffffffffu;
  size_t i;
  int k;
  for (i = 0; i < n; i++) {
    c ^= data[i];
    for (k = 0; k < 8; k++) {
      if (c & 1u)
        c = (c >> 1) ^ 0x82f63b78u;
      else
        c >>= 1;
    }
  }
  return c ^ 0xffffffffu;
}

uint32_t rc_crc32c(const uint8_t *data, size_t n) {
  return rc_crc32c_extend(0, data, n);
}

#define RC_MASK_DELTA 0xa282ead8u

uint32_t rc_crc_mask(uint32_t crc) {
  return (uint32_t)(((crc >> 15) | (crc << 17)) + RC_MASK_DELTA);
}

uint32_t rc_crc_unmask(uint32_t masked) {
  uint32_t rot = (uint32_t)(masked - RC_MASK_DELTA);
  return (rot >> 17) | (rot << 15);
}

/* ------------------------------------------------------------------ varints */

int rc_put_varint32(uint8_t *dst, uint32_t v) {
  int i = 0;
  while (v >= 0x80u) {
    dst[i++] = (uint8_t)(v | 0x80u);
    v >>= 7;
  }
  dst[i++] = (uint8_t)v;
  return i;
}

int rc_put_varint64(uint8_t *dst, uint64_t v) {
  int i = 0;
  while (v >= 0x80u) {
    dst[i++] = (uint8_t)(v | 0x80u);
    v >>= 7;
  }
  dst[i++] = (uint8_t)v;
  return i;
}

/* Same acceptance as LevelDB's GetVarint32Ptr: at most 5 bytes (shift <= 28);
 * surplus high bits of the 5th byte are discarded. */
int rc_get_varint32(const uint8_t *p, const uint8_t *limit, uint32_t *v) {
  uint32_t result = 0;
  int i;
  if (p == NULL || limit == NULL) return -1;
  for (i = 0; i < 5 && p + i < limit; i++) {
    uint32_t byte = p[i];
    result |= (uint32_t)((byte & 0x7fu) << (7 * i));
    if ((byte & 0x80u) == 0) {
      *v = result;
      return i + 1;
    }
  }
  return -1;
}

/* At most 10 bytes (shift <= 63); surplus high bits discarded. */
int rc_get_varint64(const uint8_t *p, const uint8_t *limit, uint64_t *v) {
  uint64_t result = 0;
  int i;
  if (p == NULL || limit == NULL) return -1;
  for (i = 0; i < 10 && p + i < limit; i++) {
    uint64_t byte = p[i];
    result |= (uint64_t)((byte & 0x7fu) << (7 * i));
    if ((byte & 0x80u) == 0) {
      *v = result;
      return i + 1;
    }
  }
  return -1;
}

uint32_t rc_get_fixed32(const uint8_t *p) {
  return (uint32_t)p[0] | ((uint32_t)p[1] << 8) | ((uint32_t)p[2] << 16) |
         ((uint32_t)p[3] << 24);
}

uint64_t rc_get_fixed64(const uint8_t *p) {
  return (uint64_t)rc_get_fixed32(p) | ((uint64_t)rc_get_fixed32(p + 4) << 32);
}

void rc_put_fixed32(uint8_t *p, uint32_t v) {
  p[0] = (uint8_t)v;
  p[1] = (uint8_t)(v >> 8);
  p[2] = (uint8_t)(v >> 16);
  p[3] = (uint8_t)(v >> 24);
}

void rc_put_fixed64(uint8_t *p, uint64_t v) {
  rc_put_fixed32(p, (uint32_t)v);
  rc_put_fixed32(p + 4, (uint32_t)(v >> 32));
}

/* Length-prefixed slice: varint32 length + bytes.  Returns bytes consumed or -1. */
static long rc_get_lenprefixed(const uint8_t *p, const uint8_t *limit,
                               const uint8_t **out, size_t *outlen) {
  uint32_t len;
  int k = rc_get_varint32(p, limit, &len);
  if (k < 0) return -1;
  if ((size_t)(limit - (p + k)) < (size_t)len) return -1;
  *out = p + k;
  *outlen = len;
  return (long)k + (long)len;
}

/* ------------------------------------------------------------------ WAL writer */

void rc_logw_init(rc_logw_t *w, rc_buf_t *out, uint64_t initial_length) {
  w->out = out;
  w->block_offset = (size_t)(initial_length % RC_LOG_BLOCK);
}

static void rc_logw_emit(rc_logw_t *w, int type, const uint8_t *p, size_t n) {
  uint8_t hdr[RC_LOG_HEADER];
  uint8_t t = (uint8_t)type;
  uint32_t crc = rc_crc32c_extend(0, &t, 1);
  crc = rc_crc32c_extend(crc, p, n);
  rc_put_fixed32(hdr, rc_crc_mask(crc));
  hdr[4] = (uint8_t)(n & 0xff);
  hdr[5] = (uint8_t)(n >> 8);
  hdr[6] = t;
  rc_buf_append(w->out, hdr, RC_LOG_HEADER);
  rc_buf_append(w->out, p, n);
  w->block_offset += RC_LOG_HEADER + n;
}

void rc_logw_add(rc_logw_t *w, const uint8_t *rec, size_t n) {
  const uint8_t *p = rec;
  size_t left = n;
  int begin = 1;
  do {
    size_t leftover = RC_LOG_BLOCK - w->block_offset;
    size_t avail, frag;
    int end, type;
    if (leftover < RC_LOG_HEADER) {
      rc_buf_fill(w->out, 0, leftover);
      w->block_offset = 0;
    }
    avail = RC_LOG_BLOCK - w->block_offset - RC_LOG_HEADER;
    frag = left < avail ? left : avail;
    end = (left == frag);
    if (begin && end)
      type = RC_LOG_FULL;
    else if (begin)
      type = RC_LOG_FIRST;
    else if (end)
      type = RC_LOG_LAST;
    else
      type = RC_LOG_MIDDLE;
    rc_logw_emit(w, type, p, frag);
    p += frag;
    left -= frag;
    begin = 0;
  } while (left > 0);
}

/* ------------------------------------------------------------------ WAL reader */

typedef struct rc_logr_s {
  const uint8_t *file;
  size_t n;
  size_t file_pos;      /* next byte to "read" from the file */
  size_t buf_start;     /* current buffer = file[buf_start, buf_end) */
  size_t buf_end;       /* == end_of_buffer_offset */
  int eof;
  rc_logresult_t *res;
} rc_logr_t;

static void rc_log_report(rc_logr_t *r, uint64_t off, uint64_t bytes, int reason) {
  rc_logresult_t *res = r->res;
  res->drops = (rc_logdrop_t *)rc_grow(res->drops, res->ndrops, sizeof(rc_logdrop_t));
  res->drops[res->ndrops].off = off;
  res->drops[res->ndrops].bytes = bytes;
  res->drops[res->ndrops].reason = reason;
  res->ndrops++;
}

/* Status of one physical read.  The record type byte is returned separately
 * through *type_out so that all 256 byte values stay distinguishable. */
enum { RC_PR_RECORD = 0, RC_PR_EOF = 1, RC_PR_BAD = 2 };

static int rc_log_read_physical(rc_logr_t *r, int *type_out, size_t *frag_off,
                                size_t *frag_len, size_t *hdr_off) {
  for (;;) {
    size_t avail = r->buf_end - r->buf_start;
    const uint8_t *h;
    size_t length;
    int type;
    if (avail < RC_LOG_HEADER) {
      if (!r->eof) {
        size_t want = RC_LOG_BLOCK;
        size_t got = r->n - r->file_pos;
        if (got > want) got = want;
        r->buf_start = r->file_pos;
        r->buf_end = r->file_pos + got;
        r->file_pos += got;
        if (got < want) r->eof = 1;
        continue;
      }
      /* Truncated header at end of file: writer died; not an error. */
      r->buf_start = r->buf_end;
      return RC_PR_EOF;
    }
    h = r->file + r->buf_start;
    length = (size_t)h[4] | ((size_t)h[5] << 8);
    type = h[6];
    if (RC_LOG_HEADER + length > avail) {
      size_t drop = avail;
      size_t off = r->buf_start;
      r->buf_start = r->buf_end;
      if (!r->eof) {
        rc_log_report(r, off, drop, RC_DROP_BADLEN);
        return RC_PR_BAD;
      }
      /* Payload cut off by EOF: writer died mid-record; silent. */
      return RC_PR_EOF;
    }
    if (type == RC_LOG_ZERO && length == 0) {
      /* Preallocated / zero-filled region: skip the rest of the buffer
       * without reporting. */
      r->buf_start = r->buf_end;
      return RC_PR_BAD;
    }
    {
      uint32_t expected = rc_crc_unmask(rc_get_fixed32(h));
      uint32_t actual = rc_crc32c(h + 6, 1 + length);
      if (actual != expected) {
        size_t drop = avail;
        size_t off = r->buf_start;
        r->buf_start = r->buf_end;
        rc_log_report(r, off, drop, RC_DROP_CHECKSUM);
        return RC_PR_BAD;
      }
    }
    *hdr_off = r->buf_start;
    *frag_off = r->buf_start + RC_LOG_HEADER;
    *frag_len = length;
    *type_out = type;
    r->buf_start += RC_LOG_HEADER + length;
    r->res->consumed = r->buf_start;
    return RC_PR_RECORD;
  }
}

static void rc_log_push_record(rc_logresult_t *res, const uint8_t *data, size_t len,
                               uint64_t start, uint64_t end, int nfrag) {
  rc_logrec_t *rec;
  res->recs = (rc_logrec_t *)rc_grow(res->recs, res->nrecs, sizeof(rc_logrec_t));
  rec = &res->recs[res->nrecs++];
  rec->data = rc_memdup(data, len);
  rec->len = len;
  rec->start_off = start;
  rec->end_off = end;
  rec->nfrag = nfrag;
}

void rc_log_read(const uint8_t *file, size_t n, rc_logresult_t *res) {
  rc_logr_t r;
  rc_buf_t scratch;
  int in_frag = 0;
  int nfrag = 0;
  uint64_t rec_start = 0;

  memset(res, 0, sizeof(*res));
  if (file == NULL) n = 0;
  memset(&r, 0, sizeof(r));
  r.file = file;
  r.n = n;
  r.res = res;
  rc_buf_init(&scratch);

  for (;;) {
    int type = 0;
    size_t foff = 0, flen = 0, hoff = 0;
    int st = rc_log_read_physical(&r, &type, &foff, &flen, &hoff);

    if (st == RC_PR_EOF) {
      /* A partially assembled record is discarded silently. */
      break;
    }
    if (st == RC_PR_BAD) {
      if (in_frag) {
        rc_log_report(&r, rec_start, scratch.len, RC_DROP_ERROR_IN_MIDDLE);
        in_frag = 0;
        rc_buf_reset(&scratch);
      }
      continue;
    }

    switch (type) {
      case RC_LOG_FULL:
        if (in_frag && scratch.len > 0)
          rc_log_report(&r, rec_start, scratch.len, RC_DROP_PARTIAL_NO_END);
        in_frag = 0;
        rc_buf_reset(&scratch);
        rc_log_push_record(res, file + foff, flen, hoff, foff + flen, 1);
        break;

      case RC_LOG_FIRST:
        if (in_frag && scratch.len > 0)
          rc_log_report(&r, rec_start, scratch.len, RC_DROP_PARTIAL_NO_END);
        rc_buf_reset(&scratch);
        rc_buf_append(&scratch, file + foff, flen);
        rec_start = hoff;
        in_frag = 1;
        nfrag = 1;
        break;

      case RC_LOG_MIDDLE:
        if (!in_frag) {
          rc_log_report(&r, hoff, flen, RC_DROP_MISSING_START);
        } else {
          rc_buf_append(&scratch, file + foff, flen);
          nfrag++;
        }
        break;

      case RC_LOG_LAST:
        if (!in_frag) {
          rc_log_report(&r, hoff, flen, RC_DROP_MISSING_START);
        } else {
          rc_buf_append(&scratch, file + foff, flen);
          nfrag++;
          rc_log_push_record(res, scratch.data, scratch.len, rec_start,
                             foff + flen, nfrag);
          rc_buf_reset(&scratch);
          in_frag = 0;
        }
        break;

      default:
        rc_log_report(&r, in_frag ? rec_start : hoff,
                      flen + (in_frag ? scratch.len : 0), RC_DROP_UNKNOWN_TYPE);
        in_frag = 0;
        rc_buf_reset(&scratch);
        break;
    }
  }
  rc_buf_free(&scratch);
}

void rc_logresult_free(rc_logresult_t *res) {
  size_t i;
  if (res == NULL) return;
  for (i = 0; i < res->nrecs; i++) free(res->recs[i].data);
  free(res->recs);
  free(res->drops);
  memset(res, 0, sizeof(*res));
}

/* ------------------------------------------------------------------ write batch */

int rc_batch_iterate(const uint8_t *rep, size_t n, uint64_t *seq, uint32_t *count,
                     rc_batch_cb *cb, void *arg) {
  const uint8_t *p, *limit;
  uint64_t s;
  uint32_t c, found = 0;
  if (rep == NULL || n < 12) return -1;
  s = rc_get_fixed64(rep);
  c = rc_get_fixed32(rep + 8);
  if (seq) *seq = s;
  if (count) *count = c;
  p = rep + 12;
  limit = rep + n;
  while (p < limit) {
    uint8_t tag = *p++;
    const uint8_t *k = NULL, *v = NULL;
    size_t kl = 0, vl = 0;
    long used;
    if (tag == 1) {
      used = rc_get_lenprefixed(p, limit, &k, &kl);
      if (used < 0) return -1;
      p += used;
      used = rc_get_lenprefixed(p, limit, &v, &vl);
      if (used < 0) return -1;
      p += used;
    } else if (tag == 0) {
      used = rc_get_lenprefixed(p, limit, &k, &kl);
      if (used < 0) return -1;
      p += used;
    } else {
      return -1;
    }
    if (cb) cb(arg, (int)tag, k, kl, v, vl, s + found);
    found++;
    if (found == 0) return -1; /* wrapped: more than 2^32-1 entries */
  }
  if (found != c) return -1;
  return 0;
}

/* ------------------------------------------------------------------ Snappy */

/* Preamble: varint32 of the uncompressed length.  The 5th byte may only
 * carry the top 4 bits of a 32-bit value. */
static int rc_snappy_preamble(const uint8_t *in, size_t n, uint32_t *len) {
  uint32_t result = 0;
  size_t i;
  if (in == NULL) return -1;
  for (i = 0; i < 5 && i < n; i++) {
    uint32_t byte = in[i];
    if (i == 4 && (byte & 0x7fu) > 0x0fu) return -1;
    result |= (uint32_t)((byte & 0x7fu) << (7 * i));
    if ((byte & 0x80u) == 0) {
      *len = result;
      return (int)i + 1;
    }
  }
  return -1;
}

int rc_snappy_uncompressed_length(const uint8_t *in, size_t n, uint32_t *len) {
  uint32_t v;
  if (rc_snappy_preamble(in, n, &v) < 0) return -1;
  if (len) *len = v;
  return 0;
}

int rc_snappy_decode(const uint8_t *in, size_t n, rc_buf_t *out) {
  uint32_t ulen32;
  uint64_t ulen;
  size_t ip;
  int k;

  rc_buf_reset(out);
  k = rc_snappy_preamble(in, n, &ulen32);
  if (k < 0) return -1;
  ulen = ulen32;
  ip = (size_t)k;

  /* No element produces more than 64 output bytes and every element takes
   * at least one input byte, so a larger claimed length can never be met.
   * (This also bounds the allocation on hostile input.) */
  if (ulen > (uint64_t)(n - ip) * 64u) return -1;

  rc_buf_reserve(out, (size_t)ulen);

  while (ip < n) {
    uint8_t tag = in[ip++];
    unsigned kind = tag & 3u;
    if (kind == 0) {
      uint64_t len = (uint64_t)(tag >> 2);
      if (len >= 60) {
        unsigned nb = (unsigned)(len - 59); /* 1..4 */
        unsigned j;
        if (n - ip < nb) return -1;
        len = 0;
        for (j = 0; j < nb; j++) len |= (uint64_t)in[ip + j] << (8 * j);
        ip += nb;
      }
      len += 1;
      if (len > (uint64_t)(n - ip)) return -1;
      if (len > ulen - out->len) return -1;
      rc_buf_append(out, in + ip, (size_t)len);
      ip += (size_t)len;
    } else {
      uint64_t len, off;
      size_t j, src;
      if (kind == 1) {
        if (n - ip < 1) return -1;
        len = 4u + ((tag >> 2) & 7u);
        off = ((uint64_t)(tag >> 5) << 8) | in[ip];
        ip += 1;
      } else if (kind == 2) {
        if (n - ip < 2) return -1;
        len = (uint64_t)(tag >> 2) + 1u;
        off = (uint64_t)in[ip] | ((uint64_t)in[ip + 1] << 8);
        ip += 2;
      } else {
        if (n - ip < 4) return -1;
        len = (uint64_t)(tag >> 2) + 1u;
        off = rc_get_fixed32(in + ip);
        ip += 4;
      }
      if (off == 0 || off > out->len) return -1;
      if (len > ulen - out->len) return -1;
      /* Space was reserved up front (out->len + len <= ulen <= cap). */
      src = out->len - (size_t)off;
      for (j = 0; j < (size_t)len; j++) out->data[out->len + j] = out->data[src + j];
      out->len += (size_t)len;
    }
  }
  if (out->len != ulen) return -1;
  return 0;
}

/* ---- encoder ---- */

/* Emit one literal element using length form `form`:
 * 0 = in-tag (len <= 60), 1..4 = that many trailing length bytes. */
static void rc_snappy_emit_literal_form(rc_buf_t *out, const uint8_t *p, size_t len,
                                        int form) {
  uint64_t v = (uint64_t)len - 1;
  int j;
  if (form == 0) {
    rc_buf_push(out, (uint8_t)(v << 2));
  } else {
    rc_buf_push(out, (uint8_t)((59 + form) << 2));
    for (j = 0; j < form; j++) rc_buf_push(out, (uint8_t)(v >> (8 * j)));
  }
  rc_buf_append(out, p, len);
}

static size_t rc_snappy_form_max(int form) {
  switch (form) {
    case 0: return 60;
    case 1: return 256;
    case 2: return 65536;
    case 3: return (size_t)1 << 24;
    default: return (size_t)0x7fffffff;
  }
}

/* Canonical (shortest form) literals, split at 65536 bytes. */
static void rc_snappy_emit_literal(rc_buf_t *out, const uint8_t *p, size_t len) {
  while (len > 0) {
    size_t piece = len > 65536 ? 65536 : len;
    int form = piece <= 60 ? 0 : piece <= 256 ? 1 : 2;
    rc_snappy_emit_literal_form(out, p, piece, form);
    p += piece;
    len -= piece;
  }
}

/* Literals that rotate through all five length forms (non-minimal forms are
 * legal: the length bytes simply hold len-1). */
static void rc_snappy_emit_literal_varied(rc_buf_t *out, const uint8_t *p, size_t len,
                                          unsigned *rot) {
  static const size_t caps[5] = {60, 200, 70000, 300, 100000};
  while (len > 0) {
    int form = (int)((*rot)++ % 5u);
    size_t piece = len;
    if (piece > caps[form]) piece = caps[form];
    while (piece > rc_snappy_form_max(form)) form++;
    rc_snappy_emit_literal_form(out, p, piece, form);
    p += piece;
    len -= piece;
  }
}

/* Emit copies covering `len` bytes at distance `off`. */
static void rc_snappy_emit_copy(rc_buf_t *out, size_t off, size_t len, int force4) {
  while (len > 0) {
    size_t piece = len > 64 ? 64 : len;
    /* Avoid leaving a tail the copy-1 form could not express; any tail is
     * fine for copy-2/copy-4 (1..64), so nothing to adjust. */
    if (force4) {
      uint8_t b[5];
      b[0] = (uint8_t)(((piece - 1) << 2) | 3u);
      rc_put_fixed32(b + 1, (uint32_t)off);
      rc_buf_append(out, b, 5);
    } else if (piece >= 4 && piece <= 11 && off < 2048) {
      rc_buf_push(out, (uint8_t)(((off >> 8) << 5) | ((piece - 4) << 2) | 1u));
      rc_buf_push(out, (uint8_t)(off & 0xff));
    } else if (off < 65536) {
      rc_buf_push(out, (uint8_t)(((piece - 1) << 2) | 2u));
      rc_buf_push(out, (uint8_t)(off & 0xff));
      rc_buf_push(out, (uint8_t)(off >> 8));
    } else {
      uint8_t b[5];
      b[0] = (uint8_t)(((piece - 1) << 2) | 3u);
      rc_put_fixed32(b + 1, (uint32_t)off);
      rc_buf_append(out, b, 5);
    }
    len -= piece;
  }
}

#define RC_SN_HASH_BITS 14

static uint32_t rc_snappy_hash4(const uint8_t *p) {
  return (uint32_t)(rc_get_fixed32(p) * 0x1e35a7bdu) >> (32 - RC_SN_HASH_BITS);
}

static void rc_snappy_encode_greedy(const uint8_t *in, size_t n, int force4,
                                    rc_buf_t *out) {
  size_t *table;
  size_t i = 0, lit = 0, t;
  size_t tsize = (size_t)1 << RC_SN_HASH_BITS;
  /* copy-4 can reach further back; use a larger window to exercise it. */
  size_t window = force4 ? ((size_t)1 << 20) : 65535;

  table = (size_t *)rc_xmalloc(tsize * sizeof(size_t));
  for (t = 0; t < tsize; t++) table[t] = (size_t)-1;

  while (n >= 4 && i + 4 <= n) {
    uint32_t h = rc_snappy_hash4(in + i);
    size_t cand = table[h];
    table[h] = i;
    if (cand != (size_t)-1 && i - cand <= window &&
        memcmp(in + cand, in + i, 4) == 0) {
      size_t len = 4;
      while (i + len < n && in[cand + len] == in[i + len]) len++;
      if (i > lit) rc_snappy_emit_literal(out, in + lit, i - lit);
      rc_snappy_emit_copy(out, i - cand, len, force4);
      i += len;
      lit = i;
    } else {
      i++;
    }
  }
  if (n > lit) rc_snappy_emit_literal(out, in + lit, n - lit);
  free(table);
}

static void rc_snappy_encode_rle(const uint8_t *in, size_t n, rc_buf_t *out) {
  size_t i = 1, lit = 0;
  unsigned rot = 0;
  while (i < n) {
    size_t best_p = 0, best_len = 0, p;
    for (p = 1; p <= 3 && p <= i; p++) {
      size_t len = 0;
      while (i + len < n && in[i + len] == in[i + len - p]) len++;
      if (len > best_len) {
        best_len = len;
        best_p = p;
      }
    }
    /* Only take runs where length exceeds the offset (true overlap). */
    if (best_len >= 8) {
      if (i > lit) rc_snappy_emit_literal_varied(out, in + lit, i - lit, &rot);
      rc_snappy_emit_copy(out, best_p, best_len, 0);
      i += best_len;
      lit = i;
    } else {
      i++;
    }
  }
  if (n > lit) rc_snappy_emit_literal_varied(out, in + lit, n - lit, &rot);
}

void rc_snappy_encode(const uint8_t *in, size_t n, int style, rc_buf_t *out) {
  uint8_t pre[5];
  int k;
  rc_buf_reset(out);
  if (n > 0xffffffffu) n = 0xffffffffu; /* format limit */
  k = rc_put_varint32(pre, (uint32_t)n);
  rc_buf_append(out, pre, (size_t)k);
  if (n == 0) return;
  switch (style) {
    case 1:
      rc_snappy_encode_greedy(in, n, 0, out);
      break;
    case 2:
      rc_snappy_encode_greedy(in, n, 1, out);
      break;
    case 3:
      rc_snappy_encode_rle(in, n, out);
      break;
    default:
      rc_snappy_emit_literal(out, in, n);
      break;
  }
}

/* ------------------------------------------------------------------ hash / bloom */

uint32_t rc_hash(const uint8_t *data, size_t n, uint32_t seed) {
  const uint32_t m = 0xc6a4a793u;
  const unsigned r = 24;
  uint32_t h = seed ^ (uint32_t)((uint32_t)n * m);
  size_t i = 0;
  while (n - i >= 4) {
    uint32_t w = rc_get_fixed32(data + i);
    i += 4;
    h += w;
    h *= m;
    h ^= (h >> 16);
  }
  switch (n - i) {
    case 3:
      h += (uint32_t)data[i + 2] << 16;
      /* fall through */
    case 2:
      h += (uint32_t)data[i + 1] << 8;
      /* fall through */
    case 1:
      h += (uint32_t)data[i];
      h *= m;
      h ^= (h >> r);
      break;
    default:
      break;
  }
  return h;
}

uint32_t rc_bloom_hash(const uint8_t *key, size_t n) {
  return rc_hash(key, n, 0xbc9f1d34u);
}

int rc_bloom_may_match(const uint8_t *filter, size_t flen, const uint8_t *key,
                       size_t klen) {
  size_t bits, j, k;
  uint32_t h, delta;
  if (filter == NULL || flen < 2) return 0;
  bits = (flen - 1) * 8;
  k = filter[flen - 1];
  if (k > 30) return 1; /* reserved for future encodings: treat as match */
  h = rc_bloom_hash(key, klen);
  delta = (h >> 17) | (h << 15);
  for (j = 0; j < k; j++) {
    size_t bitpos = (size_t)(h % bits);
    if ((filter[bitpos / 8] & (1u << (bitpos % 8))) == 0) return 0;
    h += delta;
  }
  return 1;
}

/* ------------------------------------------------------------------ tables */

#define RC_TRAILER 5
#define RC_FOOTER 48
#define RC_MAGIC_LO 0x8b80fb57u
#define RC_MAGIC_HI 0xdb477524u

/* BlockHandle: varint64 offset, varint64 size.  Returns bytes consumed or -1. */
static int rc_get_handle(const uint8_t *p, const uint8_t *limit, uint64_t *off,
                         uint64_t *size) {
  int a, b;
  a = rc_get_varint64(p, limit, off);
  if (a < 0) return -1;
  b = rc_get_varint64(p + a, limit, size);
  if (b < 0) return -1;
  return a + b;
}

/* Fetch block [off, off+size) + 5-byte trailer, verify CRC, decompress.
 * `limit` = number of leading file bytes in which blocks may live. */
static int rc_table_read_block(const uint8_t *file, size_t limit, uint64_t off,
                               uint64_t size, rc_buf_t *contents, uint8_t *ctype,
                               char *err, size_t errcap, const char *what) {
  const uint8_t *p;
  uint8_t type;
  uint32_t stored, actual;
  rc_buf_reset(contents);
  if (off > limit || size > limit - off || limit - off - size < RC_TRAILER) {
    rc_seterr(err, errcap, "%s: handle out of range (off=%llu size=%llu limit=%llu)",
              what, (unsigned long long)off, (unsigned long long)size,
              (unsigned long long)limit);
    return -1;
  }
  p = file + (size_t)off;
  type = p[(size_t)size];
  stored = rc_crc_unmask(rc_get_fixed32(p + (size_t)size + 1));
  actual = rc_crc32c(p, (size_t)size + 1);
  if (stored != actual) {
    rc_seterr(err, errcap, "%s: block checksum mismatch at off=%llu (stored %08x, actual %08x)",
              what, (unsigned long long)off, (unsigned)stored, (unsigned)actual);
    return -1;
  }
  if (type == 0) {
    rc_buf_append(contents, p, (size_t)size);
  } else if (type == 1) {
    if (rc_snappy_decode(p, (size_t)size, contents) != 0) {
      rc_seterr(err, errcap, "%s: corrupt snappy block at off=%llu", what,
                (unsigned long long)off);
      return -1;
    }
  } else {
    rc_seterr(err, errcap, "%s: bad block type %u at off=%llu", what, (unsigned)type,
              (unsigned long long)off);
    return -1;
  }
  if (ctype) *ctype = type;
  return 0;
}

typedef int rc_block_cb(void *arg, const uint8_t *key, size_t klen, const uint8_t *val,
                        size_t vlen);

/* Walk one uncompressed block, verifying its structure. */
static int rc_block_parse(const uint8_t *b, size_t n, rc_block_cb *cb, void *arg,
                          uint32_t *nrestarts_out, uint32_t *nentries_out, char *err,
                          size_t errcap, const char *what) {
  uint32_t nrestarts, ri = 0, nentries = 0;
  size_t restart_off, pos = 0, i;
  const uint8_t *rarr;
  rc_buf_t key;
  int rv = -1;

  if (n < 4) {
    rc_seterr(err, errcap, "%s: block too small (%lu bytes)", what, (unsigned long)n);
    return -1;
  }
  nrestarts = rc_get_fixed32(b + n - 4);
  if (nrestarts == 0) {
    rc_seterr(err, errcap, "%s: block has zero restart points", what);
    return -1;
  }
  if (nrestarts > (n - 4) / 4) {
    rc_seterr(err, errcap, "%s: restart count %u does not fit in block of %lu bytes",
              what, (unsigned)nrestarts, (unsigned long)n);
    return -1;
  }
  restart_off = n - 4 - 4 * (size_t)nrestarts;
  rarr = b + restart_off;

  /* Restart array: first is 0, strictly increasing, inside the entry area. */
  for (i = 0; i < nrestarts; i++) {
    uint32_t r = rc_get_fixed32(rarr + 4 * i);
    if (i == 0) {
      if (r != 0) {
        rc_seterr(err, errcap, "%s: first restart offset is %u, not 0", what, (unsigned)r);
        return -1;
      }
    } else {
      uint32_t prev = rc_get_fixed32(rarr + 4 * (i - 1));
      if (r <= prev) {
        rc_seterr(err, errcap, "%s: restart[%lu]=%u not increasing (prev %u)", what,
                  (unsigned long)i, (unsigned)r, (unsigned)prev);
        return -1;
      }
    }
    if (r > restart_off || (r == restart_off && !(i == 0 && restart_off == 0))) {
      rc_seterr(err, errcap, "%s: restart[%lu]=%u beyond entry area (%lu)", what,
                (unsigned long)i, (unsigned)r, (unsigned long)restart_off);
      return -1;
    }
  }

  rc_buf_init(&key);
  while (pos < restart_off) {
    const uint8_t *p = b + pos;
    const uint8_t *lim = b + restart_off;
    uint32_t shared, non_shared, vlen;
    int k;
    size_t entry_pos = pos;

    k = rc_get_varint32(p, lim, &shared);
    if (k < 0) goto bad_entry;
    p += k;
    k = rc_get_varint32(p, lim, &non_shared);
    if (k < 0) goto bad_entry;
    p += k;
    k = rc_get_varint32(p, lim, &vlen);
    if (k < 0) goto bad_entry;
    p += k;
    if ((size_t)(lim - p) < (size_t)non_shared) goto bad_entry;
    if ((size_t)(lim - p) - non_shared < (size_t)vlen) goto bad_entry;
    if (shared > key.len) {
      rc_seterr(err, errcap, "%s: entry at %lu shares %u bytes but previous key has %lu",
                what, (unsigned long)entry_pos, (unsigned)shared, (unsigned long)key.len);
      goto done;
    }
    if (ri < nrestarts) {
      uint32_t r = rc_get_fixed32(rarr + 4 * (size_t)ri);
      if (r == entry_pos) {
        if (shared != 0) {
          rc_seterr(err, errcap, "%s: restart entry at %lu has shared=%u", what,
                    (unsigned long)entry_pos, (unsigned)shared);
          goto done;
        }
        ri++;
      } else if (r < entry_pos) {
        rc_seterr(err, errcap, "%s: restart offset %u is not an entry boundary", what,
                  (unsigned)r);
        goto done;
      }
    }
    key.len = shared;
    rc_buf_append(&key, p, non_shared);
    p += non_shared;
    nentries++;
    if (cb != NULL) {
      /* key.data may be NULL for an empty key; hand out a valid pointer. */
      const uint8_t *kp = key.data ? key.data : (const uint8_t *)"";
      if (cb(arg, kp, key.len, p, vlen) != 0) goto done; /* cb set err */
    }
    p += vlen;
    pos = (size_t)(p - b);
    continue;

  bad_entry:
    rc_seterr(err, errcap, "%s: malformed entry at block offset %lu", what,
              (unsigned long)entry_pos);
    goto done;
  }
  if (ri != nrestarts && !(nentries == 0 && nrestarts == 1)) {
    rc_seterr(err, errcap, "%s: restart offset %u is not an entry boundary", what,
              (unsigned)rc_get_fixed32(rarr + 4 * (size_t)ri));
    goto done;
  }
  if (nrestarts_out) *nrestarts_out = nrestarts;
  if (nentries_out) *nentries_out = nentries;
  rv = 0;
done:
  rc_buf_free(&key);
  return rv;
}

typedef struct rc_tctx_s {
  rc_table_t *t;
  uint64_t budget;      /* remaining bytes of decoded key/value storage allowed */
  uint32_t cur_block;
  /* metaindex scan */
  int found_filter;
  uint64_t filter_off, filter_size;
} rc_tctx_t;

static int rc_tctx_charge(rc_tctx_t *c, size_t bytes) {
  if ((uint64_t)bytes + 64 > c->budget) {
    rc_seterr(c->t->err, sizeof(c->t->err),
              "decoded table contents exceed the memory budget");
    return -1;
  }
  c->budget -= (uint64_t)bytes + 64;
  return 0;
}

static int rc_tcb_meta(void *arg, const uint8_t *key, size_t klen, const uint8_t *val,
                       size_t vlen) {
  rc_tctx_t *c = (rc_tctx_t *)arg;
  rc_table_t *t = c->t;
  if (!c->found_filter && klen >= 7 && memcmp(key, "filter.", 7) == 0) {
    size_t nl = klen - 7;
    if (nl >= sizeof(t->filter_name)) {
      rc_seterr(t->err, sizeof(t->err), "metaindex: filter policy name too long (%lu)",
                (unsigned long)nl);
      return -1;
    }
    if (rc_get_handle(val, val + vlen, &c->filter_off, &c->filter_size) < 0) {
      rc_seterr(t->err, sizeof(t->err), "metaindex: bad filter block handle");
      return -1;
    }
    memcpy(t->filter_name, key + 7, nl);
    t->filter_name[nl] = '\0';
    c->found_filter = 1;
  }
  return 0;
}

static int rc_tcb_index(void *arg, const uint8_t *key, size_t klen, const uint8_t *val,
                        size_t vlen) {
  rc_tctx_t *c = (rc_tctx_t *)arg;
  rc_table_t *t = c->t;
  rc_blockinfo_t *bi;
  uint64_t off, size;
  int k = rc_get_handle(val, val + vlen, &off, &size);
  if (k < 0 || (size_t)k != vlen) {
    rc_seterr(t->err, sizeof(t->err), "index: entry %lu has a malformed block handle",
              (unsigned long)t->nblocks);
    return -1;
  }
  if (rc_tctx_charge(c, klen + sizeof(rc_blockinfo_t)) != 0) return -1;
  t->blocks = (rc_blockinfo_t *)rc_grow(t->blocks, t->nblocks, sizeof(rc_blockinfo_t));
  bi = &t->blocks[t->nblocks++];
  memset(bi, 0, sizeof(*bi));
  bi->offset = off;
  bi->size = size;
  bi->sep = rc_memdup(key, klen);
  bi->seplen = klen;
  return 0;
}

static int rc_tcb_data(void *arg, const uint8_t *key, size_t klen, const uint8_t *val,
                       size_t vlen) {
  rc_tctx_t *c = (rc_tctx_t *)arg;
  rc_table_t *t = c->t;
  rc_entry_t *e;
  uint8_t *mem;
  if (rc_tctx_charge(c, klen + vlen + sizeof(rc_entry_t)) != 0) return -1;
  t->entries = (rc_entry_t *)rc_grow(t->entries, t->nentries, sizeof(rc_entry_t));
  e = &t->entries[t->nentries++];
  /* key and value share one allocation; only e->key is freed. */
  mem = (uint8_t *)rc_xmalloc(klen + vlen);
  if (klen) memcpy(mem, key, klen);
  if (vlen) memcpy(mem + klen, val, vlen);
  e->key = mem;
  e->klen = klen;
  e->val = mem + klen;
  e->vlen = vlen;
  e->block = c->cur_block;
  return 0;
}

static int rc_filter_validate(const rc_table_t *t, char *err, size_t errcap) {
  size_t n = t->filter_len, arr, num, i;
  uint32_t prev = 0;
  if (n < 5) {
    rc_seterr(err, errcap, "filter block too small (%lu bytes)", (unsigned long)n);
    return -1;
  }
  if (t->filter[n - 1] >= 32) {
    rc_seterr(err, errcap, "filter block base_lg %u out of range", (unsigned)t->filter[n - 1]);
    return -1;
  }
  arr = rc_get_fixed32(t->filter + n - 5);
  if (arr > n - 5) {
    rc_seterr(err, errcap, "filter block offset-array start %lu beyond %lu",
              (unsigned long)arr, (unsigned long)(n - 5));
    return -1;
  }
  if ((n - 5 - arr) % 4 != 0) {
    rc_seterr(err, errcap, "filter block offset array has ragged size");
    return -1;
  }
  num = (n - 5 - arr) / 4;
  for (i = 0; i < num; i++) {
    uint32_t o = rc_get_fixed32(t->filter + arr + 4 * i);
    if (o < prev || o > arr) {
      rc_seterr(err, errcap, "filter block offset[%lu]=%u out of order/range",
                (unsigned long)i, (unsigned)o);
      return -1;
    }
    prev = o;
  }
  return 0;
}

int rc_table_decode(const uint8_t *file, size_t n, rc_table_t *t) {
  const uint8_t *footer;
  rc_tctx_t c;
  rc_buf_t blk;
  size_t body, i;
  int k1, k2;
  uint8_t ctype = 0;

  memset(t, 0, sizeof(*t));
  if (file == NULL || n < RC_FOOTER) {
    rc_seterr(t->err, sizeof(t->err), "file too short to be an sstable (%lu bytes)",
              (unsigned long)n);
    return -1;
  }
  body = n - RC_FOOTER;
  footer = file + body;
  if (rc_get_fixed32(footer + 40) != RC_MAGIC_LO ||
      rc_get_fixed32(footer + 44) != RC_MAGIC_HI) {
    rc_seterr(t->err, sizeof(t->err), "bad magic number in footer");
    return -1;
  }
  k1 = rc_get_handle(footer, footer + 40, &t->metaindex_off, &t->metaindex_size);
  if (k1 < 0) {
    rc_seterr(t->err, sizeof(t->err), "footer: bad metaindex handle");
    return -1;
  }
  k2 = rc_get_handle(footer + k1, footer + 40, &t->index_off, &t->index_size);
  if (k2 < 0) {
    rc_seterr(t->err, sizeof(t->err), "footer: bad index handle");
    return -1;
  }
  for (i = (size_t)(k1 + k2); i < 40; i++) {
    if (footer[i] != 0) {
      rc_seterr(t->err, sizeof(t->err), "footer: nonzero padding byte at %lu",
                (unsigned long)i);
      return -1;
    }
  }

  memset(&c, 0, sizeof(c));
  c.t = t;
  c.budget = (uint64_t)n * 128u + ((uint64_t)16 << 20);
  rc_buf_init(&blk);

  /* metaindex */
  if (rc_table_read_block(file, body, t->metaindex_off, t->metaindex_size, &blk, &ctype,
                          t->err, sizeof(t->err), "metaindex") != 0)
    goto fail;
  if (rc_block_parse(blk.data, blk.len, rc_tcb_meta, &c, NULL, NULL, t->err,
                     sizeof(t->err), "metaindex") != 0)
    goto fail;

  /* filter block */
  if (c.found_filter) {
    if (rc_table_read_block(file, body, c.filter_off, c.filter_size, &blk, &ctype, t->err,
                            sizeof(t->err), "filter") != 0)
      goto fail;
    t->filter = rc_memdup(blk.data, blk.len);
    t->filter_len = blk.len;
    if (rc_filter_validate(t, t->err, sizeof(t->err)) != 0) goto fail;
  }

  /* index */
  if (rc_table_read_block(file, body, t->index_off, t->index_size, &blk, &ctype, t->err,
                          sizeof(t->err), "index") != 0)
    goto fail;
  if (rc_block_parse(blk.data, blk.len, rc_tcb_index, &c, NULL, NULL, t->err,
                     sizeof(t->err), "index") != 0)
    goto fail;

  /* data blocks */
  for (i = 0; i < t->nblocks; i++) {
    rc_blockinfo_t *bi = &t->blocks[i];
    char what[48];
    snprintf(what, sizeof(what), "data block %lu", (unsigned long)i);
    if (rc_table_read_block(file, body, bi->offset, bi->size, &blk, &bi->ctype, t->err,
                            sizeof(t->err), what) != 0)
      goto fail;
    c.cur_block = (uint32_t)i;
    if (rc_block_parse(blk.data, blk.len, rc_tcb_data, &c, &bi->nrestarts, &bi->nentries,
                       t->err, sizeof(t->err), what) != 0)
      goto fail;
  }
  rc_buf_free(&blk);
  return 0;

fail:
  rc_buf_free(&blk);
  {
    /* keep the diagnostic, release everything else */
    char saved[sizeof(t->err)];
    memcpy(saved, t->err, sizeof(saved));
    rc_table_free(t);
    memcpy(t->err, saved, sizeof(saved));
  }
  return -1;
}

void rc_table_free(rc_table_t *t) {
  size_t i;
  if (t == NULL) return;
  for (i = 0; i < t->nentries; i++) free(t->entries[i].key);
  free(t->entries);
  for (i = 0; i < t->nblocks; i++) free(t->blocks[i].sep);
  free(t->blocks);
  free(t->filter);
  memset(t, 0, sizeof(*t));
}

int rc_table_filter_may_match(const rc_table_t *t, uint64_t block_offset,
                              const uint8_t *key, size_t klen) {
  size_t n, arr, num;
  uint64_t index;
  unsigned base_lg;
  if (t == NULL || t->filter == NULL) return 1;
  n = t->filter_len;
  if (n < 5) return 1;
  base_lg = t->filter[n - 1];
  arr = rc_get_fixed32(t->filter + n - 5);
  if (arr > n - 5) return 1;
  num = (n - 5 - arr) / 4;
  index = base_lg >= 64 ? 0 : (block_offset >> base_lg);
  if (index < num) {
    /* For the last filter, "limit" is the offset-array start word itself. */
    uint32_t start = rc_get_fixed32(t->filter + arr + 4 * (size_t)index);
    uint32_t limit = rc_get_fixed32(t->filter + arr + 4 * (size_t)index + 4);
    if (start <= limit && limit <= arr) {
      if (start == limit) return 0; /* empty filter matches nothing */
      return rc_bloom_may_match(t->filter + start, limit - start, key, klen);
    }
    return 1; /* malformed offsets: treat as potential match */
  }
  return 1;
}

/* ------------------------------------------------------------------ version edits */

enum {
  RC_TAG_COMPARATOR = 1,
  RC_TAG_LOG_NUMBER = 2,
  RC_TAG_NEXT_FILE = 3,
  RC_TAG_LAST_SEQUENCE = 4,
  RC_TAG_COMPACT_POINTER = 5,
  RC_TAG_DELETED_FILE = 6,
  RC_TAG_NEW_FILE = 7,
  /* 8 was used for large value refs; no longer valid */
  RC_TAG_PREV_LOG_NUMBER = 9
};

static int rc_get_level(const uint8_t **pp, const uint8_t *limit, int *level) {
  uint32_t v;
  int k = rc_get_varint32(*pp, limit, &v);
  if (k < 0 || v >= RC_LEVELS) return -1;
  *pp += k;
  *level = (int)v;
  return 0;
}

/* Internal keys are length-prefixed and must be non-empty. */
static int rc_get_ikey(const uint8_t **pp, const uint8_t *limit, const uint8_t **key,
                       size_t *klen) {
  long used = rc_get_lenprefixed(*pp, limit, key, klen);
  if (used < 0 || *klen == 0) return -1;
  *pp += used;
  return 0;
}

int rc_edit_decode(const uint8_t *rec, size_t n, rc_edit_t *e) {
  const uint8_t *p = rec, *limit;
  memset(e, 0, sizeof(*e));
  if (rec == NULL) {
    if (n != 0) return -1;
    return 0;
  }
  limit = rec + n;
  while (p < limit) {
    uint32_t tag;
    int k = rc_get_varint32(p, limit, &tag);
    if (k < 0) goto fail;
    p += k;
    switch (tag) {
      case RC_TAG_COMPARATOR: {
        const uint8_t *s;
        size_t sl;
        long used = rc_get_lenprefixed(p, limit, &s, &sl);
        if (used < 0 || sl >= sizeof(e->comparator)) goto fail;
        p += used;
        memcpy(e->comparator, s, sl);
        e->comparator[sl] = '\0';
        e->has_comparator = 1;
        break;
      }
      case RC_TAG_LOG_NUMBER:
        k = rc_get_varint64(p, limit, &e->log_number);
        if (k < 0) goto fail;
        p += k;
        e->has_log_number = 1;
        break;
      case RC_TAG_PREV_LOG_NUMBER:
        k = rc_get_varint64(p, limit, &e->prev_log_number);
        if (k < 0) goto fail;
        p += k;
        e->has_prev_log_number = 1;
        break;
      case RC_TAG_NEXT_FILE:
        k = rc_get_varint64(p, limit, &e->next_file);
        if (k < 0) goto fail;
        p += k;
        e->has_next_file = 1;
        break;
      case RC_TAG_LAST_SEQUENCE:
        k = rc_get_varint64(p, limit, &e->last_sequence);
        if (k < 0) goto fail;
        p += k;
        e->has_last_sequence = 1;
        break;
      case RC_TAG_COMPACT_POINTER: {
        int level;
        const uint8_t *key;
        size_t klen;
        if (rc_get_level(&p, limit, &level) != 0) goto fail;
        if (rc_get_ikey(&p, limit, &key, &klen) != 0) goto fail;
        e->compact_pointers =
            rc_grow(e->compact_pointers, e->ncompact, sizeof(*e->compact_pointers));
        e->compact_pointers[e->ncompact].level = level;
        e->compact_pointers[e->ncompact].key = rc_memdup(key, klen);
        e->compact_pointers[e->ncompact].klen = klen;
        e->ncompact++;
        break;
      }
      case RC_TAG_DELETED_FILE: {
        int level;
        uint64_t number;
        if (rc_get_level(&p, limit, &level) != 0) goto fail;
        k = rc_get_varint64(p, limit, &number);
        if (k < 0) goto fail;
        p += k;
        e->deleted = rc_grow(e->deleted, e->ndeleted, sizeof(*e->deleted));
        e->deleted[e->ndeleted].level = level;
        e->deleted[e->ndeleted].number = number;
        e->ndeleted++;
        break;
      }
      case RC_TAG_NEW_FILE: {
        int level;
        uint64_t number, size;
        const uint8_t *sk, *lk;
        size_t sl, ll;
        rc_fileent_t *f;
        if (rc_get_level(&p, limit, &level) != 0) goto fail;
        k = rc_get_varint64(p, limit, &number);
        if (k < 0) goto fail;
        p += k;
        k = rc_get_varint64(p, limit, &size);
        if (k < 0) goto fail;
        p += k;
        if (rc_get_ikey(&p, limit, &sk, &sl) != 0) goto fail;
        if (rc_get_ikey(&p, limit, &lk, &ll) != 0) goto fail;
        e->added = (rc_fileent_t *)rc_grow(e->added, e->nadded, sizeof(rc_fileent_t));
        f = &e->added[e->nadded++];
        f->level = level;
        f->number = number;
        f->size = size;
        f->smallest = rc_memdup(sk, sl);
        f->slen = sl;
        f->largest = rc_memdup(lk, ll);
        f->llen = ll;
        break;
      }
      default:
        goto fail;
    }
  }
  return 0;

fail:
  rc_edit_free(e);
  return -1;
}

void rc_edit_free(rc_edit_t *e) {
  size_t i;
  if (e == NULL) return;
  for (i = 0; i < e->ncompact; i++) free(e->compact_pointers[i].key);
  free(e->compact_pointers);
  free(e->deleted);
  for (i = 0; i < e->nadded; i++) {
    free(e->added[i].smallest);
    free(e->added[i].largest);
  }
  free(e->added);
  memset(e, 0, sizeof(*e));
}

/* ------------------------------------------------------------------ MANIFEST */

static void rc_fileent_release(rc_fileent_t *f) {
  free(f->smallest);
  free(f->largest);
  f->smallest = NULL;
  f->largest = NULL;
}

static void rc_manifest_remove(rc_manifest_t *m, int level, uint64_t number) {
  size_t i = 0;
  while (i < m->nfiles) {
    if (m->files[i].level == level && m->files[i].number == number) {
      rc_fileent_release(&m->files[i]);
      memmove(&m->files[i], &m->files[i + 1],
              (m->nfiles - i - 1) * sizeof(rc_fileent_t));
      m->nfiles--;
    } else {
      i++;
    }
  }
}

static int rc_fileent_cmp(const void *a, const void *b) {
  const rc_fileent_t *x = (const rc_fileent_t *)a;
  const rc_fileent_t *y = (const rc_fileent_t *)b;
  if (x->level != y->level) return x->level < y->level ? -1 : 1;
  if (x->number != y->number) return x->number < y->number ? -1 : 1;
  return 0;
}

int rc_manifest_replay(const uint8_t *file, size_t n, rc_manifest_t *m) {
  rc_logresult_t lr;
  size_t i, j, cap = 0;
  int rv = 0;

  memset(m, 0, sizeof(*m));
  rc_log_read(file, n, &lr);
  m->consumed = lr.consumed;
  m->ndrops = lr.ndrops;

  for (i = 0; i < lr.nrecs; i++) {
    rc_edit_t e;
    if (rc_edit_decode(lr.recs[i].data, lr.recs[i].len, &e) != 0) {
      rc_seterr(m->err, sizeof(m->err),
                "manifest record %lu (offset %llu, %lu bytes) is not a valid version edit",
                (unsigned long)i, (unsigned long long)lr.recs[i].start_off,
                (unsigned long)lr.recs[i].len);
      rv = -1;
      break;
    }
    m->nedits++;
    if (e.has_comparator) memcpy(m->comparator, e.comparator, sizeof(m->comparator));
    if (e.has_log_number) {
      m->log_number = e.log_number;
      m->has_log_number = 1;
    }
    if (e.has_prev_log_number) m->prev_log_number = e.prev_log_number;
    if (e.has_next_file) {
      m->next_file = e.next_file;
      m->has_next_file = 1;
    }
    if (e.has_last_sequence) {
      m->last_sequence = e.last_sequence;
      m->has_last_sequence = 1;
    }
    /* Deletions act on the state built by earlier edits ... */
    for (j = 0; j < e.ndeleted; j++)
      rc_manifest_remove(m, e.deleted[j].level, e.deleted[j].number);
    /* ... and additions in the same edit win over them. */
    for (j = 0; j < e.nadded; j++) {
      rc_fileent_t *src = &e.added[j], *dst;
      rc_manifest_remove(m, src->level, src->number); /* replace duplicates */
      if (m->nfiles == cap) {
        cap = cap ? cap * 2 : 16;
        m->files = (rc_fileent_t *)rc_xrealloc(m->files, cap * sizeof(rc_fileent_t));
      }
      dst = &m->files[m->nfiles++];
      *dst = *src; /* take ownership of the key copies */
      src->smallest = NULL;
      src->largest = NULL;
    }
    rc_edit_free(&e);
  }
  rc_logresult_free(&lr);

  if (rv != 0) {
    /* keep err / consumed / ndrops / nedits, release the file list */
    for (i = 0; i < m->nfiles; i++) rc_fileent_release(&m->files[i]);
    free(m->files);
    m->files = NULL;
    m->nfiles = 0;
    return -1;
  }
  if (m->nfiles > 1) qsort(m->files, m->nfiles, sizeof(rc_fileent_t), rc_fileent_cmp);
  return 0;
}

void rc_manifest_free(rc_manifest_t *m) {
  size_t i;
  if (m == NULL) return;
  for (i = 0; i < m->nfiles; i++) rc_fileent_release(&m->files[i]);
  free(m->files);
  memset(m, 0, sizeof(*m));
}

/* racemon - C10: native multi-thread stress of one shared handle for the
 * sanitizers (ThreadSanitizer / AddressSanitizer+UBSan are the oracle).
 *
 * 6-8 threads drive every public entry point on ONE handle (each iterator is
 * confined to its thread), a second handle shares the block cache, the table
 * cache is at its minimum so eviction races with readers, the write buffer is
 * small so memtable switches happen under readers.  Seed-driven delays at every
 * libc I/O call (iomon) and inside the skiplist insert (hook) widen the windows.
 * The monitor itself records which API pairs really overlapped in time.
 *
 * usage: racemon --seed S --case N --threads T --ops K --dir D
 */
#include <errno.h>
#include <pthread.h>
#include <sched.h>
#include <unistd.h>

#include "dbh.h"
#include "iomon.h"
#include "vh.h"

#include "util/verif.h"

enum { OP_PUT, OP_DEL, OP_BATCH, OP_GET, OP_HAS, OP_ITER, OP_SNAPGET, OP_COMPACT, OP_CRANGE, OP_FLUSH, OP_PROP,
       OP_APPROX, OP_BACKUP, OP_GET2, OP_PUT2, OP_ITERSNAP, OP_NOPS, OP_IDLE = OP_NOPS };
static const char *opname[] = {"put", "del", "write", "get", "has", "iterate", "snapshot-get-release", "compact", "compact_range",
                               "flush", "property", "approximate_sizes", "backup", "get(db2)", "put(db2)", "iterate(snapshot)", "idle"};

#define MAXT 12
#define NKEYS 400

static dbh_t H, H2;
static int nthreads = 6, nops = 4000;
static uint64_t g_seed = 1;
static int g_case = 0;
static int cur_op[MAXT];
static uint64_t overlap[OP_NOPS][OP_NOPS];
static uint64_t opcount[OP_NOPS];
static uint64_t errors_seen;

static size_t key_bytes(char *buf, uint32_t k) { return (size_t)sprintf(buf, "key%06u", k); }

static void begin_op(int tid, int op) {
  int i;
  __atomic_store_n(&cur_op[tid], op, __ATOMIC_RELAXED);
  __atomic_add_fetch(&opcount[op], 1, __ATOMIC_RELAXED);
  for (i = 0; i < nthreads; i++) {
    int o;
    if (i == tid) continue;
    o = __atomic_load_n(&cur_op[i], __ATOMIC_RELAXED);
    if (o != OP_IDLE) __atomic_add_fetch(&overlap[op][o], 1, __ATOMIC_RELAXED);
  }
}

static void end_op(int tid) { __atomic_store_n(&cur_op[tid], OP_IDLE, __ATOMIC_RELAXED); }

static void vp_hook(int id, const void *p, uint64_t a, uint64_t b) {
  static __thread uint32_t n;
  (void)p; (void)a; (void)b;
  if (id == LDB_VP_SKIPLIST_LINK && (++n & 15) == 0) sched_yield();
  else if (id == LDB_VP_WRITE_LOGGED && (++n & 7) == 0) sched_yield();
}

static void note_rc(int rc) {
  if (rc != LDB_OK && rc != LDB_NOTFOUND) __atomic_add_fetch(&errors_seen, 1, __ATOMIC_RELAXED);
}

typedef struct targ_s { int tid; vrng_t r; } targ_t;

static void *worker(void *arg) {
  targ_t *t = arg;
  char kb[32], k2[32];
  uint8_t *vb = malloc(40000);
  int i;
  for (i = 0; i < nops; i++) {
    uint32_t c = vr_uniform(&t->r, 1000);
    uint32_t k = vr_uniform(&t->r, NKEYS);
    ldb_slice_t key = ldb_slice(kb, key_bytes(kb, k)), val;
    uint32_t vlen = vr_chance(&t->r, 900) ? 8 + vr_uniform(&t->r, 400) : 2000 + vr_uniform(&t->r, 20000);
    if (c < 260) {
      begin_op(t->tid, OP_PUT);
      vh_fill_value(vb, vlen, ((uint64_t)t->tid << 32) | (uint32_t)i);
      val = ldb_slice(vb, vlen);
      note_rc(ldb_put(H.db, &key, &val, NULL));
    } else if (c < 310) {
      begin_op(t->tid, OP_DEL);
      note_rc(ldb_del(H.db, &key, NULL));
    } else if (c < 370) {
      ldb_batch_t *b = ldb_batch_create();
      ldb_writeopt_t wo = *ldb_writeopt_default;
      int n = 1 + (int)vr_uniform(&t->r, 12), j;
      begin_op(t->tid, OP_BATCH);
      for (j = 0; j < n; j++) {
        ldb_slice_t kk = ldb_slice(k2, key_bytes(k2, vr_uniform(&t->r, NKEYS)));
        vh_fill_value(vb, 100, 77);
        val = ldb_slice(vb, 100);
        if (j & 1) ldb_batch_del(b, &kk); else ldb_batch_put(b, &kk, &val);
      }
      wo.sync = vr_chance(&t->r, 100);
      note_rc(ldb_write(H.db, b, &wo));
      ldb_batch_destroy(b);
    } else if (c < 560) {
      int rc;
      begin_op(t->tid, OP_GET);
      rc = ldb_get(H.db, &key, &val, NULL);
      note_rc(rc);
      if (rc == LDB_OK) ldb_free(val.data);
    } else if (c < 600) {
      begin_op(t->tid, OP_HAS);
      note_rc(ldb_has(H.db, &key, NULL));
    } else if (c < 680) {
      ldb_iter_t *it;
      int n = 0;
      begin_op(t->tid, OP_ITER);
      it = ldb_iterator(H.db, NULL);
      ldb_iter_seek(it, &key);
      while (ldb_iter_valid(it) && n++ < 30) { if (n & 3) ldb_iter_next(it); else ldb_iter_prev(it); }
      ldb_iter_last(it);
      if (ldb_iter_valid(it)) ldb_iter_prev(it);
      note_rc(ldb_iter_status(it));
      ldb_iter_destroy(it);
    } else if (c < 740) {
      const ldb_snapshot_t *s;
      ldb_readopt_t ro = *ldb_readopt_default;
      int rc;
      begin_op(t->tid, OP_SNAPGET);
      s = ldb_snapshot(H.db);
      ro.snapshot = s;
      rc = ldb_get(H.db, &key, &val, &ro);
      if (rc == LDB_OK) ldb_free(val.data);
      ldb_release(H.db, s);
    } else if (c < 770) {
      const ldb_snapshot_t *s;
      ldb_readopt_t ro = *ldb_iteropt_default;
      ldb_iter_t *it;
      int n = 0;
      begin_op(t->tid, OP_ITERSNAP);
      s = ldb_snapshot(H.db);
      ro.snapshot = s;
      it = ldb_iterator(H.db, &ro);
      for (ldb_iter_first(it); ldb_iter_valid(it) && n < 40; ldb_iter_next(it)) n++;
      ldb_iter_destroy(it);
      ldb_release(H.db, s);
    } else if (c < 780) {
      ldb_slice_t ke = ldb_slice(k2, key_bytes(k2, k + 50));
      begin_op(t->tid, OP_COMPACT);
      ldb_compact(H.db, &key, &ke);
    } else if (c < 800) {
      begin_op(t->tid, OP_CRANGE);
      ldb_test_compact_range(H.db, (int)vr_uniform(&t->r, 3), NULL, NULL);
    } else if (c < 815) {
      begin_op(t->tid, OP_FLUSH);
      note_rc(ldb_test_compact_memtable(H.db));
    } else if (c < 860) {
      static const char *props[] = {"leveldb.stats", "leveldb.sstables", "leveldb.approximate-memory-usage", "leveldb.num-files-at-level1"};
      char *v = NULL;
      begin_op(t->tid, OP_PROP);
      ldb_property(H.db, props[vr_uniform(&t->r, 4)], &v);
      if (v) ldb_free(v);
    } else if (c < 890) {
      ldb_range_t rg;
      uint64_t sz;
      begin_op(t->tid, OP_APPROX);
      rg.start = key;
      rg.limit = ldb_slice(k2, key_bytes(k2, k + 100));
      ldb_approximate_sizes(H.db, &rg, 1, &sz);
    } else if (c < 896) {
      char bdir[700];
      begin_op(t->tid, OP_BACKUP);
      snprintf(bdir, sizeof(bdir), "%s-bak-%d-%d", H.dir, t->tid, i);
      note_rc(ldb_backup(H.db, bdir));
      iom_pause(1); vh_rm_rf(bdir); iom_pause(-1);
    } else if (c < 950) {
      int rc;
      begin_op(t->tid, OP_GET2);
      rc = ldb_get(H2.db, &key, &val, NULL);
      if (rc == LDB_OK) ldb_free(val.data);
    } else {
      begin_op(t->tid, OP_PUT2);
      vh_fill_value(vb, vlen, 5);
      val = ldb_slice(vb, vlen);
      note_rc(ldb_put(H2.db, &key, &val, NULL));
    }
    end_op(t->tid);
  }
  free(vb);
  return NULL;
}

int main(int argc, char **argv) {
  const char *base = "/dev/shm/verif-racemon";
  char dir[600], dir2[600];
  cfg_t c;
  pthread_t th[MAXT];
  targ_t ta[MAXT];
  vrng_t r;
  int i, j, rc;
  for (i = 1; i < argc; i++) {
    if (!strcmp(argv[i], "--seed") && i + 1 < argc) g_seed = strtoull(argv[++i], NULL, 0);
    else if (!strcmp(argv[i], "--case") && i + 1 < argc) g_case = atoi(argv[++i]);
    else if (!strcmp(argv[i], "--threads") && i + 1 < argc) nthreads = atoi(argv[++i]);
    else if (!strcmp(argv[i], "--ops") && i + 1 < argc) nops = atoi(argv[++i]);
    else if (!strcmp(argv[i], "--dir") && i + 1 < argc) base = argv[++i];
    else { fprintf(stderr, "unknown argument %s\n", argv[i]); return 2; }
  }
  if (nthreads > MAXT) nthreads = MAXT;
  vh_init(NULL);
  vr_seed(&r, g_seed * 1000003ULL + (uint64_t)g_case * 7919ULL);
  snprintf(dir, sizeof(dir), "%s/c%d/db", base, g_case);
  snprintf(dir2, sizeof(dir2), "%s/c%d/db2", base, g_case);
  iom_pause(1); vh_rm_rf(dir); vh_rm_rf(dir2); { char top[600]; snprintf(top, sizeof(top), "%s/c%d", base, g_case); vh_mkdir_p(top); } iom_pause(-1);
  vh_set_context("racemon seed=%llu case=%d threads=%d ops=%d", (unsigned long long)g_seed, g_case, nthreads, nops);

  cfg_default(&c);
  c.write_buffer_size = 64 << 10;
  c.max_file_size = 1 << 20;
  c.block_size = 1024 << (g_case % 3);
  c.max_open_files = 74;                 /* table-cache eviction races with readers */
  c.use_mmap = g_case & 1;
  c.compression = (g_case >> 1) & 1;
  c.filter_bits = (g_case % 3 == 0) ? 10 : 0;
  c.cache_kind = 1;                      /* tiny shared block cache: constant eviction */
  iom_add_root(dir);
  iom_add_root(dir2);
  iom_delay(g_seed + (uint64_t)g_case, 60, 120);
  ldb_verif_point_cb = vp_hook;

  dbh_init(&H, dir, &c);
  rc = dbh_open(&H, 1);
  if (rc != LDB_OK) vh_fatal("open db rc=%d", rc);
  /* second handle on another directory sharing the first one's block cache */
  dbh_init(&H2, dir2, &c);
  {
    /* dbh_open creates its own cache: open by hand with the shared one */
    ldb_dbopt_t o = H.opt;
    o.block_cache = H.cache;
    o.info_log = H2.logger;
    rc = ldb_open(dir2, &o, &H2.db);
    if (rc != LDB_OK) vh_fatal("open db2 rc=%d", rc);
  }
  for (i = 0; i < nthreads; i++) cur_op[i] = OP_IDLE;
  for (i = 0; i < nthreads; i++) {
    ta[i].tid = i;
    vr_seed(&ta[i].r, vr_next(&r));
    if (pthread_create(&th[i], NULL, worker, &ta[i]) != 0) vh_fatal("pthread_create");
  }
  for (i = 0; i < nthreads; i++) pthread_join(th[i], NULL);
  /* close after join, while background compaction may still be scheduled */
  ldb_close(H2.db); H2.db = NULL;
  dbh_close(&H);
  ldb_verif_point_cb = NULL;
  dbh_destroy(&H2);
  dbh_destroy(&H);

  vh_count("cases", 1);
  vh_count("api_calls", (uint64_t)nthreads * (uint64_t)nops);
  vh_count("error_statuses", errors_seen);
  vh_count("memtable_flushes", H.log.level0_started);
  vh_count("compactions", H.log.compacting);
  vh_count("table_deletions", H.log.deleted);
  for (i = 0; i < OP_NOPS; i++) {
    for (j = 0; j < OP_NOPS; j++) {
      if (overlap[i][j]) {
        vh_distinct("overlapping_api_pairs", "%s||%s", opname[i < j ? i : j], opname[i < j ? j : i]);
        vh_count("overlap_observations", overlap[i][j]);
      }
    }
  }
  if (errors_seen) vh_violation("C10", "unexpected-error-status", "%llu API calls returned an error status on a healthy file system", (unsigned long long)errors_seen);
  vh_sample("C10", "case %d: %d threads x %d calls, cfg %s, %llu flushes %llu compactions %llu file deletions; e.g. get||write overlapped %llu times, iterate||compact_range %llu, get||flush %llu",
            g_case, nthreads, nops, cfg_id(&c), (unsigned long long)H.log.level0_started, (unsigned long long)H.log.compacting,
            (unsigned long long)H.log.deleted, (unsigned long long)(overlap[OP_GET][OP_BATCH] + overlap[OP_BATCH][OP_GET]),
            (unsigned long long)(overlap[OP_ITER][OP_CRANGE] + overlap[OP_CRANGE][OP_ITER]),
            (unsigned long long)(overlap[OP_GET][OP_FLUSH] + overlap[OP_FLUSH][OP_GET]));
  iom_pause(1); { char top[600]; snprintf(top, sizeof(top), "%s/c%d", base, g_case); vh_rm_rf(top); } iom_pause(-1);
  vh_finish();
  return 0;
}

/* vh - common harness utilities: PRNG, result protocol, counters, byte helpers. */
#ifndef VH_H
#define VH_H

#include <stdarg.h>
#include <stddef.h>
#include <stdint.h>
#include <stdio.h>
#include <stdlib.h>
#include <string.h>

/* ---- PRNG (xorshift128+), deterministic per seed */
typedef struct vrng_s { uint64_t a, b; } vrng_t;
void vr_seed(vrng_t *r, uint64_t seed);
uint64_t vr_next(vrng_t *r);
uint32_t vr_uniform(vrng_t *r, uint32_t n);          /* [0,n) ; n==0 -> 0 */
int vr_chance(vrng_t *r, uint32_t permille);
uint32_t vr_skewed(vrng_t *r, uint32_t max_log);      /* small numbers likely */

/* ---- result protocol: JSON lines on the result stream (default stdout).
 *  {"t":"viol","prop":"C01","key":"...","msg":"..."}
 *  {"t":"count","k":"name","v":N}           (emitted by vh_finish)
 *  {"t":"distinct","set":"name","h":["hex",...]} (emitted by vh_finish)
 *  {"t":"sample","prop":"C01","v":{...}}
 *  {"t":"done"}                              (emitted by vh_finish)         */
void vh_init(const char *result_path);               /* NULL = stdout */
void vh_violation(const char *prop, const char *key, const char *fmt, ...)
  __attribute__((format(printf, 3, 4)));
int vh_nviolations(void);
void vh_count(const char *name, uint64_t delta);
uint64_t vh_counter(const char *name);
void vh_distinct(const char *set, const char *fmt, ...) __attribute__((format(printf, 2, 3)));
void vh_sample(const char *prop, const char *fmt, ...) __attribute__((format(printf, 2, 3)));
void vh_note(const char *fmt, ...) __attribute__((format(printf, 1, 2)));
void vh_finish(void);
void vh_flush_counts(void);   /* emit counters/distinct sets now and reset them (no "done" line) */
void vh_reset_counts(void);
void vh_set_context(const char *fmt, ...) __attribute__((format(printf, 1, 2))); /* added to violations */
/* set a fixed-size slot in shared memory the parent can read after a crash */
void vh_fatal(const char *fmt, ...) __attribute__((format(printf, 1, 2), noreturn)); /* harness failure: exit 2 */

/* ---- bytes */
uint64_t vh_hash64(const void *p, size_t n, uint64_t seed);
/* printable/escaped rendering into a static ring of buffers (for messages) */
const char *vh_esc(const void *p, size_t n);
/* JSON-safe hex */
const char *vh_hex(const void *p, size_t n);

/* deterministic value contents: value(vid,len) - first bytes carry vid */
void vh_fill_value(uint8_t *dst, size_t len, uint64_t vid);
int vh_check_value(const uint8_t *p, size_t len, uint64_t vid); /* 1 = matches */
uint64_t vh_value_vid(const uint8_t *p, size_t len);   /* 0 if too short */

/* ---- stuck-call watcher (logical, not wall-clock): a thread that samples two progress measures.
 *  `fg` = completed steps of the driving thread, `io` = intercepted calls of all observed threads.
 *  (a) the driver has not completed a step while more than `io_limit` intercepted calls were made
 *      -> violation <prop>/call-stuck-while-background-keeps-working  (livelock / endless retry)
 *  (b) neither measure moved and every other thread of the process was blocked (state S in
 *      /proc/self/task) at 200 consecutive samples 50 ms apart
 *      -> violation <prop>/call-stuck-all-threads-blocked            (deadlock: no runnable thread)
 *  After a report the watcher calls vh_finish() and _exit(0): the process cannot continue. */
extern void (*vh_watch_thread_init)(void);   /* optional: run first in the watcher thread (e.g. iom_pause(1)) */
void vh_watch_start(const char *prop, uint64_t (*fg)(void), uint64_t (*io)(void), uint64_t io_limit,
                    const char *(*what)(void));

/* misc */
double vh_now(void);
int vh_mkdir_p(const char *path);
int vh_rm_rf(const char *path);
int vh_copy_dir(const char *from, const char *to);   /* flat copy of regular files */
long vh_env_long(const char *name, long dflt);

#endif

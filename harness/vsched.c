/* sched - serialising seeded scheduler. See sched.h. */
#include <errno.h>
#include <semaphore.h>
#include <stdio.h>
#include <stdlib.h>
#include <string.h>
#include <sys/select.h>
#include <unistd.h>

#include "vsched.h"

int __real_pthread_create(pthread_t *t, const pthread_attr_t *a, void *(*fn)(void *), void *arg);
int __real_pthread_join(pthread_t t, void **ret);
int __real_pthread_mutex_init(pthread_mutex_t *m, const pthread_mutexattr_t *a);
int __real_pthread_mutex_destroy(pthread_mutex_t *m);
int __real_pthread_mutex_lock(pthread_mutex_t *m);
int __real_pthread_mutex_unlock(pthread_mutex_t *m);
int __real_pthread_cond_init(pthread_cond_t *c, const pthread_condattr_t *a);
int __real_pthread_cond_destroy(pthread_cond_t *c);
int __real_pthread_cond_wait(pthread_cond_t *c, pthread_mutex_t *m);
int __real_pthread_cond_signal(pthread_cond_t *c);
int __real_pthread_cond_broadcast(pthread_cond_t *c);
int __real_select(int n, fd_set *r, fd_set *w, fd_set *e, struct timeval *tv);

enum { TS_UNUSED = 0, TS_RUNNABLE, TS_BLOCKED_MUTEX, TS_BLOCKED_COND, TS_BLOCKED_JOIN, TS_FINISHED };
static const char *state_name[] = {"unused", "runnable", "blocked-on-mutex", "waiting-on-condvar", "joining", "finished"};

#define MAXT 64

typedef struct th_s {
  int id, state, internal;
  sem_t sem;
  const void *blocked_on;
  const void *cond_mutex;
  int join_target;
  pthread_t real;
  char label[64];
  uint64_t prio;
  void *(*fn)(void *);
  void *arg;
  int woken_by_signal;
  int cond_class_waited;
} th_t;

static th_t threads[MAXT];
static int nthreads = 0;
static int active = 0;
static __thread int self_id = -1;
static __thread int self_is_harness = 0;
static sched_cfg_t cfg;
static uint64_t rng_a, rng_b;
static uint64_t steps = 0, switches = 0, sig = 1469598103934665603ULL;
static uint64_t pct_points[16];
static uint64_t pct_low = 0;
static uint64_t starve_until = 0, allow_until = 0;
static uint64_t enum_alts[3];
static int enum_stage;
static sched_stats_t stats;
static int cond_class_hint = 0, cond_auto_counter = 0;

void (*sched_on_failure)(const char *kind, const char *msg) = NULL;

/* ------------------------------------------------------------------ */
/* pointer-keyed tables for mutex / cond models */

typedef struct ment_s { const void *key; int owner; } ment_t;
typedef struct cent_s { const void *key; int cls; int nwait; } cent_t;
#define TBL 16384
static ment_t mtab[TBL];
static cent_t ctab[TBL];

static size_t hptr(const void *p) { uintptr_t x = (uintptr_t)p; x ^= x >> 17; x *= 0x9e3779b97f4a7c15ULL; return (size_t)(x >> 20) & (TBL - 1); }

static ment_t *mfind(const void *k, int create) {
  size_t i = hptr(k), n;
  for (n = 0; n < TBL; n++, i = (i + 1) & (TBL - 1)) {
    if (mtab[i].key == k) return &mtab[i];
    if (mtab[i].key == NULL) {
      if (!create) return NULL;
      mtab[i].key = k; mtab[i].owner = -1;
      return &mtab[i];
    }
  }
  abort();
}

static void mdel(const void *k) {
  size_t i = hptr(k), j, n;
  for (n = 0; n < TBL; n++, i = (i + 1) & (TBL - 1)) {
    if (mtab[i].key == NULL) return;
    if (mtab[i].key == k) break;
  }
  /* backward-shift deletion */
  j = i;
  for (;;) {
    size_t h;
    j = (j + 1) & (TBL - 1);
    if (mtab[j].key == NULL) break;
    h = hptr(mtab[j].key);
    if ((i <= j) ? (h <= i || h > j) : (h <= i && h > j)) { mtab[i] = mtab[j]; i = j; }
  }
  mtab[i].key = NULL;
}

static cent_t *cfind(const void *k, int create) {
  size_t i = hptr(k), n;
  for (n = 0; n < TBL; n++, i = (i + 1) & (TBL - 1)) {
    if (ctab[i].key == k) return &ctab[i];
    if (ctab[i].key == NULL) {
      if (!create) return NULL;
      ctab[i].key = k; ctab[i].cls = 0; ctab[i].nwait = 0;
      return &ctab[i];
    }
  }
  abort();
}

static void cdel(const void *k) {
  size_t i = hptr(k), j, n;
  for (n = 0; n < TBL; n++, i = (i + 1) & (TBL - 1)) {
    if (ctab[i].key == NULL) return;
    if (ctab[i].key == k) break;
  }
  j = i;
  for (;;) {
    size_t h;
    j = (j + 1) & (TBL - 1);
    if (ctab[j].key == NULL) break;
    h = hptr(ctab[j].key);
    if ((i <= j) ? (h <= i || h > j) : (h <= i && h > j)) { ctab[i] = ctab[j]; i = j; }
  }
  ctab[i].key = NULL;
}

/* ------------------------------------------------------------------ */

static uint64_t rnd(void) {
  uint64_t s1 = rng_a, s0 = rng_b;
  rng_a = s0;
  s1 ^= s1 << 23;
  rng_b = s1 ^ s0 ^ (s1 >> 17) ^ (s0 >> 26);
  return rng_b + s0;
}

static uint32_t rndn(uint32_t n) { return n ? (uint32_t)((rnd() >> 16) % n) : 0; }

static void describe_all(char *buf, size_t n) {
  size_t o = 0;
  int i;
  o += (size_t)snprintf(buf + o, n - o, "step %llu, %d threads:", (unsigned long long)steps, nthreads);
  for (i = 0; i < nthreads && o + 200 < n; i++) {
    th_t *t = &threads[i];
    o += (size_t)snprintf(buf + o, n - o, " [T%d %s %s in '%s'", t->id, t->internal ? "internal" : "client",
                          state_name[t->state], t->label);
    if (t->state == TS_BLOCKED_MUTEX) {
      ment_t *m = mfind(t->blocked_on, 0);
      o += (size_t)snprintf(buf + o, n - o, " mutex %p owned by T%d", t->blocked_on, m ? m->owner : -2);
    } else if (t->state == TS_BLOCKED_COND) {
      cent_t *c = cfind(t->blocked_on, 0);
      o += (size_t)snprintf(buf + o, n - o, " condvar %p class %d", t->blocked_on, c ? c->cls : -1);
    } else if (t->state == TS_BLOCKED_JOIN) {
      o += (size_t)snprintf(buf + o, n - o, " T%d", t->join_target);
    }
    o += (size_t)snprintf(buf + o, n - o, "]");
  }
}

static void fail(const char *kind) {
  static char msg[6000];
  describe_all(msg, sizeof(msg));
  if (sched_on_failure) sched_on_failure(kind, msg);
  fprintf(stderr, "sched: %s: %s\n", kind, msg);
  _exit(3);
}

static int runnable(const th_t *t) { return t->state == TS_RUNNABLE; }

/* choose the next thread to run among runnable ones; -1 if none */
static int pick_next(int self_ok) {
  int cand[MAXT], n = 0, i, me = self_id;
  for (i = 0; i < nthreads; i++) {
    if (!runnable(&threads[i])) continue;
    if (i == me && !self_ok) continue;
    cand[n++] = i;
  }
  if (n == 0) return -1;
  if (n == 1) return cand[0];
  switch (cfg.strategy) {
    case SS_ENUM: {
      int dflt = cand[0], nalt = n - 1, k;
      if (me >= 0 && self_ok && runnable(&threads[me])) dflt = me;
      if (enum_stage < cfg.enum_n && cfg.enum_target[enum_stage] > enum_alts[enum_stage] &&
          cfg.enum_target[enum_stage] <= enum_alts[enum_stage] + (uint64_t)nalt) {
        uint64_t want = cfg.enum_target[enum_stage] - enum_alts[enum_stage];   /* 1..nalt */
        int chosen = -1;
        for (i = 0, k = 0; i < n; i++) {
          if (cand[i] == dflt) continue;
          if ((uint64_t)++k == want) { chosen = cand[i]; break; }
        }
        enum_alts[enum_stage] += (uint64_t)nalt;
        enum_stage++;
        return chosen;
      }
      enum_alts[enum_stage < 2 ? enum_stage : 2] += (uint64_t)nalt;
      return dflt;
    }
    case SS_PCT: {
      int best = cand[0];
      for (i = 1; i < n; i++) if (threads[cand[i]].prio > threads[best].prio) best = cand[i];
      return best;
    }
    case SS_BG_STARVE: {
      int ext[MAXT], ne = 0;
      if (steps >= allow_until && steps >= starve_until) {
        /* new cycle: starve for a while, then allow for a shorter while */
        starve_until = steps + (uint64_t)(cfg.starve_steps > 0 ? cfg.starve_steps : 200) + rndn(200);
        allow_until = starve_until + 20 + rndn(200);
      }
      if (steps < starve_until) {
        for (i = 0; i < n; i++) if (!threads[cand[i]].internal) ext[ne++] = cand[i];
        if (ne > 0) return ext[rndn((uint32_t)ne)];
      }
      return cand[rndn((uint32_t)n)];
    }
    case SS_BG_GREEDY: {
      for (i = 0; i < n; i++) if (threads[cand[i]].internal) return cand[i];
      return cand[rndn((uint32_t)n)];
    }
    case SS_FG_STICKY: {
      if (me >= 0 && self_ok && runnable(&threads[me]) && rndn(1000) >= 30) return me;
      return cand[rndn((uint32_t)n)];
    }
    default:
      return cand[rndn((uint32_t)n)];
  }
}

static void hand_over(int next, int kind) {
  int me = self_id;
  if (next == me) return;
  switches++;
  sig = (sig ^ (uint64_t)((next << 8) | kind)) * 1099511628211ULL;
  sem_post(&threads[next].sem);
  if (me >= 0 && threads[me].state != TS_FINISHED) {
    while (sem_wait(&threads[me].sem) != 0 && errno == EINTR) {}
  }
}

static void check_all_done_or_deadlock(void) {
  int i, unfinished = 0;
  for (i = 0; i < nthreads; i++) if (threads[i].state != TS_FINISHED) unfinished++;
  if (unfinished > 0) fail("deadlock");
}

void sched_point(int kind) {
  int next, i;
  if (!active || self_id < 0) return;
  steps++;
  stats.steps = steps;
  if (cfg.max_steps && steps > cfg.max_steps) fail("stuck");
  if (cfg.strategy == SS_PCT) {
    for (i = 0; i < cfg.pct_depth && i < 16; i++) {
      if (pct_points[i] == steps) threads[self_id].prio = pct_low--;
    }
  }
  next = pick_next(1);
  if (next < 0) { check_all_done_or_deadlock(); return; }
  hand_over(next, kind);
}

/* the calling thread has just set its own state to a blocked state */
static void block_and_switch(int kind) {
  int next;
  steps++;
  stats.steps = steps;
  if (cfg.max_steps && steps > cfg.max_steps) fail("stuck");
  next = pick_next(0);
  if (next < 0) {
    /* nobody can run: spurious wake-ups are not a progress guarantee */
    fail("deadlock");
  }
  hand_over(next, kind);
}

uint64_t sched_step(void) { return steps; }
uint64_t sched_switches(void) { return switches; }
uint64_t sched_enum_alts(int stage) { return stage >= 0 && stage < 3 ? enum_alts[stage] : 0; }
int sched_enum_taken(void) { return enum_stage; }
uint64_t sched_signature(void) { return sig; }
int sched_self(void) { return self_id; }
int sched_active(void) { return active; }
const sched_stats_t *sched_stats(void) { stats.switches = switches; return &stats; }
void sched_cond_class_hint(int cls) { cond_class_hint = cls; }
void sched_mark_harness_thread(void) { self_is_harness = 1; if (self_id >= 0) threads[self_id].internal = 0; }

void sched_label(const char *what) {
  if (self_id >= 0) snprintf(threads[self_id].label, sizeof(threads[self_id].label), "%s", what);
}

void sched_start(const sched_cfg_t *c) {
  int i;
  uint64_t x;
  cfg = *c;
  memset(threads, 0, sizeof(threads));
  memset(mtab, 0, sizeof(mtab));
  memset(ctab, 0, sizeof(ctab));
  memset(&stats, 0, sizeof(stats));
  nthreads = 1;
  threads[0].id = 0; threads[0].state = TS_RUNNABLE; threads[0].internal = 0; threads[0].real = pthread_self();
  sem_init(&threads[0].sem, 0, 0);
  snprintf(threads[0].label, sizeof(threads[0].label), "main");
  self_id = 0;
  self_is_harness = 1;
  x = c->seed * 0x9e3779b97f4a7c15ULL + 0x1234567;
  rng_a = x ^ 0xdeadbeefcafef00dULL; rng_b = (x << 1) | 1;
  for (i = 0; i < 8; i++) rnd();
  steps = switches = 0;
  sig = 1469598103934665603ULL;
  threads[0].prio = (1ULL << 40) + rnd() % 1000000;
  pct_low = 1000;
  for (i = 0; i < 16; i++) pct_points[i] = c->pct_len ? 1 + rnd() % c->pct_len : 0;
  starve_until = allow_until = 0;
  enum_alts[0] = enum_alts[1] = enum_alts[2] = 0;
  enum_stage = 0;
  cond_auto_counter = 0;
  cond_class_hint = 0;
  active = 1;
}

void sched_stop(void) {
  int i, live;
  /* let threads that are on their way out (a detached worker after its pool was destroyed) finish */
  for (;;) {
    int next;
    live = 0;
    for (i = 0; i < nthreads; i++) if (i != self_id && threads[i].state != TS_FINISHED) live++;
    if (live == 0) break;
    steps++;
    if (cfg.max_steps && steps > cfg.max_steps) fail("stuck");
    next = pick_next(0);
    if (next < 0) fail("stop-with-blocked-threads");
    hand_over(next, SP_USER);
  }
  active = 0;
  self_id = -1;
}

/* ------------------------------------------------------------------ */
/* wrappers */

static void *trampoline(void *p) {
  th_t *t = p;
  void *ret;
  int next;
  self_id = t->id;
  self_is_harness = !t->internal;
  while (sem_wait(&t->sem) != 0 && errno == EINTR) {}
  ret = t->fn(t->arg);
  /* finished: wake joiners, pass the baton on, never touch scheduler state again */
  {
    int i;
    t->state = TS_FINISHED;
    for (i = 0; i < nthreads; i++)
      if (threads[i].state == TS_BLOCKED_JOIN && threads[i].join_target == t->id) threads[i].state = TS_RUNNABLE;
    steps++;
    next = pick_next(0);
    if (next < 0) check_all_done_or_deadlock();
    else {
      switches++;
      sig = (sig ^ (uint64_t)((next << 8) | SP_EXIT)) * 1099511628211ULL;
      sem_post(&threads[next].sem);
    }
  }
  return ret;
}

int __wrap_pthread_create(pthread_t *tp, const pthread_attr_t *a, void *(*fn)(void *), void *arg) {
  th_t *t;
  int rc;
  if (!active || self_id < 0) return __real_pthread_create(tp, a, fn, arg);
  if (nthreads >= MAXT) abort();
  t = &threads[nthreads];
  memset(t, 0, sizeof(*t));
  t->id = nthreads;
  t->state = TS_RUNNABLE;
  t->fn = fn; t->arg = arg;
  /* a thread created while the creator is inside a library call (not marked by the harness) is internal */
  t->internal = 1;
  t->prio = (1ULL << 40) + rnd() % 1000000;
  snprintf(t->label, sizeof(t->label), "thread-start");
  sem_init(&t->sem, 0, 0);
  nthreads++;
  stats.threads_created++;
  rc = __real_pthread_create(&t->real, a, trampoline, t);
  if (rc != 0) { nthreads--; return rc; }
  *tp = t->real;
  sched_point(SP_CREATE);
  return 0;
}

int __wrap_pthread_join(pthread_t tp, void **ret) {
  int i, target = -1;
  if (!active || self_id < 0) return __real_pthread_join(tp, ret);
  for (i = 0; i < nthreads; i++) if (pthread_equal(threads[i].real, tp)) target = i;
  if (target >= 0 && threads[target].state != TS_FINISHED) {
    threads[self_id].state = TS_BLOCKED_JOIN;
    threads[self_id].join_target = target;
    block_and_switch(SP_JOIN);
  }
  return __real_pthread_join(tp, ret);
}

int __wrap_pthread_mutex_init(pthread_mutex_t *m, const pthread_mutexattr_t *a) {
  if (active && self_id >= 0) { ment_t *e = mfind(m, 1); e->owner = -1; }
  return __real_pthread_mutex_init(m, a);
}

int __wrap_pthread_mutex_destroy(pthread_mutex_t *m) {
  if (active && self_id >= 0) {
    ment_t *e = mfind(m, 0);
    if (e != NULL) {
      int i;
      if (e->owner != -1) fail("destroy-locked-mutex");
      for (i = 0; i < nthreads; i++)
        if (threads[i].state == TS_BLOCKED_MUTEX && threads[i].blocked_on == m) fail("destroy-mutex-with-waiters");
      mdel(m);
    }
  }
  return __real_pthread_mutex_destroy(m);
}

static void model_lock(pthread_mutex_t *m) {
  ment_t *e = mfind(m, 1);
  while (e->owner != -1) {
    if (e->owner == self_id) fail("relock");
    threads[self_id].state = TS_BLOCKED_MUTEX;
    threads[self_id].blocked_on = m;
    stats.mutex_blocks++;
    block_and_switch(SP_LOCK);
    e = mfind(m, 1);
  }
  e->owner = self_id;
}

static void model_unlock(pthread_mutex_t *m) {
  ment_t *e = mfind(m, 0);
  int i;
  if (e == NULL || e->owner != self_id) fail("unlock-not-owner");
  e->owner = -1;
  for (i = 0; i < nthreads; i++)
    if (threads[i].state == TS_BLOCKED_MUTEX && threads[i].blocked_on == m) threads[i].state = TS_RUNNABLE;
}

int __wrap_pthread_mutex_lock(pthread_mutex_t *m) {
  if (!active || self_id < 0) return __real_pthread_mutex_lock(m);
  sched_point(SP_LOCK);
  model_lock(m);
  return 0;
}

int __wrap_pthread_mutex_unlock(pthread_mutex_t *m) {
  if (!active || self_id < 0) return __real_pthread_mutex_unlock(m);
  model_unlock(m);
  sched_point(SP_UNLOCK);
  return 0;
}

int __wrap_pthread_cond_init(pthread_cond_t *c, const pthread_condattr_t *a) {
  if (active && self_id >= 0) {
    cent_t *e = cfind(c, 1);
    e->nwait = 0;
    if (cond_class_hint) e->cls = cond_class_hint;
    else {
      cond_auto_counter++;
      e->cls = cond_auto_counter <= 3 ? cond_auto_counter : 4;
    }
  }
  return __real_pthread_cond_init(c, a);
}

int __wrap_pthread_cond_destroy(pthread_cond_t *c) {
  if (active && self_id >= 0) {
    cent_t *e = cfind(c, 0);
    if (e != NULL) {
      if (e->nwait > 0) fail("destroy-cond-with-waiters");
      cdel(c);
    }
  }
  return __real_pthread_cond_destroy(c);
}

int __wrap_pthread_cond_wait(pthread_cond_t *c, pthread_mutex_t *m) {
  cent_t *e;
  th_t *t;
  if (!active || self_id < 0) return __real_pthread_cond_wait(c, m);
  t = &threads[self_id];
  e = cfind(c, 1);
  stats.cond_waits++;
  if (cfg.spurious_permille > 0 && (int)rndn(1000) < cfg.spurious_permille) {
    /* spurious wake-up: allowed by POSIX; release and re-acquire with a scheduling point */
    stats.spurious++;
    model_unlock(m);
    sched_point(SP_WAIT);
    model_lock(m);
    return 0;
  }
  model_unlock(m);
  e->nwait++;
  t->state = TS_BLOCKED_COND;
  t->blocked_on = c;
  t->cond_mutex = m;
  t->woken_by_signal = 0;
  t->cond_class_waited = e->cls;
  block_and_switch(SP_WAIT);
  /* woken by signal/broadcast (state set to RUNNABLE by the waker, nwait already decremented) */
  model_lock(m);
  return 0;
}

static void wake_waiters(pthread_cond_t *c, int all) {
  cent_t *e = cfind(c, 0);
  int i, cand[MAXT], n = 0;
  if (e == NULL || e->nwait == 0) return;
  for (i = 0; i < nthreads; i++)
    if (threads[i].state == TS_BLOCKED_COND && threads[i].blocked_on == c) cand[n++] = i;
  if (n == 0) return;
  if (!all) {
    int k = cand[rndn((uint32_t)n)];
    cand[0] = k;
    n = 1;
  }
  for (i = 0; i < n; i++) {
    th_t *t = &threads[cand[i]];
    int wcls = threads[self_id].internal ? 0 : 1;
    t->state = TS_RUNNABLE;
    t->woken_by_signal = 1;
    e->nwait--;
    stats.cond_wakes++;
    if (t->cond_class_waited >= 0 && t->cond_class_waited < 8)
      stats.wake_pairs[t->cond_class_waited][(t->internal ? 0 : 2) + wcls]++;
  }
}

int __wrap_pthread_cond_signal(pthread_cond_t *c) {
  if (!active || self_id < 0) return __real_pthread_cond_signal(c);
  wake_waiters(c, 0);
  sched_point(SP_SIGNAL);
  return 0;
}

int __wrap_pthread_cond_broadcast(pthread_cond_t *c) {
  if (!active || self_id < 0) return __real_pthread_cond_broadcast(c);
  wake_waiters(c, 1);
  sched_point(SP_SIGNAL);
  return 0;
}

int __wrap_select(int n, fd_set *r, fd_set *w, fd_set *e, struct timeval *tv) {
  if (!active || self_id < 0 || n != 0) return __real_select(n, r, w, e, tv);
  /* lcdb's sleep: a pure yield under the scheduler (no wall-clock time passes) */
  stats.sleeps++;
  sched_point(SP_SLEEP);
  return 0;
}

#include <dirent.h>
#include <malloc.h>
#include <errno.h>
#include <fcntl.h>
#include <sched.h>
#include <sys/stat.h>
#include <sys/time.h>
#include <unistd.h>

#include "vh.h"
#include <pthread.h>
#include <sys/syscall.h>

/* ------------------------------------------------------------ PRNG */

static uint64_t splitmix(uint64_t *x) {
  uint64_t z = (*x += 0x9e3779b97f4a7c15ULL);
  z = (z ^ (z >> 30)) * 0xbf58476d1ce4e5b9ULL;
  z = (z ^ (z >> 27)) * 0x94d049bb133111ebULL;
  return z ^ (z >> 31);
}

void vr_seed(vrng_t *r, uint64_t seed) {
  uint64_t x = seed;
  r->a = splitmix(&x);
  r->b = splitmix(&x);
  if (r->a == 0 && r->b == 0) r->a = 1;
}

uint64_t vr_next(vrng_t *r) {
  uint64_t s1 = r->a, s0 = r->b;
  r->a = s0;
  s1 ^= s1 << 23;
  r->b = s1 ^ s0 ^ (s1 >> 17) ^ (s0 >> 26);
  return r->b + s0;
}

uint32_t vr_uniform(vrng_t *r, uint32_t n) {
  if (n == 0) return 0;
  return (uint32_t)((vr_next(r) >> 16) % n);
}

int vr_chance(vrng_t *r, uint32_t permille) { return vr_uniform(r, 1000) < permille; }

uint32_t vr_skewed(vrng_t *r, uint32_t max_log) {
  uint32_t bits = vr_uniform(r, max_log + 1);
  return vr_uniform(r, 1u << bits);
}

/* ------------------------------------------------------------ output */

static FILE *out = NULL;
static int out_lock = 0;
static int nviol = 0;
static char context[512] = "";

static void olock(void) { while (__atomic_exchange_n(&out_lock, 1, __ATOMIC_ACQUIRE)) sched_yield(); }
static void ounlock(void) { __atomic_store_n(&out_lock, 0, __ATOMIC_RELEASE); }

void vh_init(const char *result_path) {
  /* heap growth/shrink and munmap cost TLB shootdowns, which are very expensive in this VM when many
     monitor processes run in parallel: keep freed memory in the process */
  mallopt(M_MMAP_THRESHOLD, 64 << 20);
  mallopt(M_TRIM_THRESHOLD, 512 << 20);
  mallopt(M_TOP_PAD, 16 << 20);
  if (result_path != NULL) {
    out = fopen(result_path, "w");
    if (out == NULL) { perror(result_path); exit(2); }
  } else {
    out = stdout;
  }
  setvbuf(out, NULL, _IOLBF, 0);
}

static void json_str(FILE *f, const char *s) {
  fputc('"', f);
  for (; *s; s++) {
    unsigned char c = (unsigned char)*s;
    if (c == '"' || c == '\\') { fputc('\\', f); fputc(c, f); }
    else if (c < 0x20 || c >= 0x7f) fprintf(f, "\\u%04x", c);
    else fputc(c, f);
  }
  fputc('"', f);
}

void vh_set_context(const char *fmt, ...) {
  va_list ap;
  va_start(ap, fmt);
  vsnprintf(context, sizeof(context), fmt, ap);
  va_end(ap);
}

void vh_violation(const char *prop, const char *key, const char *fmt, ...) {
  char msg[4096];
  va_list ap;
  va_start(ap, fmt);
  vsnprintf(msg, sizeof(msg), fmt, ap);
  va_end(ap);
  if (out == NULL) vh_init(NULL);
  olock();
  nviol++;
  fprintf(out, "{\"t\":\"viol\",\"prop\":\"%s\",\"key\":", prop);
  json_str(out, key);
  fprintf(out, ",\"ctx\":");
  json_str(out, context);
  fprintf(out, ",\"msg\":");
  json_str(out, msg);
  fprintf(out, "}\n");
  fflush(out);
  ounlock();
}

int vh_nviolations(void) { return nviol; }

void vh_sample(const char *prop, const char *fmt, ...) {
  char msg[8192];
  va_list ap;
  va_start(ap, fmt);
  vsnprintf(msg, sizeof(msg), fmt, ap);
  va_end(ap);
  if (out == NULL) vh_init(NULL);
  olock();
  fprintf(out, "{\"t\":\"sample\",\"prop\":\"%s\",\"v\":", prop);
  json_str(out, msg);
  fprintf(out, "}\n");
  ounlock();
}

void vh_note(const char *fmt, ...) {
  char msg[4096];
  va_list ap;
  va_start(ap, fmt);
  vsnprintf(msg, sizeof(msg), fmt, ap);
  va_end(ap);
  if (out == NULL) vh_init(NULL);
  olock();
  fprintf(out, "{\"t\":\"note\",\"v\":");
  json_str(out, msg);
  fprintf(out, "}\n");
  ounlock();
}

void vh_fatal(const char *fmt, ...) {
  char msg[4096];
  va_list ap;
  va_start(ap, fmt);
  vsnprintf(msg, sizeof(msg), fmt, ap);
  va_end(ap);
  if (out == NULL) vh_init(NULL);
  fprintf(out, "{\"t\":\"fatal\",\"ctx\":");
  json_str(out, context);
  fprintf(out, ",\"msg\":");
  json_str(out, msg);
  fprintf(out, "}\n");
  fflush(out);
  fprintf(stderr, "harness fatal: %s\n", msg);
  _exit(2);
}

/* counters */
#define MAXC 256
static struct { char name[64]; uint64_t v; } ctr[MAXC];
static int nctr = 0;
static int ctr_lock = 0;

static void clock_(void) { while (__atomic_exchange_n(&ctr_lock, 1, __ATOMIC_ACQUIRE)) sched_yield(); }
static void cunlock(void) { __atomic_store_n(&ctr_lock, 0, __ATOMIC_RELEASE); }

void vh_count(const char *name, uint64_t delta) {
  int i;
  clock_();
  for (i = 0; i < nctr; i++) if (strcmp(ctr[i].name, name) == 0) { ctr[i].v += delta; cunlock(); return; }
  if (nctr < MAXC) {
    snprintf(ctr[nctr].name, sizeof(ctr[nctr].name), "%s", name);
    ctr[nctr].v = delta;
    nctr++;
  }
  cunlock();
}

uint64_t vh_counter(const char *name) {
  int i;
  uint64_t v = 0;
  clock_();
  for (i = 0; i < nctr; i++) if (strcmp(ctr[i].name, name) == 0) v = ctr[i].v;
  cunlock();
  return v;
}

/* distinct sets: open-addressing table of (set hash ^ element hash) */
#define MAXS 32
typedef struct { char name[48]; uint64_t *h; size_t n, cap; } dset_t;
static dset_t dsets[MAXS];
static int ndsets = 0;

static void dset_add(dset_t *s, uint64_t h) {
  size_t i, mask;
  if (h == 0) h = 1;
  if (s->cap == 0 || s->n * 2 >= s->cap) {
    size_t ncap = s->cap ? s->cap * 2 : 256, j;
    uint64_t *nh = calloc(ncap, sizeof(uint64_t));
    for (j = 0; j < s->cap; j++) {
      if (s->h[j]) {
        size_t k = s->h[j] & (ncap - 1);
        while (nh[k]) k = (k + 1) & (ncap - 1);
        nh[k] = s->h[j];
      }
    }
    free(s->h);
    s->h = nh;
    s->cap = ncap;
  }
  mask = s->cap - 1;
  i = h & mask;
  while (s->h[i]) {
    if (s->h[i] == h) return;
    i = (i + 1) & mask;
  }
  s->h[i] = h;
  s->n++;
}

void vh_distinct(const char *set, const char *fmt, ...) {
  char msg[2048];
  va_list ap;
  int i;
  va_start(ap, fmt);
  vsnprintf(msg, sizeof(msg), fmt, ap);
  va_end(ap);
  clock_();
  for (i = 0; i < ndsets; i++) if (strcmp(dsets[i].name, set) == 0) break;
  if (i == ndsets) {
    if (ndsets == MAXS) { cunlock(); return; }
    snprintf(dsets[i].name, sizeof(dsets[i].name), "%s", set);
    ndsets++;
  }
  dset_add(&dsets[i], vh_hash64(msg, strlen(msg), 0x5eed));
  cunlock();
}

void vh_reset_counts(void) {
  int i;
  clock_();
  nctr = 0;
  for (i = 0; i < ndsets; i++) { free(dsets[i].h); dsets[i].h = NULL; dsets[i].n = dsets[i].cap = 0; }
  ndsets = 0;
  cunlock();
}

static void emit_counts(void);

void vh_flush_counts(void) {
  if (out == NULL) vh_init(NULL);
  olock();
  emit_counts();
  fflush(out);
  ounlock();
  vh_reset_counts();
}

void vh_finish(void) {
  if (out == NULL) vh_init(NULL);
  olock();
  emit_counts();
  fprintf(out, "{\"t\":\"done\"}\n");
  fflush(out);
  ounlock();
}

static void emit_counts(void) {
  int i;
  size_t j;
  for (i = 0; i < nctr; i++)
    fprintf(out, "{\"t\":\"count\",\"k\":\"%s\",\"v\":%llu}\n", ctr[i].name, (unsigned long long)ctr[i].v);
  for (i = 0; i < ndsets; i++) {
    int first = 1;
    fprintf(out, "{\"t\":\"distinct\",\"set\":\"%s\",\"h\":[", dsets[i].name);
    for (j = 0; j < dsets[i].cap; j++) {
      if (dsets[i].h[j]) {
        fprintf(out, "%s\"%llx\"", first ? "" : ",", (unsigned long long)dsets[i].h[j]);
        first = 0;
      }
    }
    fprintf(out, "]}\n");
  }
}

/* ------------------------------------------------------------ bytes */

uint64_t vh_hash64(const void *p, size_t n, uint64_t seed) {
  const unsigned char *s = p;
  uint64_t h = 0xcbf29ce484222325ULL ^ seed;
  size_t i;
  for (i = 0; i < n; i++) { h ^= s[i]; h *= 0x100000001b3ULL; }
  h ^= h >> 32;
  h *= 0x9e3779b97f4a7c15ULL;
  return h ^ (h >> 29);
}

#define NRING 16
static __thread char ring[NRING][700];
static __thread int ringpos = 0;

const char *vh_esc(const void *p, size_t n) {
  const unsigned char *s = p;
  char *b = ring[ringpos++ % NRING];
  size_t i, o = 0, lim = n > 96 ? 96 : n;
  for (i = 0; i < lim && o + 8 < sizeof(ring[0]); i++) {
    if (s[i] >= 0x21 && s[i] < 0x7f && s[i] != '\\' && s[i] != '"') b[o++] = s[i];
    else o += sprintf(b + o, "\\x%02x", s[i]);
  }
  if (n > lim) o += sprintf(b + o, "...(%zu)", n);
  b[o] = 0;
  return b;
}

const char *vh_hex(const void *p, size_t n) {
  const unsigned char *s = p;
  char *b = ring[ringpos++ % NRING];
  size_t i, o = 0, lim = n > 300 ? 300 : n;
  for (i = 0; i < lim; i++) o += sprintf(b + o, "%02x", s[i]);
  if (n > lim) o += sprintf(b + o, "..%zu", n);
  b[o] = 0;
  return b;
}

void vh_fill_value(uint8_t *dst, size_t len, uint64_t vid) {
  size_t i;
  uint64_t x = vid * 0x9e3779b97f4a7c15ULL + 12345;
  if (vid & 1) {
    /* incompressible */
    for (i = 0; i < len; i++) {
      if ((i & 7) == 0) x = splitmix(&x);
      dst[i] = (uint8_t)(x >> ((i & 7) * 8));
    }
  } else {
    /* compressible: period 1..64 pattern */
    size_t period = 1 + (size_t)((vid >> 1) % 64);
    uint8_t pat[64];
    for (i = 0; i < period; i++) { x = splitmix(&x); pat[i] = (uint8_t)x; }
    for (i = 0; i < len; i++) dst[i] = pat[i % period];
  }
  if (len >= 8) memcpy(dst, &vid, 8);
}

int vh_check_value(const uint8_t *p, size_t len, uint64_t vid) {
  uint8_t tmp[4096];
  size_t off = 0;
  if (len <= sizeof(tmp)) {
    vh_fill_value(tmp, len, vid);
    return memcmp(tmp, p, len) == 0;
  } else {
    uint8_t *full = malloc(len);
    int ok;
    vh_fill_value(full, len, vid);
    ok = memcmp(full, p, len) == 0;
    free(full);
    (void)off;
    return ok;
  }
}

uint64_t vh_value_vid(const uint8_t *p, size_t len) {
  uint64_t v = 0;
  if (len >= 8) memcpy(&v, p, 8);
  return v;
}

/* ------------------------------------------------------------ misc */

double vh_now(void) {
  struct timeval tv;
  gettimeofday(&tv, NULL);
  return tv.tv_sec + tv.tv_usec / 1e6;
}

int vh_mkdir_p(const char *path) {
  char tmp[2048];
  char *p;
  snprintf(tmp, sizeof(tmp), "%s", path);
  for (p = tmp + 1; *p; p++) {
    if (*p == '/') { *p = 0; mkdir(tmp, 0755); *p = '/'; }
  }
  if (mkdir(tmp, 0755) != 0 && errno != EEXIST) return -1;
  return 0;
}

int vh_rm_rf(const char *path) {
  DIR *d = opendir(path);
  struct dirent *de;
  char sub[2048];
  if (d == NULL) return unlink(path);
  while ((de = readdir(d)) != NULL) {
    struct stat st;
    if (strcmp(de->d_name, ".") == 0 || strcmp(de->d_name, "..") == 0) continue;
    snprintf(sub, sizeof(sub), "%s/%s", path, de->d_name);
    if (lstat(sub, &st) == 0 && S_ISDIR(st.st_mode)) vh_rm_rf(sub);
    else unlink(sub);
  }
  closedir(d);
  return rmdir(path);
}

int vh_copy_dir(const char *from, const char *to) {
  DIR *d = opendir(from);
  struct dirent *de;
  char a[2048], b[2048];
  static char buf[1 << 16];
  if (d == NULL) return -1;
  vh_mkdir_p(to);
  while ((de = readdir(d)) != NULL) {
    struct stat st;
    int fa, fb;
    ssize_t n;
    snprintf(a, sizeof(a), "%s/%s", from, de->d_name);
    snprintf(b, sizeof(b), "%s/%s", to, de->d_name);
    if (stat(a, &st) != 0 || !S_ISREG(st.st_mode)) continue;
    fa = open(a, O_RDONLY);
    fb = open(b, O_WRONLY | O_CREAT | O_TRUNC, 0644);
    if (fa < 0 || fb < 0) { if (fa >= 0) close(fa); if (fb >= 0) close(fb); closedir(d); return -1; }
    while ((n = read(fa, buf, sizeof(buf))) > 0) {
      if (write(fb, buf, n) != n) { close(fa); close(fb); closedir(d); return -1; }
    }
    close(fa);
    close(fb);
  }
  closedir(d);
  return 0;
}

long vh_env_long(const char *name, long dflt) {
  const char *v = getenv(name);
  if (v == NULL || *v == 0) return dflt;
  return strtol(v, NULL, 0);
}

/* ------------------------------------------------------------------ */
/* stuck-call watcher (see vh.h) */

void (*vh_watch_thread_init)(void) = NULL;
static struct {
  const char *prop;
  uint64_t (*fg)(void);
  uint64_t (*io)(void);
  uint64_t io_limit;
  const char *(*what)(void);
} W;

/* 1 = every thread of the process except `self` is blocked (state S or D is not enough: only S, i.e.
   interruptible sleep as in futex/cond waits); `desc` gets "tid:state ..." */
static int all_other_threads_blocked(long self, char *desc, size_t cap) {
  DIR *d = opendir("/proc/self/task");
  struct dirent *e;
  int all = 1, n = 0;
  size_t pos = 0;
  if (d == NULL) return 0;
  desc[0] = 0;
  while ((e = readdir(d)) != NULL) {
    char path[96], buf[512];
    int fd;
    ssize_t r;
    char *q;
    long tid = atol(e->d_name);
    if (tid <= 0 || tid == self) continue;
    snprintf(path, sizeof(path), "/proc/self/task/%ld/stat", tid);
    fd = open(path, O_RDONLY);
    if (fd < 0) continue;
    r = read(fd, buf, sizeof(buf) - 1);
    close(fd);
    if (r <= 0) continue;
    buf[r] = 0;
    q = strrchr(buf, ')');
    if (q == NULL || q[1] != ' ') continue;
    n++;
    if (q[2] != 'S') all = 0;
    if (pos + 24 < cap) pos += (size_t)snprintf(desc + pos, cap - pos, "%ld:%c ", tid, q[2]);
  }
  closedir(d);
  return n > 0 && all;
}

static void *watch_main(void *arg) {
  uint64_t last_fg, last_io, io_base;
  int quiet = 0;
  long self = (long)syscall(SYS_gettid);
  (void)arg;
  if (vh_watch_thread_init) vh_watch_thread_init();
  last_fg = W.fg(); last_io = io_base = W.io();
  for (;;) {
    uint64_t f, i;
    char desc[400];
    usleep(50000);
    f = W.fg(); i = W.io();
    if (f != last_fg) { last_fg = f; io_base = i; last_io = i; quiet = 0; continue; }
    if (i - io_base > W.io_limit) {
      vh_violation(W.prop, "call-stuck-while-background-keeps-working",
                   "%s: the driving thread has not completed a call while the library made %llu intercepted system calls "
                   "(limit %llu): a call that never returns while background work is retried without end",
                   W.what ? W.what() : "", (unsigned long long)(i - io_base), (unsigned long long)W.io_limit);
      vh_finish();
      _exit(0);
    }
    if (i != last_io) { last_io = i; quiet = 0; continue; }
    if (all_other_threads_blocked(self, desc, sizeof(desc))) quiet++; else quiet = 0;
    if (quiet >= 200) {
      vh_violation(W.prop, "call-stuck-all-threads-blocked",
                   "%s: no call completed, no system call was made and every thread was blocked at 200 consecutive samples "
                   "(threads: %s): a call that never returns", W.what ? W.what() : "", desc);
      vh_finish();
      _exit(0);
    }
  }
  return NULL;
}

void vh_watch_start(const char *prop, uint64_t (*fg)(void), uint64_t (*io)(void), uint64_t io_limit,
                    const char *(*what)(void)) {
  pthread_t t;
  pthread_attr_t a;
  W.prop = prop; W.fg = fg; W.io = io; W.io_limit = io_limit; W.what = what;
  pthread_attr_init(&a);
  pthread_attr_setdetachstate(&a, PTHREAD_CREATE_DETACHED);
  if (pthread_create(&t, &a, watch_main, NULL) != 0) vh_fatal("cannot start the watcher thread");
  pthread_attr_destroy(&a);
}

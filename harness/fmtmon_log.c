/* fmtmon_log - C15 monitor: write-ahead-log framing is exact, standard and
 * torn-tail tolerant.
 *
 * Runs the REAL lcdb log writer / reader / CRC-32C code on generated record
 * sequences, cuts and alterations, and judges every result with independent
 * oracles: the reference codec (refcodec.h: rc_logw_*, rc_log_read,
 * rc_crc32c_*), and the list of records that were actually written.
 *
 * usage: fmtmon_log --seed S --mode grid|random|trunc|alter|crc
 *                   --first I --count N [--dir D] [--exhaustive 0|1]
 *                   [--hw 0|1] [--alts N] [--maxlog BYTES] [--exact 0|1]
 *
 * Every mode processes cases I..I+N-1 of a deterministic enumeration (a case
 * depends only on --seed, the mode, --exhaustive/--maxlog and its index).
 *
 * All format constants used by the oracle are private to this file /
 * refcodec.h; LDB_BLOCK_SIZE & co. are deliberately never used here.
 */
#include <errno.h>
#include <fcntl.h>
#include <sys/stat.h>
#include <unistd.h>

#include "util/buffer.h"
#include "util/crc32c.h"
#include "util/env.h"
#include "util/slice.h"
#include "util/status.h"
#include "log_format.h"
#include "log_reader.h"
#include "log_writer.h"

#include "refcodec.h"
#include "vh.h"

#define B 32768u            /* block size of the LevelDB log format */
#define HDR 7u              /* crc32c(4) length(2) type(1) */
#define PAY (B - HDR)       /* payload capacity of one block */
#define GRID_MAXLEN (3u * 32768u + 16u)
#define MAXREC (1u << 20)
#define CHUNKS 64           /* exhaustive sub-modes: one log = 64 cases */

/* ------------------------------------------------------------------ options */

static uint64_t g_seed = 1;
static const char *g_mode = "grid";
static const char *g_dir = NULL;
static int g_exhaustive = 0;
static int g_hw = 1;
static int g_alts = 300;
static long g_maxlog = 0;
#ifdef __SANITIZE_ADDRESS__
static int g_exact = 1;     /* hand the reader exact-size heap copies */
#else
static int g_exact = 0;
#endif

/* ------------------------------------------------------------------ counters (local, flushed at exit) */

#define COUNTERS(X) \
  X(cases_grid) X(cases_random) X(cases_trunc) X(cases_alter) X(cases_crc) \
  X(records_written) X(records_read_real) X(records_read_ref) X(bytes_compared) \
  X(file_variant_cases) X(writer_only_cases) X(nontrivial_cases) X(multi_record_cases) \
  X(logs_generated) X(logs_multiblock) \
  X(cuts) X(cuts_nontrivial) X(cuts_midrecord) X(cuts_refchecked) \
  X(alt_total) X(alt_bit) X(alt_zero) X(alt_ff) X(alt_burst) X(alt_zburst) X(alt_sector) \
  X(alt_nochange) X(alt_trailer_only) X(alt_nontrivial) X(alt_in_fragmented_record) \
  X(alt_lossy) X(alt_absorbed) X(alt_torn_tail_exempt) X(alt_crc_collision) \
  X(alt_resume_records_checked) X(alt_multi_block_damage) X(alt_report_count_differs) \
  X(zh_skip_total) X(zh_skip_bitflip) X(zh_skip_zero_byte) X(zh_skip_ff_byte) X(zh_skip_random_burst) X(zh_skip_zero_burst) \
  X(zh_skip_zero_sector) X(zh_skip_at_block_start) X(zh_skip_single_byte_on_empty_record) \
  X(crc_len_align) X(crc_splits) X(crc_random_bufs) X(crc_random_bytes) X(crc_mask_values) \
  X(crc_hw_active) X(viol_suppressed) X(alt_hdrfix) X(alt_hdrfix_illegal_type) X(alt_hdrfix_illegal_type_on_middle_fragment) \
  X(alt_hdrfix_legal_type)

#define X(n) CN_##n,
enum { COUNTERS(X) CN__N };
#undef X
#define X(n) "c15_" #n,
static const char *cn_name[] = { COUNTERS(X) NULL };
#undef X
static uint64_t cn_val[CN__N];
#define CNT(n, d) (cn_val[CN_##n] += (uint64_t)(d))

static void flush_counters(void) {
  int i;
  for (i = 0; i < CN__N; i++)
    if (cn_val[i]) vh_count(cn_name[i], cn_val[i]);
}

/* distinct sets: dedupe locally so that vh_distinct is not called per case */
#define DSEEN_SZ (1u << 18)
static uint64_t *dseen;
static void distinct_shape(const char *sig) {
  uint64_t h = vh_hash64(sig, strlen(sig), 0xc15) | 1;
  uint32_t i = (uint32_t)(h >> 20) & (DSEEN_SZ - 1);
  int probes = 0;
  if (dseen == NULL) dseen = calloc(DSEEN_SZ, sizeof(uint64_t));
  while (dseen[i] != 0 && probes < 64) {
    if (dseen[i] == h) return;
    i = (i + 1) & (DSEEN_SZ - 1);
    probes++;
  }
  if (dseen[i] == 0) dseen[i] = h;
  vh_distinct("c15_shape", "%s", sig);
}

/* violations: at most VIOL_PER_KEY messages per key and process */
#define VIOL_PER_KEY 4
static struct { char key[48]; int n; } vkeys[32];
static int nvkeys = 0;
static int64_t g_case = 0;

static void viol(const char *key, const char *fmt, ...) __attribute__((format(printf, 2, 3)));
static void viol(const char *key, const char *fmt, ...) {
  char msg[3000];
  va_list ap;
  int i;
  for (i = 0; i < nvkeys; i++) if (strcmp(vkeys[i].key, key) == 0) break;
  if (i == nvkeys) {
    if (nvkeys == 32) { CNT(viol_suppressed, 1); return; }
    snprintf(vkeys[i].key, sizeof(vkeys[i].key), "%s", key);
    vkeys[i].n = 0;
    nvkeys++;
  }
  if (++vkeys[i].n > VIOL_PER_KEY) { CNT(viol_suppressed, 1); return; }
  va_start(ap, fmt);
  vsnprintf(msg, sizeof(msg), fmt, ap);
  va_end(ap);
  vh_violation("C15", key,
               "%s [replay: fmtmon_log --seed %llu --mode %s --first %lld --count 1 --exhaustive %d --hw %d --alts %d --maxlog %ld]",
               msg, (unsigned long long)g_seed, g_mode, (long long)g_case, g_exhaustive, g_hw, g_alts, g_maxlog);
}

/* ------------------------------------------------------------------ rng / data pools */

static uint64_t mix64(uint64_t x) {
  x += 0x9e3779b97f4a7c15ULL;
  x = (x ^ (x >> 30)) * 0xbf58476d1ce4e5b9ULL;
  x = (x ^ (x >> 27)) * 0x94d049bb133111ebULL;
  return x ^ (x >> 31);
}

static void case_rng(vrng_t *r, uint64_t stream, int64_t c) {
  vr_seed(r, mix64(mix64(g_seed) ^ mix64(stream * 0x100000001b3ULL + (uint64_t)c)));
}

#define POOL_RAND ((2u << 20) + (1u << 18))
#define POOL_CONST ((1u << 20) + (1u << 16))
static uint8_t *pool_rand, *pool_zero, *pool_ff;

static void init_pools(void) {
  vrng_t r;
  size_t i;
  pool_rand = malloc(POOL_RAND + 8);
  pool_zero = calloc(POOL_CONST, 1);
  pool_ff = malloc(POOL_CONST);
  if (!pool_rand || !pool_zero || !pool_ff) vh_fatal("out of memory (pools)");
  memset(pool_ff, 0xff, POOL_CONST);
  vr_seed(&r, mix64(g_seed ^ 0x706f6f6cULL));
  for (i = 0; i < POOL_RAND; i += 8) {
    uint64_t v = vr_next(&r);
    memcpy(pool_rand + i, &v, 8);
  }
}

/* record contents: mostly a random window of the random pool (distinct
 * windows differ, so reordering / substitution is visible), sometimes all
 * zero or all 0xff. */
static const uint8_t *pick_data(vrng_t *r, size_t len) {
  uint32_t u = vr_uniform(r, 24);
  if (len > MAXREC + 6 * B) vh_fatal("record too long for pool: %lu", (unsigned long)len);
  if (u == 0 && len <= POOL_CONST) return pool_zero;
  if (u == 1 && len <= POOL_CONST) return pool_ff;
  return pool_rand + vr_uniform(r, (uint32_t)(POOL_RAND - len));
}

/* ------------------------------------------------------------------ written-log bookkeeping */

typedef struct rec_s {
  const uint8_t *data;
  size_t len;
  uint64_t start, end;     /* file offsets: header of first fragment / past last fragment */
  int nfrag;
} rec_t;

typedef struct frag_s { uint64_t hoff; uint32_t len; uint8_t type; int rec; } frag_t;

enum { CL_PAY = 0, CL_CRC, CL_LEN, CL_TYPE, CL_TRAILER };
static const char *cl_name[] = {"payload", "hdr-crc", "hdr-len", "hdr-type", "trailer"};

typedef struct wlog_s {
  ldb_buffer_t dst;        /* bytes produced by the real writer (prefix + records) */
  rc_buf_t ref;            /* bytes produced by the reference writer */
  rec_t *recs; int nrecs, caprecs;
  int nprefix;
  uint64_t l0;
  frag_t *frags; int nfrags, capfrags;
  uint8_t *cls; size_t clscap;
  int shape;               /* generator shape (trunc/alter) */
} wlog_t;

static wlog_t G;

static void wlog_push_rec(wlog_t *w, const uint8_t *data, size_t len) {
  if (w->nrecs == w->caprecs) {
    w->caprecs = w->caprecs ? w->caprecs * 2 : 64;
    w->recs = realloc(w->recs, (size_t)w->caprecs * sizeof(rec_t));
    if (!w->recs) vh_fatal("oom");
  }
  memset(&w->recs[w->nrecs], 0, sizeof(rec_t));
  w->recs[w->nrecs].data = data;
  w->recs[w->nrecs].len = len;
  w->nrecs++;
}

/* arithmetic of the format (used to GENERATE interesting lengths and to build
 * signatures, never to judge): end offset of a record of `len` bytes appended
 * at file offset `pos`. */
enum { AF_TRAILER = 1, AF_EMPTY_FIRST = 2, AF_ENDS_AT_BLOCK_END = 4 };
static uint64_t advance(uint64_t pos, size_t len, int *nfrag, int *flags) {
  int nf = 0, fl = 0;
  do {
    size_t space = B - (size_t)(pos % B), avail, n;
    if (space < HDR) { pos += space; space = B; fl |= AF_TRAILER; }
    avail = space - HDR;
    n = len < avail ? len : avail;
    if (n == 0 && len > 0) fl |= AF_EMPTY_FIRST;
    pos += HDR + n;
    len -= n;
    nf++;
  } while (len > 0);
  if (pos % B == 0) fl |= AF_ENDS_AT_BLOCK_END;
  if (nfrag) *nfrag = nf;
  if (flags) *flags = fl;
  return pos;
}

/* payload length that makes a record appended at `pos` end exactly at `target`;
 * -1 if impossible. */
static long landing_len(uint64_t pos, uint64_t target) {
  long p = 0;
  int firstfrag = 1;
  if (target <= pos) return -1;
  for (;;) {
    size_t space = B - (size_t)(pos % B);
    uint64_t blk_end;
    if (space < HDR) { pos += space; space = B; }
    blk_end = pos + space;
    if (target <= blk_end) {
      /* a continuation fragment is never empty */
      if (target < pos + HDR + (firstfrag ? 0 : 1)) return -1;
      return p + (long)(target - pos - HDR);
    }
    p += (long)(space - HDR);
    pos = blk_end;
    firstfrag = 0;
  }
}

/* "boundary set": record lengths that are interesting when appended at pos */
static int special_lens(uint64_t pos, size_t *out) {
  size_t space = B - (size_t)(pos % B);
  long fit = (space < HDR) ? (long)PAY : (long)(space - HDR);
  int n = 0, d, k;
  out[n++] = 0; out[n++] = 1; out[n++] = 2;
  for (k = 0; k < 3; k++)
    for (d = -8; d <= 8; d++) {
      long v = fit + (long)k * (long)PAY + d;
      if (v >= 0) out[n++] = (size_t)v;
    }
  out[n++] = PAY; out[n++] = B; out[n++] = 2 * B; out[n++] = GRID_MAXLEN;
  return n;   /* <= 58; the first 3 + (<=17) entries are the short ones */
}
#define NSPECIAL_MAX 64

/* ------------------------------------------------------------------ prefixes (well-formed log of exactly L0 bytes, reference writer) */

typedef struct prefix_s {
  uint8_t *bytes; size_t len;
  rec_t *recs; int nrecs;
  int reachable;           /* 0: L0 %% 32768 in 1..6 - no valid log has this length */
  int built;
} prefix_t;

static void prefix_free(prefix_t *p) {
  free(p->bytes); free(p->recs);
  memset(p, 0, sizeof(*p));
}

static void prefix_add(prefix_t *p, rc_logw_t *w, const uint8_t *data, size_t len) {
  p->recs = realloc(p->recs, (size_t)(p->nrecs + 1) * sizeof(rec_t));
  memset(&p->recs[p->nrecs], 0, sizeof(rec_t));
  p->recs[p->nrecs].data = data;
  p->recs[p->nrecs].len = len;
  p->nrecs++;
  rc_logw_add(w, data, len);
}

/* r == NULL: deterministic (a couple of small records, then one landing record) */
static void prefix_build(prefix_t *p, uint64_t l0, vrng_t *r) {
  rc_buf_t out;
  rc_logw_t w;
  int tries = 0;
  memset(p, 0, sizeof(*p));
  p->built = 1;
  p->len = (size_t)l0;
  if (l0 % B >= 1 && l0 % B < HDR) {
    p->reachable = 0;
    p->bytes = calloc((size_t)l0, 1);
    return;
  }
  p->reachable = 1;
  rc_buf_init(&out);
  rc_logw_init(&w, &out, 0);
  if (l0 > 0) {
    int nsmall = r ? (int)vr_uniform(r, 12) : (int)(l0 % 3);
    long land;
    while (nsmall-- > 0 && tries++ < 100) {
      size_t len = r ? (vr_chance(r, 150) ? vr_uniform(r, 40000) : vr_skewed(r, 11)) : (size_t)(nsmall * 5);
      uint64_t np = advance(out.len, len, NULL, NULL);
      if (np >= l0 || landing_len(np, l0) < 0) continue;
      prefix_add(p, &w, r ? pick_data(r, len) : pool_rand + 17 * (size_t)nsmall, len);
    }
    land = landing_len(out.len, l0);
    if (land < 0 && l0 - l0 % B > out.len) {
      /* e.g. L0 = k*32768+7: end a record exactly at the block boundary first */
      long fill = landing_len(out.len, l0 - l0 % B);
      if (fill >= 0) prefix_add(p, &w, pool_rand + 4099, (size_t)fill);
      land = landing_len(out.len, l0);
    }
    if (land < 0) vh_fatal("prefix: cannot land on L0=%llu from %lu", (unsigned long long)l0, (unsigned long)out.len);
    prefix_add(p, &w, pool_rand + (l0 % 4096), (size_t)land);
  }
  if (out.len != l0) vh_fatal("prefix: built %lu bytes, wanted %llu", (unsigned long)out.len, (unsigned long long)l0);
  p->bytes = out.data;     /* take ownership */
}

/* ------------------------------------------------------------------ running the REAL reader */

typedef struct rres_s {
  uint8_t *arena; size_t alen, acap;
  size_t *off, *len; int n, cap;
  int calls, poscalls;       /* reporter invocations; those with bytes > 0 */
  uint64_t bytes;
  int runaway;
} rres_t;

typedef struct myrep_s { ldb_reporter_t rep; rres_t *res; } myrep_t;

static void on_corruption(ldb_reporter_t *rp, size_t bytes, int status) {
  myrep_t *m = (myrep_t *)rp;
  (void)status;
  m->res->calls++;
  if (bytes > 0) m->res->poscalls++;
  m->res->bytes += bytes;
}

static void rres_reset(rres_t *o) {
  o->alen = 0; o->n = 0; o->calls = 0; o->poscalls = 0; o->bytes = 0; o->runaway = 0;
}

static void rres_push(rres_t *o, const uint8_t *p, size_t n) {
  if (o->n == o->cap) {
    o->cap = o->cap ? o->cap * 2 : 256;
    o->off = realloc(o->off, (size_t)o->cap * sizeof(size_t));
    o->len = realloc(o->len, (size_t)o->cap * sizeof(size_t));
  }
  if (o->alen + n > o->acap) {
    size_t nc = o->acap ? o->acap : (1u << 16);
    while (nc < o->alen + n) nc *= 2;
    o->arena = realloc(o->arena, nc);
    o->acap = nc;
  }
  if (!o->off || !o->len || (!o->arena && o->acap)) vh_fatal("oom");
  if (n > 0) memcpy(o->arena + o->alen, p, n);
  o->off[o->n] = o->alen;
  o->len[o->n] = n;
  o->alen += n;
  o->n++;
}

static ldb_buffer_t g_scratch;

static void drain_reader(ldb_reader_t *lr, size_t filesize, rres_t *o) {
  ldb_slice_t rec;
  size_t maxrecs = filesize / HDR + 2;
  while (ldb_reader_read_record(lr, &rec, &g_scratch)) {
    rres_push(o, rec.data, rec.size);
    if ((size_t)o->n > maxrecs) { o->runaway = 1; break; }
  }
}

static void real_read_mem(const uint8_t *p, size_t n, rres_t *o) {
  ldb_reader_t lr;
  ldb_slice_t src;
  myrep_t rep;
  uint8_t *copy = NULL;
  rres_reset(o);
  memset(&rep, 0, sizeof(rep));
  rep.rep.corruption = on_corruption;
  rep.res = o;
  if (g_exact) {
    copy = malloc(n ? n : 1);
    if (!copy) vh_fatal("oom");
    if (n) memcpy(copy, p, n);
    p = copy;
  }
  ldb_slice_set(&src, p, n);
  ldb_reader_init(&lr, NULL, &rep.rep, 1, 0);
  lr.src = &src;
  drain_reader(&lr, n, o);
  ldb_reader_clear(&lr);
  free(copy);
}

static void real_read_file(const char *path, size_t n, rres_t *o) {
  ldb_reader_t lr;
  ldb_rfile_t *f = NULL;
  myrep_t rep;
  int rc;
  rres_reset(o);
  memset(&rep, 0, sizeof(rep));
  rep.rep.corruption = on_corruption;
  rep.res = o;
  rc = ldb_seqfile_create(path, &f);
  if (rc != LDB_OK) vh_fatal("ldb_seqfile_create(%s) = %d", path, rc);
  ldb_reader_init(&lr, f, &rep.rep, 1, 0);
  drain_reader(&lr, n, o);
  ldb_reader_clear(&lr);
  ldb_rfile_destroy(f);
}

/* compare a returned sequence against the expected records; 1 = identical */
static int rres_equal(const rres_t *o, const rec_t *exp, int nexp, char *why, size_t cap) {
  int i, m = o->n < nexp ? o->n : nexp;
  for (i = 0; i < m; i++) {
    if (o->len[i] != exp[i].len) {
      snprintf(why, cap, "record #%d: length got %lu want %lu (got %d records, want %d)", i,
               (unsigned long)o->len[i], (unsigned long)exp[i].len, o->n, nexp);
      return 0;
    }
    if (exp[i].len && memcmp(o->arena + o->off[i], exp[i].data, exp[i].len) != 0) {
      size_t k = 0;
      while (o->arena[o->off[i] + k] == exp[i].data[k]) k++;
      snprintf(why, cap, "record #%d (len %lu): first differing byte %lu got %02x want %02x", i,
               (unsigned long)exp[i].len, (unsigned long)k, o->arena[o->off[i] + k], exp[i].data[k]);
      return 0;
    }
  }
  if (o->n != nexp) {
    snprintf(why, cap, "got %d records, want %d (first %d identical)", o->n, nexp, m);
    return 0;
  }
  return 1;
}

static int ref_equal(const rc_logresult_t *o, const rec_t *exp, int nexp, char *why, size_t cap) {
  int i, m = (int)o->nrecs < nexp ? (int)o->nrecs : nexp;
  for (i = 0; i < m; i++) {
    if (o->recs[i].len != exp[i].len) {
      snprintf(why, cap, "record #%d: length got %lu want %lu (got %lu records, want %d)", i,
               (unsigned long)o->recs[i].len, (unsigned long)exp[i].len, (unsigned long)o->nrecs, nexp);
      return 0;
    }
    if (exp[i].len && memcmp(o->recs[i].data, exp[i].data, exp[i].len) != 0) {
      snprintf(why, cap, "record #%d (len %lu): contents differ", i, (unsigned long)exp[i].len);
      return 0;
    }
  }
  if ((int)o->nrecs != nexp) {
    snprintf(why, cap, "got %lu records, want %d (first %d identical)", (unsigned long)o->nrecs, nexp, m);
    return 0;
  }
  return 1;
}

static const char *lens_str(const rec_t *recs, int from, int n) {
  static char buf[400];
  size_t pos = 0;
  int i;
  buf[0] = 0;
  for (i = from; i < n && pos + 24 < sizeof(buf); i++)
    pos += (size_t)snprintf(buf + pos, sizeof(buf) - pos, "%s%lu", i > from ? "," : "", (unsigned long)recs[i].len);
  if (i < n) snprintf(buf + pos, sizeof(buf) - pos, ",...(%d more)", n - i);
  return buf;
}

static const char *l0_class(uint64_t l0) {
  uint32_t r = (uint32_t)(l0 % B);
  if (l0 == 0) return "fresh";
  if (r == 0) return "blockstart";
  if (r < HDR) return "unreachable";
  if (r <= 23) return "head";
  if (r == B - HDR) return "exact7";
  if (r > B - HDR) return "trailer";
  if (r >= B - 23) return "pre";
  return "mid";
}

/* signature of the fragment-type sequence (per record: number of fragments
 * capped at 5 plus flags; runs of equal tokens are collapsed) */
static void shape_sig(char *out, size_t cap, uint64_t l0, const rec_t *recs, int from, int n) {
  size_t pos;
  uint64_t p = l0;
  int i, run = 0;
  char prev[20] = "", tok[20];
  pos = (size_t)snprintf(out, cap, "%s/%d:", l0_class(l0), l0 / B >= 2 ? 2 : (int)(l0 / B));
  for (i = from; i <= n; i++) {
    if (i < n) {
      int nf, fl;
      p = advance(p, recs[i].len, &nf, &fl);
      snprintf(tok, sizeof(tok), "%d%s%s%s", nf > 5 ? 5 : nf, (fl & AF_TRAILER) ? "t" : "",
               (fl & AF_EMPTY_FIRST) ? "z" : "", (fl & AF_ENDS_AT_BLOCK_END) ? "e" : "");
    } else {
      tok[0] = 0;
    }
    if (i < n && strcmp(tok, prev) == 0) { run++; continue; }
    if (prev[0] && pos + 12 < cap)
      pos += (size_t)snprintf(out + pos, cap - pos, "%s%s,", prev, run >= 3 ? "*" : run == 2 ? "x2" : "");
    snprintf(prev, sizeof(prev), "%s", tok);
    run = 1;
  }
}

/* ------------------------------------------------------------------ write + round trip (grid, random, base of trunc/alter) */

static rres_t RR;
static int g_file_seq = 0;

/* Write `n` records after prefix pf with the real writer (in memory) and with
 * the reference writer; compare bytes.  Returns 1 if bytes are identical. */
static int write_both(const prefix_t *pf, int n, const size_t *lens, const uint8_t *const *datas) {
  ldb_writer_t w;
  rc_logw_t rw;
  int i;
  size_t new_bytes;
  G.nrecs = 0;
  G.l0 = pf->len;
  for (i = 0; i < pf->nrecs; i++) wlog_push_rec(&G, pf->recs[i].data, pf->recs[i].len);
  G.nprefix = pf->nrecs;

  ldb_buffer_set(&G.dst, pf->bytes, pf->len);
  ldb_writer_init(&w, NULL, pf->len);
  w.dst = &G.dst;
  for (i = 0; i < n; i++) {
    ldb_slice_t s;
    int rc;
    ldb_slice_set(&s, datas[i], lens[i]);
    rc = ldb_writer_add_record(&w, &s);
    if (rc != LDB_OK)
      viol("writer-error", "in-memory ldb_writer_add_record returned %d (L0=%lu record #%d len %lu)", rc,
           (unsigned long)pf->len, i, (unsigned long)lens[i]);
    wlog_push_rec(&G, datas[i], lens[i]);
  }
  CNT(records_written, n);

  rc_buf_reset(&G.ref);
  rc_buf_append(&G.ref, pf->bytes, pf->len);
  rc_logw_init(&rw, &G.ref, pf->len);
  for (i = 0; i < n; i++) rc_logw_add(&rw, datas[i], lens[i]);

  new_bytes = G.ref.len - pf->len;
  CNT(bytes_compared, new_bytes);
  if (G.dst.size != G.ref.len || (G.ref.len && memcmp(G.dst.data, G.ref.data, G.ref.len) != 0)) {
    size_t m = G.dst.size < G.ref.len ? G.dst.size : G.ref.len, k = 0;
    while (k < m && G.dst.data[k] == G.ref.data[k]) k++;
    viol("bytes-differ-from-reference",
         "real writer output differs from the reference LevelDB log encoding: L0=%lu (block offset %lu), "
         "record lengths [%s]; size got %lu want %lu; first difference at file offset %lu (block %lu + %lu): "
         "got %s want %s",
         (unsigned long)pf->len, (unsigned long)(pf->len % B), lens_str(G.recs, G.nprefix, G.nrecs),
         (unsigned long)G.dst.size, (unsigned long)G.ref.len, (unsigned long)k, (unsigned long)(k / B),
         (unsigned long)(k % B), k < G.dst.size ? vh_hex(G.dst.data + k, G.dst.size - k < 12 ? G.dst.size - k : 12) : "(eof)",
         k < G.ref.len ? vh_hex(G.ref.data + k, G.ref.len - k < 12 ? G.ref.len - k : 12) : "(eof)");
    return 0;
  }
  return 1;
}

/* read-back oracles on the clean log; returns 1 if all agree */
static int check_clean(int same_bytes, rc_logresult_t *keep_ref) {
  char why[300];
  rc_logresult_t res;
  int ok = 1;

  real_read_mem(G.dst.data, G.dst.size, &RR);
  CNT(records_read_real, RR.n);
  if (!rres_equal(&RR, G.recs, G.nrecs, why, sizeof(why)) || RR.calls != 0 || RR.runaway) {
    viol("roundtrip-mismatch",
         "real reader on real writer's bytes: %s; reporter calls %d (%llu bytes)%s; L0=%lu with %d prefix records, "
         "new record lengths [%s], file size %lu",
         RR.calls && rres_equal(&RR, G.recs, G.nrecs, why, sizeof(why)) ? "records identical" : why, RR.calls,
         (unsigned long long)RR.bytes, RR.runaway ? " RUNAWAY" : "", (unsigned long)G.l0, G.nprefix,
         lens_str(G.recs, G.nprefix, G.nrecs), (unsigned long)G.dst.size);
    ok = 0;
  }

  rc_log_read(G.dst.data, G.dst.size, &res);
  CNT(records_read_ref, res.nrecs);
  if (!ref_equal(&res, G.recs, G.nrecs, why, sizeof(why)) || res.ndrops != 0) {
    viol("roundtrip-mismatch",
         "reference decoder on real writer's bytes: %s; reference drops %lu; L0=%lu, new record lengths [%s], file size %lu",
         res.ndrops && ref_equal(&res, G.recs, G.nrecs, why, sizeof(why)) ? "records identical" : why,
         (unsigned long)res.ndrops, (unsigned long)G.l0, lens_str(G.recs, G.nprefix, G.nrecs),
         (unsigned long)G.dst.size);
    ok = 0;
  }
  if (keep_ref) *keep_ref = res; else rc_logresult_free(&res);

  if (!same_bytes) {
    /* the real reader must accept the reference encoder's bytes */
    real_read_mem(G.ref.data, G.ref.len, &RR);
    if (!rres_equal(&RR, G.recs, G.nrecs, why, sizeof(why)) || RR.calls != 0) {
      viol("roundtrip-mismatch",
           "real reader on REFERENCE encoder's bytes: %s; reporter calls %d (%llu bytes); L0=%lu, new record lengths [%s]",
           RR.calls && rres_equal(&RR, G.recs, G.nrecs, why, sizeof(why)) ? "records identical" : why, RR.calls,
           (unsigned long long)RR.bytes, (unsigned long)G.l0, lens_str(G.recs, G.nprefix, G.nrecs));
    }
    ok = 0;
  }
  return ok;
}

/* production path: real file, ldb_wfile_t + ldb_writer_create, sequential-file reader */
static void file_variant(const prefix_t *pf, int n, const size_t *lens, const uint8_t *const *datas) {
  char path[700], why[300];
  ldb_wfile_t *wf = NULL;
  ldb_writer_t *w;
  uint8_t *back;
  struct stat st;
  int rc, i, fd;
  size_t got = 0;
  snprintf(path, sizeof(path), "%s/c15-%d-%d.log", g_dir, (int)getpid(), g_file_seq++ & 7);
  unlink(path);
  if (pf->len > 0) {
    size_t done = 0;
    fd = open(path, O_WRONLY | O_CREAT | O_TRUNC, 0644);
    if (fd < 0) vh_fatal("open %s: %s", path, strerror(errno));
    while (done < pf->len) {
      ssize_t k = write(fd, pf->bytes + done, pf->len - done);
      if (k <= 0) vh_fatal("write %s: %s", path, strerror(errno));
      done += (size_t)k;
    }
    close(fd);
    rc = ldb_appendfile_create(path, &wf);
  } else {
    rc = ldb_truncfile_create(path, &wf);
  }
  if (rc != LDB_OK) vh_fatal("create %s: %d", path, rc);
  w = ldb_writer_create(wf, pf->len);
  for (i = 0; i < n; i++) {
    ldb_slice_t s;
    ldb_slice_set(&s, datas[i], lens[i]);
    rc = ldb_writer_add_record(w, &s);
    if (rc != LDB_OK) vh_fatal("file add_record: %d", rc);
  }
  rc = ldb_wfile_close(wf);
  if (rc != LDB_OK) vh_fatal("wfile close: %d", rc);
  ldb_wfile_destroy(wf);
  ldb_writer_destroy(w);
  CNT(file_variant_cases, 1);

  if (stat(path, &st) != 0) vh_fatal("stat %s", path);
  back = malloc((size_t)st.st_size + 1);
  fd = open(path, O_RDONLY);
  if (fd < 0 || !back) vh_fatal("reopen %s", path);
  while (got < (size_t)st.st_size) {
    ssize_t k = read(fd, back + got, (size_t)st.st_size - got);
    if (k <= 0) break;
    got += (size_t)k;
  }
  close(fd);
  CNT(bytes_compared, got > pf->len ? got - pf->len : 0);
  if (got != G.ref.len || (got && memcmp(back, G.ref.data, got) != 0)) {
    size_t m = got < G.ref.len ? got : G.ref.len, k = 0;
    while (k < m && back[k] == G.ref.data[k]) k++;
    viol("bytes-differ-from-reference",
         "FILE path (ldb_wfile + ldb_writer_create): file differs from reference encoding: L0=%lu, record lengths [%s]; "
         "size got %lu want %lu; first difference at offset %lu (block %lu + %lu)",
         (unsigned long)pf->len, lens_str(G.recs, G.nprefix, G.nrecs), (unsigned long)got,
         (unsigned long)G.ref.len, (unsigned long)k, (unsigned long)(k / B), (unsigned long)(k % B));
  }
  free(back);
  if (pf->reachable) {
    real_read_file(path, got, &RR);
    CNT(records_read_real, RR.n);
    if (!rres_equal(&RR, G.recs, G.nrecs, why, sizeof(why)) || RR.calls != 0)
      viol("roundtrip-mismatch", "FILE path: sequential-file reader: %s; reporter calls %d; L0=%lu, record lengths [%s]",
           RR.calls && rres_equal(&RR, G.recs, G.nrecs, why, sizeof(why)) ? "records identical" : why, RR.calls,
           (unsigned long)pf->len, lens_str(G.recs, G.nprefix, G.nrecs));
  }
  unlink(path);
}

static void roundtrip_case(const prefix_t *pf, int n, const size_t *lens, const uint8_t *const *datas, int with_file) {
  char sig[256];
  int same = write_both(pf, n, lens, datas);
  if (pf->reachable) {
    check_clean(same, NULL);
  } else {
    CNT(writer_only_cases, 1);
  }
  if (with_file && g_dir) file_variant(pf, n, lens, datas);
  if (G.dst.size > B) CNT(nontrivial_cases, 1);
  if (n > 1) CNT(multi_record_cases, 1);
  shape_sig(sig, sizeof(sig), G.l0, G.recs, G.nprefix, G.nrecs);
  distinct_shape(sig);
}

/* ------------------------------------------------------------------ mode grid */

static uint32_t g_l0[128];
static int g_nl0 = 0;
static prefix_t g_pfx[128];
#define NBND 60                 /* boundary scenarios per L0 in the leading section */
#define GRID_NLEN (GRID_MAXLEN + 1)
#define GRID_MULT 2654435761ULL /* odd prime: scrambles the (L0,len) grid; checked coprime at start */

static void init_l0(void) {
  uint32_t i;
  for (i = 0; i <= 23; i++) g_l0[g_nl0++] = i;                            /* fresh file / head of block 0 */
  for (i = B - 23; i <= B + 23; i++) g_l0[g_nl0++] = i;                   /* +-16 of 32768-7..32768, 32768+0, +7 */
  for (i = 2 * B - 7; i <= 2 * B + 7; i++) g_l0[g_nl0++] = i;             /* whole-block multiples */
  g_l0[g_nl0++] = 1000; g_l0[g_nl0++] = 16384; g_l0[g_nl0++] = B + 12345;
  g_l0[g_nl0++] = 3 * B; g_l0[g_nl0++] = 3 * B + 7; g_l0[g_nl0++] = 5 * B - 3;
}

static uint64_t gcd64(uint64_t a, uint64_t b) { while (b) { uint64_t t = a % b; a = b; b = t; } return a; }

static uint64_t grid_total(void) { return (uint64_t)NBND * (uint64_t)g_nl0 + (uint64_t)g_nl0 * GRID_NLEN; }

static void grid_case(int64_t c) {
  vrng_t r;
  size_t lens[8], sp[NSPECIAL_MAX];
  const uint8_t *datas[8];
  uint64_t na = (uint64_t)NBND * (uint64_t)g_nl0, full = (uint64_t)g_nl0 * GRID_NLEN;
  uint64_t pos;
  int li, n = 1, i, nsp, extras = 0, shortonly = 1;
  prefix_t *pf;

  case_rng(&r, 1, c);
  if ((uint64_t)c < na) {
    int j = (int)((uint64_t)c / (uint64_t)g_nl0);
    li = (int)((uint64_t)c % (uint64_t)g_nl0);
    nsp = special_lens(g_l0[li], sp);
    lens[0] = sp[j % nsp];
    extras = (int)vr_uniform(&r, 5);          /* 1..5 records */
    shortonly = 0;
  } else {
    uint64_t g = ((uint64_t)c - na) % full;
    uint64_t g2 = (uint64_t)(((unsigned __int128)g * GRID_MULT) % full);
    li = (int)(g2 % (uint64_t)g_nl0);
    lens[0] = (size_t)(g2 / (uint64_t)g_nl0);
    if (vr_uniform(&r, 4) == 0) extras = 1 + (int)vr_uniform(&r, 3);
  }
  pf = &g_pfx[li];
  if (!pf->built) prefix_build(pf, g_l0[li], NULL);

  pos = advance(g_l0[li], lens[0], NULL, NULL);
  for (i = 0; i < extras; i++) {
    int pick;
    nsp = special_lens(pos, sp);
    /* short ones: 0,1,2 and "fill the current block +-8"; long ones with 1/5 chance in the boundary section */
    if (!shortonly && vr_uniform(&r, 5) == 0) pick = (int)vr_uniform(&r, (uint32_t)nsp);
    else pick = (int)vr_uniform(&r, (uint32_t)(nsp < 20 ? nsp : 20));
    lens[n] = sp[pick];
    pos = advance(pos, lens[n], NULL, NULL);
    n++;
  }
  for (i = 0; i < n; i++) datas[i] = pick_data(&r, lens[i]);
  roundtrip_case(pf, n, lens, datas, (c % 16) == 0);
  CNT(cases_grid, 1);
  if ((c % 100003) == 0)
    vh_sample("C15", "grid case %lld: L0=%u (%s) lens [%s] -> %lu bytes, byte-identical to reference, read back %d records",
              (long long)c, g_l0[li], l0_class(g_l0[li]), lens_str(G.recs, G.nprefix, G.nrecs),
              (unsigned long)G.dst.size, G.nrecs);
}

/* ------------------------------------------------------------------ mode random */

static uint64_t random_l0(vrng_t *r, uint64_t maxl0) {
  uint64_t l0;
  uint32_t u = vr_uniform(r, 10);
  if (u < 4 || maxl0 < 16) return 0;
  if (u < 7) {
    /* near a block boundary */
    uint64_t k = 1 + vr_uniform(r, (uint32_t)(maxl0 / B > 0 ? maxl0 / B : 1));
    l0 = k * B - 24 + vr_uniform(r, 48);
  } else {
    l0 = vr_uniform(r, (uint32_t)maxl0);
  }
  if (l0 > maxl0) l0 = maxl0;
  if (l0 % B >= 1 && l0 % B < HDR) l0 += HDR - l0 % B;   /* shortest reachable */
  return l0;
}

static void random_case(int64_t c) {
  vrng_t r;
  size_t lens[40];
  const uint8_t *datas[40];
  prefix_t pf;
  int n, i;
  size_t total = 0;
  case_rng(&r, 2, c);
  prefix_build(&pf, random_l0(&r, 5 * B), &r);
  n = 1 + (int)vr_uniform(&r, 40);
  for (i = 0; i < n; i++) {
    size_t len;
    if (vr_chance(&r, 100)) {
      size_t sp[NSPECIAL_MAX];
      int nsp = special_lens(advance(pf.len, 0, NULL, NULL) + total, sp);   /* roughly */
      len = sp[vr_uniform(&r, (uint32_t)nsp)];
    } else {
      uint32_t u = vr_uniform(&r, 100);
      len = vr_skewed(&r, u < 70 ? 12 : u < 95 ? 17 : 20);       /* skewed small, tail up to 1 MiB */
      if (vr_chance(&r, 4)) len = MAXREC - vr_uniform(&r, 3);    /* up to exactly 1 MiB */
    }
    if (len > MAXREC) len = MAXREC;
    if (total + len > (3u << 19) && i > 0) { n = i; break; }       /* keep a case <= ~1.5 MiB (+ one record) */
    lens[i] = len;
    datas[i] = pick_data(&r, len);
    total += len + HDR;
  }
  roundtrip_case(&pf, n, lens, datas, (c % 4) == 0);
  CNT(cases_random, 1);
  if ((c % 1009) == 0)
    vh_sample("C15", "random case %lld: L0=%lu (%d prefix records) lens [%s] -> %lu bytes", (long long)c,
              (unsigned long)pf.len, pf.nrecs, lens_str(G.recs, G.nprefix, G.nrecs), (unsigned long)G.dst.size);
  prefix_free(&pf);
}

/* ------------------------------------------------------------------ generated logs for trunc / alter */

static void push_frag(wlog_t *w, uint64_t hoff, uint32_t len, uint8_t type, int rec) {
  if (w->nfrags == w->capfrags) {
    w->capfrags = w->capfrags ? w->capfrags * 2 : 256;
    w->frags = realloc(w->frags, (size_t)w->capfrags * sizeof(frag_t));
    if (!w->frags) vh_fatal("oom");
  }
  w->frags[w->nfrags].hoff = hoff;
  w->frags[w->nfrags].len = len;
  w->frags[w->nfrags].type = type;
  w->frags[w->nfrags].rec = rec;
  w->nfrags++;
}

/* Walk the CLEAN bytes (already proven identical to the reference encoding)
 * and derive fragment list, record extents and the per-byte class map. */
static void parse_layout(wlog_t *w) {
  const uint8_t *f = w->dst.data;
  size_t size = w->dst.size, pos = 0;
  int ri = 0;
  if (size + 1 > w->clscap) {
    w->clscap = size + 1 + 4096;
    w->cls = realloc(w->cls, w->clscap);
    if (!w->cls) vh_fatal("oom");
  }
  memset(w->cls, CL_PAY, size + 1);
  w->nfrags = 0;
  while (pos < size) {
    size_t space = B - pos % B, len;
    uint8_t type;
    if (space < HDR) {
      size_t e = pos + space < size ? pos + space : size;
      memset(w->cls + pos, CL_TRAILER, e - pos);
      pos += space;
      continue;
    }
    if (size - pos < HDR) vh_fatal("layout: clean log ends inside a header at %lu", (unsigned long)pos);
    len = (size_t)f[pos + 4] | ((size_t)f[pos + 5] << 8);
    type = f[pos + 6];
    if (pos + HDR + len > size || ri >= w->nrecs) vh_fatal("layout: fragment at %lu overruns", (unsigned long)pos);
    push_frag(w, pos, (uint32_t)len, type, ri);
    memset(w->cls + pos, CL_CRC, 4);
    w->cls[pos + 4] = w->cls[pos + 5] = CL_LEN;
    w->cls[pos + 6] = CL_TYPE;
    if (type == 1 || type == 2) { w->recs[ri].start = pos; w->recs[ri].nfrag = 0; }
    w->recs[ri].nfrag++;
    pos += HDR + len;
    if (type == 1 || type == 4) { w->recs[ri].end = pos; ri++; }
    else if (type != 2 && type != 3) vh_fatal("layout: type %u in clean log", type);
  }
  if (ri != w->nrecs) vh_fatal("layout: parsed %d records, wrote %d", ri, w->nrecs);
}

/* last fragment whose header offset is <= off (off may lie in the trailer after it) */
static int frag_at(const wlog_t *w, uint64_t off) {
  int lo = 0, hi = w->nfrags - 1, ans = 0;
  while (lo <= hi) {
    int mid = (lo + hi) / 2;
    if (w->frags[mid].hoff <= off) { ans = mid; lo = mid + 1; } else hi = mid - 1;
  }
  return ans;
}

static const char *type_name(int t) {
  return t == 1 ? "FULL" : t == 2 ? "FIRST" : t == 3 ? "MIDDLE" : t == 4 ? "LAST" : "?";
}

static const char *block_role(const wlog_t *w, uint64_t off) {
  uint64_t size = w->dst.size, blk = off / B, lastblk = size ? (size - 1) / B : 0;
  if (lastblk == 0) return "only";
  if (blk >= lastblk) return size % B ? "final-partial" : "final-full";
  return blk == 0 ? "first" : "inner";
}

static const char *shape_names[] = {"tiny", "mixed", "big", "boundary"};

/* Generate one log into G with the real writer.  Returns 1 if the clean log
 * passes all clean oracles (otherwise violations were emitted and the case
 * must be skipped). */
static int gen_log(int64_t logid, size_t maxsize) {
  vrng_t r;
  prefix_t pf;
  size_t *lens = NULL;
  const uint8_t **datas = NULL;
  int n = 0, cap = 0, ok, i, attempts = 0;
  uint64_t pos, l0;
  size_t target;
  rc_logresult_t res;
  int shape;

  case_rng(&r, 3, logid);
  shape = (int)vr_uniform(&r, 4);
  if (maxsize < 2 * B && shape == 2) shape = 1;
  l0 = random_l0(&r, shape == 0 ? 3000 : (maxsize / 3 < 2 * B ? maxsize / 3 : 2 * B));
  prefix_build(&pf, l0, &r);
  pos = l0;
  switch (shape) {
    case 0: target = l0 + 200 + vr_uniform(&r, 6000); break;
    case 1: target = l0 + B / 2 + vr_uniform(&r, 2 * B + B / 2); break;
    case 2: target = l0 + B + vr_uniform(&r, (uint32_t)(maxsize - B)); break;
    default: target = l0 + 1000 + vr_uniform(&r, 3 * B); break;
  }
  if (target > maxsize) target = maxsize;
  for (;;) {
    size_t len, sp[NSPECIAL_MAX];
    uint64_t np;
    switch (shape) {
      case 0: len = vr_uniform(&r, 8) == 0 ? 0 : vr_uniform(&r, 41); break;
      case 1:
        if (vr_chance(&r, 200)) { int k = special_lens(pos, sp); len = sp[vr_uniform(&r, (uint32_t)(k < 20 ? k : 20))]; }
        else len = vr_skewed(&r, 13);
        break;
      case 2:
        if (vr_chance(&r, 500)) len = 20000 + vr_uniform(&r, 80000);
        else len = vr_skewed(&r, 11);
        break;
      default: { int k = special_lens(pos, sp); len = sp[vr_uniform(&r, (uint32_t)(k - 4))]; } break;
    }
    np = advance(pos, len, NULL, NULL);
    if (np > maxsize || (n > 0 && np > target + B)) {
      if (n > 0 && ++attempts < 8) continue;           /* try another length */
      if (n > 0) break;
      len = 5; np = advance(pos, len, NULL, NULL);     /* first record always fits */
    }
    if (n == cap) {
      cap = cap ? cap * 2 : 64;
      lens = realloc(lens, (size_t)cap * sizeof(size_t));
      datas = realloc(datas, (size_t)cap * sizeof(uint8_t *));
    }
    lens[n] = len;
    datas[n] = pick_data(&r, len);
    n++;
    pos = np;
    if (pos >= target || n >= 4000) break;
  }

  ok = write_both(&pf, n, lens, datas);
  if (ok) ok = check_clean(1, &res); else check_clean(0, &res);
  if (ok) {
    G.shape = shape;
    parse_layout(&G);
    if ((int)res.nrecs != G.nrecs) vh_fatal("refcodec record count vs layout");
    for (i = 0; i < G.nrecs; i++)
      if (res.recs[i].start_off != G.recs[i].start || res.recs[i].end_off != G.recs[i].end ||
          res.recs[i].nfrag != G.recs[i].nfrag)
        vh_fatal("refcodec offsets disagree with layout walk at record %d: ref [%llu,%llu) nfrag %d, walk [%llu,%llu) nfrag %d",
                 i, (unsigned long long)res.recs[i].start_off, (unsigned long long)res.recs[i].end_off, res.recs[i].nfrag,
                 (unsigned long long)G.recs[i].start, (unsigned long long)G.recs[i].end, G.recs[i].nfrag);
    CNT(logs_generated, 1);
    if (G.dst.size > B) CNT(logs_multiblock, 1);
  }
  rc_logresult_free(&res);
  free(lens); free(datas);
  /* the records of the prefix point into the pools, so pf can go */
  prefix_free(&pf);
  return ok;
}

/* ------------------------------------------------------------------ mode trunc */

static uint8_t *g_mark = NULL;
static size_t g_markcap = 0;

static void mark_near(size_t size, uint64_t p) {
  int64_t d;
  for (d = -8; d <= 8; d++) {
    int64_t q = (int64_t)p + d;
    if (q >= 0 && (uint64_t)q <= size) g_mark[q] = 1;
  }
}

static void check_cut(size_t cut, int with_ref) {
  char why[300], sig[320];
  int k = 0, lo = 0, hi = G.nrecs, fi, mid_record = 0, nontriv;
  const char *where;
  size_t size = G.dst.size;
  /* records are in file order: expected = those with end <= cut */
  while (lo < hi) { int m = (lo + hi) / 2; if (G.recs[m].end <= cut) lo = m + 1; else hi = m; }
  k = lo;
  real_read_mem(G.dst.data, cut, &RR);
  CNT(cuts, 1);
  CNT(records_read_real, RR.n);
  if (k < G.nrecs && G.recs[k].start < cut && G.recs[k].nfrag > 1) mid_record = 1;
  nontriv = size > B || mid_record;
  if (nontriv) CNT(cuts_nontrivial, 1);
  if (mid_record) CNT(cuts_midrecord, 1);

  fi = frag_at(&G, cut);
  if (cut == size) where = "eof";
  else if (cut == G.frags[fi].hoff) where = "at-header";
  else if (cut == G.frags[fi].hoff + HDR) where = "after-header";
  else where = cl_name[G.cls[cut]];

  if (RR.calls != 0)
    viol("truncation-reported-error",
         "log cut at byte %lu of %lu (block %lu + %lu, %s of %s fragment of record #%d [%llu,%llu) nfrag %d): "
         "reader called the corruption reporter %d times (%llu bytes) - a cut is a torn tail, not corruption. "
         "log: L0=%lu shape=%s lens [%s]",
         (unsigned long)cut, (unsigned long)size, (unsigned long)(cut / B), (unsigned long)(cut % B), where,
         type_name(G.frags[fi].type), G.frags[fi].rec, (unsigned long long)G.recs[G.frags[fi].rec].start,
         (unsigned long long)G.recs[G.frags[fi].rec].end, G.recs[G.frags[fi].rec].nfrag, RR.calls,
         (unsigned long long)RR.bytes, (unsigned long)G.l0, shape_names[G.shape], lens_str(G.recs, 0, G.nrecs));
  if (!rres_equal(&RR, G.recs, k, why, sizeof(why)) || RR.runaway)
    viol("truncation-wrong-records",
         "log cut at byte %lu of %lu (block %lu + %lu, %s of %s fragment): expected exactly the %d records ending at or "
         "before the cut: %s. log: L0=%lu shape=%s lens [%s]",
         (unsigned long)cut, (unsigned long)size, (unsigned long)(cut / B), (unsigned long)(cut % B), where,
         type_name(G.frags[fi].type), k, why, (unsigned long)G.l0, shape_names[G.shape], lens_str(G.recs, 0, G.nrecs));
  if (with_ref) {
    rc_logresult_t res;
    rc_log_read(G.dst.data, cut, &res);
    CNT(cuts_refchecked, 1);
    if (!ref_equal(&res, G.recs, k, why, sizeof(why)) || res.ndrops != 0)
      viol("reader-disagrees-with-reference",
           "REFERENCE decoder on a cut at byte %lu of %lu: %s, drops %lu (expected %d records, no drops; real reader "
           "returned %d records, %d reports). log: L0=%lu lens [%s]",
           (unsigned long)cut, (unsigned long)size, ref_equal(&res, G.recs, k, why, sizeof(why)) ? "records ok" : why,
           (unsigned long)res.ndrops, k, RR.n, RR.calls, (unsigned long)G.l0, lens_str(G.recs, 0, G.nrecs));
    rc_logresult_free(&res);
  }
  snprintf(sig, sizeof(sig), "cut|%s|%s|nf%d|%s", where, cut == size ? "-" : type_name(G.frags[fi].type),
           G.recs[G.frags[fi].rec].nfrag > 4 ? 4 : G.recs[G.frags[fi].rec].nfrag, block_role(&G, cut));
  distinct_shape(sig);
}

static void trunc_case(int64_t c) {
  size_t maxsize = g_maxlog ? (size_t)g_maxlog : (g_exhaustive ? 72000 : 200000);
  int64_t logid = g_exhaustive ? c / CHUNKS : c;
  size_t size, cut;
  CNT(cases_trunc, 1);
  if (!gen_log(logid, maxsize)) return;
  size = G.dst.size;
  if (G.dst.size > B) CNT(nontrivial_cases, 1);
  if (g_exhaustive) {
    for (cut = (size_t)(c % CHUNKS); cut <= size; cut += CHUNKS)
      check_cut(cut, ((cut / CHUNKS) & 15) == 0);
  } else {
    vrng_t r;
    int i;
    uint64_t k;
    if (size + 1 > g_markcap) { g_markcap = size + 4096; g_mark = realloc(g_mark, g_markcap); }
    memset(g_mark, 0, size + 1);
    for (i = 0; i < G.nfrags; i++) {
      mark_near(size, G.frags[i].hoff);
      mark_near(size, G.frags[i].hoff + HDR);
      mark_near(size, G.frags[i].hoff + HDR + G.frags[i].len);
    }
    for (k = 0; k * B <= size + B; k++) mark_near(size, k * B);
    mark_near(size, 0); mark_near(size, size);
    case_rng(&r, 4, c);
    for (i = 0; i < 2000; i++) g_mark[vr_uniform(&r, (uint32_t)size + 1)] = 1;
    for (cut = 0; cut <= size; cut++)
      if (g_mark[cut]) check_cut(cut, (mix64(cut) & 7) == 0);   /* reference decoder on 1/8 of the cuts */
  }
  {
    char sig[256];
    shape_sig(sig, sizeof(sig), G.l0, G.recs, G.nprefix, G.nrecs);
    distinct_shape(sig);
  }
  if ((c % 97) == 0)
    vh_sample("C15", "trunc case %lld: log %lld L0=%lu shape=%s %d records %d fragments %lu bytes; cuts so far %llu, all returned exactly the "
              "records before the cut with 0 reports", (long long)c, (long long)logid, (unsigned long)G.l0, shape_names[G.shape],
              G.nrecs, G.nfrags, (unsigned long)size, (unsigned long long)cn_val[CN_cuts]);
}

/* ------------------------------------------------------------------ mode alter */

/* K_HDRFIX: the type byte of a non-empty physical record is replaced (unknown value, 0, or another legal type) and the
 * CRC field is recomputed to match, i.e. a multi-byte alteration that the checksum cannot catch: the framing state
 * machine alone decides what comes out.  With a legal new type the bytes may form a valid log (or a legal cut of one),
 * so only "no alien record" (up to what the reference decoder also accepts) and agreement with the reference are
 * demanded; with an illegal type the drop must be reported as for any other damage. */
enum { K_BIT, K_ZERO, K_FF, K_BURST, K_ZBURST, K_SECTOR, K_HDRFIX, K__N };
static const char *kind_name[] = {"bitflip", "byte:=00", "byte:=ff", "random-burst", "zero-burst", "zero-sector-512",
                                  "type-byte-with-matching-crc"};
static int g_hdrfix_legal = 0;

static uint8_t *g_work = NULL;
static size_t g_workcap = 0;
static int *g_matched = NULL;
static int g_matchedcap = 0;

/* Format-level walk of the ALTERED bytes, used only to DIAGNOSE a silent loss
 * (never to decide that there is one): finds the first spot where a conforming
 * reader legitimately stays silent. */
enum { D_NONE, D_ZERO_HEADER, D_TORN_TAIL };
static int diagnose_silence(const uint8_t *f, size_t n, uint64_t *where) {
  size_t pos = 0;
  while (pos < n) {
    size_t blk_end = (pos / B + 1) * (size_t)B, avail, len;
    int final_short = 0;
    if (blk_end >= n) { final_short = (n % B) != 0; blk_end = n; }
    avail = blk_end - pos;
    if (avail < HDR) {
      if (blk_end == n && final_short && avail > 0) { *where = pos; return D_TORN_TAIL; }
      pos = blk_end;
      continue;
    }
    len = (size_t)f[pos + 4] | ((size_t)f[pos + 5] << 8);
    if (HDR + len > avail) {
      if (final_short) { *where = pos; return D_TORN_TAIL; }
      pos = blk_end;             /* bad length inside a full block: must be reported */
      continue;
    }
    if (f[pos + 6] == 0 && len == 0) { *where = pos; return D_ZERO_HEADER; }
    if (rc_crc_unmask(rc_get_fixed32(f + pos)) != rc_crc32c(f + pos + 6, 1 + len)) {
      pos = blk_end;             /* checksum mismatch: must be reported */
      continue;
    }
    pos += HDR + len;
  }
  return D_NONE;
}

static void evaluate_alteration(int kind, size_t a, size_t b, uint32_t param) {
  const uint8_t *clean = G.dst.data;
  size_t size = G.dst.size, i, first = (size_t)-1, last = 0, efirst = (size_t)-1, elast = 0;
  char why[300], sig[320], ctx[700];
  rc_logresult_t ref;
  int j, k, nmatched = 0, lost, fi, nontriv, infrag, alien = -1, k0, tail, headn, headmax;
  uint64_t resume_from;

  for (i = a; i < b; i++) {
    if (g_work[i] != clean[i]) {
      if (first == (size_t)-1) first = i;
      last = i;
      if (G.cls[i] != CL_TRAILER) { if (efirst == (size_t)-1) efirst = i; elast = i; }
    }
  }
  CNT(alt_total, 1);
  switch (kind) {
    case K_BIT: CNT(alt_bit, 1); break;
    case K_ZERO: CNT(alt_zero, 1); break;
    case K_FF: CNT(alt_ff, 1); break;
    case K_BURST: CNT(alt_burst, 1); break;
    case K_ZBURST: CNT(alt_zburst, 1); break;
    case K_HDRFIX: CNT(alt_hdrfix, 1); break;
    default: CNT(alt_sector, 1); break;
  }
  if (first == (size_t)-1) { CNT(alt_nochange, 1); return; }

  snprintf(ctx, sizeof(ctx),
           "alteration %s at [%lu,%lu) param %u, changed bytes %lu..%lu (block %lu + %lu; %s), log: id-case %lld L0=%lu shape=%s "
           "size %lu, %d records lens [%s]",
           kind_name[kind], (unsigned long)a, (unsigned long)b, param, (unsigned long)first, (unsigned long)last,
           (unsigned long)(first / B), (unsigned long)(first % B), cl_name[G.cls[first]], (long long)g_case,
           (unsigned long)G.l0, shape_names[G.shape], (unsigned long)size, G.nrecs, lens_str(G.recs, 0, G.nrecs));

  real_read_mem(g_work, size, &RR);
  CNT(records_read_real, RR.n);

  if (efirst == (size_t)-1) {
    /* only bytes of <7-byte block trailers changed: no reader consults them */
    CNT(alt_trailer_only, 1);
    if (!rres_equal(&RR, G.recs, G.nrecs, why, sizeof(why)) || RR.calls != 0)
      viol("roundtrip-mismatch", "bytes changed only inside a block trailer, yet the result changed: %s, reporter calls %d. %s",
           RR.calls ? "reported" : why, RR.calls, ctx);
    snprintf(sig, sizeof(sig), "alt|%s|trailer-only|%s", kind_name[kind], block_role(&G, first));
    distinct_shape(sig);
    return;
  }

  rc_log_read(g_work, size, &ref);
  CNT(records_read_ref, ref.nrecs);

  /* Records are in file order, so the records that lie entirely in blocks after the last
   * damaged block are a SUFFIX written[k0..n).  A reader that resumes at the next intact
   * block returns  S ++ written[k0..n)  where S is a subsequence of written[0..k0).
   * (Matching by suffix first keeps records with equal contents, e.g. empty ones, apart.) */
  if (G.nrecs > g_matchedcap) { g_matchedcap = G.nrecs + 64; g_matched = realloc(g_matched, (size_t)g_matchedcap * sizeof(int)); }
  memset(g_matched, 0, (size_t)G.nrecs * sizeof(int));
  resume_from = ((uint64_t)elast / B + 1) * B;
  k0 = G.nrecs;
  while (k0 > 0 && G.recs[k0 - 1].start >= resume_from) k0--;
  tail = G.nrecs - k0;
  CNT(alt_resume_records_checked, tail);
  headn = RR.n;
  headmax = G.nrecs;
  if (tail > 0) {
    /* (ii) reading resumes at the next intact block */
    int bad = -1;
    if (RR.n < tail) bad = k0;
    for (k = 0; bad < 0 && k < tail; k++) {
      int ri = RR.n - tail + k, wi = k0 + k;
      if (RR.len[ri] != G.recs[wi].len || (RR.len[ri] && memcmp(RR.arena + RR.off[ri], G.recs[wi].data, RR.len[ri]) != 0))
        bad = wi;
    }
    if (bad >= 0) {
      viol("no-resume-after-damage",
           "the last %d written records (#%d..#%d) lie entirely in blocks after the last damaged block (damage ends in block "
           "%lu, record #%d starts at %llu in block %llu), so the reader's output must end with exactly these; it does not: "
           "mismatch at written record #%d [%llu,%llu) len %lu; returned %d of %d records, reports %d. %s",
           tail, k0, G.nrecs - 1, (unsigned long)(elast / B), k0, (unsigned long long)G.recs[k0].start,
           (unsigned long long)(G.recs[k0].start / B), bad, (unsigned long long)G.recs[bad].start,
           (unsigned long long)G.recs[bad].end, (unsigned long)G.recs[bad].len, RR.n, G.nrecs, RR.calls, ctx);
    } else {
      for (k = k0; k < G.nrecs; k++) g_matched[k] = 1;
      nmatched += tail;
      headn = RR.n - tail;
      headmax = k0;
    }
  }

  /* (i) the (remaining) returned records form a subsequence of the written records */
  j = 0;
  for (k = 0; k < headn; k++) {
    int i2;
    for (i2 = j; i2 < headmax; i2++)
      if (G.recs[i2].len == RR.len[k] && (RR.len[k] == 0 || memcmp(G.recs[i2].data, RR.arena + RR.off[k], RR.len[k]) == 0))
        break;
    if (i2 == headmax) {
      /* not a written record at or after position j.  A genuine CRC-32C collision (validly
       * checksummed garbage) is accepted by ANY conforming reader: diagnose via the reference. */
      if ((size_t)k < ref.nrecs && ref.recs[k].len == RR.len[k] &&
          (RR.len[k] == 0 || memcmp(ref.recs[k].data, RR.arena + RR.off[k], RR.len[k]) == 0)) {
        int i3, written = 0;
        for (i3 = 0; i3 < G.nrecs && !written; i3++)
          written = G.recs[i3].len == RR.len[k] && (RR.len[k] == 0 || memcmp(G.recs[i3].data, RR.arena + RR.off[k], RR.len[k]) == 0);
        if (!written) {
          CNT(alt_crc_collision, 1);
          vh_note("C15 alter: validly checksummed alien record accepted by both readers (CRC collision): %s", ctx);
          continue;
        }
      }
      if (alien < 0) alien = k;
      continue;
    }
    g_matched[i2] = 1;
    nmatched++;
    j = i2 + 1;
  }
  if (alien >= 0 || RR.runaway) {
    int earlier = -1, i2;
    for (i2 = 0; i2 < G.nrecs && alien >= 0; i2++)
      if (G.recs[i2].len == RR.len[alien] &&
          (RR.len[alien] == 0 || memcmp(G.recs[i2].data, RR.arena + RR.off[alien], RR.len[alien]) == 0)) { earlier = i2; break; }
    viol("alien-record",
         "reader returned record #%d (len %lu, starts %s) that %s%s; reader returned %d records, reports %d. %s",
         alien, alien >= 0 ? (unsigned long)RR.len[alien] : 0ul,
         alien >= 0 ? vh_hex(RR.arena + RR.off[alien], RR.len[alien] < 12 ? RR.len[alien] : 12) : "",
         earlier >= 0 ? "duplicates / reorders written record #" : "was never written",
         earlier >= 0 ? (snprintf(why, sizeof(why), "%d", earlier), why) : "", RR.n, RR.calls, ctx);
  }

  /* (iii) a loss must be reported */
  lost = G.nrecs - nmatched;
  if (lost > 0) CNT(alt_lossy, 1); else CNT(alt_absorbed, 1);
  if (lost > 0 && RR.poscalls == 0 && !(kind == K_HDRFIX && g_hdrfix_legal)) {
    uint64_t where = 0;
    int d = diagnose_silence(g_work, size, &where);
    int firstlost = 0;
    while (firstlost < G.nrecs && g_matched[firstlost]) firstlost++;
    if (d == D_TORN_TAIL) {
      /* legal cut of a valid log: exactly the records wholly before `where` must be there */
      int m = 0;
      while (m < G.nrecs && G.recs[m].end <= where) m++;
      if (rres_equal(&RR, G.recs, m, why, sizeof(why)) && efirst >= where) {
        CNT(alt_torn_tail_exempt, 1);
      } else {
        viol("silent-drop",
             "%d written records lost (first #%d [%llu,%llu)) with no report of dropped bytes; the file has a torn-tail-like "
             "header at %llu but the loss is not explained by it (damage starts at %lu). reports %d (bytes %llu). %s",
             lost, firstlost, (unsigned long long)G.recs[firstlost].start, (unsigned long long)G.recs[firstlost].end,
             (unsigned long long)where, (unsigned long)efirst, RR.calls, (unsigned long long)RR.bytes, ctx);
      }
    } else if (d == D_ZERO_HEADER) {
      CNT(zh_skip_total, 1);
      if (kind <= K_SECTOR) cn_val[CN_zh_skip_bitflip + kind]++;
      if (where % B == 0) CNT(zh_skip_at_block_start, 1);
      if (kind <= K_FF) CNT(zh_skip_single_byte_on_empty_record, 1);
      viol("zero-header-silent-skip",
           "%d written records lost (first #%d [%llu,%llu) len %lu) and the reporter was never told about dropped bytes: the "
           "alteration left an all-zero header (length 0, type 0) at a physical-record boundary, file offset %llu (block %llu "
           "+ %llu%s); the reader treats it as preallocated space and skips the rest of the block silently. reporter calls "
           "%d (bytes %llu); reference decoder: %lu records, %lu drops. %s",
           lost, firstlost, (unsigned long long)G.recs[firstlost].start, (unsigned long long)G.recs[firstlost].end,
           (unsigned long)G.recs[firstlost].len, (unsigned long long)where, (unsigned long long)(where / B),
           (unsigned long long)(where % B), where % B == 0 ? ", the start of a block" : "", RR.calls,
           (unsigned long long)RR.bytes, (unsigned long)ref.nrecs, (unsigned long)ref.ndrops, ctx);
    } else {
      viol("silent-drop",
           "%d written records lost (first #%d [%llu,%llu) len %lu) with no report of dropped bytes (reporter calls %d, bytes "
           "%llu); the altered bytes are neither a legal cut of a valid log nor a zero header. reference decoder: %lu "
           "records, %lu drops. %s",
           lost, firstlost, (unsigned long long)G.recs[firstlost].start, (unsigned long long)G.recs[firstlost].end,
           (unsigned long)G.recs[firstlost].len, RR.calls, (unsigned long long)RR.bytes, (unsigned long)ref.nrecs,
           (unsigned long)ref.ndrops, ctx);
    }
  }

  /* cross-check against the reference decoder on the same altered bytes */
  {
    int same = ((size_t)RR.n == ref.nrecs);
    for (k = 0; same && k < RR.n; k++)
      if (RR.len[k] != ref.recs[k].len || (RR.len[k] && memcmp(RR.arena + RR.off[k], ref.recs[k].data, RR.len[k]) != 0))
        same = 0;
    if (!same || (RR.calls > 0) != (ref.ndrops > 0))
      viol("reader-disagrees-with-reference",
           "real reader: %d records, %d reports (%d with bytes>0, %llu bytes); reference decoder: %lu records, %lu drops "
           "(first drop: off %llu bytes %llu reason %d); record lists %s. %s",
           RR.n, RR.calls, RR.poscalls, (unsigned long long)RR.bytes, (unsigned long)ref.nrecs, (unsigned long)ref.ndrops,
           ref.ndrops ? (unsigned long long)ref.drops[0].off : 0ull, ref.ndrops ? (unsigned long long)ref.drops[0].bytes : 0ull,
           ref.ndrops ? ref.drops[0].reason : 0, same ? "identical" : "DIFFER", ctx);
    else if ((size_t)RR.calls != ref.ndrops)
      CNT(alt_report_count_differs, 1);
  }
  rc_logresult_free(&ref);

  /* evidence */
  fi = frag_at(&G, efirst);
  infrag = G.recs[G.frags[fi].rec].nfrag > 1;
  nontriv = size > B || infrag;
  if (nontriv) CNT(alt_nontrivial, 1);
  if (infrag) CNT(alt_in_fragmented_record, 1);
  if (elast / B != efirst / B) CNT(alt_multi_block_damage, 1);
  snprintf(sig, sizeof(sig), "alt|%s|%s|%s|nf%d|%s|%s|%s", kind_name[kind], cl_name[G.cls[efirst]],
           type_name(G.frags[fi].type), G.recs[G.frags[fi].rec].nfrag > 4 ? 4 : G.recs[G.frags[fi].rec].nfrag,
           block_role(&G, efirst), elast / B != efirst / B ? "xblk" : "1blk",
           lost == 0 ? "absorbed" : RR.poscalls ? "reported" : "silent");
  distinct_shape(sig);
}

static void apply_alteration(int kind, size_t off, uint32_t param, vrng_t *r) {
  size_t size = G.dst.size, a = off, b = off + 1, i;
  if (off >= size) return;
  switch (kind) {
    case K_BIT: g_work[off] ^= (uint8_t)(1u << (param & 7)); break;
    case K_ZERO: g_work[off] = 0; break;
    case K_FF: g_work[off] = 0xff; break;
    case K_BURST:
    case K_ZBURST:
      b = off + 2 + param % 511;
      if (b > size) b = size;
      for (i = a; i < b; i++) g_work[i] = kind == K_ZBURST ? 0 : (uint8_t)vr_next(r);
      break;
    case K_HDRFIX: {
      const frag_t *f = &G.frags[frag_at(&G, off)];
      uint32_t sel = (param & 0xff) % 10, val = param >> 8;
      uint8_t nt;
      if (f->len == 0 || (size_t)f->hoff + HDR + f->len > size) return;
      if (sel < 5) nt = (uint8_t)(5 + val % 251);
      else if (sel < 6) nt = 0;
      else { nt = (uint8_t)(1 + val % 4); if (nt == f->type) nt = (uint8_t)(1 + nt % 4); }
      a = (size_t)f->hoff;
      b = a + HDR;
      g_work[a + 6] = nt;
      rc_put_fixed32(g_work + a, rc_crc_mask(rc_crc32c(g_work + a + 6, 1 + (size_t)f->len)));
      g_hdrfix_legal = nt >= 1 && nt <= 4;
      if (g_hdrfix_legal) CNT(alt_hdrfix_legal_type, 1);
      else { CNT(alt_hdrfix_illegal_type, 1); if (f->type == 3) CNT(alt_hdrfix_illegal_type_on_middle_fragment, 1); }
      break;
    }
    default:
      a = off & ~(size_t)511;
      b = a + 512 < size ? a + 512 : size;
      memset(g_work + a, 0, b - a);
      break;
  }
  evaluate_alteration(kind, a, b, param);
  memcpy(g_work + a, G.dst.data + a, b - a);
}

/* stratified choice of an offset: headers of every fragment type, payload
 * edges, trailers, block boundaries, end of file, uniform */
static size_t pick_offset(vrng_t *r) {
  size_t size = G.dst.size;
  uint32_t s = vr_uniform(r, 10);
  int fi, tries, want;
  const frag_t *f;
  /* choose a fragment: first pick a type that exists, then a fragment of that type */
  want = 1 + (int)vr_uniform(r, 4);
  fi = (int)vr_uniform(r, (uint32_t)G.nfrags);
  for (tries = 0; tries < 24 && G.frags[fi].type != want; tries++) fi = (int)vr_uniform(r, (uint32_t)G.nfrags);
  f = &G.frags[fi];
  switch (s) {
    case 0: return (size_t)f->hoff + vr_uniform(r, 4);
    case 1: return (size_t)f->hoff + 4 + vr_uniform(r, 2);
    case 2: return (size_t)f->hoff + 6;
    case 3: return f->len ? (size_t)f->hoff + HDR : (size_t)f->hoff + 6;
    case 4: return f->len ? (size_t)f->hoff + HDR + f->len - 1 : (size_t)f->hoff + 5;
    case 5: return f->len ? (size_t)f->hoff + HDR + vr_uniform(r, f->len) : (size_t)f->hoff;
    case 6: {
      size_t nblk = size / B, k, q;
      if (nblk == 0) break;
      k = vr_uniform(r, (uint32_t)nblk);
      q = (k + 1) * B - 1 - vr_uniform(r, 6);
      return q < size ? q : size - 1;
    }
    case 7: {
      size_t nblk = size / B + 1, k = vr_uniform(r, (uint32_t)nblk);
      int64_t q = (int64_t)(k * B) - 8 + (int64_t)vr_uniform(r, 16);
      if (q < 0) q = 0;
      return (size_t)q < size ? (size_t)q : size - 1;
    }
    case 8: return size - 1 - vr_uniform(r, size < 16 ? (uint32_t)size : 16);
    default: break;
  }
  return vr_uniform(r, (uint32_t)size);
}

static void alter_case(int64_t c) {
  size_t maxsize = g_maxlog ? (size_t)g_maxlog : (g_exhaustive ? 36000 : 200000);
  int64_t logid = g_exhaustive ? c / CHUNKS : c;
  size_t size, off;
  vrng_t r;
  uint64_t before = cn_val[CN_alt_total];
  CNT(cases_alter, 1);
  if (!gen_log(logid, maxsize)) return;
  size = G.dst.size;
  if (size > B) CNT(nontrivial_cases, 1);
  if (size + 1 > g_workcap) { g_workcap = size + 4096; g_work = realloc(g_work, g_workcap); if (!g_work) vh_fatal("oom"); }
  memcpy(g_work, G.dst.data, size);
  case_rng(&r, 5, c);
  if (g_exhaustive) {
    for (off = (size_t)(c % CHUNKS); off < size; off += CHUNKS) {
      uint32_t h = (uint32_t)mix64(g_seed ^ (uint64_t)off * 0x9e3779b1u ^ (uint64_t)logid << 32);
      int bit;
      if (G.cls[off] == CL_PAY || G.cls[off] == CL_TRAILER) apply_alteration(K_BIT, off, h & 7, &r);
      else for (bit = 0; bit < 8; bit++) apply_alteration(K_BIT, off, (uint32_t)bit, &r);
      apply_alteration(K_ZERO, off, 0, &r);
      apply_alteration(K_FF, off, 0, &r);
      apply_alteration((h >> 3) & 3 ? K_BURST : K_ZBURST, off, h >> 8, &r);
      if ((off & 511) == 0) apply_alteration(K_SECTOR, off, 0, &r);
      if (G.cls[off] == CL_TYPE) {
        uint32_t t;
        apply_alteration(K_HDRFIX, off, (h & 0xffffff00u), &r);          /* an unknown type */
        apply_alteration(K_HDRFIX, off, 5, &r);                           /* type 0 on a non-empty record */
        for (t = 0; t < 4; t++) apply_alteration(K_HDRFIX, off, 6 | (t << 8), &r);   /* the other legal types */
      }
    }
  } else {
    int i;
    for (i = 0; i < g_alts; i++) {
      int kind = i % K__N;
      apply_alteration(kind, pick_offset(&r), (uint32_t)vr_next(&r), &r);
    }
  }
  {
    char sig[256];
    shape_sig(sig, sizeof(sig), G.l0, G.recs, G.nprefix, G.nrecs);
    distinct_shape(sig);
  }
  if ((c % 97) == 0)
    vh_sample("C15", "alter case %lld: log %lld L0=%lu shape=%s %d records %d fragments %lu bytes; %llu alterations applied to it",
              (long long)c, (long long)logid, (unsigned long)G.l0, shape_names[G.shape], G.nrecs, G.nfrags,
              (unsigned long)size, (unsigned long long)(cn_val[CN_alt_total] - before));
}

/* ------------------------------------------------------------------ mode crc */

#define CRC_S1 (4097u * 16u)            /* (length 0..4096) x (alignment 0..15) */
#define CRC_NSPLITBUF 16u
#define CRC_S2 (CRC_NSPLITBUF * 301u)   /* split positions 0..300 of 300-byte buffers */
#define CRC_BIG (4u << 20)

static uint8_t *g_crcbuf = NULL;        /* 64-byte aligned, CRC_BIG + 64 bytes */

static void crc_check(const char *what, uint32_t init, const uint8_t *p, size_t n, unsigned align) {
  uint32_t got = ldb_crc32c_extend(init, p, n);
  uint32_t want = rc_crc32c_extend(init, p, n);
  if (got != want)
    viol("crc-mismatch", "%s: ldb_crc32c_extend(0x%08x, buf, %lu) = 0x%08x, bitwise reference 0x%08x (alignment %u, hw=%d, "
         "first bytes %s)", what, init, (unsigned long)n, got, want, align, g_hw, vh_hex(p, n < 16 ? n : 16));
}

static void crc_vectors(void) {
  static const struct { const char *name; uint32_t want; } v[] = {
    {"123456789", 0xe3069283u}, {"32x00", 0x8a9136aau}, {"32xff", 0x62a8ab43u}, {"0..31", 0x46dd794eu}, {"31..0", 0x113fdb5cu}};
  uint8_t b[5][32];
  size_t n[5] = {9, 32, 32, 32, 32};
  int i;
  memcpy(b[0], "123456789", 9);
  memset(b[1], 0, 32); memset(b[2], 0xff, 32);
  for (i = 0; i < 32; i++) { b[3][i] = (uint8_t)i; b[4][i] = (uint8_t)(31 - i); }
  for (i = 0; i < 5; i++) {
    uint32_t r = rc_crc32c(b[i], n[i]), g = ldb_crc32c_value(b[i], n[i]);
    if (r != v[i].want) vh_fatal("bitwise reference CRC-32C fails the published vector %s: 0x%08x != 0x%08x", v[i].name, r, v[i].want);
    if (g != v[i].want)
      viol("crc-mismatch", "published CRC-32C test vector %s: ldb_crc32c_value = 0x%08x, standard value 0x%08x (hw=%d)",
           v[i].name, g, v[i].want, g_hw);
  }
}

static void mask_check(uint32_t v) {
  uint32_t m = ldb_crc32c_mask(v), u = ldb_crc32c_unmask(v);
  if (m != rc_crc_mask(v))
    viol("crc-mismatch", "ldb_crc32c_mask(0x%08x) = 0x%08x, LevelDB masking ((crc>>15|crc<<17)+0xa282ead8) gives 0x%08x", v, m, rc_crc_mask(v));
  if (u != rc_crc_unmask(v))
    viol("crc-mismatch", "ldb_crc32c_unmask(0x%08x) = 0x%08x, reference 0x%08x", v, u, rc_crc_unmask(v));
  if (ldb_crc32c_unmask(m) != v)
    viol("crc-mismatch", "ldb_crc32c_unmask(ldb_crc32c_mask(0x%08x)) = 0x%08x", v, ldb_crc32c_unmask(m));
  CNT(crc_mask_values, 1);
}

static void crc_case(int64_t c) {
  vrng_t r;
  size_t i;
  case_rng(&r, 6, c);
  CNT(cases_crc, 1);
  if (c < (int64_t)CRC_S1) {
    size_t len = (size_t)(c / 16);
    unsigned align = (unsigned)(c % 16);
    uint8_t *p = g_crcbuf + align;
    for (i = 0; i < len; i += 8) { uint64_t v = vr_next(&r); memcpy(p + i, &v, 8); }
    crc_check("length x alignment grid", 0, p, len, align);
    crc_check("length x alignment grid (running crc)", (uint32_t)vr_next(&r), p, len, align);
    CNT(crc_len_align, 1);
  } else if (c < (int64_t)(CRC_S1 + CRC_S2)) {
    uint32_t bi = (uint32_t)((c - CRC_S1) / 301), s = (uint32_t)((c - CRC_S1) % 301), t;
    vrng_t rb;
    uint8_t *p = g_crcbuf + (bi % 16);
    uint32_t whole, part;
    case_rng(&rb, 7, bi);
    for (i = 0; i < 304; i += 8) { uint64_t v = vr_next(&rb); memcpy(p + i, &v, 8); }
    whole = rc_crc32c(p, 300);
    part = ldb_crc32c_extend(ldb_crc32c_value(p, s), p + s, 300 - s);
    if (part != whole)
      viol("crc-mismatch", "chained extend: extend(value(buf,%u), buf+%u, %u) = 0x%08x, crc of the whole 300-byte buffer = 0x%08x "
           "(buffer %u, hw=%d)", s, s, 300 - s, part, whole, bi, g_hw);
    t = s + vr_uniform(&r, 301 - s);
    part = ldb_crc32c_extend(ldb_crc32c_extend(ldb_crc32c_value(p, s), p + s, t - s), p + t, 300 - t);
    if (part != whole)
      viol("crc-mismatch", "chained extend, 3 pieces split at %u and %u: 0x%08x, whole buffer 0x%08x (buffer %u, hw=%d)", s, t,
           part, whole, bi, g_hw);
    CNT(crc_splits, 2);
  } else if (((c - CRC_S1 - CRC_S2) & 1) == 0) {
    size_t len = 1 + vr_skewed(&r, 22);
    unsigned align = vr_uniform(&r, 16);
    uint8_t *p = g_crcbuf + align;
    uint64_t x = vr_next(&r);
    if (len > CRC_BIG) len = CRC_BIG;
    if (vr_chance(&r, 100)) len = CRC_BIG - vr_uniform(&r, 64);
    for (i = 0; i < len; i += 8) { x = mix64(x); memcpy(p + i, &x, 8); }
    crc_check("random buffer", vr_chance(&r, 500) ? 0 : (uint32_t)vr_next(&r), p, len, align);
    CNT(crc_random_bufs, 1);
    CNT(crc_random_bytes, len);
  } else {
    int64_t chunk = (c - CRC_S1 - CRC_S2) / 2;
    if (chunk == 0) {
      static const uint32_t bv[] = {0, 1, 2, 0x7fff, 0x8000, 0x8001, 0xffff, 0x10000, 0x1ffff, 0x20000, 0x7fffffffu,
                                    0x80000000u, 0x80000001u, 0xfffffffeu, 0xffffffffu, 0xa282ead8u, 0xa282ead7u,
                                    0xa282ead9u, 0x5d7d1528u, 0x5d7d1527u, 0x5d7d1529u};
      int b;
      for (i = 0; i < sizeof(bv) / sizeof(bv[0]); i++) mask_check(bv[i]);
      for (b = 0; b < 32; b++) { mask_check(1u << b); mask_check(~(1u << b)); mask_check((1u << b) - 1); }
    }
    for (i = 0; i < 10000; i++) mask_check((uint32_t)vr_next(&r));
  }
}

/* ------------------------------------------------------------------ main */

int main(int argc, char **argv) {
  int64_t first = 0, count = 1, c;
  int i, hw_given = 0;
  for (i = 1; i + 1 < argc; i += 2) {
    const char *k = argv[i], *v = argv[i + 1];
    if (!strcmp(k, "--seed")) g_seed = strtoull(v, NULL, 10);
    else if (!strcmp(k, "--mode")) g_mode = v;
    else if (!strcmp(k, "--first")) first = strtoll(v, NULL, 10);
    else if (!strcmp(k, "--count")) count = strtoll(v, NULL, 10);
    else if (!strcmp(k, "--dir")) g_dir = v;
    else if (!strcmp(k, "--exhaustive")) g_exhaustive = atoi(v);
    else if (!strcmp(k, "--hw")) { g_hw = atoi(v); hw_given = 1; }
    else if (!strcmp(k, "--alts")) g_alts = atoi(v);
    else if (!strcmp(k, "--maxlog")) g_maxlog = atol(v);
    else if (!strcmp(k, "--exact")) g_exact = atoi(v);
    else vh_fatal("unknown option %s", k);
  }
  if (i != argc) vh_fatal("usage: fmtmon_log --seed S --mode grid|random|trunc|alter|crc --first I --count N [--dir D] "
                          "[--exhaustive 0|1] [--hw 0|1] [--alts N] [--maxlog BYTES] [--exact 0|1]");
  (void)hw_given;
  vh_init(NULL);
  vh_set_context("fmtmon_log seed=%llu mode=%s exhaustive=%d hw=%d", (unsigned long long)g_seed, g_mode, g_exhaustive, g_hw);
  if (g_hw) {
    if (ldb_crc32c_init()) CNT(crc_hw_active, 1);
  }
  if (g_maxlog && g_maxlog < 2000) vh_fatal("--maxlog must be 0 (default) or >= 2000");
  if (g_dir) vh_mkdir_p(g_dir);
  init_pools();
  ldb_buffer_init(&G.dst);
  ldb_buffer_init(&g_scratch);
  rc_buf_init(&G.ref);
  crc_vectors();           /* every mode: reference sanity + real CRC on published vectors */

  if (!strcmp(g_mode, "grid")) {
    init_l0();
    if (gcd64(GRID_MULT, (uint64_t)g_nl0 * GRID_NLEN) != 1) vh_fatal("grid multiplier not coprime");
    vh_note("grid: %d initial offsets x lengths 0..%u = %llu cases after a boundary section of %llu; enumeration period %llu",
            g_nl0, GRID_MAXLEN, (unsigned long long)((uint64_t)g_nl0 * GRID_NLEN), (unsigned long long)((uint64_t)NBND * g_nl0),
            (unsigned long long)grid_total());
    for (c = first; c < first + count; c++) { g_case = c; grid_case(c); }
  } else if (!strcmp(g_mode, "random")) {
    for (c = first; c < first + count; c++) { g_case = c; random_case(c); }
  } else if (!strcmp(g_mode, "trunc")) {
    for (c = first; c < first + count; c++) { g_case = c; trunc_case(c); }
  } else if (!strcmp(g_mode, "alter")) {
    for (c = first; c < first + count; c++) { g_case = c; alter_case(c); }
  } else if (!strcmp(g_mode, "crc")) {
    if (posix_memalign((void **)&g_crcbuf, 64, CRC_BIG + 128) != 0) vh_fatal("oom");
    memset(g_crcbuf, 0, CRC_BIG + 128);
    for (c = first; c < first + count; c++) { g_case = c; crc_case(c); }
  } else {
    vh_fatal("unknown mode %s", g_mode);
  }
  flush_counters();
  vh_finish();
  return 0;
}

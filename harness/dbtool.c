/* dbtool - small debugging aid: open a database directory (a copy of it) and print what recovery does. */
#include <unistd.h>
#include "dbh.h"
#include "iomon.h"

static void show(dbh_t *h, const char *tag) {
  uint64_t c[8];
  layout_t l;
  char **names; int n, i;
  ldb_verif_wait_idle(h->db);
  ldb_verif_counters(h->db, c);
  printf("== %s: log_number=%llu prev=%llu next_file=%llu last_seq=%llu manifest=%llu cur_log=%llu bg_error=%llu imm=%llu\n", tag,
         (unsigned long long)c[0], (unsigned long long)c[1], (unsigned long long)c[2], (unsigned long long)c[3],
         (unsigned long long)c[4], (unsigned long long)c[5], (unsigned long long)c[6], (unsigned long long)c[7]);
  if (dbh_layout(h->db, &l)) { printf("%s", l.raw); layout_free(&l); }
  n = dir_list(h->dir, &names);
  printf("dir:");
  for (i = 0; i < n; i++) printf(" %s", names[i]);
  printf("\n");
  dir_free(names, n);
}

int main(int argc, char **argv) {
  cfg_t c;
  dbh_t h;
  int rc, i, opens = 2;
  if (argc < 2) { fprintf(stderr, "usage: dbtool DIR [paranoid] [reuse_logs] [opens]\n"); return 2; }
  cfg_default(&c);
  c.write_buffer_size = 64 << 10;
  c.max_file_size = 1 << 20;
  if (argc > 2) c.paranoid = atoi(argv[2]);
  if (argc > 3) c.reuse_logs = atoi(argv[3]);
  if (argc > 4) opens = atoi(argv[4]);
  setenv("VERIF_LOGTRACE", "1", 1);
  dbh_init(&h, argv[1], &c);
  for (i = 0; i < opens; i++) {
    char tag[32];
    rc = dbh_open(&h, 0);
    printf("open #%d rc=%d (%s)\n", i + 1, rc, ldb_strerror(rc));
    if (rc != LDB_OK) return 1;
    snprintf(tag, sizeof(tag), "after open #%d", i + 1);
    show(&h, tag);
    dbh_close(&h);
  }
  return 0;
}

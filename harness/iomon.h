/* iomon - libc-boundary interposer (E2): trace, faults, gates, delays.
 * Linked with -Wl,--wrap=<sym> for every symbol in IOM_WRAPPED (lib/build.py).
 * Only paths below a registered root are observed; the rest passes through. */
#ifndef IOMON_H
#define IOMON_H

#include <stddef.h>
#include <stdint.h>
#include <sys/types.h>

/* operation classes */
enum {
  IOP_NONE = 0,
  IOP_CREATE,   /* open(...O_CREAT...) */
  IOP_OPEN,     /* open without O_CREAT */
  IOP_WRITE,
  IOP_FSYNC,    /* fsync + fdatasync */
  IOP_RENAME,
  IOP_UNLINK,
  IOP_CLOSE,
  IOP_MKDIR,
  IOP_RMDIR,
  IOP_LINK,
  IOP_READ,     /* read + pread */
  IOP_MMAP,
  IOP_OPENDIR,
  IOP_STAT,     /* stat + fstat + access */
  IOP_LSEEK,
  IOP_MARK,     /* harness marker */
  IOP_MAX
};

/* path classes */
enum {
  PC_NONE = 0,
  PC_LOG,       /* NNNNNN.log */
  PC_TABLE,     /* NNNNNN.ldb / .sst */
  PC_MANIFEST,  /* MANIFEST-NNNNNN */
  PC_CURRENT,
  PC_DBTMP,     /* NNNNNN.dbtmp */
  PC_LOCK,
  PC_INFO,      /* LOG, LOG.old */
  PC_DIR,       /* the database directory itself */
  PC_OTHER,
  PC_MAX
};

/* synthetic bits in iom_event_t.flags of CREATE events */
#define IOM_F_NEWOBJ (1 << 30)   /* the call produced a new file object (new name or O_TRUNC) */
#define IOM_F_EXISTED (1 << 29)  /* the name existed before the call */

typedef struct iom_event_s {
  uint64_t clk;
  int tid;
  int op;
  int pc;
  int obj;       /* file object id (-1 none) */
  int name;      /* name id (path relative to its root), -1 none */
  int name2;     /* second name (rename/link target) */
  int root;      /* root index */
  int flags;     /* open flags */
  int res;       /* result (fd / bytes / 0 / -1) */
  int err;       /* errno when res < 0 */
  int injected;  /* 1 when a fault rule produced the result */
  int fd;
  uint64_t off;  /* write: offset in object; mark: a */
  uint64_t len;  /* write: length; mark: b */
  uint64_t num;  /* file number parsed from the name (0 if none) */
} iom_event_t;

typedef struct iom_obj_s {
  int id;
  int pc;
  int first_name;
  uint64_t num;
  unsigned char *data;   /* contents (only when keep_data) */
  size_t len, cap;
  size_t preexisting;    /* bytes that existed (durably) before tracing started */
  int snapshot;          /* 1 = the file existed before tracing started */
  int open_w;            /* number of descriptors open for writing */
  int creator_fd;        /* fd that created it and is still open (-1 otherwise) */
} iom_obj_t;

extern const char *iom_opname[IOP_MAX];
extern const char *iom_pcname[PC_MAX];

/* roots */
int iom_add_root(const char *dir);          /* returns root index */
void iom_clear_roots(void);
const char *iom_root(int idx);

/* global logical clock shared by the I/O trace and API-level history */
uint64_t iom_clock(void);

/* tracing */
void iom_trace(int on, int keep_data);      /* start/stop recording events */
void iom_trace_reset(void);                 /* drop events, objects, names, counters */
void iom_snapshot_existing(int root);       /* register files already on disk as synced objects */
size_t iom_nevents(void);
const iom_event_t *iom_event(size_t i);
size_t iom_nobjs(void);
const iom_obj_t *iom_obj(int id);
const char *iom_name(int id);
void iom_mark(int kind, uint64_t a, uint64_t b);
void iom_pause(int delta);
pid_t iom_fork(void);                       /* fork() that is safe while other threads use the interposer */                  /* per-thread: >0 = pass-through */

/* occurrence counters (op class x path class), counted whether or not tracing */
uint64_t iom_count(int op, int pc);
void iom_counts_reset(void);
uint64_t iom_total_calls(void);             /* all intercepted calls of non-paused threads since start (never reset) */

/* faults */
enum { IOF_CLEAN = 0, IOF_SHORT = 1 };
int iom_fault_add(int op, int pc, uint64_t nth, int err, int persistent, int mode);
void iom_fault_clear(void);
uint64_t iom_fault_fired(void);

/* delays: at every intercepted call of a non-paused thread */
void iom_delay(uint64_t seed, int permille, int max_us);

/* slow rules: sleep `us` microseconds at every matching call (widens windows) */
void iom_slow(int op, int pc, int us);
void iom_slow_clear(void);

/* gates: park the calling thread at the nth (op,pc) event until released */
int iom_gate_arm(int op, int pc, uint64_t nth);
int iom_gate_reached(int g);                /* non-blocking */
int iom_gate_wait(int g, int timeout_ms);   /* wait until a thread is parked; 1 ok, 0 timeout */
void iom_gate_release(int g);
void iom_gate_clear(void);

/* scheduler integration: called before every intercepted call when set */
extern void (*iom_yield_hook)(int op, int pc);
/* observer: called (under the iomon lock) for every recorded event when set */
extern void (*iom_event_hook)(const iom_event_t *ev);

/* helpers */
int iom_classify(const char *base, uint64_t *num);
int iom_tid(void);

#endif

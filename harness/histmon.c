/* histmon - reference-model monitor over random operation histories (E3).
 *
 * Serves C01 (reads), C06 (snapshots), C07 (iterators), C13 (file lifetime),
 * C14 (layout).  Every violation is tagged with the property whose statement it
 * refutes; the driver of property X counts the violations tagged X.
 *
 * usage: histmon --seed S --first I --count N --focus c01|c06|c07|c13|c14
 *                --dir BASE [--steps-max K] [--only-case I]
 */
#include <errno.h>
#include <malloc.h>
#include <fcntl.h>
#include <pthread.h>
#include <sys/stat.h>
#include <unistd.h>

#include "dbh.h"
#include "iomon.h"
#include "model.h"
#include "vh.h"
#include "layoutmon.h"
#include "refcodec.h"

enum { F_C01, F_C06, F_C07, F_C13, F_C14 };

#define MAX_SNAPS 12
#define MAX_ITERS 6
#define MAX_VAL (1400 << 10)

typedef struct snap_s {
  const ldb_snapshot_t *s;
  uint64_t ver;
} snap_t;

typedef struct iterh_s {
  ldb_iter_t *it;
  uint64_t ver;
  int row;           /* model cursor: -1 = not valid */
  int dir;           /* 0 none, 1 forward, 2 backward */
  int with_snap;
  int positioned;
  uint64_t create_clk;
  uint64_t *pinned;
  size_t npinned;
  int pin_known;
  uint64_t calls;
} iterh_t;

typedef struct hist_s {
  dbh_t h;
  model_t m;
  vrng_t r;
  int focus;
  int caseidx;
  int step, steps;
  int tmpl;
  snap_t snaps[MAX_SNAPS];
  int nsnaps, max_snaps;
  iterh_t iters[MAX_ITERS];
  int niters;
  uint64_t next_vid;
  uint8_t *vbuf;
  /* template keys (rows) the shadow reader prefers */
  int hot[8];
  int nhot;
  /* shadow reader */
  pthread_t shadow;
  int shadow_run;    /* 0 idle, 1 active, 2 exit */
  int shadow_busy;
  uint64_t shadow_reads;
  /* C13 bookkeeping */
  size_t ev_scanned;
  uint8_t *created[3];     /* per kind (log, table, manifest): numbers created in this incarnation */
  size_t created_cap[3];
  uint64_t *listed_clk;    /* table number -> clock of its first appearance in leveldb.sstables */
  size_t listed_cap;
  uint64_t unlinks_seen, unlinks_vs_iters;
  int in_double_reopen;
  int man_obj, man_name;   /* MANIFEST object written most recently (trace order) and its name id */
  uint64_t man_len;        /* bytes of it written so far (trace order) */
  /* key locality: writes concentrate in a sliding window of the universe (narrow files, chained overlaps) */
  int loc_width, loc_center, loc_until;
  vrng_t spell_rng;
  /* stats */
  int flushes, compactions, reopens, fullchecks, multi_level_checks;
} hist_t;

static const char *focus_name[] = {"c01", "c06", "c07", "c13", "c14"};

/* ------------------------------------------------------------------ */
/* helpers */

static ldb_slice_t row_key(const hist_t *H, int row) {
  return ldb_slice(H->m.rows[row].key, H->m.rows[row].klen);
}

/* key bytes for an API call: under the case-insensitive comparator any spelling names the same key */
static ldb_slice_t api_key(hist_t *H, int row, uint32_t *spell_out) {
  static __thread uint8_t kbuf[4][512];
  static __thread int kb_i = 0;
  uint32_t spell = 0;
  uint8_t *b = kbuf[kb_i++ & 3];
  if (H->m.cmp_kind == CMP_NOCASE) spell = (uint32_t)(vr_next(&H->spell_rng) | 1);
  m_spelled_key(&H->m, row, spell, b);
  if (spell_out) *spell_out = spell;
  return ldb_slice(b, H->m.rows[row].klen);
}

/* row for a write/read: uniform, or inside the current locality window */
static int pick_row(hist_t *H) {
  int n = (int)H->m.nrows;
  if (H->loc_width > 0 && vr_chance(&H->r, 850)) {
    int r;
    if (H->step >= H->loc_until) {
      H->loc_center = vr_chance(&H->r, 300) ? (int)vr_uniform(&H->r, (uint32_t)n)
                                            : H->loc_center + (int)vr_uniform(&H->r, (uint32_t)H->loc_width * 2 + 1) - H->loc_width;
      if (H->loc_center < 0) H->loc_center = 0;
      if (H->loc_center >= n) H->loc_center = n - 1;
      H->loc_until = H->step + 10 + (int)vr_uniform(&H->r, 50);
    }
    r = H->loc_center + (int)vr_uniform(&H->r, (uint32_t)H->loc_width + 1) - H->loc_width / 2;
    if (r < 0) r = 0;
    if (r >= n) r = n - 1;
    return r;
  }
  return (int)vr_uniform(&H->r, (uint32_t)n);
}

static void describe(hist_t *H, char *buf, size_t n) {
  layout_t l;
  const char *sig = "?";
  if (H->h.db != NULL && dbh_layout(H->h.db, &l)) {
    sig = layout_sig(&l);
    snprintf(buf, n, "case=%d step=%d cfg=%s layout=%s", H->caseidx, H->step, cfg_id(&H->h.cfg), sig);
    layout_free(&l);
    return;
  }
  snprintf(buf, n, "case=%d step=%d cfg=%s", H->caseidx, H->step, cfg_id(&H->h.cfg));
}

static void viol(hist_t *H, const char *prop, const char *key, const char *fmt, ...)
  __attribute__((format(printf, 4, 5)));

static void viol(hist_t *H, const char *prop, const char *key, const char *fmt, ...) {
  char msg[2048], where[400];
  va_list ap;
  va_start(ap, fmt);
  vsnprintf(msg, sizeof(msg), fmt, ap);
  va_end(ap);
  describe(H, where, sizeof(where));
  vh_violation(prop, key, "%s | %s", msg, where);
}

static void expect_ok(hist_t *H, int rc, const char *what) {
  if (rc != LDB_OK)
    viol(H, "C01", "unexpected-status", "%s returned %d (%s) on a healthy file system", what, rc, ldb_strerror(rc));
}

/* compare a returned value against a model entry; returns 1 if equal */
static int value_matches(const mver_t *e, const void *data, size_t size) {
  if (e == NULL || !e->present) return 0;
  if (size != e->vlen) return 0;
  return vh_check_value(data, size, e->vid);
}

/* ------------------------------------------------------------------ */
/* point lookups */

/* prop: "C01" for latest reads, "C06" for snapshot reads */
static void check_get_at(hist_t *H, int row, const ldb_snapshot_t *snap, uint64_t ver, const char *prop,
                         const char *who) {
  ldb_readopt_t ro = *ldb_readopt_default;
  ldb_slice_t k = api_key(H, row, NULL), v;
  const mver_t *e = m_get(&H->m, row, ver);
  int rc, rc2;
  ro.snapshot = snap;
  ro.verify_checksums = (int)(vr_next(&H->r) & 1);
  ro.fill_cache = (int)((vr_next(&H->r) >> 1) & 1);
  rc = ldb_get(H->h.db, &k, &v, &ro);
  vh_count(snap ? "gets_snapshot" : "gets_latest", 1);
  if (e == NULL || !e->present) {
    if (rc == LDB_OK) {
      viol(H, prop, e == NULL ? "get-phantom" : "get-deleted-visible",
           "%s: key '%s' should be absent (ver %llu) but get returned %zu bytes vid=%llx",
           who, vh_esc(k.data, k.size), (unsigned long long)ver, v.size,
           (unsigned long long)vh_value_vid(v.data, v.size));
    } else if (rc != LDB_NOTFOUND) {
      viol(H, prop, "get-status", "%s: key '%s' get returned status %d", who, vh_esc(k.data, k.size), rc);
    }
  } else {
    if (rc == LDB_NOTFOUND) {
      viol(H, prop, "get-missing", "%s: key '%s' should have vid=%llx len=%u (ver %llu) but get says NOTFOUND",
           who, vh_esc(k.data, k.size), (unsigned long long)e->vid, e->vlen, (unsigned long long)ver);
    } else if (rc != LDB_OK) {
      viol(H, prop, "get-status", "%s: key '%s' get returned status %d", who, vh_esc(k.data, k.size), rc);
    } else if (!value_matches(e, v.data, v.size)) {
      viol(H, prop, "get-stale", "%s: key '%s' expected vid=%llx len=%u (ver %llu), got len=%zu vid=%llx",
           who, vh_esc(k.data, k.size), (unsigned long long)e->vid, e->vlen, (unsigned long long)ver,
           v.size, (unsigned long long)vh_value_vid(v.data, v.size));
    }
  }
  if (rc == LDB_OK) ldb_free(v.data);
  if ((vr_next(&H->r) & 3) == 0) {
    rc2 = ldb_has(H->h.db, &k, &ro);
    if ((rc2 == LDB_OK) != (rc == LDB_OK))
      viol(H, prop, "has-disagrees", "%s: key '%s' get=%d has=%d", who, vh_esc(k.data, k.size), rc, rc2);
  }
}

static void check_get(hist_t *H, int row) {
  check_get_at(H, row, NULL, H->m.version, "C01", "latest");
}

/* ------------------------------------------------------------------ */
/* iterators */

static const char *dirname_[] = {"none", "fwd", "bwd"};

static const char *posclass(const hist_t *H, int row, uint64_t ver) {
  if (row < 0) return "invalid";
  if (m_prev(&H->m, row, ver) < 0) return m_next(&H->m, row, ver) < 0 ? "only" : "first";
  if (m_next(&H->m, row, ver) < 0) return "last";
  return "interior";
}

/* compare iterator state with the model cursor; tags: C07, plus C06 when the
   iterator was created through an explicit snapshot */
static int iter_expect(hist_t *H, ldb_iter_t *it, int with_snap, uint64_t ver, int row, const char *call) {
  int valid = ldb_iter_valid(it);
  int st = ldb_iter_status(it);
  const char *bad = NULL;
  char detail[600] = "";
  if (st != LDB_OK) {
    bad = "iter-status";
    snprintf(detail, sizeof(detail), "status=%d", st);
  } else if (row < 0) {
    if (valid) {
      ldb_slice_t k = ldb_iter_key(it);
      bad = "iter-extra";
      snprintf(detail, sizeof(detail), "expected invalid, positioned at '%s'", vh_esc(k.data, k.size));
    }
  } else if (!valid) {
    bad = "iter-missing";
    snprintf(detail, sizeof(detail), "expected key '%s', iterator invalid",
             vh_esc(H->m.rows[row].key, H->m.rows[row].klen));
  } else {
    ldb_slice_t k = ldb_iter_key(it);
    ldb_slice_t v = ldb_iter_value(it);
    const mver_t *e = m_get(&H->m, row, ver);
    uint8_t ek[512];
    /* the key comes back in the spelling of the newest visible write (case-insensitive comparator) */
    m_spelled_key(&H->m, row, e ? e->spell : 0, ek);
    if (k.size != H->m.rows[row].klen || memcmp(k.data, ek, k.size) != 0) {
      bad = "iter-wrong-key";
      snprintf(detail, sizeof(detail), "expected key '%s', got '%s'",
               vh_esc(ek, H->m.rows[row].klen), vh_esc(k.data, k.size));
    } else if (!value_matches(e, v.data, v.size)) {
      bad = "iter-wrong-value";
      snprintf(detail, sizeof(detail), "key '%s' expected vid=%llx len=%u got len=%zu vid=%llx",
               vh_esc(k.data, k.size), (unsigned long long)(e ? e->vid : 0), e ? e->vlen : 0, v.size,
               (unsigned long long)vh_value_vid(v.data, v.size));
    }
  }
  if (bad != NULL) {
    viol(H, "C07", bad, "after %s (ver %llu%s): %s", call, (unsigned long long)ver,
         with_snap ? ", snapshot" : "", detail);
    if (with_snap) viol(H, "C06", bad, "snapshot iterator after %s (ver %llu): %s", call, (unsigned long long)ver, detail);
    return 0;
  }
  return 1;
}

/* full forward + backward scan with a fresh iterator at (snap, ver) */
static void scan_check(hist_t *H, const ldb_snapshot_t *snap, uint64_t ver) {
  ldb_readopt_t ro = *ldb_iteropt_default;
  ldb_iter_t *it;
  int row, ok = 1;
  size_t n = 0;
  ro.snapshot = snap;
  ro.verify_checksums = (int)(vr_next(&H->r) & 1);
  it = ldb_iterator(H->h.db, &ro);
  ldb_iter_first(it);
  for (row = m_first(&H->m, ver); ok; row = m_next(&H->m, row, ver)) {
    ok = iter_expect(H, it, snap != NULL, ver, row, n == 0 ? "first" : "next(scan)");
    if (row < 0 || !ok) break;
    ldb_iter_next(it);
    n++;
  }
  ok = 1;
  ldb_iter_last(it);
  n = 0;
  for (row = m_last(&H->m, ver); ok; row = m_prev(&H->m, row, ver)) {
    ok = iter_expect(H, it, snap != NULL, ver, row, n == 0 ? "last" : "prev(scan)");
    if (row < 0 || !ok) break;
    ldb_iter_prev(it);
    n++;
  }
  ldb_iter_destroy(it);
  vh_count("scans", 2);
}

static size_t make_target(hist_t *H, uint8_t *buf, const char **kind) {
  uint32_t c = vr_uniform(&H->r, 100);
  const mrow_t *row = &H->m.rows[vr_uniform(&H->r, (uint32_t)H->m.nrows)];
  size_t n;
  if (c < 55) { memcpy(buf, row->key, row->klen); *kind = "universe"; return row->klen; }
  if (c < 70) { /* successor-ish: key + one byte */
    memcpy(buf, row->key, row->klen);
    buf[row->klen] = (uint8_t)(vr_uniform(&H->r, 3) == 0 ? 0 : vr_next(&H->r));
    *kind = "key+byte";
    return row->klen + 1;
  }
  if (c < 80 && row->klen > 0) { /* truncated */
    n = vr_uniform(&H->r, (uint32_t)row->klen);
    memcpy(buf, row->key, n);
    *kind = "truncated";
    return n;
  }
  if (c < 85) { *kind = "empty"; return 0; }
  if (c < 90) { n = 1 + vr_uniform(&H->r, 310); memset(buf, 0xff, n); *kind = "ff-run"; return n; }
  if (c < 95 && row->klen > 0) { /* last byte +/- 1 */
    memcpy(buf, row->key, row->klen);
    buf[row->klen - 1] += (vr_next(&H->r) & 1) ? 1 : -1;
    *kind = "neighbour";
    return row->klen;
  }
  n = vr_uniform(&H->r, 40);
  { size_t i; for (i = 0; i < n; i++) buf[i] = (uint8_t)vr_next(&H->r); }
  *kind = "random";
  return n;
}

static void iter_drive(hist_t *H, iterh_t *I, int ncalls) {
  static const char *names[] = {"first", "last", "seek", "seek_ge", "seek_gt", "seek_le", "seek_lt", "next", "prev"};
  uint8_t tbuf[640];
  int i;
  for (i = 0; i < ncalls; i++) {
    int op, prevdir = I->dir, hit = 0;
    const char *pc = posclass(H, I->positioned ? I->row : -1, I->ver);
    const char *tkind = "-";
    char call[96];
    if (I->positioned && I->row >= 0 && vr_chance(&H->r, 650)) {
      /* bias towards stepping with direction changes */
      op = 7 + (int)vr_uniform(&H->r, 2);
      if (prevdir != 0 && vr_chance(&H->r, 350)) op = (prevdir == 1) ? 8 : 7;
    } else {
      op = (int)vr_uniform(&H->r, 7);
    }
    /* stepping an invalid iterator is outside the API contract: if the real iterator is not where the model is
       (already reported), position it again instead of stepping */
    if (op >= 7 && !ldb_iter_valid(I->it)) op = (int)(vr_next(&H->r) & 1);
    if (op >= 2 && op <= 6) {
      size_t tn = make_target(H, tbuf, &tkind);
      ldb_slice_t t = ldb_slice(tbuf, tn);
      hit = m_find(&H->m, tbuf, tn) >= 0 && m_live(&H->m, m_find(&H->m, tbuf, tn), I->ver);
      switch (op) {
        case 2: ldb_iter_seek(I->it, &t); I->row = m_seek_ge(&H->m, tbuf, tn, I->ver); I->dir = 1; break;
        case 3: ldb_iter_seek_ge(I->it, &t); I->row = m_seek_ge(&H->m, tbuf, tn, I->ver); I->dir = 1; break;
        case 4: ldb_iter_seek_gt(I->it, &t); I->row = m_seek_gt(&H->m, tbuf, tn, I->ver); I->dir = 1; break;
        case 5: ldb_iter_seek_le(I->it, &t); I->row = m_seek_le(&H->m, tbuf, tn, I->ver); I->dir = 2; break;
        default: ldb_iter_seek_lt(I->it, &t); I->row = m_seek_lt(&H->m, tbuf, tn, I->ver); I->dir = 2; break;
      }
      snprintf(call, sizeof(call), "%s('%s')", names[op], vh_esc(tbuf, tn > 24 ? 24 : tn));
    } else {
      switch (op) {
        case 0: ldb_iter_first(I->it); I->row = m_first(&H->m, I->ver); I->dir = 1; break;
        case 1: ldb_iter_last(I->it); I->row = m_last(&H->m, I->ver); I->dir = 2; break;
        case 7: ldb_iter_next(I->it); I->row = m_next(&H->m, I->row, I->ver); I->dir = 1; break;
        default: ldb_iter_prev(I->it); I->row = m_prev(&H->m, I->row, I->ver); I->dir = 2; break;
      }
      snprintf(call, sizeof(call), "%s[from %s,%s]", names[op], pc, dirname_[prevdir]);
    }
    I->positioned = 1;
    I->calls++;
    vh_count("iter_calls", 1);
    vh_distinct("itercall", "%s/%s/%s/%s/%d", names[op], dirname_[prevdir], pc, tkind, hit);
    if (!iter_expect(H, I->it, I->with_snap, I->ver, I->row, call)) {
      /* resynchronise so that one defect is not reported thousands of times */
      ldb_iter_first(I->it);
      I->row = m_first(&H->m, I->ver);
      I->dir = 1;
      break;
    }
    /* point lookup at the iterator's version must agree (when we have a handle for it) */
  }
}

/* ------------------------------------------------------------------ */
/* C13: file lifetime monitors over the I/O trace */

/* file-number history. Numbers are drawn from one counter, but LevelDB (and lcdb)
 * legitimately give a new MANIFEST the number of a log created after the last
 * descriptor write (different name space, nothing is clobbered), and may overwrite an
 * orphan output left by a compaction that close() aborted.  What must never happen:
 *  (a) within one incarnation the same (kind, number) name is created twice;
 *  (b) a creation truncates an existing log or MANIFEST, or a table that the
 *      database had already reported as live. */
static void numset_mark(uint8_t **bits, size_t *cap, uint64_t num) {
  if (num / 8 >= *cap) {
    size_t ncap = *cap ? *cap : 1024;
    while (num / 8 >= ncap) ncap *= 2;
    *bits = realloc(*bits, ncap);
    memset(*bits + *cap, 0, ncap - *cap);
    *cap = ncap;
  }
  (*bits)[num / 8] |= (uint8_t)(1 << (num % 8));
}

static int numset_has(const uint8_t *bits, size_t cap, uint64_t num) {
  if (num / 8 >= cap) return 0;
  return (bits[num / 8] >> (num % 8)) & 1;
}

static void c13_note_layout(hist_t *H, const layout_t *l) {
  size_t i;
  uint64_t now = iom_clock();
  for (i = 0; i < l->n; i++) {
    uint64_t num = l->files[i].number;
    if (num >= H->listed_cap) {
      size_t ncap = H->listed_cap ? H->listed_cap : 1024;
      while (num >= ncap) ncap *= 2;
      H->listed_clk = realloc(H->listed_clk, ncap * sizeof(uint64_t));
      memset(H->listed_clk + H->listed_cap, 0, (ncap - H->listed_cap) * sizeof(uint64_t));
      H->listed_cap = ncap;
    }
    if (H->listed_clk[num] == 0) H->listed_clk[num] = now;
  }
}

static void c13_new_incarnation(hist_t *H) {
  int k;
  for (k = 0; k < 3; k++) if (H->created[k]) memset(H->created[k], 0, H->created_cap[k]);
}

static void c13_scan(hist_t *H) {
  size_t n = iom_nevents(), i;
  int j;
  for (i = H->ev_scanned; i < n; i++) {
    const iom_event_t *e = iom_event(i);
    if (e->op == IOP_CREATE && e->res >= 0 && (e->flags & IOM_F_NEWOBJ) &&
        (e->pc == PC_LOG || e->pc == PC_TABLE || e->pc == PC_MANIFEST) && e->num > 0) {
      int k = e->pc == PC_LOG ? 0 : e->pc == PC_TABLE ? 1 : 2;
      if (numset_has(H->created[k], H->created_cap[k], e->num))
        viol(H, "C13", "file-number-reused", "%s #%llu created twice within one incarnation",
             iom_pcname[e->pc], (unsigned long long)e->num);
      numset_mark(&H->created[k], &H->created_cap[k], e->num);
      if (e->flags & IOM_F_EXISTED) {
        if (e->pc != PC_TABLE)
          viol(H, "C13", "live-file-overwritten", "creation of %s #%llu truncated an existing file (crash-free history)",
               iom_pcname[e->pc], (unsigned long long)e->num);
        else if (e->num < H->listed_cap && H->listed_clk[e->num] != 0 && H->listed_clk[e->num] < e->clk)
          viol(H, "C13", "live-file-overwritten", "creation of table #%llu truncated a file the database had reported as live",
               (unsigned long long)e->num);
        else
          vh_count("c13_orphan_overwrites", 1);
      }
      vh_count("c13_creates", 1);
    } else if (e->op == IOP_WRITE && e->res > 0 && e->pc == PC_MANIFEST) {
      if (e->obj != H->man_obj) { H->man_obj = e->obj; H->man_name = e->name; H->man_len = 0; }
      if (e->off + (uint64_t)e->res > H->man_len) H->man_len = e->off + (uint64_t)e->res;
    } else if (e->op == IOP_UNLINK && e->res == 0 && e->pc == PC_LOG && e->num > 0) {
      /* a write-ahead log may go only once the MANIFEST records a log number above it (its contents are in
         tables then).  The MANIFEST is append-only: the bytes written to it before this unlink (trace order)
         are a prefix of the file on disk now; replay that prefix with the independent decoder. */
      char path[800];
      uint8_t *buf = NULL;
      size_t got = 0;
      int fd = -1;
      vh_count("c13_log_unlinks", 1);
      if (H->man_obj >= 0 && H->man_len > 0 && H->man_name >= 0) {
        snprintf(path, sizeof(path), "%s/%s", H->h.dir, iom_name(H->man_name));
        iom_pause(1);
        fd = open(path, O_RDONLY);
        if (fd >= 0) {
          buf = malloc((size_t)H->man_len + 1);
          while (got < H->man_len) {
            ssize_t r = read(fd, buf + got, (size_t)H->man_len - got);
            if (r <= 0) break;
            got += (size_t)r;
          }
          close(fd);
        }
        iom_pause(-1);
      }
      if (buf != NULL && got == H->man_len) {
        rc_manifest_t m;
        if (rc_manifest_replay(buf, got, &m) == 0 && m.has_log_number) {
          vh_count("c13_log_unlinks_checked_against_manifest", 1);
          if (e->num >= m.log_number || e->num == m.prev_log_number)
            viol(H, "C13", "log-unlinked-before-superseded",
                 "log #%llu unlinked while the MANIFEST (%s, first %llu bytes = everything written before the unlink) still "
                 "records log number %llu (prev %llu): the data of that log is not in any table yet",
                 (unsigned long long)e->num, iom_name(H->man_name), (unsigned long long)H->man_len,
                 (unsigned long long)m.log_number, (unsigned long long)m.prev_log_number);
        } else {
          vh_count("c13_log_unlinks_manifest_prefix_undecodable", 1);
        }
        rc_manifest_free(&m);
      } else {
        vh_count("c13_log_unlinks_unchecked", 1);
      }
      free(buf);
    } else if (e->op == IOP_UNLINK && e->res == 0 && e->pc == PC_TABLE) {
      H->unlinks_seen++;
      vh_count("c13_table_unlinks", 1);
      if (e->fd >= 0)
        viol(H, "C13", "unlink-open-output", "table #%llu unlinked while the descriptor that created it is still open",
             (unsigned long long)e->num);
      for (j = 0; j < H->niters; j++) {
        iterh_t *I = &H->iters[j];
        size_t k;
        if (!I->pin_known || e->clk < I->create_clk) continue;
        H->unlinks_vs_iters++;
        vh_count("c13_unlinks_vs_live_iter", 1);
        for (k = 0; k < I->npinned; k++) {
          if (I->pinned[k] == e->num)
            viol(H, "C13", "unlink-pinned", "table #%llu unlinked while pinned by a live iterator (created at clk %llu)",
                 (unsigned long long)e->num, (unsigned long long)I->create_clk);
        }
      }
    }
  }
  H->ev_scanned = n;
}

/* exact directory listing at a quiescent point (no live iterators, GC ran) */
static void c13_dir_check(hist_t *H, const char *when) {
  uint64_t ctr[8];
  layout_t l;
  char **names;
  int n, i;
  char cur[600], want_manifest[64], want_log[64], buf[128];
  int fd, got;
  ldb_verif_counters(H->h.db, ctr);
  if (!dbh_layout(H->h.db, &l)) return;
  c13_note_layout(H, &l);
  iom_pause(1);
  n = dir_list(H->h.dir, &names);
  snprintf(cur, sizeof(cur), "%s/CURRENT", H->h.dir);
  fd = open(cur, O_RDONLY);
  got = fd >= 0 ? (int)read(fd, buf, sizeof(buf) - 1) : -1;
  if (fd >= 0) close(fd);
  iom_pause(-1);
  snprintf(want_manifest, sizeof(want_manifest), "MANIFEST-%06llu", (unsigned long long)ctr[4]);
  snprintf(want_log, sizeof(want_log), "%06llu.log", (unsigned long long)ctr[5]);
  if (got <= 0) {
    viol(H, "C13", "current-unreadable", "%s: CURRENT unreadable", when);
  } else {
    buf[got] = 0;
    if (strncmp(buf, want_manifest, strlen(want_manifest)) != 0 || buf[strlen(want_manifest)] != '\n')
      viol(H, "C13", "current-mismatch", "%s: CURRENT holds '%s', live manifest is %s", when, vh_esc(buf, got), want_manifest);
  }
  {
    int seen_manifest = 0, seen_log = 0, seen_current = 0;
    size_t tables_seen = 0;
    for (i = 0; i < n; i++) {
      uint64_t num;
      int pc = iom_classify(names[i], &num);
      int ok = 0;
      if (pc == PC_CURRENT) { ok = 1; seen_current = 1; }
      else if (pc == PC_LOCK) ok = 1;
      else if (pc == PC_MANIFEST) { ok = strcmp(names[i], want_manifest) == 0; seen_manifest |= ok; }
      else if (pc == PC_LOG) { ok = strcmp(names[i], want_log) == 0; seen_log |= ok; }
      else if (pc == PC_TABLE) { ok = layout_has(&l, num); tables_seen += ok; }
      else ok = 0;
      if (!ok)
        viol(H, "C13", pc == PC_TABLE ? "leaked-table" : pc == PC_LOG ? "leaked-log" : pc == PC_MANIFEST ?
             "leaked-manifest" : pc == PC_DBTMP ? "leaked-dbtmp" : "unexpected-file",
             "%s: '%s' is in the directory but not live (live: %s, %s, %zu tables)", when, names[i],
             want_manifest, want_log, l.n);
    }
    if (!seen_current || !seen_manifest || !seen_log)
      viol(H, "C13", "live-file-missing", "%s: CURRENT=%d manifest(%s)=%d log(%s)=%d", when, seen_current,
           want_manifest, seen_manifest, want_log, seen_log);
    if (tables_seen != l.n)
      viol(H, "C13", "live-table-missing", "%s: %zu live tables, %zu present", when, l.n, tables_seen);
  }
  vh_count("c13_dir_checks", 1);
  if (H->unlinks_seen > 0) vh_count("c13_dir_checks_after_unlink", 1);
  vh_distinct("c13_dirstate", "%s|%d", layout_sig(&l), H->unlinks_seen > 0);
  H->unlinks_seen = 0;
  dir_free(names, n);
  layout_free(&l);
}

/* ------------------------------------------------------------------ */
/* snapshots & iterator handles */

static void snap_take(hist_t *H) {
  snap_t *s;
  if (H->nsnaps >= H->max_snaps) return;
  s = &H->snaps[H->nsnaps++];
  s->s = ldb_snapshot(H->h.db);
  s->ver = H->m.version;
  vh_count("snapshots_taken", 1);
}

static void snap_release_at(hist_t *H, int i) {
  /* last look through the snapshot before it goes */
  int row = (int)vr_uniform(&H->r, (uint32_t)H->m.nrows);
  check_get_at(H, row, H->snaps[i].s, H->snaps[i].ver, "C06", "pre-release");
  ldb_release(H->h.db, H->snaps[i].s);
  memmove(&H->snaps[i], &H->snaps[i + 1], (H->nsnaps - i - 1) * sizeof(snap_t));
  H->nsnaps--;
}

static void snap_release(hist_t *H) {
  int i;
  if (H->nsnaps == 0) return;
  switch (vr_uniform(&H->r, 3)) {
    case 0: i = 0; break;                       /* oldest */
    case 1: i = H->nsnaps - 1; break;           /* newest */
    default: i = (int)vr_uniform(&H->r, (uint32_t)H->nsnaps); break;
  }
  snap_release_at(H, i);
}

static void iter_open(hist_t *H) {
  iterh_t *I;
  ldb_readopt_t ro = *ldb_iteropt_default;
  layout_t before, after;
  int have_b, have_a;
  if (H->niters >= MAX_ITERS) return;
  I = &H->iters[H->niters];
  memset(I, 0, sizeof(*I));
  if (H->nsnaps > 0 && vr_chance(&H->r, 400)) {
    int s = (int)vr_uniform(&H->r, (uint32_t)H->nsnaps);
    ro.snapshot = H->snaps[s].s;
    I->ver = H->snaps[s].ver;
    I->with_snap = 1;
  } else {
    I->ver = H->m.version;
  }
  ro.verify_checksums = (int)(vr_next(&H->r) & 1);
  ro.fill_cache = (int)((vr_next(&H->r) >> 1) & 1);
  have_b = dbh_layout(H->h.db, &before);
  I->it = ldb_iterator(H->h.db, &ro);
  have_a = dbh_layout(H->h.db, &after);
  I->create_clk = iom_clock();
  I->row = -1;
  if (have_b && have_a && strcmp(before.raw, after.raw) == 0) {
    size_t k;
    I->pin_known = 1;
    I->npinned = after.n;
    I->pinned = malloc((after.n + 1) * sizeof(uint64_t));
    for (k = 0; k < after.n; k++) I->pinned[k] = after.files[k].number;
  } else {
    vh_count("c13_pin_unknown", 1);
  }
  if (have_a) c13_note_layout(H, &after);
  if (have_b) layout_free(&before);
  if (have_a) layout_free(&after);
  H->niters++;
  vh_count("iters_opened", 1);
}

static void iter_close_at(hist_t *H, int i) {
  c13_scan(H);
  ldb_iter_destroy(H->iters[i].it);
  free(H->iters[i].pinned);
  memmove(&H->iters[i], &H->iters[i + 1], (H->niters - i - 1) * sizeof(iterh_t));
  H->niters--;
}

/* ------------------------------------------------------------------ */
/* shadow reader: runs while the writer thread is inside a structural op */

static void *shadow_main(void *arg) {
  hist_t *H = arg;
  vrng_t r;
  vr_seed(&r, 0xabcdef ^ (uint64_t)H->caseidx);
  for (;;) {
    int run = __atomic_load_n(&H->shadow_run, __ATOMIC_SEQ_CST);
    if (run == 2) break;
    if (run == 0) { usleep(400); continue; }
    __atomic_store_n(&H->shadow_busy, 1, __ATOMIC_SEQ_CST);
    if (__atomic_load_n(&H->shadow_run, __ATOMIC_SEQ_CST) == 1) {
      int row = (H->nhot > 0 && vr_chance(&r, 600)) ? H->hot[vr_uniform(&r, (uint32_t)H->nhot)]
                                                    : (int)vr_uniform(&r, (uint32_t)H->m.nrows);
      uint64_t ver = H->m.version;
      ldb_slice_t k = row_key(H, row), v;
      const mver_t *e = m_get(&H->m, row, ver);
      int rc = ldb_get(H->h.db, &k, &v, NULL);
      int want_ok = (e != NULL && e->present);
      H->shadow_reads++;
      if ((rc == LDB_OK) != want_ok || (rc != LDB_OK && rc != LDB_NOTFOUND) ||
          (rc == LDB_OK && !value_matches(e, v.data, v.size))) {
        viol(H, "C01", "shadow-get-wrong",
             "read concurrent with a flush/compaction: key '%s' expected %s vid=%llx len=%u, got rc=%d len=%zu vid=%llx",
             vh_esc(k.data, k.size), want_ok ? "value" : "absent", (unsigned long long)(e ? e->vid : 0),
             e ? e->vlen : 0, rc, rc == LDB_OK ? v.size : 0,
             (unsigned long long)(rc == LDB_OK ? vh_value_vid(v.data, v.size) : 0));
      }
      if (rc == LDB_OK) ldb_free(v.data);
      if (vr_chance(&r, 100)) {
        /* short scan from that key */
        ldb_iter_t *it = ldb_iterator(H->h.db, NULL);
        int mrow = m_seek_ge(&H->m, k.data, k.size, ver), n;
        ldb_iter_seek(it, &k);
        for (n = 0; n < 4; n++) {
          if (!iter_expect(H, it, 0, ver, mrow, "shadow-scan")) break;
          if (mrow < 0) break;
          ldb_iter_next(it);
          mrow = m_next(&H->m, mrow, ver);
        }
        ldb_iter_destroy(it);
      }
    }
    __atomic_store_n(&H->shadow_busy, 0, __ATOMIC_SEQ_CST);
  }
  return NULL;
}

static void shadow_start(hist_t *H) { __atomic_store_n(&H->shadow_run, 1, __ATOMIC_SEQ_CST); }

static void shadow_stop(hist_t *H) {
  __atomic_store_n(&H->shadow_run, 0, __ATOMIC_SEQ_CST);
  while (__atomic_load_n(&H->shadow_busy, __ATOMIC_SEQ_CST)) usleep(50);
}

/* ------------------------------------------------------------------ */
/* full cross-check */

static void full_check(hist_t *H, const char *why) {
  size_t i;
  int j;
  layout_t l;
  int levels_used = 0;
  for (i = 0; i < H->m.nrows; i++) check_get(H, (int)i);
  scan_check(H, NULL, H->m.version);
  for (j = 0; j < H->nsnaps; j++) {
    /* C06: every live snapshot, every key, both scan directions */
    if (H->focus == F_C06 || j == 0 || j == H->nsnaps - 1 || vr_chance(&H->r, 300)) {
      for (i = 0; i < H->m.nrows; i++)
        check_get_at(H, (int)i, H->snaps[j].s, H->snaps[j].ver, "C06", why);
      scan_check(H, H->snaps[j].s, H->snaps[j].ver);
      vh_count("snapshot_revalidations", 1);
      vh_distinct("c06_state", "n%d/idx%d/%s", H->nsnaps, j == 0 ? 0 : j == H->nsnaps - 1 ? 2 : 1, why);
    }
  }
  for (j = 0; j < H->niters; j++) {
    iterh_t *I = &H->iters[j];
    if (I->positioned) {
      char call[64];
      snprintf(call, sizeof(call), "revisit(%s)", why);
      iter_expect(H, I->it, I->with_snap, I->ver, I->row, call);
    }
    iter_drive(H, I, 4);
  }
  H->fullchecks++;
  vh_count("full_checks", 1);
  if (dbh_layout(H->h.db, &l)) {
    for (j = 0; j < 7; j++) levels_used += l.per_level[j] > 0;
    if (levels_used >= 2) { H->multi_level_checks++; vh_count("full_checks_multilevel", 1); }
    vh_distinct("c01_cfg_layout", "%s|%s", cfg_id(&H->h.cfg), layout_sig(&l));
    vh_distinct("layout", "%s", layout_sig(&l));
    c13_note_layout(H, &l);
    layout_free(&l);
  }
  c13_scan(H);
}

/* checks that need an idle background thread */
static void quiescent_checks(hist_t *H, const char *why, int force_gc) {
  if (H->niters == 0 && force_gc) {
    int rc = ldb_test_compact_memtable(H->h.db);
    expect_ok(H, rc, "flush(gc)");
    H->flushes++;
  }
  ldb_verif_wait_idle(H->h.db);
  c13_scan(H);
  if (H->niters == 0 && force_gc) c13_dir_check(H, why);
  layoutmon_check(H->h.db, &H->h, why, 0);
}

/* ------------------------------------------------------------------ */
/* mutations */

static void do_put(hist_t *H, int row, uint32_t vlen, int sync) {
  ldb_writeopt_t wo = *ldb_writeopt_default;
  uint32_t spell;
  ldb_slice_t k = api_key(H, row, &spell), v;
  uint64_t vid = (H->next_vid += 2) | (vr_next(&H->r) & 1);
  int rc;
  vh_fill_value(H->vbuf, vlen, vid);
  v = ldb_slice(H->vbuf, vlen);
  wo.sync = sync;
  rc = ldb_put(H->h.db, &k, &v, &wo);
  expect_ok(H, rc, "put");
  if (rc == LDB_OK) m_put_spell(&H->m, row, vid, vlen, spell);
  vh_count("puts", 1);
}

static void do_del(hist_t *H, int row, int sync) {
  ldb_writeopt_t wo = *ldb_writeopt_default;
  ldb_slice_t k = api_key(H, row, NULL);
  int rc;
  wo.sync = sync;
  rc = ldb_del(H->h.db, &k, &wo);
  expect_ok(H, rc, "del");
  if (rc == LDB_OK) m_del(&H->m, row);
  vh_count("dels", 1);
}

static void do_batch(hist_t *H) {
  ldb_batch_t *b = ldb_batch_create();
  ldb_writeopt_t wo = *ldb_writeopt_default;
  int n = 1 + (int)vr_skewed(&H->r, 7), i, rc;
  struct { int row, del; uint64_t vid; uint32_t vlen, spell; } *ups = malloc(sizeof(*ups) * (size_t)(n + 1));
  int hotrow = (int)vr_uniform(&H->r, (uint32_t)H->m.nrows);
  if (n > 200) n = 200;
  for (i = 0; i < n; i++) {
    int row = vr_chance(&H->r, 150) ? hotrow : pick_row(H);
    ldb_slice_t k = api_key(H, row, &ups[i].spell);
    ups[i].row = row;
    if (vr_chance(&H->r, 200)) {
      ups[i].del = 1;
      ldb_batch_del(b, &k);
    } else {
      uint32_t vlen = value_len_random(&H->r, 0);
      ldb_slice_t v;
      if (vlen > 20000) vlen = 20000;
      ups[i].del = 0;
      ups[i].vid = (H->next_vid += 2) | (vr_next(&H->r) & 1);
      ups[i].vlen = vlen;
      vh_fill_value(H->vbuf, vlen, ups[i].vid);
      v = ldb_slice(H->vbuf, vlen);
      ldb_batch_put(b, &k, &v);
    }
  }
  wo.sync = vr_chance(&H->r, 100);
  rc = ldb_write(H->h.db, b, &wo);
  expect_ok(H, rc, "write(batch)");
  if (rc == LDB_OK) {
    for (i = 0; i < n; i++) {
      if (ups[i].del) m_del(&H->m, ups[i].row);
      else m_put_spell(&H->m, ups[i].row, ups[i].vid, ups[i].vlen, ups[i].spell);
    }
    for (i = 0; i < n && i < 16; i++) check_get(H, ups[i].row);
  }
  ldb_batch_destroy(b);
  free(ups);
  vh_count("batches", 1);
}

/* A memtable flush that runs in the MIDDLE of a compaction: the compaction thread is parked (iomon gate) right
   where it creates its first output file; the foreground fills the write buffer so that an immutable memtable
   is pending; when the gate opens the compaction loop flushes it and collects garbage while its own outputs
   are still unfinished.  Also: iterators and snapshots created while the immutable memtable exists. */
typedef struct midc_s { ldb_t *db; int level; } midc_t;

static void *midc_thread(void *p) {
  midc_t *a = p;
  ldb_test_compact_range(a->db, a->level, NULL, NULL);
  return NULL;
}

static void flush_mid_compaction(hist_t *H) {
  layout_t l;
  midc_t arg;
  pthread_t th;
  uint64_t ctr[8];
  int level = -1, g, i, reached, switched = 0;
  if (H->h.cfg.write_buffer_size > (256 << 10)) return;
  ldb_verif_wait_idle(H->h.db);
  ldb_verif_counters(H->h.db, ctr);
  if (ctr[7] != 0 || !dbh_layout(H->h.db, &l)) return;
  for (i = 0; i < 6; i++) if (l.per_level[i] > 0) { level = i; break; }
  layout_free(&l);
  if (level < 0) return;
  iom_gate_clear();
  g = iom_gate_arm(IOP_CREATE, PC_TABLE, 1);
  arg.db = H->h.db; arg.level = level;
  if (pthread_create(&th, NULL, midc_thread, &arg) != 0) vh_fatal("pthread_create");
  reached = iom_gate_wait(g, 1500);
  if (reached) {
    /* compaction parked inside its first output: fill the memtable until it is switched */
    for (i = 0; i < 600 && !switched; i++) {
      do_put(H, pick_row(H), 1500 + vr_uniform(&H->r, 1500), 0);
      ldb_verif_counters(H->h.db, ctr);
      switched = ctr[7] != 0;
    }
    if (switched) {
      vh_count("midc_imm_pending_while_compaction_parked", 1);
      /* views created while the immutable memtable is pending */
      if (H->niters < MAX_ITERS) { iter_open(H); iter_drive(H, &H->iters[H->niters - 1], 6); }
      snap_take(H);
      for (i = 0; i < 8; i++) check_get(H, pick_row(H));
    }
  } else {
    vh_count("midc_gate_not_reached", 1);
  }
  shadow_start(H);
  iom_gate_release(g);
  pthread_join(th, NULL);
  shadow_stop(H);
  iom_gate_clear();
  H->compactions++;
  if (reached && switched) vh_count("midc_flush_during_compaction", 1);
  quiescent_checks(H, "flush-mid-compaction", 0);
  full_check(H, "flush-mid-compaction");
}

static void structural(hist_t *H, int kind) {
  /* kind: 0 flush, 1 compact_range(level), 2 ldb_compact(range), 3 ldb_compact(all) */
  char why[64];
  int rc;
  shadow_start(H);
  switch (kind) {
    case 0:
      rc = ldb_test_compact_memtable(H->h.db);
      expect_ok(H, rc, "flush");
      H->flushes++;
      snprintf(why, sizeof(why), "flush");
      break;
    case 1: {
      int level = (int)vr_uniform(&H->r, 6);
      int a = (int)vr_uniform(&H->r, (uint32_t)H->m.nrows), b = (int)vr_uniform(&H->r, (uint32_t)H->m.nrows);
      ldb_slice_t ka, kb;
      if (a > b) { int t = a; a = b; b = t; }
      ka = row_key(H, a); kb = row_key(H, b);
      ldb_test_compact_range(H->h.db, level, vr_chance(&H->r, 400) ? NULL : &ka, vr_chance(&H->r, 400) ? NULL : &kb);
      H->compactions++;
      snprintf(why, sizeof(why), "compact_range(L%d)", level);
      break;
    }
    case 2: {
      int a = (int)vr_uniform(&H->r, (uint32_t)H->m.nrows), b = (int)vr_uniform(&H->r, (uint32_t)H->m.nrows);
      ldb_slice_t ka, kb;
      if (a > b) { int t = a; a = b; b = t; }
      ka = row_key(H, a); kb = row_key(H, b);
      ldb_compact(H->h.db, &ka, &kb);
      H->compactions++;
      snprintf(why, sizeof(why), "compact(range)");
      break;
    }
    case 4: {
      /* sink: manual compaction of levels 0..5 in turn, data ends up in the bottom level */
      int level;
      for (level = 0; level < 6; level++) ldb_test_compact_range(H->h.db, level, NULL, NULL);
      H->compactions += 6;
      vh_count("sink_to_bottom_level", 1);
      snprintf(why, sizeof(why), "sink(L0..L5)");
      break;
    }
    default:
      ldb_compact(H->h.db, NULL, NULL);
      H->compactions++;
      snprintf(why, sizeof(why), "compact(all)");
      break;
  }
  shadow_stop(H);
  if (vr_chance(&H->r, 700)) quiescent_checks(H, why, vr_chance(&H->r, 400));
  full_check(H, why);
}

static void release_everything(hist_t *H) {
  while (H->niters > 0) iter_close_at(H, H->niters - 1);
  while (H->nsnaps > 0) snap_release_at(H, H->nsnaps - 1);
}

static void do_reopen(hist_t *H, int mutate_cfg) {
  int rc;
  uint64_t log_c0 = 0, log_m0 = 0;   /* engine compactions / trivial moves logged before this open */
  char *before = NULL;
  layout_t l;
  release_everything(H);
  /* C14(e): with an empty write buffer the layout must survive close/open */
  rc = ldb_test_compact_memtable(H->h.db);
  if (vr_chance(&H->r, 500) && rc == LDB_OK) {
    ldb_verif_wait_idle(H->h.db);
    layoutmon_check(H->h.db, &H->h, "pre-reopen", 0);
    if (dbh_layout(H->h.db, &l)) { before = strdup(l.raw); layout_free(&l); }
  }
  dbh_close(&H->h);
  c13_scan(H);
  c13_new_incarnation(H);
  if (mutate_cfg) {
    cfg_t c = H->h.cfg;
    cfg_mutate_reopen(&c, &H->r);
    if (H->tmpl == 1) c.max_file_size = 1 << 20;
    if (c.cmp_kind == CMP_NOCASE) c.filter_bits = 0;
    dbh_set_cfg(&H->h, &c);
  }
  log_c0 = H->h.log.compacting; log_m0 = H->h.log.moved;
  rc = dbh_open(&H->h, 0);
  if (rc != LDB_OK) {
    viol(H, "C01", "reopen-failed", "ldb_open of a cleanly closed database returned %d (%s)", rc, ldb_strerror(rc));
    vh_fatal("cannot continue case %d: reopen failed rc=%d", H->caseidx, rc);
  }
  H->reopens++;
  m_trim(&H->m, H->m.version);
  if (before != NULL) {
    /* the open itself may start a compaction; compare before any of it is applied
       only when the engine had nothing to do - otherwise skip (not a quiescent reproduction) */
    if (dbh_layout(H->h.db, &l)) {
      uint64_t ctr[8];
      ldb_verif_counters(H->h.db, ctr);
      if (strcmp(before, l.raw) != 0) {
        /* a background compaction may already have been installed */
        if (H->h.log.compacting == log_c0 && H->h.log.moved == log_m0)
          viol(H, "C14", "layout-changed-by-reopen", "layout before close:\n%s\nafter open:\n%s", before, l.raw);
        else
          vh_count("c14_reopen_compare_skipped", 1);
      } else {
        vh_count("c14_reopen_layout_equal", 1);
      }
      layout_free(&l);
    }
    free(before);
  }
  ldb_verif_wait_idle(H->h.db);
  c13_scan(H);
  c13_dir_check(H, "after-reopen");
  layoutmon_check(H->h.db, &H->h, "after-reopen", 1);
  full_check(H, "reopen");
  /* now and then a second cycle right away: the first open serves from what it replayed, only the second one
     reads what the first one wrote (the fresh MANIFEST snapshot) */
  if (!H->in_double_reopen && vr_chance(&H->r, 300)) {
    H->in_double_reopen = 1;
    vh_count("double_reopens", 1);
    do_reopen(H, mutate_cfg);
    H->in_double_reopen = 0;
  }
}

/* ------------------------------------------------------------------ */
/* scenario templates */

static int pick_row_len(hist_t *H, size_t minlen) {
  int tries;
  for (tries = 0; tries < 200; tries++) {
    int row = (int)vr_uniform(&H->r, (uint32_t)H->m.nrows);
    if (H->m.rows[row].klen >= minlen) return row;
  }
  return (int)vr_uniform(&H->r, (uint32_t)H->m.nrows);
}

/* T1: one user key straddling two files of a level */
static void template_straddle(hist_t *H) {
  int K = pick_row_len(H, 1), i, nver = 6 + (int)vr_uniform(&H->r, 3);
  int saved_max = H->max_snaps;
  H->hot[H->nhot++] = K;
  H->max_snaps = MAX_SNAPS;
  iom_slow(IOP_CREATE, PC_TABLE, 1500);
  /* direct neighbours, so that the files around the split also hold other keys */
  if (K > 0) do_put(H, K - 1, 100 + vr_uniform(&H->r, 2000), 0);
  if (K + 1 < (int)H->m.nrows) do_put(H, K + 1, 100 + vr_uniform(&H->r, 2000), 0);
  for (i = 0; i < nver && H->nsnaps < MAX_SNAPS; i++) {
    do_put(H, K, (300 << 10) + vr_uniform(&H->r, 4096), 0);
    H->m.rows[K].v[H->m.rows[K].nv - 1].vid |= 0; /* keep */
    snap_take(H);
    expect_ok(H, ldb_test_compact_memtable(H->h.db), "flush(T1)");
    H->flushes++;
  }
  /* a few neighbours so that boundary files have company */
  for (i = 0; i < 6; i++) do_put(H, (int)vr_uniform(&H->r, (uint32_t)H->m.nrows), 100 + vr_uniform(&H->r, 3000), 0);
  shadow_start(H);
  ldb_test_compact_range(H->h.db, 0, NULL, NULL);
  ldb_test_compact_range(H->h.db, 1, NULL, NULL);
  shadow_stop(H);
  H->compactions += 2;
  ldb_verif_wait_idle(H->h.db);
  layoutmon_check(H->h.db, &H->h, "T1-built", 0);
  full_check(H, "T1-built");
  /* while the versions are still pinned: manual compactions of the level that holds the split key over a range
     that ends just before it / starts just after it (the file that ends with the key's newer versions is selected
     through its other keys; the files holding the older versions must follow it down) */
  if (K > 0 && vr_chance(&H->r, 700)) {
    ldb_slice_t e = row_key(H, K - 1);
    ldb_test_compact_range(H->h.db, 2, NULL, &e);
    H->compactions++;
    ldb_verif_wait_idle(H->h.db);
    layoutmon_check(H->h.db, &H->h, "T1-ranged-below", 0);
    full_check(H, "T1-ranged-below");
    vh_count("template_T1_ranged_below", 1);
  }
  if (K + 1 < (int)H->m.nrows && vr_chance(&H->r, 400)) {
    ldb_slice_t b = row_key(H, K + 1);
    ldb_test_compact_range(H->h.db, 2 + (int)vr_uniform(&H->r, 2), &b, NULL);
    H->compactions++;
    ldb_verif_wait_idle(H->h.db);
    layoutmon_check(H->h.db, &H->h, "T1-ranged-above", 0);
    full_check(H, "T1-ranged-above");
  }
  /* release the pins, newest first or oldest first */
  while (H->nsnaps > 0) snap_release_at(H, vr_uniform(&H->r, 2) ? 0 : H->nsnaps - 1);
  shadow_start(H);
  {
    int level;
    for (level = 2; level < 5; level++) {
      ldb_test_compact_range(H->h.db, level, NULL, NULL);
      H->compactions++;
    }
  }
  shadow_stop(H);
  iom_slow_clear();
  ldb_verif_wait_idle(H->h.db);
  layoutmon_check(H->h.db, &H->h, "T1-compacted", 0);
  full_check(H, "T1-compacted");
  H->max_snaps = saved_max;
  vh_count("template_T1", 1);
}

/* T2: tombstone in a shallow level over a value in a deeper level */
static void template_tombstone(hist_t *H) {
  int K = pick_row_len(H, 0), i;
  ldb_slice_t k = row_key(H, K);
  H->hot[H->nhot++] = K;
  do_put(H, K, 50 + vr_uniform(&H->r, 2000), 0);
  for (i = 0; i < 5; i++) do_put(H, (int)vr_uniform(&H->r, (uint32_t)H->m.nrows), 100 + vr_uniform(&H->r, 3000), 0);
  expect_ok(H, ldb_test_compact_memtable(H->h.db), "flush(T2)");
  ldb_test_compact_range(H->h.db, 0, NULL, NULL);
  ldb_test_compact_range(H->h.db, 1, NULL, NULL);
  if (vr_chance(&H->r, 500)) ldb_test_compact_range(H->h.db, 2, NULL, NULL);
  do_del(H, K, 0);
  if (vr_chance(&H->r, 500)) snap_take(H);
  expect_ok(H, ldb_test_compact_memtable(H->h.db), "flush(T2b)");
  check_get(H, K);
  shadow_start(H);
  ldb_test_compact_range(H->h.db, 0, &k, &k);
  check_get(H, K);
  ldb_test_compact_range(H->h.db, 1, &k, &k);
  shadow_stop(H);
  check_get(H, K);
  H->flushes += 2; H->compactions += 4;
  ldb_verif_wait_idle(H->h.db);
  layoutmon_check(H->h.db, &H->h, "T2", 0);
  full_check(H, "T2");
  vh_count("template_T2", 1);
}

/* T3: memtable output must not sink below a level it overlaps */
static void template_overlap(hist_t *H) {
  int n = (int)H->m.nrows, i;
  int a0 = 0, a1 = n / 3, b0 = n / 3 + 1, b1 = 2 * n / 3;
  int K;
  if (n < 12) return;
  for (i = a0; i < a1; i += 1 + (int)vr_uniform(&H->r, 3)) do_put(H, i, 200 + vr_uniform(&H->r, 2000), 0);
  expect_ok(H, ldb_test_compact_memtable(H->h.db), "flush(T3a)");
  for (i = b0; i < b1; i += 1 + (int)vr_uniform(&H->r, 3)) do_put(H, i, 200 + vr_uniform(&H->r, 2000), 0);
  expect_ok(H, ldb_test_compact_memtable(H->h.db), "flush(T3b)");
  /* overwrite inside the first range, then a disjoint key far away */
  K = a0 + (int)vr_uniform(&H->r, (uint32_t)(a1 - a0));
  H->hot[H->nhot++] = K;
  do_put(H, K, 300, 0);
  do_put(H, K, 301 + vr_uniform(&H->r, 100), 0);
  if (vr_chance(&H->r, 500)) do_del(H, a0 + (int)vr_uniform(&H->r, (uint32_t)(a1 - a0)), 0);
  shadow_start(H);
  expect_ok(H, ldb_test_compact_memtable(H->h.db), "flush(T3c)");
  shadow_stop(H);
  H->flushes += 3;
  ldb_verif_wait_idle(H->h.db);
  layoutmon_check(H->h.db, &H->h, "T3", 0);
  full_check(H, "T3");
  vh_count("template_T3", 1);
}

/* T4: a chain of partially overlapping level-0 files above two levels of base files, then a compaction
   restricted to one end of the chain (every file that shares keys with a moved file must move too) */
static void template_l0_chain(hist_t *H) {
  int n = (int)H->m.nrows, i, g, nf, mirror = vr_chance(&H->r, 300);
  int pos[8], lo, hi;
  ldb_slice_t kb, ke;
  if (n < 24) return;
  /* base: two disjoint groups, each flushed twice -> two files in a deep level and two above them */
  for (g = 0; g < 2; g++) {
    int a = g == 0 ? 0 : n / 3 + 1, b = g == 0 ? n / 3 : n - 1, rep;
    for (rep = 0; rep < 2; rep++) {
      do_put(H, a, 20 + vr_uniform(&H->r, 200), 0);
      do_put(H, b, 20 + vr_uniform(&H->r, 200), 0);
      if (vr_chance(&H->r, 500)) do_put(H, a + (b - a) / 2, 30, 0);
      expect_ok(H, ldb_test_compact_memtable(H->h.db), "flush(T4 base)");
      H->flushes++;
    }
  }
  /* chain of 3 files over positions q0 < q1 < ... < q7: file f writes q[2f] .. q[2f+3], so neighbours share
     two keys and the two end files do not overlap; the lowest file straddles the boundary between the two
     base groups, so including it in a compaction also widens the next level's inputs */
  nf = 3;
  {
    int split = n / 3, hi_lo = split + 2, hi_n = n - 3 - hi_lo;
    pos[0] = 2 + (int)vr_uniform(&H->r, (uint32_t)(split > 6 ? split - 5 : 1));
    pos[1] = pos[0] + 1 + (int)vr_uniform(&H->r, 2);
    if (pos[1] >= split) pos[1] = split - 1;
    if (pos[1] <= pos[0]) pos[1] = pos[0] + 1;
    for (i = 2; i < 8; i++) pos[i] = hi_lo + hi_n * (i - 2) / 6 + (int)vr_uniform(&H->r, (uint32_t)(hi_n / 12 + 1));
    for (i = 3; i < 8; i++) if (pos[i] <= pos[i - 1]) pos[i] = pos[i - 1] + 1;
    if (pos[7] >= n) return;
  }
  for (i = 0; i < nf; i++) {
    int f = mirror ? nf - 1 - i : i, j;     /* oldest file at the low or at the high end */
    for (j = 0; j < 4; j++) do_put(H, pos[2 * f + j], 10 + vr_uniform(&H->r, 300), 0);
    if (vr_chance(&H->r, 300)) do_del(H, pos[2 * f + 1], 0);
    if (H->nhot < 7) { H->hot[H->nhot++] = pos[2 * f + 2]; }
    expect_ok(H, ldb_test_compact_memtable(H->h.db), "flush(T4 chain)");
    H->flushes++;
  }
  full_check(H, "T4-built");
  /* compact only one end of the chain */
  if (vr_chance(&H->r, 650)) { lo = pos[6]; hi = pos[7]; } else { lo = pos[0]; hi = pos[1]; }
  kb = row_key(H, lo); ke = row_key(H, hi);
  shadow_start(H);
  if (vr_chance(&H->r, 500)) ldb_compact(H->h.db, &kb, &ke);
  else ldb_test_compact_range(H->h.db, 0, &kb, &ke);
  shadow_stop(H);
  H->compactions++;
  ldb_verif_wait_idle(H->h.db);
  layoutmon_check(H->h.db, &H->h, "T4-compacted", 0);
  full_check(H, "T4-compacted");
  vh_count("template_T4", 1);
}

/* T5: a file that ends with the newer versions of a user key (older versions start the next file of the level)
   enters a compaction only through the input-growing step: the compaction starts from another file of the level,
   the next level's input stretches the range into the straddling file but stops short of the shared key.  Every
   file holding older versions of that key must move down with it. */
static void template_grown_straddle(hist_t *H) {
  int n = (int)H->m.nrows, q[7], i, saved_max = H->max_snaps;
  ldb_slice_t kb, ke;
  if (n < 21) return;
  /* a < b < c < e < f < g < k in comparator order */
  for (i = 0; i < 7; i++) q[i] = i * (n / 7) + (int)vr_uniform(&H->r, (uint32_t)(n / 7));
  H->hot[H->nhot++] = q[6];
  H->max_snaps = MAX_SNAPS;
  /* P = [b..f], sinks to the deepest level a flush may choose */
  do_put(H, q[1], 50 + vr_uniform(&H->r, 500), 0);
  do_put(H, q[4], 50 + vr_uniform(&H->r, 500), 0);
  expect_ok(H, ldb_test_compact_memtable(H->h.db), "flush(T5 P)");
  ldb_test_compact_range(H->h.db, 0, NULL, NULL);
  ldb_test_compact_range(H->h.db, 1, NULL, NULL);
  /* Y = [e] one level above P */
  do_put(H, q[3], 50 + vr_uniform(&H->r, 500), 0);
  expect_ok(H, ldb_test_compact_memtable(H->h.db), "flush(T5 Y)");
  /* e again, k old, pin, k new (larger than a table file), compaction of [g..k]: output cut between the versions of k */
  do_put(H, q[3], 50 + vr_uniform(&H->r, 500), 0);
  if (vr_chance(&H->r, 300)) do_del(H, q[6], 0); else do_put(H, q[6], 100 + vr_uniform(&H->r, 3000), 0);
  snap_take(H);
  do_put(H, q[6], (1100 << 10) + vr_uniform(&H->r, 200 << 10), 0);
  kb = row_key(H, q[5]); ke = row_key(H, q[6]);
  ldb_compact(H->h.db, &kb, &ke);
  ldb_verif_wait_idle(H->h.db);
  layoutmon_check(H->h.db, &H->h, "T5-straddle-built", 0);
  /* A = [a..c] next to the straddling file */
  do_put(H, q[0], 50 + vr_uniform(&H->r, 500), 0);
  do_put(H, q[2], 50 + vr_uniform(&H->r, 500), 0);
  expect_ok(H, ldb_test_compact_memtable(H->h.db), "flush(T5 A)");
  H->flushes += 4;
  full_check(H, "T5-built");
  /* compaction that starts from A only */
  kb = row_key(H, q[0]); ke = row_key(H, q[2]);
  shadow_start(H);
  if (vr_chance(&H->r, 500)) ldb_compact(H->h.db, &kb, &ke);
  else ldb_test_compact_range(H->h.db, 1, &kb, &ke);
  shadow_stop(H);
  H->compactions += 4;
  ldb_verif_wait_idle(H->h.db);
  layoutmon_check(H->h.db, &H->h, "T5-compacted", 0);
  full_check(H, "T5-compacted");
  while (H->nsnaps > 0) snap_release_at(H, H->nsnaps - 1);
  H->max_snaps = saved_max;
  vh_count("template_T5", 1);
}

/* ------------------------------------------------------------------ */
/* one history */

typedef struct weights_s {
  int put, del, batch, get, flush, crange, cmanual, call, reopen, snap, unsnap, iopen, iclose, idrive, approx, prop, midc;
} weights_t;

static void run_case(uint64_t seed, int caseidx, int focus, const char *base, int steps_max) {
  hist_t *H = calloc(1, sizeof(hist_t));
  H->man_obj = -1; H->man_name = -1;
  cfg_t cfg;
  char dir[600];
  int nkeys, total, rc;
  weights_t w = {300, 80, 60, 150, 18, 18, 5, 3, 8, 20, 20, 15, 12, 100, 6, 6, 5};
  double t0 = vh_now();

  H->focus = focus;
  H->caseidx = caseidx;
  vr_seed(&H->r, seed * 1000003ULL + (uint64_t)caseidx * 7919ULL + (uint64_t)focus * 104729ULL);
  cfg_random(&cfg, &H->r);
  vr_seed(&H->spell_rng, seed * 77 + (uint64_t)caseidx);
  if (vr_chance(&H->r, 130)) { cfg.cmp_kind = CMP_NOCASE; cfg.filter_bits = 0; }   /* byte-wise bloom is not legal here */
  H->tmpl = caseidx % 5;   /* 0 none, 1 straddle, 2 tombstone, 3 overlap, 4 level-0 chain */
  if (H->tmpl == 0 && (caseidx / 5) % 2 == 1) H->tmpl = 5;   /* 5 straddling file reached through input growing */
  if (H->tmpl == 1 || H->tmpl == 5) cfg.max_file_size = 1 << 20;
  if (H->tmpl == 5) cfg.compression = 0;
  H->max_snaps = focus == F_C06 ? MAX_SNAPS : 3;
  switch (focus) {
    case F_C06: w.snap = 70; w.unsnap = 45; w.flush = 30; w.crange = 35; w.cmanual = 8; w.idrive = 60; break;
    case F_C07: w.idrive = 500; w.iopen = 40; w.iclose = 25; w.get = 60; w.flush = 22; w.crange = 22; break;
    case F_C13: w.iopen = 45; w.iclose = 30; w.flush = 40; w.crange = 40; w.reopen = 14; w.idrive = 60; w.midc = 14; w.call = 6; break;
    case F_C14: w.flush = 40; w.crange = 50; w.cmanual = 10; w.reopen = 16; w.call = 8; break;
    default: break;
  }
  nkeys = 40 + (int)vr_uniform(&H->r, 360);
  m_init(&H->m, cfg.cmp_kind);
  universe_generate(&H->m, &H->r, nkeys);
  if (vr_chance(&H->r, 500)) {
    H->loc_width = 2 + (int)vr_uniform(&H->r, (uint32_t)(H->m.nrows / 6 + 1));
    H->loc_center = (int)vr_uniform(&H->r, (uint32_t)H->m.nrows);
  }
  H->vbuf = malloc(MAX_VAL);
  H->steps = 300 + (int)vr_uniform(&H->r, (uint32_t)(steps_max > 300 ? steps_max - 300 : 1));
  snprintf(dir, sizeof(dir), "%s/case-%d", base, caseidx);
  vh_rm_rf(dir);
  vh_set_context("histmon focus=%s seed=%llu case=%d", focus_name[focus], (unsigned long long)seed, caseidx);

  iom_trace_reset();
  iom_clear_roots();
  iom_add_root(dir);
  iom_trace(1, 0);

  dbh_init(&H->h, dir, &cfg);
  rc = dbh_open(&H->h, 1);
  if (rc != LDB_OK) vh_fatal("case %d: cannot create database: %d", caseidx, rc);
  pthread_create(&H->shadow, NULL, shadow_main, H);

  if (H->tmpl == 1 && (focus == F_C01 || focus == F_C14 || focus == F_C06 || focus == F_C13)) template_straddle(H);
  else if (H->tmpl == 2) template_tombstone(H);
  else if (H->tmpl == 3) template_overlap(H);
  else if (H->tmpl == 4) template_l0_chain(H);
  else if (H->tmpl == 5) template_grown_straddle(H);

  total = w.put + w.del + w.batch + w.get + w.flush + w.crange + w.cmanual + w.call + w.reopen + w.snap +
          w.unsnap + w.iopen + w.iclose + w.idrive + w.approx + w.prop + w.midc;

  for (H->step = 0; H->step < H->steps; H->step++) {
    int c = (int)vr_uniform(&H->r, (uint32_t)total);
    int row = pick_row(H);
    if (H->nhot > 0 && vr_chance(&H->r, 60)) row = H->hot[vr_uniform(&H->r, (uint32_t)H->nhot)];
#define TAKE(x) (c < (x) ? 1 : (c -= (x), 0))
    if (TAKE(w.put)) {
      do_put(H, row, value_len_random(&H->r, H->focus == F_C01 || H->focus == F_C14), vr_chance(&H->r, 50));
      check_get(H, row);
    } else if (TAKE(w.del)) {
      do_del(H, row, vr_chance(&H->r, 50));
      check_get(H, row);
    } else if (TAKE(w.batch)) {
      do_batch(H);
    } else if (TAKE(w.get)) {
      if (H->nsnaps > 0 && vr_chance(&H->r, 400)) {
        int s = (int)vr_uniform(&H->r, (uint32_t)H->nsnaps);
        check_get_at(H, row, H->snaps[s].s, H->snaps[s].ver, "C06", "random-get");
      } else {
        check_get(H, row);
      }
    } else if (TAKE(w.flush)) {
      structural(H, 0);
    } else if (TAKE(w.crange)) {
      structural(H, 1);
    } else if (TAKE(w.cmanual)) {
      structural(H, 2);
    } else if (TAKE(w.call)) {
      structural(H, vr_chance(&H->r, 500) ? 4 : 3);
    } else if (TAKE(w.midc)) {
      flush_mid_compaction(H);
    } else if (TAKE(w.reopen)) {
      do_reopen(H, 1);
    } else if (TAKE(w.snap)) {
      snap_take(H);
    } else if (TAKE(w.unsnap)) {
      snap_release(H);
    } else if (TAKE(w.iopen)) {
      iter_open(H);
    } else if (TAKE(w.iclose)) {
      if (H->niters > 0) iter_close_at(H, (int)vr_uniform(&H->r, (uint32_t)H->niters));
    } else if (TAKE(w.idrive)) {
      if (H->niters == 0) iter_open(H);
      iter_drive(H, &H->iters[vr_uniform(&H->r, (uint32_t)H->niters)], 1 + (int)vr_uniform(&H->r, 12));
    } else if (TAKE(w.approx)) {
      ldb_range_t rg;
      uint64_t sz = 0;
      int b = (int)vr_uniform(&H->r, (uint32_t)H->m.nrows);
      rg.start = row_key(H, row < b ? row : b);
      rg.limit = row_key(H, row < b ? b : row);
      ldb_approximate_sizes(H->h.db, &rg, 1, &sz);
      vh_count("approx_sizes", 1);
    } else {
      static const char *props[] = {"leveldb.stats", "leveldb.sstables", "leveldb.approximate-memory-usage",
                                    "leveldb.num-files-at-level0", "leveldb.num-files-at-level3"};
      char *val = NULL;
      int ok = ldb_property(H->h.db, props[vr_uniform(&H->r, 5)], &val);
      if (!ok) viol(H, "C01", "property-failed", "known property not served");
      if (val) ldb_free(val);
    }
#undef TAKE
    if (H->step % 50 == 49) full_check(H, "periodic");
  }

  /* epilogue: final checks, leak check, clean close, reopen, re-check */
  full_check(H, "final");
  release_everything(H);
  quiescent_checks(H, "final", 1);
  do_reopen(H, 0);
  __atomic_store_n(&H->shadow_run, 2, __ATOMIC_SEQ_CST);
  pthread_join(H->shadow, NULL);
  c13_scan(H);
  dbh_close(&H->h);

  /* evidence */
  vh_count("cases", 1);
  vh_count("steps", (uint64_t)H->steps);
  vh_count("flushes", (uint64_t)H->flushes);
  vh_count("manual_compactions", (uint64_t)H->compactions);
  vh_count("reopens", (uint64_t)H->reopens);
  vh_count("log_compactions", H->h.log.compacting);
  vh_count("log_level0_tables", H->h.log.level0_started);
  vh_count("log_trivial_moves", H->h.log.moved);
  vh_count("log_deletes", H->h.log.deleted);
  vh_count("log_reused_logs", H->h.log.reusing);
  vh_count("shadow_reads", H->shadow_reads);
  if (H->flushes > 0 && H->h.log.compacting > 0 && H->reopens > 0 && H->multi_level_checks > 0)
    vh_count("nontrivial_histories", 1);
  if (caseidx % 8 == 0 || vh_nviolations() > 0) {
    vh_sample(focus == F_C01 ? "C01" : focus == F_C06 ? "C06" : focus == F_C07 ? "C07" : focus == F_C13 ? "C13" : "C14",
              "case %d seed %llu: cfg=%s keys=%zu steps=%d template=T%d flushes=%d manual_compactions=%d "
              "engine_compactions=%llu trivial_moves=%llu reopens=%d full_checks=%d (multi-level %d) shadow_reads=%llu wall=%.2fs",
              caseidx, (unsigned long long)seed, cfg_id(&cfg), H->m.nrows, H->steps, H->tmpl, H->flushes,
              H->compactions, (unsigned long long)H->h.log.compacting, (unsigned long long)H->h.log.moved,
              H->reopens, H->fullchecks, H->multi_level_checks, (unsigned long long)H->shadow_reads,
              vh_now() - t0);
  }
  dbh_destroy(&H->h);
  iom_trace(0, 0);
  iom_pause(1);
  vh_rm_rf(dir);
  iom_pause(-1);
  m_free(&H->m);
  free(H->vbuf);
  free(H->created[0]); free(H->created[1]); free(H->created[2]);
  free(H->listed_clk);
  free(H);
}

int main(int argc, char **argv) {
  uint64_t seed = 1;
  int first = 0, count = 1, focus = F_C01, steps_max = 1500, i;
  const char *base = "/dev/shm/verif-histmon";
  for (i = 1; i < argc; i++) {
    if (!strcmp(argv[i], "--seed") && i + 1 < argc) seed = strtoull(argv[++i], NULL, 0);
    else if (!strcmp(argv[i], "--first") && i + 1 < argc) first = atoi(argv[++i]);
    else if (!strcmp(argv[i], "--count") && i + 1 < argc) count = atoi(argv[++i]);
    else if (!strcmp(argv[i], "--steps-max") && i + 1 < argc) steps_max = atoi(argv[++i]);
    else if (!strcmp(argv[i], "--dir") && i + 1 < argc) base = argv[++i];
    else if (!strcmp(argv[i], "--focus") && i + 1 < argc) {
      const char *f = argv[++i];
      int k;
      for (k = 0; k < 5; k++) if (!strcmp(f, focus_name[k])) focus = k;
    } else {
      fprintf(stderr, "unknown argument %s\n", argv[i]);
      return 2;
    }
  }
  vh_init(NULL);
  mallopt(M_MMAP_THRESHOLD, 64 << 20);
  mallopt(M_TRIM_THRESHOLD, 256 << 20);
  layoutmon_deep = (focus == F_C14) ? 1 : 8;
  vh_mkdir_p(base);
  for (i = first; i < first + count; i++) run_case(seed, i, focus, base, steps_max);
  vh_finish();
  return 0;
}
